#!/usr/bin/env python3
"""
tools/confirm_seed.py <seed_dir> <worktree> <property> <name>

Confirms a seeded change independently (compiles, existing tests pass with it, demonstration passes
without it and fails with it) in the given scratch worktree, runs all quick checks against it via
try_patch.py (applied to /repo and undone straight afterwards) and, if confirmed, stores it as
/verif/seeded/<name>/ (patch.diff, demo/, notes.md, meta.json).
"""
import json
import os
import re
import shutil
import subprocess
import sys

V = os.path.dirname(os.path.dirname(os.path.abspath(__file__)))


def run(cmd, cwd=None, timeout=3600):
    p = subprocess.run(cmd, shell=True, cwd=cwd, capture_output=True, text=True, timeout=timeout,
                       env=dict(os.environ, CARGO_NET_OFFLINE="true"))
    return p.returncode, p.stdout + p.stderr


def main():
    seed, wt, prop, name = sys.argv[1:5]
    patch = os.path.join(seed, "patch.diff")
    demo = os.path.join(seed, "demo")
    ran = []
    rc, out = run("git status --porcelain", wt)
    if out.strip():
        run("git checkout -- . && git clean -fdq", wt)
    # demo must point at the worktree
    rc, out = run("cargo run --offline --release 2>&1 | tail -5", demo)
    rc0, _ = run("cargo run --offline --release", demo)
    ran.append("demo on original code: exit %d" % rc0)
    rc, out = run("git apply %s" % patch, wt)
    if rc != 0:
        print("patch does not apply:", out)
        return 2
    rct, outt = run("cargo test --offline 2>&1 | grep -E 'test result|FAILED|^error' ", wt)
    tests_ok = "FAILED" not in outt and not re.search(r"^error", outt, re.M) and outt.count("test result: ok") >= 3
    ran.append("cargo test --offline with change: " + " / ".join(l.strip()[:60] for l in outt.strip().splitlines()))
    rc1, out1 = run("cargo run --offline --release", demo)
    ran.append("demo with change: exit %d" % rc1)
    run("git checkout -- .", wt)
    run("rm -rf target", demo)
    run("rm -rf target", wt)
    confirmed = rc0 == 0 and rc1 != 0 and tests_ok
    print("confirmed=%s demo_orig=%d demo_mut=%d tests_ok=%s" % (confirmed, rc0, rc1, tests_ok))
    if not confirmed:
        print(outt)
        return 1
    # SEED_CHECKS="C14 C05": restrict the checks that are run (default: all 18)
    rc, out = run("python3 %s/tools/try_patch.py %s %s" % (V, patch, os.environ.get("SEED_CHECKS", "")), V, timeout=7200)
    print(out)
    caught = re.search(r"CAUGHT BY: (.*)", out)
    caught = caught.group(1).split() if caught and "(none)" not in caught.group(1) else []
    details = {}
    for l in out.splitlines():
        m = re.match(r"(C\d+) rc=(\d+) (.*)", l)
        if m and m.group(2) == "1":
            details[m.group(1)] = m.group(3)[:300]
    dst = os.path.join(V, "seeded", name)
    if os.path.exists(dst):
        shutil.rmtree(dst)
    os.makedirs(dst)
    shutil.copy(patch, dst)
    shutil.copytree(demo, os.path.join(dst, "demo"), ignore=shutil.ignore_patterns("target"))
    if os.path.exists(os.path.join(seed, "notes.md")):
        shutil.copy(os.path.join(seed, "notes.md"), dst)
    notes = open(os.path.join(seed, "notes.md")).read() if os.path.exists(os.path.join(seed, "notes.md")) else ""
    meta = {
        "breaks_property": prop,
        "needs_to_manifest": "see notes.md",
        "origin": "independent sub-agent given only the property text and a scratch worktree",
        "what_i_ran": ran + ["tools/try_patch.py patch.diff %s(patch applied to /repo and undone afterwards)" % (("checks " + os.environ["SEED_CHECKS"] + " ") if os.environ.get("SEED_CHECKS") else "(all 18 quick checks) ")],
        "caught_by": caught,
        "caught_details": details,
        "caught_by_target_property_check": prop in caught,
    }
    json.dump(meta, open(os.path.join(dst, "meta.json"), "w"), indent=1)
    print("stored", dst, "caught_by", caught)
    return 0


if __name__ == "__main__":
    sys.exit(main())

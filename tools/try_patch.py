#!/usr/bin/env python3
"""
tools/try_patch.py <patch.diff> [ID ...]   — apply a seeded change to /repo, run the quick checks
(all 18 or the given ones), print which raise a VIOLATION, and undo the change straight afterwards.
Never commits anything in /repo.
"""
import json
import os
import subprocess
import sys

V = os.path.dirname(os.path.dirname(os.path.abspath(__file__)))


def main():
    patch = os.path.abspath(sys.argv[1])
    ids = sys.argv[2:] or [json.loads(l)["id"] for l in open(os.path.join(V, "properties.jsonl"))]
    st = subprocess.run(["git", "-C", "/repo", "status", "--porcelain"], capture_output=True, text=True).stdout.strip()
    if st:
        print("refusing: /repo is not clean:\n" + st)
        return 2
    r = subprocess.run(["git", "-C", "/repo", "apply", patch], capture_output=True, text=True)
    if r.returncode != 0:
        print("patch does not apply:", r.stderr)
        return 2
    res = {}
    try:
        for i in ids:
            p = subprocess.run([os.path.join(V, "check"), i, "--tier", "quick"], capture_output=True, text=True, cwd=V)
            lines = p.stdout.strip().splitlines()
            viol = [l for l in lines if l.startswith("VIOLATION")]
            det = [l for l in lines if l.startswith("detail:")]
            res[i] = (p.returncode, viol[0] if viol else "", det[0][:220] if det else (lines[-1][:200] if lines and p.returncode not in (0,) else ""))
            print("%s rc=%d %s %s" % (i, p.returncode, ("VIOLATION" + (" (no-failing-input-found)" if viol and viol[0].endswith("no-failing-input-found") else "")) if viol else "", res[i][2]))
            sys.stdout.flush()
    finally:
        subprocess.run(["git", "-C", "/repo", "checkout", "--", "."])
    caught = [i for i in ids if res.get(i, (0,))[0] == 1]
    print("CAUGHT BY:", " ".join(caught) if caught else "(none)")
    return 0


if __name__ == "__main__":
    sys.exit(main())

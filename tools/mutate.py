#!/usr/bin/env python3
"""
tools/mutate.py [--n N] [--seed S] [--files f1,f2] [--out FILE]

Systematic small mutations of /repo/src (one token-level change per mutant), to measure what the
checks detect.  For every mutant: apply -> `cargo test --offline` in /repo (mutants the existing
suite already kills are only counted) -> all 18 quick checks -> undo.  Results are appended to
the --out file (JSON lines).  /repo is always restored (git checkout) even on interruption.
Never commits anything.
"""
import json
import os
import random
import re
import subprocess
import sys

V = os.path.dirname(os.path.dirname(os.path.abspath(__file__)))
FILES = ["src/transport/decode.rs", "src/transport/encode.rs", "src/transport/decoder_reader.rs", "src/util.rs",
         "src/lib.rs", "src/parser/mod.rs", "src/parser/tlf.rs", "src/parser/num.rs", "src/parser/octet_string.rs",
         "src/parser/common.rs", "src/parser/complete.rs", "src/parser/streaming.rs"]

RULES = [
    (r"(?<![<>=!-])<=(?!=)", "<"), (r"(?<![<>=!-])>=(?!=)", ">"),
    (r"(?<![<>=!&-])<(?![<=])", "<="), (r"(?<![<>=!-])>(?![>=])", ">="),
    (r"==", "!="), (r"!=", "=="),
    (r"&&", "||"), (r"\|\|", "&&"),
    (r"\+ 1\b", "+ 2"), (r"\+ 1\b", "+ 0"), (r"- 1\b", "- 0"), (r"\+= 1\b", "+= 2"),
    (r"\b3\b", "2"), (r"\b3\b", "4"), (r"\b4\b", "3"), (r"\b4\b", "5"), (r"\b8\b", "7"), (r"\b16\b", "15"), (r"\b16\b", "17"),
    (r"\b0\b", "1"), (r"\b1\b", "0"), (r"\b2\b", "3"), (r"\b7\b", "8"), (r"\b6\b", "7"),
    (r"0x1b", "0x1a"), (r"0x1a", "0x1b"), (r"0x01", "0x00"), (r"0x00\b", "0x01"), (r"0x7F", "0x80"), (r"0xFF", "0x00"),
    (r"0x0F", "0x1F"), (r"0x07", "0x0F"), (r"0x80", "0x40"),
    (r"\btrue\b", "false"), (r"\bfalse\b", "true"),
    (r"% 4", "% 2"), (r"% 4", "% 8"),
    (r"\.min\(", ".max("), (r"checked_mul\(16\)", "checked_mul(8)"), (r"checked_sub", "wrapping_sub"),
    (r"swap_bytes\(\)", "to_be()"), (r"from_le_bytes", "from_be_bytes"), (r"to_le_bytes", "to_be_bytes"), (r"from_be_bytes", "from_le_bytes"),
    (r"Ty::Unsigned", "Ty::Integer"), (r"Ty::Integer", "Ty::Unsigned"), (r"Ty::ListOf", "Ty::OctetString"),
    (r"ErrKind::Eof", "ErrKind::Other"), (r"ErrKind::WouldBlock", "ErrKind::Other"), (r"ErrKind::Other", "ErrKind::Eof"),
    (r"Some\(", "None.or(Some("),  # no-op shaped; filtered below
]
DELETE_LINE = re.compile(r"^\s*(self\.[a-z_]+ = [^;]+;|buf\.clear\(\);|\*num_[a-z_]+ = [^;]+;|self\.crc\s*\.update\([^;]*\);|self\.reset\(buf\);|self\.flush\(buf\)\?;)\s*$")


def code_lines(path):
    """indices of lines that are real code (not comments/doc, not in the test module)"""
    lines = open(path).read().split("\n")
    out = []
    for i, l in enumerate(lines):
        if re.match(r"\s*#\[cfg\(test\)\]", l) or re.match(r"\s*#\[test\]", l):
            break
        s = l.strip()
        if not s or s.startswith("//") or s.startswith("#[") or s.startswith("use ") or s.startswith("pub use"):
            continue
        out.append(i)
    return lines, out


def all_mutants():
    muts = []
    for f in FILES:
        path = os.path.join("/repo", f)
        lines, idxs = code_lines(path)
        for i in idxs:
            l = lines[i]
            code = l.split("//")[0]
            if DELETE_LINE.match(l):
                muts.append((f, i, l, re.sub(r"\S.*$", "// (statement deleted)", l), "delete-statement"))
            for pat, rep in RULES:
                if rep.startswith("None.or"):
                    continue
                for m in re.finditer(pat, code):
                    new = l[:m.start()] + rep + l[m.end():]
                    if new != l:
                        muts.append((f, i, l, new, "%s -> %s" % (pat, rep)))
    return muts


def sh(cmd, cwd=None, timeout=3600):
    p = subprocess.run(cmd, shell=True, cwd=cwd, capture_output=True, text=True, timeout=timeout,
                       env=dict(os.environ, CARGO_NET_OFFLINE="true"))
    return p.returncode, p.stdout + p.stderr


def main():
    args = sys.argv[1:]
    n = int(args[args.index("--n") + 1]) if "--n" in args else 40
    seed = int(args[args.index("--seed") + 1]) if "--seed" in args else 1
    out = args[args.index("--out") + 1] if "--out" in args else "/root/scratch/mutants.jsonl"
    global FILES
    if "--files" in args:
        FILES = args[args.index("--files") + 1].split(",")
    rc, st = sh("git -C /repo status --porcelain")
    if st.strip():
        print("refusing: /repo not clean")
        return 2
    muts = all_mutants()
    random.Random(seed).shuffle(muts)
    print("candidate mutants:", len(muts), "running", n)
    ids = [json.loads(l)["id"] for l in open(os.path.join(V, "properties.jsonl"))]
    done = 0
    for (f, i, old, new, rule) in muts:
        if done >= n:
            break
        path = os.path.join("/repo", f)
        lines = open(path).read().split("\n")
        if lines[i] != old:
            continue
        lines[i] = new
        rec = {"file": f, "line": i + 1, "old": old.strip(), "new": new.strip(), "rule": rule}
        try:
            open(path, "w").write("\n".join(lines))
            rcb, ob = sh("cargo build --offline", "/repo")
            rc, o = ("", "") if rcb != 0 else sh("cargo test --offline 2>&1 | grep -E 'test result|FAILED' ", "/repo")
            if rcb != 0:
                rec["status"] = "does-not-compile"
            elif "FAILED" in o or o.count("test result: ok") < 3:
                rec["status"] = "killed-by-existing-tests"
            else:
                caught = []
                for pid in ids:
                    p = subprocess.run([os.path.join(V, "check"), pid], capture_output=True, text=True, cwd=V)
                    if p.returncode == 1:
                        caught.append(pid + ("(nf)" if "no-failing-input-found" in p.stdout else ""))
                    elif p.returncode != 0:
                        caught.append(pid + "(error)")
                rec["status"] = "caught" if caught else "NOT-CAUGHT"
                rec["caught_by"] = caught
                done += 1
        finally:
            subprocess.run(["git", "-C", "/repo", "checkout", "--", "."])
        with open(out, "a") as fo:
            fo.write(json.dumps(rec) + "\n")
        print(rec["status"], f, i + 1, rule, rec.get("caught_by", ""))
        sys.stdout.flush()
    return 0


if __name__ == "__main__":
    sys.exit(main())

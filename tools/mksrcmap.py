#!/usr/bin/env python3
"""
tools/mksrcmap.py — records, for every source file of /repo that a property is anchored in, a hash of
its comment- and whitespace-normalised text at the commit the model was last reviewed against
(/verif/srcmap.json).  `./check` compares the working tree with it: a property whose anchor files
differ from the reviewed text gets the thorough-tier exploration even when the quick tier is asked
for (the model may no longer describe that code, so the correspondence is searched deeper).
Drift never raises an alarm by itself.
"""
import hashlib, json, os, subprocess, sys
V = os.path.dirname(os.path.dirname(os.path.abspath(__file__)))


def normalise(src):
    """strip // and /* */ comments outside string/char literals, then all whitespace"""
    out = []
    i, n = 0, len(src)
    while i < n:
        c = src[i]
        if c == '"':
            j = i + 1
            while j < n and src[j] != '"':
                j += 2 if src[j] == "\\" else 1
            out.append(src[i:j + 1]); i = j + 1
        elif c == "'" and i + 2 < n and (src[i + 2] == "'" or (src[i + 1] == "\\" and "'" in src[i + 2:i + 8])):
            j = src.index("'", i + 2 if src[i + 1] != "\\" else i + 3)
            out.append(src[i:j + 1]); i = j + 1
        elif src.startswith("//", i):
            j = src.find("\n", i); i = n if j < 0 else j
        elif src.startswith("/*", i):
            j = src.find("*/", i + 2); i = n if j < 0 else j + 2
        else:
            out.append(c); i += 1
    return "".join("".join(out).split())


def file_hash(path):
    try:
        return hashlib.sha256(normalise(open(path, encoding="utf-8", errors="replace").read()).encode()).hexdigest()
    except OSError:
        return "missing"


def source_files(root="/repo"):
    fs = []
    for d, _, names in os.walk(os.path.join(root, "src")):
        for nm in names:
            if nm.endswith(".rs"):
                fs.append(os.path.relpath(os.path.join(d, nm), root))
    return sorted(fs)


def group(f):
    """layer of a source file; `src/util.rs` (CRC, Buffer, byte sources) belongs to every property"""
    if f == "src/util.rs":
        return "util"
    return "parser" if f.startswith("src/parser/") else "transport"


def groups_of(prop):
    """layers a property depends on: those of its anchor files, always `util` (C10 also parses what it reads)"""
    g = {"util"}
    for l in open(os.path.join(V, "properties.jsonl")):
        d = json.loads(l)
        if d["id"] == prop:
            g |= {group(f) for f in d["anchors"]["files"]}
            if prop == "C10":
                g.add("parser")
            return g
    return {"util", "parser", "transport"}


def drift(prop):
    """files of the property's source groups whose normalised text differs from the reviewed one"""
    try:
        m = json.load(open(os.path.join(V, "srcmap.json")))["files"]
    except Exception:
        return ["srcmap.json missing"]
    gs = groups_of(prop)
    cur = {f: file_hash(os.path.join("/repo", f)) for f in source_files()}
    return sorted(f for f in set(m) | set(cur) if group(f) in gs and m.get(f) != cur.get(f))


def main():
    head = subprocess.run(["git", "-C", "/repo", "rev-parse", "HEAD"], capture_output=True, text=True).stdout.strip()
    dirty = subprocess.run(["git", "-C", "/repo", "status", "--porcelain"], capture_output=True, text=True).stdout.strip()
    if dirty:
        print("refusing: /repo is not clean"); return 2
    m = {"reviewed_commit": head, "files": {f: file_hash(os.path.join("/repo", f)) for f in source_files()}}
    json.dump(m, open(os.path.join(V, "srcmap.json"), "w"), indent=1)
    print("srcmap.json:", len(m["files"]), "files at", head[:7])
    return 0


if __name__ == "__main__":
    sys.exit(main())

#!/usr/bin/env python3
"""
tools/mksrcmap.py — records, for every source file of /repo that a property is anchored in, a hash of
its comment- and whitespace-normalised text at the commit the model was last reviewed against
(/verif/srcmap.json).  `./check` compares the working tree with it: a property whose anchor files
differ from the reviewed text gets the thorough-tier exploration even when the quick tier is asked
for (the model may no longer describe that code, so the correspondence is searched deeper).
Drift never raises an alarm by itself.
"""
import hashlib, json, os, re, subprocess, sys
V = os.path.dirname(os.path.dirname(os.path.abspath(__file__)))


def normalise(src):
    """strip // and /* */ comments outside string/char literals, then all whitespace"""
    out = []
    i, n = 0, len(src)
    while i < n:
        c = src[i]
        if c == '"':
            j = i + 1
            while j < n and src[j] != '"':
                j += 2 if src[j] == "\\" else 1
            out.append(src[i:j + 1]); i = j + 1
        elif c == "'" and i + 2 < n and (src[i + 2] == "'" or (src[i + 1] == "\\" and "'" in src[i + 2:i + 8])):
            j = src.index("'", i + 2 if src[i + 1] != "\\" else i + 3)
            out.append(src[i:j + 1]); i = j + 1
        elif src.startswith("//", i):
            j = src.find("\n", i); i = n if j < 0 else j
        elif src.startswith("/*", i):
            j = src.find("*/", i + 2); i = n if j < 0 else j + 2
        else:
            out.append(c); i += 1
    return "".join("".join(out).split())


def file_hash(path):
    try:
        return hashlib.sha256(normalise(open(path, encoding="utf-8", errors="replace").read()).encode()).hexdigest()
    except OSError:
        return "missing"


def source_files(root="/repo"):
    fs = []
    for d, _, names in os.walk(os.path.join(root, "src")):
        for nm in names:
            if nm.endswith(".rs"):
                fs.append(os.path.relpath(os.path.join(d, nm), root))
    return sorted(fs)


def group(f):
    """layer of a source file; `src/util.rs` (CRC, Buffer, byte sources) belongs to every property"""
    if f == "src/util.rs":
        return "util"
    return "parser" if f.startswith("src/parser/") else "transport"


def groups_of(prop):
    """layers a property depends on: those of its anchor files, always `util` (C10 also parses what it reads)"""
    g = {"util"}
    for l in open(os.path.join(V, "properties.jsonl")):
        d = json.loads(l)
        if d["id"] == prop:
            g |= {group(f) for f in d["anchors"]["files"]}
            if prop == "C10":
                g.add("parser")
            return g
    return {"util", "parser", "transport"}


def drift(prop):
    """files of the property's source groups whose normalised text differs from the reviewed one"""
    try:
        m = json.load(open(os.path.join(V, "srcmap.json")))["files"]
    except Exception:
        return ["srcmap.json missing"]
    gs = groups_of(prop)
    cur = {f: file_hash(os.path.join("/repo", f)) for f in source_files()}
    return sorted(f for f in set(m) | set(cur) if group(f) in gs and m.get(f) != cur.get(f))



# ---- literals (for the generators' dictionary) -------------------------------------------------------------

def strip_tests_and_comments(src):
    """non-test code with comments removed (string literals kept)"""
    out = []
    i, n = 0, len(src)
    while i < n:
        c = src[i]
        if c == '"':
            j = i + 1
            while j < n and src[j] != '"':
                j += 2 if src[j] == "\\" else 1
            out.append(src[i:j + 1]); i = j + 1
        elif src.startswith("//", i):
            j = src.find("\n", i); i = n if j < 0 else j
        elif src.startswith("/*", i):
            j = src.find("*/", i + 2); i = n if j < 0 else j + 2
        else:
            out.append(c); i += 1
    text = "".join(out)
    m = re.search(r"#\[cfg\(test\)\]", text)
    return text[:m.start()] if m else text


def unescape(s):
    out = bytearray()
    i = 0
    while i < len(s):
        if s[i] == "\\" and i + 1 < len(s):
            e = s[i + 1]
            if e == "x" and i + 3 < len(s):
                try:
                    out.append(int(s[i + 2:i + 4], 16)); i += 4; continue
                except ValueError:
                    pass
            out.append({"n": 10, "r": 13, "t": 9, "0": 0, "\\": 92, '"': 34, "'": 39}.get(e, ord(e) & 0xff)); i += 2
        else:
            out.extend(s[i].encode("utf-8")); i += 1
    return bytes(out)


def literals_of(text):
    """(set of ints, set of byte strings as hex) occurring as literals in `text`"""
    ints, bts = set(), set()
    for m in re.finditer(r'b?"((?:[^"\\]|\\.)*)"', text):
        b = unescape(m.group(1))
        if 2 <= len(b) <= 40:
            bts.add(b.hex())
    num = r"(?:0x[0-9a-fA-F_]+|\d[\d_]*)(?:_?(?:u8|u16|u32|u64|usize|i8|i16|i32|i64|isize))?"
    def val(t):
        t = re.sub(r"_?(?:u8|u16|u32|u64|usize|i8|i16|i32|i64|isize)$", "", t).replace("_", "")
        try:
            return int(t, 16) if t.startswith("0x") else int(t)
        except ValueError:
            return None
    for m in re.finditer(r"\[((?:\s*%s\s*,)+\s*%s\s*,?\s*)\]" % (num, num), text):
        vs = [val(t.strip()) for t in m.group(1).split(",") if t.strip()]
        if len(vs) >= 2 and all(v is not None and 0 <= v <= 255 for v in vs):
            bts.add(bytes(vs).hex())
    # hex byte sequences inside patterns / arrays that also hold non-literals (`[0x72, 0x63, rest @ ..]`)
    for m in re.finditer(r"(?:0x[0-9a-fA-F]{1,2}(?:u8)?\s*,\s*)+0x[0-9a-fA-F]{1,2}(?:u8)?", text):
        vs = [val(t.strip()) for t in m.group(0).split(",")]
        if len(vs) >= 2 and all(v is not None and 0 <= v <= 255 for v in vs):
            bts.add(bytes(vs).hex())
    for m in re.finditer(r"(?<![\w.])(%s)(?![\w.])" % num, text):
        v = val(m.group(1))
        if v is not None:
            ints.add(v)
    for name, v in (("u8::MAX", 255), ("i8::MAX", 127), ("u16::MAX", 65535), ("i16::MAX", 32767), ("u32::MAX", 2**32 - 1)):
        if name in text:
            ints.add(v)
    for m in re.finditer(r"\b1\s*<<\s*(\d+)", text):
        ints.add(1 << int(m.group(1)))
    return ints, bts


def current_literals(root="/repo"):
    ints, bts = set(), set()
    for f in source_files(root):
        try:
            t = strip_tests_and_comments(open(os.path.join(root, f), encoding="utf-8", errors="replace").read())
        except OSError:
            continue
        a, b = literals_of(t)
        ints |= a; bts |= b
    return ints, bts


def new_literals():
    """literals of the working tree that the reviewed text did not contain: (ints, hex byte strings)"""
    try:
        base = json.load(open(os.path.join(V, "srcmap.json"))).get("literals")
    except Exception:
        base = None
    if not base:
        return [], []
    ints, bts = current_literals()
    ni = sorted(i for i in ints - set(base["ints"]) if 2 <= i <= 300000)
    nb = sorted(bts - set(base["bytes"]))
    return ni, nb


def main():
    head = subprocess.run(["git", "-C", "/repo", "rev-parse", "HEAD"], capture_output=True, text=True).stdout.strip()
    dirty = subprocess.run(["git", "-C", "/repo", "status", "--porcelain"], capture_output=True, text=True).stdout.strip()
    if dirty:
        print("refusing: /repo is not clean"); return 2
    ints, bts = current_literals()
    m = {"reviewed_commit": head, "files": {f: file_hash(os.path.join("/repo", f)) for f in source_files()},
         "literals": {"ints": sorted(ints), "bytes": sorted(bts)}}
    json.dump(m, open(os.path.join(V, "srcmap.json"), "w"), indent=1)
    print("srcmap.json:", len(m["files"]), "files at", head[:7])
    return 0


if __name__ == "__main__":
    sys.exit(main())

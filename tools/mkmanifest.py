#!/usr/bin/env python3
"""regenerates /verif/MANIFEST.json from the property list and the theorem files that exist"""
import json, os
V = os.path.dirname(os.path.dirname(os.path.abspath(__file__)))
TECH = {
 "C01": "Lean 4 theorem (simulation encoder counter <-> decoder state) + model/impl correspondence",
 "C02": "Lean 4 invariant proof over all histories + model/impl correspondence on adversarial streams",
 "C03": "Lean 4 theorem grammar => parser + model/impl correspondence on generated encodings",
 "C04": "Lean 4 theorem parser => grammar + model/impl correspondence on mutants",
 "C05": "Lean 4 invariant proof (panic outcomes unreachable) + model/impl correspondence",
 "C06": "Lean 4 proof (no panic, allocation ghost bound) + correspondence + counting allocator",
 "C07": "Lean 4 theorem encoders = wire-format spec + model/impl correspondence",
 "C08": "Lean 4 theorem (start-sequence matcher characterisation) + model/impl correspondence",
 "C09": "Lean 4 theorem (message factorisation, both parsers) + model/impl correspondence",
 "C10": "Lean 4 corollary of C01/C08/C14/C03 on the reader model + correspondence of the SmlReader glue",
 "C11": "Lean 4 induction over fault events + model/impl correspondence with fault-injecting sources",
 "C12": "Lean 4 theorem parseTlf = positional TLF rule, integer exactness + model/impl correspondence",
 "C13": "Lean 4 termination measure proof + model/impl correspondence",
 "C14": "Lean 4 bisimulation proof (boundary states ~ fresh) + model/impl correspondence",
 "C15": "Lean 4 theorems front-end loops = pushAll + finalize + model/impl correspondence",
 "C16": "Lean 4 theorem (bounded run = unbounded run until overflow) + model/impl correspondence",
 "C17": "Lean 4 invariant proof (raw = bytes since boundary) + independent tiling oracle + correspondence",
 "C18": "Lean 4 refinement proof ArrayBuf -> ideal bounded vector + model/impl correspondence",
}
props = [json.loads(l) for l in open(os.path.join(V, "properties.jsonl"))]
checks = []
for p in props:
    i = p["id"]
    proved = os.path.exists(os.path.join(V, "lean/Sml/Props/%s.lean" % i)) and os.path.exists(os.path.join(V, "lean/Sml/Audit/%s.lean" % i))
    if proved:
        cat = "proof"
        text = ("Unbounded machine-checked Lean 4 theorems about the hand-written executable model (Sml/Props/%s.lean; axioms audited on every run), "
                "tied to /repo's working tree by a correspondence check: the real crate and the compiled model run on the same request lines and the "
                "property-specific projection of their outputs must agree; the property's executable oracle is evaluated on the implementation's outputs to "
                "produce a concrete replay when it fails." % i)
        tech = TECH[i]
    else:
        cat = "exploration"
        text = ("Lean theorems for this property are not finished yet: currently decided by differential correspondence between the executable Lean model and the "
                "real crate plus the property oracle on generated cases (see DESIGN.md); will be raised to proof when Sml/Props/%s.lean lands." % i)
        tech = "model/impl correspondence + property oracle (Lean proof pending)"
    checks.append({
        "property_id": i,
        "quick_cmd": "./check %s --tier quick" % i,
        "thorough_cmd": "./check %s --tier thorough" % i,
        "evidence_file": "/verif/evidence/%s.json" % i,
        "replay_cmd_template": "./check %s --replay {path}" % i,
        "engine": "lean-proof+correspondence",
        "level_claimed": {"category": cat, "text": text, "design_ref": "DESIGN.md §6 (%s)" % i},
        "level_note": "Trusted: Lean kernel; axioms propext/Quot.sound/Classical.choice only; the hand-written model and theorem statements; the correspondence harness (generators, printers). Modelled not verified: 64-bit usize, Vec growth never fails, std read_exact semantics, slice primitives, crc crate = CRC-16/X.25 (compared on every frame), derive(Debug/PartialEq).",
        "technique": tech,
    })
m = {
    "version": 1,
    "setup_cmd": "./setup.sh",
    "hooks": {
        "guard": "smlrs_verif",
        "enable": "no source hooks are needed: the harness links /repo as a path dependency (features std,alloc,nb,embedded-hal-02) and calls its public API; the cfg name smlrs_verif is reserved and unused",
        "baseline_off_cmd": "cd /repo && cargo test --workspace --no-fail-fast --offline",
        "source_commits": [],
        "add_only": True,
    },
    "engines": [{
        "name": "lean-proof+correspondence",
        "path": "/verif/check",
        "serves_properties": [p["id"] for p in props],
        "kind_free_text": "Lean 4 theorems over a hand-written executable model (/verif/lean) + Rust differential harness (/verif/harness) driving the real crate and the compiled model through one line protocol (/verif/PROTOCOL.md)",
    }],
    "checks": checks,
    "notes": "Seven genuine defects were found and repaired with fix: commits in /repo (see KNOWN_FINDINGS.txt, DESIGN.md §0). Exit 2 of a check = infrastructure error (never a VIOLATION line).",
    "not_applicable": [],
}
json.dump(m, open(os.path.join(V, "MANIFEST.json"), "w"), indent=1)
print("MANIFEST.json written:", sum(1 for c in checks if c["level_claimed"]["category"] == "proof"), "proof-level of", len(checks))

#!/usr/bin/env python3
"""regenerates /verif/MANIFEST.json from the property list and the theorem files that exist"""
import json, os
V = os.path.dirname(os.path.dirname(os.path.abspath(__file__)))
TECH = {
 "C01": "Lean 4 theorem (simulation encoder counter <-> decoder state; every front-end stops exactly at the frame end) + model/impl correspondence",
 "C02": "Lean 4 invariant proof over all histories (also with a failing allocator) + model/impl correspondence on adversarial streams",
 "C03": "Lean 4 theorem grammar => parser, canonical encoder with free choices, WFFile <-> encodable <-> parseable + model/impl correspondence on generated encodings",
 "C04": "Lean 4 theorem parser => grammar (both parsers) + model/impl correspondence on mutants",
 "C05": "Lean 4 invariant proof (panic outcomes unreachable, counters bounded by the stream, failing-allocator decoder) + model/impl correspondence incl. injected allocation failures",
 "C06": "Lean 4 proof (no panic, allocation ghost bound, no re-growth on the error path) + correspondence + counting allocator",
 "C07": "Lean 4 theorem encoders = wire-format spec + model/impl correspondence",
 "C08": "Lean 4 theorem (start-sequence matcher characterisation, StartFree <-> no infix) + model/impl correspondence",
 "C09": "Lean 4 theorem (message factorisation, both parsers) + model/impl correspondence",
 "C10": "Lean 4 corollary of C01/C08/C14/C03 on the reader model + correspondence of the SmlReader glue",
 "C11": "Lean 4 induction over fault events (io, mem, embedded-hal sources) + model/impl correspondence with fault-injecting sources",
 "C12": "Lean 4 theorem parseTlf = positional TLF rule, integer exactness + model/impl correspondence",
 "C13": "Lean 4 termination measure proof + model/impl correspondence",
 "C14": "Lean 4 bisimulation proof (boundary states ~ fresh, also after an allocation failure) + model/impl correspondence",
 "C15": "Lean 4 theorems front-end loops = pushAll + finalize; buffers agree iff no out-of-memory + model/impl correspondence",
 "C16": "Lean 4 theorem (bounded run = unbounded run until overflow; no truncation; next frame delivered) + model/impl correspondence",
 "C17": "Lean 4 invariant proof (raw = bytes since boundary; byte-anchored tiling) + independent tiling oracle + correspondence",
 "C18": "Lean 4 refinement proof ArrayBuf -> ideal bounded vector, literal util.rs transcription, decoder over the real ArrayBuf layout + model/impl correspondence"
}
NOTE = ("Trusted: Lean kernel (+ compiler/runtime for the compiled driver); axioms propext/Quot.sound/Classical.choice only; the hand-written model and "
        "theorem statements; the correspondence harness (generators, printers, oracles) and check's audit parsing. Modelled not verified: fewer than 2^64 bytes "
        "between two transmission boundaries (all model counters are proved bounded by that), usize >= 32 bits for `as usize` casts, Vec allocation succeeds "
        "everywhere except the decoder buffer (modelled with a failing allocator and injected), std read_exact semantics, slice primitives, crc crate = CRC-16/X.25 "
        "(compared on every frame and message), derive(Debug/PartialEq); generic glue is exercised with several instantiations; the harness builds the crate with "
        "overflow checks so that wrapped counters are observable.")
PARTIAL = {
 "C05": " Partial by nature: stack exhaustion and hangs are observed by a watchdog only.",
 "C06": " Partial by nature: allocated bytes and 'the streaming parser allocates nothing' are measured with a counting allocator; the proof covers element counts and the absence of re-growth.",
 "C10": " Partial by nature: the generic SmlReader glue (const generics, IntoIterator<Item = impl Borrow<u8>>) is exercised with several instantiations, not proved.",
 "C11": " Partial by nature: the io::Read::read_exact contract is assumed.",
 "C15": " Partial by nature: generic glue exercised with several instantiations, not proved.",
}
props = [json.loads(l) for l in open(os.path.join(V, "properties.jsonl"))]
checks = []
for p in props:
    i = p["id"]
    proved = os.path.exists(os.path.join(V, "lean/Sml/Props/%s.lean" % i)) and os.path.exists(os.path.join(V, "lean/Sml/Audit/%s.lean" % i))
    if proved:
        cat = "proof"
        text = ("Unbounded machine-checked Lean 4 theorems about the hand-written executable model (the theorems audited in Sml/Audit/%s.lean; axioms audited on every run), "
                "tied to /repo's working tree by a correspondence check: the real crate and the compiled model run on the same request lines and the "
                "property-specific projection of their outputs must agree; the property's executable oracle is evaluated on the implementation's outputs to "
                "produce a concrete replay when it fails." % i)
        tech = TECH[i]
    else:
        cat = "exploration"
        text = ("Lean theorems for this property are not finished yet: currently decided by differential correspondence between the executable Lean model and the "
                "real crate plus the property oracle on generated cases (see DESIGN.md); will be raised to proof when Sml/Props/%s.lean lands." % i)
        tech = "model/impl correspondence + property oracle (Lean proof pending)"
    checks.append({
        "property_id": i,
        "quick_cmd": "./check %s --tier quick" % i,
        "thorough_cmd": "./check %s --tier thorough" % i,
        "evidence_file": "/verif/evidence/%s.json" % i,
        "replay_cmd_template": "./check %s --replay {path}" % i,
        "engine": "lean-proof+correspondence",
        "level_claimed": {"category": cat, "text": text, "design_ref": "DESIGN.md §6 (%s)" % i},
        "level_note": NOTE + PARTIAL.get(i, ""),
        "technique": tech,
    })
m = {
    "version": 1,
    "setup_cmd": "./setup.sh",
    "hooks": {
        "guard": "smlrs_verif",
        "enable": "no source hooks are needed: the harness links /repo as a path dependency (features std,alloc,nb,embedded-hal-02) and calls its public API; the cfg name smlrs_verif is reserved and unused",
        "baseline_off_cmd": "cd /repo && cargo test --workspace --no-fail-fast --offline",
        "source_commits": [],
        "add_only": True,
    },
    "engines": [{
        "name": "lean-proof+correspondence",
        "path": "/verif/check",
        "serves_properties": [p["id"] for p in props],
        "kind_free_text": "Lean 4 theorems over a hand-written executable model (/verif/lean) + Rust differential harness (/verif/harness) driving the real crate and the compiled model through one line protocol (/verif/PROTOCOL.md)",
    }],
    "checks": checks,
    "notes": "Seven genuine defects were found and repaired with fix: commits in /repo (see KNOWN_FINDINGS.txt, DESIGN.md §0). Exit 2 of a check = infrastructure error (never a VIOLATION line).",
    "not_applicable": [],
}
json.dump(m, open(os.path.join(V, "MANIFEST.json"), "w"), indent=1)
print("MANIFEST.json written:", sum(1 for c in checks if c["level_claimed"]["category"] == "proof"), "proof-level of", len(checks))

#!/bin/sh
# Build the framework from files on disk only (offline): Lean model + all proofs + driver, Rust harness.
set -e
cd "$(dirname "$0")"
export CARGO_NET_OFFLINE=true
(cd lean && lake build Sml smlmodel $(find Sml -name '*.lean' | sed 's#/#.#g; s#\.lean$##') )
(cd harness && cargo build --release --offline)
echo "setup ok"

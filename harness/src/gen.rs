//! Input generators.  Every random choice derives from the `Rng` passed in.

use crate::spec;
use crate::util::*;

// ---------------------------------------------------------------------------------------------
// transport layer
// ---------------------------------------------------------------------------------------------

/// byte classes the decoder's control flow distinguishes
pub const ALPHA: [u8; 5] = [0x00, 0x1b, 0x01, 0x1a, 0xaa];

/// all strings over `alpha` of exactly `len` bytes
pub fn exhaustive(alpha: &[u8], len: usize) -> Vec<Vec<u8>> {
    let mut out: Vec<Vec<u8>> = vec![vec![]];
    for _ in 0..len {
        let mut next = Vec::with_capacity(out.len() * alpha.len());
        for p in &out {
            for &a in alpha {
                let mut q = p.clone();
                q.push(a);
                next.push(q);
            }
        }
        out = next;
    }
    out
}

pub fn alpha_range(rng: &mut Rng, lo: usize, hi: usize) -> Vec<u8> {
    let n = rng.range(lo, hi);
    alpha_bytes(rng, n)
}

pub fn alpha_bytes(rng: &mut Rng, n: usize) -> Vec<u8> {
    (0..n)
        .map(|_| if rng.chance(1, 8) { rng.byte() } else { *rng.pick(&ALPHA) })
        .collect()
}

/// a random payload, biased towards the interesting byte classes and runs
pub fn rand_payload(rng: &mut Rng, maxlen: usize) -> Vec<u8> {
    let d = dict();
    if !d.bytes.is_empty() && rng.chance(1, 8) {
        // a dictionary literal embedded in alphabet bytes
        let a = rng.below(6);
        let mut v = alpha_bytes(rng, a);
        let lit: &Vec<u8> = rng.pick(&d.bytes[..]);
        v.extend_from_slice(lit);
        let b = rng.below(6);
        v.extend(alpha_bytes(rng, b));
        return v;
    }
    let style = rng.below(6);
    let n = rng.below(maxlen + 1);
    match style {
        0 => (0..n).map(|_| rng.byte()).collect(),
        1 | 2 => alpha_bytes(rng, n),
        3 => {
            // runs
            let mut v = Vec::new();
            while v.len() < n {
                let b = *rng.pick(&[0x1b, 0x00, 0x1b, 0x01, 0xaa, 0x1a]);
                let r = rng.range(1, 9);
                v.extend(std::iter::repeat(b).take(r));
            }
            v.truncate(n);
            v
        }
        4 => {
            // look-alikes of start / end / escape sequences embedded in data
            let mut v = alpha_bytes(rng, n / 2);
            match rng.below(4) {
                0 => v.extend_from_slice(&spec::START),
                1 => v.extend_from_slice(&[0x1b, 0x1b, 0x1b, 0x1b, 0x1a, rng.below(5) as u8, rng.byte(), rng.byte()]),
                2 => v.extend_from_slice(&[0x1b; 8]),
                _ => v.extend(spec::frame(&alpha_bytes(rng, 3))),
            }
            v.extend(alpha_bytes(rng, n / 2));
            v
        }
        _ => {
            // ends in a run of zeros or 0x1b
            let mut v = alpha_bytes(rng, n);
            let b = if rng.chance(1, 2) { 0x00 } else { 0x1b };
            v.extend(std::iter::repeat(b).take(rng.below(10)));
            v
        }
    }
}

/// hand-picked payloads: runs of every length at every alignment, look-alikes, boundary lengths
/// payloads whose runs of `1b` (4..6 bytes) straddle the offset `b` in every way, `b + 8` bytes long
pub fn straddling_runs(b: usize) -> Vec<Vec<u8>> {
    let mut v = Vec::new();
    if b < 4 {
        return v;
    }
    for start in (b - 5)..b {
        for r in [4usize, 6] {
            if start + r <= b {
                continue;
            }
            let mut p = vec![0xaau8; b + 8];
            for x in p.iter_mut().skip(start).take(r) {
                *x = 0x1b;
            }
            v.push(p);
        }
    }
    v
}

pub fn special_payloads() -> Vec<Vec<u8>> {
    let mut v: Vec<Vec<u8>> = vec![vec![]];
    // block boundaries: runs of 1b across every multiple of 256 up to 4096, 8192, and across the
    // integers that are new in the source (dictionary)
    let mut bounds: Vec<usize> = (1..=16).map(|k| k * 256).collect();
    bounds.push(8192);
    for n in &dict().ints {
        if *n >= 8 && *n <= 70_000 && !bounds.contains(n) {
            bounds.push(*n);
        }
    }
    for b in bounds {
        let runs = straddling_runs(b);
        // one in three for the fixed boundaries (they rotate with the offset), all for dictionary ones
        for (i, p) in runs.into_iter().enumerate() {
            if b % 256 != 0 || b > 8192 || i % 3 == (b / 256) % 3 {
                v.push(p);
            }
        }
    }
    for off in 0..4 {
        for r in 0..=13 {
            for b in [0x1bu8, 0x00] {
                let mut p = vec![0xaa; off];
                p.extend(std::iter::repeat(b).take(r));
                v.push(p.clone());
                p.push(0x55);
                v.push(p.clone());
                p.extend(std::iter::repeat(b).take(r));
                v.push(p);
            }
        }
    }
    v.push(spec::START.to_vec());
    v.push([&[0xaa][..], &spec::START[..]].concat());
    v.push(vec![0x1b, 0x1b, 0x1b, 0x1b, 0x1a, 0x00, 0x12, 0x34]);
    v.push(vec![0x1b, 0x1b, 0x1b, 0x1b, 0x1a, 0x03, 0x00, 0x00]);
    v.push(vec![0x1a, 0x00, 0x00, 0x00]);
    v.push(spec::frame(&[1, 2, 3, 4]));
    v.push(spec::frame(&[]));
    v.push([&[0x00, 0x00][..], &spec::frame(&[0x1b, 0x1b])[..], &[0x00][..]].concat());
    for n in [255usize, 256, 257, 258, 259, 260, 511, 512, 513] {
        v.push((0..n).map(|i| (i * 7 + 3) as u8).collect());
        v.push(vec![0x1b; n]);
        v.push(vec![0x00; n]);
    }
    v
}

/// very long payloads (growable buffer only)
pub fn huge_payloads() -> Vec<Vec<u8>> {
    let mut v = Vec::new();
    for n in [65535usize, 65536, 65537, 70001] {
        v.push((0..n).map(|i| (i % 251) as u8).collect());
    }
    // every length near 2^16 (frame lengths crossing 65536 in all alignments)
    for n in 65500usize..=65545 {
        v.push((0..n).map(|i| (i % 249) as u8 + 2).collect());
    }
    v.push((0..131060usize).map(|i| (i % 249) as u8 + 2).collect());
    v.push(vec![0x1b; 65537]);
    v.push(vec![0x00; 65540]);
    v
}

/// noise that does not contain the start sequence and (with START appended) contains it only at
/// the very end; may end in a partial start sequence
pub fn start_free_noise(rng: &mut Rng, maxlen: usize) -> Vec<u8> {
    loop {
        let n = rng.below(maxlen + 1);
        let mut g = alpha_bytes(rng, n);
        if rng.chance(1, 2) {
            // end in a partial start sequence / 0x1b run
            let k = rng.below(8);
            let tail: Vec<u8> = match rng.below(3) {
                0 => spec::START[..k].to_vec(),
                1 => vec![0x1b; rng.range(1, 7)],
                _ => {
                    let mut t = vec![0x1b; 4];
                    t.extend(std::iter::repeat(0x01).take(rng.below(4)));
                    t.push(0x1b);
                    t
                }
            };
            g.extend(tail);
        }
        if noise_ok(&g) {
            return g;
        }
    }
}

/// `g ++ START` contains START only at offset |g|
pub fn noise_ok(g: &[u8]) -> bool {
    let mut s = g.to_vec();
    s.extend_from_slice(&spec::START);
    spec::find(&s, &spec::START) == Some(g.len())
}

/// adversarial stream from a token grammar; CRCs are recomputed "by the attacker" for several
/// candidate framings
pub fn adversarial_stream(rng: &mut Rng, max_tokens: usize) -> Vec<u8> {
    let mut s: Vec<u8> = Vec::new();
    let mut starts: Vec<usize> = Vec::new(); // offsets where a START token was emitted
    let ntok = rng.range(1, max_tokens);
    if rng.chance(3, 4) {
        starts.push(s.len());
        s.extend_from_slice(&spec::START);
    }
    for _ in 0..ntok {
        match rng.below(16) {
            0 | 1 => {
                starts.push(s.len());
                s.extend_from_slice(&spec::START);
            }
            2 | 3 | 4 => s.extend(alpha_range(rng, 1, 6)),
            5 => s.extend_from_slice(&[0x1b; 8]),
            6 => s.extend(std::iter::repeat(0x00).take(rng.range(1, 6))),
            7 => s.extend(std::iter::repeat(0x1b).take(rng.range(1, 7))),
            8 | 9 | 10 | 11 => {
                // END token
                let align_mode = rng.below(4);
                let pad: u8 = match rng.below(8) {
                    0 => 4,
                    1 => rng.byte(),
                    _ => rng.below(4) as u8,
                };
                let base = starts.last().copied().unwrap_or(0);
                match align_mode {
                    0 | 1 => {
                        // pad with zeros up to alignment relative to the last START, announce that count
                        let k = (4 - (s.len() - base) % 4) % 4;
                        s.extend(std::iter::repeat(0u8).take(k));
                        let pad = if rng.chance(3, 4) { k as u8 } else { pad };
                        end_seq(rng, &mut s, &starts, pad);
                    }
                    2 => {
                        // announce `pad` zeros but emit a different number
                        let k = rng.below(4);
                        s.extend(std::iter::repeat(0u8).take(k));
                        end_seq(rng, &mut s, &starts, pad);
                    }
                    _ => end_seq(rng, &mut s, &starts, pad),
                }
            }
            12 => {
                // a complete valid frame
                let p = rand_payload(rng, 8);
                starts.push(s.len());
                s.extend(spec::frame(&p));
            }
            13 => {
                // a truncated valid frame
                let f = spec::frame(&rand_payload(rng, 8));
                let cut = rng.below(f.len());
                starts.push(s.len());
                s.extend_from_slice(&f[..cut]);
            }
            14 => s.extend_from_slice(&spec::START[..rng.below(8)]),
            _ => s.push(rng.byte()),
        }
    }
    s
}

fn end_seq(rng: &mut Rng, s: &mut Vec<u8>, starts: &[usize], pad: u8) {
    s.extend_from_slice(&[0x1b, 0x1b, 0x1b, 0x1b, 0x1a, pad]);
    let crc = match rng.below(8) {
        // correct for the bytes since the last START
        0..=3 => crc16_x25(&s[starts.last().copied().unwrap_or(0)..]),
        // correct for an earlier START (alternative framing)
        4 => {
            let b = if starts.is_empty() { 0 } else { starts[rng.below(starts.len())] };
            crc16_x25(&s[b..])
        }
        // correct if the pad bytes / the end marker were excluded
        5 => {
            let b = starts.last().copied().unwrap_or(0);
            let e = s.len().saturating_sub(6 + (pad as usize).min(3)).max(b);
            crc16_x25(&s[b..e])
        }
        // correct for the whole stream
        6 => crc16_x25(s),
        _ => rng.next() as u16,
    };
    s.push(crc as u8);
    s.push((crc >> 8) as u8);
}

// ---------------------------------------------------------------------------------------------
// SML files: abstract syntax, generator, encoder with free choices, mutations
// ---------------------------------------------------------------------------------------------

#[derive(Clone, Debug, PartialEq)]
pub struct GTime(pub u32);
#[derive(Clone, Debug, PartialEq)]
pub struct GStatus(pub usize, pub u64);
#[derive(Clone, Debug, PartialEq)]
pub enum GValue {
    Bool(bool),
    Bytes(Vec<u8>),
    Int(usize, i64),
    Uns(usize, u64),
    ListTime(GTime),
}
#[derive(Clone, Debug, PartialEq)]
pub struct GEntry {
    pub obj_name: Vec<u8>,
    pub status: Option<GStatus>,
    pub val_time: Option<GTime>,
    pub unit: Option<u8>,
    pub scaler: Option<i8>,
    pub value: GValue,
    pub sig: Option<Vec<u8>>,
}
#[derive(Clone, Debug, PartialEq)]
pub enum GBody {
    Open {
        codepage: Option<Vec<u8>>,
        client_id: Option<Vec<u8>>,
        req_file_id: Vec<u8>,
        server_id: Vec<u8>,
        ref_time: Option<GTime>,
        sml_version: Option<u8>,
    },
    Close {
        sig: Option<Vec<u8>>,
    },
    GetList {
        client_id: Option<Vec<u8>>,
        server_id: Vec<u8>,
        list_name: Option<Vec<u8>>,
        act_sensor_time: Option<GTime>,
        entries: Vec<GEntry>,
        list_sig: Option<Vec<u8>>,
        act_gateway_time: Option<GTime>,
    },
}
#[derive(Clone, Debug, PartialEq)]
pub struct GMsg {
    pub tid: Vec<u8>,
    pub group: u8,
    pub abort: u8,
    pub body: GBody,
}
#[derive(Clone, Debug, PartialEq)]
pub struct GFile {
    pub msgs: Vec<GMsg>,
}

// ---- canonical printing (same format as the driver / implrun) ----

fn sb(b: &[u8]) -> String {
    format!("x{}", hex(b))
}
fn so<T>(o: &Option<T>, f: impl Fn(&T) -> String) -> String {
    match o {
        None => "~".into(),
        Some(x) => f(x),
    }
}
fn stime(t: &GTime) -> String {
    format!("T{}", t.0)
}
pub fn show_gentry(e: &GEntry) -> String {
    let v = match &e.value {
        GValue::Bool(b) => format!("B{}", if *b { 1 } else { 0 }),
        GValue::Bytes(b) => sb(b),
        GValue::Int(s, v) => format!("I{}:{}", 8 * s, v),
        GValue::Uns(s, v) => format!("U{}:{}", 8 * s, v),
        GValue::ListTime(t) => format!("L({})", stime(t)),
    };
    format!(
        "E({},{},{},{},{},{},{})",
        sb(&e.obj_name),
        so(&e.status, |s| format!("S{}:{}", 8 * s.0, s.1)),
        so(&e.val_time, stime),
        so(&e.unit, |u| u.to_string()),
        so(&e.scaler, |u| u.to_string()),
        v,
        so(&e.sig, |b| sb(b))
    )
}
pub fn show_gmsg(m: &GMsg) -> String {
    let body = match &m.body {
        GBody::Open { codepage, client_id, req_file_id, server_id, ref_time, sml_version } => format!(
            "O({},{},{},{},{},{})",
            so(codepage, |b| sb(b)),
            so(client_id, |b| sb(b)),
            sb(req_file_id),
            sb(server_id),
            so(ref_time, stime),
            so(sml_version, |v| v.to_string())
        ),
        GBody::Close { sig } => format!("C({})", so(sig, |b| sb(b))),
        GBody::GetList { client_id, server_id, list_name, act_sensor_time, entries, list_sig, act_gateway_time } => {
            format!(
                "G({},{},{},{},[{}],{},{})",
                so(client_id, |b| sb(b)),
                sb(server_id),
                so(list_name, |b| sb(b)),
                so(act_sensor_time, stime),
                entries.iter().map(show_gentry).collect::<Vec<_>>().join(";"),
                so(list_sig, |b| sb(b)),
                so(act_gateway_time, stime)
            )
        }
    };
    format!("M({},{},{},{})", sb(&m.tid), m.group, m.abort, body)
}
pub fn show_gfile(f: &GFile) -> String {
    format!("F[{}]", f.msgs.iter().map(show_gmsg).collect::<Vec<_>>().join(";"))
}

/// the event stream the streaming parser must produce for this file
pub fn show_gevents(f: &GFile) -> Vec<String> {
    let mut v = Vec::new();
    for m in &f.msgs {
        match &m.body {
            GBody::GetList { client_id, server_id, list_name, act_sensor_time, entries, list_sig, act_gateway_time } => {
                v.push(format!(
                    "MS({},{},{},GS({},{},{},{},{}))",
                    sb(&m.tid),
                    m.group,
                    m.abort,
                    so(client_id, |b| sb(b)),
                    sb(server_id),
                    so(list_name, |b| sb(b)),
                    so(act_sensor_time, stime),
                    entries.len()
                ));
                for e in entries {
                    v.push(show_gentry(e));
                }
                v.push(format!("GE({},{})", so(list_sig, |b| sb(b)), so(act_gateway_time, stime)));
            }
            _ => {
                let s = show_gmsg(m);
                // M(...) -> MS(...)
                v.push(format!("MS{}", &s[1..]));
            }
        }
    }
    v
}

// ---- generator ----

fn gbytes(rng: &mut Rng, max: usize) -> Vec<u8> {
    // literals new in the source (dictionary, empty on the reviewed tree): as the field, or as its prefix
    let d = dict();
    if !d.bytes.is_empty() && rng.chance(1, 3) {
        let mut b: Vec<u8> = rng.pick(&d.bytes[..]).clone();
        if rng.chance(1, 2) {
            let k = rng.below(7);
            b.extend((0..k).map(|_| rng.byte()));
        }
        return b;
    }
    let n = match rng.below(40) {
        0..=3 => 0,
        4..=7 => rng.range(13, 20), // around the 15/16 TLF boundary (14 data bytes + 1 TLF byte = 15)
        8 => rng.range(200, 300),   // three-nibble lengths
        _ => rng.below(max + 1),
    };
    (0..n).map(|_| if rng.chance(1, 4) { *rng.pick(&[0x00, 0x01, 0xff, 0x80, 0x7f]) } else { rng.byte() }).collect()
}
fn gopt_bytes(rng: &mut Rng, max: usize) -> Option<Vec<u8>> {
    if rng.chance(1, 3) {
        None
    } else {
        Some(gbytes(rng, max))
    }
}
fn gtime(rng: &mut Rng) -> GTime {
    GTime(match rng.below(5) {
        0 => 0,
        1 => u32::MAX,
        2 => rng.below(256) as u32,
        3 => 0x0100_0000 | rng.below(1 << 24) as u32,
        _ => rng.next() as u32,
    })
}
fn gopt_time(rng: &mut Rng) -> Option<GTime> {
    if rng.chance(1, 2) {
        None
    } else {
        Some(gtime(rng))
    }
}
/// unsigned value whose minimal class is exactly `size`?  No: any value representable in `size`
/// bytes; the width used by the encoder decides the class.
/// unsigned value representable in `size` bytes; boundary patterns at every width ≤ size
/// (leading byte 00 / 7f / 80 / ff of a w-byte encoding)
fn guns(rng: &mut Rng, size: usize) -> u64 {
    let w = if rng.chance(1, 2) { size } else { rng.range(1, size) };
    let bits = 8 * w as u32;
    let max = if bits == 64 { u64::MAX } else { (1u64 << bits) - 1 };
    let low = if bits == 8 { 0 } else { rng.next() & (max >> 8) };
    match rng.below(8) {
        0 => 0,
        1 => max,
        2 => max >> 1,
        3 => (max >> 1) + 1,
        4 => (0x7fu64 << (bits - 8)) | low,
        5 => (0x80u64 << (bits - 8)) | low,
        6 => (0xffu64 << (bits - 8)) | low,
        _ => rng.next() & max,
    }
}
/// signed value representable in `size` bytes; boundary patterns at every width ≤ size
fn gint(rng: &mut Rng, size: usize) -> i64 {
    let w = if rng.chance(1, 2) { size } else { rng.range(1, size) };
    let bits = 8 * w as u32;
    let (min, max) = if bits == 64 { (i64::MIN, i64::MAX) } else { (-(1i64 << (bits - 1)), (1i64 << (bits - 1)) - 1) };
    let lowmask: u64 = if bits == 8 { 0 } else if bits == 64 { u64::MAX >> 8 } else { (1u64 << (bits - 8)) - 1 };
    let low = rng.next() & lowmask;
    // a w-byte two's complement pattern with the given leading byte
    let with_lead = |lead: u64| -> i64 {
        let u = (lead << (bits - 8)) | low;
        if bits == 64 {
            u as i64
        } else if u >> (bits - 1) != 0 {
            (u as i64) - (1i64 << bits)
        } else {
            u as i64
        }
    };
    match rng.below(10) {
        0 => 0,
        1 => -1,
        2 => min,
        3 => max,
        4 => with_lead(0x7f),
        5 => with_lead(0x80),
        6 => with_lead(0xff),
        7 => with_lead(0x00),
        8 => rng.below(128) as i64,
        _ => with_lead(rng.byte() as u64),
    }
}
fn gvalue(rng: &mut Rng) -> GValue {
    let size = *rng.pick(&[1usize, 2, 4, 8]);
    match rng.below(8) {
        0 => GValue::Bool(rng.chance(1, 2)),
        1 => GValue::Bytes(gbytes(rng, 12)),
        2 | 3 | 4 => GValue::Int(size, gint(rng, size)),
        5 | 6 => GValue::Uns(size, guns(rng, size)),
        _ => GValue::ListTime(gtime(rng)),
    }
}
pub fn gentry(rng: &mut Rng) -> GEntry {
    let ssize = *rng.pick(&[1usize, 2, 4, 8]);
    GEntry {
        obj_name: gbytes(rng, 8),
        status: if rng.chance(1, 2) { None } else { Some(GStatus(ssize, guns(rng, ssize))) },
        val_time: gopt_time(rng),
        unit: if rng.chance(1, 2) { None } else { Some(rng.byte()) },
        scaler: if rng.chance(1, 2) { None } else { Some(rng.byte() as i8) },
        value: gvalue(rng),
        sig: gopt_bytes(rng, 6),
    }
}
pub fn gmsg(rng: &mut Rng, max_entries: usize) -> GMsg {
    let body = match rng.below(4) {
        0 => GBody::Open {
            codepage: gopt_bytes(rng, 4),
            client_id: gopt_bytes(rng, 8),
            req_file_id: gbytes(rng, 8),
            server_id: gbytes(rng, 10),
            ref_time: gopt_time(rng),
            sml_version: if rng.chance(1, 2) { None } else { Some(rng.byte()) },
        },
        1 => GBody::Close { sig: gopt_bytes(rng, 8) },
        _ => {
            let n = match rng.below(6) {
                0 => 0,
                1 => rng.range(14, 17), // across the 15/16 TLF boundary
                _ => rng.below(max_entries + 1),
            };
            GBody::GetList {
                client_id: gopt_bytes(rng, 6),
                server_id: gbytes(rng, 10),
                list_name: gopt_bytes(rng, 6),
                act_sensor_time: gopt_time(rng),
                entries: (0..n).map(|_| gentry(rng)).collect(),
                list_sig: gopt_bytes(rng, 6),
                act_gateway_time: gopt_time(rng),
            }
        }
    };
    GMsg { tid: gbytes(rng, 6), group: rng.byte(), abort: rng.byte(), body }
}
pub fn gfile(rng: &mut Rng, max_msgs: usize, max_entries: usize) -> GFile {
    let n = rng.range(0, max_msgs);
    GFile { msgs: (0..n).map(|_| gmsg(rng, max_entries)).collect() }
}

// ---- encoder with free choices ----

/// encoding choices: `plain` = canonical minimal encodings everywhere
pub struct Enc<'a> {
    pub rng: &'a mut Rng,
    pub plain: bool,
}

const T_OCTET: u8 = 0;
const T_BOOL: u8 = 4;
const T_INT: u8 = 5;
const T_UNS: u8 = 6;
const T_LIST: u8 = 7;

impl<'a> Enc<'a> {
    fn fancy(&mut self, num: usize, den: usize) -> bool {
        !self.plain && self.rng.chance(num, den)
    }

    /// TLF with `k` bytes encoding the raw value `v` (must fit 4k bits)
    pub fn tlf_raw(ty: u8, v: u64, k: usize, out: &mut Vec<u8>) {
        for i in 0..k {
            let shift = 4 * (k - 1 - i);
            let nib = ((v >> shift) & 0xF) as u8;
            let more = if i + 1 < k { 0x80 } else { 0 };
            let tybits = if i == 0 { ty << 4 } else { 0 };
            out.push(more | tybits | nib);
        }
    }

    /// TLF for a primitive of `len` data bytes (the field's own size is included in the value)
    fn tlf_prim(&mut self, ty: u8, len: usize, force_multi: bool, out: &mut Vec<u8>) {
        let mut k = 1;
        while (len + k) as u64 >= 1u64 << (4 * k) {
            k += 1;
        }
        if force_multi && k < 2 {
            k = 2;
        }
        if ty != T_BOOL && self.fancy(1, 10) {
            k += self.rng.range(1, 3); // non-minimal: leading zero nibbles
        }
        Self::tlf_raw(ty, (len + k) as u64, k, out);
    }

    fn tlf_list(&mut self, n: usize, out: &mut Vec<u8>) {
        let mut k = 1;
        while (n as u64) >= 1u64 << (4 * k) {
            k += 1;
        }
        if self.fancy(1, 10) {
            k += self.rng.range(1, 3);
        }
        Self::tlf_raw(T_LIST, n as u64, k, out);
    }

    fn octet(&mut self, b: &[u8], optional_pos: bool, out: &mut Vec<u8>) {
        // an empty octet string in an optional position must not be encoded as `01`
        let force = optional_pos && b.is_empty();
        self.tlf_prim(T_OCTET, b.len(), force, out);
        out.extend_from_slice(b);
    }
    fn opt_octet(&mut self, b: &Option<Vec<u8>>, out: &mut Vec<u8>) {
        match b {
            None => out.push(0x01),
            Some(b) => self.octet(b, true, out),
        }
    }

    /// unsigned `v` with exactly `w` bytes
    fn uns_w(&mut self, v: u64, w: usize, out: &mut Vec<u8>) {
        self.tlf_prim(T_UNS, w, false, out);
        out.extend_from_slice(&v.to_be_bytes()[8 - w..]);
    }
    fn int_w(&mut self, v: i64, w: usize, out: &mut Vec<u8>) {
        self.tlf_prim(T_INT, w, false, out);
        out.extend_from_slice(&v.to_be_bytes()[8 - w..]);
    }
    fn min_uns_width(v: u64) -> usize {
        let mut w = 1;
        while w < 8 && v >> (8 * w) != 0 {
            w += 1;
        }
        w
    }
    fn min_int_width(v: i64) -> usize {
        let mut w = 1;
        while w < 8 {
            let bits = 8 * w as u32;
            let lo = -(1i64 << (bits - 1));
            let hi = (1i64 << (bits - 1)) - 1;
            if v >= lo && v <= hi {
                break;
            }
            w += 1;
        }
        w
    }
    /// unsigned field of declared size `size` (any width minw..=size is a valid encoding)
    fn uns_field(&mut self, v: u64, size: usize, out: &mut Vec<u8>) {
        let minw = Self::min_uns_width(v);
        let w = if self.plain { size } else { self.rng.range(minw, size) };
        self.uns_w(v, w, out);
    }
    fn int_field(&mut self, v: i64, size: usize, out: &mut Vec<u8>) {
        let minw = Self::min_int_width(v);
        let w = if self.plain { size } else { self.rng.range(minw, size) };
        self.int_w(v, w, out);
    }
    /// width that selects class `size` (narrowest class holding the width) and can hold the value
    fn class_width(&mut self, size: usize, minw: usize) -> usize {
        let lo = (size / 2 + 1).max(minw).min(size);
        if self.plain {
            size
        } else if self.rng.chance(1, 2) {
            lo
        } else {
            self.rng.range(lo, size)
        }
    }

    fn time(&mut self, t: &GTime, out: &mut Vec<u8>) {
        if self.fancy(1, 3) {
            // vendor workaround: bare unsigned-32 with exactly four bytes
            out.push(0x65);
            out.extend_from_slice(&t.0.to_be_bytes());
        } else {
            self.tlf_list(2, out);
            self.uns_field(1, 1, out);
            self.uns_field(t.0 as u64, 4, out);
        }
    }
    fn opt_time(&mut self, t: &Option<GTime>, out: &mut Vec<u8>) {
        match t {
            None => out.push(0x01),
            Some(t) => self.time(t, out),
        }
    }

    fn value(&mut self, v: &GValue, out: &mut Vec<u8>) {
        match v {
            GValue::Bool(b) => {
                out.push(0x42);
                out.push(if *b {
                    if self.plain {
                        1
                    } else {
                        self.rng.range(1, 255) as u8
                    }
                } else {
                    0
                });
            }
            GValue::Bytes(b) => self.octet(b, false, out),
            GValue::Int(size, v) => {
                let w = self.class_width(*size, Self::min_int_width(*v));
                self.int_w(*v, w, out);
            }
            GValue::Uns(size, v) => {
                let w = self.class_width(*size, Self::min_uns_width(*v));
                self.uns_w(*v, w, out);
            }
            GValue::ListTime(t) => {
                self.tlf_list(2, out);
                self.uns_field(1, 1, out);
                self.time(t, out);
            }
        }
    }

    pub fn entry(&mut self, e: &GEntry, out: &mut Vec<u8>) {
        self.tlf_list(7, out);
        self.octet(&e.obj_name, false, out);
        match &e.status {
            None => out.push(0x01),
            Some(GStatus(size, v)) => {
                let w = self.class_width(*size, Self::min_uns_width(*v));
                self.uns_w(*v, w, out);
            }
        }
        self.opt_time(&e.val_time, out);
        match e.unit {
            None => out.push(0x01),
            Some(u) => self.uns_field(u as u64, 1, out),
        }
        match e.scaler {
            None => out.push(0x01),
            Some(s) => self.int_field(s as i64, 1, out),
        }
        self.value(&e.value, out);
        self.opt_octet(&e.sig, out);
    }

    /// message bytes before the checksum field
    pub fn msg_head(&mut self, m: &GMsg) -> Vec<u8> {
        let mut out = Vec::new();
        self.tlf_list(6, &mut out);
        self.octet(&m.tid, false, &mut out);
        self.uns_field(m.group as u64, 1, &mut out);
        self.uns_field(m.abort as u64, 1, &mut out);
        self.tlf_list(2, &mut out);
        match &m.body {
            GBody::Open { codepage, client_id, req_file_id, server_id, ref_time, sml_version } => {
                self.uns_field(0x0101, 4, &mut out);
                self.tlf_list(6, &mut out);
                self.opt_octet(codepage, &mut out);
                self.opt_octet(client_id, &mut out);
                self.octet(req_file_id, false, &mut out);
                self.octet(server_id, false, &mut out);
                self.opt_time(ref_time, &mut out);
                match sml_version {
                    None => out.push(0x01),
                    Some(v) => self.uns_field(*v as u64, 1, &mut out),
                }
            }
            GBody::Close { sig } => {
                self.uns_field(0x0201, 4, &mut out);
                self.tlf_list(1, &mut out);
                self.opt_octet(sig, &mut out);
            }
            GBody::GetList { client_id, server_id, list_name, act_sensor_time, entries, list_sig, act_gateway_time } => {
                self.uns_field(0x0701, 4, &mut out);
                self.tlf_list(7, &mut out);
                self.opt_octet(client_id, &mut out);
                self.octet(server_id, false, &mut out);
                self.opt_octet(list_name, &mut out);
                self.opt_time(act_sensor_time, &mut out);
                self.tlf_list(entries.len(), &mut out);
                for e in entries {
                    self.entry(e, &mut out);
                }
                self.opt_octet(list_sig, &mut out);
                self.opt_time(act_gateway_time, &mut out);
            }
        }
        out
    }

    /// checksum field + end marker for a message head
    pub fn msg_tail(&mut self, head: &[u8]) -> Vec<u8> {
        let c = crc16_x25(head);
        // the parser compares `checksum.swap_bytes()` with the big-endian field: low byte first
        let field = ((c & 0xff) << 8) | (c >> 8);
        let mut out = Vec::new();
        self.uns_field(field as u64, 2, &mut out);
        out.push(0x00);
        out
    }

    pub fn file(&mut self, f: &GFile) -> Vec<u8> {
        let mut out = Vec::new();
        for m in &f.msgs {
            let h = self.msg_head(m);
            let t = self.msg_tail(&h);
            out.extend(h);
            out.extend(t);
        }
        out
    }
}

pub fn encode_file(rng: &mut Rng, f: &GFile, plain: bool) -> Vec<u8> {
    Enc { rng, plain }.file(f)
}

/// arbitrary type-length field bytes: declared lengths up to and beyond 2^32-1, 1..12 bytes
pub fn wild_tlf(rng: &mut Rng) -> Vec<u8> {
    let ty = *rng.pick(&[T_OCTET, T_BOOL, T_INT, T_UNS, T_LIST, T_LIST, T_OCTET, 1, 2, 3]);
    let k = match rng.below(6) {
        0 => 1,
        1 => 2,
        2 => rng.range(3, 7),
        3 => 8,
        4 => 9,
        _ => rng.range(10, 12),
    };
    let mut out = Vec::new();
    for i in 0..k {
        let nib = match rng.below(5) {
            0 => 0x0,
            1 => 0xF,
            2 => 0x8,
            _ => rng.below(16) as u8,
        };
        let more = if i + 1 < k { 0x80 } else { 0 };
        let tybits = if i == 0 {
            ty << 4
        } else if rng.chance(1, 30) {
            (rng.range(1, 7) as u8) << 4
        } else {
            0
        };
        out.push(more | tybits | nib);
    }
    out
}

/// mutate the head of one message; `fix_crc` recomputes that message's checksum afterwards
pub fn mutated_file(rng: &mut Rng, f: &GFile, fix_crc: bool) -> Vec<u8> {
    let mut heads: Vec<Vec<u8>> = Vec::new();
    let mut tails: Vec<Vec<u8>> = Vec::new();
    {
        let mut e = Enc { rng, plain: false };
        for m in &f.msgs {
            let h = e.msg_head(m);
            let t = e.msg_tail(&h);
            heads.push(h);
            tails.push(t);
        }
    }
    if heads.is_empty() {
        return alpha_range(rng, 0, 5);
    }
    let nmut = rng.range(1, 3);
    for _ in 0..nmut {
        let i = rng.below(heads.len());
        let h = &mut heads[i];
        if h.is_empty() {
            continue;
        }
        let d = dict();
        if !d.bytes.is_empty() && rng.chance(1, 3) {
            // a literal that is new in the source, spliced in at a structure boundary (or anywhere): in place
            // of as many bytes, of one byte fewer (a widened field), or inserted
            let lit: Vec<u8> = rng.pick(&d.bytes[..]).clone();
            let cands: Vec<usize> = (0..h.len()).filter(|&p| h[p] >> 4 == 7).collect();
            let p = if !cands.is_empty() && rng.chance(2, 3) { *rng.pick(&cands) } else { rng.below(h.len()) };
            let k = *rng.pick(&[0usize, 1, lit.len().saturating_sub(1), lit.len()]);
            let end = (p + k).min(h.len());
            h.splice(p..end, lit);
            continue;
        }
        match rng.below(9) {
            0 => {
                let p = rng.below(h.len());
                h[p] ^= 1 << rng.below(8);
            }
            1 => {
                let p = rng.below(h.len());
                h[p] = rng.byte();
            }
            2 => {
                let p = rng.below(h.len());
                h.truncate(p);
            }
            3 => {
                let p = rng.below(h.len() + 1);
                let ins = alpha_range(rng, 1, 4);
                h.splice(p..p, ins);
            }
            4 => {
                let p = rng.below(h.len());
                h.remove(p);
            }
            5 | 6 => {
                // replace a TLF-looking byte by a wild TLF
                let cands: Vec<usize> = (0..h.len()).filter(|&p| h[p] & 0x80 == 0 && (h[p] >> 4 == 7 || h[p] >> 4 == 0 || h[p] >> 4 == 6 || h[p] >> 4 == 5)).collect();
                if !cands.is_empty() {
                    let p = *rng.pick(&cands);
                    let w = wild_tlf(rng);
                    h.splice(p..p + 1, w);
                }
            }
            7 => {
                // bump a list length by one up or down
                let cands: Vec<usize> = (0..h.len()).filter(|&p| h[p] >> 4 == 7).collect();
                if !cands.is_empty() {
                    let p = *rng.pick(&cands);
                    h[p] = 0x70 | ((h[p] & 0xF).wrapping_add(if rng.chance(1, 2) { 1 } else { 15 }) & 0xF);
                }
            }
            _ => {
                // splice part of another message
                let j = rng.below(heads.len());
                let src = heads[j].clone();
                let h = &mut heads[i];
                if !src.is_empty() {
                    let a = rng.below(src.len());
                    let b = rng.range(a, src.len());
                    let p = rng.below(h.len() + 1);
                    h.splice(p..p, src[a..b].iter().copied());
                }
            }
        }
        if fix_crc {
            let mut e = Enc { rng, plain: true };
            tails[i] = e.msg_tail(&heads[i]);
        }
    }
    let mut out = Vec::new();
    for (h, t) in heads.iter().zip(tails.iter()) {
        out.extend_from_slice(h);
        out.extend_from_slice(t);
    }
    match rng.below(12) {
        0 => {
            let n = rng.below(out.len() + 1);
            out.truncate(n);
        }
        1 => out.extend(alpha_range(rng, 1, 4)),
        2 => {
            // corrupt a tail (checksum or end marker)
            if !out.is_empty() {
                let p = out.len() - 1 - rng.below(out.len().min(4));
                out[p] ^= 1 << rng.below(8);
            }
        }
        _ => {}
    }
    out
}

/// type-length fields whose own encoding is very long (leading zero-nibble continuation bytes):
/// counters of the field size cross 2^8 and 2^16.  Returns (tlf bytes for an octet string of
/// `datalen` bytes) with `pad` extra leading `80` bytes.
pub fn long_octet_tlf(pad: usize, datalen: usize) -> Vec<u8> {
    // pad bytes 0x80 (type octet string, continuation, nibble 0), then 6 nibble bytes holding the value
    let size = pad + 6;
    let v = (size + datalen) as u64;
    let mut out = vec![0x80u8; pad];
    for i in 0..6 {
        let nib = ((v >> (4 * (5 - i))) & 0xF) as u8;
        out.push(if i < 5 { 0x80 } else { 0 } | nib);
    }
    out
}

/// a close-response message whose transaction id uses such a field; returns (bytes, transaction id)
pub fn long_tlf_message(pad: usize, valid: bool) -> (Vec<u8>, Vec<u8>) {
    let tid = vec![0xab, 0xcd];
    let mut head = vec![0x76];
    let mut t = long_octet_tlf(pad, tid.len());
    if !valid {
        // under-declare: the value is smaller than the field's own size
        let n = t.len();
        t[n - 1] = 0x01;
        for b in t[n - 6..n - 1].iter_mut() {
            *b = 0x80;
        }
    }
    head.extend(t);
    head.extend_from_slice(&tid);
    head.extend_from_slice(&[0x62, 0x07, 0x62, 0x09, 0x72, 0x63, 0x02, 0x01, 0x71, 0x01]);
    let c = crc16_x25(&head);
    let mut out = head;
    out.extend_from_slice(&[0x63, c as u8, (c >> 8) as u8, 0x00]);
    (out, tid)
}

pub const LONG_FIELD_PADS: [usize; 9] = [249, 250, 251, 65529, 65530, 65531, 65535, 65536, 70000];

/// counters of "how many" cross 2^8 and 2^16: entries per list, messages per file, bytes per string
pub const BIG_COUNTS: [usize; 6] = [255, 256, 257, 65535, 65536, 65537];

/// a get-list response with `n` minimal entries (distinct object names), canonical encoding
pub fn big_list_file(n: usize) -> (Vec<u8>, GFile) {
    let entries: Vec<GEntry> = (0..n)
        .map(|i| GEntry {
            obj_name: vec![(i >> 16) as u8, (i >> 8) as u8, i as u8],
            status: None,
            val_time: None,
            unit: None,
            scaler: None,
            value: GValue::Uns(1, (i % 251) as u64),
            sig: None,
        })
        .collect();
    let f = GFile {
        msgs: vec![GMsg {
            tid: vec![1],
            group: 0,
            abort: 0,
            body: GBody::GetList { client_id: None, server_id: vec![2], list_name: None, act_sensor_time: None, entries, list_sig: None, act_gateway_time: None },
        }],
    };
    let mut rng = Rng::new(1);
    let x = encode_file(&mut rng, &f, true);
    (x, f)
}

/// a file of `n` close responses
pub fn many_messages_file(n: usize) -> (Vec<u8>, GFile) {
    let f = GFile {
        msgs: (0..n).map(|i| GMsg { tid: vec![(i >> 8) as u8, i as u8], group: (i % 256) as u8, abort: 0, body: GBody::Close { sig: None } }).collect(),
    };
    let mut rng = Rng::new(1);
    let x = encode_file(&mut rng, &f, true);
    (x, f)
}

/// a close response whose signature is an octet string of `n` bytes
pub fn long_string_file(n: usize) -> (Vec<u8>, GFile) {
    let f = GFile {
        msgs: vec![GMsg { tid: vec![9], group: 1, abort: 2, body: GBody::Close { sig: Some((0..n).map(|i| (i % 253) as u8).collect()) } }],
    };
    let mut rng = Rng::new(1);
    let x = encode_file(&mut rng, &f, true);
    (x, f)
}

/// a get-list response declaring `declared` entries but carrying `actual` (checksum correct)
pub fn list_arity_file(declared: usize, actual: usize) -> Vec<u8> {
    let (x, _) = big_list_file(actual);
    // re-encode the head with a different declared count: locate the list TLF by re-building the message
    let mut head: Vec<u8> = vec![0x76, 0x02, 0x01, 0x62, 0x00, 0x62, 0x00, 0x72, 0x63, 0x07, 0x01, 0x77, 0x01, 0x02, 0x02, 0x01, 0x01];
    let mut k = 1;
    while (declared as u64) >= 1u64 << (4 * k) {
        k += 1;
    }
    Enc::tlf_raw(7, declared as u64, k, &mut head);
    let mut e = Enc { rng: &mut Rng::new(1), plain: true };
    for i in 0..actual {
        let ent = GEntry { obj_name: vec![(i >> 16) as u8, (i >> 8) as u8, i as u8], status: None, val_time: None, unit: None, scaler: None, value: GValue::Uns(1, (i % 251) as u64), sig: None };
        e.entry(&ent, &mut head);
    }
    head.extend_from_slice(&[0x01, 0x01]);
    let t = e.msg_tail(&head);
    head.extend(t);
    let _ = x;
    head
}

/// a valid message whose checksum fits one byte and is sent in the short form `62 xx`
/// (the transaction id is searched so that the checksum's first wire byte is zero)
pub fn short_crc_message(rng: &mut Rng) -> (Vec<u8>, GMsg) {
    let mut m = gmsg(rng, 3);
    m.tid = vec![0, 0, 0];
    loop {
        m.tid[0] = rng.byte();
        m.tid[1] = rng.byte();
        m.tid[2] = rng.byte();
        let head = { Enc { rng: &mut Rng::new(7), plain: true }.msg_head(&m) };
        let c = crc16_x25(&head);
        if c & 0xff == 0 {
            let mut x = head;
            x.extend_from_slice(&[0x62, (c >> 8) as u8, 0x00]);
            return (x, m);
        }
    }
}

/// payloads whose frame checksum has a special value: 0x0000, 0xffff, a zero / 0x1b / 0x1a byte in
/// either position (found by searching the last two payload bytes)
pub fn crc_special_payloads(rng: &mut Rng, per_target: usize) -> Vec<Vec<u8>> {
    let mut out = Vec::new();
    let targets: [(u16, u16); 10] = [
        (0xffff, 0x0000),
        (0xffff, 0xffff),
        (0x00ff, 0x0000),
        (0xff00, 0x0000),
        (0x00ff, 0x001b),
        (0xff00, 0x1b00),
        (0xffff, 0x1b1b),
        (0x00ff, 0x001a),
        (0xffff, 0x0101),
        (0xffff, 0x1a1b),
    ];
    for (mask, val) in targets {
        for _ in 0..per_target {
            let n = rng.range(0, 9);
            let mut p = alpha_bytes(rng, n);
            p.push(0);
            p.push(0);
            let l = p.len();
            'search: for a in 0..=255u8 {
                for b in 0..=255u8 {
                    p[l - 2] = a;
                    p[l - 1] = b;
                    let f = spec::frame(&p);
                    let c = (f[f.len() - 2] as u16) | ((f[f.len() - 1] as u16) << 8);
                    if c & mask == val {
                        out.push(p.clone());
                        break 'search;
                    }
                }
            }
        }
    }
    out
}

/// a get-list response as the LAST message whose `actual` entries are all minimal (8 bytes each:
/// `77 01 01 01 01 01 01 01`), list signature and gateway time absent, declaring `declared` entries;
/// `short_crc`: search the transaction id so that the checksum can be sent as `62 xx`.
/// Returns the bytes and (when declared == actual) the file.
pub fn minimal_list_file(rng: &mut Rng, declared: usize, actual: usize, short_crc: bool, with_open: bool) -> (Vec<u8>, GFile) {
    let entry = GEntry { obj_name: vec![], status: None, val_time: None, unit: None, scaler: None, value: GValue::Bytes(vec![]), sig: None };
    let mut msgs = Vec::new();
    let mut out = Vec::new();
    if with_open {
        let m = GMsg { tid: vec![1], group: 0, abort: 0, body: GBody::Close { sig: None } };
        out.extend(encode_file(&mut Rng::new(1), &GFile { msgs: vec![m.clone()] }, true));
        msgs.push(m);
    }
    let mut tid = vec![rng.byte(), rng.byte(), rng.byte()];
    loop {
        let mut head: Vec<u8> = vec![0x76, 0x04];
        head.extend_from_slice(&tid);
        head.extend_from_slice(&[0x62, 0x00, 0x62, 0x00, 0x72, 0x63, 0x07, 0x01, 0x77, 0x01, 0x01, 0x01, 0x01]);
        let mut k = 1;
        while (declared as u64) >= 1u64 << (4 * k) {
            k += 1;
        }
        Enc::tlf_raw(7, declared as u64, k, &mut head);
        for _ in 0..actual {
            head.extend_from_slice(&[0x77, 0x01, 0x01, 0x01, 0x01, 0x01, 0x01, 0x01]);
        }
        head.extend_from_slice(&[0x01, 0x01]);
        let c = crc16_x25(&head);
        if short_crc && c & 0xff != 0 {
            tid = vec![rng.byte(), rng.byte(), rng.byte()];
            continue;
        }
        out.extend_from_slice(&head);
        if short_crc {
            out.extend_from_slice(&[0x62, (c >> 8) as u8, 0x00]);
        } else {
            out.extend_from_slice(&[0x63, c as u8, (c >> 8) as u8, 0x00]);
        }
        break;
    }
    msgs.push(GMsg {
        tid,
        group: 0,
        abort: 0,
        body: GBody::GetList { client_id: None, server_id: vec![], list_name: None, act_sensor_time: None, entries: vec![entry; actual], list_sig: None, act_gateway_time: None },
    });
    (out, GFile { msgs })
}

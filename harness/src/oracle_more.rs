// included into oracle.rs

fn oracle_c03(case: &Case, outs: &[ImplRes]) -> Result<(), String> {
    expect_eq("allocating parser on a valid encoding", outs[0].text, &format!("ok:{}", case.aux[0]))?;
    let want = if case.aux[1].is_empty() { "N | N N".to_string() } else { format!("{} N | N N", case.aux[1]) };
    expect_eq("streaming parser on a valid encoding", outs[1].text, &want)
}

fn oracle_c13(case: &Case, outs: &[ImplRes]) -> Result<(), String> {
    let x = untok(case.lines[0].split(' ').nth(1).unwrap()).unwrap();
    let (main, tail) = outs[0].text.split_once(" | ").ok_or("malformed response")?;
    let its = items(main);
    if its.len() > x.len() + 2 {
        return Err(format!("{} items for {} input bytes", its.len(), x.len()));
    }
    for (k, t) in its.iter().enumerate() {
        let last = k + 1 == its.len();
        if (t.starts_with("err:") || t == "N") && !last {
            return Err("iteration continued after an error / None".into());
        }
    }
    // number of Some(..) items is at most |x| + 1
    let somes = its.iter().filter(|t| *t != "N").count();
    if somes > x.len() + 1 {
        return Err(format!("{} items for {} input bytes", somes, x.len()));
    }
    if items(tail).iter().any(|t| t != "N") {
        return Err(format!("after the first error / None further calls returned `{}`", short(tail)));
    }
    Ok(())
}

fn oracle_c06(case: &Case, outs: &[ImplRes]) -> Result<(), String> {
    let x = untok(case.lines[0].split(' ').nth(1).unwrap()).unwrap();
    let le = std::mem::size_of::<sml_rs::parser::common::ListEntry>();
    let me = std::mem::size_of::<sml_rs::parser::complete::Message>();
    // list vectors: ≤ |x| entries reserved per request and ≤ 2|x| in total (Lean: C06.alloc_bound);
    // message vector: amortised doubling, ≤ 2 * max(4, #messages) ≤ 2|x| + 8 slots, each regrowth re-requests
    // the whole block, so the running total is ≤ 4x the final size.
    let bound = 2 * le * x.len() + 8 * me * (x.len() + 4) + 1024;
    if outs[0].alloc_bytes > bound {
        return Err(format!("allocating parser requested {} bytes for {} input bytes (bound {})", outs[0].alloc_bytes, x.len(), bound));
    }
    if outs[1].alloc_calls != 0 {
        return Err(format!("streaming parser performed {} heap allocations ({} bytes)", outs[1].alloc_calls, outs[1].alloc_bytes));
    }
    Ok(())
}

/// reassemble streaming events (canonical strings) into the canonical file string
fn reassemble(events: &[String]) -> Option<String> {
    let mut msgs: Vec<String> = Vec::new();
    let mut i = 0;
    while i < events.len() {
        let e = &events[i];
        let inner = e.strip_prefix("MS(")?.strip_suffix(')')?;
        i += 1;
        if let Some(pos) = inner.find(",GS(") {
            let head = &inner[..pos];
            let gs = inner[pos + 4..].strip_suffix(')')?;
            let (fields, n) = gs.rsplit_once(',')?;
            let n: usize = n.parse().ok()?;
            let mut entries = Vec::new();
            for _ in 0..n {
                let ev = events.get(i)?;
                if !ev.starts_with("E(") {
                    return None;
                }
                entries.push(ev.clone());
                i += 1;
            }
            let ge = events.get(i)?.strip_prefix("GE(")?.strip_suffix(')')?;
            i += 1;
            let (sig, time) = ge.split_once(',')?;
            msgs.push(format!("M({},G({},[{}],{},{}))", head, fields, entries.join(";"), sig, time));
        } else {
            msgs.push(format!("M({})", inner));
        }
    }
    Some(format!("F[{}]", msgs.join(";")))
}

fn oracle_c09(_case: &Case, outs: &[ImplRes]) -> Result<(), String> {
    let p = outs[0].text;
    let (main, _tail) = outs[1].text.split_once(" | ").ok_or("malformed response")?;
    let its = items(main);
    let last = its.last().cloned().unwrap_or_default();
    let evs: Vec<String> = its[..its.len().saturating_sub(1)].to_vec();
    // event grammar: after MS(..GS(..,n)) exactly n E(..) then GE(..)
    {
        let mut i = 0;
        while i < evs.len() {
            let e = &evs[i];
            if !e.starts_with("MS(") {
                return Err(format!("event #{} `{}` where a message start was expected", i, short(e)));
            }
            i += 1;
            if let Some(pos) = e.find(",GS(") {
                let n: usize = e[pos..].trim_end_matches(')').rsplit(',').next().and_then(|n| n.parse().ok()).ok_or("bad num_vals")?;
                let mut k = 0;
                while k < n && i < evs.len() {
                    if !evs[i].starts_with("E(") {
                        return Err(format!("announced {} values but event #{} is `{}`", n, i, short(&evs[i])));
                    }
                    i += 1;
                    k += 1;
                }
                if i < evs.len() {
                    if !evs[i].starts_with("GE(") {
                        return Err(format!("after {} values event #{} is `{}` instead of the list end", n, i, short(&evs[i])));
                    }
                    i += 1;
                } else if last == "N" {
                    return Err("stream ended inside a list response without error".into());
                }
            }
        }
    }
    if let Some(f) = p.strip_prefix("ok:") {
        if last != "N" {
            return Err(format!("allocating parser succeeded but streaming parser ended with `{}`", last));
        }
        let r = reassemble(&evs).ok_or("events of the streaming parser do not reassemble to a file")?;
        expect_eq("reassembled streaming events vs allocating parser", &r, f)
    } else if let Some(k) = p.strip_prefix("err:") {
        expect_eq("error kinds of the two parsers", &last, &format!("err:{}", k))
    } else {
        Err(format!("unexpected parser output {}", short(p)))
    }
}

/// independent reading of the type-length-field rule (positional, u64 arithmetic)
fn tlf_rule(bs: &[u8], avail_after: usize) -> Result<(u8, u64, usize), &'static str> {
    let _ = avail_after;
    if bs.is_empty() {
        return Err("UnexpectedEOF");
    }
    let ty = (bs[0] >> 4) & 7;
    if ![0u8, 4, 5, 6, 7].contains(&ty) {
        return Err("TlfInvalidTy");
    }
    if ty == 4 && bs[0] & 0x80 != 0 {
        return Err("TlfReserved");
    }
    let mut v: u64 = (bs[0] & 0xf) as u64;
    let mut k = 1;
    let mut more = bs[0] & 0x80 != 0;
    while more {
        if k >= bs.len() {
            return Err("UnexpectedEOF");
        }
        let b = bs[k];
        if (b >> 4) & 7 != 0 {
            return Err("TlfNextByteTypeMismatch");
        }
        if v * 16 > 0xFFFF_FFFF {
            return Err("TlfLengthOverflow");
        }
        v = v * 16 + (b & 0xf) as u64;
        more = b & 0x80 != 0;
        k += 1;
    }
    if ty != 7 {
        if v < k as u64 {
            return Err("TlfLengthUnderflow");
        }
        v -= k as u64;
    }
    Ok((ty, v, k))
}

fn oracle_c12(case: &Case, outs: &[ImplRes]) -> Result<(), String> {
    let out = outs[0].text;
    let main = out.split(" | ").next().unwrap_or(out);
    let first = main.split(' ').next().unwrap_or("");
    match case.family {
        "tlf-list-pos" => {
            let t = unhex(&case.aux[0]).unwrap();
            let want = match tlf_rule(&t, 0) {
                Err(k) => format!("err:{}", k),
                Ok((7, v, _)) => format!("MS(x,0,0,GS(~,x,~,~,{}))", v),
                Ok(_) => "err:TlfMismatch".to_string(),
            };
            expect_eq(&format!("type-length field {} at a list position", case.aux[0]), first, &want)
        }
        "tlf-octet-pos" => {
            let t = unhex(&case.aux[0]).unwrap();
            let data: Vec<u8> = (0..40u8).map(|i| 0xa0 + i).collect();
            // the field may run into the data bytes (continuation bits): apply the rule to field ++ data
            let mut all = t.clone();
            all.extend_from_slice(&data);
            let r = tlf_rule(&all, 0);
            let want: Option<String> = match r {
                Err(k) => Some(format!("err:{}", k)),
                Ok((0, v, k)) => {
                    let rest = &all[k..];
                    if (v as usize) > rest.len() || v > 1 << 20 {
                        Some("err:UnexpectedEOF".to_string())
                    } else {
                        // what follows the string must then parse as the rest of a message; only check the
                        // cases where the string ends exactly at the end of the 40 data bytes
                        None
                    }
                }
                Ok(_) => Some("err:TlfMismatch".to_string()),
            };
            match want {
                Some(w) => expect_eq(&format!("type-length field {} at an octet-string position", case.aux[0]), first, &w),
                None => Ok(()),
            }
        }
        "int-value" | "int-status" => {
            let bytes = unhex(&case.aux[1]).unwrap();
            let w = bytes.len();
            let signed = case.aux[0] == "i";
            let want_val: String = if w == 0 || w > 8 {
                "err:TlfMismatch".into()
            } else {
                let class = if w <= 1 { 8 } else if w <= 2 { 16 } else if w <= 4 { 32 } else { 64 };
                let mut u: u64 = 0;
                for b in &bytes {
                    u = (u << 8) | *b as u64;
                }
                if signed {
                    let v: i64 = if bytes[0] & 0x80 != 0 && w < 8 { (u as i64) - (1i64 << (8 * w)) } else { u as i64 };
                    format!("I{}:{}", class, v)
                } else if case.aux[0] == "s" {
                    format!("S{}:{}", class, u)
                } else {
                    format!("U{}:{}", class, u)
                }
            };
            let evs = items(main);
            if want_val.starts_with("err:") {
                // w = 0: for a status / value position `01`.. careful: width 0 means TLF 0x51/0x61 (len 0)
                return expect_eq("integer of unsupported width", evs.get(1).map(|s| s.as_str()).unwrap_or(""), &want_val);
            }
            let e = evs.get(1).ok_or("missing list entry event")?;
            let want = if case.family == "int-value" { format!("E(x,~,~,~,~,{},~)", want_val) } else { format!("E(x,{},~,~,~,x,~)", want_val) };
            // int-status entries end with value `01`?? (empty octet string) and signature absent
            expect_eq("integer value", e, &want)
        }
        "tlf-huge-list" => {
            // the announced number is the declared one; as the input cannot hold that many entries the next
            // item is an error (never the end of the iteration, never another message)
            let t = unhex(&case.aux[0]).unwrap();
            let n = match tlf_rule(&t, 0) {
                Ok((7, v, _)) => v,
                _ => return Ok(()),
            };
            let its = items(main);
            expect_eq("announced list length", first, &format!("MS(x,0,0,GS(~,x,~,~,{}))", n))?;
            match its.get(1) {
                Some(s) if s.starts_with("err:") => Ok(()),
                other => Err(format!("a list declaring {} entries in a {}-byte input was followed by {:?} instead of an error", n, case.lines[0].len() / 2, other)),
            }
        }
        "tlf-long-octet" => expect_eq("octet string behind a very long type-length field", first, &case.aux[0]),
        "bool-value" => {
            let b = unhex(&case.aux[1]).unwrap()[0];
            let evs = items(main);
            let e = evs.get(1).ok_or("missing list entry event")?;
            expect_eq("boolean value", e, &format!("E(x,~,~,~,~,B{},~)", if b != 0 { 1 } else { 0 }))
        }
        _ => Ok(()),
    }
}

fn oracle_c08(case: &Case, outs: &[ImplRes]) -> Result<(), String> {
    let hlen: usize = case.aux[0].parse().unwrap();
    if let Some(l) = case.aux[1].strip_prefix("LEN:") {
        // huge noise given by its length only
        let glen: usize = l.parse().unwrap();
        let m = unhex(&case.aux[2]).unwrap();
        let end = glen + spec::frame(&m).len();
        let want = format!("{}:disc:{} {}:ok:{} {}:F:-", glen + 8, glen, end, hex(&m), end);
        return expect_eq("events after 2^32 noise bytes", outs[0].text, &want);
    }
    let g = unhex(&case.aux[1]).unwrap();
    let m = unhex(&case.aux[2]).unwrap();
    let toks: Vec<&str> = case.lines[0].split(' ').collect();
    let cap = parse_cap(toks[1]).unwrap();
    let flen = spec::frame(&m).len();
    // events after the idle history
    let evs: Vec<(usize, String)> = dec_events(outs[0].text)
        .into_iter()
        .filter(|(i, _)| *i > hlen)
        .collect();
    let mut want: Vec<String> = Vec::new();
    if !g.is_empty() {
        want.push(format!("{}:disc:{}", hlen + g.len() + 8, g.len()));
    }
    let end = hlen + g.len() + flen;
    if cap.map(|c| m.len() <= c).unwrap_or(true) {
        want.push(format!("{}:ok:{}", end, hex(&m)));
        want.push(format!("{}:F:-", end));
    } else {
        return Ok(()); // capacity too small: C16's business
    }
    let got: Vec<String> = evs.iter().map(|(i, e)| format!("{}:{}", i, e)).collect();
    // the history's own final F/R event (at position hlen) is not part of the comparison
    expect_eq("events after noise / cut-off frame", &got.join(" "), &want.join(" "))
}

fn oracle_c14(case: &Case, outs: &[ImplRes]) -> Result<(), String> {
    let plen: usize = case.aux[0].parse().unwrap();
    let has_op = case.aux[1] == "1";
    let all = dec_events(outs[0].text);
    // events at positions < plen belong to the prefix; at position plen come, in order: the result of
    // the prefix's last push (if any), the explicit F/R op (if any), and only then the continuation
    let mut cont: Vec<String> = Vec::new();
    let mut op_pending = has_op;
    for (i, e) in &all {
        if *i < plen {
            continue;
        }
        if *i == plen {
            let is_op = e.starts_with("F:") || e.starts_with("R:") || e == "N" || e == "B";
            if !is_op {
                continue;
            }
            if op_pending {
                op_pending = false;
                continue;
            }
        }
        cont.push(format!("{}:{}", i - plen, e));
    }
    let fresh: Vec<String> = dec_events(outs[1].text).iter().map(|(i, e)| format!("{}:{}", i, e)).collect();
    expect_eq("continuation after a boundary vs a new decoder", &cont.join(" "), &fresh.join(" "))
}

fn oracle_c16(case: &Case, outs: &[ImplRes]) -> Result<(), String> {
    let p = unhex(&case.aux[0]).unwrap();
    let p2 = unhex(&case.aux[1]).unwrap();
    let n: usize = case.aux[2].parse().unwrap();
    let f = spec::frame(&p);
    let f2 = spec::frame(&p2);
    if case.family == "default-buffer" {
        let mut its = items(outs[0].text);
        while its.len() < 2 {
            its.push(String::new());
        }
        if p.len() <= n {
            return expect_eq("default 8 KiB buffer, payload fits", &its[..2].join(" "), &format!("ok:{} ok:{}", hex(&p), hex(&p2)));
        }
        if its.first().map(|s| s.as_str()) != Some("oom") {
            return Err(format!("payload of {} bytes in the default buffer: first result `{}` is not out-of-memory", p.len(), short(&its[0])));
        }
        if its.iter().any(|t| t.starts_with("ok:") && *t != format!("ok:{}", hex(&p2))) {
            return Err("a payload other than the next frame's was delivered after out-of-memory".into());
        }
        return Ok(());
    }
    let evs = dec_events(outs[0].text);
    if p.len() <= n {
        // fits exactly: delivered at the frame's last byte, then the second frame (if it fits)
        let mut want = vec![format!("{}:ok:{}", f.len(), hex(&p))];
        if p2.len() <= n {
            want.push(format!("{}:ok:{}", f.len() + f2.len(), hex(&p2)));
            want.push(format!("{}:F:-", f.len() + f2.len()));
        }
        let got: Vec<String> = evs.iter().map(|(i, e)| format!("{}:{}", i, e)).collect();
        if got.len() < want.len() || got[..want.len()] != want[..] {
            return Err(format!("capacity {} for a {}-byte payload: got `{}`, expected `{}`", n, p.len(), short(&got.join(" ")), short(&want.join(" "))));
        }
        return Ok(());
    }
    // too small: the first result is out-of-memory, within the frame
    match evs.first() {
        Some((i, e)) if e == "oom" && *i <= f.len() => {}
        other => return Err(format!("capacity {} < payload length {}: first result {:?} is not out-of-memory within the frame", n, p.len(), other)),
    }
    // never a shortened / altered payload: anything delivered later is a canonical frame literally present
    let stream = [f.clone(), f2.clone()].concat();
    for (i, e) in &evs {
        if let Some(h) = e.strip_prefix("ok:") {
            let m = unhex(h).unwrap();
            if !is_suffix(&stream[..*i], &spec::frame(&m)) {
                return Err(format!("after out-of-memory a payload {} was delivered that is not an intact frame of the stream", h));
            }
        }
    }
    // immediately ready for the next frame (when the rest of the first frame contains no start sequence)
    if spec::find(&f[1..], &spec::START).is_none() && p2.len() <= n {
        let want_last = format!("{}:ok:{}", stream.len(), hex(&p2));
        let got: Vec<String> = evs.iter().map(|(i, e)| format!("{}:{}", i, e)).collect();
        if !got.contains(&want_last) {
            return Err(format!("after out-of-memory the next frame was not delivered: `{}`", short(&got.join(" "))));
        }
    }
    Ok(())
}

fn strip_trailing_none(mut v: Vec<String>) -> Vec<String> {
    // idle answers at end of input: `None` from next / next_nb, `IoErr(Eof, 0)` from read / read_nb
    while v.last().map(|s| s == "none" || s == "io:eof:0").unwrap_or(false) {
        v.pop();
    }
    v
}

fn oracle_c11(case: &Case, outs: &[ImplRes]) -> Result<(), String> {
    match case.family {
        "wouldblock" => {
            let a: Vec<String> = items(outs[0].text).into_iter().filter(|t| t != "io:wb:0" && t != "nbwb").collect();
            let b = items(outs[1].text);
            // every would-block surfaces exactly once, with zero discarded bytes
            let nwb = items(outs[0].text).iter().filter(|t| *t == "io:wb:0" || *t == "nbwb").count();
            let nfaults = case.lines[0].split(' ').skip(4).filter(|t| *t == "W").count();
            if items(outs[0].text).iter().any(|t| t.starts_with("io:wb:") && t != "io:wb:0") {
                return Err("a would-block result carried a non-zero discarded count".into());
            }
            if nwb != nfaults {
                return Err(format!("{} would-block faults injected but {} surfaced", nfaults, nwb));
            }
            expect_eq("results with would-block / interrupted faults removed vs fault-free run", &strip_trailing_none(a).join(" "), &strip_trailing_none(b).join(" "))
        }
        "wouldblock-eh" => {
            // no end of input: after the events the source blocks forever; compare the non-blocking results
            let a: Vec<String> = items(outs[0].text).into_iter().filter(|t| t != "io:wb:0" && t != "nbwb").collect();
            let b: Vec<String> = items(outs[1].text).into_iter().filter(|t| t != "io:wb:0" && t != "nbwb").collect();
            expect_eq("embedded-hal source: results with would-block removed vs fault-free run", &a.join(" "), &b.join(" "))
        }
        "other-error-eh" => {
            let its = items(outs[0].text);
            let want0 = format!("io:other:{}", case.aux[0]);
            let want1 = format!("ok:{}", case.aux[1]);
            if its.first().map(|s| s.as_str()) != Some(want0.as_str()) || its.get(1).map(|s| s.as_str()) != Some(want1.as_str()) {
                return Err(format!("embedded-hal source: got `{}`, expected `{} {} …` (the error with the pending byte count, then the next frame)", short(outs[0].text), want0, want1));
            }
            Ok(())
        }
        "eof-midstream" => {
            // results before the end-of-input report, the report (None when nothing is pending, the exact
            // count otherwise), then exactly what a fresh reader yields on the rest
            let pre = items(outs[1].text);
            let post = strip_trailing_none(items(outs[2].text));
            let mut want: Vec<String> = Vec::new();
            let mut pending = 0usize;
            for t in strip_trailing_none(pre) {
                if let Some(n) = t.strip_prefix("io:eof:") {
                    pending = n.parse().unwrap_or(0);
                } else {
                    want.push(t);
                }
            }
            let mut want_read = want.clone();
            want.push(if pending == 0 { "none".to_string() } else { format!("io:eof:{}", pending) });
            want.extend(post.clone());
            let got = strip_trailing_none(items(outs[0].text));
            expect_eq("mid-stream end of input via next()", &got.join(" "), &strip_trailing_none(want).join(" "))?;
            // read(): the report is always explicit
            want_read.push(format!("io:eof:{}", pending));
            want_read.extend(post.iter().map(|t| t.clone()));
            let got_r: Vec<String> = items(outs[3].text);
            let got_r: Vec<String> = got_r.into_iter().take(want_read.len()).collect();
            // the `post` run was recorded with next(): its final io:eof item (if any) is the same for read()
            expect_eq("mid-stream end of input via read()", &got_r.join(" "), &want_read.join(" "))
        }
        "other-error" => {
            if let Some(n) = case.aux.first() {
                // independent expectation: no result precedes the fault, all bytes read so far are pending
                let first = items(outs[0].text).first().cloned().unwrap_or_default();
                expect_eq("count attached to the read error", &first, &format!("io:other:{}", n))?;
                let eof = items(outs[1].text).first().cloned().unwrap_or_default();
                expect_eq("count attached to end of input", &eof, &format!("io:eof:{}", n))?;
            }
            let pre = items(outs[1].text);
            let post = strip_trailing_none(items(outs[2].text));
            let mut want: Vec<String> = Vec::new();
            let mut pending = 0usize;
            for t in strip_trailing_none(pre) {
                if let Some(n) = t.strip_prefix("io:eof:") {
                    pending = n.parse().unwrap_or(0);
                } else {
                    want.push(t);
                }
            }
            want.push(format!("io:other:{}", pending));
            want.extend(post);
            let got = strip_trailing_none(items(outs[0].text));
            expect_eq("read error = results before it, the error with the pending byte count, then a fresh reader on the rest", &got.join(" "), &want.join(" "))
        }
        _ => Ok(()),
    }
}

fn oracle_c10(case: &Case, outs: &[ImplRes]) -> Result<(), String> {
    if case.family == "e2e-resume" {
        return expect_eq("SmlReader over a source that reports end of input between files and then delivers more", outs[0].text, &case.aux[0]);
    }
    let toks: Vec<&str> = case.lines[0].split(' ').collect();
    let calls: Vec<char> = toks[3].chars().collect();
    let frames: Vec<Vec<&str>> = case.aux[0].split('#').map(|f| f.split('|').collect()).collect();
    let tail: usize = case.aux[1].parse().unwrap();
    // expected results, one per call
    let mut want: Vec<String> = Vec::new();
    let mut ci = 0usize;
    let target = |ci: usize| calls.get(2 * ci + 1).copied().unwrap_or('b');
    for f in &frames {
        let glen: usize = f[0].parse().unwrap();
        if glen > 0 {
            want.push(format!("disc:{}", glen));
            ci += 1;
        }
        want.push(match target(ci) {
            'b' => format!("bytes:{}", f[1]),
            'f' => format!("file:{}", f[2]),
            _ => format!("events:[{}]", f[3]),
        });
        ci += 1;
    }
    let ncalls = calls.len() / 2;
    let mut eof_reported = false;
    while want.len() < ncalls {
        let call = calls[2 * want.len()];
        if !eof_reported && tail > 0 {
            want.push(format!("io:eof:{}", tail));
            eof_reported = true;
        } else if call == 'r' || call == 'R' {
            want.push("io:eof:0".to_string());
        } else {
            want.push("none".to_string());
        }
    }
    expect_eq("SmlReader results vs the transmitted files", outs[0].text, &want.join(" "))
}

//! Independent Rust oracles (written from the protocol description, not from sml-rs):
//! wire-format frame, byte-accounting tiling.

use crate::util::crc16_x25;

pub const START: [u8; 8] = [0x1b, 0x1b, 0x1b, 0x1b, 0x01, 0x01, 0x01, 0x01];

/// payload with 1b1b1b1b inserted after every fourth consecutive 0x1b
pub fn stuff(p: &[u8]) -> Vec<u8> {
    let mut out = Vec::with_capacity(p.len() + p.len() / 4 * 4);
    let mut run = 0;
    for &b in p {
        out.push(b);
        if b == 0x1b {
            run += 1;
            if run == 4 {
                out.extend_from_slice(&[0x1b; 4]);
                run = 0;
            }
        } else {
            run = 0;
        }
    }
    out
}

pub fn frame(p: &[u8]) -> Vec<u8> {
    let mut f = START.to_vec();
    f.extend(stuff(p));
    let pad = (4 - f.len() % 4) % 4;
    f.extend(std::iter::repeat(0u8).take(pad));
    f.extend_from_slice(&[0x1b, 0x1b, 0x1b, 0x1b, 0x1a, pad as u8]);
    let c = crc16_x25(&f);
    f.push(c as u8);
    f.push((c >> 8) as u8);
    f
}

/// does `hay` contain `needle`?
pub fn contains(hay: &[u8], needle: &[u8]) -> bool {
    needle.is_empty() || hay.windows(needle.len()).any(|w| w == needle)
}

/// position of the first occurrence
pub fn find(hay: &[u8], needle: &[u8]) -> Option<usize> {
    if needle.is_empty() {
        return Some(0);
    }
    hay.windows(needle.len()).position(|w| w == needle)
}

/// reference de-framing of a recording: every canonical frame `frame(p)` found at a start
/// sequence yields `p` (used only to obtain seed payloads from the repository's sample files)
pub fn deframe(s: &[u8]) -> Vec<Vec<u8>> {
    let mut out = Vec::new();
    let mut i = 0;
    while i + 16 <= s.len() {
        if s[i..i + 8] != START {
            i += 1;
            continue;
        }
        // find the end sequence 1b1b1b1b 1a pp cc cc at a 4-aligned offset
        let mut j = i + 8;
        let mut found = None;
        while j + 8 <= s.len() {
            if s[j..j + 4] == [0x1b; 4] && s[j + 4] == 0x1a && (j - i) % 4 == 0 {
                found = Some(j);
                break;
            }
            if s[j..j + 4] == [0x1b; 4] && j + 8 <= s.len() && s[j + 4..j + 8] == [0x1b; 4] {
                j += 8;
                continue;
            }
            j += 1;
        }
        match found {
            Some(j) => {
                let pad = s[j + 5] as usize;
                let body = &s[i + 8..j];
                if pad <= 3 && pad <= body.len() {
                    // un-stuff
                    let mut p = Vec::new();
                    let mut k = 0;
                    let body = &body[..body.len() - pad];
                    while k < body.len() {
                        if k + 8 <= body.len() && body[k..k + 8] == [0x1b; 8] {
                            p.extend_from_slice(&[0x1b; 4]);
                            k += 8;
                        } else {
                            p.push(body[k]);
                            k += 1;
                        }
                    }
                    if frame(&p) == s[i..j + 8] {
                        out.push(p);
                    }
                }
                i = j + 8;
            }
            None => break,
        }
    }
    out
}

//! Independent Rust oracles (written from the protocol description, not from sml-rs):
//! wire-format frame, byte-accounting tiling.

use crate::util::crc16_x25;

pub const START: [u8; 8] = [0x1b, 0x1b, 0x1b, 0x1b, 0x01, 0x01, 0x01, 0x01];

/// payload with 1b1b1b1b inserted after every fourth consecutive 0x1b
pub fn stuff(p: &[u8]) -> Vec<u8> {
    let mut out = Vec::with_capacity(p.len() + p.len() / 4 * 4);
    let mut run = 0;
    for &b in p {
        out.push(b);
        if b == 0x1b {
            run += 1;
            if run == 4 {
                out.extend_from_slice(&[0x1b; 4]);
                run = 0;
            }
        } else {
            run = 0;
        }
    }
    out
}

pub fn frame(p: &[u8]) -> Vec<u8> {
    let mut f = START.to_vec();
    f.extend(stuff(p));
    let pad = (4 - f.len() % 4) % 4;
    f.extend(std::iter::repeat(0u8).take(pad));
    f.extend_from_slice(&[0x1b, 0x1b, 0x1b, 0x1b, 0x1a, pad as u8]);
    let c = crc16_x25(&f);
    f.push(c as u8);
    f.push((c >> 8) as u8);
    f
}

/// does `hay` contain `needle`?
pub fn contains(hay: &[u8], needle: &[u8]) -> bool {
    needle.is_empty() || hay.windows(needle.len()).any(|w| w == needle)
}

/// position of the first occurrence
pub fn find(hay: &[u8], needle: &[u8]) -> Option<usize> {
    if needle.is_empty() {
        return Some(0);
    }
    hay.windows(needle.len()).position(|w| w == needle)
}

// included into props.rs

// ---------------------------------------------------------------------------------------------
// C08 / C14 / C16: decoder histories
// ---------------------------------------------------------------------------------------------

/// a byte string (plus optional trailing op) after which the decoder is idle
fn idle_history(rng: &mut Rng, cap: Option<usize>) -> (Vec<u8>, Option<&'static str>) {
    match rng.below(8) {
        0 => (vec![], None),
        1 => {
            // delivered (if it fits; otherwise out-of-memory and the rest of the frame is noise: reset)
            let p = rand_payload(rng, 12);
            let fits = cap.map(|c| p.len() <= c).unwrap_or(true);
            (spec::frame(&p), if fits { None } else { Some("R") })
        }
        2 => {
            // invalid message (bad crc)
            let p = rand_payload(rng, 6);
            let fits = cap.map(|c| p.len() <= c).unwrap_or(true);
            let mut f = spec::frame(&p);
            let n = f.len();
            f[n - 1] ^= 0x55;
            (f, if fits { None } else { Some("R") })
        }
        3 => {
            // invalid escape sequence
            let mut s = spec::START.to_vec();
            s.extend_from_slice(&[0xaa, 0x1b, 0x1b, 0x1b, 0x1b, 0x02, 0x03, 0x04, 0x05]);
            (s, None)
        }
        4 => (adversarial_stream(rng, 6), Some("R")),
        5 => (adversarial_stream(rng, 6), Some("F")),
        6 => (alpha_range(rng, 0, 8), Some(*rng.pick(&["R", "N", "Bdeadbeef", "B-"]))),
        _ => {
            // out of memory
            let mut s = spec::START.to_vec();
            s.extend(vec![0x33; cap.unwrap_or(40) + 1]);
            (s, if cap.is_none() { Some("R") } else { None })
        }
    }
}

fn gen_c08(tier: &Tier, rng: &mut Rng, w: usize, nw: usize, out: &mut Vec<Case>) {
    if tier.thorough && w == 4 % nw {
        // more than 2^32 noise bytes ending in a partial start sequence (implementation + oracle only)
        let m = vec![0x12u8, 0x34];
        let g_tok = "aa*4294967296,1b1b1b1b0101";
        let glen: u64 = 4294967296 + 6;
        out.push(
            Case::new("noise-4gib", vec![format!("dec inf - {} {} F", g_tok, tok(&spec::frame(&m)))])
                .with_aux(vec!["0".into(), format!("LEN:{}", glen), hex(&m)])
                .impl_only(true),
        );
    }
    // (a) exhaustive noise over the alphabet, filtered by START-freeness, fresh decoder
    let maxl = if tier.thorough { 8 } else { 6 };
    let mut idx = 0usize;
    let m0 = vec![0x12u8, 0x1b, 0x00];
    for l in 0..=maxl {
        for g in exhaustive(&[0x1b, 0x01, 0x00, 0xaa], l) {
            if idx % nw == w && noise_ok(&g) {
                let f = spec::frame(&m0);
                out.push(
                    Case::new("noise-exh", vec![format!("dec inf - {} {} F", tok(&g), tok(&f))])
                        .with_aux(vec!["0".into(), hex(&g), hex(&m0)]),
                );
            }
            idx += 1;
        }
    }
    if w == 1 % nw {
        for n in [255usize, 256, 65535, 65536, 70000] {
            let m = vec![0x12u8, 0x34];
            let mut g = vec![0xaau8; n];
            g.extend_from_slice(&spec::START[..5]);
            out.push(
                Case::new("noise-long", vec![format!("dec inf - {} {} F", tok(&g), tok(&spec::frame(&m)))])
                    .with_aux(vec!["0".into(), hex(&g), hex(&m)]),
            );
        }
    }
    // (b) random noise x payload x idle history
    let n = if tier.thorough { 400_000 } else { 60_000 } / nw;
    for _ in 0..n {
        let cap = if rng.chance(1, 2) { None } else { Some(*rng.pick(&[8usize, 12, 16, 32])) };
        let m = rand_payload(rng, cap.unwrap_or(16).min(16));
        let g = start_free_noise(rng, 10);
        let (h, op) = idle_history(rng, cap);
        let hist = match op {
            Some(o) => format!("{} {}", tok(&h), o),
            None => tok(&h),
        };
        out.push(
            Case::new("noise-rand", vec![format!("dec {} {} {} {} F", cap_tok(cap), hist, tok(&g), tok(&spec::frame(&m)))])
                .with_aux(vec![h.len().to_string(), hex(&g), hex(&m)]),
        );
    }
    // (c) cut-off frame followed by a complete frame
    for _ in 0..n / 2 {
        let m1 = rand_payload(rng, 24);
        let m2 = rand_payload(rng, 12);
        let f1 = spec::frame(&m1);
        let cuts = admissible_cuts(&f1);
        if cuts.is_empty() {
            continue;
        }
        let k = *rng.pick(&cuts);
        let a = f1[..k].to_vec();
        // the cut-off part must not itself contain another start sequence
        if spec::find(&a[1..], &spec::START).is_some() {
            continue;
        }
        out.push(
            Case::new("cut-frame", vec![format!("dec inf - {} {} F", tok(&a), tok(&spec::frame(&m2)))])
                .with_aux(vec!["0".into(), hex(&a), hex(&m2)]),
        );
    }
}

/// offsets k (8 ≤ k ≤ |f| - 8) of a canonical frame at which no 0x1b run or escape sequence is in progress
fn admissible_cuts(f: &[u8]) -> Vec<usize> {
    let mut v = Vec::new();
    let end = f.len() - 8;
    let mut i = 8;
    // walk the stuffed body token-wise
    let mut run = 0;
    while i <= end {
        if run == 0 {
            v.push(i);
        }
        if i == end {
            break;
        }
        if f[i] == 0x1b {
            run += 1;
            if run == 8 {
                run = 0; // 4 data bytes + 4 escape bytes completed
            }
        } else {
            // a non-1b byte ends a short run (a run of exactly 4 is always followed by the 4 escape bytes)
            run = 0;
        }
        i += 1;
    }
    v
}

/// allocation failures of the growable buffer (`Decoder<Vec<u8>>`): the allocator fails at one or two of
/// the points where the decoder really asks it for memory (found by running the implementation), the model
/// is told the same byte indices; line 0 = the run with failures, line 1 = a new decoder on the bytes after
/// the last failure (what the continuation must equal); aux as for the `boundary` family
pub fn alloc_failure_cases(rng: &mut Rng, n: usize, out: &mut Vec<Case>) {
    for _ in 0..n {
        let mut s: Vec<u8> = Vec::new();
        for _ in 0..rng.range(2, 4) {
            s.extend(start_free_noise(rng, 3));
            let maxlen = *rng.pick(&[12usize, 40, 100, 300]);
            s.extend(spec::frame(&rand_payload(rng, maxlen)));
        }
        if rng.chance(1, 3) {
            s.extend(alpha_range(rng, 0, 6));
        }
        let st = tok(&s);
        let mut fails: Vec<usize> = Vec::new();
        for _ in 0..rng.range(1, 2) {
            let (_, pts) = crate::implrun::decf_run(&fails, &[st.as_str()]);
            let cands: Vec<usize> = pts.into_iter().filter(|p| fails.last().map(|l| p > l).unwrap_or(true)).collect();
            if cands.is_empty() {
                break;
            }
            fails.push(*rng.pick(&cands));
        }
        let last = match fails.last() {
            Some(l) => *l,
            None => continue,
        };
        let fl = fails.iter().map(|f| f.to_string()).collect::<Vec<_>>().join(",");
        out.push(
            Case::new("vec-alloc-failure", vec![format!("decf {} {} F", fl, st), format!("dec inf {} F", tok(&s[last..]))])
                .with_aux(vec![last.to_string(), "0".into()]),
        );
    }
}

fn gen_c14(tier: &Tier, rng: &mut Rng, _w: usize, nw: usize, out: &mut Vec<Case>) {
    alloc_failure_cases(rng, if tier.thorough { 20_000 } else { 3_000 } / nw, out);
    let n = if tier.thorough { 600_000 } else { 90_000 } / nw;
    for _ in 0..n {
        let cap = if rng.chance(1, 2) { None } else { Some(*rng.pick(&[0usize, 2, 4, 8, 16])) };
        let s1 = adversarial_stream(rng, 8);
        let s2 = if rng.chance(1, 2) { adversarial_stream(rng, 8) } else { [start_free_noise(rng, 6), spec::frame(&rand_payload(rng, 8))].concat() };
        // find the boundary positions of s1 by running the implementation
        // (implrun::run catches panics of the code under test)
        let ev = crate::implrun::run(&format!("dec {} {}", cap_tok(cap), tok(&s1))).text;
        let mut cuts: Vec<usize> = ev
            .split(' ')
            .filter_map(|t| {
                let mut it = t.splitn(3, ':');
                let pos: usize = it.next()?.parse().ok()?;
                let kind = it.next()?;
                if matches!(kind, "ok" | "inv" | "esc" | "oom") {
                    Some(pos)
                } else {
                    None
                }
            })
            .collect();
        let (prefix, op): (Vec<u8>, Option<&str>) = if !cuts.is_empty() && rng.chance(2, 3) {
            cuts.dedup();
            let c = *rng.pick(&cuts);
            (s1[..c].to_vec(), None)
        } else {
            let c = rng.below(s1.len() + 1);
            (s1[..c].to_vec(), Some(*rng.pick(&["R", "F", "R", "F", "N", "B-", "Bdeadbeef"])))
        };
        let op = match (op, cap) {
            (Some("Bdeadbeef"), Some(c)) if c < 4 => Some("B-"),
            (o, _) => o,
        };
        let hist = match op {
            Some(o) => format!("{} {}", tok(&prefix), o),
            None => tok(&prefix),
        };
        let lines = vec![
            format!("dec {} {} {} F", cap_tok(cap), hist, tok(&s2)),
            format!("dec {} {} F", cap_tok(cap), tok(&s2)),
        ];
        out.push(Case::new("boundary", lines).with_aux(vec![prefix.len().to_string(), if op.is_some() { "1".into() } else { "0".into() }]));
    }
}

fn gen_c16(tier: &Tier, rng: &mut Rng, w: usize, nw: usize, out: &mut Vec<Case>) {
    let nrand = if tier.thorough { 100_000 } else { 12_000 };
    let mut fam = payload_family(&Tier { thorough: false }, rng, w, nw, nrand, false);
    if tier.thorough {
        fam.extend(payload_family(tier, rng, w, nw, 0, false).into_iter().filter(|p| p.len() >= 6));
    }
    for p in fam {
        if p.len() > 47 {
            continue;
        }
        let p2 = rand_payload(rng, 6);
        let f = spec::frame(&p);
        let f2 = spec::frame(&p2);
        // all capacities 0..|p|+1 (quick: a sample of them)
        let mut caps: Vec<usize> = (0..=p.len() + 1).collect();
        if !tier.thorough && caps.len() > 4 {
            let l = p.len();
            let mut c2 = vec![0, l.saturating_sub(1), l, l + 1];
            c2.push(rng.below(l + 1));
            c2.sort();
            c2.dedup();
            caps = c2;
        }
        for n in caps {
            if !cap_supported(n) {
                continue;
            }
            out.push(
                Case::new("capacity", vec![format!("dec {} {} {} F", n, tok(&f), tok(&f2))])
                    .with_aux(vec![hex(&p), hex(&p2), n.to_string()]),
            );
        }
    }
    // payloads embedding complete frames / start and end look-alikes at every offset mod 4, with
    // capacities around the inner and the outer payload length (what is delivered after the
    // out-of-memory point must be an intact frame of the stream, never a piece of the big payload)
    for k in 0..(if tier.thorough { 4000 } else { 300 }) / nw {
        let inner = rand_payload(rng, 6);
        let fi = spec::frame(&inner);
        let mut p = vec![0x33u8; (k + w) % 4];
        match rng.below(4) {
            0 => p.extend_from_slice(&fi),
            1 => p.extend_from_slice(&spec::START),
            2 => p.extend_from_slice(&fi[fi.len() - 8..]),
            _ => {
                p.extend_from_slice(&fi);
                p.extend_from_slice(&fi);
            }
        }
        p.extend(alpha_range(rng, 0, 3));
        if p.len() > 47 {
            continue;
        }
        let p2 = rand_payload(rng, 6);
        for n in [inner.len().saturating_sub(1), inner.len(), p.len() - 1, p.len()] {
            if cap_supported(n) {
                out.push(
                    Case::new("embedded-frame", vec![format!("dec {} {} {} F", n, tok(&spec::frame(&p)), tok(&spec::frame(&p2)))])
                        .with_aux(vec![hex(&p), hex(&p2), n.to_string()]),
                );
            }
        }
    }
    if w < 4 {
        // capacities and payload lengths around 2^16 (length fields of the buffer must not be narrower than usize)
        let l = [65535usize, 65536, 65537, 70000][w];
        let p: Vec<u8> = (0..l).map(|i| (i % 250) as u8 + 1).collect();
        let f = spec::frame(&p);
        let f2 = spec::frame(&[7, 7]);
        for n in [65535usize, 65536, 65537, 70000] {
            out.push(
                Case::new("capacity-64k", vec![format!("dec {} {} {} F", n, tok(&f), tok(&f2))])
                    .with_aux(vec![hex(&p), "0707".into(), n.to_string()])
                    .impl_only(true),
            );
        }
    }
    if w == 0 {
        // default 8 KiB reader buffer
        for l in [8191usize, 8192, 8193] {
            for fill in [0x00u8, 0x1b, 0x42] {
                let mut p: Vec<u8> = (0..l).map(|i| (i % 200) as u8 + 1).collect();
                let k = p.len();
                for b in p[k - 6..].iter_mut() {
                    *b = fill;
                }
                let f = spec::frame(&p);
                out.push(
                    Case::new("default-buffer", vec![format!("rdr mem 8192 nnn {} {}", tok(&f), tok(&spec::frame(&[7, 7])))])
                        .with_aux(vec![hex(&p), "0707".into(), "8192".into()]),
                );
            }
        }
    }
}

// ---------------------------------------------------------------------------------------------
// C11: I/O faults
// ---------------------------------------------------------------------------------------------

/// a call script mixing all four entry points
fn mixed_calls(rng: &mut Rng, n: usize) -> String {
    let style = rng.below(4);
    (0..n)
        .map(|_| match style {
            0 => 'n',
            1 => 'N',
            2 => *rng.pick(&['r', 'R']),
            _ => *rng.pick(&['n', 'N', 'r', 'R']),
        })
        .collect()
}

fn gen_c11(tier: &Tier, rng: &mut Rng, _w: usize, nw: usize, out: &mut Vec<Case>) {
    // File / Parser targets with faults and with payloads that are not valid SML (compared with the model)
    for _ in 0..(if tier.thorough { 60_000 } else { 6_000 }) / nw {
        let mut evs: Vec<u8> = Vec::new();
        for _ in 0..rng.range(1, 3) {
            evs.extend(start_free_noise(rng, 3));
            let payload = if rng.chance(1, 2) {
                let gf = gfile(rng, 2, 2);
                encode_file(rng, &gf, false)
            } else {
                rand_payload(rng, 12)
            };
            evs.extend(spec::frame(&payload));
        }
        let ncalls = 10;
        let mut cs = String::new();
        for _ in 0..ncalls {
            cs.push(*rng.pick(&['n', 'N', 'r', 'R', 'n']));
            cs.push(*rng.pick(&['b', 'f', 'p']));
        }
        let kind = if rng.chance(1, 5) { "eh" } else { "io" };
        let mut toks = fault_events(rng, &evs, true);
        if kind == "eh" {
            toks = toks.split(' ').filter(|t| *t != "I").collect::<Vec<_>>().join(" ");
        }
        out.push(Case::new("sml-faults", vec![format!("sml {} {} {} {}", kind, *rng.pick(&["inf", "1024", "8192", "16"]), cs, toks)]));
    }
    if _w == 0 {
        // faults and end of input after 2^16 and more pending bytes (noise, and an unfinished frame)
        for n in [65535usize, 65536, 65537, 70000, 131072] {
            for in_frame in [false, true] {
                let mut s: Vec<u8> = if in_frame { spec::START.to_vec() } else { vec![] };
                s.extend(vec![0xaa; n]);
                let rest = spec::frame(&[1, 2]);
                // nothing is reported before the fault: the error must carry exactly |s| bytes
                out.push(Case::new("other-error", vec![
                    format!("rdr io inf {} {} O {}", calls('n', 8), tok(&s), tok(&rest)),
                    format!("rdr io inf {} {}", calls('n', 4), tok(&s)),
                    format!("rdr io inf {} {}", calls('n', 4), tok(&rest)),
                ]).with_aux(vec![s.len().to_string()]));
                out.push(Case::new("wouldblock", vec![
                    format!("rdr io inf {} {} W {} W", calls('n', 8), tok(&s), tok(&rest)),
                    format!("rdr io inf {} {} {}", calls('n', 6), tok(&s), tok(&rest)),
                ]));
            }
        }
    }
        // embedded-hal source: a hard error (or an interrupted read, which this source cannot tell apart)
    // while `pre` (noise or an unfinished frame, nothing reported yet) is pending
    for _ in 0..(if tier.thorough { 20_000 } else { 2_000 }) / nw {
        let pre: Vec<u8> = if rng.chance(1, 2) { start_free_noise(rng, 8) } else { [spec::START.to_vec(), alpha_range(rng, 0, 5).into_iter().filter(|b| *b != 0x1b).collect()].concat() };
        let p2 = rand_payload(rng, 6);
        let ev = *rng.pick(&["O", "Oc", "I", "Ex"]);
        let c = *rng.pick(&['n', 'N', 'r', 'R']);
        out.push(
            Case::new("other-error-eh", vec![format!("rdr eh inf {} {} {} {}", calls(c, 3), tok(&pre), ev, tok(&spec::frame(&p2)))])
                .with_aux(vec![pre.len().to_string(), hex(&p2)]),
        );
    }
let n = if tier.thorough { 400_000 } else { 60_000 } / nw;
    for _ in 0..n {
        let s: Vec<u8> = if rng.chance(1, 2) {
            adversarial_stream(rng, 8)
        } else {
            let mut s = Vec::new();
            for _ in 0..rng.range(1, 3) {
                s.extend(start_free_noise(rng, 4));
                s.extend(spec::frame(&rand_payload(rng, 8)));
            }
            s.extend(alpha_range(rng, 0, 3));
            s
        };
        let cap = if rng.chance(1, 2) { None } else { Some(*rng.pick(&[4usize, 8, 16, 8192])) };
        let ct = cap_tok(cap);
        let kind = if rng.chance(1, 4) { "eh" } else { "io" };
        if rng.chance(1, 2) {
            // transparent faults only
            let evs = fault_events(rng, &s, false);
            let nfaults = evs.split(' ').filter(|t| *t == "W").count();
            let ncalls = s.len() / 8 + 6;
            let c0 = 'n';
            if kind == "eh" {
                // no end of input on a serial port: compare prefixes only (see oracle)
                out.push(
                    Case::new("wouldblock-eh", vec![
                        format!("rdr eh {} {} {}", ct, mixed_calls(rng, ncalls + nfaults), evs.replace(" I", "").replace("I ", "")),
                        format!("rdr eh {} {} {}", ct, calls(c0, ncalls), tok(&s)),
                    ]),
                );
            } else {
                out.push(
                    Case::new("wouldblock", vec![
                        format!("rdr io {} {} {}", ct, mixed_calls(rng, ncalls + nfaults), evs),
                        format!("rdr io {} {} {}", ct, calls(c0, ncalls), tok(&s)),
                    ]),
                );
            }
        } else if rng.chance(1, 3) {
            // end of input reported in the middle of the stream (a reader returning Ok(0), a non-fused
            // iterator returning None), then more data
            let j = rng.below(s.len() + 1);
            let ncalls = s.len() / 8 + 6;
            let k = if rng.chance(1, 2) { "io" } else { "mem" };
            out.push(
                Case::new("eof-midstream", vec![
                    format!("rdr {} {} {} {} {} {}", k, ct, calls(*rng.pick(&['n', 'N']), 2 * ncalls), tok(&s[..j]), if k == "io" { *rng.pick(&["E", "Ee", "Ex"]) } else { "E" }, tok(&s[j..])),
                    format!("rdr {} {} {} {}", k, ct, calls('n', ncalls), tok(&s[..j])),
                    format!("rdr {} {} {} {}", k, ct, calls('n', ncalls), tok(&s[j..])),
                    format!("rdr {} {} {} {} {} {}", k, ct, calls(*rng.pick(&['r', 'R']), 2 * ncalls), tok(&s[..j]), if k == "io" { *rng.pick(&["E", "Ee", "Ex"]) } else { "E" }, tok(&s[j..])),
                ]),
            );
        } else {
            // one hard error at a random position
            let j = rng.below(s.len() + 1);
            let ncalls = s.len() / 8 + 6;
            out.push(
                Case::new("other-error", vec![
                    format!("rdr io {} {} {} O{} {}", ct, calls(*rng.pick(&['n', 'n', 'N', 'r', 'R']), 2 * ncalls), tok(&s[..j]), (b'a' + rng.below(16) as u8) as char, tok(&s[j..])),
                    format!("rdr io {} {} {}", ct, calls('n', ncalls), tok(&s[..j])),
                    format!("rdr io {} {} {}", ct, calls('n', ncalls), tok(&s[j..])),
                ]),
            );
        }
    }
}

// ---------------------------------------------------------------------------------------------
// parser properties
// ---------------------------------------------------------------------------------------------

/// payloads decoded from the repository's real meter recordings
pub fn real_payloads() -> Vec<Vec<u8>> {
    let mut v = Vec::new();
    if let Ok(rd) = std::fs::read_dir("/repo/tests/libsml-testing") {
        let mut paths: Vec<_> = rd.filter_map(|e| e.ok()).map(|e| e.path()).filter(|p| p.extension().map(|x| x == "bin").unwrap_or(false)).collect();
        paths.sort();
        for p in paths {
            if let Ok(bytes) = std::fs::read(&p) {
                // de-frame with the harness's own reference (independent of the code under test)
                v.extend(spec::deframe(&bytes));
            }
        }
    }
    v
}

fn gen_c03(tier: &Tier, rng: &mut Rng, _w: usize, nw: usize, out: &mut Vec<Case>) {
    if _w == 0 {
        // valid messages with very long (zero-padded) type-length fields: field-size counters cross 2^8 / 2^16
        for pad in LONG_FIELD_PADS {
            let (x, tid) = long_tlf_message(pad, true);
            let ast = format!("M(x{},7,9,C(~))", hex(&tid));
            out.push(
                Case::new("valid-long-tlf", vec![format!("parse {}", tok(&x)), format!("stream {} 2", tok(&x))])
                    .with_aux(vec![format!("F[{}]", ast), format!("MS{}", &ast[1..])]),
            );
        }
    }
    // minimal 8-byte list entries, the list response as last message, both checksum forms
    for (k, n) in [0usize, 1, 2, 3, 7, 8, 9, 15, 16, 17, 40].iter().enumerate() {
        if k % nw == _w {
            for short in [false, true] {
                for with_open in [false, true] {
                    let (x, f) = minimal_list_file(rng, *n, *n, short, with_open);
                    out.push(
                        Case::new("valid-minimal-entries", vec![format!("parse {}", tok(&x)), format!("stream {} 2", tok(&x))])
                            .with_aux(vec![show_gfile(&f), show_gevents(&f).join(" ")]),
                    );
                }
            }
        }
    }
    // checksum sent in its short one-byte form, alone and followed by further messages
    for _ in 0..(if tier.thorough { 4000 } else { 400 }) / nw {
        let (x1, m1) = short_crc_message(rng);
        let mut f = GFile { msgs: vec![m1] };
        let mut x = x1;
        if rng.chance(1, 2) {
            let (x2, m2) = if rng.chance(1, 2) { short_crc_message(rng) } else { let m2 = gmsg(rng, 2); (encode_file(rng, &GFile { msgs: vec![m2.clone()] }, true), m2) };
            x.extend(x2);
            f.msgs.push(m2);
        }
        out.push(
            Case::new("valid-short-crc", vec![format!("parse {}", tok(&x)), format!("stream {} 2", tok(&x))])
                .with_aux(vec![show_gfile(&f), show_gevents(&f).join(" ")]),
        );
    }
    // list lengths 41..1100 (thresholds that arise from struct sizes / allocation caps)
    for (k, cnt) in (41usize..=1100).step_by(7).chain([743usize, 744, 745, 1489].into_iter()).enumerate() {
        if k % nw == _w {
            let (x, f) = big_list_file(cnt);
            out.push(
                Case::new("valid-list-sweep", vec![format!("parse {}", tok(&x)), format!("stream {} 2", tok(&x))])
                    .with_aux(vec![show_gfile(&f), show_gevents(&f).join(" ")]),
            );
        }
    }
    // "how many" counters crossing 2^8 and 2^16: list entries, messages, string bytes
    for (k, cnt) in BIG_COUNTS.iter().enumerate() {
        if k % nw == _w {
            for (x, f) in [big_list_file(*cnt), many_messages_file(*cnt), long_string_file(*cnt)] {
                out.push(
                    Case::new("valid-big-count", vec![format!("parse {}", tok(&x)), format!("stream {} 2", tok(&x))])
                        .with_aux(vec![show_gfile(&f), show_gevents(&f).join(" ")])
                        .impl_only(*cnt > 1000),
                );
            }
        }
    }
    let n = if tier.thorough { 500_000 } else { 72_000 } / nw;
    for i in 0..n {
        let f = if i % 8 == 0 { gfile(rng, 2, 40) } else { gfile(rng, 3, 6) };
        let plain = rng.chance(1, 5);
        let x = encode_file(rng, &f, plain);
        if x.len() > 6000 {
            continue;
        }
        out.push(
            Case::new(if plain { "valid-plain" } else { "valid-fancy" }, vec![format!("parse {}", tok(&x)), format!("stream {} 2", tok(&x))])
                .with_aux(vec![show_gfile(&f), show_gevents(&f).join(" ")]),
        );
    }
}

fn mutant(rng: &mut Rng, reals: &[Vec<u8>]) -> Vec<u8> {
    if rng.chance(1, 30) {
        // a well-formed file followed by a few identical stray bytes (padding-like)
        let f = gfile(rng, 2, 3);
        let plain = rng.chance(1, 2);
        let mut x = encode_file(rng, &f, plain);
        let b = *rng.pick(&[0x00u8, 0x00, 0x01, 0xff, 0x1b]);
        for _ in 0..rng.range(1, 5) {
            x.push(b);
        }
        return x;
    }
    if rng.chance(1, 40) {
        // a message with a one-byte checksum field followed by a few stray bytes
        let (mut x, _) = short_crc_message(rng);
        for _ in 0..rng.below(4) {
            x.push(*rng.pick(&[0x00u8, 0x01, 0x76, 0x62, 0xff]));
        }
        return x;
    }
    if !reals.is_empty() && rng.chance(1, 5) {
        // mutate a real meter payload (checksums not fixed up: almost always an error)
        let mut x = rng.pick(reals).clone();
        for _ in 0..rng.range(1, 3) {
            let p = rng.below(x.len());
            match rng.below(4) {
                0 => x[p] ^= 1 << rng.below(8),
                1 => {
                    x.truncate(p);
                    if x.is_empty() {
                        break;
                    }
                }
                2 => {
                    let w = wild_tlf(rng);
                    x.splice(p..p + 1, w);
                }
                _ => x.push(rng.byte()),
            }
        }
        return x;
    }
    let f = gfile(rng, 3, 5);
    if rng.chance(1, 6) {
        return encode_file(rng, &f, false);
    }
    let fix = rng.chance(1, 2);
    mutated_file(rng, &f, fix)
}

fn gen_c04(tier: &Tier, rng: &mut Rng, _w: usize, nw: usize, out: &mut Vec<Case>) {
    // the same with minimal 8-byte entries and the list response as the last message
    for (k, actual) in [0usize, 1, 2, 3, 7, 8, 15, 16, 40].iter().enumerate() {
        if k % nw == _w {
            for declared in [actual + 1, actual + 2, 2 * actual + 3, 255, 70000] {
                for short in [false, true] {
                    let (x, _) = minimal_list_file(rng, declared, *actual, short, k % 2 == 0);
                    out.push(Case::new("wrong-arity", vec![format!("parse {}", tok(&x)), format!("stream {} 2", tok(&x))]));
                }
            }
        }
    }
    // declared list length ≠ number of entries present, checksum correct: must be rejected
    for (k, actual) in [0usize, 1, 14, 15, 16, 40, 46, 255, 256, 372, 743, 744, 745, 1000, 65535, 65536].iter().enumerate() {
        if k % nw == _w {
            for declared in [actual + 1, actual.saturating_sub(1), 2 * actual + 3, 2000, 70000] {
                if declared != *actual {
                    let x = list_arity_file(declared, *actual);
                    out.push(Case::new("wrong-arity", vec![format!("parse {}", tok(&x)), format!("stream {} 2", tok(&x))]).impl_only(*actual > 1000));
                }
            }
        }
    }
    if _w == 0 {
        for pad in LONG_FIELD_PADS {
            for valid in [true, false] {
                let (x, _) = long_tlf_message(pad, valid);
                out.push(Case::new("long-tlf", vec![format!("parse {}", tok(&x)), format!("stream {} 2", tok(&x))]));
            }
        }
    }
    let reals = real_payloads();
    let n = if tier.thorough { 800_000 } else { 120_000 } / nw;
    for _ in 0..n {
        let x = mutant(rng, &reals);
        out.push(Case::new("mutant", vec![format!("parse {}", tok(&x)), format!("stream {} 2", tok(&x))]));
    }
}

fn gen_c09(tier: &Tier, rng: &mut Rng, _w: usize, nw: usize, out: &mut Vec<Case>) {
    // the same with minimal 8-byte entries and the list response as the last message
    for (k, actual) in [0usize, 1, 2, 3, 7, 8, 15, 16, 40].iter().enumerate() {
        if k % nw == _w {
            for declared in [actual + 1, actual + 2, 2 * actual + 3, 255, 70000] {
                for short in [false, true] {
                    let (x, _) = minimal_list_file(rng, declared, *actual, short, k % 2 == 0);
                    out.push(Case::new("wrong-arity", vec![format!("parse {}", tok(&x)), format!("stream {} 2", tok(&x))]));
                }
            }
        }
    }
    // declared list length ≠ number of entries present, checksum correct: must be rejected
    for (k, actual) in [0usize, 1, 14, 15, 16, 40, 46, 255, 256, 372, 743, 744, 745, 1000, 65535, 65536].iter().enumerate() {
        if k % nw == _w {
            for declared in [actual + 1, actual.saturating_sub(1), 2 * actual + 3, 2000, 70000] {
                if declared != *actual {
                    let x = list_arity_file(declared, *actual);
                    out.push(Case::new("wrong-arity", vec![format!("parse {}", tok(&x)), format!("stream {} 2", tok(&x))]).impl_only(*actual > 1000));
                }
            }
        }
    }
    for (k, cnt) in BIG_COUNTS.iter().enumerate() {
        if k % nw == _w {
            for (x, _) in [big_list_file(*cnt), many_messages_file(*cnt), long_string_file(*cnt)] {
                out.push(Case::new("big-count", vec![format!("parse {}", tok(&x)), format!("stream {} 2", tok(&x))]).impl_only(*cnt > 1000));
                let mut y = x.clone();
                let n = y.len();
                y[n - 2] ^= 0x10; // checksum of the last message
                out.push(Case::new("big-count-badcrc", vec![format!("parse {}", tok(&y)), format!("stream {} 2", tok(&y))]).impl_only(*cnt > 1000));
                y.truncate(n - 5);
                out.push(Case::new("big-count-cut", vec![format!("parse {}", tok(&y)), format!("stream {} 2", tok(&y))]).impl_only(*cnt > 1000));
            }
        }
    }
    if _w == 0 {
        for pad in LONG_FIELD_PADS {
            for valid in [true, false] {
                let (x, _) = long_tlf_message(pad, valid);
                out.push(Case::new("long-tlf", vec![format!("parse {}", tok(&x)), format!("stream {} 2", tok(&x))]));
            }
        }
    }
    let reals = real_payloads();
    let n = if tier.thorough { 800_000 } else { 120_000 } / nw;
    for _ in 0..n {
        let x = mutant(rng, &reals);
        out.push(Case::new("mutant", vec![format!("parse {}", tok(&x)), format!("stream {} 2", tok(&x))]));
    }
    for x in reals.iter().skip(_w).step_by(nw) {
        out.push(Case::new("real", vec![format!("parse {}", tok(x)), format!("stream {} 2", tok(x))]));
    }
}

fn gen_c13(tier: &Tier, rng: &mut Rng, _w: usize, nw: usize, out: &mut Vec<Case>) {
    for (k, cnt) in BIG_COUNTS.iter().enumerate() {
        if k % nw == _w {
            for (x, _) in [big_list_file(*cnt), many_messages_file(*cnt)] {
                let mut y = x.clone();
                let n = y.len();
                y[n - 2] ^= 0x10;
                out.push(Case::new("big-count-badcrc", vec![format!("stream {} 16", tok(&y))]).impl_only(*cnt > 1000));
            }
        }
    }
    if _w == 0 {
        for pad in LONG_FIELD_PADS {
            for valid in [true, false] {
                let (x, _) = long_tlf_message(pad, valid);
                out.push(Case::new("long-tlf", vec![format!("stream {} 16", tok(&x))]));
            }
        }
    }
    let reals = real_payloads();
    let n = if tier.thorough { 800_000 } else { 120_000 } / nw;
    for _ in 0..n {
        let x = mutant(rng, &reals);
        out.push(Case::new("mutant", vec![format!("stream {} {}", tok(&x), if rng.chance(1, 16) { 300 } else { 16 })]));
    }
}

/// a GetListResponse message head up to (excluding) the list TLF
fn glr_prefix() -> Vec<u8> {
    vec![0x76, 0x01, 0x62, 0x00, 0x62, 0x00, 0x72, 0x63, 0x07, 0x01, 0x77, 0x01, 0x01, 0x01, 0x01]
}

fn gen_c06(tier: &Tier, rng: &mut Rng, _w: usize, nw: usize, out: &mut Vec<Case>) {
    if tier.thorough && _w == 5 % nw {
        // a type-length field spanning 2^32 bytes (defect D7): implementation + oracle only
        out.push(Case::new("tlf-4gib", vec!["parse 76,80*4294967296,05".to_string(), "stream 76,80*4294967296,05 2".to_string()]).impl_only(true));
    }
    for (k, cnt) in BIG_COUNTS.iter().enumerate() {
        if k % nw == _w {
            for (x, _) in [big_list_file(*cnt), many_messages_file(*cnt), long_string_file(*cnt)] {
                out.push(Case::new("big-count", vec![format!("parse {}", tok(&x)), format!("stream {} 4", tok(&x))]).impl_only(*cnt > 1000));
                let mut y = x.clone();
                let n = y.len();
                y[n - 2] ^= 0x10; // checksum of the last message
                out.push(Case::new("big-count-badcrc", vec![format!("parse {}", tok(&y)), format!("stream {} 4", tok(&y))]).impl_only(*cnt > 1000));
                y.truncate(n - 5);
                out.push(Case::new("big-count-cut", vec![format!("parse {}", tok(&y)), format!("stream {} 4", tok(&y))]).impl_only(*cnt > 1000));
            }
        }
    }
    if _w == 0 {
        for pad in LONG_FIELD_PADS {
            for valid in [true, false] {
                let (x, _) = long_tlf_message(pad, valid);
                out.push(Case::new("long-tlf", vec![format!("parse {}", tok(&x)), format!("stream {} 4", tok(&x))]));
            }
        }
    }
    let reals = real_payloads();
    let n = if tier.thorough { 800_000 } else { 120_000 } / nw;
    for i in 0..n {
        let x = if i % 4 == 0 {
            // a list TLF declaring an arbitrary length, followed by some entries
            let mut x = glr_prefix();
            x.extend(wild_tlf(rng));
            let mut e = Enc { rng, plain: false };
            let mut body = Vec::new();
            for _ in 0..e.rng.below(4) {
                let ent = gentry(e.rng);
                e.entry(&ent, &mut body);
            }
            x.extend(body);
            x.extend(alpha_range(rng, 0, 7));
            x
        } else {
            mutant(rng, &reals)
        };
        out.push(Case::new("hostile-length", vec![format!("parse {}", tok(&x)), format!("stream {} 4", tok(&x))]));
    }
    if _w == 0 {
        for t in [
            vec![0xffu8, 0x8f, 0x8f, 0x8f, 0x8f, 0x8f, 0x8f, 0x0f],
            vec![0xff, 0x8f, 0x8f, 0x8f, 0x8f, 0x8f, 0x8f, 0x0e],
            vec![0xff, 0x8f, 0x8f, 0x8f, 0x8f, 0x8f, 0x8f, 0x0d],
            vec![0xf8, 0x80, 0x80, 0x80, 0x80, 0x80, 0x80, 0x00],
            vec![0xf1, 0x80, 0x80, 0x80, 0x80, 0x80, 0x80, 0x80, 0x00],
        ] {
            let mut x = glr_prefix();
            x.extend(t);
            x.extend(vec![0x01; 17]);
            out.push(Case::new("witness", vec![format!("parse {}", tok(&x)), format!("stream {} 4", tok(&x))]));
        }
    }
}

fn gen_c12(tier: &Tier, rng: &mut Rng, w: usize, nw: usize, out: &mut Vec<Case>) {
    if tier.thorough && w == 5 % nw {
        // a type-length field spanning 2^32 bytes (defect D7): the rule says length underflow
        out.push(Case::new("tlf-long-octet", vec!["stream 76,80*4294967296,05 1".to_string()]).with_aux(vec!["err:TlfLengthUnderflow".into()]).impl_only(true));
    }
    // (a) TLF at the list position: all 1- and 2-byte fields exhaustively (thorough: 3-byte too, sampled in quick)
    let mut idx = 0usize;
    let mut push_list = |t: Vec<u8>, out: &mut Vec<Case>| {
        let mut x = glr_prefix();
        x.extend_from_slice(&t);
        out.push(Case::new("tlf-list-pos", vec![format!("stream {} 1", tok(&x))]).with_aux(vec![hex(&t)]));
        // same field at the transaction-id position, followed by 40 data bytes and a close response
        let mut y = vec![0x76];
        y.extend_from_slice(&t);
        let data: Vec<u8> = (0..40u8).map(|i| 0xa0 + i).collect();
        y.extend_from_slice(&data);
        out.push(Case::new("tlf-octet-pos", vec![format!("stream {} 1", tok(&y))]).with_aux(vec![hex(&t)]));
    };
    for a in 0..256usize {
        if idx % nw == w {
            push_list(vec![a as u8], out);
        }
        idx += 1;
        for b in 0..256usize {
            if idx % nw == w {
                push_list(vec![a as u8, b as u8], out);
            }
            idx += 1;
        }
    }
    let n3 = if tier.thorough { 1 << 24 } else { 60_000 };
    if tier.thorough {
        for v in 0..n3 {
            if v % nw == w {
                push_list(vec![(v >> 16) as u8, (v >> 8) as u8, v as u8], out);
            }
        }
    } else {
        for _ in 0..n3 / nw {
            push_list(vec![rng.byte() | 0x80, rng.byte() | if rng.chance(1, 2) { 0x80 } else { 0 }, rng.byte()], out);
        }
    }
    let nw_ = if tier.thorough { 400_000 } else { 60_000 } / nw;
    for _ in 0..nw_ {
        push_list(wild_tlf(rng), out);
    }
    if w == 0 {
        // list lengths at the top of the 32-bit range: the announced count must be exact and the parser
        // must not continue with a wrapped working count (the input ends long before that many entries)
        for t in ["ff8f8f8f8f8f8f0f", "ff8f8f8f8f8f8f0e", "ff8f8f8f8f8f8f0d", "ff8f8f8f8f8f8f00", "f88080808080800f"] {
            for tail in ["", "01", "0101", "630000", "01016300", "0101630000007601"] {
                let mut x = glr_prefix();
                x.extend(unhex(t).unwrap());
                x.extend(unhex(tail).unwrap());
                out.push(Case::new("tlf-huge-list", vec![format!("stream {} 3", tok(&x))]).with_aux(vec![t.to_string()]));
            }
        }
        // valid octet-string fields whose own encoding is very long: the field size must be subtracted exactly
        for pad in LONG_FIELD_PADS {
            for valid in [true, false] {
                let (x, tid) = long_tlf_message(pad, valid);
                out.push(
                    Case::new("tlf-long-octet", vec![format!("stream {} 1", tok(&x))])
                        .with_aux(vec![if valid { format!("MS(x{},7,9,C(~))", hex(&tid)) } else { "err:TlfLengthUnderflow".to_string() }]),
                );
            }
        }
        // fields of 9..40 bytes whose *leading* group is non-zero (values 16^8 .. 16^39: beyond 32 and beyond
        // 64 bits), alone and with a small low part: must be rejected, never taken modulo a machine word
        for k in 9..=40usize {
            let mut t = vec![0xf1u8];
            t.extend(vec![0x80u8; k - 2]);
            t.push(0x00);
            push_list(t, out);
            let mut u = vec![0x81u8];
            u.extend(vec![0x80u8; k - 3]);
            u.extend_from_slice(&[0x81, 0x05]);
            push_list(u, out);
            let mut z = vec![0xf0u8, 0x81];
            z.extend(vec![0x80u8; k - 3]);
            z.push(0x03);
            push_list(z, out);
        }
        // very long fields: a list field and an octet field with many leading zero-nibble bytes
        for pad in LONG_FIELD_PADS {
            let mut t = vec![0xf0u8];
            t.extend(vec![0x80u8; pad]);
            t.push(0x05);
            push_list(t, out);
            let mut u = vec![0x80u8; pad];
            u.push(0x03);
            push_list(u, out);
        }
    }
    // (b) integers of every width with every leading-byte pattern at value / status / scaler positions
    let ni = if tier.thorough { 300_000 } else { 45_000 } / nw;
    for _ in 0..ni {
        let wdt = rng.range(0, 9);
        let signed = rng.chance(1, 2);
        let mut bytes: Vec<u8> = (0..wdt).map(|_| rng.byte()).collect();
        if wdt > 0 {
            bytes[0] = *rng.pick(&[0x00, 0x7f, 0x80, 0xff, bytes[0]]);
        }
        // entry: 77 objName(01) status(01) valTime(01) unit(01) scaler(01) VALUE sig(01)
        let mut x = glr_prefix();
        x.push(0x71);
        x.extend_from_slice(&[0x77, 0x01, 0x01, 0x01, 0x01, 0x01]);
        let mut v = Vec::new();
        Enc::tlf_raw(if signed { 5 } else { 6 }, (wdt + 1) as u64, 1, &mut v);
        v.extend_from_slice(&bytes);
        x.extend_from_slice(&v);
        x.push(0x01);
        out.push(
            Case::new("int-value", vec![format!("stream {} 1", tok(&x))]).with_aux(vec![if signed { "i".into() } else { "u".into() }, hex(&bytes)]),
        );
        // status position (unsigned only)
        if !signed {
            let mut y = glr_prefix();
            y.push(0x71);
            y.extend_from_slice(&[0x77, 0x01]);
            y.extend_from_slice(&v);
            y.extend_from_slice(&[0x01, 0x01, 0x01, 0x01, 0x01]);
            out.push(Case::new("int-status", vec![format!("stream {} 1", tok(&y))]).with_aux(vec!["s".into(), hex(&bytes)]));
        }
    }
    // (b-wide) numeric fields declaring more than 8 data bytes, with that many bytes really present (so that
    // a parser working with a narrowed width - e.g. the length modulo 2^8 or 2^16 - would find a valid-looking
    // 1..8 byte integer): widths around 2^8, 2^9 and 2^16 and just above 8
    if w == 1 % nw {
        let mut widths: Vec<usize> = (9..=24).collect();
        for base in [256usize, 512, 65536] {
            for d in 0..=9 {
                widths.push(base + d);
                if d > 0 && d <= 3 {
                    widths.push(base - d);
                }
            }
        }
        for wdt in widths {
            for signed in [false, true] {
                let mut bytes: Vec<u8> = (0..wdt).map(|_| rng.byte()).collect();
                bytes[0] = *rng.pick(&[0x00, 0x7f, 0x80, 0xff, bytes[0]]);
                let mut k = 1;
                while ((wdt + k) as u64) >= 1u64 << (4 * k) {
                    k += 1;
                }
                let mut v = Vec::new();
                Enc::tlf_raw(if signed { 5 } else { 6 }, (wdt + k) as u64, k, &mut v);
                v.extend_from_slice(&bytes);
                let mut x = glr_prefix();
                x.push(0x71);
                x.extend_from_slice(&[0x77, 0x01, 0x01, 0x01, 0x01, 0x01]);
                x.extend_from_slice(&v);
                x.push(0x01);
                out.push(
                    Case::new("int-value", vec![format!("stream {} 1", tok(&x))]).with_aux(vec![if signed { "i".into() } else { "u".into() }, hex(&bytes)]),
                );
                if !signed {
                    let mut y = glr_prefix();
                    y.push(0x71);
                    y.extend_from_slice(&[0x77, 0x01]);
                    y.extend_from_slice(&v);
                    y.extend_from_slice(&[0x01, 0x01, 0x01, 0x01, 0x01]);
                    out.push(Case::new("int-status", vec![format!("stream {} 1", tok(&y))]).with_aux(vec!["s".into(), hex(&bytes)]));
                }
            }
        }
    }
    // (b') fixed-width positions: group-no / abort-on-error (u8), scaler (i8), unit (u8), time (u32), body tag (u32)
    for _ in 0..ni / 2 {
        let wdt = rng.range(0, 6);
        let signed = rng.chance(1, 2);
        let mut bytes: Vec<u8> = (0..wdt).map(|_| rng.byte()).collect();
        if wdt > 0 {
            bytes[0] = *rng.pick(&[0x00, 0x7f, 0x80, 0xff, bytes[0]]);
        }
        let mut v = Vec::new();
        Enc::tlf_raw(if signed { 5 } else { 6 }, (wdt + 1) as u64, 1, &mut v);
        v.extend_from_slice(&bytes);
        // message head with the field at the group-no position, then a close response
        let mut x = vec![0x76, 0x01];
        x.extend_from_slice(&v);
        x.extend_from_slice(&[0x62, 0x00, 0x72, 0x63, 0x02, 0x01, 0x71, 0x01]);
        out.push(Case::new("int-fixed-pos", vec![format!("stream {} 1", tok(&x))]));
        // scaler / unit / time positions of a list entry
        let pos = rng.below(3);
        let mut y = glr_prefix();
        y.push(0x71);
        y.extend_from_slice(&[0x77, 0x01, 0x01]);
        match pos {
            0 => {
                // valTime position: a bare number (only unsigned with exactly four bytes is the workaround)
                y.extend_from_slice(&v);
                y.extend_from_slice(&[0x01, 0x01]);
            }
            1 => {
                y.push(0x01);
                y.extend_from_slice(&v);
                y.push(0x01);
            }
            _ => {
                y.extend_from_slice(&[0x01, 0x01]);
                y.extend_from_slice(&v);
            }
        }
        y.extend_from_slice(&[0x01, 0x01]);
        out.push(Case::new("int-fixed-pos", vec![format!("stream {} 1", tok(&y))]));
        // boolean fields with a length other than one byte
        let mut z = glr_prefix();
        z.push(0x71);
        z.extend_from_slice(&[0x77, 0x01, 0x01, 0x01, 0x01, 0x01]);
        z.push(0x40 | (rng.below(6) as u8));
        z.extend_from_slice(&[rng.byte(), rng.byte(), 0x01]);
        out.push(Case::new("bool-len", vec![format!("stream {} 1", tok(&z))]));
    }
    // (c) booleans: every byte value
    if w == 0 {
        for b in 0..256usize {
            let mut x = glr_prefix();
            x.push(0x71);
            x.extend_from_slice(&[0x77, 0x01, 0x01, 0x01, 0x01, 0x01, 0x42, b as u8, 0x01]);
            out.push(Case::new("bool-value", vec![format!("stream {} 1", tok(&x))]).with_aux(vec!["b".into(), hex(&[b as u8])]));
        }
    }
}

// ---------------------------------------------------------------------------------------------
// C10: end to end
// ---------------------------------------------------------------------------------------------

fn gen_c10(tier: &Tier, rng: &mut Rng, _w: usize, nw: usize, out: &mut Vec<Case>) {
    if _w < 6 {
        // payload lengths / trailing noise around 2^16 (growable buffer)
        let l = [65517usize, 65520, 65535, 65536, 65537, 70000][_w];
        let (x, f) = long_string_file(l - 30);
        let g = vec![0x55u8; 3];
        let tail = vec![0xaau8; [65536usize, 65535, 70000, 131072, 0, 1][_w]];
        let expect = format!("{}|{}|{}|{}", g.len(), hex(&x), show_gfile(&f), show_gevents(&f).join(";"));
        for kind in ["mem", "io"] {
            out.push(
                Case::new("e2e-64k", vec![format!("sml {} inf nbnfnpnbnfnpnbnbnb {} {} {} {} {} {} {}", kind, tok(&g), tok(&spec::frame(&x)), tok(&g), tok(&spec::frame(&x)), tok(&g), tok(&spec::frame(&x)), tok(&tail))])
                    .with_aux(vec![[expect.clone(), expect.clone(), expect.clone()].join("#"), tail.len().to_string()])
                    .impl_only(false),
            );
        }
    }
    // an `io::Read` that reports `Interrupted` many times in a row in the middle of a frame: invisible
    if _w == 7 % nw {
        for n in [255usize, 256, 257, 300, 1000, 65_536] {
            let f1 = gfile(rng, 2, 3);
            let f2 = gfile(rng, 2, 3);
            let (x1, x2) = (encode_file(rng, &f1, true), encode_file(rng, &f2, true));
            let fr1 = spec::frame(&x1);
            let cut = 17.min(fr1.len() - 1);
            let storm = vec!["I"; n].join(" ");
            let expect = [format!("0|{}|{}|{}", hex(&x1), show_gfile(&f1), show_gevents(&f1).join(";")), format!("0|{}|{}|{}", hex(&x2), show_gfile(&f2), show_gevents(&f2).join(";"))].join("#");
            out.push(
                Case::new("e2e-storm", vec![format!("sml io inf nfnpnbnbnb {} {} {} {}", tok(&fr1[..cut]), storm, tok(&fr1[cut..]), tok(&spec::frame(&x2)))])
                    .with_aux(vec![expect, "0".to_string()]),
            );
        }
    }
    // sources that report the end of input between two files and deliver more later (a non-fused iterator, an
    // `io::Read` returning `Ok(0)`): `next` / `next_nb` say `None` once and then go on with the next file
    for _ in 0..(if tier.thorough { 30_000 } else { 4_000 }) / nw {
        let k = rng.range(2, 4);
        let mut events: Vec<String> = Vec::new();
        let mut want: Vec<String> = Vec::new();
        let mut cs = String::new();
        for i in 0..k {
            let f = gfile(rng, 2, 3);
            let plain = rng.chance(1, 3);
            let x = encode_file(rng, &f, plain);
            if i > 0 && rng.chance(2, 3) {
                events.push("E".to_string());
                cs.push(*rng.pick(&['n', 'N']));
                cs.push(*rng.pick(&['b', 'f', 'p']));
                want.push("none".to_string());
            }
            events.push(tok(&spec::frame(&x)));
            let t = *rng.pick(&['b', 'f', 'p']);
            cs.push(*rng.pick(&['n', 'N']));
            cs.push(t);
            want.push(match t {
                'b' => format!("bytes:{}", hex(&x)),
                'f' => format!("file:{}", show_gfile(&f)),
                _ => format!("events:[{}]", show_gevents(&f).join(";")),
            });
        }
        for _ in 0..3 {
            cs.push(*rng.pick(&['n', 'N']));
            cs.push('b');
            want.push("none".to_string());
        }
        let kind = if rng.chance(1, 2) { "mem" } else { "io" };
        out.push(Case::new("e2e-resume", vec![format!("sml {} {} {} {}", kind, *rng.pick(&["inf", "8192"]), cs, events.join(" "))]).with_aux(vec![want.join(" ")]));
    }
    let n = if tier.thorough { 200_000 } else { 24_000 } / nw;
    for _ in 0..n {
        let k = rng.range(1, 4);
        let mut events: Vec<String> = Vec::new();
        let mut expect: Vec<String> = Vec::new(); // one entry per frame: noise length, payload hex, file, events
        let mut maxlen = 0;
        for _ in 0..k {
            let f = gfile(rng, 2, 4);
            let plain = rng.chance(1, 3);
            let x = encode_file(rng, &f, plain);
            maxlen = maxlen.max(x.len());
            let g = start_free_noise(rng, 6);
            events.push(tok(&g));
            events.push(tok(&spec::frame(&x)));
            expect.push(format!("{}|{}|{}|{}", g.len(), hex(&x), show_gfile(&f), show_gevents(&f).join(";")));
        }
        let tail = if rng.chance(1, 2) { start_free_noise(rng, 5) } else { vec![] };
        events.push(tok(&tail));
        let kind = if rng.chance(1, 2) { "mem" } else { "io" };
        let cap = match rng.below(4) {
            0 => None,
            1 => Some(8192),
            _ => cap_at_least(maxlen).map(Some).unwrap_or(None),
        };
        // one call per expected result, target chosen per call; extra calls at the end
        let ncalls = 2 * k + 4;
        let style = rng.below(5);
        let mut cs = String::new();
        for _ in 0..ncalls {
            cs.push(match style {
                0 => 'r',
                1 => *rng.pick(&['r', 'R']),
                2 => *rng.pick(&['n', 'N', 'r', 'R']),
                _ => *rng.pick(&['n', 'n', 'N']),
            });
            cs.push(*rng.pick(&['b', 'f', 'p']));
        }
        if kind == "io" {
            // how the source reports the end of input: Ok(0) forever, or first an explicit end-of-input error
            match rng.below(4) {
                0 => events.push("E".into()),
                1 => events.push("Ee".into()),
                2 => events.push("Ex".into()),
                _ => {}
            }
        }
        out.push(
            Case::new("e2e", vec![format!("sml {} {} {} {}", kind, cap_tok(cap), cs, events.join(" "))])
                .with_aux(vec![expect.join("#"), tail.len().to_string()]),
        );
    }
}

fn main(){}

//! Correspondence + oracle harness for the sml-rs verification (see /verif/DESIGN.md).
//!
//!   harness run   <PROP> --tier quick|thorough --seed N --model PATH --out DIR [--corpus DIR] [--budget-scale F]
//!   harness replay <PROP> --model PATH --case FILE
//!   harness one   <line>            (run one request line on the implementation, print the response)

mod alloc_count;
mod gen;
mod implrun;
mod model;
mod oracle;
mod props;
mod spec;
mod util;

use std::collections::{BTreeMap, HashSet};
use std::io::Write;
use std::os::unix::fs::FileExt;
use std::sync::atomic::{AtomicU64, Ordering};
use std::sync::Arc;
use std::time::{Duration, Instant};

use oracle::ImplRes;
use props::{Case, Tier};
use util::*;

#[global_allocator]
static GLOBAL: alloc_count::Counting = alloc_count::Counting;

#[derive(Clone, Debug)]
struct Failure {
    kind: &'static str, // "oracle" | "correspondence"
    case: Case,
    impl_outs: Vec<String>,
    model_outs: Vec<String>,
    detail: String,
}

#[derive(Default)]
struct Stats {
    cases: usize,
    lines: usize,
    distinct: HashSet<u64>,
    nontrivial: usize,
    families: BTreeMap<String, usize>,
    kinds: BTreeMap<String, usize>,
    len_hist: BTreeMap<usize, usize>,
    samples: Vec<String>,
    oracle_failures: usize,
    disagreements: usize,
    cells: BTreeMap<String, usize>,
    impl_only: usize,
}

fn arg<'a>(args: &'a [String], name: &str) -> Option<&'a str> {
    args.iter().position(|a| a == name).and_then(|i| args.get(i + 1)).map(|s| s.as_str())
}

fn case_json(c: &Case) -> String {
    format!(
        "{{\"family\":{},\"no_model\":{},\"lines\":[{}],\"aux\":[{}]}}",
        json_str(c.family),
        c.no_model,
        c.lines.iter().map(|l| json_str(l)).collect::<Vec<_>>().join(","),
        c.aux.iter().map(|l| json_str(l)).collect::<Vec<_>>().join(",")
    )
}

/// minimal JSON reader for the case files this program writes itself
fn parse_case_file(text: &str) -> Option<Case> {
    // skip `"key"`, optional blanks, `:`, optional blanks; return the index after them
    fn after_key(text: &str, key: &str) -> Option<usize> {
        let b = text.as_bytes();
        let mut i = text.find(&format!("\"{}\"", key))? + key.len() + 2;
        while i < b.len() && (b[i] == b' ' || b[i] == b'\n') {
            i += 1;
        }
        if i >= b.len() || b[i] != b':' {
            return None;
        }
        i += 1;
        while i < b.len() && (b[i] == b' ' || b[i] == b'\n') {
            i += 1;
        }
        Some(i)
    }
    fn read_string(b: &[u8], mut i: usize) -> Option<(String, usize)> {
        if b.get(i) != Some(&b'"') {
            return None;
        }
        i += 1;
        let mut s = String::new();
        while i < b.len() && b[i] != b'"' {
            if b[i] == b'\\' && i + 1 < b.len() {
                i += 1;
                match b[i] {
                    b'n' => s.push('\n'),
                    b't' => s.push('\t'),
                    c => s.push(c as char),
                }
            } else {
                s.push(b[i] as char);
            }
            i += 1;
        }
        Some((s, i + 1))
    }
    fn strings_after(text: &str, key: &str) -> Option<Vec<String>> {
        let b = text.as_bytes();
        let mut i = after_key(text, key)?;
        if b.get(i) != Some(&b'[') {
            return None;
        }
        i += 1;
        let mut out = Vec::new();
        loop {
            while i < b.len() && (b[i] == b',' || b[i] == b' ' || b[i] == b'\n') {
                i += 1;
            }
            if i >= b.len() || b[i] == b']' {
                break;
            }
            let (s, j) = read_string(b, i)?;
            out.push(s);
            i = j;
        }
        Some(out)
    }
    let (fam, _) = read_string(text.as_bytes(), after_key(text, "family")?)?;
    let family: &'static str = Box::leak(fam.into_boxed_str());
    Some(Case { family, lines: strings_after(text, "lines")?, aux: strings_after(text, "aux").unwrap_or_default(), no_model: text.contains("\"no_model\":true") || text.contains("\"no_model\": true") })
}

/// rule for "non-trivial": the implementation's responses contain at least one result that is not
/// the empty answer (an event, a payload, an error, a parsed value)
fn is_nontrivial(outs: &[String]) -> bool {
    outs.iter().any(|o| o != "-" && o != "- | N N" && o != "N | N N" && !o.is_empty())
}

fn check_case(prop: &str, case: &Case, impl_outs: &[implrun::ImplOut], model_outs: &[String]) -> Option<Failure> {
    let res: Vec<ImplRes> = impl_outs.iter().map(|o| ImplRes { text: &o.text, alloc_bytes: o.alloc_bytes, alloc_calls: o.alloc_calls }).collect();
    let texts: Vec<String> = impl_outs.iter().map(|o| o.text.clone()).collect();
    if let Err(d) = oracle::oracle(prop, case, &res) {
        return Some(Failure { kind: "oracle", case: case.clone(), impl_outs: texts, model_outs: model_outs.to_vec(), detail: d });
    }
    for (k, line) in case.lines.iter().enumerate() {
        let pi = oracle::project(prop, line, &texts[k]);
        let pm = oracle::project(prop, line, &model_outs[k]);
        if pi != pm {
            // C04: the model is proved equivalent to the grammar; the implementation returning data the
            // grammar does not yield (or different data) is a concrete soundness violation
            let kind = if prop == "C04" && pi.starts_with("ok:") { "oracle" } else { "correspondence" };
            return Some(Failure {
                kind,
                case: case.clone(),
                impl_outs: texts.clone(),
                model_outs: model_outs.to_vec(),
                detail: format!("line {} `{}`: implementation `{}` vs model `{}`", k, oracle::short(line), oracle::short(&pi), oracle::short(&pm)),
            });
        }
    }
    None
}

struct Worker {
    started: AtomicU64, // millis since run start of the current case, 0 = idle
}

fn run_cases(
    prop: &str,
    cases: Vec<Case>,
    model: &str,
    inflight: Option<&std::fs::File>,
    wk: &Worker,
    t0: Instant,
    stats: &mut Stats,
    fails: &mut Vec<Failure>,
) -> Result<(), String> {
    // process in chunks to bound memory
    for chunk in cases.chunks(20_000) {
        let mut impl_outs: Vec<Vec<implrun::ImplOut>> = Vec::with_capacity(chunk.len());
        let mut all_lines: Vec<String> = Vec::new();
        for c in chunk {
            let mut outs = Vec::with_capacity(c.lines.len());
            for l in &c.lines {
                if let Some(f) = inflight {
                    let b = l.as_bytes();
                    let n = b.len().min(60_000);
                    let mut buf = Vec::with_capacity(n + 9);
                    buf.extend_from_slice(format!("{:08}\n", n).as_bytes());
                    buf.extend_from_slice(&b[..n]);
                    let _ = f.write_all_at(&buf, 0);
                }
                wk.started.store(t0.elapsed().as_millis() as u64 + 1, Ordering::Relaxed);
                outs.push(implrun::run(l));
                wk.started.store(0, Ordering::Relaxed);
                if !c.no_model {
                    all_lines.push(l.clone());
                }
            }
            impl_outs.push(outs);
        }
        let (model_outs, cov) = model::run_batch_stats(model, &all_lines)?;
        for cell in cov.split(' ') {
            if let Some((k, v)) = cell.split_once('=') {
                *stats.cells.entry(k.to_string()).or_default() += v.parse::<usize>().unwrap_or(0);
            }
        }
        let mut k = 0;
        for (c, io) in chunk.iter().zip(impl_outs.iter()) {
            let own: Vec<String>;
            let mo: &[String] = if c.no_model {
                // implementation-only case: decided by the oracle alone
                own = io.iter().map(|o| o.text.clone()).collect();
                stats.impl_only += 1;
                &own
            } else {
                let r = &model_outs[k..k + c.lines.len()];
                k += c.lines.len();
                r
            };
            stats.cases += 1;
            stats.lines += c.lines.len();
            let key = fnv(c.lines.join("\n").as_bytes());
            let texts: Vec<String> = io.iter().map(|o| o.text.clone()).collect();
            if stats.distinct.insert(key) && is_nontrivial(&texts) {
                stats.nontrivial += 1;
            }
            *stats.families.entry(c.family.to_string()).or_default() += 1;
            let total_len: usize = c.lines.iter().map(|l| l.len()).sum();
            *stats.len_hist.entry((total_len / 2).next_power_of_two()).or_default() += 1;
            for t in &texts {
                for tokn in t.split(|ch: char| ch == ' ' || ch == ';').take(64) {
                    let kind: String = tokn.split(':').filter(|p| p.parse::<u64>().is_err()).next().unwrap_or("").chars().take_while(|ch| ch.is_ascii_alphabetic()).collect();
                    if !kind.is_empty() {
                        *stats.kinds.entry(kind).or_default() += 1;
                    }
                }
            }
            if stats.samples.len() < 3 && is_nontrivial(&texts) && total_len < 600 {
                stats.samples.push(format!("{{\"request\":{},\"impl\":{},\"model\":{}}}", json_str(&c.lines[0]), json_str(&oracle::short(&texts[0])), json_str(&oracle::short(&mo[0]))));
            }
            if let Some(f) = check_case(prop, c, io, mo) {
                if f.kind == "oracle" {
                    stats.oracle_failures += 1;
                } else {
                    stats.disagreements += 1;
                }
                // keep up to 50 failures of each kind: a flood of correspondence disagreements must not
                // crowd out the (preferred) oracle failure that carries a concrete property violation
                let same_kind = fails.iter().filter(|g| g.kind == f.kind).count();
                if same_kind < 50 {
                    fails.push(f);
                }
            }
        }
    }
    Ok(())
}

fn run_one_case(prop: &str, case: &Case, model: &mut model::ModelProc) -> Result<Option<Failure>, String> {
    let io: Vec<implrun::ImplOut> = case.lines.iter().map(|l| implrun::run(l)).collect();
    let mo = model.ask(&case.lines)?;
    Ok(check_case(prop, case, &io, &mo))
}

/// index of the first data token of a request line (tokens before it are op, capacity, kind, call
/// script …) and whether the last token is a count that must be kept
fn data_token_range(line: &str) -> Option<(usize, bool)> {
    let op = line.split(' ').next().unwrap_or("");
    match op {
        "dec" => Some((2, false)),
        "rdr" | "sml" => Some((4, false)),
        "parse" | "decode" => Some((1, false)),
        "stream" | "enci" => Some((1, true)),
        "iter" => Some((2, true)),
        "enc" => Some((2, false)),
        _ => None,
    }
}

/// delta-debugging over the byte-string tokens of single-line cases (cases with side information,
/// several lines, huge inputs or unknown ops are reported as found)
fn shrink(prop: &str, f: &Failure, model: &mut model::ModelProc) -> Failure {
    let huge = f.case.no_model || f.case.lines.iter().any(|l| l.len() > 20_000 || l.split(|c: char| c == '*' || c == ',' || c == ' ').any(|t| t.len() >= 6 && t.chars().all(|c| c.is_ascii_digit())));
    if !f.case.aux.is_empty() || f.case.lines.len() != 1 || huge {
        return f.clone();
    }
    let (first, keep_last) = match data_token_range(&f.case.lines[0]) {
        Some(r) => r,
        None => return f.clone(),
    };
    let mut best = f.clone();
    let mut budget = 250;
    'outer: loop {
        let toks: Vec<String> = best.case.lines[0].split(' ').map(|s| s.to_string()).collect();
        let last = if keep_last { toks.len().saturating_sub(1) } else { toks.len() };
        for ti in first..last {
            let t = &toks[ti];
            let bytes = match untok(t) {
                Some(b) if b.len() >= 2 && t.chars().all(|c| c.is_ascii_hexdigit() || c == ',' || c == '*') => b,
                _ => continue,
            };
            let mut chunk = bytes.len() / 2;
            while chunk >= 1 {
                let mut start = 0;
                while start + chunk <= bytes.len() {
                    if budget == 0 {
                        break 'outer;
                    }
                    budget -= 1;
                    let mut nb = bytes.clone();
                    nb.drain(start..start + chunk);
                    let mut nt = toks.clone();
                    nt[ti] = tok(&nb);
                    let mut c = best.case.clone();
                    c.lines[0] = nt.join(" ");
                    if let Ok(Some(nf)) = run_one_case(prop, &c, model) {
                        let broken = nf.impl_outs.iter().chain(nf.model_outs.iter()).any(|o| o.contains("bad-request") || o.contains("unsupported-capacity"));
                        if nf.kind == best.kind && !broken {
                            best = nf;
                            continue 'outer;
                        }
                    }
                    start += chunk;
                }
                chunk /= 2;
            }
        }
        break;
    }
    best
}

fn failure_json(f: &Failure) -> String {
    format!(
        "{{\"kind\":{},\"detail\":{},\"case\":{},\"impl\":[{}],\"model\":[{}]}}",
        json_str(f.kind),
        json_str(&f.detail),
        case_json(&f.case),
        f.impl_outs.iter().map(|s| json_str(&oracle::short(s))).collect::<Vec<_>>().join(","),
        f.model_outs.iter().map(|s| json_str(&oracle::short(s))).collect::<Vec<_>>().join(",")
    )
}

fn load_corpus(dir: &str) -> Vec<Case> {
    let mut v = Vec::new();
    if let Ok(rd) = std::fs::read_dir(dir) {
        let mut paths: Vec<_> = rd.filter_map(|e| e.ok()).map(|e| e.path()).collect();
        paths.sort();
        for p in paths {
            if let Ok(t) = std::fs::read_to_string(&p) {
                if let Some(c) = parse_case_file(&t) {
                    v.push(c);
                }
            }
        }
    }
    v
}

fn cmd_run(args: &[String]) -> i32 {
    let prop = args[0].as_str();
    let tier = Tier { thorough: arg(args, "--tier") == Some("thorough") };
    let seed: u64 = arg(args, "--seed").and_then(|s| s.parse().ok()).unwrap_or(1);
    let model = arg(args, "--model").unwrap_or("/verif/lean/.lake/build/bin/smlmodel").to_string();
    let outdir = arg(args, "--out").unwrap_or("/verif/evidence/tmp").to_string();
    let corpus = arg(args, "--corpus").map(|s| s.to_string());
    let extended = args.iter().any(|a| a == "--extended");
    if let Some(d) = arg(args, "--dict") {
        util::load_dict(d);
    }
    let _ = std::fs::create_dir_all(&outdir);
    let nw: usize = arg(args, "--workers").and_then(|s| s.parse().ok()).unwrap_or(16);
    let t0 = Instant::now();
    let mut shrink_model = model::ModelProc::start(&model).ok();

    let workers: Vec<Arc<Worker>> = (0..nw).map(|_| Arc::new(Worker { started: AtomicU64::new(0) })).collect();
    // watchdog: a case running longer than 60 s (thorough tier, which has 4 GiB cases: 30 min) is a hang
    let hang_ms: u64 = if tier.thorough { 1_800_000 } else { 60_000 };
    {
        let ws = workers.clone();
        let od = outdir.clone();
        std::thread::spawn(move || loop {
            std::thread::sleep(Duration::from_millis(500));
            let now = t0.elapsed().as_millis() as u64;
            for (i, w) in ws.iter().enumerate() {
                let s = w.started.load(Ordering::Relaxed);
                if s != 0 && now > s + hang_ms {
                    let _ = std::fs::write(format!("{}/hang", od), format!("{}", i));
                    std::process::exit(3);
                }
            }
        });
    }

    let mut handles = Vec::new();
    for w in 0..nw {
        let prop = prop.to_string();
        let model = model.clone();
        let outdir = outdir.clone();
        let corpus = corpus.clone();
        let wk = workers[w].clone();
        let thorough = tier.thorough;
        let h = std::thread::Builder::new().stack_size(256 << 20).spawn(move || {
            let tier = Tier { thorough };
            let mut stats = Stats::default();
            let mut fails = Vec::new();
            let inflight = std::fs::OpenOptions::new().create(true).write(true).truncate(true).open(format!("{}/inflight.{}", outdir, w)).ok();
            let mut cases = Vec::new();
            if w == 0 {
                if let Some(c) = &corpus {
                    cases.extend(load_corpus(c));
                }
            }
            let s = if extended { seed.wrapping_add(0x5eed_0000) } else { seed };
            cases.extend(props::generate(&prop, &tier, s, w, nw));
            let r = run_cases(&prop, cases, &model, inflight.as_ref(), &wk, t0, &mut stats, &mut fails);
            let _ = std::fs::remove_file(format!("{}/inflight.{}", outdir, w));
            (stats, fails, r)
        });
        handles.push(h.unwrap());
    }
    let mut total = Stats::default();
    let mut fails: Vec<Failure> = Vec::new();
    let mut infra: Option<String> = None;
    for h in handles {
        match h.join() {
            Ok((s, f, r)) => {
                if let Err(e) = r {
                    infra = Some(e);
                }
                total.cases += s.cases;
                total.lines += s.lines;
                total.nontrivial += s.distinct.iter().filter(|k| !total.distinct.contains(k)).count().min(s.nontrivial);
                total.distinct.extend(s.distinct);
                for (k, v) in s.families {
                    *total.families.entry(k).or_default() += v;
                }
                for (k, v) in s.kinds {
                    *total.kinds.entry(k).or_default() += v;
                }
                for (k, v) in s.cells {
                    *total.cells.entry(k).or_default() += v;
                }
                for (k, v) in s.len_hist {
                    *total.len_hist.entry(k).or_default() += v;
                }
                if total.samples.len() < 4 {
                    total.samples.extend(s.samples);
                }
                total.impl_only += s.impl_only;
                total.oracle_failures += s.oracle_failures;
                total.disagreements += s.disagreements;
                fails.extend(f);
            }
            Err(_) => infra = Some("worker thread panicked".into()),
        }
    }
    if total.cases == 0 && infra.is_none() {
        infra = Some(format!("no cases generated for property {:?} (unknown id?)", prop));
    }
    if let (Some(e), true) = (&infra, fails.iter().all(|f| f.kind != "oracle")) {
        eprintln!("ERROR {}", e);
        let _ = std::fs::write(format!("{}/result.json", outdir), format!("{{\"error\":{}}}", json_str(e)));
        return 2;
    }
    // choose the failure to report: an oracle failure beats a correspondence disagreement
    fails.sort_by_key(|f| (if f.kind == "oracle" { 0 } else { 1 }, f.case.lines.iter().map(|l| l.len()).sum::<usize>()));
    let reported = fails.first().map(|f| match shrink_model.as_mut() {
        Some(m) => shrink(prop, f, m),
        None => f.clone(),
    });
    let map_json = |m: &BTreeMap<String, usize>| format!("{{{}}}", m.iter().map(|(k, v)| format!("{}:{}", json_str(k), v)).collect::<Vec<_>>().join(","));
    let hist_json = format!("{{{}}}", total.len_hist.iter().map(|(k, v)| format!("\"<={}\":{}", k, v)).collect::<Vec<_>>().join(","));
    let json = format!(
        "{{\"property\":{},\"tier\":{},\"seed\":{},\"cases\":{},\"lines\":{},\"distinct\":{},\"distinct_nontrivial\":{},\"families\":{},\"result_kinds\":{},\"model_decoder_cells\":{},\"request_length_hist\":{},\"samples\":[{}],\"impl_only_cases\":{},\"oracle_failures\":{},\"model_disagreements\":{},\"failure\":{},\"wall_s\":{:.2}}}",
        json_str(prop),
        json_str(if tier.thorough { "thorough" } else { "quick" }),
        seed,
        total.cases,
        total.lines,
        total.distinct.len(),
        total.nontrivial,
        map_json(&total.families),
        map_json(&total.kinds),
        map_json(&total.cells),
        hist_json,
        total.samples.join(","),
        total.impl_only,
        total.oracle_failures,
        total.disagreements,
        reported.as_ref().map(failure_json).unwrap_or("null".into()),
        t0.elapsed().as_secs_f64()
    );
    let _ = std::fs::write(format!("{}/result.json", outdir), json);
    match reported {
        None => 0,
        Some(_) => 1,
    }
}

fn cmd_replay(args: &[String]) -> i32 {
    let prop = args[0].as_str();
    let model = arg(args, "--model").unwrap_or("/verif/lean/.lake/build/bin/smlmodel").to_string();
    let file = arg(args, "--case").expect("--case FILE");
    let text = std::fs::read_to_string(file).expect("cannot read case file");
    let case = match parse_case_file(&text) {
        Some(c) => c,
        None => {
            println!("replay file has no case (proof obligation failure without failing input?)");
            return 2;
        }
    };
    if case.lines.is_empty() {
        println!("replay file has no request line (the crashing request could not be isolated)");
        return 2;
    }
    let io: Vec<implrun::ImplOut> = case.lines.iter().map(|l| implrun::run(l)).collect();
    let mo = if case.no_model {
        println!("(implementation-only case: decided by the oracle, not sent to the model)");
        io.iter().map(|o| o.text.clone()).collect()
    } else {
        model::run_batch(&model, &case.lines).unwrap_or_else(|e| vec![e; case.lines.len()])
    };
    for (k, l) in case.lines.iter().enumerate() {
        println!("request  {}", l);
        println!("  impl   {}", io[k].text);
        println!("  model  {}", mo.get(k).cloned().unwrap_or_default());
    }
    match check_case(prop, &case, &io, &mo) {
        None => {
            println!("verdict: property holds on this case, implementation and model agree");
            0
        }
        Some(f) => {
            println!("verdict: {} failure: {}", f.kind, f.detail);
            1
        }
    }
}

fn main() {
    std::panic::set_hook(Box::new(|_| {}));
    let args: Vec<String> = std::env::args().skip(1).collect();
    let code = match args.first().map(|s| s.as_str()) {
        Some("run") => cmd_run(&args[1..]),
        Some("replay") => cmd_replay(&args[1..]),
        Some("one") => {
            let line = args[1..].join(" ");
            let o = implrun::run(&line);
            println!("{}", o.text);
            let _ = std::io::stdout().flush();
            0
        }
        _ => {
            eprintln!("usage: harness run|replay|one …");
            2
        }
    };
    std::process::exit(code);
}

//! runs request lines through the compiled Lean driver (`smlmodel`)

use std::io::{BufRead, BufReader, Write};
use std::process::{Command, Stdio};

/// feed all `lines` to one model process, return one response per line
pub fn run_batch(model: &str, lines: &[String]) -> Result<Vec<String>, String> {
    run_batch_stats(model, lines).map(|(r, _)| r)
}

/// as `run_batch`, plus the driver's decoder-transition coverage for this batch (`stats` request)
pub fn run_batch_stats(model: &str, lines: &[String]) -> Result<(Vec<String>, String), String> {
    let mut all: Vec<String> = lines.to_vec();
    all.push("stats".to_string());
    let mut out = run_batch_raw(model, &all)?;
    let stats = out.pop().unwrap_or_default();
    Ok((out, stats))
}

fn run_batch_raw(model: &str, lines: &[String]) -> Result<Vec<String>, String> {
    let mut child = Command::new(model)
        .stdin(Stdio::piped())
        .stdout(Stdio::piped())
        .stderr(Stdio::null())
        .spawn()
        .map_err(|e| format!("cannot start model driver {}: {}", model, e))?;
    let mut stdin = child.stdin.take().unwrap();
    let stdout = child.stdout.take().unwrap();
    let out = std::thread::scope(|sc| {
        sc.spawn(move || {
            let mut buf = String::new();
            for (i, l) in lines.iter().enumerate() {
                buf.push_str(l);
                buf.push('\n');
                if buf.len() > 1 << 16 || i + 1 == lines.len() {
                    if stdin.write_all(buf.as_bytes()).is_err() {
                        return;
                    }
                    buf.clear();
                }
            }
            drop(stdin);
        });
        let mut res = Vec::with_capacity(lines.len());
        let rd = BufReader::new(stdout);
        for l in rd.lines() {
            match l {
                Ok(l) => res.push(l),
                Err(_) => break,
            }
        }
        res
    });
    let _ = child.wait();
    if out.len() != lines.len() {
        return Err(format!("model driver answered {} of {} requests (crashed on request: {:?})", out.len(), lines.len(), lines.get(out.len())));
    }
    Ok(out)
}

/// a long-lived driver process answering one request at a time (used by the shrinker, started before
/// the harness has grown large so that no big address space has to be forked)
pub struct ModelProc {
    child: std::process::Child,
    stdin: std::process::ChildStdin,
    stdout: BufReader<std::process::ChildStdout>,
}

impl ModelProc {
    pub fn start(model: &str) -> Result<ModelProc, String> {
        let mut child = Command::new(model)
            .stdin(Stdio::piped())
            .stdout(Stdio::piped())
            .stderr(Stdio::null())
            .spawn()
            .map_err(|e| format!("cannot start model driver {}: {}", model, e))?;
        let stdin = child.stdin.take().unwrap();
        let stdout = BufReader::new(child.stdout.take().unwrap());
        Ok(ModelProc { child, stdin, stdout })
    }
    pub fn ask(&mut self, lines: &[String]) -> Result<Vec<String>, String> {
        let mut out = Vec::with_capacity(lines.len());
        for l in lines {
            self.stdin.write_all(format!("@{}\n", l).as_bytes()).map_err(|e| e.to_string())?;
            self.stdin.flush().map_err(|e| e.to_string())?;
            let mut resp = String::new();
            self.stdout.read_line(&mut resp).map_err(|e| e.to_string())?;
            if resp.is_empty() {
                return Err("model driver closed its output".into());
            }
            out.push(resp.trim_end_matches('\n').to_string());
        }
        Ok(out)
    }
}

impl Drop for ModelProc {
    fn drop(&mut self) {
        let _ = self.child.kill();
        let _ = self.child.wait();
    }
}

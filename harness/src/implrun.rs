//! Runs the real sml-rs code on one protocol request line and prints the result in exactly the
//! canonical text form the Lean driver uses (see /verif/PROTOCOL.md).

use std::io::Read;
use std::panic::{catch_unwind, AssertUnwindSafe};

use sml_rs::parser::common::{CloseResponse, ListEntry, ListType, OpenResponse, Status, Time, Value};
use sml_rs::parser::complete::{self, File, GetListResponse, Message, MessageBody};
use sml_rs::parser::streaming::{self, ParseEvent, Parser};
use sml_rs::parser::{ParseError, TlfParseError};
use sml_rs::transport::{
    decode, decode_streaming, encode, encode_streaming, DecodeErr, Decoder, ReadDecodedError,
};
use sml_rs::util::{ArrayBuf, Buffer, ByteSource, ByteSourceErr, ErrKind, OutOfMemory};
use sml_rs::{DecodedBytes, ReadParsedError, SmlReader};

use crate::alloc_count;
use crate::util::*;

/// fixed capacities available for `ArrayBuf<N>` (const generics need compile-time values)
pub const CAPS: &[usize] = &[
    0, 1, 2, 3, 4, 5, 6, 7, 8, 9, 10, 11, 12, 13, 14, 15, 16, 17, 18, 19, 20, 21, 22, 23, 24, 25, 26,
    27, 28, 29, 30, 31, 32, 33, 34, 35, 36, 37, 38, 39, 40, 41, 42, 43, 44, 45, 46, 47, 48, 51, 55, 59, 63, 64,
    95, 96, 127, 128, 255, 256, 1023, 1024, 8191, 8192, 8193, 65535, 65536, 65537, 70000,
];

/// `with_cap!(cap, B, mk => body)`: evaluates `body` with the type alias `B` bound to `Vec<u8>` or
/// `ArrayBuf<N>` and `mk` bound to a function returning the matching `SmlReaderBuilder<B>`
macro_rules! with_cap {
    ($cap:expr, $B:ident, $mk:ident => $body:expr) => {
        match $cap {
            None => {
                type $B = Vec<u8>;
                #[allow(unused_variables)]
                let $mk: fn() -> sml_rs::SmlReaderBuilder<$B> = SmlReader::with_vec_buffer;
                $body
            }
            Some(n) => with_cap!(@arms n, $B, $mk, $body,
                0 1 2 3 4 5 6 7 8 9 10 11 12 13 14 15 16 17 18 19 20 21 22 23 24 25 26 27 28 29 30 31 32
                33 34 35 36 37 38 39 40 41 42 43 44 45 46 47 48 51 55 59 63 64 95 96 127 128 255 256 1023 1024 8191 8192 8193 65535 65536 65537 70000),
        }
    };
    (@arms $n:expr, $B:ident, $mk:ident, $body:expr, $($k:literal)*) => {
        match $n {
            $( $k => {
                type $B = ArrayBuf<$k>;
                #[allow(unused_variables)]
                let $mk: fn() -> sml_rs::SmlReaderBuilder<$B> = SmlReader::with_static_buffer::<$k>;
                $body
            } )*
            other => format!("unsupported-capacity:{}", other),
        }
    };
}

// ---------------------------------------------------------------------------------------------
// printing
// ---------------------------------------------------------------------------------------------

fn b01(b: bool) -> &'static str {
    if b {
        "1"
    } else {
        "0"
    }
}

pub fn show_err(e: &DecodeErr) -> String {
    match e {
        DecodeErr::DiscardedBytes(n) => format!("disc:{}", n),
        DecodeErr::InvalidEsc(p) => format!("esc:{}", hex(p)),
        DecodeErr::OutOfMemory => "oom".to_string(),
        DecodeErr::InvalidMessage {
            checksum_mismatch: (r, c),
            end_esc_misaligned,
            num_padding_bytes,
            invalid_padding_bytes,
        } => format!(
            "inv:{:04x}:{:04x}:{}:{}:{}",
            r,
            c,
            b01(*end_esc_misaligned),
            num_padding_bytes,
            b01(*invalid_padding_bytes)
        ),
    }
}

fn show_kind(k: ErrKind) -> &'static str {
    match k {
        ErrKind::Eof => "eof",
        ErrKind::WouldBlock => "wb",
        ErrKind::Other => "other",
    }
}

fn show_rde<E: ByteSourceErr>(e: &ReadDecodedError<E>) -> String {
    match e {
        ReadDecodedError::DecodeErr(e) => show_err(e),
        ReadDecodedError::IoErr(e, n) => format!("io:{}:{}", show_kind(e.kind()), n),
    }
}

pub fn show_perr(e: &ParseError) -> String {
    match e {
        ParseError::LeftoverInput => "LeftoverInput",
        ParseError::UnexpectedEOF => "UnexpectedEOF",
        ParseError::InvalidTlf(t) => match t {
            TlfParseError::TlfLengthOverflow => "TlfLengthOverflow",
            TlfParseError::TlfReserved => "TlfReserved",
            TlfParseError::TlfLengthUnderflow => "TlfLengthUnderflow",
            TlfParseError::TlfNextByteTypeMismatch => "TlfNextByteTypeMismatch",
            TlfParseError::TlfInvalidTy => "TlfInvalidTy",
        },
        ParseError::TlfMismatch(_) => "TlfMismatch",
        ParseError::CrcMismatch => "CrcMismatch",
        ParseError::MsgEndMismatch => "MsgEndMismatch",
        ParseError::UnexpectedVariant => "UnexpectedVariant",
    }
    .to_string()
}

fn show_rpe<E: ByteSourceErr + core::fmt::Debug>(e: &ReadParsedError<E>) -> String {
    match e {
        ReadParsedError::ParseErr(e) => format!("perr:{}", show_perr(e)),
        ReadParsedError::DecodeErr(e) => show_err(e),
        ReadParsedError::IoErr(e, n) => format!("io:{}:{}", show_kind(e.kind()), n),
    }
}

fn sb(b: &[u8]) -> String {
    format!("x{}", hex(b))
}
fn so<T>(o: &Option<T>, f: impl Fn(&T) -> String) -> String {
    match o {
        None => "~".to_string(),
        Some(x) => f(x),
    }
}
fn st(t: &Time) -> String {
    match t {
        Time::SecIndex(v) => format!("T{}", v),
    }
}
fn sstatus(s: &Status) -> String {
    match s {
        Status::Status8(v) => format!("S8:{}", v),
        Status::Status16(v) => format!("S16:{}", v),
        Status::Status32(v) => format!("S32:{}", v),
        Status::Status64(v) => format!("S64:{}", v),
    }
}
fn svalue(v: &Value) -> String {
    match v {
        Value::Bool(b) => format!("B{}", b01(*b)),
        Value::Bytes(b) => sb(b),
        Value::I8(v) => format!("I8:{}", v),
        Value::I16(v) => format!("I16:{}", v),
        Value::I32(v) => format!("I32:{}", v),
        Value::I64(v) => format!("I64:{}", v),
        Value::U8(v) => format!("U8:{}", v),
        Value::U16(v) => format!("U16:{}", v),
        Value::U32(v) => format!("U32:{}", v),
        Value::U64(v) => format!("U64:{}", v),
        Value::List(ListType::Time(t)) => format!("L({})", st(t)),
    }
}
pub fn show_entry(e: &ListEntry) -> String {
    format!(
        "E({},{},{},{},{},{},{})",
        sb(e.obj_name),
        so(&e.status, sstatus),
        so(&e.val_time, st),
        so(&e.unit, |u| u.to_string()),
        so(&e.scaler, |u| u.to_string()),
        svalue(&e.value),
        so(&e.value_signature, |b| sb(b))
    )
}
fn show_open(o: &OpenResponse) -> String {
    format!(
        "O({},{},{},{},{},{})",
        so(&o.codepage, |b| sb(b)),
        so(&o.client_id, |b| sb(b)),
        sb(o.req_file_id),
        sb(o.server_id),
        so(&o.ref_time, st),
        so(&o.sml_version, |v| v.to_string())
    )
}
fn show_close(c: &CloseResponse) -> String {
    format!("C({})", so(&c.global_signature, |b| sb(b)))
}
fn show_glr(g: &GetListResponse) -> String {
    format!(
        "G({},{},{},{},[{}],{},{})",
        so(&g.client_id, |b| sb(b)),
        sb(g.server_id),
        so(&g.list_name, |b| sb(b)),
        so(&g.act_sensor_time, st),
        g.val_list.iter().map(show_entry).collect::<Vec<_>>().join(";"),
        so(&g.list_signature, |b| sb(b)),
        so(&g.act_gateway_time, st)
    )
}
fn show_message(m: &Message) -> String {
    let body = match &m.message_body {
        MessageBody::OpenResponse(x) => show_open(x),
        MessageBody::CloseResponse(x) => show_close(x),
        MessageBody::GetListResponse(x) => show_glr(x),
    };
    format!("M({},{},{},{})", sb(m.transaction_id), m.group_no, m.abort_on_error, body)
}
pub fn show_file(f: &File) -> String {
    format!("F[{}]", f.messages.iter().map(show_message).collect::<Vec<_>>().join(";"))
}
pub fn show_event(e: &ParseEvent) -> String {
    match e {
        ParseEvent::MessageStart(m) => {
            let body = match &m.message_body {
                streaming::MessageBody::OpenResponse(x) => show_open(x),
                streaming::MessageBody::CloseResponse(x) => show_close(x),
                streaming::MessageBody::GetListResponse(g) => format!(
                    "GS({},{},{},{},{})",
                    so(&g.client_id, |b| sb(b)),
                    sb(g.server_id),
                    so(&g.list_name, |b| sb(b)),
                    so(&g.act_sensor_time, st),
                    g.num_vals
                ),
            };
            format!("MS({},{},{},{})", sb(m.transaction_id), m.group_no, m.abort_on_error, body)
        }
        ParseEvent::GetListResponseEnd(e) => {
            format!("GE({},{})", so(&e.list_signature, |b| sb(b)), so(&e.act_gateway_time, st))
        }
        ParseEvent::ListEntry(e) => show_entry(e),
    }
}

fn join_sp(v: Vec<String>) -> String {
    if v.is_empty() {
        "-".to_string()
    } else {
        v.join(" ")
    }
}

// ---------------------------------------------------------------------------------------------
// byte sources with faults
// ---------------------------------------------------------------------------------------------

#[derive(Clone, Copy, Debug, PartialEq)]
pub enum Ev {
    Byte(u8),
    WouldBlock,
    Interrupted,
    /// a hard error; the number selects the concrete `io::ErrorKind`
    Other(u8),
    /// this read attempt reports end of input; later attempts continue.
    /// 0: `Ok(0)`, 1: `Err(UnexpectedEof)`, 2: `Err(UnexpectedEof)` carrying a payload
    Eof(u8),
}

/// events in compact form: runs of bytes and single faults (a 4 GiB run costs 4 GiB, not 8)
#[derive(Clone)]
pub enum Seg {
    Bytes(std::sync::Arc<Vec<u8>>),
    Fault(Ev),
}

#[derive(Clone)]
pub struct EvStream {
    segs: Vec<Seg>,
    si: usize,
    off: usize,
}

impl EvStream {
    pub fn next_ev(&mut self) -> Option<Ev> {
        loop {
            match self.segs.get(self.si) {
                None => return None,
                Some(Seg::Fault(e)) => {
                    self.si += 1;
                    return Some(*e);
                }
                Some(Seg::Bytes(b)) => {
                    if self.off < b.len() {
                        let x = b[self.off];
                        self.off += 1;
                        return Some(Ev::Byte(x));
                    }
                    self.si += 1;
                    self.off = 0;
                }
            }
        }
    }
    pub fn has_eof(&self) -> bool {
        self.segs.iter().any(|s| matches!(s, Seg::Fault(Ev::Eof(_))))
    }
    pub fn bytes(&self) -> Vec<u8> {
        let mut v = Vec::new();
        for s in &self.segs {
            if let Seg::Bytes(b) = s {
                v.extend_from_slice(b);
            }
        }
        v
    }
}

pub fn parse_events(toks: &[&str]) -> Option<EvStream> {
    let mut segs = Vec::new();
    for t in toks {
        match *t {
            "W" => segs.push(Seg::Fault(Ev::WouldBlock)),
            "I" => segs.push(Seg::Fault(Ev::Interrupted)),
            t if t.starts_with('O') => segs.push(Seg::Fault(Ev::Other(t.as_bytes().get(1).map(|c| c.wrapping_sub(b'a') + 1).unwrap_or(0)))),
            "E" => segs.push(Seg::Fault(Ev::Eof(0))),
            "Ee" => segs.push(Seg::Fault(Ev::Eof(1))),
            "Ex" => segs.push(Seg::Fault(Ev::Eof(2))),
            t => segs.push(Seg::Bytes(std::sync::Arc::new(untok(t)?))),
        }
    }
    Some(EvStream { segs, si: 0, off: 0 })
}

/// `std::io::Read` that plays a list of events, then reports end of input (`Ok(0)`) forever
pub struct IoPlayer {
    evs: EvStream,
}
impl Read for IoPlayer {
    fn read(&mut self, buf: &mut [u8]) -> std::io::Result<usize> {
        if buf.is_empty() {
            return Ok(0);
        }
        match self.evs.next_ev() {
            None => Ok(0),
            Some(ev) => {
                match ev {
                    Ev::Byte(b) => {
                        buf[0] = b;
                        Ok(1)
                    }
                    Ev::WouldBlock => Err(std::io::ErrorKind::WouldBlock.into()),
                    Ev::Interrupted => Err(std::io::ErrorKind::Interrupted.into()),
                    Ev::Other(k) => {
                        use std::io::ErrorKind::*;
                        let kinds = [Other, TimedOut, BrokenPipe, ConnectionReset, ConnectionAborted, NotConnected, InvalidData, InvalidInput, PermissionDenied, OutOfMemory, Unsupported, NotFound, AlreadyExists, WriteZero, AddrInUse, ConnectionRefused];
                        let kind = kinds[k as usize % kinds.len()];
                        if k % 2 == 0 {
                            Err(std::io::Error::new(kind, "injected"))
                        } else {
                            Err(kind.into())
                        }
                    }
                    Ev::Eof(0) => Ok(0),
                    Ev::Eof(1) => Err(std::io::ErrorKind::UnexpectedEof.into()),
                    Ev::Eof(_) => Err(std::io::Error::new(std::io::ErrorKind::UnexpectedEof, "stream closed by peer")),
                }
            }
        }
    }
}

/// an iterator that is not fused: `None` entries are reported as `None`, later calls continue
pub struct NonFused {
    items: Vec<Option<u8>>,
    pos: usize,
}
impl Iterator for NonFused {
    type Item = u8;
    fn next(&mut self) -> Option<u8> {
        let r = self.items.get(self.pos).copied().flatten();
        if self.pos < self.items.len() {
            self.pos += 1;
        }
        r
    }
}

/// embedded-hal 0.2 serial reader that plays a list of events, then `WouldBlock` forever
pub struct EhPlayer {
    evs: EvStream,
}
impl embedded_hal_02::serial::Read<u8> for EhPlayer {
    type Error = u8;
    fn read(&mut self) -> nb::Result<u8, u8> {
        match self.evs.next_ev() {
            None => Err(nb::Error::WouldBlock),
            Some(ev) => {
                match ev {
                    Ev::Byte(b) => Ok(b),
                    Ev::WouldBlock => Err(nb::Error::WouldBlock),
                    Ev::Interrupted | Ev::Other(_) | Ev::Eof(_) => Err(nb::Error::Other(7)),
                }
            }
        }
    }
}

// ---------------------------------------------------------------------------------------------
// ops
// ---------------------------------------------------------------------------------------------

/// the same bytes behind an iterator with an inexact size hint (lower 0, upper > actual length)
fn inexact(bs: &[u8]) -> impl Iterator<Item = u8> {
    let mut opts: Vec<Option<u8>> = Vec::with_capacity(2 * bs.len() + 9);
    for b in bs {
        opts.push(None);
        opts.push(Some(*b));
    }
    opts.extend(std::iter::repeat(None).take(9));
    opts.into_iter().flatten()
}

fn enc_generic<B: Buffer>(p: &[u8]) -> String {
    let show = |r: Result<B, OutOfMemory>| match r {
        Ok(b) => format!("ok:{}", hex(&b)),
        Err(OutOfMemory) => "oom".to_string(),
    };
    let a = show(encode::<B>(p));
    let b = show(encode::<B>(inexact(p)));
    if a != b {
        return format!("MISMATCH slice=[{}] inexact-iterator=[{}]", a, b);
    }
    a
}

fn do_enc(args: &[&str]) -> Option<String> {
    let cap = parse_cap(args.first()?)?;
    let p = untok(args.get(1)?)?;
    Some(with_cap!(cap, B, mk => enc_generic::<B>(&p)))
}

fn do_enci(args: &[&str]) -> Option<String> {
    let p = untok(args.first()?)?;
    let extra: usize = args.get(1)?.parse().ok()?;
    let mut it = encode_streaming(p.clone());
    let mut out = Vec::new();
    let fuel = 2 * p.len() + 64;
    let mut n = 0;
    let mut hints: Vec<(usize, Option<usize>)> = Vec::new();
    loop {
        if n >= fuel {
            return Some("nonterminating".to_string());
        }
        n += 1;
        if n <= 64 || n % 97 == 0 {
            hints.push(it.size_hint());
        } else {
            hints.push((0, None));
        }
        match it.next() {
            Some(b) => out.push(b),
            None => break,
        }
    }
    // Iterator::size_hint contract: lower bound ≤ number of remaining items ≤ upper bound
    for (k, (lo, hi)) in hints.iter().enumerate() {
        let remaining = out.len() - k.min(out.len());
        if *lo > remaining || hi.map(|h| h < remaining).unwrap_or(false) {
            return Some(format!("MISMATCH size_hint ({},{:?}) with {} items remaining", lo, hi, remaining));
        }
    }
    let mut t = String::new();
    for _ in 0..extra {
        t.push(match it.next() {
            None => 'N',
            Some(_) => 'B',
        });
    }
    Some(format!("{} {}", hex_or_dash(&out), if t.is_empty() { "-".to_string() } else { t }))
}

fn do_encinf(args: &[&str]) -> Option<String> {
    let b = unhex(args.first()?)?;
    if b.len() != 1 {
        return None;
    }
    let n: usize = args.get(1)?.parse().ok()?;
    // unbounded sources: `repeat` (lower size hint usize::MAX), via collect (uses size_hint) and via next
    let v: Vec<u8> = encode_streaming(core::iter::repeat(b[0])).take(n).collect();
    let mut it = encode_streaming(core::iter::repeat(b[0]).take(usize::MAX));
    let _ = it.size_hint();
    let w: Vec<u8> = (0..n).filter_map(|_| it.next()).collect();
    let _ = it.size_hint();
    if v != w {
        return Some(format!("MISMATCH collect=[{}] next=[{}]", hex(&v), hex(&w)));
    }
    Some(hex_or_dash(&v))
}

fn dec_generic<B: Buffer>(ops: &[&str]) -> String {
    let mut d: Decoder<B> = Decoder::new();
    let mut idx = 0usize;
    let mut evs: Vec<String> = Vec::new();
    for op in ops {
        match *op {
            "F" => {
                let r = catch_unwind(AssertUnwindSafe(|| d.finalize()));
                match r {
                    Ok(None) => evs.push(format!("{}:F:-", idx)),
                    Ok(Some(e)) => evs.push(format!("{}:F:{}", idx, show_err(&e))),
                    Err(_) => {
                        evs.push(format!("{}:panic", idx));
                        return join_sp(evs);
                    }
                }
            }
            "N" => {
                d = Decoder::new();
                evs.push(format!("{}:N", idx));
            }
            t if t.starts_with('B') => {
                // `Decoder::from_buf` with a buffer that already holds bytes
                let bs = match untok(&t[1..]) {
                    Some(b) => b,
                    None => return "bad-request".to_string(),
                };
                let mut b: B = Default::default();
                if b.extend_from_slice(&bs).is_err() {
                    return "bad-request".to_string();
                }
                match catch_unwind(AssertUnwindSafe(|| Decoder::from_buf(b))) {
                    Ok(nd) => d = nd,
                    Err(_) => {
                        evs.push(format!("{}:panic", idx));
                        return join_sp(evs);
                    }
                }
                evs.push(format!("{}:B", idx));
            }
            "R" => {
                let r = catch_unwind(AssertUnwindSafe(|| d.reset()));
                match r {
                    Ok(n) => evs.push(format!("{}:R:{}", idx, n)),
                    Err(_) => {
                        evs.push(format!("{}:panic", idx));
                        return join_sp(evs);
                    }
                }
            }
            t => {
                let bs = match untok(t) {
                    Some(b) => b,
                    None => return "bad-request".to_string(),
                };
                for b in bs {
                    idx += 1;
                    let r = catch_unwind(AssertUnwindSafe(|| match d.push_byte(b) {
                        Ok(None) => None,
                        Ok(Some(m)) => Some(format!("ok:{}", hex(m))),
                        Err(e) => Some(show_err(&e)),
                    }));
                    match r {
                        Ok(None) => {}
                        Ok(Some(s)) => evs.push(format!("{}:{}", idx, s)),
                        Err(_) => {
                            evs.push(format!("{}:panic", idx));
                            return join_sp(evs);
                        }
                    }
                }
            }
        }
    }
    join_sp(evs)
}

/// `decf <i1,i2,…|-> <op>*`: `Decoder<Vec<u8>>` with an allocator that fails the first allocation call made
/// while the bytes with the given (1-based) indices are pushed.  Returns the `dec` style events and the indices
/// of the bytes during which the decoder called the allocator at all (candidates for further failures).
pub fn decf_run(fails: &[usize], ops: &[&str]) -> (String, Vec<usize>) {
    let mut d: Decoder<Vec<u8>> = Decoder::new();
    let mut idx = 0usize;
    let mut evs: Vec<String> = Vec::new();
    let mut alloc_at: Vec<usize> = Vec::new();
    for op in ops {
        match *op {
            "F" => match catch_unwind(AssertUnwindSafe(|| d.finalize())) {
                Ok(None) => evs.push(format!("{}:F:-", idx)),
                Ok(Some(e)) => evs.push(format!("{}:F:{}", idx, show_err(&e))),
                Err(_) => {
                    evs.push(format!("{}:panic", idx));
                    return (join_sp(evs), alloc_at);
                }
            },
            "R" => match catch_unwind(AssertUnwindSafe(|| d.reset())) {
                Ok(n) => evs.push(format!("{}:R:{}", idx, n)),
                Err(_) => {
                    evs.push(format!("{}:panic", idx));
                    return (join_sp(evs), alloc_at);
                }
            },
            t => {
                let bs = match untok(t) {
                    Some(b) => b,
                    None => return ("bad-request".to_string(), alloc_at),
                };
                for b in bs {
                    idx += 1;
                    let fail = fails.contains(&idx);
                    // only the decoder's own call is watched: formatting the result allocates too
                    let r = catch_unwind(AssertUnwindSafe(|| {
                        crate::alloc_count::watch_start(fail);
                        let r = d.push_byte(b);
                        let (seen, delivered) = crate::alloc_count::watch_stop(fail);
                        let s = match r {
                            Ok(None) => None,
                            Ok(Some(m)) => Some(format!("ok:{}", hex(m))),
                            Err(e) => Some(show_err(&e)),
                        };
                        (s, seen, delivered)
                    }));
                    match r {
                        Ok((s, seen, delivered)) => {
                            if seen > 0 {
                                alloc_at.push(idx);
                            }
                            if fail && !delivered {
                                // the request asks for a failure where the decoder does not allocate
                                return ("bad-request".to_string(), alloc_at);
                            }
                            if let Some(s) = s {
                                evs.push(format!("{}:{}", idx, s));
                            }
                        }
                        Err(_) => {
                            let _ = crate::alloc_count::watch_stop(false);
                            evs.push(format!("{}:panic", idx));
                            return (join_sp(evs), alloc_at);
                        }
                    }
                }
            }
        }
    }
    (join_sp(evs), alloc_at)
}

fn do_decf(args: &[&str]) -> Option<String> {
    let f = args.first()?;
    let fails: Vec<usize> = if *f == "-" { vec![] } else { f.split(',').map(|t| t.parse().ok()).collect::<Option<Vec<usize>>>()? };
    Some(decf_run(&fails, &args[1..]).0)
}

fn do_dec(args: &[&str]) -> Option<String> {
    let cap = parse_cap(args.first()?)?;
    let ops = &args[1..];
    Some(with_cap!(cap, B, mk => dec_generic::<B>(ops)))
}

fn show_item(r: &Result<Vec<u8>, DecodeErr>) -> String {
    match r {
        Ok(m) => format!("ok:{}", hex(m)),
        Err(e) => show_err(e),
    }
}

fn do_decode(args: &[&str]) -> Option<String> {
    let s = untok(args.first()?)?;
    // `decode` accepts any IntoIterator<Item: Borrow<u8>>: exercise by-reference and by-value
    let a = decode(&s);
    let b = decode(s.iter().copied());
    let c = decode(inexact(&s));
    let sa = join_sp(a.iter().map(show_item).collect());
    let sb_ = join_sp(b.iter().map(show_item).collect());
    let sc = join_sp(c.iter().map(show_item).collect());
    if sa != sb_ || sa != sc {
        return Some(format!("MISMATCH byref=[{}] byval=[{}] inexact=[{}]", sa, sb_, sc));
    }
    Some(sa)
}

fn iter_generic<B: Buffer>(s: &[u8], extra: usize) -> String {
    let a = iter_generic_on::<B, _>(decode_streaming::<B>(s), s.len(), extra);
    let b = iter_generic_on::<B, _>(decode_streaming::<B>(inexact(s)), s.len(), extra);
    if a != b {
        return format!("MISMATCH slice=[{}] inexact-iterator=[{}]", a, b);
    }
    a
}

fn iter_generic_on<B: Buffer, I: Iterator<Item = u8>>(mut it: sml_rs::transport::DecodeIterator<B, I>, slen: usize, extra: usize) -> String {
    let s = vec![0u8; slen];
    let mut items = Vec::new();
    let mut n = 0;
    loop {
        if n > s.len() + 2 {
            items.push("nonterminating".to_string());
            break;
        }
        n += 1;
        match it.next() {
            None => break,
            Some(Ok(m)) => items.push(format!("ok:{}", hex(m))),
            Some(Err(e)) => items.push(show_err(&e)),
        }
    }
    let mut tail = Vec::new();
    for _ in 0..extra {
        tail.push(match it.next() {
            None => "N".to_string(),
            Some(Ok(m)) => format!("ok:{}", hex(m)),
            Some(Err(e)) => show_err(&e),
        });
    }
    format!("{} | {}", join_sp(items), join_sp(tail))
}

fn nonfused(s1: &[u8], s2: &[u8]) -> NonFused {
    let mut items: Vec<Option<u8>> = s1.iter().map(|b| Some(*b)).collect();
    items.push(None);
    items.extend(s2.iter().map(|b| Some(*b)));
    NonFused { items, pos: 0 }
}

fn do_iterx(args: &[&str]) -> Option<String> {
    let cap = parse_cap(args.first()?)?;
    let s1 = untok(args.get(1)?)?;
    let s2 = untok(args.get(2)?)?;
    let extra: usize = args.get(3)?.parse().ok()?;
    Some(with_cap!(cap, B, mk => iter_generic_on::<B, _>(decode_streaming::<B>(nonfused(&s1, &s2)), s1.len(), extra)))
}

fn do_encix(args: &[&str]) -> Option<String> {
    let s1 = untok(args.first()?)?;
    let s2 = untok(args.get(1)?)?;
    let extra: usize = args.get(2)?.parse().ok()?;
    let mut it = encode_streaming(nonfused(&s1, &s2));
    let mut out = Vec::new();
    let mut n = 0;
    loop {
        if n > 2 * s1.len() + 64 {
            return Some("nonterminating".to_string());
        }
        n += 1;
        match it.next() {
            Some(b) => out.push(b),
            None => break,
        }
    }
    let mut t = String::new();
    for _ in 0..extra {
        t.push(match it.next() {
            None => 'N',
            Some(_) => 'B',
        });
    }
    Some(format!("{} {}", hex_or_dash(&out), if t.is_empty() { "-".to_string() } else { t }))
}

fn do_iter(args: &[&str]) -> Option<String> {
    let cap = parse_cap(args.first()?)?;
    let s = untok(args.get(1)?)?;
    let extra: usize = args.get(2)?.parse().ok()?;
    Some(with_cap!(cap, B, mk => iter_generic::<B>(&s, extra)))
}

/// run the call script against an SmlReader; `calls` = (call, target) pairs
fn run_sml_calls<R, E, B>(mut rd: SmlReader<R, B>, calls: &[(char, char)]) -> String
where
    R: ByteSource<ReadError = E>,
    E: core::fmt::Debug + ByteSourceErr,
    B: Buffer,
{
    let mut out = Vec::new();
    for (c, t) in calls {
        let s: String = match (c, t) {
            ('r', 'b') => match rd.read::<DecodedBytes>() {
                Ok(m) => format!("bytes:{}", hex(m)),
                Err(e) => show_rde(&e),
            },
            ('n', 'b') => match rd.next::<DecodedBytes>() {
                None => "none".to_string(),
                Some(Ok(m)) => format!("bytes:{}", hex(m)),
                Some(Err(e)) => show_rde(&e),
            },
            ('R', 'b') => match rd.read_nb::<DecodedBytes>() {
                Ok(m) => format!("bytes:{}", hex(m)),
                Err(nb::Error::WouldBlock) => "nbwb".to_string(),
                Err(nb::Error::Other(e)) => show_rde(&e),
            },
            ('N', 'b') => match rd.next_nb::<DecodedBytes>() {
                Ok(None) => "none".to_string(),
                Ok(Some(m)) => format!("bytes:{}", hex(m)),
                Err(nb::Error::WouldBlock) => "nbwb".to_string(),
                Err(nb::Error::Other(e)) => show_rde(&e),
            },
            ('r', 'f') => match rd.read::<File>() {
                Ok(f) => format!("file:{}", show_file(&f)),
                Err(e) => show_rpe(&e),
            },
            ('n', 'f') => match rd.next::<File>() {
                None => "none".to_string(),
                Some(Ok(f)) => format!("file:{}", show_file(&f)),
                Some(Err(e)) => show_rpe(&e),
            },
            ('R', 'f') => match rd.read_nb::<File>() {
                Ok(f) => format!("file:{}", show_file(&f)),
                Err(nb::Error::WouldBlock) => "nbwb".to_string(),
                Err(nb::Error::Other(e)) => show_rpe(&e),
            },
            ('N', 'f') => match rd.next_nb::<File>() {
                Ok(None) => "none".to_string(),
                Ok(Some(f)) => format!("file:{}", show_file(&f)),
                Err(nb::Error::WouldBlock) => "nbwb".to_string(),
                Err(nb::Error::Other(e)) => show_rpe(&e),
            },
            ('r', 'p') => match rd.read::<Parser>() {
                Ok(p) => format!("events:[{}]", collect_events(p)),
                Err(e) => show_rde(&e),
            },
            ('n', 'p') => match rd.next::<Parser>() {
                None => "none".to_string(),
                Some(Ok(p)) => format!("events:[{}]", collect_events(p)),
                Some(Err(e)) => show_rde(&e),
            },
            ('R', 'p') => match rd.read_nb::<Parser>() {
                Ok(p) => format!("events:[{}]", collect_events(p)),
                Err(nb::Error::WouldBlock) => "nbwb".to_string(),
                Err(nb::Error::Other(e)) => show_rde(&e),
            },
            ('N', 'p') => match rd.next_nb::<Parser>() {
                Ok(None) => "none".to_string(),
                Ok(Some(p)) => format!("events:[{}]", collect_events(p)),
                Err(nb::Error::WouldBlock) => "nbwb".to_string(),
                Err(nb::Error::Other(e)) => show_rde(&e),
            },
            _ => "bad-request".to_string(),
        };
        out.push(s);
    }
    join_sp(out)
}

fn collect_events(p: Parser) -> String {
    let mut v = Vec::new();
    let mut n = 0usize;
    for item in p {
        n += 1;
        match item {
            Ok(e) => v.push(show_event(&e)),
            Err(e) => {
                v.push(format!("err:{}", show_perr(&e)));
                break;
            }
        }
        if n > 1_000_000 {
            v.push("nonterminating".to_string());
            break;
        }
    }
    v.join(";")
}

fn sml_generic<B: Buffer>(kind: &str, use_default: bool, mk: fn() -> sml_rs::SmlReaderBuilder<B>, evs: &EvStream, calls: &[(char, char)]) -> String {
    match kind {
        "mem" if evs.has_eof() => {
            // a non-fused iterator: yields `None` at the `E` positions and items again afterwards
            let mut items: Vec<Option<u8>> = Vec::new();
            let mut e = evs.clone();
            while let Some(ev) = e.next_ev() {
                match ev {
                    Ev::Byte(b) => items.push(Some(b)),
                    Ev::Eof(_) => items.push(None),
                    _ => {}
                }
            }
            let it = NonFused { items, pos: 0 };
            if use_default {
                run_sml_calls(SmlReader::from_iterator(it), calls)
            } else {
                run_sml_calls(mk().from_iterator(it), calls)
            }
        }
        "mem" => {
            let bytes: Vec<u8> = evs.bytes();
            // slice source and iterator sources (by value and by reference) must agree
            let a = if use_default {
                run_sml_calls(SmlReader::from_slice(&bytes), calls)
            } else {
                run_sml_calls(mk().from_slice(&bytes), calls)
            };
            let b = if use_default {
                run_sml_calls(SmlReader::from_iterator(bytes.clone()), calls)
            } else {
                run_sml_calls(mk().from_iterator(bytes.clone()), calls)
            };
            let c = if use_default {
                run_sml_calls(SmlReader::from_iterator(&bytes), calls)
            } else {
                run_sml_calls(mk().from_iterator(&bytes), calls)
            };
            // iterators that do not know their length: size_hint (0, Some(n)) and (0, None)
            let d = if use_default {
                run_sml_calls(SmlReader::from_iterator(bytes.iter().copied().filter(|_| true)), calls)
            } else {
                run_sml_calls(mk().from_iterator(bytes.iter().copied().filter(|_| true)), calls)
            };
            let e = {
                let mut i = 0usize;
                let src = &bytes;
                let it = std::iter::from_fn(move || {
                    let r = src.get(i).copied();
                    i += 1;
                    r
                });
                if use_default {
                    run_sml_calls(SmlReader::from_iterator(it), calls)
                } else {
                    run_sml_calls(mk().from_iterator(it), calls)
                }
            };
            if a != b || a != c || a != d || a != e {
                format!("MISMATCH slice=[{}] iter=[{}] iterref=[{}] iter-filter=[{}] iter-from_fn=[{}]", a, b, c, d, e)
            } else {
                a
            }
        }
        "io" => {
            let p = IoPlayer { evs: evs.clone() };
            if use_default {
                run_sml_calls(SmlReader::from_reader(p), calls)
            } else {
                run_sml_calls(mk().from_reader(p), calls)
            }
        }
        "eh" => {
            let p = EhPlayer { evs: evs.clone() };
            if use_default {
                run_sml_calls(SmlReader::from_eh_reader(p), calls)
            } else {
                run_sml_calls(mk().from_eh_reader(p), calls)
            }
        }
        _ => "bad-request".to_string(),
    }
}

fn do_sml(args: &[&str], all_bytes: bool) -> Option<String> {
    let kind = *args.first()?;
    let cap = parse_cap(args.get(1)?)?;
    let calls_s = *args.get(2)?;
    let calls: Vec<(char, char)> = if all_bytes {
        calls_s.chars().map(|c| (c, 'b')).collect()
    } else {
        let cs: Vec<char> = calls_s.chars().collect();
        if cs.len() % 2 != 0 {
            return None;
        }
        cs.chunks(2).map(|c| (c[0], c[1])).collect()
    };
    let evs = parse_events(&args[3..])?;
    let out = match cap {
        // capacity 8192 = the default reader buffer: use the default constructors
        Some(8192) => sml_generic::<ArrayBuf<8192>>(kind, true, SmlReader::with_static_buffer::<8192>, &evs, &calls),
        cap => with_cap_sml(cap, kind, &evs, &calls),
    };
    if all_bytes {
        // `rdr` responses use `ok:` for payloads
        Some(
            out.split(' ')
                .map(|t| t.strip_prefix("bytes:").map(|h| format!("ok:{}", h)).unwrap_or_else(|| t.to_string()))
                .collect::<Vec<_>>()
                .join(" "),
        )
    } else {
        Some(out)
    }
}

fn with_cap_sml(cap: Option<usize>, kind: &str, evs: &EvStream, calls: &[(char, char)]) -> String {
    with_cap!(cap, B, mk => sml_generic::<B>(kind, false, mk, evs, calls))
}

fn abuf_generic<const N: usize>(ops: &[&str]) -> String {
    let mut a: ArrayBuf<N> = Default::default();
    let mut out = Vec::new();
    let vis = |a: &ArrayBuf<N>| hex_or_dash(a);
    for op in ops {
        let (k, rest) = op.split_at(1);
        match k {
            "p" => {
                let b = match unhex(rest) {
                    Some(v) if v.len() == 1 => v[0],
                    _ => return "bad-request".to_string(),
                };
                match catch_unwind(AssertUnwindSafe(|| a.push(b))) {
                    Ok(Ok(())) => out.push(format!("ok|{}", vis(&a))),
                    Ok(Err(OutOfMemory)) => out.push(format!("oom|{}", vis(&a))),
                    Err(_) => {
                        out.push("panic".to_string());
                        return join_sp(out);
                    }
                }
            }
            "e" => {
                let bs = match untok(rest) {
                    Some(v) => v,
                    None => return "bad-request".to_string(),
                };
                match catch_unwind(AssertUnwindSafe(|| a.extend_from_slice(&bs))) {
                    Ok(Ok(())) => out.push(format!("ok|{}", vis(&a))),
                    Ok(Err(OutOfMemory)) => out.push(format!("oom|{}", vis(&a))),
                    Err(_) => {
                        out.push("panic".to_string());
                        return join_sp(out);
                    }
                }
            }
            "t" => {
                let k: usize = match rest.parse() {
                    Ok(k) => k,
                    Err(_) => return "bad-request".to_string(),
                };
                a.truncate(k);
                out.push(format!("ok|{}", vis(&a)));
            }
            "c" => {
                a.clear();
                out.push(format!("ok|{}", vis(&a)));
            }
            "q" => {
                // equality must depend on the visible contents only: compare with a buffer freshly
                // collected from the visible bytes (no stale bytes behind them), and with one that differs
                let v: Vec<u8> = a.to_vec();
                let fresh: ArrayBuf<N> = v.iter().copied().collect();
                let e1 = a == fresh && fresh == a;
                let e2 = if v.is_empty() {
                    false
                } else {
                    let mut w = v.clone();
                    let l = w.len();
                    w[l - 1] ^= 0x40;
                    let other: ArrayBuf<N> = w.iter().copied().collect();
                    a == other || other == a
                };
                let shorter: ArrayBuf<N> = v.iter().copied().take(v.len().saturating_sub(1)).collect();
                let e3 = !v.is_empty() && (a == shorter || shorter == a);
                out.push(format!("eq:{}{}{}", e1 as u8, e2 as u8, e3 as u8));
            }
            "d" => {
                out.push(format!("dbg:{}:{}", format!("{:?}", a).replace(' ', ""), format!("{:x?}", a).replace(' ', "")));
            }
            "i" => {
                let bs = match untok(rest) {
                    Some(v) => v,
                    None => return "bad-request".to_string(),
                };
                let exact = catch_unwind(AssertUnwindSafe(|| bs.iter().copied().collect::<ArrayBuf<N>>()));
                let loose = catch_unwind(AssertUnwindSafe(|| inexact(&bs).collect::<ArrayBuf<N>>()));
                match (&exact, &loose) {
                    (Ok(x), Ok(y)) if **x == **y => {}
                    (Err(_), Err(_)) => {}
                    _ => return format!("MISMATCH collect from an exact-size iterator and from a filtering iterator differ on {}", hex(&bs)),
                }
                match exact {
                    Ok(x) => {
                        a = x;
                        out.push(format!("ok|{}", vis(&a)));
                    }
                    Err(_) => {
                        a = Default::default();
                        out.push("panic|-".to_string());
                    }
                }
            }
            _ => return "bad-request".to_string(),
        }
    }
    join_sp(out)
}

fn do_abuf(args: &[&str]) -> Option<String> {
    let n: usize = args.first()?.parse().ok()?;
    let ops = &args[1..];
    macro_rules! arms {
        ($($k:literal)*) => {
            match n {
                $( $k => abuf_generic::<$k>(ops), )*
                other => format!("unsupported-capacity:{}", other),
            }
        };
    }
    Some(arms!(0 1 2 3 4 5 6 7 8 9 10 11 12 13 14 15 16 24 32 48 64 255 256 257 65535 65536 65537 70000))
}

fn do_parse(args: &[&str]) -> Option<String> {
    let bs = untok(args.first()?)?;
    Some(match complete::parse(&bs) {
        Ok(f) => format!("ok:{}", show_file(&f)),
        Err(e) => format!("err:{}", show_perr(&e)),
    })
}

fn do_stream(args: &[&str]) -> Option<String> {
    let bs = untok(args.first()?)?;
    let extra: usize = args.get(1)?.parse().ok()?;
    let mut p = Parser::new(&bs);
    let mut items = Vec::new();
    let mut n = 0usize;
    loop {
        if n > bs.len() + 3 {
            items.push("nonterminating".to_string());
            break;
        }
        n += 1;
        match p.next() {
            None => {
                items.push("N".to_string());
                break;
            }
            Some(Err(e)) => {
                items.push(format!("err:{}", show_perr(&e)));
                break;
            }
            Some(Ok(e)) => items.push(show_event(&e)),
        }
    }
    let mut tail = Vec::new();
    for _ in 0..extra {
        tail.push(match p.next() {
            None => "N".to_string(),
            Some(Err(e)) => format!("err:{}", show_perr(&e)),
            Some(Ok(e)) => show_event(&e),
        });
    }
    Some(format!("{} | {}", join_sp(items), join_sp(tail)))
}

fn do_frame(args: &[&str]) -> Option<String> {
    let p = untok(args.first()?)?;
    Some(hex(&crate::spec::frame(&p)))
}

fn do_crc(args: &[&str]) -> Option<String> {
    let p = untok(args.first()?)?;
    Some(format!("{:04x}", crc16_x25(&p)))
}

/// result of running one request line on the implementation
pub struct ImplOut {
    pub text: String,
    /// bytes requested from the allocator while the op ran (only meaningful for `parse` / `stream`)
    pub alloc_bytes: usize,
    pub alloc_calls: usize,
}

/// run one request line against the real code
pub fn run(line: &str) -> ImplOut {
    let toks: Vec<&str> = line.split(' ').filter(|t| !t.is_empty()).collect();
    if toks.is_empty() {
        return ImplOut { text: "bad-request".into(), alloc_bytes: 0, alloc_calls: 0 };
    }
    let args = &toks[1..];
    let op = toks[0];
    if op == "parse" || op == "stream" {
        // measure allocations of the parser call alone (input decoding happens before)
        let bs = match args.first().and_then(|a| untok(a)) {
            Some(b) => b,
            None => return ImplOut { text: "bad-request".into(), alloc_bytes: 0, alloc_calls: 0 },
        };
        let (bytes, calls, panicked) = if op == "parse" {
            alloc_count::measure(|| {
                let r = catch_unwind(AssertUnwindSafe(|| complete::parse(&bs).is_ok()));
                r.is_err()
            })
        } else {
            alloc_count::measure(|| {
                let r = catch_unwind(AssertUnwindSafe(|| {
                    let mut p = Parser::new(&bs);
                    let mut n = 0usize;
                    while let Some(x) = p.next() {
                        n += 1;
                        if x.is_err() || n > bs.len() + 3 {
                            break;
                        }
                    }
                }));
                r.is_err()
            })
        };
        if panicked {
            return ImplOut { text: "panic".into(), alloc_bytes: bytes, alloc_calls: calls };
        }
        let text = catch_unwind(AssertUnwindSafe(|| if op == "parse" { do_parse(args) } else { do_stream(args) }))
            .unwrap_or(Some("panic".to_string()))
            .unwrap_or("bad-request".to_string());
        return ImplOut { text, alloc_bytes: bytes, alloc_calls: calls };
    }
    let r = catch_unwind(AssertUnwindSafe(|| match op {
        "enc" => do_enc(args),
        "enci" => do_enci(args),
        "encinf" => do_encinf(args),
        "dec" => do_dec(args),
        "decf" => do_decf(args),
        "decode" => do_decode(args),
        "iter" => do_iter(args),
        "iterx" => do_iterx(args),
        "encix" => do_encix(args),
        "rdr" => do_sml(args, true),
        "sml" => do_sml(args, false),
        "abuf" => do_abuf(args),
        "frame" => do_frame(args),
        "crc" => do_crc(args),
        _ => None,
    }));
    let text = match r {
        Ok(Some(s)) => s,
        Ok(None) => "bad-request".to_string(),
        Err(_) => "panic".to_string(),
    };
    ImplOut { text, alloc_bytes: 0, alloc_calls: 0 }
}

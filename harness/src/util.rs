//! small utilities: PRNG, hex, protocol tokens, JSON escaping, independent CRC

/// SplitMix64: every random choice of a run derives from one state
#[derive(Clone)]
pub struct Rng(pub u64);

impl Rng {
    pub fn new(seed: u64) -> Self {
        Rng(seed ^ 0x9E37_79B9_7F4A_7C15)
    }
    pub fn next(&mut self) -> u64 {
        self.0 = self.0.wrapping_add(0x9E37_79B9_7F4A_7C15);
        let mut z = self.0;
        z = (z ^ (z >> 30)).wrapping_mul(0xBF58_476D_1CE4_E5B9);
        z = (z ^ (z >> 27)).wrapping_mul(0x94D0_49BB_1331_11EB);
        z ^ (z >> 31)
    }
    /// uniform in 0..n (n > 0)
    pub fn below(&mut self, n: usize) -> usize {
        (self.next() % (n as u64)) as usize
    }
    pub fn range(&mut self, lo: usize, hi_incl: usize) -> usize {
        lo + self.below(hi_incl - lo + 1)
    }
    pub fn chance(&mut self, num: usize, den: usize) -> bool {
        self.below(den) < num
    }
    pub fn byte(&mut self) -> u8 {
        self.next() as u8
    }
    pub fn pick<'a, T>(&mut self, xs: &'a [T]) -> &'a T {
        &xs[self.below(xs.len())]
    }
    pub fn fork(&mut self) -> Rng {
        Rng(self.next())
    }
}

pub fn hex(bs: &[u8]) -> String {
    const D: &[u8; 16] = b"0123456789abcdef";
    let mut s = String::with_capacity(bs.len() * 2);
    for b in bs {
        s.push(D[(b >> 4) as usize] as char);
        s.push(D[(b & 15) as usize] as char);
    }
    s
}

pub fn hex_or_dash(bs: &[u8]) -> String {
    if bs.is_empty() {
        "-".to_string()
    } else {
        hex(bs)
    }
}

/// protocol token for a byte string: `-` if empty, comma separated chunks, runs ≥ 24 as `hh*N`
pub fn tok(bs: &[u8]) -> String {
    if bs.is_empty() {
        return "-".to_string();
    }
    let mut out = String::new();
    let mut lit: Vec<u8> = Vec::new();
    let mut i = 0;
    let flush = |out: &mut String, lit: &mut Vec<u8>| {
        if !lit.is_empty() {
            if !out.is_empty() {
                out.push(',');
            }
            out.push_str(&hex(lit));
            lit.clear();
        }
    };
    while i < bs.len() {
        let b = bs[i];
        let mut j = i;
        while j < bs.len() && bs[j] == b {
            j += 1;
        }
        if j - i >= 24 {
            flush(&mut out, &mut lit);
            if !out.is_empty() {
                out.push(',');
            }
            out.push_str(&format!("{:02x}*{}", b, j - i));
        } else {
            lit.extend_from_slice(&bs[i..j]);
        }
        i = j;
    }
    flush(&mut out, &mut lit);
    out
}

fn hexval(c: u8) -> Option<u8> {
    match c {
        b'0'..=b'9' => Some(c - b'0'),
        b'a'..=b'f' => Some(c - b'a' + 10),
        b'A'..=b'F' => Some(c - b'A' + 10),
        _ => None,
    }
}

pub fn unhex(s: &str) -> Option<Vec<u8>> {
    let b = s.as_bytes();
    if b.len() % 2 != 0 {
        return None;
    }
    let mut v = Vec::with_capacity(b.len() / 2);
    for c in b.chunks(2) {
        v.push(hexval(c[0])? * 16 + hexval(c[1])?);
    }
    Some(v)
}

/// inverse of `tok`
pub fn untok(s: &str) -> Option<Vec<u8>> {
    if s == "-" {
        return Some(vec![]);
    }
    let mut v = Vec::new();
    for chunk in s.split(',') {
        if let Some((h, n)) = chunk.split_once('*') {
            let b = unhex(h)?;
            if b.len() != 1 {
                return None;
            }
            let n: usize = n.parse().ok()?;
            v.extend(std::iter::repeat(b[0]).take(n));
        } else {
            v.extend(unhex(chunk)?);
        }
    }
    Some(v)
}

pub fn json_str(s: &str) -> String {
    let mut o = String::with_capacity(s.len() + 2);
    o.push('"');
    for c in s.chars() {
        match c {
            '"' => o.push_str("\\\""),
            '\\' => o.push_str("\\\\"),
            '\n' => o.push_str("\\n"),
            '\t' => o.push_str("\\t"),
            c if (c as u32) < 0x20 => o.push_str(&format!("\\u{:04x}", c as u32)),
            c => o.push(c),
        }
    }
    o.push('"');
    o
}

/// independent bitwise CRC-16/X.25 (not the `crc` crate, not the Lean model)
pub fn crc16_x25(bs: &[u8]) -> u16 {
    let mut c: u16 = 0xFFFF;
    for &b in bs {
        c ^= b as u16;
        for _ in 0..8 {
            c = if c & 1 != 0 { (c >> 1) ^ 0x8408 } else { c >> 1 };
        }
    }
    !c
}

/// FNV-1a, for distinctness counting
pub fn fnv(s: &[u8]) -> u64 {
    let mut h: u64 = 0xcbf29ce484222325;
    for b in s {
        h ^= *b as u64;
        h = h.wrapping_mul(0x100000001b3);
    }
    h
}

pub fn cap_tok(cap: Option<usize>) -> String {
    match cap {
        None => "inf".to_string(),
        Some(n) => n.to_string(),
    }
}

pub fn parse_cap(s: &str) -> Option<Option<usize>> {
    if s == "inf" {
        Some(None)
    } else {
        s.parse().ok().map(Some)
    }
}

/// Literals that appear in /repo's current source but not in the text the model was reviewed against
/// (written by `check` from `srcmap.json`): candidate magic values.  Generators mix them into field
/// contents, payloads, lengths and repetition counts.  Empty on the reviewed tree.
pub struct Dict {
    pub ints: Vec<usize>,
    pub bytes: Vec<Vec<u8>>,
}

static DICT: std::sync::OnceLock<Dict> = std::sync::OnceLock::new();

pub fn dict() -> &'static Dict {
    DICT.get_or_init(|| Dict { ints: vec![], bytes: vec![] })
}

/// lines `int <n>` / `bytes <hex>`
pub fn load_dict(path: &str) {
    let mut d = Dict { ints: vec![], bytes: vec![] };
    if let Ok(text) = std::fs::read_to_string(path) {
        for l in text.lines() {
            let mut it = l.split(' ');
            match (it.next(), it.next()) {
                (Some("int"), Some(n)) => {
                    if let Ok(n) = n.parse::<usize>() {
                        if n >= 2 && n <= 300_000 && !d.ints.contains(&n) {
                            d.ints.push(n);
                        }
                    }
                }
                (Some("bytes"), Some(h)) => {
                    if let Some(b) = unhex(h) {
                        if !b.is_empty() && b.len() <= 64 && !d.bytes.contains(&b) {
                            d.bytes.push(b);
                        }
                    }
                }
                _ => {}
            }
        }
    }
    d.ints.truncate(24);
    d.bytes.truncate(48);
    let _ = DICT.set(d);
}

//! Per-property case generation, projection (what is compared with the model) and oracle
//! (what decides a concrete violation on the implementation's output alone).

use crate::gen::*;
use crate::implrun::CAPS;
use crate::spec;
use crate::util::*;

#[derive(Clone, Debug)]
pub struct Case {
    pub family: &'static str,
    pub lines: Vec<String>,
    /// side information for the oracle (hex strings etc.), stored in replay files
    pub aux: Vec<String>,
    /// very large cases are checked by the oracle on the implementation only (the list-based model
    /// is quadratic on inputs with ~10^5 fields)
    pub no_model: bool,
}

impl Case {
    pub fn new(family: &'static str, lines: Vec<String>) -> Case {
        Case { family, lines, aux: vec![], no_model: false }
    }
    pub fn with_aux(mut self, aux: Vec<String>) -> Case {
        self.aux = aux;
        self
    }
    pub fn impl_only(mut self, yes: bool) -> Case {
        self.no_model = yes;
        self
    }
}

pub struct Tier {
    pub thorough: bool,
}

/// nearest supported fixed capacity ≥ n (if any)
pub fn cap_at_least(n: usize) -> Option<usize> {
    CAPS.iter().copied().find(|&c| c >= n)
}
pub fn cap_supported(n: usize) -> bool {
    CAPS.contains(&n)
}

fn calls(c: char, n: usize) -> String {
    std::iter::repeat(c).take(n).collect()
}

// =============================================================================================
// generation
// =============================================================================================

/// all cases of worker `w` of `nw` for property `prop`
pub fn generate(prop: &str, tier: &Tier, seed: u64, w: usize, nw: usize) -> Vec<Case> {
    let mut rng = Rng::new(seed.wrapping_mul(0x1000193).wrapping_add(w as u64 * 7919 + prop_num(prop) as u64));
    let mut out = Vec::new();
    match prop {
        "C01" => gen_c01(tier, &mut rng, w, nw, &mut out),
        "C02" => gen_c02(tier, &mut rng, w, nw, &mut out),
        "C03" => gen_c03(tier, &mut rng, w, nw, &mut out),
        "C04" => gen_c04(tier, &mut rng, w, nw, &mut out),
        "C05" => gen_c05(tier, &mut rng, w, nw, &mut out),
        "C06" => gen_c06(tier, &mut rng, w, nw, &mut out),
        "C07" => gen_c07(tier, &mut rng, w, nw, &mut out),
        "C08" => gen_c08(tier, &mut rng, w, nw, &mut out),
        "C09" => gen_c09(tier, &mut rng, w, nw, &mut out),
        "C10" => gen_c10(tier, &mut rng, w, nw, &mut out),
        "C11" => gen_c11(tier, &mut rng, w, nw, &mut out),
        "C12" => gen_c12(tier, &mut rng, w, nw, &mut out),
        "C13" => gen_c13(tier, &mut rng, w, nw, &mut out),
        "C14" => gen_c14(tier, &mut rng, w, nw, &mut out),
        "C15" => gen_c15(tier, &mut rng, w, nw, &mut out),
        "C16" => gen_c16(tier, &mut rng, w, nw, &mut out),
        "C17" => gen_c17(tier, &mut rng, w, nw, &mut out),
        "C18" => gen_c18(tier, &mut rng, w, nw, &mut out),
        _ => {}
    }
    out
}

pub fn prop_num(prop: &str) -> usize {
    prop[1..].parse().unwrap_or(0)
}

/// payload family shared by the transport properties; deterministic part split across workers
fn payload_family(tier: &Tier, rng: &mut Rng, w: usize, nw: usize, nrand: usize, with_huge: bool) -> Vec<Vec<u8>> {
    let mut v: Vec<Vec<u8>> = Vec::new();
    let maxl = if tier.thorough { 8 } else { 5 };
    let mut idx = 0usize;
    for l in 0..=maxl {
        for p in exhaustive(&ALPHA, l) {
            if idx % nw == w {
                v.push(p);
            }
            idx += 1;
        }
    }
    for p in special_payloads() {
        if idx % nw == w {
            v.push(p);
        }
        idx += 1;
    }
    if with_huge {
        for p in huge_payloads() {
            if idx % nw == w {
                v.push(p);
            }
            idx += 1;
        }
    }
    for _ in 0..nrand / nw {
        let maxlen = if rng.chance(1, 10) { 300 } else { 48 };
        v.push(rand_payload(rng, maxlen));
    }
    // checksums with special values (0000, ffff, bytes equal to 00 / 1b / 1a / 01)
    if w < 4 {
        v.extend(crc_special_payloads(rng, if tier.thorough { 8 } else { 1 }));
    }
    v
}

/// capacities to try for a payload of length n: growable, exact, larger
fn caps_for(n: usize, rng: &mut Rng) -> Vec<Option<usize>> {
    let mut v = vec![None];
    if cap_supported(n) {
        v.push(Some(n));
    }
    if let Some(c) = cap_at_least(n + 1 + rng.below(8)) {
        v.push(Some(c));
    }
    v
}

fn gen_c01(tier: &Tier, rng: &mut Rng, w: usize, nw: usize, out: &mut Vec<Case>) {
    let nrand = if tier.thorough { 400_000 } else { 36_000 };
    for p in payload_family(tier, rng, w, nw, nrand, true) {
        let f = spec::frame(&p);
        let ft = tok(&f);
        let caps = if p.len() > 9000 { vec![None, cap_at_least(p.len())] } else { caps_for(p.len(), rng) };
        let cap = *rng.pick(&caps);
        let ct = cap_tok(cap);
        // now and then keep polling long after exhaustion (counters that only wrap after many calls)
        let tail = if rng.chance(1, 16) { 300 } else { 3 };
        let mut lines = vec![
            format!("enc inf {}", tok(&p)),
            format!("enci {} {}", tok(&p), tail),
            format!("dec {} {} F", ct, ft),
            format!("decode {}", ft),
            format!("iter {} {} {}", ct, ft, tail - 1),
            format!("rdr mem {} {} {}", ct, calls('n', tail), ft),
            format!("rdr io {} {} {}", ct, calls('n', tail), ft),
        ];
        if p.len() <= 8192 && rng.chance(1, 20) {
            lines.push(format!("rdr mem 8192 nnn {}", ft));
        }
        // fixed capacities ≥ 2^16: implementation + oracle only (the list-based model is quadratic there)
        let big = cap.map(|c| c >= 60000).unwrap_or(false);
        out.push(Case::new(if big { "roundtrip-64k-buffer" } else { "roundtrip" }, lines).with_aux(vec![hex(&p)]).impl_only(big));
    }
}

fn gen_c07(tier: &Tier, rng: &mut Rng, w: usize, nw: usize, out: &mut Vec<Case>) {
    let nrand = if tier.thorough { 400_000 } else { 36_000 };
    for p in payload_family(tier, rng, w, nw, nrand, true) {
        let f = spec::frame(&p);
        let l = f.len();
        let pt = tok(&p);
        let tail = if rng.chance(1, 8) { 300 } else { 8 };
        let mut lines = vec![format!("frame {}", pt), format!("enc inf {}", pt), format!("enci {} {}", pt, tail)];
        for c in l.saturating_sub(3)..=l + 1 {
            if cap_supported(c) {
                lines.push(format!("enc {} {}", c, pt));
            }
        }
        if l > 20 && rng.chance(1, 4) {
            lines.push(format!("enc {} {}", rng.pick(&[0usize, 7, 8, 9, 15, 16, 17]), pt));
        }
        if rng.chance(1, 50) {
            lines.push(format!("encinf {:02x} {}", rng.pick(&[0x1bu8, 0x00, 0xaa, 0x1a]), rng.range(0, 40)));
        }
        out.push(Case::new("encode", lines).with_aux(vec![hex(&p)]));
    }
}

/// streams used by the decoder properties
fn stream_family(tier: &Tier, rng: &mut Rng, w: usize, nw: usize, nrand: usize) -> Vec<Vec<u8>> {
    let mut v = Vec::new();
    // exhaustive bodies around each END variant: START ++ body ++ END-ish
    let maxl = if tier.thorough { 6 } else { 4 };
    let mut idx = 0usize;
    for l in 0..=maxl {
        for body in exhaustive(&ALPHA, l) {
            if idx % nw == w {
                let variant = idx / nw % 4;
                let mut s = spec::START.to_vec();
                s.extend_from_slice(&body);
                match variant {
                    0 => {
                        // canonical ending for the raw body interpreted as already-stuffed bytes
                        let k = (4 - s.len() % 4) % 4;
                        s.extend(std::iter::repeat(0u8).take(k));
                        s.extend_from_slice(&[0x1b, 0x1b, 0x1b, 0x1b, 0x1a, k as u8]);
                        let c = crc16_x25(&s);
                        s.push(c as u8);
                        s.push((c >> 8) as u8);
                    }
                    1 => {
                        // no alignment padding, pad count 0, attacker-correct crc
                        s.extend_from_slice(&[0x1b, 0x1b, 0x1b, 0x1b, 0x1a, 0]);
                        let c = crc16_x25(&s);
                        s.push(c as u8);
                        s.push((c >> 8) as u8);
                    }
                    2 => {
                        // claims more padding than zeros present
                        let k = (4 - s.len() % 4) % 4;
                        s.extend(std::iter::repeat(0u8).take(k));
                        s.extend_from_slice(&[0x1b, 0x1b, 0x1b, 0x1b, 0x1a, ((k + 1) % 5) as u8]);
                        let c = crc16_x25(&s);
                        s.push(c as u8);
                        s.push((c >> 8) as u8);
                    }
                    _ => {
                        s = body.clone();
                        s.extend(spec::frame(&body));
                    }
                }
                v.push(s);
            }
            idx += 1;
        }
    }
    // every escape payload with four equal bytes, and all payloads over a wider alphabet, inside a
    // running transmission and followed by the rest of a canonical frame (what an attacker would send
    // if some other escape code were treated as a transmission start)
    let wide: [u8; 8] = [0x00, 0x01, 0x02, 0x03, 0x1a, 0x1b, 0xaa, 0xff];
    let mut k = 0usize;
    let mut quads: Vec<[u8; 4]> = (0..=255u8).map(|x| [x; 4]).collect();
    if tier.thorough {
        for a in wide {
            for b in wide {
                for c in wide {
                    for d in wide {
                        quads.push([a, b, c, d]);
                    }
                }
            }
        }
    } else {
        for _ in 0..256 {
            quads.push([*rng.pick(&wide), *rng.pick(&wide), *rng.pick(&wide), *rng.pick(&wide)]);
        }
    }
    for q in quads {
        if k % nw == w {
            let m = vec![0x76u8, 0x05, 0x12, 0x34];
            let f = spec::frame(&m);
            for junk in [&[][..], &[0xaa][..], &[0x11, 0x22, 0x33, 0x44][..]] {
                let mut s = spec::START.to_vec();
                s.extend_from_slice(junk);
                s.extend_from_slice(&[0x1b; 4]);
                s.extend_from_slice(&q);
                s.extend_from_slice(&f[8..]);
                v.push(s);
            }
        }
        k += 1;
    }
    for _ in 0..nrand / nw {
        v.push(adversarial_stream(rng, 10));
    }
    v
}

fn gen_c02(tier: &Tier, rng: &mut Rng, w: usize, nw: usize, out: &mut Vec<Case>) {
    let nrand = if tier.thorough { 1_500_000 } else { 120_000 };
    for s in stream_family(tier, rng, w, nw, nrand) {
        let st = tok(&s);
        let small = *rng.pick(&[0usize, 1, 2, 3, 4, 5, 8, 16]);
        let lines = vec![
            format!("dec inf {}", st),
            format!("dec {} {}", small, st),
            format!("dec {} B{} {}", if small >= 4 { small } else { 16 }, STALE, st),
            format!("decode {}", st),
            format!("rdr io inf {} {}", calls('n', 14), st),
            // the same stream cut by hard errors / end-of-input reports at random places
            format!("rdr {} inf {} {}", if rng.chance(1, 4) { "eh" } else { "io" }, calls('n', 24), fault_events(rng, &s, true).replace(" I", "").replace("I ", "")),
        ];
        out.push(Case::new("adversarial", lines).with_aux(vec![hex(&s)]));
    }
}

/// stale buffer contents for `from_buf` (used only with capacities ≥ 4 or the growable buffer)
const STALE: &str = "deadbeef";

fn random_history(rng: &mut Rng, s: &[u8]) -> String {
    // split the stream at random points and insert F / R
    let mut toks = Vec::new();
    let mut i = 0;
    while i < s.len() {
        let n = rng.range(1, 12).min(s.len() - i);
        toks.push(tok(&s[i..i + n]));
        i += n;
        match rng.below(16) {
            0 | 1 | 2 => toks.push("F".to_string()),
            3 | 4 | 5 => toks.push("R".to_string()),
            6 => toks.push("N".to_string()),
            // from_buf with a buffer holding stale bytes (never more than any capacity used: ≤ 0 for cap 0 → empty)
            7 => toks.push(if rng.chance(1, 2) { "B-".to_string() } else { "B".to_string() + STALE }),
            _ => {}
        }
    }
    toks.push(if rng.chance(1, 2) { "F" } else { "R" }.to_string());
    toks.join(" ")
}

fn gen_c05(tier: &Tier, rng: &mut Rng, w: usize, nw: usize, out: &mut Vec<Case>) {
    alloc_failure_cases(rng, if tier.thorough { 20_000 } else { 3_000 } / nw, out);
    let nrand = if tier.thorough { 600_000 } else { 90_000 };
    for s in stream_family(tier, rng, w, nw, nrand) {
        let cap = match rng.below(4) {
            0 => None,
            _ => Some(*rng.pick(&[0usize, 1, 2, 3, 4, 5, 6, 7, 8, 12, 16, 32])),
        };
        let mut hist = random_history(rng, &s);
        if cap.map(|c| c < 4).unwrap_or(false) {
            hist = hist.replace("Bdeadbeef", "B-");
        }
        let mut lines = vec![format!("dec {} {}", cap_tok(cap), hist)];
        if rng.chance(1, 4) {
            lines.push(format!("iter {} {} {}", cap_tok(cap), tok(&s), if rng.chance(1, 8) { 300 } else { 3 }));
            lines.push(format!("decode {}", tok(&s)));
        }
        if rng.chance(1, 4) {
            lines.push(format!("rdr io {} {} {}", cap_tok(cap), rand_calls(rng, 10), fault_events(rng, &s, true)));
        }
        if rng.chance(1, 8) {
            // non-fused sources: `None`, then more items
            let j = rng.below(s.len() + 1);
            lines.push(format!("iterx {} {} {} 4", cap_tok(cap), tok(&s[..j]), tok(&s[j..])));
            let p = rand_payload(rng, 20);
            let jj = rng.below(p.len() + 1);
            lines.push(format!("encix {} {} 4", tok(&p[..jj]), tok(&p[jj..])));
        }
        if rng.chance(1, 6) {
            let p = rand_payload(rng, 40);
            lines.push(format!("enci {} {}", tok(&p), if rng.chance(1, 4) { 300 } else { 5 }));
            lines.push(format!("enc {} {}", cap_tok(cap), tok(&p)));
            lines.push(format!("encinf {:02x} {}", rng.byte(), rng.range(0, 40)));
        }
        out.push(Case::new("history", lines));
    }
    if tier.thorough && w == 2 % nw {
        // 2^32 + 6 noise bytes, then a frame: counters beyond 2^32 (implementation + oracle only)
        let f = tok(&spec::frame(&[1, 2, 3]));
        out.push(Case::new("noise-4gib", vec![format!("dec 8 aa*4294967297,1b1b1b1b01,{} F", f)]).impl_only(true));
    }
    // long noise runs and long payloads (counters beyond 2^8 and 2^16)
    if w == 0 {
        for n in [255usize, 256, 257, 65535, 65536, 65537, 70001] {
            for b in [0xaau8, 0x1b, 0x00, 0x01] {
                let mut s = vec![b; n];
                s.extend(spec::frame(&[1, 2, 3]));
                out.push(Case::new("long-noise", vec![format!("dec 8 {} F", tok(&s)), format!("decode {}", tok(&s))]));
                // long noise inside a frame, then a restart
                let mut t = spec::START.to_vec();
                t.extend(vec![b; n]);
                t.extend(spec::frame(&[9]));
                out.push(Case::new("long-frame", vec![format!("dec 8 {} F", tok(&t)), format!("dec inf {} R", tok(&t))]));
            }
        }
        for p in huge_payloads() {
            out.push(Case::new("long-payload", vec![format!("dec inf {} F", tok(&spec::frame(&p))), format!("enci {} 2", tok(&p))]));
        }
    }
}

fn rand_calls(rng: &mut Rng, n: usize) -> String {
    (0..n).map(|_| *rng.pick(&['n', 'n', 'r', 'N', 'R'])).collect()
}

/// event tokens: the bytes of `s` with faults sprinkled in (also before the first byte, and
/// several mixed faults in one gap)
fn fault_events(rng: &mut Rng, s: &[u8], allow_other: bool) -> String {
    let mut toks: Vec<String> = Vec::new();
    let mut gap = |rng: &mut Rng, toks: &mut Vec<String>, force: bool| {
        let n = if force { rng.range(1, 3) } else if rng.chance(1, 2) { 0 } else { rng.range(1, 3) };
        for _ in 0..n {
            match rng.below(8) {
                0 | 1 | 2 => toks.push("W".into()),
                3 | 4 => toks.push("I".into()),
                5 if allow_other => toks.push(match rng.below(4) {
                    0 => "O".to_string(),
                    1 => format!("O{}", (b'a' + rng.below(16) as u8) as char),
                    2 => "E".to_string(),
                    _ => rng.pick(&["Ee", "Ex"]).to_string(),
                }),
                _ => toks.push("W".into()),
            }
        }
    };
    if rng.chance(1, 4) {
        gap(rng, &mut toks, true);
    }
    let mut i = 0;
    while i < s.len() {
        let n = rng.range(1, 10).min(s.len() - i);
        toks.push(tok(&s[i..i + n]));
        i += n;
        gap(rng, &mut toks, false);
    }
    // storms: many consecutive faults of one kind at one position (retry limits, poll counters)
    let d = dict();
    let storm: Option<(usize, &str)> = if rng.chance(1, 250) {
        Some((*rng.pick(&[255usize, 256, 257, 300]), *rng.pick(&["I", "W"])))
    } else if rng.chance(1, 4000) {
        Some((*rng.pick(&[65_535usize, 65_536, 65_537, 70_000]), *rng.pick(&["W", "W", "I"])))
    } else if !d.ints.is_empty() && rng.chance(1, 300) {
        let n = *rng.pick(&d.ints);
        Some((if rng.chance(1, 2) { n } else { n + 1 }, *rng.pick(&["W", "I"])))
    } else {
        None
    };
    if let Some((n, kind)) = storm {
        let at = rng.below(toks.len() + 1);
        let run: Vec<String> = (0..n).map(|_| kind.to_string()).collect();
        toks.splice(at..at, run);
    }
    if toks.is_empty() {
        toks.push("-".into());
    }
    toks.join(" ")
}

fn gen_c15(tier: &Tier, rng: &mut Rng, w: usize, nw: usize, out: &mut Vec<Case>) {
    if tier.thorough && w == 3 % nw {
        // a frame followed by exactly 2^32 noise bytes: all front-ends must report the same leftover count
        let s = format!("{},aa*4294967296", tok(&spec::frame(&[1, 2, 3])));
        out.push(Case::new("noise-4gib", vec![format!("dec inf {} F", s), format!("rdr io inf nnn {}", s)]).impl_only(true));
    }
    let nrand = if tier.thorough { 500_000 } else { 75_000 };
    for s in stream_family(tier, rng, w, nw, nrand) {
        let st = tok(&s);
        let big = cap_at_least(s.len());
        let mut lines = vec![
            format!("dec inf {} F", st),
            format!("decode {}", st),
            format!("iter inf {} {}", st, if rng.chance(1, 16) { 300 } else { 2 }),
            format!("rdr mem inf {} {}", calls('n', if rng.chance(1, 16) { 300 } else { 16 }), st),
            format!("rdr io inf {} {}", calls('n', 16), st),
        ];
        if rng.chance(1, 4) {
            // a source that yields `None` after `s` and more bytes later (a non-fused iterator): `decode` and
            // `decode_streaming` both stop for good at the first `None`
            let more = if rng.chance(1, 2) { spec::frame(&rand_payload(rng, 6)) } else { alpha_range(rng, 1, 12) };
            lines.push(format!("iterx inf {} {} 4", st, tok(&more)));
        }
        if let Some(c) = big {
            lines.push(format!("dec {} {} F", c, st));
            lines.push(format!("iter {} {} 2", c, st));
            lines.push(format!("rdr mem {} {} {}", c, calls('n', 16), st));
        }
        out.push(Case::new("frontends", lines));
    }
}

fn gen_c17(tier: &Tier, rng: &mut Rng, w: usize, nw: usize, out: &mut Vec<Case>) {
    alloc_failure_cases(rng, if tier.thorough { 20_000 } else { 3_000 } / nw, out);
    let nrand = if tier.thorough { 500_000 } else { 75_000 };
    for s in stream_family(tier, rng, w, nw, nrand) {
        let cap = if rng.chance(1, 3) { Some(*rng.pick(&[0usize, 2, 4, 8])) } else { None };
        let mut lines = vec![format!("dec {} {} F", cap_tok(cap), tok(&s))];
        if rng.chance(1, 3) {
            let mut hist = random_history(rng, &s);
            if cap.map(|c| c < 4).unwrap_or(false) {
                hist = hist.replace("Bdeadbeef", "B-");
            }
            lines.push(format!("dec {} {}", cap_tok(cap), hist));
        }
        if rng.chance(1, 3) {
            lines.push(format!("rdr io {} {} {}", cap_tok(cap), calls('n', 24), fault_events(rng, &s, true)));
        }
        out.push(Case::new("accounting", lines));
    }
    if tier.thorough && w == 2 % nw {
        // noise and an unfinished frame of more than 2^32 bytes (implementation + oracle only)
        let f = tok(&spec::frame(&[1, 2, 3]));
        out.push(Case::new("noise-4gib", vec![format!("dec inf aa*4294967297,1b1b1b1b01,{} F", f)]).impl_only(true));
        out.push(Case::new("frame-4gib", vec![format!("dec inf 1b1b1b1b01010101,00*4294967300 R {} F", f)]).impl_only(true));
    }
    {
        // long runs of would-block / interrupted results while part of a frame is pending: nothing may be lost
        // (one case per worker: the list-based model needs seconds for 70 000 events)
        let fa = spec::frame(&[0x11, 0x22, 0x33, 0x44, 0x55]);
        let fb = spec::frame(&[9, 8, 7]);
        let mut k = 0usize;
        for n in [255usize, 256, 300, 65_535, 65_536, 70_000] {
            for (ev, c) in [("W", 'N'), ("W", 'n'), ("I", 'n'), ("W", 'R')] {
                if k % nw == w {
                    let storm = vec![ev; n].join(" ");
                    out.push(Case::new("storm", vec![format!("rdr io inf {} {} {} {} {}", calls(c, n + 8), tok(&fa[..13]), storm, tok(&fa[13..]), tok(&fb))]));
                }
                k += 1;
            }
        }
    }
    if w == 1 % nw {
        // unfinished transmissions of 2^16 bytes and more: counts inside a frame
        for n in [65520usize, 65528, 65535, 65536, 65537, 70000, 131072] {
            for b in [0xaau8, 0x00] {
                let mut t = spec::START.to_vec();
                t.extend(vec![b; n]);
                let tt = tok(&t);
                let f = tok(&spec::frame(&[5, 6, 7]));
                out.push(Case::new("long-frame", vec![
                    format!("dec inf {} F", tt),
                    format!("dec inf {} R {} F", tt, f),
                    format!("dec inf {} {} F", tt, f),
                    format!("rdr io inf nnnn {}", tt),
                    format!("rdr io inf nnnn {} O {}", tt, f),
                    format!("rdr mem inf rrr {}", tt),
                ]));
            }
        }
    }
    if w == 0 {
        for n in [65535usize, 65536, 65537, 70001, 131072] {
            for b in [0xaau8, 0x1b, 0x01] {
                let mut s = vec![b; n];
                s.extend(spec::frame(&[1, 2, 3]));
                s.extend(vec![b; n]);
                out.push(Case::new("long-noise", vec![format!("dec inf {} F", tok(&s)), format!("rdr io inf nnnn {} O", tok(&s))]));
            }
        }
    }
}

fn gen_c18(tier: &Tier, rng: &mut Rng, _w: usize, nw: usize, out: &mut Vec<Case>) {
    if _w < 7 {
        // capacities around 2^8 and 2^16: fill across the boundary in several ways
        let cap = [255usize, 256, 257, 65535, 65536, 65537, 70000][_w];
        let a: Vec<u8> = (0..cap.saturating_sub(3)).map(|i| (i % 251) as u8).collect();
        let ops = vec![
            format!("e{}", tok(&a)),
            "p01".to_string(),
            "p02".to_string(),
            "p03".to_string(),
            "p04".to_string(),
            format!("t{}", cap - 1),
            "e0506".to_string(),
            "p07".to_string(),
            "t2".to_string(),
            format!("i{}", tok(&a)),
            "e01020304".to_string(),
            "c".to_string(),
            format!("e{}", tok(&vec![9u8; cap])),
            "p0a".to_string(),
        ];
        out.push(Case::new("big-capacity", vec![format!("abuf {} {}", cap, ops.join(" "))]).impl_only(cap > 1000));
    }
    let n = if tier.thorough { 600_000 } else { 60_000 } / nw;
    for _ in 0..n {
        let cap = *rng.pick(&[0usize, 1, 2, 3, 5, 8, 16, 64]);
        let nops = rng.range(1, 40);
        let mut ops = Vec::new();
        for _ in 0..nops {
            ops.push(match rng.below(10) {
                0..=3 => format!("p{:02x}", rng.byte()),
                4 | 5 => {
                    let l = match rng.below(4) {
                        0 => 0,
                        1 => rng.below(cap + 3),
                        _ => rng.below(5),
                    };
                    format!("e{}", tok(&(0..l).map(|_| rng.byte()).collect::<Vec<_>>()))
                }
                6 | 7 => format!("t{}", if rng.chance(1, 5) { 1000 } else { rng.below(cap + 2) }),
                8 => (*rng.pick(&["c", "q", "d", "q"])).to_string(),
                _ => {
                    let l = if rng.chance(1, 6) { cap + 1 + rng.below(3) } else { rng.below(cap + 1) };
                    format!("i{}", tok(&(0..l).map(|_| rng.byte()).collect::<Vec<_>>()))
                }
            });
        }
        out.push(Case::new("ops", vec![format!("abuf {} {}", cap, ops.join(" "))]));
    }
}

include!("props_more.rs");

//! counting global allocator: bytes and calls requested by the current thread inside `measure`

use std::alloc::{GlobalAlloc, Layout, System};
use std::cell::Cell;

pub struct Counting;

thread_local! {
    static ACTIVE: Cell<bool> = const { Cell::new(false) };
    static BYTES: Cell<usize> = const { Cell::new(0) };
    static CALLS: Cell<usize> = const { Cell::new(0) };
    // allocation-failure injection (current thread only): while WATCH is set every allocation call is
    // counted in SEEN, and if FAIL is set every one of them returns null
    static WATCH: Cell<bool> = const { Cell::new(false) };
    static FAIL: Cell<bool> = const { Cell::new(false) };
    static SEEN: Cell<usize> = const { Cell::new(0) };
    static HIT: Cell<bool> = const { Cell::new(false) };
}

/// true if this allocation call has to fail
#[inline]
fn inject() -> bool {
    WATCH
        .try_with(|w| {
            if !w.get() {
                return false;
            }
            let _ = SEEN.try_with(|c| c.set(c.get() + 1));
            // every allocation call of the watched window fails (a growth strategy that retries with a
            // smaller request must not turn the injected failure into a success)
            let fail = FAIL.try_with(|f| f.get()).unwrap_or(false);
            if fail {
                let _ = HIT.try_with(|h| h.set(true));
            }
            fail
        })
        .unwrap_or(false)
}

/// start watching the current thread's allocation calls; with `fail` all of them return null
pub fn watch_start(fail: bool) {
    SEEN.with(|c| c.set(0));
    HIT.with(|h| h.set(false));
    FAIL.with(|f| f.set(fail));
    WATCH.with(|w| w.set(true));
}

/// stop watching; returns (allocation calls seen, whether the requested failure was delivered)
pub fn watch_stop(requested: bool) -> (usize, bool) {
    WATCH.with(|w| w.set(false));
    FAIL.with(|f| f.set(false));
    (SEEN.with(|c| c.get()), requested && HIT.with(|h| h.get()))
}

#[inline]
fn note(size: usize) {
    let _ = ACTIVE.try_with(|a| {
        if a.get() {
            let _ = BYTES.try_with(|b| b.set(b.get().saturating_add(size)));
            let _ = CALLS.try_with(|c| c.set(c.get() + 1));
        }
    });
}

unsafe impl GlobalAlloc for Counting {
    unsafe fn alloc(&self, l: Layout) -> *mut u8 {
        if inject() {
            return std::ptr::null_mut();
        }
        note(l.size());
        System.alloc(l)
    }
    unsafe fn dealloc(&self, p: *mut u8, l: Layout) {
        System.dealloc(p, l)
    }
    unsafe fn alloc_zeroed(&self, l: Layout) -> *mut u8 {
        if inject() {
            return std::ptr::null_mut();
        }
        note(l.size());
        System.alloc_zeroed(l)
    }
    unsafe fn realloc(&self, p: *mut u8, l: Layout, new_size: usize) -> *mut u8 {
        if inject() {
            return std::ptr::null_mut();
        }
        note(new_size);
        System.realloc(p, l, new_size)
    }
}

/// run `f`, return (bytes requested, allocation calls, f's result)
pub fn measure<T>(f: impl FnOnce() -> T) -> (usize, usize, T) {
    BYTES.with(|b| b.set(0));
    CALLS.with(|c| c.set(0));
    ACTIVE.with(|a| a.set(true));
    let r = f();
    ACTIVE.with(|a| a.set(false));
    (BYTES.with(|b| b.get()), CALLS.with(|c| c.get()), r)
}

//! Projections (what is compared with the model, per property) and oracles (what decides a
//! concrete violation from the implementation's output alone).

use crate::props::Case;
use crate::spec;
use crate::util::*;

fn has_panic(out: &str) -> bool {
    out.split(|c: char| c == ' ' || c == ';' || c == '[' || c == ']')
        .any(|t| t == "panic" || t.ends_with(":panic") || t == "nonterminating" || t.starts_with("MISMATCH") || t.starts_with("unsupported-capacity") || t == "bad-request")
}

/// `idx:rest` event tokens of a `dec` response
fn dec_events(out: &str) -> Vec<(usize, String)> {
    if out == "-" {
        return vec![];
    }
    out.split(' ')
        .filter_map(|t| {
            let (a, b) = t.split_once(':')?;
            Some((a.parse().ok()?, b.to_string()))
        })
        .collect()
}

fn items(out: &str) -> Vec<String> {
    if out == "-" {
        vec![]
    } else {
        out.split(' ').map(|s| s.to_string()).collect()
    }
}

/// kind of an item / event payload (strip values)
fn kind_of(t: &str) -> &str {
    t.split(':').next().unwrap_or(t)
}

// =============================================================================================
// projection
// =============================================================================================

/// the part of a response that property `prop` depends on; model and implementation are compared on it
pub fn project(prop: &str, line: &str, out: &str) -> String {
    let out = &strip_unpinned(prop, out);
    project_inner(prop, line, out)
}

/// Details of error values that no property pins down are not compared with the model (a change of them is
/// not a reason for an alarm; where a property relates them across front-ends or parsers - C09, C15 - the
/// oracle compares implementation with implementation): the diagnostic fields of `InvalidMessage`
/// (`inv:<read>:<calc>:<misaligned>:<pad>:<badpad>` -> `inv`), and the kind of a parse error
/// (`perr:<kind>` -> `perr`; for C09 also `err:<kind>` -> `err`).
fn strip_unpinned(prop: &str, out: &str) -> String {
    let mut res = String::with_capacity(out.len());
    let mut first = true;
    for t in out.split(' ') {
        if !first {
            res.push(' ');
        }
        first = false;
        if let Some(pos) = t.find("inv:") {
            if pos == 0 || t[..pos].ends_with(':') {
                res.push_str(&t[..pos]);
                res.push_str("inv");
                continue;
            }
        }
        if t.starts_with("perr:") {
            res.push_str("perr");
            continue;
        }
        if prop == "C09" && t.starts_with("err:") {
            res.push_str("err");
            continue;
        }
        res.push_str(t);
    }
    res
}

fn project_inner(prop: &str, line: &str, out: &str) -> String {
    let op = line.split(' ').next().unwrap_or("");
    match prop {
        // soundness: only the delivered payloads and where they were delivered
        "C02" => match op {
            "dec" | "decf" => dec_events(out).into_iter().filter(|(_, e)| e.starts_with("ok:")).map(|(i, e)| format!("{}:{}", i, e)).collect::<Vec<_>>().join(" "),
            _ => items(out).into_iter().filter(|e| e.starts_with("ok:")).collect::<Vec<_>>().join(" "),
        },
        // totality: which calls returned which kind of result (values are other properties' business)
        "C05" => match op {
            "dec" | "decf" => dec_events(out).into_iter().map(|(i, e)| format!("{}:{}", i, kind_of(&e))).collect::<Vec<_>>().join(" "),
            "enc" | "enci" => out.to_string(),
            _ => out.split(' ').map(|t| kind_of(t).to_string()).collect::<Vec<_>>().join(" "),
        },
        // byte accounting: positions and counts of discarded-bytes reports, boundaries
        "C17" => match op {
            "dec" | "decf" => dec_events(out)
                .into_iter()
                .map(|(i, e)| if e.starts_with("ok:") { format!("{}:ok", i) } else if e.starts_with("inv:") { format!("{}:inv", i) } else { format!("{}:{}", i, e) })
                .collect::<Vec<_>>()
                .join(" "),
            _ => out.split(' ').map(|t| if t.starts_with("ok:") { "ok" } else if t.starts_with("inv:") { "inv" } else { t }.to_string()).collect::<Vec<_>>().join(" "),
        },
        // parser soundness / completeness: value or "some error"
        "C03" | "C04" => {
            if op == "parse" {
                if out.starts_with("ok:") {
                    out.to_string()
                } else {
                    "err".to_string()
                }
            } else {
                // streaming: events up to the first error, error kind dropped
                let main = out.split(" | ").next().unwrap_or(out);
                main.split(' ').map(|t| if t.starts_with("err:") { "err" } else { t }).collect::<Vec<_>>().join(" ")
            }
        }
        // parser totality: ok / error / panic
        "C06" => {
            if op == "parse" {
                kind_of(out).to_string()
            } else {
                let main = out.split(" | ").next().unwrap_or(out);
                let last = main.split(' ').last().unwrap_or("");
                format!("{} {}", main.split(' ').count(), kind_of(last))
            }
        }
        // termination: item kinds only
        "C13" => out.split(' ').map(|t| if t.starts_with("err:") { "err" } else if t == "N" || t == "|" || t == "-" { t } else { "ev" }).collect::<Vec<_>>().join(" "),
        _ => out.to_string(),
    }
}

// =============================================================================================
// oracles
// =============================================================================================

pub struct ImplRes<'a> {
    pub text: &'a str,
    pub alloc_bytes: usize,
    pub alloc_calls: usize,
}

/// Err(description) = the property is violated on this concrete case
pub fn oracle(prop: &str, case: &Case, outs: &[ImplRes]) -> Result<(), String> {
    for (l, o) in case.lines.iter().zip(outs) {
        if has_panic(o.text) {
            return Err(format!("implementation panicked / did not terminate / front-ends disagree on `{}`: {}", short(l), short(o.text)));
        }
    }
    match prop {
        "C01" => oracle_c01(case, outs),
        "C02" => oracle_c02(case, outs),
        "C03" => oracle_c03(case, outs),
        "C04" => {
            // decided against the model (proved equivalent to the grammar), see check_case; the
            // implementation-only wrong-arity family has a direct oracle
            if case.family == "wrong-arity" && (outs[0].text.starts_with("ok:") || !outs[1].text.contains("err:")) {
                return Err(format!("a message whose declared list length differs from the number of entries present was accepted: {}", short(outs[0].text)));
            }
            Ok(())
        }
        "C05" => Ok(()),
        "C06" => oracle_c06(case, outs),
        "C07" => oracle_c07(case, outs),
        "C08" => oracle_c08(case, outs),
        "C09" => oracle_c09(case, outs),
        "C10" => oracle_c10(case, outs),
        "C11" => oracle_c11(case, outs),
        "C12" => oracle_c12(case, outs),
        "C13" => oracle_c13(case, outs),
        "C14" => oracle_c14(case, outs),
        "C15" => oracle_c15(case, outs),
        "C16" => oracle_c16(case, outs),
        "C17" => oracle_c17(case, outs),
        "C18" => oracle_c18(case, outs),
        _ => Ok(()),
    }
}

pub fn short(s: &str) -> String {
    if s.len() > 300 {
        let mut k = 300;
        while !s.is_char_boundary(k) {
            k -= 1;
        }
        format!("{}…({} chars)", &s[..k], s.len())
    } else {
        s.to_string()
    }
}

fn expect_eq(what: &str, got: &str, want: &str) -> Result<(), String> {
    if got == want {
        Ok(())
    } else {
        Err(format!("{}: got `{}`, expected `{}`", what, short(got), short(want)))
    }
}

fn oracle_c01(case: &Case, outs: &[ImplRes]) -> Result<(), String> {
    let p = unhex(&case.aux[0]).unwrap();
    let f = spec::frame(&p);
    let (ph, fh) = (hex(&p), hex(&f));
    for (line, o) in case.lines.iter().zip(outs) {
        let toks: Vec<&str> = line.split(' ').collect();
        let op = toks[0];
        let rep = |s: &str, n: usize| vec![s; n].join(" ");
        let want = match op {
            "enc" => format!("ok:{}", fh),
            "enci" => format!("{} {}", fh, "N".repeat(toks[2].parse().unwrap_or(0))),
            "dec" => format!("{}:ok:{} {}:F:-", f.len(), ph, f.len()),
            "decode" => format!("ok:{}", ph),
            "iter" => format!("ok:{} | {}", ph, rep("N", toks[3].parse().unwrap_or(0))),
            "rdr" => format!("ok:{} {}", ph, rep("none", toks[3].len() - 1)),
            _ => continue,
        };
        expect_eq(&format!("round trip via `{}`", op), o.text, &want)?;
    }
    Ok(())
}

fn oracle_c07(case: &Case, outs: &[ImplRes]) -> Result<(), String> {
    let p = unhex(&case.aux[0]).unwrap();
    let f = spec::frame(&p);
    let fh = hex(&f);
    for (line, o) in case.lines.iter().zip(outs) {
        let toks: Vec<&str> = line.split(' ').collect();
        match toks[0] {
            "enc" => {
                let cap = parse_cap(toks[1]).unwrap();
                let fits = cap.map(|c| f.len() <= c).unwrap_or(true);
                let want = if fits { format!("ok:{}", fh) } else { "oom".to_string() };
                expect_eq(&format!("buffer encoder with capacity {}", toks[1]), o.text, &want)?;
            }
            "enci" => expect_eq("iterator encoder", o.text, &format!("{} {}", fh, "N".repeat(toks[2].parse().unwrap_or(0))))?,
            _ => {}
        }
    }
    Ok(())
}

fn is_suffix(hay: &[u8], suf: &[u8]) -> bool {
    hay.len() >= suf.len() && &hay[hay.len() - suf.len()..] == suf
}

fn oracle_c02(case: &Case, outs: &[ImplRes]) -> Result<(), String> {
    let s = unhex(&case.aux[0]).unwrap();
    for (line, o) in case.lines.iter().zip(outs) {
        let op = line.split(' ').next().unwrap();
        if op == "dec" {
            for (i, e) in dec_events(o.text) {
                if let Some(h) = e.strip_prefix("ok:") {
                    let m = unhex(h).ok_or("bad hex")?;
                    if i > s.len() || !is_suffix(&s[..i], &spec::frame(&m)) {
                        return Err(format!("payload {} reported after byte {} but the consumed bytes do not end with its canonical frame", h, i));
                    }
                }
            }
        } else if op == "rdr" {
            // the frame must lie within the bytes between two resetting source events (a frame is never glued
            // together across an I/O error / end-of-input report)
            let toks: Vec<&str> = line.split(' ').collect();
            let kind = toks[1];
            let mut segs: Vec<Vec<u8>> = vec![vec![]];
            for t in &toks[4..] {
                let resets = t.starts_with('O') || t.starts_with('E') || (*t == "I" && kind != "io");
                if resets {
                    segs.push(vec![]);
                } else if *t != "W" && *t != "I" {
                    segs.last_mut().unwrap().extend(untok(t).ok_or("bad token")?);
                }
            }
            for e in items(o.text) {
                if let Some(h) = e.strip_prefix("ok:") {
                    let m = unhex(h).ok_or("bad hex")?;
                    let f = spec::frame(&m);
                    if !segs.iter().any(|sg| spec::contains(sg, &f)) {
                        return Err(format!("reader reported payload {} whose canonical frame does not occur between two resetting source events", h));
                    }
                }
            }
        } else {
            for e in items(o.text) {
                if let Some(h) = e.strip_prefix("ok:") {
                    let m = unhex(h).ok_or("bad hex")?;
                    if !spec::contains(&s, &spec::frame(&m)) {
                        return Err(format!("`{}` reported payload {} whose canonical frame does not occur in the stream", op, h));
                    }
                }
            }
        }
    }
    Ok(())
}

/// independent byte-accounting walker over `dec` events (with F / R ops)
fn tile_check(events: &[(usize, String)]) -> Result<(), String> {
    let mut b = 0usize; // previous boundary
    for (i, e) in events {
        let i = *i;
        let k = kind_of(e);
        match k {
            "disc" => {
                let n: usize = e[5..].parse().map_err(|_| "bad count")?;
                if i < 8 + b || n != i - 8 - b || n == 0 {
                    return Err(format!("discarded-bytes count {} at position {} but {} bytes lie between the previous boundary ({}) and the start sequence", n, i, (i as i64) - 8 - (b as i64), b));
                }
                b = i - 8;
            }
            "ok" | "inv" | "esc" | "oom" => b = i,
            "F" => {
                let rest = &e[2..];
                if rest == "-" {
                    if i != b {
                        return Err(format!("finalize reported nothing at position {} but {} bytes are pending since boundary {}", i, i - b, b));
                    }
                } else if let Some(n) = rest.strip_prefix("disc:") {
                    let n: usize = n.parse().map_err(|_| "bad count")?;
                    if n != i - b || n == 0 {
                        return Err(format!("finalize reported {} discarded bytes at position {}, boundary {}", n, i, b));
                    }
                } else {
                    return Err(format!("unexpected finalize result {}", e));
                }
                b = i;
            }
            "R" => {
                let n: usize = e[2..].parse().map_err(|_| "bad count")?;
                if n != i - b {
                    return Err(format!("reset returned {} at position {}, boundary {}", n, i, b));
                }
                b = i;
            }
            // a new decoder (`Decoder::new` / `Decoder::from_buf`): accounting starts afresh
            "N" | "B" => b = i,
            _ => return Err(format!("unexpected event {}", e)),
        }
    }
    Ok(())
}

fn oracle_c17(case: &Case, outs: &[ImplRes]) -> Result<(), String> {
    for (line, o) in case.lines.iter().zip(outs) {
        let toks: Vec<&str> = line.split(' ').collect();
        if toks[0] == "dec" || toks[0] == "decf" {
            tile_check(&dec_events(o.text))?;
        } else if toks[0] == "rdr" {
            // reader: reconstruct positions from the event tokens
            tile_check_reader(&toks[4..], o.text)?;
        }
    }
    Ok(())
}

/// Reader byte accounting (position-free form): when the input has been read to its end, the lengths of
/// the delivered frames plus all discarded-bytes counts plus the counts attached to I/O errors must
/// add up to the number of bytes the source delivered.  Rejected frames (invalid message / escape /
/// out of memory) do not report their length, so streams with such results are skipped.
fn tile_check_reader(evs: &[&str], out: &str) -> Result<(), String> {
    let mut total = 0usize;
    for t in evs {
        if matches!(*t, "W" | "I") || t.starts_with('O') || t.starts_with('E') {
            continue;
        }
        total += untok(t).map(|b| b.len()).unwrap_or(0);
    }
    // a mid-stream end-of-input report with nothing pending also looks idle: only streams whose single
    // end of input is the real one are checked
    if evs.iter().any(|t| t.starts_with('E')) {
        return Ok(());
    }
    let its = items(out);
    // the run must have reached the end of the input: the last answer is an idle one
    match its.last().map(|s| s.as_str()) {
        Some("none") | Some("io:eof:0") => {}
        _ => return Ok(()),
    }
    let mut sum = 0usize;
    for t in &its {
        if let Some(h) = t.strip_prefix("ok:") {
            sum += spec::frame(&unhex(h).ok_or("bad hex")?).len();
        } else if let Some(n) = t.strip_prefix("disc:") {
            sum += n.parse::<usize>().map_err(|_| "bad count")?;
        } else if t.starts_with("io:") {
            sum += t.rsplit(':').next().and_then(|n| n.parse::<usize>().ok()).ok_or("bad count")?;
        } else if t.starts_with("inv:") || t.starts_with("esc:") || t == "oom" {
            return Ok(());
        }
    }
    if sum != total {
        return Err(format!("reader accounted for {} of the {} bytes the source delivered (frames + discarded counts + I/O error counts)", sum, total));
    }
    Ok(())
}

fn oracle_c15(case: &Case, outs: &[ImplRes]) -> Result<(), String> {
    // reference: push decoder with growable buffer + finalize (first line)
    let ev = dec_events(outs[0].text);
    let mut ref_items: Vec<String> = Vec::new();
    let mut fin: Option<String> = None;
    for (_, e) in &ev {
        if let Some(r) = e.strip_prefix("F:") {
            fin = Some(r.to_string());
        } else {
            ref_items.push(e.clone());
        }
    }
    let fin = fin.unwrap_or("-".into());
    for (line, o) in case.lines.iter().zip(outs).skip(1) {
        let op = line.split(' ').next().unwrap();
        match op {
            "dec" => {
                expect_eq("push decoder with a fixed buffer ≥ stream length", o.text, outs[0].text)?;
            }
            "decode" => {
                let mut want = ref_items.clone();
                if fin != "-" {
                    want.push(fin.clone());
                }
                expect_eq("decode()", &items(o.text).join(" "), &want.join(" "))?;
            }
            "iter" | "iterx" => {
                let mut want = ref_items.clone();
                if fin != "-" {
                    want.push(fin.clone());
                }
                let w = if want.is_empty() { "-".to_string() } else { want.join(" ") };
                let k: usize = line.split(' ').nth(if op == "iterx" { 4 } else { 3 }).and_then(|t| t.parse().ok()).unwrap_or(2);
                expect_eq("decode_streaming()", o.text, &format!("{} | {}", w, vec!["N"; k].join(" ")))?;
            }
            "rdr" => {
                let mut want = ref_items.clone();
                if let Some(n) = fin.strip_prefix("disc:") {
                    want.push(format!("io:eof:{}", n));
                }
                let got = items(o.text);
                if got.len() < want.len() || got[..want.len()] != want[..] || got[want.len()..].iter().any(|t| t != "none") {
                    return Err(format!("reader results `{}` differ from push decoder results `{}` (+ none…)", short(o.text), short(&want.join(" "))));
                }
            }
            _ => {}
        }
    }
    Ok(())
}

fn oracle_c18(case: &Case, outs: &[ImplRes]) -> Result<(), String> {
    let toks: Vec<&str> = case.lines[0].split(' ').collect();
    let n: usize = toks[1].parse().unwrap();
    let mut v: Vec<u8> = Vec::new();
    let got = items(outs[0].text);
    for (k, op) in toks[2..].iter().enumerate() {
        let (c, rest) = op.split_at(1);
        let tag;
        match c {
            "p" => {
                let b = unhex(rest).unwrap()[0];
                if v.len() + 1 <= n {
                    v.push(b);
                    tag = "ok";
                } else {
                    tag = "oom";
                }
            }
            "e" => {
                let bs = untok(rest).unwrap();
                if v.len() + bs.len() <= n {
                    v.extend(bs);
                    tag = "ok";
                } else {
                    tag = "oom";
                }
            }
            "t" => {
                let l: usize = rest.parse().unwrap();
                v.truncate(l);
                tag = "ok";
            }
            "c" => {
                v.clear();
                tag = "ok";
            }
            "q" => {
                match got.get(k) {
                    Some(g) if g == "eq:100" => {}
                    g => return Err(format!("op #{} equality does not depend on the visible contents only: got {:?}, expected eq:100 (equal to a fresh buffer with the same bytes, unequal to different contents)", k, g)),
                }
                continue;
            }
            "d" => {
                let dec = format!("[{}]", v.iter().map(|b| b.to_string()).collect::<Vec<_>>().join(","));
                let hx = format!("[{}]", v.iter().map(|b| format!("{:x}", b)).collect::<Vec<_>>().join(","));
                let want = format!("dbg:{}:{}", dec, hx);
                match got.get(k) {
                    Some(g) if *g == want => {}
                    g => return Err(format!("op #{} Debug output: got {:?}, expected `{}`", k, g, want)),
                }
                continue;
            }
            "i" => {
                let bs = untok(rest).unwrap();
                if bs.len() <= n {
                    v = bs;
                    tag = "ok";
                } else {
                    v.clear();
                    tag = "panic";
                }
            }
            _ => return Ok(()),
        }
        let want = format!("{}|{}", tag, hex_or_dash(&v));
        match got.get(k) {
            Some(g) if *g == want => {}
            g => return Err(format!("op #{} `{}`: got {:?}, ideal bounded vector says `{}`", k, op, g, want)),
        }
    }
    Ok(())
}

include!("oracle_more.rs");

import Sml.Model.Parser
/-
  The SML type-length-field rule, written positionally on `Nat` arithmetic from the SML
  description (not from the accumulating loop in tlf.rs):

  * the field consists of the leading bytes that carry the continuation bit (0x80) plus the
    first byte that does not;
  * type = bits 6..4 of the first byte, must be one of 000 (octet string), 100 (boolean),
    101 (integer), 110 (unsigned), 111 (list); the type bits of all further bytes must be 000;
    a boolean with continuation bit is reserved;
  * the length value is the concatenation of the low nibbles, big endian; it must fit 32 bits
    at every stage;
  * for non-list types the field's own size is part of the value and is subtracted; a negative
    result is an error.
  The first offending byte (in input order) decides the error kind.
-/
namespace Sml.Spec

def nib (b : UInt8) : Nat := b.toNat % 16
def tyBits (b : UInt8) : Nat := b.toNat / 16 % 8
def more (b : UInt8) : Bool := b.toNat ≥ 128

/-- big-endian value of the low nibbles -/
def nibVal (bs : Bytes) : Nat := bs.foldl (fun a b => a * 16 + nib b) 0

def tyOfBits (t : Nat) : Option Ty :=
  if t = 0 then some .octetString else if t = 4 then some .boolean else if t = 5 then some .integer
  else if t = 6 then some .unsigned else if t = 7 then some .listOf else none

/-- what is wrong with continuation byte number `i` (1-based position in the field), if anything -/
def contError (input : Bytes) (i : Nat) : Option PErr :=
  match input[i]? with
  | none => some .unexpectedEOF
  | some b =>
    if tyBits b ≠ 0 then some .tlfNextByteTypeMismatch
    else if nibVal (input.take i) * 16 > u32Max then some .tlfLengthOverflow
    else none

/-- the TLF rule: result is the field `(type, length)` and the number of bytes it occupies -/
def tlfSpec (input : Bytes) : Except PErr (Tlf × Nat) :=
  match input with
  | [] => .error .unexpectedEOF
  | b0 :: _ =>
    match tyOfBits (tyBits b0) with
    | none => .error .tlfInvalidTy
    | some ty =>
      if ty = .boolean ∧ more b0 then .error .tlfReserved
      else
        -- k = number of leading bytes carrying the continuation bit
        let k := (input.takeWhile more).length
        match (List.range' 1 k).findSome? (contError input) with
        | some e => .error e
        | none =>
          let size := k + 1
          let v := nibVal (input.take size)
          if ty = .listOf then .ok ({ ty := ty, len := v }, size)
          else if v < size then .error .tlfLengthUnderflow
          else .ok ({ ty := ty, len := v - size }, size)

end Sml.Spec

import Sml.Spec.TlfSpec
import Sml.Model.Complete
/-
  A declarative reading of the SML grammar (BSI TR-03109-1 Anlage IV "SML", the subset handled by
  sml-rs: open, close and get-list responses) as relations

      Enc<T> (value : T) (bytes : Bytes) : Prop        "`bytes` is an encoding of `value`"

  between an abstract value and EXACTLY the bytes that encode it (nothing remains).  The relations
  are written from the SML description, field by field; they do not mention any parser function.
  They only use

  * the positional type-length-field rule `Spec.tlfSpec` (Sml/Spec/TlfSpec.lean),
  * `beNat` (big-endian value of a byte string), `twos` (two's complement, below),
  * `crc16` / `swap16` (CRC-16/X.25 and byte swap, Sml/Model/Crc.lean),
  * the AST types (`Tlf`, `Time`, `Value`, …, `File`).

  General SML rules stated here:
  * every element starts with a type-length field (TLF); the TLF may span several bytes and need
    not be minimal;
  * an integer field of nominal type Unsigned-N / Integer-N may be transmitted with fewer bytes
    than N/8 (leading bytes dropped), never with zero and never with more;
  * in an optional position the single byte 0x01 means "not present";
  * a sequence is a list TLF carrying the number of elements, followed by the elements in order.
-/
namespace Sml.Spec
open Sml

/-! ### primitive notions -/

/-- big-endian two's-complement value of the bytes sent: the sign is the top bit of the first
    byte; a negative value is the plain value minus 2^(8·number of bytes) -/
def twos (data : Bytes) : Int :=
  match data with
  | [] => 0
  | b0 :: _ =>
    if b0.toNat ≥ 128 then (beNat data : Int) - (2 ^ (8 * data.length) : Nat) else (beNat data : Int)

/-- the standard integer widths in bytes (8, 16, 32, 64 bit) -/
def widths : List Nat := [1, 2, 4, 8]

/-- `size` is the narrowest standard width that holds `w` transmitted bytes -/
def WidthClass (w size : Nat) : Prop :=
  size ∈ widths ∧ w ≤ size ∧ ∀ s ∈ widths, w ≤ s → size ≤ s

/-- SML type-length field: `bs` is a complete TLF denoting (type, length) - any byte string that the
    positional TLF rule reads completely.  Admits multi-byte and non-minimal fields. -/
def EncTlf (t : Tlf) (bs : Bytes) : Prop := tlfSpec bs = .ok (t, bs.length)

/-- SML `Octet String`: TLF (octet string, n) followed by the n bytes themselves -/
def EncOctet (v : Bytes) (bs : Bytes) : Prop :=
  ∃ tl, bs = tl ++ v ∧ EncTlf ⟨.octetString, v.length⟩ tl

/-- SML `Unsigned8/16/32/64` (`size` = 1/2/4/8): TLF (unsigned, w) with 1 ≤ w ≤ size, then w data
    bytes; the value is their plain big-endian value -/
def EncUnsigned (size : Nat) (v : Int) (bs : Bytes) : Prop :=
  ∃ tl data, bs = tl ++ data ∧ EncTlf ⟨.unsigned, data.length⟩ tl ∧
    1 ≤ data.length ∧ data.length ≤ size ∧ v = (beNat data : Int)

/-- SML `Integer8/16/32/64`: TLF (integer, w) with 1 ≤ w ≤ size, then w data bytes; the value is
    their two's-complement value -/
def EncSigned (size : Nat) (v : Int) (bs : Bytes) : Prop :=
  ∃ tl data, bs = tl ++ data ∧ EncTlf ⟨.integer, data.length⟩ tl ∧
    1 ≤ data.length ∧ data.length ≤ size ∧ v = twos data

/-- SML `Boolean`: TLF (boolean, 1) then one byte; false is 0x00, anything else is true -/
def EncBool (b : Bool) (bs : Bytes) : Prop :=
  ∃ tl x, bs = tl ++ [x] ∧ EncTlf ⟨.boolean, 1⟩ tl ∧ b = decide (x ≠ 0)

/-- SML `OPTIONAL`: an absent element is the single byte 0x01; a present element is its own
    encoding, which then must not start with 0x01 (e.g. a present empty octet string needs a
    non-minimal TLF) -/
def EncOpt {α : Type} (enc : α → Bytes → Prop) : Option α → Bytes → Prop
  | Option.none, bs => bs = [0x01]
  | some v, bs => enc v bs ∧ bs.head? ≠ some 0x01

/-- a sequence body: the encodings of the elements, in order, and nothing else -/
inductive EncSeq {α : Type} (enc : α → Bytes → Prop) : List α → Bytes → Prop
  | nil : EncSeq enc [] []
  | cons {x : α} {xs : List α} {e es : Bytes} :
      enc x e → EncSeq enc xs es → EncSeq enc (x :: xs) (e ++ es)

/-! ### common structures -/

/-- SML `SML_Time` (choice, only `secIndex` = tag 1 supported): list of 2: Unsigned8 tag 1, then
    Unsigned32 seconds.  Documented vendor workaround (Holley DTZ541): the bare Unsigned32 with a
    full 4-byte payload, TLF (unsigned, 4), without the surrounding list and tag. -/
def EncTime : Time → Bytes → Prop
  | .secIndex v, bs =>
    (∃ tl tag val, bs = tl ++ tag ++ val ∧ EncTlf ⟨.listOf, 2⟩ tl ∧
        EncUnsigned 1 1 tag ∧ EncUnsigned 4 v val) ∨
    (∃ tl data, bs = tl ++ data ∧ EncTlf ⟨.unsigned, 4⟩ tl ∧ data.length = 4 ∧
        v = (beNat data : Int))

/-- the body (after the list-of-2 TLF) of the `SML_ListType` choice inside `SML_Value`; only the
    `smlTime` alternative (tag 1) is supported: Unsigned8 tag 1, then the `SML_Time` -/
def EncListType : ListType → Bytes → Prop
  | .time t, bs => ∃ tag body, bs = tag ++ body ∧ EncUnsigned 1 1 tag ∧ EncTime t body

/-- SML `SML_Value` (choice by the type of the TLF): Boolean; Octet String; Integer of w = 1..8
    bytes, reported in the narrowest standard width with its two's-complement value; Unsigned
    likewise with the plain value; list of 2 = `SML_ListType` -/
def EncValue : Value → Bytes → Prop
  | .bool b, bs => EncBool b bs
  | .bytes v, bs => EncOctet v bs
  | .int size v, bs =>
    ∃ tl data, bs = tl ++ data ∧ EncTlf ⟨.integer, data.length⟩ tl ∧
      1 ≤ data.length ∧ data.length ≤ 8 ∧ WidthClass data.length size ∧ v = twos data
  | .uns size v, bs =>
    ∃ tl data, bs = tl ++ data ∧ EncTlf ⟨.unsigned, data.length⟩ tl ∧
      1 ≤ data.length ∧ data.length ≤ 8 ∧ WidthClass data.length size ∧ v = (beNat data : Int)
  | .list l, bs => ∃ tl body, bs = tl ++ body ∧ EncTlf ⟨.listOf, 2⟩ tl ∧ EncListType l body

/-- SML `SML_Status` (Unsigned8/16/32/64 choice): TLF (unsigned, w), w = 1..8, then w bytes;
    reported in the narrowest standard width with the plain value -/
def EncStatus : Status → Bytes → Prop
  | .status size v, bs =>
    ∃ tl data, bs = tl ++ data ∧ EncTlf ⟨.unsigned, data.length⟩ tl ∧
      1 ≤ data.length ∧ data.length ≤ 8 ∧ WidthClass data.length size ∧ v = (beNat data : Int)

/-- SML `SML_ListEntry`: list of 7: objName (Octet String), status (OPTIONAL SML_Status), valTime
    (OPTIONAL SML_Time), unit (OPTIONAL Unsigned8), scaler (OPTIONAL Integer8), value (SML_Value),
    valueSignature (OPTIONAL Octet String) -/
def EncListEntry (x : ListEntry) (bs : Bytes) : Prop :=
  ∃ tl b1 b2 b3 b4 b5 b6 b7, bs = tl ++ b1 ++ b2 ++ b3 ++ b4 ++ b5 ++ b6 ++ b7 ∧
    EncTlf ⟨.listOf, 7⟩ tl ∧
    EncOctet x.objName b1 ∧
    EncOpt EncStatus x.status b2 ∧
    EncOpt EncTime x.valTime b3 ∧
    EncOpt (EncUnsigned 1) x.unit b4 ∧
    EncOpt (EncSigned 1) x.scaler b5 ∧
    EncValue x.value b6 ∧
    EncOpt EncOctet x.valueSignature b7

/-- SML `SML_PublicOpen.Res`: list of 6: codepage (OPTIONAL Octet String), clientId (OPTIONAL Octet
    String), reqFileId (Octet String), serverId (Octet String), refTime (OPTIONAL SML_Time),
    smlVersion (OPTIONAL Unsigned8) -/
def EncOpenResponse (x : OpenResponse) (bs : Bytes) : Prop :=
  ∃ tl b1 b2 b3 b4 b5 b6, bs = tl ++ b1 ++ b2 ++ b3 ++ b4 ++ b5 ++ b6 ∧
    EncTlf ⟨.listOf, 6⟩ tl ∧
    EncOpt EncOctet x.codepage b1 ∧
    EncOpt EncOctet x.clientId b2 ∧
    EncOctet x.reqFileId b3 ∧
    EncOctet x.serverId b4 ∧
    EncOpt EncTime x.refTime b5 ∧
    EncOpt (EncUnsigned 1) x.smlVersion b6

/-- SML `SML_PublicClose.Res`: list of 1: globalSignature (OPTIONAL Octet String) -/
def EncCloseResponse (x : CloseResponse) (bs : Bytes) : Prop :=
  ∃ tl b1, bs = tl ++ b1 ∧ EncTlf ⟨.listOf, 1⟩ tl ∧ EncOpt EncOctet x.globalSignature b1

/-- SML `SML_List` (sequence of `SML_ListEntry`): TLF (list, n) followed by the n entries, in order -/
def EncValList (xs : List ListEntry) (bs : Bytes) : Prop :=
  ∃ tl body, bs = tl ++ body ∧ EncTlf ⟨.listOf, xs.length⟩ tl ∧ EncSeq EncListEntry xs body

/-- SML `SML_GetList.Res`: list of 7: clientId (OPTIONAL Octet String), serverId (Octet String),
    listName (OPTIONAL Octet String), actSensorTime (OPTIONAL SML_Time), valList (SML_List),
    listSignature (OPTIONAL Octet String), actGatewayTime (OPTIONAL SML_Time) -/
def EncGetListResponse (x : GetListResponse) (bs : Bytes) : Prop :=
  ∃ tl b1 b2 b3 b4 b5 b6 b7, bs = tl ++ b1 ++ b2 ++ b3 ++ b4 ++ b5 ++ b6 ++ b7 ∧
    EncTlf ⟨.listOf, 7⟩ tl ∧
    EncOpt EncOctet x.clientId b1 ∧
    EncOctet x.serverId b2 ∧
    EncOpt EncOctet x.listName b3 ∧
    EncOpt EncTime x.actSensorTime b4 ∧
    EncValList x.valList b5 ∧
    EncOpt EncOctet x.listSignature b6 ∧
    EncOpt EncTime x.actGatewayTime b7

/-- SML `SML_MessageBody` (choice): list of 2: Unsigned32 tag, then the body selected by the tag:
    0x00000101 `SML_PublicOpen.Res`, 0x00000201 `SML_PublicClose.Res`, 0x00000701 `SML_GetList.Res` -/
def EncMessageBody : MessageBody → Bytes → Prop
  | .openResponse x, bs =>
    ∃ tl tag body, bs = tl ++ tag ++ body ∧ EncTlf ⟨.listOf, 2⟩ tl ∧
      EncUnsigned 4 0x0101 tag ∧ EncOpenResponse x body
  | .closeResponse x, bs =>
    ∃ tl tag body, bs = tl ++ tag ++ body ∧ EncTlf ⟨.listOf, 2⟩ tl ∧
      EncUnsigned 4 0x0201 tag ∧ EncCloseResponse x body
  | .getListResponse x, bs =>
    ∃ tl tag body, bs = tl ++ tag ++ body ∧ EncTlf ⟨.listOf, 2⟩ tl ∧
      EncUnsigned 4 0x0701 tag ∧ EncGetListResponse x body

/-- the checksummed part of an `SML_Message`: TLF (list, 6), transactionId (Octet String), groupNo
    (Unsigned8), abortOnError (Unsigned8), messageBody -/
def EncMessageHead (m : Message) (bs : Bytes) : Prop :=
  ∃ tl b1 b2 b3 b4, bs = tl ++ b1 ++ b2 ++ b3 ++ b4 ∧
    EncTlf ⟨.listOf, 6⟩ tl ∧
    EncOctet m.transactionId b1 ∧
    EncUnsigned 1 m.groupNo b2 ∧
    EncUnsigned 1 m.abortOnError b3 ∧
    EncMessageBody m.messageBody b4

/-- SML `SML_Message`: list of 6: the four fields of `EncMessageHead`, then crc16 (Unsigned16) and
    endOfSmlMsg (the byte 0x00).  The checksum is CRC-16/X.25 over all bytes of the message before
    the checksum field, transmitted low byte first (i.e. the field's big-endian value is the
    byte-swapped CRC). -/
def EncMessage (m : Message) (bs : Bytes) : Prop :=
  ∃ head crcField, bs = head ++ crcField ++ [0x00] ∧
    EncMessageHead m head ∧
    EncUnsigned 2 ((swap16 (crc16 head)).toNat : Int) crcField

/-- SML file (the payload of one transmission): the messages one after the other, nothing else -/
def EncFile (F : File) (bs : Bytes) : Prop := EncSeq EncMessage F.messages bs

end Sml.Spec

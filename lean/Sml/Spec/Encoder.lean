import Sml.Spec.Grammar
/-
  A canonical ENCODER for the supported SML subset and the well-formedness predicate `WFFile`
  ("every field is in the range of its Rust type and short enough to have a type-length field").

  Purpose (closes review gap M2): `C03.complete : EncFile F x → parseFile x = .ok F` and `C04.iff`
  make the grammar `EncFile` exactly the language of the parser, so a grammar that was too NARROW
  would be invisible.  The theorems in Sml/Props/C03Enc.lean show that it is not:

    * `enc_sound`  : every well-formed file `F` has, for every setting `c` of the encoding choices,
                     the encoding `encFile c F` in the grammar (hence both parsers return `F` on it),
    * `enc_wf`     : conversely whatever the grammar (hence the parser) relates to some bytes is
                     well-formed - the AST types of the model use unbounded `Int` / `Nat`, `WFFile`
                     cuts them down to exactly what the Rust types `u8`/`i8`/…/`u64`/`i64` hold.

  This file is parser-free: it mentions no parser function, only the AST types, `crc16`, `swap16`
  and `u32Max`.  The encoder is a plain computable function (structural recursion, no fuel that
  can run out on well-formed input).

  Encoding CHOICES.  The grammar admits several encodings of one value; `FieldChoice` selects one
  per field, independently for every field of every element (`Choices` mirrors the AST):

    * `tlfExtra` : number of extra leading continuation bytes (`0x80`, zero nibble) in the field's
                   type-length fields, on top of the shortest form.  (Cut down where the value of
                   the longer field would not fit 32 bits any more; raised to ≥ 1 for a PRESENT
                   empty optional octet string, whose shortest form `01` means "absent".)
    * `width`    : requested number of data bytes of an integer; clamped to the admissible range
                   [fewest bytes that hold the value, nominal size] (for the width-class carrying
                   `SML_Value` / `SML_Status` integers: [max(fewest, size/2+1), size]).
                   `0` = fewest bytes, `8` = always the nominal size.
    * `timeWorkaround` : `SML_Time` as the bare 4-byte Unsigned32 (vendor workaround) instead of
                   the list form (tag, seconds).
    * the checksum field is an Unsigned16 like any other: `width = 0` sends it in 1 byte when its
      value is below 256.
-/
namespace Sml.Spec
open Sml

/-! ### 1. well-formedness: the value ranges of the Rust types -/

/-- `v` is a value of the unsigned Rust integer type of `size` bytes (`u8`/`u16`/`u32`/`u64`) -/
def InUns (size : Nat) (v : Int) : Prop := 0 ≤ v ∧ v < ((2 ^ (8 * size) : Nat) : Int)

/-- `v` is a value of the signed Rust integer type of `size` bytes (`i8`/`i16`/`i32`/`i64`) -/
def InInt (size : Nat) (v : Int) : Prop :=
  -((2 ^ (8 * size - 1) : Nat) : Int) ≤ v ∧ v < ((2 ^ (8 * size - 1) : Nat) : Int)

instance (size : Nat) (v : Int) : Decidable (InUns size v) := by unfold InUns; infer_instance
instance (size : Nat) (v : Int) : Decidable (InInt size v) := by unfold InInt; infer_instance

/-- an octet string that can be announced by a type-length field: the field counts itself, so
    length + field size (at most 8 bytes are ever needed) must fit 32 bits: length < 2^32 - 8.
    (`&[u8]` itself has no such bound; longer strings have NO encoding, see `C03.enc_wf`.) -/
def WFOctet (bs : Bytes) : Prop := bs.length + 8 ≤ u32Max

instance (bs : Bytes) : Decidable (WFOctet bs) := by unfold WFOctet; infer_instance

/-- an optional field: nothing to check when absent -/
def WFOpt {α : Type} (P : α → Prop) : Option α → Prop
  | Option.none => True
  | some a => P a

instance {α : Type} (P : α → Prop) [DecidablePred P] : DecidablePred (WFOpt P) := fun o => by
  cases o <;> unfold WFOpt <;> infer_instance

/-- `Time::SecIndex(u32)` -/
def WFTime : Time → Prop
  | .secIndex v => InUns 4 v

instance : DecidablePred WFTime := fun t => by cases t; unfold WFTime; infer_instance

/-- `Status8(u8)` … `Status64(u64)` -/
def WFStatus : Status → Prop
  | .status size v => size ∈ widths ∧ InUns size v

instance : DecidablePred WFStatus := fun s => by cases s; unfold WFStatus; infer_instance

/-- `Value`: `Bool`, `Bytes`, `I8`…`I64`, `U8`…`U64`, `List(ListType::Time)` -/
def WFValue : Value → Prop
  | .bool _ => True
  | .bytes bs => WFOctet bs
  | .int size v => size ∈ widths ∧ InInt size v
  | .uns size v => size ∈ widths ∧ InUns size v
  | .list (.time t) => WFTime t

instance : DecidablePred WFValue := fun v => by
  cases v with
  | list l => cases l; unfold WFValue; infer_instance
  | _ => unfold WFValue <;> infer_instance

/-- `ListEntry`: `unit: Option<u8>`, `scaler: Option<i8>` -/
def WFEntry (x : ListEntry) : Prop :=
  WFOctet x.objName ∧ WFOpt WFStatus x.status ∧ WFOpt WFTime x.valTime ∧
  WFOpt (InUns 1) x.unit ∧ WFOpt (InInt 1) x.scaler ∧ WFValue x.value ∧
  WFOpt WFOctet x.valueSignature

instance : DecidablePred WFEntry := fun x => by unfold WFEntry; infer_instance

/-- `OpenResponse`: `sml_version: Option<u8>` -/
def WFOpen (x : OpenResponse) : Prop :=
  WFOpt WFOctet x.codepage ∧ WFOpt WFOctet x.clientId ∧ WFOctet x.reqFileId ∧
  WFOctet x.serverId ∧ WFOpt WFTime x.refTime ∧ WFOpt (InUns 1) x.smlVersion

instance : DecidablePred WFOpen := fun x => by unfold WFOpen; infer_instance

def WFClose (x : CloseResponse) : Prop := WFOpt WFOctet x.globalSignature

instance : DecidablePred WFClose := fun x => by unfold WFClose; infer_instance

/-- `GetListResponse`: the number of values is announced by a list type-length field, whose
    value must fit 32 bits -/
def WFGetList (x : GetListResponse) : Prop :=
  WFOpt WFOctet x.clientId ∧ WFOctet x.serverId ∧ WFOpt WFOctet x.listName ∧
  WFOpt WFTime x.actSensorTime ∧ (x.valList.length ≤ u32Max ∧ ∀ e ∈ x.valList, WFEntry e) ∧
  WFOpt WFOctet x.listSignature ∧ WFOpt WFTime x.actGatewayTime

instance : DecidablePred WFGetList := fun x => by unfold WFGetList; infer_instance

def WFBody : MessageBody → Prop
  | .openResponse x => WFOpen x
  | .closeResponse x => WFClose x
  | .getListResponse x => WFGetList x

instance : DecidablePred WFBody := fun b => by cases b <;> unfold WFBody <;> infer_instance

/-- `Message`: `group_no: u8`, `abort_on_error: u8` -/
def WFMessage (m : Message) : Prop :=
  WFOctet m.transactionId ∧ InUns 1 m.groupNo ∧ InUns 1 m.abortOnError ∧ WFBody m.messageBody

instance : DecidablePred WFMessage := fun m => by unfold WFMessage; infer_instance

/-- a file whose every field is in the range of its Rust type and short enough to be announced
    by a type-length field (any number of messages) -/
def WFFile (F : File) : Prop := ∀ m ∈ F.messages, WFMessage m

instance : DecidablePred WFFile := fun F => by unfold WFFile; infer_instance

/-! ### 2. encoding choices -/

/-- how one field is put on the wire (components that do not apply to a field are ignored) -/
structure FieldChoice where
  /-- extra leading continuation bytes in the type-length field(s) -/
  tlfExtra : Nat := 0
  /-- requested number of integer data bytes (clamped to the admissible range) -/
  width : Nat := 8
  /-- `SML_Time` as bare Unsigned32 instead of the list form -/
  timeWorkaround : Bool := false
  deriving Repr, DecidableEq

structure EntryChoices where
  tlf : FieldChoice
  objName : FieldChoice
  status : FieldChoice
  valTime : FieldChoice
  unit : FieldChoice
  scaler : FieldChoice
  value : FieldChoice
  valueSignature : FieldChoice

structure OpenChoices where
  tlf : FieldChoice
  codepage : FieldChoice
  clientId : FieldChoice
  reqFileId : FieldChoice
  serverId : FieldChoice
  refTime : FieldChoice
  smlVersion : FieldChoice

structure CloseChoices where
  tlf : FieldChoice
  globalSignature : FieldChoice

structure GetListChoices where
  tlf : FieldChoice
  clientId : FieldChoice
  serverId : FieldChoice
  listName : FieldChoice
  actSensorTime : FieldChoice
  valListTlf : FieldChoice
  /-- choices of the i-th list entry -/
  entries : Nat → EntryChoices
  listSignature : FieldChoice
  actGatewayTime : FieldChoice

structure MessageChoices where
  tlf : FieldChoice
  transactionId : FieldChoice
  groupNo : FieldChoice
  abortOnError : FieldChoice
  bodyTlf : FieldChoice
  bodyTag : FieldChoice
  /-- used when the body is an open / close / get-list response, respectively -/
  openRes : OpenChoices
  closeRes : CloseChoices
  getListRes : GetListChoices
  /-- the checksum field (Unsigned16): `width = 0` sends 1 byte when the value is below 256 -/
  crc : FieldChoice

/-- choices of the i-th message of a file -/
abbrev Choices := Nat → MessageChoices

def EntryChoices.uniform (f : FieldChoice) : EntryChoices := ⟨f, f, f, f, f, f, f, f⟩
def OpenChoices.uniform (f : FieldChoice) : OpenChoices := ⟨f, f, f, f, f, f, f⟩
def CloseChoices.uniform (f : FieldChoice) : CloseChoices := ⟨f, f⟩
def GetListChoices.uniform (f : FieldChoice) : GetListChoices :=
  ⟨f, f, f, f, f, f, fun _ => .uniform f, f, f⟩
def MessageChoices.uniform (f : FieldChoice) : MessageChoices :=
  ⟨f, f, f, f, f, f, .uniform f, .uniform f, .uniform f, f⟩
/-- the same choice for every field of every message -/
def Choices.uniform (f : FieldChoice) : Choices := fun _ => .uniform f

/-- shortest type-length fields, every integer in its nominal width, list-form time, 2-byte CRC -/
def Choices.canonical : Choices := .uniform {}

/-! ### 3. type-length fields -/

/-- the three type bits -/
def tyCode : Ty → Nat
  | .octetString => 0
  | .boolean => 4
  | .integer => 5
  | .unsigned => 6
  | .listOf => 7

/-- one byte of a type-length field: continuation bit, type bits, low nibble of `nibble` -/
def tlfByte (more : Bool) (tyBits nibble : Nat) : UInt8 :=
  UInt8.ofNat ((if more then 128 else 0) + tyBits * 16 + nibble % 16)

/-- the last `n` bytes of a field with value `v`: type bits 000, nibbles of `v`, big endian,
    continuation bit on all but the last -/
def tlfTail (v : Nat) : Nat → Bytes
  | 0 => []
  | n + 1 => tlfByte (n ≠ 0) 0 (v / 16 ^ n) :: tlfTail v n

/-- the type-length field of `m + 1` bytes with type `ty` and nibble value `v` -/
def tlfField (ty : Ty) (m v : Nat) : Bytes :=
  tlfByte (m ≠ 0) (tyCode ty) (v / 16 ^ m) :: tlfTail v m

/-- search for the least field size `n` (from `n`, at most `fuel` steps) whose `n` nibbles hold
    the value: `len + n` if the field counts itself (`self`), `len` for lists -/
def tlfSizeFrom (self : Bool) (len : Nat) : Nat → Nat → Nat
  | 0, n => n
  | fuel + 1, n =>
    if len + (if self then n else 0) < 16 ^ n then n else tlfSizeFrom self len fuel (n + 1)

/-- shortest field size (1 … 8) -/
def tlfSize (self : Bool) (len : Nat) : Nat := tlfSizeFrom self len 7 1

/-- type-length field for `(ty, len)` with `extra` additional leading continuation bytes.  For the
    non-list types the announced value is `len` + the size of the field itself, which must fit
    32 bits: only as many of the extra bytes as fit are added.  (Not used for Boolean, see
    `encBool`.) -/
def encTlf (extra : Nat) (ty : Ty) (len : Nat) : Bytes :=
  if ty = .listOf then tlfField ty (tlfSize false len - 1 + extra) len
  else
    let n := tlfSize true len
    let k := min extra (u32Max - (len + n))
    tlfField ty (n - 1 + k) (len + n + k)

/-! ### 4. primitive values -/

/-- the `w` low-order bytes of `n`, big endian -/
def toBe : Nat → Nat → Bytes
  | 0, _ => []
  | w + 1, n => UInt8.ofNat (n / 256 ^ w) :: toBe w n

/-- fewest bytes (1 … 8) whose plain value can be `n` -/
def minWidthU (n : Nat) : Nat :=
  if n < 256 then 1 else if n < 256 ^ 2 then 2 else if n < 256 ^ 3 then 3
  else if n < 256 ^ 4 then 4 else if n < 256 ^ 5 then 5 else if n < 256 ^ 6 then 6
  else if n < 256 ^ 7 then 7 else 8

/-- fewest bytes (1 … 8) whose two's-complement value can be `v` -/
def minWidthS (v : Int) : Nat :=
  if -128 ≤ v ∧ v < 128 then 1
  else if -(2 : Int) ^ 15 ≤ v ∧ v < (2 : Int) ^ 15 then 2
  else if -(2 : Int) ^ 23 ≤ v ∧ v < (2 : Int) ^ 23 then 3
  else if -(2 : Int) ^ 31 ≤ v ∧ v < (2 : Int) ^ 31 then 4
  else if -(2 : Int) ^ 39 ≤ v ∧ v < (2 : Int) ^ 39 then 5
  else if -(2 : Int) ^ 47 ≤ v ∧ v < (2 : Int) ^ 47 then 6
  else if -(2 : Int) ^ 55 ≤ v ∧ v < (2 : Int) ^ 55 then 7
  else 8

/-- the requested width, moved into [lo, hi] -/
def clampWidth (lo hi req : Nat) : Nat := min hi (max lo req)

/-- the `w`-byte two's-complement representation of `v`: `v mod 2^(8w)`, big endian -/
def toBeSigned (w : Nat) (v : Int) : Bytes := toBe w (v % ((256 ^ w : Nat) : Int)).toNat

def encOctet (c : FieldChoice) (v : Bytes) : Bytes :=
  encTlf c.tlfExtra .octetString v.length ++ v

/-- Unsigned8/16/32/64 (`size` = 1/2/4/8) in any width from the fewest bytes to `size` -/
def encUnsigned (c : FieldChoice) (size : Nat) (v : Int) : Bytes :=
  let w := clampWidth (minWidthU v.toNat) size c.width
  encTlf c.tlfExtra .unsigned w ++ toBe w v.toNat

/-- Integer8/16/32/64 -/
def encSigned (c : FieldChoice) (size : Nat) (v : Int) : Bytes :=
  let w := clampWidth (minWidthS v) size c.width
  encTlf c.tlfExtra .integer w ++ toBeSigned w v

/-- Boolean: the only admissible field is `42` (a Boolean field may not be continued) -/
def encBool (b : Bool) : Bytes := [0x42, if b then 0x01 else 0x00]

/-- an absent optional element -/
def encNone : Bytes := [0x01]

def encOpt {α : Type} (enc : α → Bytes) : Option α → Bytes
  | Option.none => encNone
  | some v => enc v

/-- OPTIONAL Octet String; a present empty string gets at least one extra field byte (`80 02`),
    because its shortest form `01` is the "absent" marker -/
def encOptOctet (c : FieldChoice) : Option Bytes → Bytes
  | Option.none => encNone
  | some v => encOctet (if v.isEmpty then { c with tlfExtra := max 1 c.tlfExtra } else c) v

/-! ### 5. common structures -/

def encTime (c : FieldChoice) : Time → Bytes
  | .secIndex v =>
    if c.timeWorkaround then encTlf c.tlfExtra .unsigned 4 ++ toBe 4 v.toNat
    else encTlf c.tlfExtra .listOf 2 ++ encUnsigned c 1 1 ++ encUnsigned c 4 v

/-- width of an integer whose width CLASS is part of the value (`SML_Value`, `SML_Status`): the
    class `size` is the narrowest standard width ≥ the number of bytes sent, so the bytes sent
    must be more than `size / 2` -/
def classWidth (c : FieldChoice) (size fewest : Nat) : Nat :=
  clampWidth (max fewest (size / 2 + 1)) size c.width

def encValue (c : FieldChoice) : Value → Bytes
  | .bool b => encBool b
  | .bytes v => encOctet c v
  | .int size v =>
    let w := classWidth c size (minWidthS v)
    encTlf c.tlfExtra .integer w ++ toBeSigned w v
  | .uns size v =>
    let w := classWidth c size (minWidthU v.toNat)
    encTlf c.tlfExtra .unsigned w ++ toBe w v.toNat
  | .list (.time t) => encTlf c.tlfExtra .listOf 2 ++ (encUnsigned c 1 1 ++ encTime c t)

def encStatus (c : FieldChoice) : Status → Bytes
  | .status size v =>
    let w := classWidth c size (minWidthU v.toNat)
    encTlf c.tlfExtra .unsigned w ++ toBe w v.toNat

def encEntry (c : EntryChoices) (x : ListEntry) : Bytes :=
  encTlf c.tlf.tlfExtra .listOf 7 ++ encOctet c.objName x.objName ++
  encOpt (encStatus c.status) x.status ++ encOpt (encTime c.valTime) x.valTime ++
  encOpt (encUnsigned c.unit 1) x.unit ++ encOpt (encSigned c.scaler 1) x.scaler ++
  encValue c.value x.value ++ encOptOctet c.valueSignature x.valueSignature

def encOpen (c : OpenChoices) (x : OpenResponse) : Bytes :=
  encTlf c.tlf.tlfExtra .listOf 6 ++ encOptOctet c.codepage x.codepage ++
  encOptOctet c.clientId x.clientId ++ encOctet c.reqFileId x.reqFileId ++
  encOctet c.serverId x.serverId ++ encOpt (encTime c.refTime) x.refTime ++
  encOpt (encUnsigned c.smlVersion 1) x.smlVersion

def encClose (c : CloseChoices) (x : CloseResponse) : Bytes :=
  encTlf c.tlf.tlfExtra .listOf 1 ++ encOptOctet c.globalSignature x.globalSignature

/-- the entries one after the other, the i-th with the choices `c i` -/
def encEntries : (Nat → EntryChoices) → List ListEntry → Bytes
  | _, [] => []
  | c, x :: xs => encEntry (c 0) x ++ encEntries (fun i => c (i + 1)) xs

def encValList (ct : FieldChoice) (c : Nat → EntryChoices) (xs : List ListEntry) : Bytes :=
  encTlf ct.tlfExtra .listOf xs.length ++ encEntries c xs

def encGetList (c : GetListChoices) (x : GetListResponse) : Bytes :=
  encTlf c.tlf.tlfExtra .listOf 7 ++ encOptOctet c.clientId x.clientId ++
  encOctet c.serverId x.serverId ++ encOptOctet c.listName x.listName ++
  encOpt (encTime c.actSensorTime) x.actSensorTime ++
  encValList c.valListTlf c.entries x.valList ++
  encOptOctet c.listSignature x.listSignature ++
  encOpt (encTime c.actGatewayTime) x.actGatewayTime

/-! ### 6. messages and files -/

def encBody (c : MessageChoices) : MessageBody → Bytes
  | .openResponse x =>
    encTlf c.bodyTlf.tlfExtra .listOf 2 ++ encUnsigned c.bodyTag 4 0x0101 ++ encOpen c.openRes x
  | .closeResponse x =>
    encTlf c.bodyTlf.tlfExtra .listOf 2 ++ encUnsigned c.bodyTag 4 0x0201 ++ encClose c.closeRes x
  | .getListResponse x =>
    encTlf c.bodyTlf.tlfExtra .listOf 2 ++ encUnsigned c.bodyTag 4 0x0701 ++
      encGetList c.getListRes x

/-- the checksummed part of a message -/
def encMessageHead (c : MessageChoices) (m : Message) : Bytes :=
  encTlf c.tlf.tlfExtra .listOf 6 ++ encOctet c.transactionId m.transactionId ++
  encUnsigned c.groupNo 1 m.groupNo ++ encUnsigned c.abortOnError 1 m.abortOnError ++
  encBody c m.messageBody

/-- head, then the CRC-16/X.25 of the head, byte-swapped, as an Unsigned16, then the end marker -/
def encMessage (c : MessageChoices) (m : Message) : Bytes :=
  let head := encMessageHead c m
  head ++ encUnsigned c.crc 2 ((swap16 (crc16 head)).toNat : Int) ++ [0x00]

/-- the messages one after the other, the i-th with the choices `c i` -/
def encMessages : Choices → List Message → Bytes
  | _, [] => []
  | c, m :: ms => encMessage (c 0) m ++ encMessages (fun i => c (i + 1)) ms

def encFile (c : Choices) (F : File) : Bytes := encMessages c F.messages

end Sml.Spec

import Sml.Model.Crc
/-
  The SML Transport Protocol v1 wire format, written from the protocol description
  (src/transport/mod.rs docs; SML 1.04 §8), not from the encoder/decoder code:

      frame p = 1b1b1b1b 01010101
             ++ p with 1b1b1b1b inserted after every fourth consecutive 0x1b
             ++ 0..3 zero bytes up to the next multiple of four
             ++ 1b1b1b1b 1a <pad count>
             ++ CRC-16/X.25 of everything before, little endian
-/
namespace Sml.Spec

def ESC : List UInt8 := [0x1b, 0x1b, 0x1b, 0x1b]
def START : List UInt8 := [0x1b, 0x1b, 0x1b, 0x1b, 0x01, 0x01, 0x01, 0x01]

/-- escape stuffing; `n` = length (0..3) of the run of 0x1b bytes just emitted -/
def stuffFrom (n : Nat) : List UInt8 → List UInt8
  | [] => []
  | b :: bs =>
    if b = 0x1b then
      if n = 3 then 0x1b :: (ESC ++ stuffFrom 0 bs) else 0x1b :: stuffFrom (n + 1) bs
    else b :: stuffFrom 0 bs

/-- "insert 1b1b1b1b after every fourth consecutive 0x1b" -/
def stuff (p : List UInt8) : List UInt8 := stuffFrom 0 p

/-- number of zero bytes needed to reach the next multiple of four -/
def padLen (n : Nat) : Nat := (4 - n % 4) % 4

/-- everything before the checksum -/
def framePrefix (p : List UInt8) : List UInt8 :=
  let body := START ++ stuff p
  let k := padLen body.length
  body ++ List.replicate k 0 ++ ESC ++ [0x1a, UInt8.ofNat k]

/-- the canonical Transport-v1 frame of payload `p` -/
def frame (p : List UInt8) : List UInt8 :=
  let pre := framePrefix p
  pre ++ le16 (crc16 pre)

/-- run counter after emitting `bs` starting from counter `n` (used to state lemmas) -/
def ctr (n : Nat) : List UInt8 → Nat
  | [] => n
  | b :: bs => if b = 0x1b then (if n = 3 then ctr 0 bs else ctr (n + 1) bs) else ctr 0 bs

end Sml.Spec

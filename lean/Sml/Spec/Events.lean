import Sml.Model.Streaming
/-
  Specification of the event stream of the streaming parser (used by property C09).

  The events of a file follow the grammar

      ( MsgStart_nonlist  |  MsgStart_list(n) · Entry^n · End )*

  where `MsgStart_nonlist` is a `messageStart` whose body is an open or close response (the whole
  message), and `MsgStart_list(n)` is a `messageStart` whose body is the start of a list response
  announcing `n = numVals` values.  `reassemble` turns such an event sequence back into the list of
  messages of the allocating parser; anything outside the grammar gives `none`.

  Everything here is independent of the parsers: it only mentions the event and message types.
-/
namespace Sml.Spec
open Sml

/-- the message made of the envelope fields of a start event and a complete body -/
def mkMessage (m : MessageStart) (b : MessageBody) : Message :=
  { transactionId := m.transactionId, groupNo := m.groupNo, abortOnError := m.abortOnError,
    messageBody := b }

/-- a list response from its start event, its value events and its end event -/
def mkGlr (g : GetListResponseStart) (es : List ListEntry) (e : GetListResponseEnd) :
    GetListResponse :=
  { clientId := g.clientId, serverId := g.serverId, listName := g.listName,
    actSensorTime := g.actSensorTime, valList := es,
    listSignature := e.listSignature, actGatewayTime := e.actGatewayTime }

/-- reassembler state inside a list response -/
structure OpenList where
  start : MessageStart
  glr : GetListResponseStart
  /-- value events still expected before the end event -/
  missing : Nat
  /-- values seen so far, most recent first -/
  acc : List ListEntry

/-- Reassemble events into messages, starting between messages (`none`) or inside a list
    response (`some o`).  With `complete = true` the sequence must end between messages; with
    `complete = false` it may stop anywhere (a run cut short by an error) and the unfinished
    message is dropped. -/
def reassembleFrom (complete : Bool) : Option OpenList → List ParseEvent → Option (List Message)
  | Option.none, [] => some []
  | some _, [] => if complete then Option.none else some []
  | Option.none, .messageStart m :: evs =>
    match m.messageBody with
    | .openResponse o =>
      (reassembleFrom complete Option.none evs).map (mkMessage m (.openResponse o) :: ·)
    | .closeResponse c =>
      (reassembleFrom complete Option.none evs).map (mkMessage m (.closeResponse c) :: ·)
    | .getListResponse g =>
      reassembleFrom complete (some { start := m, glr := g, missing := g.numVals, acc := [] }) evs
  | some o, .listEntry e :: evs =>
    match o.missing with
    | k + 1 => reassembleFrom complete (some { o with missing := k, acc := e :: o.acc }) evs
    | 0 => Option.none
  | some o, .getListResponseEnd e :: evs =>
    if o.missing = 0 then
      (reassembleFrom complete Option.none evs).map
        (mkMessage o.start (.getListResponse (mkGlr o.glr o.acc.reverse e)) :: ·)
    else Option.none
  | _, _ => Option.none

/-- a `messageStart` with open/close body becomes a message; a `messageStart` with a list-response
    start `g` must be followed by exactly `g.numVals` `listEntry` events and one
    `getListResponseEnd`; anything else gives `none` -/
def reassemble (evs : List ParseEvent) : Option (List Message) := reassembleFrom true Option.none evs

/-- the messages completed within a prefix of an event sequence (an unfinished last message is
    dropped); `none` if the prefix already violates the grammar -/
def reassemblePrefix (evs : List ParseEvent) : Option (List Message) :=
  reassembleFrom false Option.none evs

/-- recognizer of the grammar; the state is the number of value events still expected (`none`
    between messages) -/
def wfFrom (complete : Bool) : Option Nat → List ParseEvent → Bool
  | Option.none, [] => true
  | some _, [] => !complete
  | Option.none, .messageStart m :: evs =>
    match m.messageBody with
    | .getListResponse g => wfFrom complete (some g.numVals) evs
    | _ => wfFrom complete Option.none evs
  | some (k + 1), .listEntry _ :: evs => wfFrom complete (some k) evs
  | some 0, .getListResponseEnd _ :: evs => wfFrom complete Option.none evs
  | _, _ => false

/-- `(MsgStart_nonlist | MsgStart_list n · Entry^n · End)*` -/
def WellFormedEvents (evs : List ParseEvent) : Prop := wfFrom true Option.none evs = true

/-- a prefix of a well-formed sequence (a run cut by an error) -/
def WellFormedPrefix (evs : List ParseEvent) : Prop := wfFrom false Option.none evs = true

instance (evs : List ParseEvent) : Decidable (WellFormedEvents evs) := by
  unfold WellFormedEvents; infer_instance
instance (evs : List ParseEvent) : Decidable (WellFormedPrefix evs) := by
  unfold WellFormedPrefix; infer_instance

/-- the grammar as an inductive predicate (declarative reading of `WellFormedEvents`) -/
inductive Grammar : List ParseEvent → Prop
  | nil : Grammar []
  | nonlist (m : MessageStart) (rest : List ParseEvent)
      (h : ∀ g, m.messageBody ≠ .getListResponse g) (hr : Grammar rest) :
      Grammar (.messageStart m :: rest)
  | list (m : MessageStart) (g : GetListResponseStart) (es : List ListEntry)
      (e : GetListResponseEnd) (rest : List ParseEvent)
      (h : m.messageBody = .getListResponse g) (hn : es.length = g.numVals) (hr : Grammar rest) :
      Grammar (.messageStart m :: (es.map .listEntry ++ .getListResponseEnd e :: rest))

end Sml.Spec

import Sml.Model.Frontends
/-
  Tiling of the input stream by the decoder's reports (property C17), written as an independent
  walker over the per-byte outputs.  The walker only looks at *positions*:

    `b` = position (number of bytes from the beginning of the stream) of the previous boundary,
    `i` = number of bytes consumed so far.

  Every report is checked against these two numbers alone; nothing of the decoder's internal
  state (`raw_msg_len`, `num_discarded_bytes`, ...) is consulted.

    * `Out.none`                       : nothing reported, the boundary stays.
    * `Err(DiscardedBytes(n))`         : reported by the byte that completes a start sequence
                                         `1b1b1b1b 01010101`; that start sequence occupies the
                                         positions `i+1-8 .. i+1`.  The discarded range is
                                         `b .. i+1-8`, so `n` must be exactly `i+1-8-b`, and it is
                                         only reported when non-empty.  New boundary: `i+1-8`
                                         (the frame that has just started).
    * `Ok(Some(payload))`, `InvalidMessage`, `InvalidEsc`, `OutOfMemory`
                                       : the frame that started at `b` ends here (delivered or
                                         rejected); it covers `b .. i+1`.  New boundary: `i+1`.
    * a panic                          : never acceptable.

  At the end of input `finalize` must report exactly the bytes after the last boundary
  (`DiscardedBytes(len - b)`), and nothing if there are none.  `reset` must return that number.
-/
namespace Sml.Spec

/-- what the output for the byte at position `i` means; result: the new boundary,
`none` = the report contradicts the positions -/
def tileStep (b i : Nat) : Out → Option Nat
  | .none => some b
  | .err (.discarded n) =>
    if 8 + b ≤ i + 1 ∧ n = i + 1 - 8 - b ∧ 0 < n then some (i + 1 - 8) else Option.none
  | .msg _ => some (i + 1)
  | .err _ => some (i + 1)
  | .panic _ => Option.none

/-- walk over the per-byte outputs; result: the last boundary, `none` = some report was wrong -/
def tileFrom (b i : Nat) : List Out → Option Nat
  | [] => some b
  | o :: os =>
    match tileStep b i o with
    | some b' => tileFrom b' (i + 1) os
    | Option.none => Option.none

/-- all per-byte reports are consistent with the positions -/
def tileOk (b i : Nat) (os : List Out) : Bool := (tileFrom b i os).isSome

/-- the result of `finalize` after `len` bytes with last boundary `b` -/
def tileEnd (b len : Nat) : Option DecErr → Bool
  | Option.none => b = len
  | some (.discarded n) => b + n = len ∧ 0 < n
  | some _ => false

/-- the value returned by `reset` after `len` bytes with last boundary `b` -/
def tileReset (b len n : Nat) : Bool := b + n = len

/-- histories with `finalize` / `reset` calls (and replacements of the decoder by `new` /
`from_buf`) in between: all of them move the boundary to the current position.
Result: boundary and position afterwards. -/
def tileOpStep (b i : Nat) : OpOut → Option (Nat × Nat)
  | .out o =>
    match tileStep b i o with
    | some b' => some (b', i + 1)
    | Option.none => Option.none
  | .fin e => if tileEnd b i e then some (i, i) else Option.none
  | .reset n => if tileReset b i n then some (i, i) else Option.none
  -- `Decoder::new()` / `Decoder::from_buf(buf)`: the old decoder is dropped together with the
  -- bytes `b .. i` of its unfinished frame / noise run (nothing is reported for them, there is
  -- no report to check); the new decoder starts at the current position
  | .new => some (i, i)
  | .fromBuf => some (i, i)

def tileOps (b i : Nat) : List OpOut → Option (Nat × Nat)
  | [] => some (b, i)
  | o :: os =>
    match tileOpStep b i o with
    | some (b', i') => tileOps b' i' os
    | Option.none => Option.none

/-- number of `push_byte` calls in a history -/
def pushCount : List Op → Nat
  | [] => 0
  | .push _ :: ops => pushCount ops + 1
  | _ :: ops => pushCount ops

end Sml.Spec

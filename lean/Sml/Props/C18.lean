/-
  Property C18 (src/util.rs:79-150).

  "For every capacity N and every sequence of push, extend_from_slice, truncate and clear
   operations, an ArrayBuf<N> exposes the same contents and returns the same success /
   out-of-memory results as an ideal byte vector limited to N elements, and a failing operation
   leaves the contents unchanged.  Collecting an iterator of at most N bytes yields exactly those
   bytes, and equality and Debug output depend only on the visible contents."

  Definitions (`BOp`, `ArrayBuf.apply`, `IdealVec.apply`, `abs`, `WF`, `ArrayBuf.run`, ...) and
  helper lemmas are in `Sml/Lemmas/C18.lean`.
-/
import Sml.Lemmas.C18

namespace Sml.C18
open Sml

/-- (2) One operation on a well-formed `ArrayBuf` refines the same operation on the ideal vector
    with the same capacity and contents: success ↔ success with equal resulting contents (and the
    invariant and `N` are preserved); ideal failure ↔ `oom`, in which case Rust leaves `self`
    untouched.  In particular no operation panics. -/
theorem step_refines (a : ArrayBuf) (op : BOp) (h : WF a) :
    (∀ v', IdealVec.apply ⟨a.N, abs a⟩ op = some v' →
      ∃ a', ArrayBuf.apply a op = .ok a' ∧ WF a' ∧ a'.N = a.N ∧ abs a' = v'.data) ∧
    (IdealVec.apply ⟨a.N, abs a⟩ op = none → ArrayBuf.apply a op = .oom) ∧
    (∀ s, ArrayBuf.apply a op ≠ .panic s) := by
  refine ⟨fun v' hv => ?_, step_none h, fun s hs => ?_⟩
  · obtain ⟨a', h1, h2, h3, h4, _⟩ := step_some h hv
    exact ⟨a', h1, h2, h3, h4⟩
  · cases hv : IdealVec.apply ⟨a.N, abs a⟩ op with
    | some v' =>
      obtain ⟨a', h1, _⟩ := step_some h hv
      rw [h1] at hs; cases hs
    | none => rw [step_none h hv] at hs; cases hs

/-- (3, generalised) Run refinement from any well-formed start state. -/
theorem run_refines_from' (a : ArrayBuf) (h : WF a) (ops : List BOp) :
    (ArrayBuf.run a ops).map (·.1) = (IdealVec.run ⟨a.N, abs a⟩ ops).map (·.1) ∧
    (ArrayBuf.run a ops).map (fun p => abs p.2)
      = (IdealVec.run ⟨a.N, abs a⟩ ops).map (fun p => p.2.data) ∧
    (ArrayBuf.run a ops).length = ops.length ∧
    abs (ArrayBuf.final a ops) = (IdealVec.final ⟨a.N, abs a⟩ ops).data ∧
    (∀ p ∈ ArrayBuf.run a ops,
      p.1 ≠ Tag.panic ∧ p.2.deref = .ok (abs p.2) ∧
      p.2.numElements ≤ a.N ∧ p.2.buffer.length = a.N) := by
  obtain ⟨h1, h2, h3, h4, h5, _⟩ := run_refines_from ops a ⟨a.N, abs a⟩ h rfl rfl
  exact ⟨h1, h2, h3, h4, h5⟩

/-- (3) For every capacity `N` and every operation sequence, starting from `ArrayBuf::default()`
    and the empty ideal vector of capacity `N`:
    * the lists of result tags (ok / oom) are equal,
    * the visible contents after every single operation equal the ideal contents (on `oom` both
      sides keep their previous state, so a failing operation leaves the contents unchanged),
    * the run never stops early, i.e. no panic (one recorded step per operation),
    * the final visible contents equal the final ideal contents,
    * in every reachable state (the initial one and the one after each operation) `deref` succeeds
      with exactly the visible contents, and `num_elements ≤ N = buffer.len()`. -/
theorem run_refines (N : Nat) (ops : List BOp) :
    (ArrayBuf.run (ArrayBuf.new N) ops).map (·.1) = (IdealVec.run (IdealVec.new N) ops).map (·.1) ∧
    (ArrayBuf.run (ArrayBuf.new N) ops).map (fun p => abs p.2)
      = (IdealVec.run (IdealVec.new N) ops).map (fun p => p.2.data) ∧
    (ArrayBuf.run (ArrayBuf.new N) ops).length = ops.length ∧
    abs (ArrayBuf.final (ArrayBuf.new N) ops) = (IdealVec.final (IdealVec.new N) ops).data ∧
    (∀ a ∈ ArrayBuf.new N :: (ArrayBuf.run (ArrayBuf.new N) ops).map (·.2),
      a.deref = .ok (abs a) ∧ a.numElements ≤ N ∧ a.buffer.length = N) ∧
    (∀ p ∈ ArrayBuf.run (ArrayBuf.new N) ops, p.1 ≠ Tag.panic) := by
  have hv : IdealVec.new N = ⟨(ArrayBuf.new N).N, abs (ArrayBuf.new N)⟩ := by
    rw [N_new, abs_new]; rfl
  obtain ⟨h1, h2, h3, h4, h5⟩ := run_refines_from' (ArrayBuf.new N) (WF_new N) ops
  rw [← hv] at h1 h2 h4
  rw [N_new] at h5
  refine ⟨h1, h2, h3, h4, ?_, fun p hp => (h5 p hp).1⟩
  intro a ha
  rcases List.mem_cons.1 ha with rfl | ha
  · exact ⟨deref_of_WF (WF_new N), by simp [ArrayBuf.new], by simp [ArrayBuf.new]⟩
  · obtain ⟨p, hp, rfl⟩ := List.mem_map.1 ha
    exact (h5 p hp).2

/-- (4a) Collecting at most `N` bytes yields exactly those bytes. -/
theorem fromIter_ok (N : Nat) (xs : List UInt8) (h : xs.length ≤ N) :
    ∃ a, ArrayBuf.fromIter N xs = .ok a ∧ WF a ∧ a.N = N ∧ abs a = xs := by
  obtain ⟨a, h1, h2, h3, h4⟩ :=
    fromIter_go_ok xs (ArrayBuf.new N) (WF_new N) (by rw [N_new]; simpa [ArrayBuf.new] using h)
  exact ⟨a, h1, h2, by rw [h3, N_new], by rw [h4, abs_new]; simp⟩

/-- (4b) Collecting more than `N` bytes panics (`push(x).unwrap()`, test `test_from_panic`). -/
theorem fromIter_overflow (N : Nat) (xs : List UInt8) (h : N < xs.length) :
    ∃ s, ArrayBuf.fromIter N xs = .panic s :=
  fromIter_go_overflow xs (ArrayBuf.new N) (WF_new N) (by rw [N_new]; simpa [ArrayBuf.new] using h)

/-- (5) `==` and `Debug` depend only on the visible contents (never on stale bytes or on `N`),
    and `==` is exactly equality of the visible contents. -/
theorem eq_debug_visible_only (a b a' b' : ArrayBuf)
    (ha : WF a) (hb : WF b) (ha' : WF a') (hb' : WF b')
    (hab : abs a = abs a') (hbb : abs b = abs b') :
    ArrayBuf.eqv a b = ArrayBuf.eqv a' b' ∧
    ArrayBuf.debugRepr a = ArrayBuf.debugRepr a' ∧
    ArrayBuf.eqv a b = .ok (decide (abs a = abs b)) := by
  refine ⟨?_, ?_, eqv_of_WF ha hb⟩
  · rw [eqv_of_WF ha hb, eqv_of_WF ha' hb', hab, hbb]
  · unfold ArrayBuf.debugRepr; rw [deref_of_WF ha, deref_of_WF ha', hab]

/-- (6) The abstract `Buf` used by the codec models agrees with the ideal vector.
    Bounded case (`cap = some N`): every operation returns `some`/`none` exactly when the ideal
    vector does, with the same resulting contents; `cap` and the bound `data.length ≤ N` are
    preserved.  Unbounded case (`cap = none`, `Vec<u8>`): push / extend always succeed. -/
theorem buf_refines (b : Buf) :
    (∀ N, b.cap = some N → b.data.length ≤ N →
      (∀ x, (b.push x).map Buf.data = (IdealVec.push ⟨N, b.data⟩ x).map IdealVec.data) ∧
      (∀ s, (b.extend s).map Buf.data = (IdealVec.extend ⟨N, b.data⟩ s).map IdealVec.data) ∧
      (∀ k, (b.truncate k).data = (IdealVec.truncate ⟨N, b.data⟩ k).data) ∧
      b.clear.data = (IdealVec.clear ⟨N, b.data⟩).data ∧
      (∀ op b', Buf.apply b op = some b' → b'.cap = some N ∧ b'.data.length ≤ N)) ∧
    (b.cap = none →
      (∀ x, ∃ b', b.push x = some b' ∧ b'.cap = none ∧ b'.data = b.data ++ [x]) ∧
      (∀ s, ∃ b', b.extend s = some b' ∧ b'.cap = none ∧ b'.data = b.data ++ s)) :=
  ⟨fun N hc hl => ⟨buf_push_some b N hc, buf_extend_some b N hc, fun k => buf_truncate b N k,
      buf_clear b N, fun op => (buf_step b N hc hl op).2⟩,
   buf_unbounded b⟩

/-- (6, run level) Any operation sequence on a bounded `Buf` produces the same tags and the same
    contents after every operation as the ideal vector. -/
theorem buf_run_refines (b : Buf) (N : Nat) (hc : b.cap = some N) (hl : b.data.length ≤ N)
    (ops : List BOp) :
    (Buf.run b ops).map (fun p => (p.1, p.2.data)) =
      (IdealVec.run ⟨N, b.data⟩ ops).map (fun p => (p.1, p.2.data)) :=
  buf_run_from ops b N hc hl

/-! ### Non-vacuity: a concrete run with stale bytes -/

/-- N = 3: push 1, extend [2,3], push 4 (oom), truncate 1, extend [10,11], extend [0] (oom), clear,
    push 7. -/
def demoOps : List BOp :=
  [.push 1, .extend [2, 3], .push 4, .truncate 1, .extend [10, 11], .extend [0], .clear, .push 7]

-- tags
example : (ArrayBuf.run (ArrayBuf.new 3) demoOps).map (·.1)
    = [.ok, .ok, .oom, .ok, .ok, .oom, .ok, .ok] := by decide

-- visible contents after every operation
example : (ArrayBuf.run (ArrayBuf.new 3) demoOps).map (fun p => abs p.2)
    = [[1], [1, 2, 3], [1, 2, 3], [1], [1, 10, 11], [1, 10, 11], [], [7]] := by decide

-- the ideal vector does the same
example : (IdealVec.run (IdealVec.new 3) demoOps).map (fun p => (p.1, p.2.data))
    = [(.ok, [1]), (.ok, [1, 2, 3]), (.oom, [1, 2, 3]), (.ok, [1]), (.ok, [1, 10, 11]),
       (.oom, [1, 10, 11]), (.ok, []), (.ok, [7])] := by decide

-- stale bytes really are there: after `truncate 1` the backing array is still [1,2,3],
-- and at the end it is [7,10,11] with one visible element
example : (ArrayBuf.final (ArrayBuf.new 3) (demoOps.take 4)) = ⟨[1, 2, 3], 1⟩ := by decide
example : (ArrayBuf.final (ArrayBuf.new 3) demoOps) = ⟨[7, 10, 11], 1⟩ := by decide

-- hypotheses of `step_refines` / `eq_debug_visible_only` are satisfiable with differing stale bytes
-- and even differing `N`
example : WF ⟨[1, 2, 3], 1⟩ ∧ WF ⟨[1, 9, 9, 9], 1⟩ ∧
    abs ⟨[1, 2, 3], 1⟩ = abs ⟨[1, 9, 9, 9], 1⟩ ∧
    (⟨[1, 2, 3], 1⟩ : ArrayBuf) ≠ ⟨[1, 9, 9, 9], 1⟩ ∧
    ArrayBuf.eqv ⟨[1, 2, 3], 1⟩ ⟨[1, 9, 9, 9], 1⟩ = .ok true ∧
    ArrayBuf.eqv ⟨[1, 2, 3], 2⟩ ⟨[1, 9, 9, 9], 2⟩ = .ok false := by decide

-- the WF hypothesis is necessary: an ill-formed value panics on deref / push (unreachable states)
example : ¬ WF ⟨[1, 2], 3⟩ ∧ (⟨[1, 2], 3⟩ : ArrayBuf).deref = .panic "util.rs:109 slice end out of range" ∧
    (⟨[1, 2], 3⟩ : ArrayBuf).push 0 = .panic "util.rs:128 index out of bounds" := by decide

-- fromIter: exactly N bytes fit, N+1 bytes panic
example : ArrayBuf.fromIter 3 [5, 6, 7] = .ok ⟨[5, 6, 7], 3⟩ := by decide
example : ArrayBuf.fromIter 3 [5, 6] = .ok ⟨[5, 6, 0], 2⟩ := by decide
example : ArrayBuf.fromIter 3 [5, 6, 7, 8] = .panic "util.rs:117 unwrap on OutOfMemory" := by decide

-- abstract Buf: same demo run, bounded and unbounded
example : (Buf.run (Buf.new (some 3)) demoOps).map (fun p => (p.1, p.2.data))
    = [(.ok, [1]), (.ok, [1, 2, 3]), (.oom, [1, 2, 3]), (.ok, [1]), (.ok, [1, 10, 11]),
       (.oom, [1, 10, 11]), (.ok, []), (.ok, [7])] := by decide
example : (Buf.run (Buf.new none) demoOps).map (fun p => (p.1, p.2.data))
    = [(.ok, [1]), (.ok, [1, 2, 3]), (.ok, [1, 2, 3, 4]), (.ok, [1]), (.ok, [1, 10, 11]),
       (.ok, [1, 10, 11, 0]), (.ok, []), (.ok, [7])] := by decide

end Sml.C18

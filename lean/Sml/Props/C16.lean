import Sml.Lemmas.DecRoundCap
import Sml.Props.C01
/-
  Property C16.

  "A frame whose payload has L bytes decodes successfully in a buffer of capacity exactly L:
  escape bytes, padding and temporarily withheld zeros never need extra room.  With a capacity
  below L the decoder reports out-of-memory for that frame, never a shortened or altered payload,
  and is immediately ready for the next frame."

  * model : `Dec.fresh (some N)` = `Decoder<ArrayBuf<N>>`, `Dec.pushAll`   (Sml/Model)
  * spec  : `Spec.frame`
  * "never a shortened or altered payload": the first result of the frame that is not `Ok(None)`
    is `Err(OutOfMemory)` (so no `Ok(Some(..))` precedes it).
  * "immediately ready": the state right after the error is that of a new decoder (`look 0 0`,
    `raw = 0`, nothing withheld, empty buffer, same capacity) up to the `crc` field, which is dead
    in that state (it is overwritten when the next start sequence completes); `ready_after_oom`
    shows that a frame fed right after the error round-trips.

  All theorems hold for payloads of every length and every capacity.
-/
namespace Sml.C16

open Spec (frame)

/-- Capacity exactly `|p|` suffices. -/
theorem exact_fit (p : List UInt8) :
    (Dec.pushAll (Dec.fresh (some p.length)) (frame p)).2 =
      List.replicate ((frame p).length - 1) Out.none ++ [Out.msg p] :=
  C01.roundtrip_push p (some p.length) (Nat.le_refl _)

/-- ... for every front-end (see C01): e.g. the iterator and the reader. -/
theorem exact_fit_iter (p : List UInt8) (k : Nat) :
    (DecIter.new (some p.length) (frame p)).take (k + 1) =
      some (Item.ok p) :: List.replicate k none :=
  C01.roundtrip_iter p (some p.length) (Nat.le_refl _) k

/-- With a capacity below `|p|`: within the frame, after `i` results `Ok(None)`, the decoder
reports `OutOfMemory`; right after that it is in the initial state (up to the dead `crc` field). -/
theorem too_small (p : List UInt8) (N : Nat) (h : N < p.length) :
    ∃ i, i < (frame p).length ∧
      (Dec.pushAll (Dec.fresh (some N)) ((frame p).take (i + 1))).2 =
        List.replicate i Out.none ++ [Out.err DecErr.oom] ∧
      let d := (Dec.pushAll (Dec.fresh (some N)) ((frame p).take (i + 1))).1
      d.st = .look 0 0 ∧ d.raw = 0 ∧ d.zc = 0 ∧ d.buf.rdata = [] ∧ d.buf.cap = some N := by
  obtain ⟨i, hi, h1, h2⟩ := frame_too_small p N h
  exact ⟨i, hi, h1, h2⟩

/-- "Immediately ready for the next frame": a frame (whose payload fits) fed right after the
out-of-memory error round-trips as on a new decoder. -/
theorem ready_after_oom (p : List UInt8) (N : Nat) (h : N < p.length) :
    ∃ i, i < (frame p).length ∧
      (Dec.pushAll (Dec.fresh (some N)) ((frame p).take (i + 1))).2 =
        List.replicate i Out.none ++ [Out.err DecErr.oom] ∧
      ∀ q : List UInt8, q.length ≤ N →
        (Dec.pushAll (Dec.pushAll (Dec.fresh (some N)) ((frame p).take (i + 1))).1 (frame q)).2 =
          List.replicate ((frame q).length - 1) Out.none ++ [Out.msg q] := by
  obtain ⟨i, hi, h1, h2, _, h4, h5, h6⟩ := frame_too_small p N h
  refine ⟨i, hi, h1, fun q hq => ?_⟩
  obtain ⟨d', hd, _⟩ := Dec.frame_delivers _ q h2 h4 h5 (by rw [h6]; exact hq)
  rw [hd.pushAll]

/-! ### the default 8 KiB buffer of the readers -/

theorem default_buf_ok (p : List UInt8) (h : p.length ≤ 8192) :
    (Dec.pushAll (Dec.fresh (some 8192)) (frame p)).2 =
      List.replicate ((frame p).length - 1) Out.none ++ [Out.msg p] :=
  C01.roundtrip_push p (some 8192) h

theorem default_buf_oom (p : List UInt8) (h : 8192 < p.length) :
    ∃ i, i < (frame p).length ∧
      (Dec.pushAll (Dec.fresh (some 8192)) ((frame p).take (i + 1))).2 =
        List.replicate i Out.none ++ [Out.err DecErr.oom] ∧
      let d := (Dec.pushAll (Dec.fresh (some 8192)) ((frame p).take (i + 1))).1
      d.st = .look 0 0 ∧ d.raw = 0 ∧ d.zc = 0 ∧ d.buf.rdata = [] ∧ d.buf.cap = some 8192 :=
  too_small p 8192 h

/-! ### non-vacuity (kernel evaluation) -/

/-- five zeros + three pad zeros: eight zeros pass through a 5-byte buffer -/
example : (Dec.pushAll (Dec.fresh (some 5)) (frame [0, 0, 0, 0, 0])).2 =
    List.replicate 23 Out.none ++ [Out.msg [0, 0, 0, 0, 0]] := by decide +kernel

/-- one byte less: zeros are withheld, so the error comes only when the withheld zeros are flushed
by the end sequence, i.e. at the last byte of the frame -/
example : (Dec.pushAll (Dec.fresh (some 4)) (frame [0, 0, 0, 0, 0])).2 =
    List.replicate 23 Out.none ++ [Out.err DecErr.oom] := by decide +kernel

/-- escapes need no room: capacity 4 for four 0x1b (eight on the wire) -/
example : (Dec.pushAll (Dec.fresh (some 4)) (frame [0x1b, 0x1b, 0x1b, 0x1b])).2 =
    List.replicate 23 Out.none ++ [Out.msg [0x1b, 0x1b, 0x1b, 0x1b]] := by decide +kernel

/-- capacity 3: error in the middle of the frame (at the byte completing the escape), the rest of
the frame is then noise for the reset decoder -/
example : (Dec.pushAll (Dec.fresh (some 3)) ((frame [0x1b, 0x1b, 0x1b, 0x1b]).take 16)).2 =
    List.replicate 15 Out.none ++ [Out.err DecErr.oom] := by decide +kernel

example : (Dec.pushAll (Dec.fresh (some 3)) ((frame [0x1b, 0x1b, 0x1b, 0x1b]).take 16)).1 =
    { raw := 0, crc := (Dec.pushAll (Dec.fresh (some 3)) ((frame [0x1b, 0x1b, 0x1b, 0x1b]).take 16)).1.crc,
      st := .look 0 0, zc := 0, buf := ⟨some 3, []⟩ } := by decide +kernel

/-- a plain payload: error at the byte that does not fit -/
example : (Dec.pushAll (Dec.fresh (some 2)) ((frame [1, 2, 3]).take 11)).2 =
    List.replicate 10 Out.none ++ [Out.err DecErr.oom] := by decide +kernel

/-- after the error, a fitting frame fed right away round-trips -/
example : (Dec.pushAll (Dec.pushAll (Dec.fresh (some 2)) ((frame [1, 2, 3]).take 11)).1 (frame [7, 8])).2 =
    List.replicate 19 Out.none ++ [Out.msg [7, 8]] := by decide +kernel

end Sml.C16

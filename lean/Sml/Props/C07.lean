import Sml.Lemmas.C07
/-
  Property C07.

  "For every payload, the buffer encoder and the iterator encoder produce the identical byte
  sequence, and it is the Transport v1 frame the specification defines: 1b1b1b1b 01010101, the
  payload with 1b1b1b1b inserted after every fourth consecutive 0x1b byte, zero bytes up to the
  next multiple of four, then 1b1b1b1b 1a, the pad count, and the little-endian CRC-16/X.25 of
  all preceding bytes.  The iterator encoder ends for good after the last byte, and the buffer
  encoder reports out-of-memory exactly when the frame does not fit the buffer."

  * model      : `encodeBuf`, `Enc.new` / `Enc.next` / `Enc.run`   (Sml/Model/Encode.lean)
  * spec       : `Spec.frame`, `Spec.stuff`, `Spec.padLen`          (Sml/Spec/Frame.lean)
  * `fitsCap cap n` (Sml/Lemmas/C07.lean) is `True` for `cap = none` (a `Vec`) and `n ≤ c` for
    `cap = some c` (an `ArrayBuf<c>`); see `buf_vec` / `buf_array` for the unfolded statements.

  All theorems hold for payloads of every length and for every capacity.
-/
namespace Sml.C07

open Spec (stuff stuffFrom frame)

/-! ### 1. the buffer encoder -/

/-- The buffer encoder returns exactly the specified frame if it fits the buffer, and
`OutOfMemory` if (and only if) it does not. -/
theorem buf_eq_spec (p : List UInt8) (cap : Option Nat) :
    encodeBuf cap p =
      (if fitsCap cap (frame p).length then EncRes.ok (frame p) else EncRes.oom) := by
  rw [encodeBuf_eq, finish_new_extend]

/-- `encode::<Vec<u8>>` never fails -/
theorem buf_vec (p : List UInt8) : encodeBuf none p = EncRes.ok (frame p) := by
  rw [buf_eq_spec]; rfl

/-- `encode::<ArrayBuf<c>>` -/
theorem buf_array (p : List UInt8) (c : Nat) :
    encodeBuf (some c) p = (if (frame p).length ≤ c then EncRes.ok (frame p) else EncRes.oom) := by
  rw [buf_eq_spec]; rfl

/-- out-of-memory exactly when the frame does not fit -/
theorem buf_oom_iff (p : List UInt8) (c : Nat) :
    encodeBuf (some c) p = EncRes.oom ↔ c < (frame p).length := by
  rw [buf_array]
  split <;> simp <;> omega

/-! ### 2./3. the iterator encoder -/

/-- The first `|frame p|` calls of `next` yield exactly the bytes of the specified frame
(in particular no panic and no early `None`). -/
theorem iter_eq_spec (p : List UInt8) :
    ((Enc.new p).run (frame p).length).2 = (frame p).map EOut.byte := by
  obtain ⟨e', h, _⟩ := Enc.run_frame p
  rw [h]

/-- After the last byte of the frame, every further call of `next` returns `None`. -/
theorem iter_fused (p : List UInt8) (k : Nat) :
    (((Enc.new p).run (frame p).length).1.run k).2 = List.replicate k EOut.none := by
  obtain ⟨e', h, hst⟩ := Enc.run_frame p
  rw [h, Enc.run_fused hst]

/-! ### 4. both encoders agree -/

theorem encoders_agree (p : List UInt8) :
    encodeBuf none p =
      EncRes.ok (((Enc.new p).run (frame p).length).2.filterMap
        (fun o => match o with | .byte b => some b | _ => none)) := by
  rw [buf_vec, iter_eq_spec, filterMap_map_byte _ _ (fun _ => rfl)]

/-! ### 5. `Spec.stuff` is the "after every fourth consecutive 0x1b" rule -/

/-- A payload without `0x1b` bytes is not changed. -/
theorem stuff_no_1b (p : List UInt8) (h : ∀ b ∈ p, b ≠ 0x1b) : stuff p = p :=
  Spec.stuffFrom_of_no_1b 0 h

/-- A byte other than `0x1b` is copied and ends the current run. -/
theorem stuff_cons_ne (b : UInt8) (rest : List UInt8) (h : b ≠ 0x1b) :
    stuff (b :: rest) = b :: stuff rest :=
  Spec.stuff_cons_of_ne h rest

/-- A run of `r` bytes `0x1b` gets `r / 4` escape sequences, i.e. becomes `r + 4 * (r / 4)` bytes
`0x1b`; what follows is stuffed with run counter `r % 4`. -/
theorem stuff_run_general (r : Nat) (rest : List UInt8) :
    stuff (List.replicate r 0x1b ++ rest) =
      List.replicate (r + 4 * (r / 4)) 0x1b ++ stuffFrom (r % 4) rest := by
  rw [Spec.stuff_append, stuff, Spec.stuffFrom_replicate_1b (by omega),
    Spec.ctr_replicate_1b (by omega), Nat.zero_add]

/-- A *maximal* run of `r` bytes `0x1b` at the start of the payload becomes `r + 4 * (r / 4)`
bytes `0x1b`, and the remainder is stuffed independently. -/
theorem stuff_run (r : Nat) (rest : List UInt8) (h : rest.head? ≠ some 0x1b) :
    stuff (List.replicate r 0x1b ++ rest) =
      List.replicate (r + 4 * (r / 4)) 0x1b ++ stuff rest := by
  rw [stuff_run_general, Spec.stuffFrom_of_head_ne _ h]
  rfl

/-! ### 6. non-vacuity: concrete evaluations (kernel evaluation, no `native_decide`) -/

/-- the documented example of encode.rs:152 -/
example : frame [0x12, 0x34, 0x56, 0x78] =
    [0x1b, 0x1b, 0x1b, 0x1b, 0x01, 0x01, 0x01, 0x01, 0x12, 0x34, 0x56, 0x78,
     0x1b, 0x1b, 0x1b, 0x1b, 0x1a, 0x00, 0xb8, 0x7b] := by decide +kernel

example : encodeBuf none [0x12, 0x34, 0x56, 0x78] = EncRes.ok
    [0x1b, 0x1b, 0x1b, 0x1b, 0x01, 0x01, 0x01, 0x01, 0x12, 0x34, 0x56, 0x78,
     0x1b, 0x1b, 0x1b, 0x1b, 0x1a, 0x00, 0xb8, 0x7b] := by decide +kernel

/-- `ArrayBuf<20>` succeeds, `ArrayBuf<19>` is out of memory (encode.rs:170-174) -/
example : encodeBuf (some 20) [0x12, 0x34, 0x56, 0x78] = EncRes.ok
    [0x1b, 0x1b, 0x1b, 0x1b, 0x01, 0x01, 0x01, 0x01, 0x12, 0x34, 0x56, 0x78,
     0x1b, 0x1b, 0x1b, 0x1b, 0x1a, 0x00, 0xb8, 0x7b] := by decide +kernel

example : encodeBuf (some 19) [0x12, 0x34, 0x56, 0x78] = EncRes.oom := by decide +kernel

/-- the iterator: 20 bytes, then `None`, `None` -/
example : ((Enc.new [0x12, 0x34, 0x56, 0x78]).run 22).2 =
    [0x1b, 0x1b, 0x1b, 0x1b, 0x01, 0x01, 0x01, 0x01, 0x12, 0x34, 0x56, 0x78,
     0x1b, 0x1b, 0x1b, 0x1b, 0x1a, 0x00, 0xb8, 0x7b].map EOut.byte ++ [EOut.none, EOut.none] := by
  decide +kernel

/-- stuffing and padding together: five `0x1b` and one more byte; one escape after the fourth
`0x1b`, two pad bytes -/
example : (frame [0x1b, 0x1b, 0x1b, 0x1b, 0x1b, 0x07]).take 26 =
    [0x1b, 0x1b, 0x1b, 0x1b, 0x01, 0x01, 0x01, 0x01,
     0x1b, 0x1b, 0x1b, 0x1b, 0x1b, 0x1b, 0x1b, 0x1b, 0x1b, 0x07, 0x00, 0x00,
     0x1b, 0x1b, 0x1b, 0x1b, 0x1a, 0x02] := by decide +kernel

example : ((Enc.new [0x1b, 0x1b, 0x1b, 0x1b, 0x1b, 0x07]).run 29).2 =
    (frame [0x1b, 0x1b, 0x1b, 0x1b, 0x1b, 0x07]).map EOut.byte ++ [EOut.none] := by
  decide +kernel

/-- the payload ends with the fourth `0x1b`: the escape is still inserted -/
example : stuff [0x01, 0x1b, 0x1b, 0x1b, 0x1b] =
    [0x01, 0x1b, 0x1b, 0x1b, 0x1b, 0x1b, 0x1b, 0x1b, 0x1b] := by decide

/-- eight `0x1b` in a row: two escapes -/
example : stuff (List.replicate 8 0x1b) = List.replicate 16 0x1b := by decide

/-- the out-of-memory branch of `buf_eq_spec` is reachable for every payload: no frame is
shorter than 16 bytes -/
example (p : List UInt8) : encodeBuf (some 15) p = EncRes.oom := by
  rw [buf_oom_iff, length_frame]
  omega

end Sml.C07

import Sml.Lemmas.C13
/-
  Property C13.

  "For every input, iterating the streaming parser yields finitely many items - at most one more
   than the number of input bytes - and once it has yielded an error or None, every further call
   yields None.  In particular an error in the middle of a message (bad checksum, truncated or
   corrupt list) ends the iteration instead of repeating."

  `SParser.take p k` is the list of the results of the first `k` calls of `Iterator::next`
  (`some item` / `none`).  All statements hold for every input and every number of calls.
-/
namespace Sml.C13
open Sml SParser

/-- strongest form: there is ONE finite list `items` (the run of the iterator), of at most
    `|x| + 1` items of which at most `|x|` are events, such that for every `k` the first `k` calls
    return the first `k` items and then only `None`; only the last item can be an error -/
theorem fused_items (x : Bytes) : ∃ items : List SItem,
    items.length ≤ x.length + 1 ∧ (items.filter SItem.isEv).length ≤ x.length ∧
    (∀ j e, items[j]? = some (.err e) → j + 1 = items.length) ∧
    ∀ k, ((SParser.new x).take k).2 =
      (items.take k).map some ++ List.replicate (k - items.length) none :=
  ⟨run (new x), run_length_le _, run_events_le _, run_err_last _,
    take_eq_run x.length (new x) (Nat.le_refl _)⟩

/-- the first `n` calls return `some`, all later calls return `none`, and only the `n`-th item can
    be an error -/
theorem fused (x : Bytes) : ∃ n, n ≤ x.length + 1 ∧ ∀ k, ∃ items : List SParser.SItem,
    items.length = min k n ∧
    ((SParser.new x).take k).2 = items.map some ++ List.replicate (k - n) none ∧
    (∀ j e, j + 1 < n → items[j]? = some (.err e) → False) := by
  obtain ⟨items, h1, _, h3, h4⟩ := fused_items x
  refine ⟨items.length, h1, fun k => ⟨items.take k, by simp, h4 k, ?_⟩⟩
  intro j e hj he
  rw [List.getElem?_take] at he
  split at he
  · have := h3 j e he
    omega
  · cases he

/-- after an error every further call returns `None` -/
theorem after_error (x : Bytes) (k j : Nat) (e : PErr) :
    ((SParser.new x).take k).2[j]? = some (some (.err e)) →
    ∀ j', j < j' → j' < k → ((SParser.new x).take k).2[j']? = some none := by
  obtain ⟨items, _, _, h3, h4⟩ := fused_items x
  rw [h4 k]
  intro h j' hj hk
  have hjl : j < (items.take k).length := by
    apply Classical.byContradiction
    intro hn
    rw [List.getElem?_append_right (by simpa using hn)] at h
    rw [List.getElem?_replicate] at h
    split at h <;> cases h
  rw [List.getElem?_append_left (by simpa using hjl), List.getElem?_map] at h
  have hitem : items[j]? = some (.err e) := by
    rw [List.getElem?_take] at h
    split at h
    · cases hi : items[j]? with
      | none => simp [hi] at h
      | some v => simpa [hi] using h
    · simp at h
  have hlen := h3 j e hitem
  rw [List.getElem?_append_right (by simp; omega), List.getElem?_replicate]
  simp only [List.length_map, List.length_take]
  rw [if_pos (by omega)]

/-- after a `None` every further call returns `None` -/
theorem after_none (x : Bytes) (k j : Nat) :
    ((SParser.new x).take k).2[j]? = some none →
    ∀ j', j < j' → j' < k → ((SParser.new x).take k).2[j']? = some none := by
  obtain ⟨items, _, _, _, h4⟩ := fused_items x
  rw [h4 k]
  intro h j' hj hk
  have hjl : ¬ j < (items.take k).length := by
    intro hn
    rw [List.getElem?_append_left (by simpa using hn), List.getElem?_map] at h
    cases hi : (items.take k)[j]? <;> simp [hi] at h
  simp only [List.length_take] at hjl
  rw [List.getElem?_append_right (by simp; omega), List.getElem?_replicate]
  simp only [List.length_map, List.length_take]
  rw [if_pos (by omega)]

/-- the iteration `for item in parser` (`collect`) terminates: any fuel above `|x|` gives the same
    finite list -/
theorem collect_fuel_irrelevant (x : Bytes) (fuel : Nat) (h : x.length + 1 ≤ fuel) :
    (SParser.new x).collect fuel = (SParser.new x).collect (x.length + 1) :=
  collect_eq_run (new x) fuel h

/-! ### non-vacuity -/

/-- a close-response message with a wrong checksum -/
def badCrc : Bytes :=
  [0x76, 0x05, 0x01, 0x02, 0x03, 0x04, 0x62, 0x00, 0x62, 0x00, 0x72, 0x63, 0x02, 0x01, 0x71, 0x01,
   0x63, 0x00, 0x00, 0x00]

/-- a list response announcing two values, cut in the second entry -/
def cutList : Bytes :=
  [0x76, 0x05, 0x01, 0x02, 0x03, 0x04, 0x62, 0x00, 0x62, 0x00, 0x72, 0x63, 0x07, 0x01,
   0x77, 0x01, 0x02, 0xaa, 0x01, 0x01, 0x72,
   0x77, 0x02, 0xbb, 0x01, 0x01, 0x01, 0x01, 0x62, 0x05, 0x01,
   0x77, 0x02, 0xbc, 0x01]

/-- a list response whose first entry has a corrupt type-length field -/
def corruptList : Bytes :=
  [0x76, 0x05, 0x01, 0x02, 0x03, 0x04, 0x62, 0x00, 0x62, 0x00, 0x72, 0x63, 0x07, 0x01,
   0x77, 0x01, 0x02, 0xaa, 0x01, 0x01, 0x72,
   0x77, 0x12, 0xbb, 0x01, 0x01, 0x01, 0x01, 0x62, 0x05, 0x01]

/-- results of the calls reduced to: event / error kind / none -/
def kinds (rs : List (Option SItem)) : List (Option (Option PErr)) :=
  rs.map fun o => o.map fun | .ev _ => Option.none | .err e => some e

example : kinds ((SParser.new badCrc).take 5).2 =
    [some none, some (some .crcMismatch), none, none, none] := by decide +kernel
example : kinds ((SParser.new cutList).take 6).2 =
    [some none, some none, some (some .unexpectedEOF), none, none, none] := by decide +kernel
example : kinds ((SParser.new corruptList).take 4).2 =
    [some none, some (some .tlfInvalidTy), none, none] := by decide +kernel
example : kinds ((SParser.new []).take 2).2 = [none, none] := by decide +kernel

end Sml.C13

import Sml.Lemmas.E2E
import Sml.Props.C03
/-
  Property C10.

  "For any sequence of SML files, each framed by the transport encoder and separated by arbitrary
  inter-frame noise, an SmlReader over any supported source (slice, iterator, io::Read) and buffer
  kind yields the files in order - as raw payload, as parsed file and as event stream - reports
  noise only as discarded byte counts, and signals end of input exactly when all bytes are
  consumed.  Its results equal composing the transport decoder and the parser by hand."

  * model : `Rdr` (`DecoderReader` over a byte source, Sml/Model/Frontends.lean) with
    `SrcKind.mem` (slice / iterator) or `SrcKind.io` (`io::Read`) over the events
    `s.map Ev.byte` (the source delivers the bytes `s`, then end of input);
    `Rdr.smlCall` / `Rdr.smlCalls` / `adapt` (Sml/Model/SmlReader.lean): an `SmlReader` call
    `read::<T>` / `next::<T>` / `read_nb::<T>` / `next_nb::<T>` is the `DecoderReader` call followed
    by `T::parse_from` (`Target.bytes` = `DecodedBytes`, `.file` = `File`, `.parser` = `Parser`,
    iterated to its end by the caller: `SmlItem.events`).
    `cap : Option Nat` is the buffer: `none` = `Vec<u8>`, `some N` = `ArrayBuf<N>` (the default
    buffer is `ArrayBuf<8192>`).
  * input : `stream gs tail` = `g₁ ++ frame p₁ ++ … ++ g_k ++ frame p_k ++ tail` for any list
    `gs = [(g₁, p₁), …, (g_k, p_k)]` of (noise, payload) pairs and trailing noise `tail`
    (`tail` is `g_{k+1}`).  `Spec.frame p` is what both encoders produce (C07; §5).
  * reading decisions (DESIGN.md, C10): "arbitrary inter-frame noise" is noise that does not
    contain the start sequence, the class `C08.StartFree` (noise `START ++ 1b` legitimately
    destroys the next frame); the buffer must fit each payload (`fitsCap cap |p|`, vacuous for
    `Vec`), otherwise C16's out-of-memory applies.  Noise may be empty, may end in 0x1b bytes or in
    a partial start sequence.
  * `padTo x l n` = the first `n` elements of "`l`, then `x` forever"; `RF.view c` = how entry
    point `c` presents the result of `read` (C11: `next` turns `IoErr(Eof, 0)` into `None`, the
    `_nb` variants turn `IoErr(WouldBlock, _)` into `nb::Error::WouldBlock`).
  * "a valid encoding of file `F`" is `Spec.EncFile F p` (C03); `C09.events p` is the `for` loop
    over `Parser::new(p)`.

  All theorems hold for every number of files, all payloads and noise strings in the class above,
  both source kinds, every capacity that fits the payloads, every number and kind of calls and
  every per-call choice of target.  §4 holds for every byte stream whatsoever.
-/
namespace Sml.C10

open Spec (frame)
open C07 (fitsCap)
open C08 (StartFree)
open RF (view)

/-! ### the input and the expected transport-level results -/

/-- `g₁ ++ frame p₁ ++ … ++ g_k ++ frame p_k ++ tail` -/
def stream (gs : List (List UInt8 × List UInt8)) (tail : List UInt8) : List UInt8 :=
  (gs.flatMap fun gp => gp.1 ++ frame gp.2) ++ tail

/-- per frame: `Err(DiscardedBytes(|g|))` if there was noise before it, then the payload -/
def delivered (gs : List (List UInt8 × List UInt8)) : List RItem :=
  gs.flatMap fun gp =>
    (if gp.1 = [] then [] else [RItem.decErr (.discarded gp.1.length)]) ++ [RItem.ok gp.2]

/-- everything `next` returns before it starts returning `None` -/
def expected (gs : List (List UInt8 × List UInt8)) (tail : List UInt8) : List RItem :=
  delivered gs ++ (if tail = [] then [] else [RItem.ioErr .eof tail.length])

/-- everything `read` returns before it starts returning `IoErr(Eof, 0)` -/
def expectedRead (gs : List (List UInt8 × List UInt8)) (tail : List UInt8) : List RItem :=
  delivered gs ++ [RItem.ioErr .eof tail.length]

/-! ### 1. the transport level: `DecoderReader::next` -/

/-- `n` calls of `next`, any `n`: per frame the noise length (if any) as a discarded-bytes error,
then the payload, in order; then the trailing noise as one `IoErr(Eof, |tail|)` (nothing if there
is none); then `None` forever. -/
theorem reader_results (kind : SrcKind) (hk : kind = .mem ∨ kind = .io) (cap : Option Nat)
    (gs : List (List UInt8 × List UInt8)) (tail : List UInt8)
    (hg : ∀ gp ∈ gs, StartFree gp.1 ∧ fitsCap cap gp.2.length) (ht : StartFree tail) (n : Nat) :
    ((Rdr.new kind cap ((stream gs tail).map Ev.byte)).calls (List.replicate n .next)).2 =
      padTo RItem.none (expected gs tail) n :=
  E2E.nexts_stream kind hk cap gs tail hg ht n

/-- `expected` contains no `None`: so by `reader_results` the `i`-th call of `next` returns `None`
exactly from the point on where every frame has been delivered and the leftover noise (if any) has
been reported, i.e. when all bytes of the stream are consumed and accounted for -/
theorem expected_ne_none (gs : List (List UInt8 × List UInt8)) (tail : List UInt8) :
    ∀ x ∈ expected gs tail, x ≠ RItem.none := by
  intro x hx
  unfold expected delivered at hx
  rcases List.mem_append.1 hx with h | h
  · obtain ⟨gp, _, h⟩ := List.mem_flatMap.1 h
    rcases List.mem_append.1 h with h | h
    · split at h
      · simp at h
      · simp only [List.mem_singleton] at h; subst h; simp
    · simp only [List.mem_singleton] at h; subst h; simp
  · split at h
    · simp at h
    · simp only [List.mem_singleton] at h; subst h; simp

theorem none_iff_end (kind : SrcKind) (hk : kind = .mem ∨ kind = .io) (cap : Option Nat)
    (gs : List (List UInt8 × List UInt8)) (tail : List UInt8)
    (hg : ∀ gp ∈ gs, StartFree gp.1 ∧ fitsCap cap gp.2.length) (ht : StartFree tail) (n i : Nat)
    (hi : i < n) :
    ((Rdr.new kind cap ((stream gs tail).map Ev.byte)).calls (List.replicate n .next)).2[i]? =
        some RItem.none ↔ (expected gs tail).length ≤ i := by
  rw [reader_results kind hk cap gs tail hg ht, getElem?_padTo _ _ _ _ hi]
  constructor
  · intro h
    rcases Nat.lt_or_ge i (expected gs tail).length with hlt | hge
    · rw [List.getElem?_eq_getElem hlt] at h
      exact absurd (Option.some.inj h) (expected_ne_none gs tail _ (List.getElem_mem hlt))
    · exact hge
  · intro h
    rw [List.getElem?_eq_none h]
    rfl

/-- the same through the push decoder: the non-`None` answers of `push_byte`, and the answer of
`finalize` -/
theorem decoder_results (cap : Option Nat) (gs : List (List UInt8 × List UInt8))
    (tail : List UInt8) (hg : ∀ gp ∈ gs, StartFree gp.1 ∧ fitsCap cap gp.2.length)
    (ht : StartFree tail) :
    (C15.items (Dec.pushAll (Dec.fresh cap) (stream gs tail)).2).map Item.toR = delivered gs ∧
      (Dec.pushAll (Dec.fresh cap) (stream gs tail)).1.finalize.2 =
        (if tail = [] then none else some (.discarded tail.length)) := by
  obtain ⟨h1, h2, _⟩ := E2E.stream_decodes cap gs tail hg ht
  exact ⟨(congrArg (List.map Item.toR) h1).trans (E2E.map_toR_segItems gs), h2⟩

/-! ### 2. any interleaving of `read` / `next` / `read_nb` / `next_nb` -/

/-- The `i`-th call presents (`view`) the `i`-th element of `expectedRead`, and `IoErr(Eof, 0)`
once these are used up: `read` / `read_nb` report the end of input as `IoErr(Eof, |tail|)` once and
`IoErr(Eof, 0)` afterwards, `next` / `next_nb` turn `IoErr(Eof, 0)` into `None`. -/
theorem reader_results_calls (kind : SrcKind) (hk : kind = .mem ∨ kind = .io) (cap : Option Nat)
    (gs : List (List UInt8 × List UInt8)) (tail : List UInt8)
    (hg : ∀ gp ∈ gs, StartFree gp.1 ∧ fitsCap cap gp.2.length) (ht : StartFree tail)
    (cs : List Rdr.Call) :
    ((Rdr.new kind cap ((stream gs tail).map Ev.byte)).calls cs).2 =
      List.zipWith view cs (padTo (RItem.ioErr .eof 0) (expectedRead gs tail) cs.length) :=
  E2E.calls_stream kind hk cap gs tail hg ht cs

/-! ### 3. `SmlReader`: the target adapters -/

/-- Any reader state, any calls: the `SmlReader` results are the `DecoderReader` results of the
same calls, each passed through the adapter of the target chosen for that call; the reader is left
in the same state. -/
theorem sml_calls_eq_adapt (r : Rdr) (cs : List (Rdr.Call × Target)) :
    (r.smlCalls cs).2 = List.zipWith (fun ct x => adapt ct.2 x) cs (r.calls (cs.map Prod.fst)).2 ∧
      (r.smlCalls cs).1 = (r.calls (cs.map Prod.fst)).1 :=
  E2E.smlCalls_eq cs r

/-- what entry point `c` with target `t` returns when `read` returns `x` -/
def present (c : Rdr.Call) (t : Target) (x : RItem) : SmlItem := adapt t (view c x)

/-- Any interleaving of the four entry points, any target per call, on the stream: the `i`-th call
returns `present c t` of the `i`-th element of `expectedRead`, resp. of `IoErr(Eof, 0)` afterwards.
`present` is made explicit for every item that can occur by `present_payload` … `present_end`. -/
theorem sml_results_calls (kind : SrcKind) (hk : kind = .mem ∨ kind = .io) (cap : Option Nat)
    (gs : List (List UInt8 × List UInt8)) (tail : List UInt8)
    (hg : ∀ gp ∈ gs, StartFree gp.1 ∧ fitsCap cap gp.2.length) (ht : StartFree tail)
    (cs : List (Rdr.Call × Target)) :
    ((Rdr.new kind cap ((stream gs tail).map Ev.byte)).smlCalls cs).2 =
      List.zipWith (fun ct x => present ct.1 ct.2 x) cs
        (padTo (RItem.ioErr .eof 0) (expectedRead gs tail) cs.length) :=
  E2E.smlCalls_stream kind hk cap gs tail hg ht cs

/-- a delivered payload, by target: the bytes themselves / the result of `parse` / the items of
the streaming parser (every entry point) -/
theorem present_payload (c : Rdr.Call) (t : Target) (p : List UInt8) :
    present c t (.ok p) =
      match t with
      | .bytes => SmlItem.bytes p
      | .file =>
        (match parseFile p with
          | .ok F => SmlItem.file F
          | .error e => SmlItem.parseErr e)
      | .parser => SmlItem.events (C09.events p) := by
  cases c <;> cases t <;> rfl

/-- a payload that is a valid encoding of the file `F` (C03): as `File` it is `F`; as `Parser` it
yields error-free events that reassemble to the messages of `F` -/
theorem present_file (c : Rdr.Call) (F : File) (p : List UInt8) (h : Spec.EncFile F p) :
    present c .file (.ok p) = SmlItem.file F ∧
      ∃ evs : List ParseEvent, present c .parser (.ok p) = SmlItem.events (evs.map SParser.SItem.ev) ∧
        Spec.reassemble evs = some F.messages := by
  obtain ⟨evs, h1, h2⟩ := C03.complete_streaming F p h
  refine ⟨?_, evs, ?_, h2⟩
  · rw [present_payload]
    simp only [C03.complete F p h]
  · rw [present_payload]
    simp only [h1]

/-- noise before a frame: the discarded-bytes error, unchanged, whatever the target and the entry
point -/
theorem present_noise (c : Rdr.Call) (t : Target) (n : Nat) :
    present c t (.decErr (.discarded n)) = SmlItem.decErr (.discarded n) := by
  cases c <;> rfl

/-- end of input, whatever the target: `read` / `read_nb` return `IoErr(Eof, n)`; `next` /
`next_nb` return `None` iff `n = 0`, i.e. iff nothing is left over -/
theorem present_end (c : Rdr.Call) (t : Target) (n : Nat) :
    present c t (.ioErr .eof n) =
      if (c = .next ∨ c = .nextNb) ∧ n = 0 then SmlItem.none else SmlItem.ioErr .eof n := by
  cases c <;> cases n <;> rfl

/-- `next::<T>` with a target per call: the adapters applied to `expected`, then `None` forever -/
theorem sml_results_next (kind : SrcKind) (hk : kind = .mem ∨ kind = .io) (cap : Option Nat)
    (gs : List (List UInt8 × List UInt8)) (tail : List UInt8)
    (hg : ∀ gp ∈ gs, StartFree gp.1 ∧ fitsCap cap gp.2.length) (ht : StartFree tail)
    (ts : List Target) :
    ((Rdr.new kind cap ((stream gs tail).map Ev.byte)).smlCalls
        (ts.map fun t => (Rdr.Call.next, t))).2 =
      List.zipWith adapt ts (padTo RItem.none (expected gs tail) ts.length) := by
  rw [E2E.smlCalls_next_targets, reader_results kind hk cap gs tail hg ht]

/-- noise as an `SmlReader` result -/
def noiseItem (g : List UInt8) : List SmlItem :=
  if g = [] then [] else [SmlItem.decErr (.discarded g.length)]

/-- leftover bytes at end of input as an `SmlReader` result -/
def tailItem (tail : List UInt8) : List SmlItem :=
  if tail = [] then [] else [SmlItem.ioErr .eof tail.length]

/-- `n` calls of `next::<T>` for one target `T`, any `n`: per frame the noise (if any) and
`T::parse_from` of the payload, in order; the leftover noise; then `None` forever. -/
theorem sml_results_target (kind : SrcKind) (hk : kind = .mem ∨ kind = .io) (cap : Option Nat)
    (gs : List (List UInt8 × List UInt8)) (tail : List UInt8)
    (hg : ∀ gp ∈ gs, StartFree gp.1 ∧ fitsCap cap gp.2.length) (ht : StartFree tail)
    (t : Target) (n : Nat) :
    ((Rdr.new kind cap ((stream gs tail).map Ev.byte)).smlCalls
        (List.replicate n (Rdr.Call.next, t))).2 =
      padTo SmlItem.none
        ((gs.flatMap fun gp => noiseItem gp.1 ++ [adapt t (.ok gp.2)]) ++ tailItem tail) n := by
  rw [E2E.smlCalls_next, reader_results kind hk cap gs tail hg ht, map_padTo]
  show padTo SmlItem.none _ n = _
  unfold expected
  rw [List.map_append]
  show padTo SmlItem.none (List.map (adapt t) (E2E.delivered gs) ++ _) n = _
  rw [E2E.map_adapt_delivered]
  congr 2
  unfold tailItem
  split <;> rfl

/-- as raw payloads (`DecodedBytes`) -/
theorem payloads_in_order (kind : SrcKind) (hk : kind = .mem ∨ kind = .io) (cap : Option Nat)
    (gs : List (List UInt8 × List UInt8)) (tail : List UInt8)
    (hg : ∀ gp ∈ gs, StartFree gp.1 ∧ fitsCap cap gp.2.length) (ht : StartFree tail) (n : Nat) :
    ((Rdr.new kind cap ((stream gs tail).map Ev.byte)).smlCalls
        (List.replicate n (Rdr.Call.next, Target.bytes))).2 =
      padTo SmlItem.none
        ((gs.flatMap fun gp => noiseItem gp.1 ++ [SmlItem.bytes gp.2]) ++ tailItem tail) n :=
  sml_results_target kind hk cap gs tail hg ht .bytes n

/-- the (noise, payload) pairs of a list of (noise, file, encoding of the file) triples -/
def payloads (xs : List (List UInt8 × File × List UInt8)) : List (List UInt8 × List UInt8) :=
  xs.map fun x => (x.1, x.2.2)

/-- As parsed files: for any files `F₁ … F_k`, any valid encodings `p₁ … p_k` of them and any noise
`g₁ … g_k`, `tail`, the reader returns `F₁ … F_k` in order, each preceded by the length of its
noise (if any); then the leftover noise; then `None` forever. -/
theorem files_in_order (kind : SrcKind) (hk : kind = .mem ∨ kind = .io) (cap : Option Nat)
    (xs : List (List UInt8 × File × List UInt8)) (tail : List UInt8)
    (hx : ∀ x ∈ xs, StartFree x.1 ∧ Spec.EncFile x.2.1 x.2.2 ∧ fitsCap cap x.2.2.length)
    (ht : StartFree tail) (n : Nat) :
    ((Rdr.new kind cap ((stream (payloads xs) tail).map Ev.byte)).smlCalls
        (List.replicate n (Rdr.Call.next, Target.file))).2 =
      padTo SmlItem.none
        ((xs.flatMap fun x => noiseItem x.1 ++ [SmlItem.file x.2.1]) ++ tailItem tail) n := by
  rw [sml_results_target kind hk cap (payloads xs) tail (fun gp hgp => by
    obtain ⟨x, hxm, rfl⟩ := List.mem_map.1 hgp
    exact ⟨(hx x hxm).1, (hx x hxm).2.2⟩) ht]
  unfold payloads
  rw [List.flatMap_map]
  congr 2
  apply E2E.flatMap_congr_mem
  intro x hxm
  have h : adapt Target.file (RItem.ok x.2.2) = SmlItem.file x.2.1 :=
    (present_file .next x.2.1 x.2.2 (hx x hxm).2.1).1
  show _ ++ [adapt Target.file (RItem.ok x.2.2)] = _
  rw [h]

/-- As event streams: the same with `Parser`; the items of the `i`-th payload are error-free events
that reassemble (Sml/Spec/Events.lean) to the messages of `F_i`. -/
theorem events_in_order (kind : SrcKind) (hk : kind = .mem ∨ kind = .io) (cap : Option Nat)
    (xs : List (List UInt8 × File × List UInt8)) (tail : List UInt8)
    (hx : ∀ x ∈ xs, StartFree x.1 ∧ Spec.EncFile x.2.1 x.2.2 ∧ fitsCap cap x.2.2.length)
    (ht : StartFree tail) (n : Nat) :
    ((Rdr.new kind cap ((stream (payloads xs) tail).map Ev.byte)).smlCalls
        (List.replicate n (Rdr.Call.next, Target.parser))).2 =
      padTo SmlItem.none
        ((xs.flatMap fun x => noiseItem x.1 ++ [SmlItem.events (C09.events x.2.2)]) ++
          tailItem tail) n ∧
      ∀ x ∈ xs, ∃ evs : List ParseEvent,
        C09.events x.2.2 = evs.map SParser.SItem.ev ∧ Spec.reassemble evs = some x.2.1.messages := by
  refine ⟨?_, fun x hxm => C03.complete_streaming _ _ (hx x hxm).2.1⟩
  rw [sml_results_target kind hk cap (payloads xs) tail (fun gp hgp => by
    obtain ⟨x, hxm, rfl⟩ := List.mem_map.1 hgp
    exact ⟨(hx x hxm).1, (hx x hxm).2.2⟩) ht]
  unfold payloads
  rw [List.flatMap_map]
  rfl

/-! ### 4. `SmlReader` = transport decoder and parser composed by hand, for EVERY byte stream -/

/-- For any byte stream `s` (well-formed or not): `n` calls of `next::<T>` return the payloads and
decode errors of the push decoder (the non-`None` answers of `push_byte`), each passed through
`T::parse_from`, then what `finalize` would report (as `IoErr(Eof, k)` instead of
`DiscardedBytes(k)`), then `None` forever. -/
theorem equals_hand_composition (s : List UInt8) (cap : Option Nat) (kind : SrcKind)
    (hk : kind = .mem ∨ kind = .io) (t : Target) (n : Nat) :
    ((Rdr.new kind cap (s.map Ev.byte)).smlCalls (List.replicate n (Rdr.Call.next, t))).2 =
      padTo SmlItem.none
        ((C15.items (Dec.pushAll (Dec.fresh cap) s).2).map (fun it => adapt t it.toR) ++
          (C15.finalRItem (Dec.pushAll (Dec.fresh cap) s).1).map (adapt t)) n := by
  rw [E2E.smlCalls_next, C15.reader_eq kind hk, map_padTo, List.map_append, List.map_map]
  rfl

/-- The same against the other front-ends: `pre ++ fin` is what `decode` (`Vec` buffer) and
`decode_streaming` (any buffer) return for `s` — `fin` being the trailing `DiscardedBytes(k)` of
`finalize`, if any — and the `SmlReader` returns `T::parse_from` of each element of `pre`, then
`IoErr(Eof, k)` for the same `k` (if any), then `None` forever. -/
theorem equals_decode_then_parse (s : List UInt8) (cap : Option Nat) (kind : SrcKind)
    (hk : kind = .mem ∨ kind = .io) (t : Target) (n : Nat) :
    ∃ (pre fin : List Item) (finR : List RItem),
      C15.collect (DecIter.new cap s) (s.length + 2) = pre ++ fin ∧
      (cap = none → decodeAll s = pre ++ fin) ∧
      ((fin = [] ∧ finR = []) ∨
        ∃ k, 0 < k ∧ fin = [Item.err (.discarded k)] ∧ finR = [RItem.ioErr .eof k]) ∧
      ((Rdr.new kind cap (s.map Ev.byte)).smlCalls (List.replicate n (Rdr.Call.next, t))).2 =
        padTo SmlItem.none (pre.map (fun it => adapt t it.toR) ++ finR.map (adapt t)) n := by
  refine ⟨C15.items (Dec.pushAll (Dec.fresh cap) s).2,
    C15.finalItem (Dec.pushAll (Dec.fresh cap) s).1,
    C15.finalRItem (Dec.pushAll (Dec.fresh cap) s).1, C15.iter_eq cap s, ?_,
    C15.finalItem_cases cap s, equals_hand_composition s cap kind hk t n⟩
  rintro rfl
  exact C15.decode_eq s

/-! ### 5. the frames come from either encoder -/

/-- `b` is what an encoder produced for payload `p`: the buffer encoder (any buffer it fits in),
or the iterator encoder polled to its end -/
def Encoded (p b : List UInt8) : Prop :=
  (∃ capE, encodeBuf capE p = EncRes.ok b) ∨
    b = C01.collect ((Enc.new p).run (frame p).length).2

theorem encoded_vec (p : List UInt8) : encodeBuf none p = EncRes.ok (frame p) := C07.buf_vec p

theorem encoded_iter (p : List UInt8) :
    C01.collect ((Enc.new p).run (frame p).length).2 = frame p := C01.encodeIter_bytes p

/-- both encoders produce exactly `Spec.frame p` -/
theorem encoded_eq_frame (p b : List UInt8) (h : Encoded p b) : b = frame p := by
  rcases h with ⟨capE, h⟩ | h
  · rw [C07.buf_eq_spec] at h
    split at h
    · exact (EncRes.ok.inj h).symm
    · cases h
  · rw [h, C01.encodeIter_bytes]

/-- (noise, payload, encoder output) triples: the byte stream actually sent -/
def encodedStream (xs : List (List UInt8 × List UInt8 × List UInt8)) (tail : List UInt8) :
    List UInt8 :=
  (xs.flatMap fun x => x.1 ++ x.2.2) ++ tail

/-- `reader_results` (and with it everything above) for frames produced by the encoders -/
theorem encoded_stream_eq (xs : List (List UInt8 × List UInt8 × List UInt8)) (tail : List UInt8)
    (hx : ∀ x ∈ xs, Encoded x.2.1 x.2.2) :
    encodedStream xs tail = stream (xs.map fun x => (x.1, x.2.1)) tail := by
  unfold encodedStream stream
  rw [List.flatMap_map]
  congr 1
  apply E2E.flatMap_congr_mem
  intro x hxm
  rw [encoded_eq_frame _ _ (hx x hxm)]

theorem reader_results_encoded (kind : SrcKind) (hk : kind = .mem ∨ kind = .io) (cap : Option Nat)
    (xs : List (List UInt8 × List UInt8 × List UInt8)) (tail : List UInt8)
    (hx : ∀ x ∈ xs, StartFree x.1 ∧ Encoded x.2.1 x.2.2 ∧ fitsCap cap x.2.1.length)
    (ht : StartFree tail) (n : Nat) :
    ((Rdr.new kind cap ((encodedStream xs tail).map Ev.byte)).calls (List.replicate n .next)).2 =
      padTo RItem.none (expected (xs.map fun x => (x.1, x.2.1)) tail) n := by
  rw [encoded_stream_eq xs tail (fun x hxm => (hx x hxm).2.1)]
  exact reader_results kind hk cap _ tail (fun gp hgp => by
    obtain ⟨x, hxm, rfl⟩ := List.mem_map.1 hgp
    exact ⟨(hx x hxm).1, (hx x hxm).2.2⟩) ht n

/-! ### 6. non-vacuity (kernel evaluation) -/

/-- three payloads: a valid close response (C03), four bytes that are not SML, another valid close
response (C09); no noise before the first, noise `00 1b` before the second, the partial start
sequence `1b1b1b1b 01` before the third, and three trailing `1b` -/
def sampleGs : List (List UInt8 × List UInt8) :=
  [([], C03.closeBytes), ([0x00, 0x1b], [1, 2, 3, 4]),
   ([0x1b, 0x1b, 0x1b, 0x1b, 0x01], C09.goodClose)]

def sampleTail : List UInt8 := [0x1b, 0x1b, 0x1b]

example : StartFree ([] : List UInt8) := by decide
example : StartFree [0x00, 0x1b] := by decide
example : StartFree [0x1b, 0x1b, 0x1b, 0x1b, 0x01] := by decide
example : StartFree sampleTail := by decide

/-- the hypotheses of the theorems hold, with an `ArrayBuf<20>` that exactly fits the largest
payload -/
theorem sample_hyp : ∀ gp ∈ sampleGs, StartFree gp.1 ∧ fitsCap (some 20) gp.2.length := by decide

example : (stream sampleGs sampleTail).length = 102 := by decide +kernel

/-- the first payload is a valid encoding of a file -/
theorem sample_enc : Spec.EncFile { messages := [C03.sampleClose] } C03.closeBytes :=
  Gram.mk_file (.cons C03.sample_close_enc .nil)

/-- calls mixing the four entry points and the three targets -/
def sampleCalls : List (Rdr.Call × Target) :=
  [(.next, .file), (.read, .bytes), (.nextNb, .file), (.readNb, .parser), (.next, .parser),
   (.next, .bytes), (.next, .file), (.read, .bytes), (.nextNb, .parser)]

/-- the conclusion, evaluated independently of the theorems: file, noise, parse error of the
non-SML payload, noise, event stream, leftover noise, then `None` / `IoErr(Eof, 0)` -/
example : ((Rdr.new .mem (some 20) ((stream sampleGs sampleTail).map Ev.byte)).smlCalls
      sampleCalls).2 =
    [.file { messages := [C03.sampleClose] }, .decErr (.discarded 2), .parseErr .tlfMismatch,
     .decErr (.discarded 5), .events (C09.events C09.goodClose), .ioErr .eof 3, .none,
     .ioErr .eof 0, .none] := by decide +kernel

example : ((Rdr.new .io none ((stream sampleGs sampleTail).map Ev.byte)).smlCalls
      sampleCalls).2 =
    [.file { messages := [C03.sampleClose] }, .decErr (.discarded 2), .parseErr .tlfMismatch,
     .decErr (.discarded 5), .events (C09.events C09.goodClose), .ioErr .eof 3, .none,
     .ioErr .eof 0, .none] := by decide +kernel

example : (C09.events C09.goodClose).length = 1 := by decide +kernel

/-- the same as instances of the theorems -/
example : ((Rdr.new .mem (some 20) ((stream sampleGs sampleTail).map Ev.byte)).smlCalls
      sampleCalls).2 =
    List.zipWith (fun ct x => present ct.1 ct.2 x) sampleCalls
      (padTo (RItem.ioErr .eof 0) (expectedRead sampleGs sampleTail) sampleCalls.length) :=
  sml_results_calls .mem (Or.inl rfl) (some 20) sampleGs sampleTail sample_hyp (by decide) _

example : expected sampleGs sampleTail =
    [.ok C03.closeBytes, .decErr (.discarded 2), .ok [1, 2, 3, 4], .decErr (.discarded 5),
     .ok C09.goodClose, .ioErr .eof 3] := by decide +kernel

example : ((Rdr.new .io (some 20) ((stream sampleGs sampleTail).map Ev.byte)).calls
      (List.replicate 8 .next)).2 =
    [.ok C03.closeBytes, .decErr (.discarded 2), .ok [1, 2, 3, 4], .decErr (.discarded 5),
     .ok C09.goodClose, .ioErr .eof 3, .none, .none] := by decide +kernel

example : present .nextNb .file (.ok C03.closeBytes) = .file { messages := [C03.sampleClose] } :=
  (present_file _ _ _ sample_enc).1

/-- no trailing noise: `None` right after the last file -/
example : ((Rdr.new .mem none ((stream [([0x1b], C03.closeBytes)] []).map Ev.byte)).smlCalls
      [(.next, .file), (.next, .file), (.next, .file), (.read, .file)]).2 =
    [.decErr (.discarded 1), .file { messages := [C03.sampleClose] }, .none, .ioErr .eof 0] := by
  decide +kernel

/-- the noise class is needed: noise that contains a start sequence (`START ++ 1b`) destroys the
frame that follows -/
example : ¬ StartFree (START ++ [0x1b]) := by decide

example : ((Rdr.new .mem none ((stream [(START ++ [0x1b], [1, 2, 3, 4])] []).map Ev.byte)).calls
      (List.replicate 3 .next)).2 =
    [.decErr (.invalidEsc 0x1b 0x01 0x01 0x01), .ioErr .eof 13, .none] := by decide +kernel

/-- the capacity hypothesis is needed: an `ArrayBuf<3>` cannot hold a payload of four bytes -/
example : ((Rdr.new .mem (some 3) ((stream [([], [1, 2, 3, 4])] []).map Ev.byte)).calls
      (List.replicate 3 .next)).2 = [.decErr .oom, .ioErr .eof 8, .none] := by decide +kernel

end Sml.C10

import Sml.Lemmas.C06
import Sml.Props.C13
/-
  Property C06.

  "For every byte string, the allocating parser and the streaming parser return a value or an
   error: they never panic, abort, overflow a counter or fail to terminate.  The heap memory
   requested by the allocating parser is bounded by a constant multiple of the input length -
   never by a length field declared inside the input - and the streaming parser allocates nothing."

  * Panics / overflows: every Rust panic site of the two parsers is an explicit `PErr.panic`
    outcome of the model (num.rs:18, num.rs:31, tlf.rs:82, complete.rs:83 = streaming.rs:51,
    streaming.rs:44, and the model-only "fuel exhausted").  `no_panic_complete` and
    `no_panic_streaming` show that none is reachable, for every input.
  * Termination: the model functions are total; the only place where the model bounds a Rust
    `while` loop by fuel is `parseMessages`, and `no_panic_complete` includes that the fuel
    `x.length` never runs out.  The streaming iterator ends after at most `|x| + 1` items (C13).
  * Allocation: `parseFileG` (Model/AllocGhost.lean) records every `Vec::with_capacity` request of
    the allocating parser and the number of `messages.push` calls.  `ghost_faithful`,
    `alloc_bound`, `each_request_le`, `pushes_bound`.
  * The streaming parser model has no container (its state is two slices and a counter), so
    "allocates nothing" is not a statement about the model; it is measured on the implementation
    by the test harness with a counting allocator.
-/
namespace Sml.C06
open Sml SParser

/-! ### 1. no panic, no overflow, termination -/

/-- the allocating parser never reaches a panic site; in particular the fuel `x.length` of the
    message loop never runs out -/
theorem no_panic_complete (x : Bytes) (s : String) : parseFile x ≠ .error (.panic s) :=
  parseFile_no_panic x s

/-- no call of the streaming iterator reaches a panic site (incl. the countdown overflow
    streaming.rs:44 and the subtraction streaming.rs:51) -/
theorem no_panic_streaming (x : Bytes) (k : Nat) :
    ∀ it ∈ ((SParser.new x).take k).2, ∀ s, it ≠ some (.err (.panic s)) :=
  take_no_panic k (new x) (inv_new x)

/-- the list loop performs exactly the declared number of iterations when it succeeds, and each
    iteration consumes at least one byte: a successful loop is bounded by the input, whatever
    count was declared -/
theorem entries_bound (n : Nat) (input : Bytes) (es : List ListEntry) (rest : Bytes) :
    parseEntries n input = .ok (es, rest) → es.length = n ∧ rest.length + n ≤ input.length :=
  fun h => ⟨parseEntries_length n input es rest h, ((adv_parseEntries n).ok h).length_le⟩

/-- a declared count above the number of remaining bytes always fails (it cannot make the loop
    run, or allocate, beyond the input) -/
theorem entries_overlong (n : Nat) (input : Bytes) (h : input.length < n) :
    ∃ e, parseEntries n input = .error e ∧ ∀ s, e ≠ .panic s := by
  cases hp : parseEntries n input with
  | error e => exact ⟨e, rfl, fun s hs => (adv_parseEntries n).no_panic input s (hs ▸ hp)⟩
  | ok v =>
    obtain ⟨es, rest⟩ := v
    have := (entries_bound n input es rest hp).2
    omega

/-- the streaming countdown: whatever count a list response announces, the iterator produces at
    most `|x|` list-entry events (at most `|x|` events of any kind) -/
theorem streaming_entries_bound (x : Bytes) (k : Nat) :
    (((SParser.new x).take k).2.filter fun o =>
      match o with
      | some (.ev (.listEntry _)) => true
      | _ => false).length ≤ x.length := by
  obtain ⟨items, _, h2, _, h4⟩ := C13.fused_items x
  rw [h4 k, List.filter_append]
  have hrep : ∀ m, (List.replicate m (none : Option SItem)).filter (fun o =>
      match o with
      | some (.ev (.listEntry _)) => true
      | _ => false) = [] := by
    intro m
    rw [List.filter_eq_nil_iff]
    intro a ha
    rw [List.eq_of_mem_replicate ha]
    simp
  rw [hrep, List.append_nil]
  refine Nat.le_trans (filter_map_some_le _ ?_ _) (Nat.le_trans ?_ h2)
  · intro a ha
    cases a with
    | ev e => rfl
    | err e => simp at ha
  · exact ((List.take_sublist k items).filter _).length_le

/-! ### 2. allocation of the allocating parser -/

/-- the instrumented parser IS the parser -/
theorem ghost_faithful (x : Bytes) : (parseFileG x).1 = parseFile x := parseFileG_fst x

/-- all `Vec::with_capacity` requests of one `parse` call together ask for at most `|x|` list
    entries (each request is at most the input remaining at that point; a successful list consumed
    at least as many bytes as it requested; a failing list is the last thing parsed) -/
theorem alloc_bound_tight (x : Bytes) : (parseFileG x).2.caps.sum ≤ x.length :=
  (parseMessagesG_bound x.length x).1

theorem alloc_bound (x : Bytes) : (parseFileG x).2.caps.sum ≤ 2 * x.length := by
  have := alloc_bound_tight x
  omega

/-- no single request exceeds the input length - never the declared length alone -/
theorem each_request_le (x : Bytes) : ∀ r ∈ (parseFileG x).2.caps, r ≤ x.length :=
  fun r hr => Nat.le_trans (mem_le_sum _ r hr) (alloc_bound_tight x)

/-- every `messages.push` follows a message of at least 7 bytes -/
theorem pushes_bound (x : Bytes) : 7 * (parseFileG x).2.pushes ≤ x.length :=
  (parseMessagesG_bound x.length x).2

/-- the request of one list is the declared count capped by the remaining input -/
theorem request_def (declared : Nat) (input : Bytes) :
    (parseListWithG input ⟨.listOf, declared⟩).2 = [min declared input.length] := rfl

/-! ### 3. non-vacuity -/

/-- message header and list-response fields up to the value list -/
def glrHead : Bytes :=
  [0x76, 0x05, 0x01, 0x02, 0x03, 0x04, 0x62, 0x00, 0x62, 0x00, 0x72, 0x63, 0x07, 0x01,
   0x77, 0x01, 0x02, 0xaa, 0x01, 0x01]

/-- a list response declaring 2^32 - 1 values (the witness of the former 378 GB allocation),
    followed by three more bytes -/
def hugeList : Bytes := glrHead ++ [0xff, 0x8f, 0x8f, 0x8f, 0x8f, 0x8f, 0x8f, 0x0f, 0x77, 0x02, 0xbb]

/-- a complete, valid list response with two values -/
def goodList : Bytes :=
  glrHead ++ [0x72,
    0x77, 0x02, 0xbb, 0x01, 0x01, 0x01, 0x01, 0x62, 0x05, 0x01,
    0x77, 0x02, 0xbc, 0x01, 0x01, 0x01, 0x01, 0x62, 0x06, 0x01,
    0x01, 0x01, 0x63, 0x44, 0x67, 0x00]

example : parseTlf [0xff, 0x8f, 0x8f, 0x8f, 0x8f, 0x8f, 0x8f, 0x0f, 0x77, 0x02, 0xbb] =
    .ok (⟨.listOf, 4294967295⟩, [0x77, 0x02, 0xbb]) := rfl
/-- error kind of a result (`Except` has no `DecidableEq`) -/
def errOf {α : Type} : Except PErr α → Option PErr
  | .error e => some e
  | .ok _ => none

-- declared 4294967295, requested 3 (= remaining input), result: an error, not a panic
example : errOf (parseFileG hugeList).1 = some .unexpectedEOF ∧
    (parseFileG hugeList).2 = ⟨[3], 0⟩ := by decide +kernel
example : errOf (parseFile hugeList) = some .unexpectedEOF := by decide +kernel
example : C13.kinds ((SParser.new hugeList).take 3).2 =
    [some none, some (some .unexpectedEOF), none] := by decide +kernel
-- successful lists request exactly their number of entries; a failing list is the last request
example : (parseFileG (goodList ++ goodList)).2 = ⟨[2, 2], 2⟩ := by decide +kernel
example : errOf (parseFileG (goodList ++ hugeList)).1 = some .unexpectedEOF ∧
    (parseFileG (goodList ++ hugeList)).2 = ⟨[2, 3], 1⟩ := by decide +kernel
example : (parseFile (goodList ++ goodList)).toOption.map (·.messages.length) = some 2 := by
  decide +kernel

end Sml.C06

import Sml.Lemmas.DecSound2
/-
  Property C02.

  "Whenever any decoder front-end reports a payload m after consuming some byte of an arbitrary
  stream, the bytes consumed so far end with exactly the canonical Transport-v1 frame of m: start
  sequence, m with escape sequences doubled, 0-3 zero bytes up to 4-byte alignment, end sequence
  carrying that pad count, and the matching CRC-16/X.25.  Hence no truncated, misaligned, wrongly
  padded, wrongly escaped or checksum-failing byte sequence ever yields data."

  * model : `Dec.push` (`Decoder::push_byte`), histories `Dec.run`, streams `Dec.pushAll`,
            `decodeAll` (`decode`), the reader `Rdr` (Sml/Model/Decode.lean, Frontends.lean)
  * spec  : `Spec.frame` (Sml/Spec/Frame.lean) -- written from the protocol description

  All theorems hold for every buffer capacity (`cap = none` is `Vec<u8>`, `some n` is
  `ArrayBuf<n>`) and for every stream / history, without any length bound.
-/
namespace Sml.C02

open Spec (frame)

/-- the bytes pushed since the latest `finalize` / `reset` operation, since the latest
replacement of the decoder by `Decoder::new()` / `Decoder::from_buf(buf)` (`Op.new`,
`Op.fromBuf stale`), or since the beginning.  The stale contents of a buffer handed to `from_buf`
are not part of it. -/
def consumed (ops : List Op) : List UInt8 :=
  ops.foldl (fun acc op => match op with | .push b => acc ++ [b] | _ => []) []

theorem consumed_eq (ops : List Op) : consumed ops = ops.foldl Dec.consStep [] := by
  unfold consumed
  congr 1

/-- Histories of `push_byte` / `finalize` / `reset` / `new` / `from_buf` on a decoder of any
capacity: if the `i`-th operation reports the payload `m`, the bytes pushed since the latest
`finalize` / `reset` / `new` / `from_buf` end with exactly `frame m`.  (So neither bytes given to
a dropped decoder nor stale buffer contents ever contribute to a payload.) -/
theorem sound (cap : Option Nat) (ops : List Op) (i : Nat) (m : List UInt8)
    (h : (Dec.run (Dec.fresh cap) ops).2[i]? = some (OpOut.out (Out.msg m))) :
    ∃ pre, consumed (ops.take (i + 1)) = pre ++ frame m := by
  rw [consumed_eq]
  exact Dec.sound_run ops i (Dec.sinv_fresh cap) h

/-- Plain streams: if the byte at index `i` makes the decoder report `m`, then the stream up to
and including that byte ends with exactly `frame m`. -/
theorem sound_stream (cap : Option Nat) (s : List UInt8) (i : Nat) (m : List UInt8)
    (h : (Dec.pushAll (Dec.fresh cap) s).2[i]? = some (Out.msg m)) :
    ∃ pre, s.take (i + 1) = pre ++ frame m := by
  simpa using Dec.sound_pushAll s i (Dec.sinv_fresh cap) h

/-- `decode(bytes)`: every decoded payload comes from a canonical frame that occurs in the input
as a contiguous block. -/
theorem sound_decodeAll (s : List UInt8) (m : List UInt8) (h : Item.ok m ∈ decodeAll s) :
    ∃ pre post, s = pre ++ frame m ++ post := by
  simpa using Dec.sound_decodeAll_go s (Dec.sinv_fresh none) h

/-- `decode_streaming(bytes)` / `DecodeIterator` with any buffer: every payload returned by any of
the first `n` calls of `next` comes from a canonical frame that occurs in the input. -/
theorem sound_iter (cap : Option Nat) (s : List UInt8) (n i : Nat) (m : List UInt8)
    (h : ((DecIter.new cap s).take n)[i]? = some (some (Item.ok m))) :
    ∃ pre post, s = pre ++ frame m ++ post :=
  DecIter.sound_take s n i (DecIter.iinv_new cap s) h

/-- the bytes an event list delivers; all other events are faults that deliver nothing -/
def evBytes (evs : List Ev) : List UInt8 :=
  evs.filterMap (fun e => match e with | .byte b => some b | _ => none)

theorem evBytes_eq (evs : List Ev) : evBytes evs = Rdr.evBytes evs := by
  induction evs with
  | nil => rfl
  | cons e evs ih =>
    unfold evBytes at ih ⊢
    cases e <;> simp [Rdr.evBytes, ih]

/-- `DecoderReader` over any byte source (slice / iterator, `std::io::Read`, embedded-hal) with
arbitrary faults (`WouldBlock`, `Interrupted`, other errors, end of input — final or mid-stream,
`Ev.eof`, after which the source delivers more) and any sequence of
`read` / `next` / `read_nb` / `next_nb` calls: every returned payload comes from a canonical frame
that occurs as a contiguous block in the bytes the source delivered. -/
theorem sound_reader (kind : SrcKind) (cap : Option Nat) (evs : List Ev) (cs : List Rdr.Call)
    (i : Nat) (m : List UInt8)
    (h : ((Rdr.new kind cap evs).calls cs).2[i]? = some (RItem.ok m)) :
    ∃ pre post, evBytes evs = pre ++ frame m ++ post := by
  rw [evBytes_eq]
  exact Rdr.sound_calls _ cs i (Rdr.rinv_new kind cap evs) h

/-! ### non-vacuity -/

/-- noise, a frame, noise: the payload is reported at the last byte of the frame (index 22) -/
example :
    (Dec.pushAll (Dec.fresh none)
      ([0xaa, 0x1b, 0x01] ++ frame [0x12, 0x34, 0x56, 0x78] ++ [0x1b, 0x1b, 0xcc])).2[22]? =
      some (Out.msg [0x12, 0x34, 0x56, 0x78]) := by
  decide +kernel

/-- a payload that needs a literal escape, padding, and the re-alignment path -/
example :
    (Dec.pushAll (Dec.fresh (some 16))
      (frame [0x1b, 0x1b, 0x1b, 0x1b, 0x1b, 0x00, 0x1b])).2[(frame [0x1b, 0x1b, 0x1b, 0x1b, 0x1b,
        0x00, 0x1b]).length - 1]? = some (Out.msg [0x1b, 0x1b, 0x1b, 0x1b, 0x1b, 0x00, 0x1b]) := by
  decide +kernel

/-- a history with a `from_buf` whose buffer holds stale bytes, in the middle of a frame: the
payload reported later is that of the frame pushed after it -/
example :
    (Dec.run (Dec.fresh (some 4))
      (((frame [0xaa, 0xbb]).take 10).map Op.push ++ [Op.fromBuf [1, 2, 3, 4]] ++
        (frame [0x12, 0x34, 0x56, 0x78]).map Op.push)).2[30]? =
      some (OpOut.out (Out.msg [0x12, 0x34, 0x56, 0x78])) := by
  decide +kernel

example : consumed ([Op.push 1, Op.push 2, Op.fromBuf [7, 7], Op.push 3, Op.new, Op.push 4,
    Op.push 5]) = [4, 5] := by decide

example : (Item.ok [0x12, 0x34, 0x56, 0x78]) ∈
    decodeAll ([0xaa] ++ frame [0x12, 0x34, 0x56, 0x78] ++ [0xbb]) := by
  decide +kernel

example :
    ((DecIter.new (some 8) ([0xaa] ++ frame [0x12, 0x34, 0x56, 0x78] ++ [0xbb])).take 3) =
      [some (Item.err (.discarded 1)), some (Item.ok [0x12, 0x34, 0x56, 0x78]),
        some (Item.err (.discarded 1))] := by
  decide +kernel

/-- a reader over `std::io::Read` with faults between and inside the frame -/
example :
    ((Rdr.new .io none
      ([Ev.byte 0xaa, Ev.wouldBlock] ++ (frame [0x12, 0x34]).map Ev.byte ++ [Ev.other])).calls
        [.read, .read, .read, .next]).2 =
      [RItem.ioErr .wouldBlock 0, RItem.decErr (.discarded 1), RItem.ok [0x12, 0x34],
        RItem.ioErr .other 0] := by
  decide +kernel

/-- a mid-stream end of input between noise and a frame, and one after it -/
example :
    ((Rdr.new .io none
      ([Ev.byte 0xaa, Ev.eof] ++ (frame [0x12, 0x34]).map Ev.byte ++ [Ev.eof, Ev.byte 0xbb])).calls
        [.next, .next, .next, .read, .next]).2 =
      [RItem.ioErr .eof 1, RItem.ok [0x12, 0x34], RItem.none, RItem.ioErr .eof 1, RItem.none] := by
  decide +kernel

end Sml.C02

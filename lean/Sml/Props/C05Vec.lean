import Sml.Lemmas.DecFallible
import Sml.Props.C02
import Sml.Props.C05
import Sml.Props.C14
/-
  Properties C05 / C14 / C02 / C17 for a decoder over a `Vec<u8>` whose allocation can FAIL.

  `impl Buffer for Vec<u8>` (src/util.rs:44-73) maps a failed `try_reserve` to `Err(OutOfMemory)`;
  `push_inner` (decode.rs:443-449) then resets the decoder and `push_byte` returns
  `DecodeErr::OutOfMemory`, exactly as for a full `ArrayBuf`.  The model `Dec` with `cap = none`
  (all of C01–C17) assumes that this never happens.  A `Vec` that fails once and later succeeds is
  covered here.

  * model : `DecF` (Sml/Model/DecodeFallible.lean) = `Dec` + an allocation oracle
            `alloc : List Bool`, one answer consumed per `buf.push` attempt (`true` = succeeds,
            `false` = `Err(OutOfMemory)`, `[]` = succeeds from now on).  `DecF.fresh alloc` is
            `Decoder::<Vec<u8>>::new()` in a world whose allocator answers `alloc`;
            `DecF.freshCap cap alloc` is the same over a buffer of capacity `cap` (a bounded buffer
            whose pushes may additionally fail spuriously).
            `DecF.step` / `run` / `pushAll` are the histories of `Frontends.lean`.
  * every theorem holds for EVERY oracle (failures at arbitrary pushes, any number of them, pushes
    after a failure may succeed again), every history and every stream, without length bounds.
  * method (Sml/Lemmas/DecFallible.lean): `DecF.step_rel` — an operation of `DecF` either is the
    operation of `Dec` on the same state (same answer, same new state), or the oracle contained a
    `false`, the answer is `OutOfMemory` and the new state is a reset one; the invariants of
    C05 (`Dec.Inv`), C14 (`Dec.norm`), C02 (`Dec.SInv`) and C17 (`Dec.TInv`) all hold in a reset
    state.
-/

/-! ## C05: never a panic; the old theorems are the special case of an oracle that never fails -/
namespace Sml.C05

/-- the simulation: one operation of the fallible decoder
    * only consumes the oracle, and
    * either is the operation of `Dec` (same answer, same new decoder state),
    * or the oracle had a `false`, the answer is `Err(OutOfMemory)` and the decoder has been
      reset (`DecF.blank c cap` is the state `reset` leaves: `LookingForMessageStart{0,0}`,
      `raw_msg_len = 0`, `zero_cache = 0`, empty buffer of the same capacity). -/
theorem step_refines_or_oom (f : DecF) (op : Op) :
    (f.step op).1.alloc <:+ f.alloc ∧
    (((f.step op).1.d = (f.d.step op).1 ∧ (f.step op).2 = (f.d.step op).2) ∨
      ((∃ a ∈ f.alloc, a = false) ∧ (∃ c, (f.step op).1.d = DecF.blank c f.d.buf.cap) ∧
        (f.step op).2 = .out (.err .oom))) := by
  refine ⟨DecF.step_suffix f op, ?_⟩
  rcases DecF.step_cases f op with h | ⟨hn, hc, e⟩
  · exact Or.inl h
  · exact Or.inr ⟨DecF.exists_false_of_not_allTrue hn, hc, e⟩

/-- (1) With an allocator that never fails (`alloc = []`, or all `true`) the fallible decoder
    produces exactly the answers and the final decoder state of the model `Dec` with `cap = none`:
    all existing theorems about `Dec.run (Dec.fresh none)` are the special case. -/
theorem always_true_eq (alloc : List Bool) (h : ∀ a ∈ alloc, a = true) (ops : List Op) :
    (DecF.run (DecF.fresh alloc) ops).2 = (Dec.run (Dec.fresh none) ops).2 ∧
      (DecF.run (DecF.fresh alloc) ops).1.d = (Dec.run (Dec.fresh none) ops).1 := by
  obtain ⟨e1, e2, _⟩ := DecF.run_allTrue ops (f := DecF.fresh alloc) h
  exact ⟨e2, e1⟩

/-- ... for byte streams -/
theorem always_true_eq_stream (alloc : List Bool) (h : ∀ a ∈ alloc, a = true) (s : List UInt8) :
    (DecF.pushAll (DecF.fresh alloc) s).2 = (Dec.pushAll (Dec.fresh none) s).2 ∧
      (DecF.pushAll (DecF.fresh alloc) s).1.d = (Dec.pushAll (Dec.fresh none) s).1 := by
  obtain ⟨e1, e2⟩ := DecF.pushAll_allTrue s (f := DecF.fresh alloc) h
  exact ⟨e2, e1⟩

/-- ... and for every capacity, from every state -/
theorem always_true_eq_from (f : DecF) (h : ∀ a ∈ f.alloc, a = true) (ops : List Op) :
    (f.run ops).2 = (f.d.run ops).2 ∧ (f.run ops).1.d = (f.d.run ops).1 := by
  obtain ⟨e1, e2, _⟩ := DecF.run_allTrue ops h
  exact ⟨e2, e1⟩

/-- (2) C05 for a `Vec<u8>` that may fail anywhere: no call in any history panics, whatever the
    allocator does -/
theorem no_panic_fallible (alloc : List Bool) (ops : List Op) :
    ∀ o ∈ (DecF.run (DecF.fresh alloc) ops).2, ∀ s, o ≠ OpOut.out (Out.panic s) :=
  DecF.run_no_panic ops (f := DecF.fresh alloc) (Dec.inv_fresh none)

/-- ... also over a bounded buffer that additionally fails spuriously -/
theorem no_panic_fallible_cap (cap : Option Nat) (alloc : List Bool) (ops : List Op) :
    ∀ o ∈ (DecF.run (DecF.freshCap cap alloc) ops).2, ∀ s, o ≠ OpOut.out (Out.panic s) :=
  DecF.run_no_panic ops (f := DecF.freshCap cap alloc) (Dec.inv_fresh cap)

/-- ... and for byte streams -/
theorem no_panic_fallible_stream (alloc : List Bool) (s : List UInt8) :
    ∀ o ∈ (DecF.pushAll (DecF.fresh alloc) s).2, ∀ t, o ≠ Out.panic t :=
  DecF.pushAll_no_panic s (f := DecF.fresh alloc) (Dec.inv_fresh none)

/-- after any history (in particular after any allocation failure) the decoder satisfies the
    invariant `Dec.Inv` of C05 again, i.e. it is as usable as before -/
theorem inv_reachable_fallible (cap : Option Nat) (alloc : List Bool) (ops : List Op) :
    Inv (DecF.run (DecF.freshCap cap alloc) ops).1.d :=
  DecF.run_inv ops (f := DecF.freshCap cap alloc) (Dec.inv_fresh cap)

/-- the fallible step keeps the invariant and does not panic under it: a failed push resets to a
    state that satisfies `Inv` -/
theorem inv_step_fallible {f : DecF} (h : Inv f.d) (op : Op) :
    Inv (f.step op).1.d ∧ (f.step op).1.d.buf.cap = f.d.buf.cap ∧
      ∀ s, (f.step op).2 ≠ OpOut.out (Out.panic s) :=
  ⟨DecF.step_inv h op, DecF.step_cap h op, DecF.step_no_panic h op⟩

/-- every call answers, and the oracle is only consumed -/
theorem run_length_fallible (f : DecF) (ops : List Op) :
    (f.run ops).2.length = ops.length ∧ (f.run ops).1.alloc <:+ f.alloc :=
  ⟨DecF.run_length ops f, DecF.run_suffix ops f⟩

end Sml.C05

/-! ## C14: an allocation failure leaves a decoder that is as good as new -/
namespace Sml.C14

/-- (3) Immediately after an `OutOfMemory` answer the underlying decoder is equivalent (`Equiv`:
    equal up to fields no later operation can observe) to a newly constructed one. -/
theorem oom_leaves_fresh (alloc : List Bool) (ops : List Op) (op : Op)
    (h : ((DecF.run (DecF.fresh alloc) ops).1.step op).2 = .out (.err .oom)) :
    Equiv (DecF.run (DecF.fresh alloc) (ops ++ [op])).1.d (Dec.fresh none) := by
  have hinv := DecF.run_inv ops (f := DecF.fresh alloc) (Dec.inv_fresh none)
  have hcap := DecF.run_cap ops (f := DecF.fresh alloc) (Dec.inv_fresh none)
  have := (DecF.step_boundary_equiv hinv op (by rw [h]; simp) (by rw [h]; simp)
    (by rw [h]; simp)).1
  rw [hcap] at this
  rw [DecF.run_snoc]
  exact this

/-- the same after every boundary answer of C14 (a transmission, `InvalidMessage`, `InvalidEsc`,
    `OutOfMemory`, `finalize`, `reset`, `new`, `from_buf`), for every capacity -/
theorem boundary_equiv_fresh_fallible (cap : Option Nat) (alloc : List Bool) (ops : List Op)
    (op : Op) (h : Boundary ((DecF.run (DecF.freshCap cap alloc) ops).1.step op).2) :
    Equiv (DecF.run (DecF.freshCap cap alloc) (ops ++ [op])).1.d (Dec.fresh cap) := by
  obtain ⟨h1, h2, h3⟩ := boundary_cases h
  have hinv := DecF.run_inv ops (f := DecF.freshCap cap alloc) (Dec.inv_fresh cap)
  have hcap := DecF.run_cap ops (f := DecF.freshCap cap alloc) (Dec.inv_fresh cap)
  have := (DecF.step_boundary_equiv hinv op h1 h2 h3).1
  rw [hcap] at this
  rw [DecF.run_snoc]
  exact this

/-- Consequently: if the last answer of a history is `OutOfMemory`, every continuation (bytes,
    `finalize`, `reset`, ...) is answered exactly as by a new decoder — in a world whose allocator
    goes on with the part of the oracle that has not been consumed. -/
theorem oom_then_as_new (alloc : List Bool) (ops : List Op)
    (h : (DecF.run (DecF.fresh alloc) ops).2.getLast? = some (.out (.err .oom))) (c : List Op) :
    (DecF.run (DecF.run (DecF.fresh alloc) ops).1 c).2 =
      (DecF.run (DecF.fresh (DecF.run (DecF.fresh alloc) ops).1.alloc) c).2 :=
  DecF.run_after_boundary (f := DecF.fresh alloc) (Dec.inv_fresh none) ops
    ⟨_, h, by simp, by simp, by simp⟩ c

/-- the same after every boundary answer, for every capacity -/
theorem boundary_fresh_fallible (cap : Option Nat) (alloc : List Bool) (ops : List Op)
    (h : ∃ o, (DecF.run (DecF.freshCap cap alloc) ops).2.getLast? = some o ∧ Boundary o)
    (c : List Op) :
    (DecF.run (DecF.run (DecF.freshCap cap alloc) ops).1 c).2 =
      (DecF.run (DecF.freshCap cap (DecF.run (DecF.freshCap cap alloc) ops).1.alloc) c).2 := by
  obtain ⟨o, hl, hb⟩ := h
  exact DecF.run_after_boundary (f := DecF.freshCap cap alloc) (Dec.inv_fresh cap) ops
    ⟨o, hl, boundary_cases hb⟩ c

/-- Recovery: once the allocator has stopped failing (the remaining oracle is all `true`), a
    decoder that has just reported `OutOfMemory` (or any other boundary answer) answers every
    continuation exactly like the infallible model `Dec` started anew — so every later frame is
    delivered (C01, C03, C04, ... apply to the rest of the stream). -/
theorem recovers (alloc : List Bool) (ops : List Op)
    (h : ∃ o, (DecF.run (DecF.fresh alloc) ops).2.getLast? = some o ∧ Boundary o)
    (hrest : ∀ a ∈ (DecF.run (DecF.fresh alloc) ops).1.alloc, a = true) (c : List Op) :
    (DecF.run (DecF.run (DecF.fresh alloc) ops).1 c).2 = (Dec.run (Dec.fresh none) c).2 := by
  refine (boundary_fresh_fallible none alloc ops h c).trans ?_
  exact (DecF.run_allTrue c (f := DecF.freshCap none _) hrest).2.1

end Sml.C14

/-! ## C02: soundness in the presence of allocation failures -/
namespace Sml.C02

open Spec (frame)

/-- (4) Whenever the fallible decoder reports a payload `m` at operation `i` of a history, the
    bytes pushed since the latest `finalize` / `reset` / `new` / `from_buf` end with exactly
    `frame m` — whatever the allocator did before.  (An allocation failure only moves the decoder
    to the reset state, which satisfies the soundness invariant for every consumed prefix.) -/
theorem sound_fallible (alloc : List Bool) (ops : List Op) (i : Nat) (m : List UInt8)
    (h : (DecF.run (DecF.fresh alloc) ops).2[i]? = some (OpOut.out (Out.msg m))) :
    ∃ pre, consumed (ops.take (i + 1)) = pre ++ frame m := by
  rw [consumed_eq]
  exact DecF.sound_run ops i (f := DecF.fresh alloc) (Dec.sinv_fresh none) h

/-- ... for every capacity -/
theorem sound_fallible_cap (cap : Option Nat) (alloc : List Bool) (ops : List Op) (i : Nat)
    (m : List UInt8)
    (h : (DecF.run (DecF.freshCap cap alloc) ops).2[i]? = some (OpOut.out (Out.msg m))) :
    ∃ pre, consumed (ops.take (i + 1)) = pre ++ frame m := by
  rw [consumed_eq]
  exact DecF.sound_run ops i (f := DecF.freshCap cap alloc) (Dec.sinv_fresh cap) h

/-- Plain streams: if the byte at index `i` makes the fallible decoder report `m`, the stream up
    to and including that byte ends with exactly `frame m`. -/
theorem sound_stream_fallible (alloc : List Bool) (s : List UInt8) (i : Nat) (m : List UInt8)
    (h : (DecF.pushAll (DecF.fresh alloc) s).2[i]? = some (Out.msg m)) :
    ∃ pre, s.take (i + 1) = pre ++ frame m := by
  simpa using DecF.sound_pushAll s i (f := DecF.fresh alloc) (Dec.sinv_fresh none) h

end Sml.C02

/-! ## C17: the reports still tile the stream -/
namespace Sml.C17

open Spec (tileOps pushCount)

/-- Every report of every operation is the one the positions dictate (walker `Spec.tileOps` of
    Sml/Spec/Tiling.lean), also across allocation failures: an `OutOfMemory` ends the tile of the
    frame it interrupts at the current position, and the `DiscardedBytes` count reported at the
    next start sequence is exactly the number of bytes between that position and the start
    sequence. -/
theorem tiling_history_fallible (cap : Option Nat) (alloc : List Bool) (ops : List Op) :
    ∃ b, tileOps 0 0 (DecF.run (DecF.freshCap cap alloc) ops).2 = some (b, pushCount ops) := by
  obtain ⟨b, e, _⟩ := DecF.tinv_run ops (f := DecF.freshCap cap alloc) (Dec.tinv_fresh cap)
  rw [Nat.zero_add] at e
  exact ⟨b, e⟩

end Sml.C17

/-! ## non-vacuity -/
namespace Sml.C05

open Spec (frame)

/-- Two frames; the allocator fails at the second payload byte of the first frame (`[true, false]`):
    `OutOfMemory` at that byte (index 9), the remaining 10 bytes of the first frame are noise,
    reported as `DiscardedBytes(10)` when the second start sequence completes, then the second
    frame's payload is delivered. -/
example :
    (DecF.pushAll (DecF.fresh [true, false])
      (frame [0x12, 0x34, 0x56, 0x78] ++ frame [0xaa, 0x00, 0xbb])).2 =
      List.replicate 9 Out.none ++ [Out.err .oom] ++ List.replicate 17 Out.none ++
        [Out.err (.discarded 10)] ++ List.replicate 11 Out.none ++ [Out.msg [0xaa, 0x00, 0xbb]] := by
  decide +kernel

/-- the same stream with an allocator that never fails: both payloads (and the model `Dec`) -/
example :
    (DecF.pushAll (DecF.fresh [true, true, true, true, true, true, true, true])
      (frame [0x12, 0x34, 0x56, 0x78] ++ frame [0xaa, 0x00, 0xbb])).2.filterMap Out.toItem? =
      [.ok [0x12, 0x34, 0x56, 0x78], .ok [0xaa, 0x00, 0xbb]] := by
  decide +kernel

/-- the allocator fails twice, in two different frames, and the third frame gets through; the
    second failure happens in the `flush` of cached zero bytes at the very last byte of its frame
    (`pushEnd`), so that frame's last byte reports `OutOfMemory` instead of the payload -/
example :
    (DecF.pushAll (DecF.fresh [false, true, true, false])
      (frame [0x12] ++ frame [0x01, 0x00, 0x00, 0x00] ++ frame [0x34])).2.filterMap Out.toItem? =
      [.err .oom, .err (.discarded 11), .err .oom, .ok [0x34]] := by
  decide +kernel

/-- the oracle is consumed one answer per buffer push: the frame of `01 00 00 02` makes 4 pushes
    (`01`; the two cached zero bytes, flushed when `02` arrives; `02`), the start and end sequences
    make none; the fifth answer (`false`) is still there afterwards -/
example :
    (DecF.pushAll (DecF.fresh [true, true, true, true, false])
      (frame [0x01, 0x00, 0x00, 0x02])).1.alloc = [false] ∧
    (DecF.pushAll (DecF.fresh [true, true, true, true, false])
      (frame [0x01, 0x00, 0x00, 0x02])).2.getLast? = some (Out.msg [0x01, 0x00, 0x00, 0x02]) := by
  decide +kernel

end Sml.C05

namespace Sml.C14

open Spec (frame)

/-- the hypothesis of `oom_leaves_fresh` / `oom_then_as_new` on a concrete history -/
example : (DecF.run (DecF.fresh [true, false])
      ((frame [0x12, 0x34, 0x56, 0x78]).take 10 |>.map Op.push)).2.getLast? =
    some (.out (.err .oom)) := by
  decide +kernel

/-- ... and its conclusion: the frame pushed after the failure is delivered, as by a new decoder -/
example : (DecF.run (DecF.run (DecF.fresh [true, false])
      ((frame [0x12, 0x34, 0x56, 0x78]).take 10 |>.map Op.push)).1
        ((frame [0xaa, 0xbb]).map Op.push)).2.getLast? = some (.out (.msg [0xaa, 0xbb])) := by
  decide +kernel

end Sml.C14

namespace Sml.C02

open Spec (frame)

/-- the hypothesis of `sound_stream_fallible` is met after a failure: index 39 of the two-frame
    stream reports the second payload -/
example :
    (DecF.pushAll (DecF.fresh [true, false])
      (frame [0x12, 0x34, 0x56, 0x78] ++ frame [0xaa, 0x00, 0xbb])).2[39]? =
      some (Out.msg [0xaa, 0x00, 0xbb]) := by
  decide +kernel

end Sml.C02

import Sml.Lemmas.DecBasic
/-
  Property C05.

  "Every transport entry point (both encoders, the push decoder with finalize and reset, decode,
  decode_streaming and the reader front-ends) returns normally for every input and every order of
  calls: it never panics, aborts, loops or overflows an internal counter, whatever the stream
  length, the length of a noise run or the buffer capacity.  Every failure is reported as an
  error value, after which the same object remains usable."

  * model : `Dec` (Sml/Model/Decode.lean), `Dec.run` / `decodeAll` / `DecIter` / `Rdr`
            (Sml/Model/Frontends.lean), `Enc` / `encodeBuf` (Sml/Model/Encode.lean).
    Every Rust panic site (checked u8 / usize arithmetic, array indexing, `borrow_buf` guard,
    `assert_eq!`, `unreachable!`) is an explicit `panic` outcome of the model; the theorems say
    that no such outcome is ever produced.
  * invariant : `Dec.Inv` (Sml/Lemmas/DecBasic.lean):
      `zc ≤ 4`, `Buf.WF` (length ≤ capacity), and per state
      - `look disc init` : `init ≤ 7 ∧ zc = 0 ∧ buf.rdata = [] ∧ raw = disc + init`
      - `normal`         : `buf.len + zc + 8 ≤ raw`
      - `escChars n`     : `1 ≤ n ≤ 3 ∧ buf.len + zc + n + 8 ≤ raw`
      - `escPayload k _` : `k ≤ 3 ∧ buf.len + zc + k + 12 ≤ raw`
      - `done`           : `buf.len + 16 ≤ raw`
    so outside `look` always `8 ≤ raw` (`Dec.Inv.raw_ge`).
  * termination : every model function used here (`Dec.pushByte`, `Dec.push`, `Dec.finalize`,
    `Dec.reset`, `Dec.run`, `Dec.pushAll`, `decodeAll`, `DecIter.pull` / `next` / `take`,
    `Rdr.readLoop` / `read` / `next` / `readNb` / `nextNb` / `calls`, `Enc.next` / `Enc.run`,
    `encodeBuf` / `encodeLoop`) is a total Lean function accepted by structural recursion: no
    `partial`, no fuel.  (`Enc.run` takes the *number of calls* as its argument; that is the
    history length, not fuel.)  The only loops of the Rust code, `DecodeIterator::next` and
    `DecoderReader::read`, consume one input byte / source event per iteration (`DecIter.pull`,
    `Rdr.readLoop` recurse on the remaining input); the self-call of `push_byte` in state `Done`
    happens at most once (unfolded in `Dec.pushByte`; its second `Done` arm is a panic outcome,
    which is excluded below).
  * `encodeBuf : Option Nat → List UInt8 → EncRes` is total; its only panic site, the slice index
    `&[0x0; 3][..num_padding_bytes]` (encode.rs:203), is the explicit outcome `EncRes.panic`,
    excluded by `encodeBuf_no_panic`; C07 shows which of the two remaining results it returns.
    The index `crc_bytes[(n - 6) as usize]` of the iterator encoder (encode.rs:121) is the explicit
    outcome `EOut.panic "encode.rs:121 …"`, covered by `encoder_total`.

  All theorems hold for every stream / history length and every buffer capacity (`cap = none` is
  `Vec<u8>`, `cap = some n` is `ArrayBuf<n>`).
-/
namespace Sml.C05

/-- the decoder state invariant (see the header) -/
abbrev Inv : Dec → Prop := Dec.Inv

/-! ### (a) the invariant holds initially and is preserved; no operation panics under it -/

theorem inv_fresh (cap : Option Nat) : Inv (Dec.fresh cap) := Dec.inv_fresh cap

theorem inv_pushByte {d : Dec} (h : Inv d) (b : UInt8) :
    Inv (d.pushByte b).1 ∧ (d.pushByte b).1.buf.cap = d.buf.cap ∧
      (d.pushByte b).1.raw ≤ d.raw + 1 ∧ ∀ s, (d.pushByte b).2 ≠ Res.panic s :=
  Dec.pushByte_good h b

theorem inv_push {d : Dec} (h : Inv d) (b : UInt8) :
    Inv (d.push b).1 ∧ (d.push b).1.buf.cap = d.buf.cap ∧ ∀ s, (d.push b).2 ≠ Out.panic s :=
  ⟨Dec.push_inv h b, Dec.push_cap h b, Dec.push_no_panic h b⟩

/-- `finalize` and `reset` have no panic outcome by type (`Option DecErr`, `Nat`); they establish
the invariant from *any* state and keep the capacity -/
theorem inv_finalize (d : Dec) : Inv d.finalize.1 ∧ d.finalize.1.buf.cap = d.buf.cap :=
  ⟨Dec.inv_finalize d, rfl⟩

theorem inv_reset (d : Dec) : Inv d.reset.1 ∧ d.reset.1.buf.cap = d.buf.cap :=
  ⟨Dec.inv_reset d, rfl⟩

/-- consequences of the invariant that bound the counters -/
theorem inv_bounds {d : Dec} (h : Inv d) :
    d.zc ≤ 4 ∧ d.buf.WF ∧ d.buf.len + d.zc ≤ d.raw ∧
      ((∀ disc init, d.st ≠ .look disc init) → 8 ≤ d.raw) ∧
      (∀ disc init, d.st = .look disc init →
        init ≤ 7 ∧ d.zc = 0 ∧ d.buf.rdata = [] ∧ d.raw = disc + init) ∧
      (∀ n, d.st = .escChars n → 1 ≤ n ∧ n ≤ 3) ∧
      (∀ step q, d.st = .escPayload step q → step ≤ 3) :=
  ⟨h.zc_le, h.wf, h.len_le_raw, h.raw_ge, fun _ _ hs => h.look hs,
    fun _ hs => ⟨(h.escChars hs).1, (h.escChars hs).2.1⟩, fun _ _ hs => (h.escPayload hs).1⟩

/-! ### (b) every history of `push_byte` / `finalize` / `reset` calls, with replacements of the
decoder by `Decoder::new()` / `Decoder::from_buf(buf)` (any stale buffer contents) in between -/

/-- no call in any history panics -/
theorem no_panic (cap : Option Nat) (ops : List Op) :
    ∀ o ∈ (Dec.run (Dec.fresh cap) ops).2, ∀ s, o ≠ OpOut.out (Out.panic s) :=
  Dec.run_no_panic ops (Dec.inv_fresh cap)

/-- after any history (in particular after any error) the decoder satisfies the invariant again,
i.e. it is as usable as before; all failures are `Out.err` / `OpOut.fin` values -/
theorem inv_reachable (cap : Option Nat) (ops : List Op) :
    Inv (Dec.run (Dec.fresh cap) ops).1 :=
  Dec.run_inv ops (Dec.inv_fresh cap)

/-- the buffer capacity never changes -/
theorem cap_reachable (cap : Option Nat) (ops : List Op) :
    (Dec.run (Dec.fresh cap) ops).1.buf.cap = cap :=
  Dec.run_cap ops (Dec.inv_fresh cap)

/-- every call answers: one result per operation -/
theorem run_length (cap : Option Nat) (ops : List Op) :
    (Dec.run (Dec.fresh cap) ops).2.length = ops.length :=
  Dec.run_length ops _

/-! ### (c) the front-ends -/

/-- `decode` -/
theorem decodeAll_no_panic (s : List UInt8) : ∀ x ∈ decodeAll s, ∀ t, x ≠ Item.panic t := by
  unfold decodeAll
  rw [decodeAll_go_eq s (Dec.inv_fresh none)]
  exact Dec.allItems_no_panic (Dec.inv_fresh none) s

/-- `decode_streaming`: any number of `next` calls, also after the end -/
theorem iter_no_panic (cap : Option Nat) (s : List UInt8) (n : Nat) :
    ∀ x ∈ (DecIter.new cap s).take n, ∀ t, x ≠ some (Item.panic t) := by
  intro x hx t hc
  rw [DecIter.take_new, padTo] at hx
  rcases List.mem_append.1 (List.mem_of_mem_take hx) with hx | hx
  · obtain ⟨y, hy, rfl⟩ := List.mem_map.1 hx
    exact Dec.allItems_no_panic (Dec.inv_fresh cap) s y hy t (Option.some.inj hc)
  · rw [List.eq_of_mem_replicate hx] at hc
    cases hc

/-- `DecoderReader` over any source kind, any sequence of source events (bytes, `WouldBlock`,
`Interrupted`, other I/O errors, end of input — also mid-stream, `Ev.eof`, with more data
afterwards) and any sequence of `read` / `next` / `read_nb` / `next_nb` calls -/
theorem reader_no_panic (kind : SrcKind) (cap : Option Nat) (evs : List Ev) (cs : List Rdr.Call) :
    ∀ x ∈ ((Rdr.new kind cap evs).calls cs).2, ∀ t, x ≠ RItem.panic t :=
  (Rdr.calls_good cs (r := Rdr.new kind cap evs) (Dec.inv_fresh cap)).2

/-- ... and the decoder inside the reader stays usable -/
theorem reader_inv (kind : SrcKind) (cap : Option Nat) (evs : List Ev) (cs : List Rdr.Call) :
    Inv ((Rdr.new kind cap evs).calls cs).1.dec :=
  (Rdr.calls_good cs (r := Rdr.new kind cap evs) (Dec.inv_fresh cap)).1

/-! ### (d) the encoders -/

/-- the iterator encoder: any number of `next` calls, including calls after `None` -/
theorem encoder_total (p : List UInt8) (n : Nat) :
    ∀ o ∈ ((Enc.new p).run n).2, ∀ s, o ≠ EOut.panic s :=
  (Enc.run_good n (Enc.einv_new p)).2

/-- the buffer encoder: the padding slice `&[0x0; 3][..num_padding_bytes]` (encode.rs:203) is
always in range, for every payload and every buffer capacity -/
theorem encodeBuf_no_panic (cap : Option Nat) (p : List UInt8) :
    ∀ s, encodeBuf cap p ≠ EncRes.panic s := by
  intro s
  rw [encodeBuf_eq]
  unfold finish
  split <;> simp

/-- one answer per call -/
theorem encoder_run_length (p : List UInt8) (n : Nat) : ((Enc.new p).run n).2.length = n := by
  generalize Enc.new p = e
  induction n generalizing e with
  | zero => rfl
  | succ n ih => rw [Enc.run_succ]; simp [ih]

/-! ### non-vacuity: concrete histories that hit the error paths and go on -/

/-- noise, a reset, noise again, a finalize: errors are values, the decoder keeps answering -/
example : (Dec.run (Dec.fresh (some 4))
      [.push 0x00, .push 0x1b, .reset, .push 0x07, .fin, .fin]).2 =
    [.out .none, .out .none, .reset 2, .out .none, .fin (some (.discarded 1)), .fin none] := by
  decide

/-- a `from_buf` whose buffer is full of stale bytes, and a `new`, in mid-history -/
example : (Dec.run (Dec.fresh (some 2))
      [.push 0x00, .push 0x1b, .fromBuf [7, 8], .push 0x07, .reset, .new, .fin]).2 =
    [.out .none, .out .none, .fromBuf, .out .none, .reset 1, .new, .fin none] := by
  decide

/-- out-of-memory with `ArrayBuf<1>`: an error value, afterwards the decoder accepts bytes again -/
example : (Dec.run (Dec.fresh (some 1))
      ([0x1b, 0x1b, 0x1b, 0x1b, 0x01, 0x01, 0x01, 0x01, 0x05, 0x06, 0x07].map Op.push)).2 =
    List.replicate 9 (.out .none) ++ [.out (.err .oom), .out .none] := by
  decide +kernel

/-- an invalid escape sequence is an error value; `reader` then reports end of input -/
example : ((Rdr.new .io none
      ([0x1b, 0x1b, 0x1b, 0x1b, 0x01, 0x01, 0x01, 0x01, 0x1b, 0x1b, 0x1b, 0x1b, 0x02, 0x00, 0x00,
        0x00].map Ev.byte ++ [.interrupted, .byte 0x09, .other])).calls
      [.next, .readNb, .next, .nextNb]).2 =
    [.decErr (.invalidEsc 0x02 0x00 0x00 0x00), .ioErr .other 1, .none, .none] := by
  decide +kernel

/-- mid-stream ends of input (all three source kinds), then more data -/
example : ((Rdr.new .io (some 2) [.byte 0x1b, .eof, .eof, .byte 0x07]).calls
      [.next, .read, .nextNb, .next]).2 =
    [.ioErr .eof 1, .ioErr .eof 0, .ioErr .eof 1, .none] := by
  decide +kernel

example : ((Rdr.new .eh (some 2) [.byte 0x1b, .eof, .eof, .byte 0x07]).calls
      [.next, .read, .nextNb, .next]).2 =
    [.ioErr .other 1, .ioErr .other 0, .nbWouldBlock, .ioErr .wouldBlock 0] := by
  decide +kernel

/-- the encoder after its end -/
example : ((Enc.new []).run 18).2.drop 16 = [.none, .none] := by decide +kernel

/-- the encoder passes both CRC index positions (`End(6)`, `End(7)`) -/
example : ((Enc.new []).run 16).2.drop 14 = [.byte 0xc6, .byte 0xe5] := by decide +kernel

/-- the buffer encoder with all four pad counts, and out of memory in the padding step -/
example : (encodeBuf none [1]) = EncRes.ok (Spec.frame [1]) ∧
    (encodeBuf none [1, 2]) = EncRes.ok (Spec.frame [1, 2]) ∧
    (encodeBuf none [1, 2, 3]) = EncRes.ok (Spec.frame [1, 2, 3]) ∧
    (encodeBuf none [1, 2, 3, 4]) = EncRes.ok (Spec.frame [1, 2, 3, 4]) ∧
    encodeBuf (some 10) [1] = EncRes.oom := by decide +kernel

end Sml.C05

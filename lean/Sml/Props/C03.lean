import Sml.Lemmas.Grammar5
import Sml.Props.C09
/-
  Property C03.

  "For every SML file in the supported subset (open, close and get-list responses with any number
   of list entries, every value type and integer width, optional fields present or absent, single-
   and multi-byte type-length fields, the standard and the vendor-workaround time encoding) and
   every valid wire encoding of it, both parsers return exactly that content.  Every field, integer
   value and sign, width class, byte string, list length and order is preserved; nothing is
   dropped, reordered or converted lossily."

  * "valid wire encoding" is the relation `Spec.EncFile F x` of Sml/Spec/Grammar.lean: a
    declarative reading of the SML grammar, one relation `Enc<T> value bytes` per grammar symbol,
    which does not mention the parsers.  It admits every TLF the positional TLF rule accepts
    (multi-byte, non-minimal), every transmitted integer width 1..size, both time encodings,
    optional fields present or absent, and any number of list entries and messages.
  * `complete`: the allocating parser returns exactly `F`.  `complete_streaming`: the events of
    the streaming parser are error-free and reassemble (Sml/Spec/Events.lean) to exactly
    `F.messages`.  Equality of the result with `F` is equality of the whole AST: every field,
    value, sign, width class, byte string, list length and order.
  * The per-symbol lemmas hold for an encoding followed by arbitrary further input.

  All statements hold for every file and every encoding (no length bound).
-/
namespace Sml.C03
open Sml Sml.Spec

/-! ### 1. files -/

theorem complete (F : File) (x : Bytes) (h : EncFile F x) : parseFile x = .ok F :=
  (Gram.parseFile_iff x F).2 h

theorem complete_streaming (F : File) (x : Bytes) (h : EncFile F x) :
    ∃ evs : List ParseEvent,
      C09.events x = evs.map SParser.SItem.ev ∧ reassemble evs = some F.messages :=
  (C09.agree_ok x F).1 (complete F x h)

/-! ### 2. every grammar symbol, followed by arbitrary further input -/

theorem complete_tlf (t : Tlf) (e rest : Bytes) (h : EncTlf t e) :
    parseTlf (e ++ rest) = .ok (t, rest) := Gram.parses_tlf.complete t e rest h

theorem complete_octet (v e rest : Bytes) (h : EncOctet v e) :
    parseOctet (e ++ rest) = .ok (v, rest) := Gram.parses_octet.complete v e rest h

/-- Unsigned8/16/32/64 (`size` = 1, 2, 4, 8) sent in any admissible width -/
theorem complete_unsigned (size : Nat) (hs : size ∈ [1, 2, 4, 8]) (v : Int) (e rest : Bytes)
    (h : EncUnsigned size v e) : parseInt false size (e ++ rest) = .ok (v, rest) :=
  (Gram.parses_unsigned size hs).complete v e rest h

/-- Integer8/16/32/64: value and sign -/
theorem complete_signed (size : Nat) (hs : size ∈ [1, 2, 4, 8]) (v : Int) (e rest : Bytes)
    (h : EncSigned size v e) : parseInt true size (e ++ rest) = .ok (v, rest) :=
  (Gram.parses_signed size hs).complete v e rest h

theorem complete_time (t : Time) (e rest : Bytes) (h : EncTime t e) :
    parseTime (e ++ rest) = .ok (t, rest) := Gram.parses_time.complete t e rest h

/-- every value type, with its width class -/
theorem complete_value (v : Value) (e rest : Bytes) (h : EncValue v e) :
    parseValue (e ++ rest) = .ok (v, rest) := Gram.parses_value.complete v e rest h

theorem complete_status (s : Status) (e rest : Bytes) (h : EncStatus s e) :
    parseStatus (e ++ rest) = .ok (s, rest) := Gram.parses_status.complete s e rest h

/-- optional fields, present or absent -/
theorem complete_opt_octet (v : Option Bytes) (e rest : Bytes) (h : EncOpt EncOctet v e) :
    parseOpt parseOctet (e ++ rest) = .ok (v, rest) := Gram.p_optOctet.complete v e rest h

theorem complete_opt_time (v : Option Time) (e rest : Bytes) (h : EncOpt EncTime v e) :
    parseOpt parseTime (e ++ rest) = .ok (v, rest) := Gram.p_optTime.complete v e rest h

theorem complete_entry (x : ListEntry) (e rest : Bytes) (h : EncListEntry x e) :
    parseListEntry (e ++ rest) = .ok (x, rest) := Gram.parses_listEntry.complete x e rest h

/-- a value list of any length, in order -/
theorem complete_valList (xs : List ListEntry) (e rest : Bytes) (h : EncValList xs e) :
    parseList (e ++ rest) = .ok (xs, rest) := Gram.parses_list.complete xs e rest h

theorem complete_open (x : OpenResponse) (e rest : Bytes) (h : EncOpenResponse x e) :
    parseOpenResponse (e ++ rest) = .ok (x, rest) := Gram.parses_openResponse.complete x e rest h

theorem complete_close (x : CloseResponse) (e rest : Bytes) (h : EncCloseResponse x e) :
    parseCloseResponse (e ++ rest) = .ok (x, rest) :=
  Gram.parses_closeResponse.complete x e rest h

theorem complete_getList (x : GetListResponse) (e rest : Bytes) (h : EncGetListResponse x e) :
    parseGetListResponse (e ++ rest) = .ok (x, rest) :=
  Gram.parses_getListResponse.complete x e rest h

theorem complete_body (x : MessageBody) (e rest : Bytes) (h : EncMessageBody x e) :
    parseMessageBody (e ++ rest) = .ok (x, rest) := Gram.parses_messageBody.complete x e rest h

theorem complete_message (m : Message) (e rest : Bytes) (h : EncMessage m e) :
    parseMessage (e ++ rest) = .ok (m, rest) := Gram.parses_message.complete m e rest h

/-! ### 3. non-vacuity: a concrete file and a concrete encoding -/

def sampleOpen : Message :=
  { transactionId := [1, 2, 3, 4], groupNo := 0, abortOnError := 0,
    messageBody := .openResponse
      { codepage := none, clientId := none, reqFileId := [0xaa, 0xbb], serverId := [0x0a, 0x0b, 0x0c],
        refTime := some (.secIndex 4660), smlVersion := none } }

/-- status word sent in 2 bytes, scaler -1, negative I16 sent in 2 bytes -/
def sampleEntry1 : ListEntry :=
  { objName := [1, 0, 1, 8, 0, 0xff], status := some (.status 2 386), valTime := none,
    unit := some 30, scaler := some (-1), value := .int 2 (-2), valueSignature := none }

/-- object name behind a 2-byte TLF, standard time, U32 sent in 3 bytes, a present but empty
    signature (needs the non-minimal TLF `80 02`) -/
def sampleEntry2 : ListEntry :=
  { objName := [0xaa, 0xbb], status := none, valTime := some (.secIndex 42), unit := none,
    scaler := none, value := .uns 4 65536, valueSignature := some [] }

/-- a time value in the workaround encoding -/
def sampleEntry3 : ListEntry :=
  { objName := [0xcc], status := none, valTime := none, unit := none, scaler := none,
    value := .list (.time (.secIndex 7)), valueSignature := none }

def sampleList : Message :=
  { transactionId := [1, 2, 3, 5], groupNo := 0, abortOnError := 0,
    messageBody := .getListResponse
      { clientId := none, serverId := [0x0a, 0x0b, 0x0c],
        listName := some [1, 0, 0x62, 0x0a, 0xff, 0xff],
        actSensorTime := some (.secIndex 66051),
        valList := [sampleEntry1, sampleEntry2, sampleEntry3],
        listSignature := none, actGatewayTime := none } }

def sampleClose : Message :=
  { transactionId := [1, 2, 3, 6], groupNo := 0, abortOnError := 0,
    messageBody := .closeResponse { globalSignature := none } }

def sampleFile : File := { messages := [sampleOpen, sampleList, sampleClose] }

def openBytes : Bytes :=
  [0x76, 0x05, 1, 2, 3, 4, 0x62, 0, 0x62, 0, 0x72, 0x63, 0x01, 0x01,
   0x76, 0x01, 0x01, 0x03, 0xaa, 0xbb, 0x04, 0x0a, 0x0b, 0x0c,
   0x72, 0x62, 0x01, 0x65, 0, 0, 0x12, 0x34, 0x01,
   0x63, 0xa4, 0xeb, 0x00]

def listBytes : Bytes :=
  [0x76, 0x05, 1, 2, 3, 5, 0x62, 0, 0x62, 0, 0x72, 0x63, 0x07, 0x01,
   0x77, 0x01, 0x04, 0x0a, 0x0b, 0x0c, 0x07, 1, 0, 0x62, 0x0a, 0xff, 0xff, 0x65, 0, 1, 2, 3,
   0x73,
     0x77, 0x07, 1, 0, 1, 8, 0, 0xff, 0x63, 0x01, 0x82, 0x01, 0x62, 0x1e, 0x52, 0xff,
       0x53, 0xff, 0xfe, 0x01,
     0x77, 0x80, 0x04, 0xaa, 0xbb, 0x01, 0x72, 0x62, 0x01, 0x65, 0, 0, 0, 0x2a, 0x01, 0x01,
       0x64, 0x01, 0, 0, 0x80, 0x02,
     0x77, 0x02, 0xcc, 0x01, 0x01, 0x01, 0x01, 0x72, 0x62, 0x01, 0x65, 0, 0, 0, 7, 0x01,
   0x01, 0x01,
   0x63, 0x6e, 0x3f, 0x00]

def closeBytes : Bytes :=
  [0x76, 0x05, 1, 2, 3, 6, 0x62, 0, 0x62, 0, 0x72, 0x63, 0x02, 0x01, 0x71, 0x01,
   0x63, 0x32, 0x1f, 0x00]

/-- another encoding of `sampleClose`: 2-byte list TLF `f0 06`, transaction id behind the 2-byte
    TLF `80 06`, group number in the 2-byte-TLF form `e0 03` -/
def closeBytes' : Bytes :=
  [0xf0, 0x06, 0x80, 0x06, 1, 2, 3, 6, 0xe0, 0x03, 0, 0x62, 0, 0x72, 0x63, 0x02, 0x01, 0x71, 0x01,
   0x63, 0xc3, 0xe5, 0x00]

def sampleBytes : Bytes := openBytes ++ listBytes ++ closeBytes

example : EncMessage sampleOpen openBytes := by
  have o1 : EncOctet [1, 2, 3, 4] [0x05, 1, 2, 3, 4] := Gram.mk_octet [0x05] _ rfl
  have z : EncUnsigned 1 0 [0x62, 0] := Gram.mk_unsigned 1 0 [0x62] [0] rfl (by decide) (by decide) (by decide)
  have tag : EncUnsigned 4 0x0101 [0x63, 0x01, 0x01] :=
    Gram.mk_unsigned 4 _ [0x63] [0x01, 0x01] rfl (by decide) (by decide) (by decide)
  have rq : EncOctet [0xaa, 0xbb] [0x03, 0xaa, 0xbb] := Gram.mk_octet [0x03] _ rfl
  have sv : EncOctet [0x0a, 0x0b, 0x0c] [0x04, 0x0a, 0x0b, 0x0c] := Gram.mk_octet [0x04] _ rfl
  have one : EncUnsigned 1 1 [0x62, 0x01] :=
    Gram.mk_unsigned 1 1 [0x62] [1] rfl (by decide) (by decide) (by decide)
  have secs : EncUnsigned 4 4660 [0x65, 0, 0, 0x12, 0x34] :=
    Gram.mk_unsigned 4 _ [0x65] [0, 0, 0x12, 0x34] rfl (by decide) (by decide) (by decide)
  have tm : EncTime (.secIndex 4660) [0x72, 0x62, 0x01, 0x65, 0, 0, 0x12, 0x34] :=
    Gram.mk_time_list [0x72] _ _ _ rfl one secs
  have body : EncOpenResponse _ _ :=
    Gram.mk_openResponse (x := { codepage := none, clientId := none, reqFileId := [0xaa, 0xbb],
        serverId := [0x0a, 0x0b, 0x0c], refTime := some (.secIndex 4660), smlVersion := none })
      (tl := [0x76]) rfl (Gram.mk_none _) (Gram.mk_none _) rq sv
      (Gram.mk_some tm (by decide)) (Gram.mk_none _)
  have head : EncMessageHead sampleOpen _ :=
    Gram.mk_messageHead (tl := [0x76]) rfl o1 z z (Gram.mk_body_open (tl := [0x72]) rfl tag body)
  exact Gram.mk_message head (Gram.mk_crc _ 0xa4 0xeb (by decide +kernel))

end Sml.C03

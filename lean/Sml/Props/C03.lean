import Sml.Lemmas.Grammar5
import Sml.Props.C09
/-
  Property C03.

  "For every SML file in the supported subset (open, close and get-list responses with any number
   of list entries, every value type and integer width, optional fields present or absent, single-
   and multi-byte type-length fields, the standard and the vendor-workaround time encoding) and
   every valid wire encoding of it, both parsers return exactly that content.  Every field, integer
   value and sign, width class, byte string, list length and order is preserved; nothing is
   dropped, reordered or converted lossily."

  * "valid wire encoding" is the relation `Spec.EncFile F x` of Sml/Spec/Grammar.lean: a
    declarative reading of the SML grammar, one relation `Enc<T> value bytes` per grammar symbol,
    which does not mention the parsers.  It admits every TLF the positional TLF rule accepts
    (multi-byte, non-minimal), every transmitted integer width 1..size, both time encodings,
    optional fields present or absent, and any number of list entries and messages.
  * `complete`: the allocating parser returns exactly `F`.  `complete_streaming`: the events of
    the streaming parser are error-free and reassemble (Sml/Spec/Events.lean) to exactly
    `F.messages`.  Equality of the result with `F` is equality of the whole AST: every field,
    value, sign, width class, byte string, list length and order.
  * The per-symbol lemmas hold for an encoding followed by arbitrary further input.

  All statements hold for every file and every encoding (no length bound).
-/
namespace Sml.C03
open Sml Sml.Spec

/-! ### 1. files -/

theorem complete (F : File) (x : Bytes) (h : EncFile F x) : parseFile x = .ok F :=
  (Gram.parseFile_iff x F).2 h

theorem complete_streaming (F : File) (x : Bytes) (h : EncFile F x) :
    ∃ evs : List ParseEvent,
      C09.events x = evs.map SParser.SItem.ev ∧ reassemble evs = some F.messages :=
  (C09.agree_ok x F).1 (complete F x h)

/-! ### 2. every grammar symbol, followed by arbitrary further input -/

theorem complete_tlf (t : Tlf) (e rest : Bytes) (h : EncTlf t e) :
    parseTlf (e ++ rest) = .ok (t, rest) := Gram.parses_tlf.complete t e rest h

theorem complete_octet (v e rest : Bytes) (h : EncOctet v e) :
    parseOctet (e ++ rest) = .ok (v, rest) := Gram.parses_octet.complete v e rest h

/-- Unsigned8/16/32/64 (`size` = 1, 2, 4, 8) sent in any admissible width -/
theorem complete_unsigned (size : Nat) (hs : size ∈ [1, 2, 4, 8]) (v : Int) (e rest : Bytes)
    (h : EncUnsigned size v e) : parseInt false size (e ++ rest) = .ok (v, rest) :=
  (Gram.parses_unsigned size hs).complete v e rest h

/-- Integer8/16/32/64: value and sign -/
theorem complete_signed (size : Nat) (hs : size ∈ [1, 2, 4, 8]) (v : Int) (e rest : Bytes)
    (h : EncSigned size v e) : parseInt true size (e ++ rest) = .ok (v, rest) :=
  (Gram.parses_signed size hs).complete v e rest h

theorem complete_time (t : Time) (e rest : Bytes) (h : EncTime t e) :
    parseTime (e ++ rest) = .ok (t, rest) := Gram.parses_time.complete t e rest h

/-- every value type, with its width class -/
theorem complete_value (v : Value) (e rest : Bytes) (h : EncValue v e) :
    parseValue (e ++ rest) = .ok (v, rest) := Gram.parses_value.complete v e rest h

theorem complete_status (s : Status) (e rest : Bytes) (h : EncStatus s e) :
    parseStatus (e ++ rest) = .ok (s, rest) := Gram.parses_status.complete s e rest h

/-- optional fields, present or absent -/
theorem complete_opt_octet (v : Option Bytes) (e rest : Bytes) (h : EncOpt EncOctet v e) :
    parseOpt parseOctet (e ++ rest) = .ok (v, rest) := Gram.p_optOctet.complete v e rest h

theorem complete_opt_time (v : Option Time) (e rest : Bytes) (h : EncOpt EncTime v e) :
    parseOpt parseTime (e ++ rest) = .ok (v, rest) := Gram.p_optTime.complete v e rest h

theorem complete_entry (x : ListEntry) (e rest : Bytes) (h : EncListEntry x e) :
    parseListEntry (e ++ rest) = .ok (x, rest) := Gram.parses_listEntry.complete x e rest h

/-- a value list of any length, in order -/
theorem complete_valList (xs : List ListEntry) (e rest : Bytes) (h : EncValList xs e) :
    parseList (e ++ rest) = .ok (xs, rest) := Gram.parses_list.complete xs e rest h

theorem complete_open (x : OpenResponse) (e rest : Bytes) (h : EncOpenResponse x e) :
    parseOpenResponse (e ++ rest) = .ok (x, rest) := Gram.parses_openResponse.complete x e rest h

theorem complete_close (x : CloseResponse) (e rest : Bytes) (h : EncCloseResponse x e) :
    parseCloseResponse (e ++ rest) = .ok (x, rest) :=
  Gram.parses_closeResponse.complete x e rest h

theorem complete_getList (x : GetListResponse) (e rest : Bytes) (h : EncGetListResponse x e) :
    parseGetListResponse (e ++ rest) = .ok (x, rest) :=
  Gram.parses_getListResponse.complete x e rest h

theorem complete_body (x : MessageBody) (e rest : Bytes) (h : EncMessageBody x e) :
    parseMessageBody (e ++ rest) = .ok (x, rest) := Gram.parses_messageBody.complete x e rest h

theorem complete_message (m : Message) (e rest : Bytes) (h : EncMessage m e) :
    parseMessage (e ++ rest) = .ok (m, rest) := Gram.parses_message.complete m e rest h

/-! ### 3. non-vacuity: a concrete file and a concrete encoding -/

def sampleOpenRes : OpenResponse :=
  { codepage := none, clientId := none, reqFileId := [0xaa, 0xbb], serverId := [0x0a, 0x0b, 0x0c],
    refTime := some (.secIndex 4660), smlVersion := none }

def sampleOpen : Message :=
  { transactionId := [1, 2, 3, 4], groupNo := 0, abortOnError := 0,
    messageBody := .openResponse sampleOpenRes }

/-- status word sent in 2 bytes, scaler -1, negative I16 sent in 2 bytes -/
def sampleEntry1 : ListEntry :=
  { objName := [1, 0, 1, 8, 0, 0xff], status := some (.status 2 386), valTime := none,
    unit := some 30, scaler := some (-1), value := .int 2 (-2), valueSignature := none }

/-- object name behind a 2-byte TLF, standard time, U32 sent in 3 bytes, a present but empty
    signature (needs the non-minimal TLF `80 02`) -/
def sampleEntry2 : ListEntry :=
  { objName := [0xaa, 0xbb], status := none, valTime := some (.secIndex 42), unit := none,
    scaler := none, value := .uns 4 65536, valueSignature := some [] }

/-- a time value in the workaround encoding -/
def sampleEntry3 : ListEntry :=
  { objName := [0xcc], status := none, valTime := none, unit := none, scaler := none,
    value := .list (.time (.secIndex 7)), valueSignature := none }

def sampleListRes : GetListResponse :=
  { clientId := none, serverId := [0x0a, 0x0b, 0x0c],
    listName := some [1, 0, 0x62, 0x0a, 0xff, 0xff],
    actSensorTime := some (.secIndex 66051),
    valList := [sampleEntry1, sampleEntry2, sampleEntry3],
    listSignature := none, actGatewayTime := none }

def sampleList : Message :=
  { transactionId := [1, 2, 3, 5], groupNo := 0, abortOnError := 0,
    messageBody := .getListResponse sampleListRes }

def sampleClose : Message :=
  { transactionId := [1, 2, 3, 6], groupNo := 0, abortOnError := 0,
    messageBody := .closeResponse { globalSignature := none } }

def sampleFile : File := { messages := [sampleOpen, sampleList, sampleClose] }

def openBytes : Bytes :=
  [0x76, 0x05, 1, 2, 3, 4, 0x62, 0, 0x62, 0, 0x72, 0x63, 0x01, 0x01,
   0x76, 0x01, 0x01, 0x03, 0xaa, 0xbb, 0x04, 0x0a, 0x0b, 0x0c,
   0x72, 0x62, 0x01, 0x65, 0, 0, 0x12, 0x34, 0x01,
   0x63, 0xa4, 0xeb, 0x00]

def listBytes : Bytes :=
  [0x76, 0x05, 1, 2, 3, 5, 0x62, 0, 0x62, 0, 0x72, 0x63, 0x07, 0x01,
   0x77, 0x01, 0x04, 0x0a, 0x0b, 0x0c, 0x07, 1, 0, 0x62, 0x0a, 0xff, 0xff, 0x65, 0, 1, 2, 3,
   0x73,
     0x77, 0x07, 1, 0, 1, 8, 0, 0xff, 0x63, 0x01, 0x82, 0x01, 0x62, 0x1e, 0x52, 0xff,
       0x53, 0xff, 0xfe, 0x01,
     0x77, 0x80, 0x04, 0xaa, 0xbb, 0x01, 0x72, 0x62, 0x01, 0x65, 0, 0, 0, 0x2a, 0x01, 0x01,
       0x64, 0x01, 0, 0, 0x80, 0x02,
     0x77, 0x02, 0xcc, 0x01, 0x01, 0x01, 0x01, 0x72, 0x62, 0x01, 0x65, 0, 0, 0, 7, 0x01,
   0x01, 0x01,
   0x63, 0x6e, 0x3f, 0x00]

def closeBytes : Bytes :=
  [0x76, 0x05, 1, 2, 3, 6, 0x62, 0, 0x62, 0, 0x72, 0x63, 0x02, 0x01, 0x71, 0x01,
   0x63, 0x32, 0x1f, 0x00]

/-- another encoding of `sampleClose`: 2-byte list TLF `f0 06`, transaction id behind the 2-byte
    TLF `80 06`, group number in the 2-byte-TLF form `e0 03` -/
def closeBytes' : Bytes :=
  [0xf0, 0x06, 0x80, 0x06, 1, 2, 3, 6, 0xe0, 0x03, 0, 0x62, 0, 0x72, 0x63, 0x02, 0x01, 0x71, 0x01,
   0x63, 0x0c, 0xc3, 0x00]

def sampleBytes : Bytes := openBytes ++ (listBytes ++ closeBytes)

def sampleBytes' : Bytes := openBytes ++ (listBytes ++ closeBytes')

/-! The encodings are proved valid from the grammar alone (`Gram.mk_*` are the introduction rules
    of the relations, i.e. unfoldings of their definitions); the parsers are not involved. -/

theorem sample_zero : EncUnsigned 1 0 [0x62, 0] :=
  Gram.mk_unsigned 1 0 [0x62] [0] rfl (by decide) (by decide) (by decide)

theorem sample_one : EncUnsigned 1 1 [0x62, 0x01] :=
  Gram.mk_unsigned 1 1 [0x62] [1] rfl (by decide) (by decide) (by decide)

theorem sample_server : EncOctet [0x0a, 0x0b, 0x0c] [0x04, 0x0a, 0x0b, 0x0c] :=
  Gram.mk_octet [0x04] _ rfl

theorem sample_open_enc : EncMessage sampleOpen openBytes := by
  have o1 : EncOctet [1, 2, 3, 4] [0x05, 1, 2, 3, 4] := Gram.mk_octet [0x05] _ rfl
  have tag : EncUnsigned 4 0x0101 [0x63, 0x01, 0x01] :=
    Gram.mk_unsigned 4 _ [0x63] [0x01, 0x01] rfl (by decide) (by decide) (by decide)
  have rq : EncOctet [0xaa, 0xbb] [0x03, 0xaa, 0xbb] := Gram.mk_octet [0x03] _ rfl
  have secs : EncUnsigned 4 4660 [0x65, 0, 0, 0x12, 0x34] :=
    Gram.mk_unsigned 4 _ [0x65] [0, 0, 0x12, 0x34] rfl (by decide) (by decide) (by decide)
  have tm : EncTime (.secIndex 4660) [0x72, 0x62, 0x01, 0x65, 0, 0, 0x12, 0x34] :=
    Gram.mk_time_list [0x72] _ _ _ rfl sample_one secs
  have body : EncOpenResponse sampleOpenRes _ :=
    Gram.mk_openResponse (tl := [0x76]) rfl (Gram.mk_none _) (Gram.mk_none _) rq sample_server
      (Gram.mk_some tm (by decide)) (Gram.mk_none _)
  have head : EncMessageHead sampleOpen _ :=
    Gram.mk_messageHead (tl := [0x76]) rfl o1 sample_zero sample_zero
      (Gram.mk_body_open (tl := [0x72]) rfl tag body)
  exact Gram.mk_message head (Gram.mk_crc _ 0xa4 0xeb (by decide +kernel))

/-- status in 2 bytes (class 2), scaler -1, value: negative I16 sent in 2 bytes -/
theorem sample_entry1_enc : EncListEntry sampleEntry1
    [0x77, 0x07, 1, 0, 1, 8, 0, 0xff, 0x63, 0x01, 0x82, 0x01, 0x62, 0x1e, 0x52, 0xff,
     0x53, 0xff, 0xfe, 0x01] := by
  have nm : EncOctet [1, 0, 1, 8, 0, 0xff] [0x07, 1, 0, 1, 8, 0, 0xff] := Gram.mk_octet [0x07] _ rfl
  have st : EncStatus (.status 2 386) [0x63, 0x01, 0x82] :=
    Gram.mk_status 2 386 [0x63] [0x01, 0x82] rfl (by decide) (by decide)
      (Gram.widthClass_narrow 2 (by decide)) (by decide)
  have un : EncUnsigned 1 30 [0x62, 0x1e] :=
    Gram.mk_unsigned 1 30 [0x62] [0x1e] rfl (by decide) (by decide) (by decide)
  have sc : EncSigned 1 (-1) [0x52, 0xff] :=
    Gram.mk_signed 1 (-1) [0x52] [0xff] rfl (by decide) (by decide) (by decide)
  have vl : EncValue (.int 2 (-2)) [0x53, 0xff, 0xfe] :=
    Gram.mk_value_int 2 (-2) [0x53] [0xff, 0xfe] rfl (by decide) (by decide)
      (Gram.widthClass_narrow 2 (by decide)) (by decide)
  exact Gram.mk_listEntry (x := sampleEntry1) (tl := [0x77]) rfl nm (Gram.mk_some st (by decide))
    (Gram.mk_none _) (Gram.mk_some un (by decide)) (Gram.mk_some sc (by decide)) vl (Gram.mk_none _)

/-- name behind the 2-byte TLF `80 04`, standard time, U32 sent in 3 bytes (class 4), present empty
    signature behind the non-minimal TLF `80 02` -/
theorem sample_entry2_enc : EncListEntry sampleEntry2
    [0x77, 0x80, 0x04, 0xaa, 0xbb, 0x01, 0x72, 0x62, 0x01, 0x65, 0, 0, 0, 0x2a, 0x01, 0x01,
     0x64, 0x01, 0, 0, 0x80, 0x02] := by
  have nm : EncOctet [0xaa, 0xbb] [0x80, 0x04, 0xaa, 0xbb] := Gram.mk_octet [0x80, 0x04] _ rfl
  have secs : EncUnsigned 4 42 [0x65, 0, 0, 0, 0x2a] :=
    Gram.mk_unsigned 4 _ [0x65] [0, 0, 0, 0x2a] rfl (by decide) (by decide) (by decide)
  have tm : EncTime (.secIndex 42) [0x72, 0x62, 0x01, 0x65, 0, 0, 0, 0x2a] :=
    Gram.mk_time_list [0x72] _ _ _ rfl sample_one secs
  have vl : EncValue (.uns 4 65536) [0x64, 0x01, 0, 0] :=
    Gram.mk_value_uns 4 65536 [0x64] [0x01, 0, 0] rfl (by decide) (by decide)
      (Gram.widthClass_narrow 3 (by decide)) (by decide)
  have sg : EncOctet [] [0x80, 0x02] := Gram.mk_octet [0x80, 0x02] [] rfl
  exact Gram.mk_listEntry (x := sampleEntry2) (tl := [0x77]) rfl nm (Gram.mk_none _)
    (Gram.mk_some tm (by decide)) (Gram.mk_none _) (Gram.mk_none _) vl (Gram.mk_some sg (by decide))

/-- value = SML_ListType / time in the vendor-workaround encoding `65 xx xx xx xx` -/
theorem sample_entry3_enc : EncListEntry sampleEntry3
    [0x77, 0x02, 0xcc, 0x01, 0x01, 0x01, 0x01, 0x72, 0x62, 0x01, 0x65, 0, 0, 0, 7, 0x01] := by
  have nm : EncOctet [0xcc] [0x02, 0xcc] := Gram.mk_octet [0x02] _ rfl
  have tm : EncTime (.secIndex 7) [0x65, 0, 0, 0, 7] :=
    Gram.mk_time_workaround 7 [0x65] [0, 0, 0, 7] rfl rfl (by decide)
  have vl : EncValue (.list (.time (.secIndex 7))) [0x72, 0x62, 0x01, 0x65, 0, 0, 0, 7] :=
    Gram.mk_value_list [0x72] _ _ rfl (Gram.mk_listType _ _ _ sample_one tm)
  exact Gram.mk_listEntry (x := sampleEntry3) (tl := [0x77]) rfl nm (Gram.mk_none _)
    (Gram.mk_none _) (Gram.mk_none _) (Gram.mk_none _) vl (Gram.mk_none _)

-- (`maxRecDepth`: the kernel evaluates the CRC fold over 130 bytes as one nested term)
set_option maxRecDepth 100000 in
theorem sample_list_enc : EncMessage sampleList listBytes := by
  have o1 : EncOctet [1, 2, 3, 5] [0x05, 1, 2, 3, 5] := Gram.mk_octet [0x05] _ rfl
  have tag : EncUnsigned 4 0x0701 [0x63, 0x07, 0x01] :=
    Gram.mk_unsigned 4 _ [0x63] [0x07, 0x01] rfl (by decide) (by decide) (by decide)
  have ln : EncOctet [1, 0, 0x62, 0x0a, 0xff, 0xff] [0x07, 1, 0, 0x62, 0x0a, 0xff, 0xff] :=
    Gram.mk_octet [0x07] _ rfl
  have tm : EncTime (.secIndex 66051) [0x65, 0, 1, 2, 3] :=
    Gram.mk_time_workaround 66051 [0x65] [0, 1, 2, 3] rfl rfl (by decide)
  have vs : EncValList [sampleEntry1, sampleEntry2, sampleEntry3] _ :=
    Gram.mk_valList (tl := [0x73]) rfl
      (.cons sample_entry1_enc (.cons sample_entry2_enc (.cons sample_entry3_enc .nil)))
  have body : EncGetListResponse sampleListRes _ :=
    Gram.mk_getListResponse (tl := [0x77]) rfl (Gram.mk_none _) sample_server
      (Gram.mk_some ln (by decide)) (Gram.mk_some tm (by decide)) vs (Gram.mk_none _)
      (Gram.mk_none _)
  have head : EncMessageHead sampleList _ :=
    Gram.mk_messageHead (tl := [0x76]) rfl o1 sample_zero sample_zero
      (Gram.mk_body_getList (tl := [0x72]) rfl tag body)
  exact Gram.mk_message head (Gram.mk_crc _ 0x6e 0x3f (by decide +kernel))

theorem sample_close_enc : EncMessage sampleClose closeBytes := by
  have o1 : EncOctet [1, 2, 3, 6] [0x05, 1, 2, 3, 6] := Gram.mk_octet [0x05] _ rfl
  have tag : EncUnsigned 4 0x0201 [0x63, 0x02, 0x01] :=
    Gram.mk_unsigned 4 _ [0x63] [0x02, 0x01] rfl (by decide) (by decide) (by decide)
  have body : EncCloseResponse ⟨none⟩ _ :=
    Gram.mk_closeResponse (tl := [0x71]) rfl (Gram.mk_none _)
  have head : EncMessageHead sampleClose _ :=
    Gram.mk_messageHead (tl := [0x76]) rfl o1 sample_zero sample_zero
      (Gram.mk_body_close (tl := [0x72]) rfl tag body)
  exact Gram.mk_message head (Gram.mk_crc _ 0x32 0x1f (by decide +kernel))

/-- the second encoding of the same close message (multi-byte TLFs everywhere) -/
theorem sample_close_enc' : EncMessage sampleClose closeBytes' := by
  have o1 : EncOctet [1, 2, 3, 6] [0x80, 0x06, 1, 2, 3, 6] := Gram.mk_octet [0x80, 0x06] _ rfl
  have z' : EncUnsigned 1 0 [0xe0, 0x03, 0] :=
    Gram.mk_unsigned 1 0 [0xe0, 0x03] [0] rfl (by decide) (by decide) (by decide)
  have tag : EncUnsigned 4 0x0201 [0x63, 0x02, 0x01] :=
    Gram.mk_unsigned 4 _ [0x63] [0x02, 0x01] rfl (by decide) (by decide) (by decide)
  have body : EncCloseResponse ⟨none⟩ _ :=
    Gram.mk_closeResponse (tl := [0x71]) rfl (Gram.mk_none _)
  have head : EncMessageHead sampleClose _ :=
    Gram.mk_messageHead (tl := [0xf0, 0x06]) rfl o1 z' sample_zero
      (Gram.mk_body_close (tl := [0x72]) rfl tag body)
  exact Gram.mk_message head (Gram.mk_crc _ 0x0c 0xc3 (by decide +kernel))

/-- the hypothesis of `complete` is satisfiable by a non-trivial file: three messages, three list
    entries, multi-byte and non-minimal TLFs, both time encodings, I16 in 2 bytes, U32 in 3 bytes -/
theorem sample_file_enc : EncFile sampleFile sampleBytes :=
  Gram.mk_file (.cons sample_open_enc (.cons sample_list_enc (.cons sample_close_enc .nil)))

/-- ... and by a second, different encoding of the same file -/
theorem sample_file_enc' : EncFile sampleFile sampleBytes' :=
  Gram.mk_file (.cons sample_open_enc (.cons sample_list_enc (.cons sample_close_enc' .nil)))

-- the conclusions, evaluated independently of the theorems
set_option maxRecDepth 100000 in
example : (parseFile sampleBytes).toOption = some sampleFile := by decide +kernel
set_option maxRecDepth 100000 in
example : (parseFile sampleBytes').toOption = some sampleFile := by decide +kernel
example : sampleBytes ≠ sampleBytes' := by decide +kernel
example : sampleBytes.length = 154 ∧ sampleBytes'.length = 157 := by decide +kernel
-- streaming parser: 1 + (1 + 3 + 1) + 1 events, reassembled to the three messages
set_option maxRecDepth 100000 in
example : (C09.events sampleBytes).length = 7 := by decide +kernel
set_option maxRecDepth 100000 in
example : ((C09.evsOf (C09.events sampleBytes)).bind reassemble) = some sampleFile.messages := by
  decide +kernel
-- instances of the theorems
example : parseFile sampleBytes = .ok sampleFile := complete _ _ sample_file_enc
example : parseFile sampleBytes' = .ok sampleFile := complete _ _ sample_file_enc'
example : parseMessage (closeBytes' ++ [0xde, 0xad]) = .ok (sampleClose, [0xde, 0xad]) :=
  complete_message _ _ _ sample_close_enc'

end Sml.C03

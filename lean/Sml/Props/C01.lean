import Sml.Lemmas.DecRoundFront
import Sml.Props.C07
/-
  Property C01.

  "For every byte payload (any length including empty, any content including runs of 0x1b, runs
  of 0x00 and look-alikes of the start and end sequences), the frame produced by either encoder,
  fed to any decoder front-end, yields exactly one result: the original payload, reported when the
  frame's last byte is consumed.  No error and no other output is produced before or after it."

  * model : `Dec.push` / `Dec.pushAll` / `Dec.finalize`            (Sml/Model/Decode.lean)
            `decodeAll`, `DecIter`, `Rdr`                          (Sml/Model/Frontends.lean)
            `encodeBuf`, `Enc`                                     (Sml/Model/Encode.lean)
  * spec  : `Spec.frame`                                           (Sml/Spec/Frame.lean)
  * by C07 (`Sml.C07.buf_vec`, `Sml.C07.iter_eq_spec`) both encoders produce exactly `Spec.frame p`.

  All theorems hold for payloads of every length and content; the only hypothesis is that the
  payload fits the decoder's buffer (`capFits`; vacuous for a `Vec` buffer, `cap = none`).
-/
namespace Sml.C01

open Spec (frame)

/-- a payload of `n` bytes fits a buffer of capacity `cap` (`none` = growable `Vec`) -/
def capFits (cap : Option Nat) (n : Nat) : Prop :=
  match cap with
  | none => True
  | some c => n ≤ c

/-! ### 1. the push decoder -/

/-- One `Ok(None)` per byte of the frame except the last, which reports the payload. -/
theorem roundtrip_push (p : List UInt8) (cap : Option Nat) (h : capFits cap p.length) :
    (Dec.pushAll (Dec.fresh cap) (frame p)).2 =
      List.replicate ((frame p).length - 1) Out.none ++ [Out.msg p] := by
  obtain ⟨d', hd, _⟩ := Dec.frame_delivers (Dec.fresh cap) p rfl rfl rfl h
  rw [hd.pushAll]

/-- Nothing is pending afterwards: `finalize` reports no error. -/
theorem roundtrip_finalize (p : List UInt8) (cap : Option Nat) (h : capFits cap p.length) :
    (Dec.pushAll (Dec.fresh cap) (frame p)).1.finalize.2 = none := by
  obtain ⟨d', hd, _⟩ := Dec.frame_delivers (Dec.fresh cap) p rfl rfl rfl h
  obtain ⟨_, _, _, _, _, _, hst, _⟩ := id hd
  rw [hd.pushAll]
  simp [Dec.finalize, hst]

/-- The decoder ends in `Done` holding exactly the payload (and nothing withheld). -/
theorem roundtrip_state (p : List UInt8) (cap : Option Nat) (h : capFits cap p.length) :
    (Dec.pushAll (Dec.fresh cap) (frame p)).1.st = .done ∧
      (Dec.pushAll (Dec.fresh cap) (frame p)).1.buf.data = p ∧
      (Dec.pushAll (Dec.fresh cap) (frame p)).1.zc = 0 := by
  obtain ⟨d', hd, hfin⟩ := Dec.frame_delivers (Dec.fresh cap) p rfl rfl rfl h
  obtain ⟨_, _, _, _, _, _, hst, hdata⟩ := id hd
  rw [hd.pushAll]
  exact ⟨hst, hdata, hfin.zc⟩

/-! ### 2. the other front-ends -/

/-- `decode(bytes)`: exactly one item, the payload (no trailing `DiscardedBytes`). -/
theorem roundtrip_decode (p : List UInt8) : decodeAll (frame p) = [Item.ok p] := by
  obtain ⟨d', hd, _⟩ := Dec.frame_delivers (Dec.fresh none) p rfl rfl rfl trivial
  exact decodeAll_go_delivers hd

/-- `DecodeIterator`: the payload, then `None` on every further call. -/
theorem roundtrip_iter (p : List UInt8) (cap : Option Nat) (h : capFits cap p.length) (k : Nat) :
    (DecIter.new cap (frame p)).take (k + 1) = some (Item.ok p) :: List.replicate k none := by
  obtain ⟨d', hd, _⟩ := Dec.frame_delivers (Dec.fresh cap) p rfl rfl rfl h
  exact DecIter.take_delivers hd k

/-- `DecoderReader::next` over a slice / iterator (`mem`) or `std::io::Read` (`io`) source that
holds exactly the frame: the payload, then `None` on every further call. -/
theorem roundtrip_reader_next (p : List UInt8) (cap : Option Nat) (h : capFits cap p.length)
    (kind : SrcKind) (hk : kind = .mem ∨ kind = .io) (k : Nat) :
    ((Rdr.new kind cap ((frame p).map Ev.byte)).calls (Rdr.Call.next :: List.replicate k Rdr.Call.next)).2 =
      RItem.ok p :: List.replicate k RItem.none := by
  obtain ⟨d', hd, _⟩ := Dec.frame_delivers (Dec.fresh cap) p rfl rfl rfl h
  have hk' : kind ≠ .eh := by rcases hk with rfl | rfl <;> decide
  exact Rdr.calls_next_delivers hk' hd k

/-- `DecoderReader::read`: the payload, then `Eof` with zero discarded bytes on every further call. -/
theorem roundtrip_reader_read (p : List UInt8) (cap : Option Nat) (h : capFits cap p.length)
    (kind : SrcKind) (hk : kind = .mem ∨ kind = .io) (k : Nat) :
    ((Rdr.new kind cap ((frame p).map Ev.byte)).calls (Rdr.Call.read :: List.replicate k Rdr.Call.read)).2 =
      RItem.ok p :: List.replicate k (RItem.ioErr .eof 0) := by
  obtain ⟨d', hd, _⟩ := Dec.frame_delivers (Dec.fresh cap) p rfl rfl rfl h
  have hk' : kind ≠ .eh := by rcases hk with rfl | rfl <;> decide
  exact Rdr.calls_read_delivers hk' hd k

/-! ### 3. both encoders -/

/-- what a consumer of the iterator encoder collects: the bytes up to the first `None` -/
def collect : List EOut → List UInt8
  | .byte b :: rest => b :: collect rest
  | _ => []

theorem collect_bytes (l : List UInt8) (k : Nat) :
    collect (l.map EOut.byte ++ List.replicate k EOut.none) = l := by
  induction l with
  | nil => cases k <;> rfl
  | cons x xs ih => simp [collect, ih]

/-- The buffer encoder's output decodes to the payload. -/
theorem roundtrip_encodeBuf (p : List UInt8) (cap : Option Nat) (h : capFits cap p.length) :
    ∃ bytes, encodeBuf none p = EncRes.ok bytes ∧
      (Dec.pushAll (Dec.fresh cap) bytes).2 =
        List.replicate (bytes.length - 1) Out.none ++ [Out.msg p] ∧
      (Dec.pushAll (Dec.fresh cap) bytes).1.finalize.2 = none ∧
      decodeAll bytes = [Item.ok p] :=
  ⟨frame p, C07.buf_vec p, roundtrip_push p cap h, roundtrip_finalize p cap h, roundtrip_decode p⟩

/-- The iterator encoder, polled until it returns `None` (any number `k` of extra polls), yields
bytes that decode to the payload. -/
theorem roundtrip_encodeIter (p : List UInt8) (cap : Option Nat) (h : capFits cap p.length)
    (k : Nat) :
    let bytes := collect ((Enc.new p).run ((frame p).length + k)).2
    (Dec.pushAll (Dec.fresh cap) bytes).2 =
        List.replicate (bytes.length - 1) Out.none ++ [Out.msg p] ∧
      (Dec.pushAll (Dec.fresh cap) bytes).1.finalize.2 = none ∧
      decodeAll bytes = [Item.ok p] := by
  simp only [Enc.run_frame_add, collect_bytes]
  exact ⟨roundtrip_push p cap h, roundtrip_finalize p cap h, roundtrip_decode p⟩

/-- ... and polled exactly `|frame p|` times it has produced exactly these bytes (C07). -/
theorem encodeIter_bytes (p : List UInt8) :
    collect ((Enc.new p).run (frame p).length).2 = frame p := by
  rw [C07.iter_eq_spec]
  simpa using collect_bytes (frame p) 0

/-! ### 4. non-vacuity: concrete payloads (kernel evaluation) -/

/-- a single 0x1b: aligned frame ending in one 0x1b (re-alignment branch of the decoder) -/
example : (Dec.pushAll (Dec.fresh none) (frame [0x1b, 0x02, 0x03, 0x1b])).2 =
    List.replicate 19 Out.none ++ [Out.msg [0x1b, 0x02, 0x03, 0x1b]] := by decide +kernel

example : (Dec.pushAll (Dec.fresh (some 1)) (frame [0x1b])).2 =
    List.replicate 19 Out.none ++ [Out.msg [0x1b]] := by decide +kernel

/-- four 0x1b: one literal escape -/
example : (Dec.pushAll (Dec.fresh (some 4)) (frame [0x1b, 0x1b, 0x1b, 0x1b])).2 =
    List.replicate 23 Out.none ++ [Out.msg [0x1b, 0x1b, 0x1b, 0x1b]] := by decide +kernel

/-- five zeros: four withheld, padding zeros on top -/
example : (Dec.pushAll (Dec.fresh (some 5)) (frame [0, 0, 0, 0, 0])).2 =
    List.replicate 23 Out.none ++ [Out.msg [0, 0, 0, 0, 0]] := by decide +kernel

/-- the payload is the start sequence -/
example : decodeAll (frame [0x1b, 0x1b, 0x1b, 0x1b, 0x01, 0x01, 0x01, 0x01]) =
    [Item.ok [0x1b, 0x1b, 0x1b, 0x1b, 0x01, 0x01, 0x01, 0x01]] := by decide +kernel

/-- the payload looks like an end sequence -/
example : decodeAll (frame [0x1b, 0x1b, 0x1b, 0x1b, 0x1a, 0x00, 0x12, 0x34]) =
    [Item.ok [0x1b, 0x1b, 0x1b, 0x1b, 0x1a, 0x00, 0x12, 0x34]] := by decide +kernel

/-- the empty payload -/
example : decodeAll (frame []) = [Item.ok []] := by decide +kernel

example : (DecIter.new (some 3) (frame [0x1b, 0x1b, 0x1b])).take 3 =
    [some (Item.ok [0x1b, 0x1b, 0x1b]), none, none] := by decide +kernel

example : ((Rdr.new .io none ((frame [0x1b, 0x1b, 0x00]).map Ev.byte)).calls [.next, .next, .read]).2 =
    [RItem.ok [0x1b, 0x1b, 0x00], RItem.none, RItem.ioErr .eof 0] := by decide +kernel

/-- the hypothesis of the capacity-bounded theorems is satisfiable with equality -/
example : capFits (some 4) ([1, 2, 3, 4] : List UInt8).length := Nat.le_refl 4

end Sml.C01

import Sml.Lemmas.DecResync
import Sml.Props.C14
import Sml.Props.C01
/-
  Property C08.

  "If a decoder that is between transmissions receives arbitrary bytes not containing the start
  sequence and then a valid frame, it reports the noise length (if any) as discarded bytes and then
  delivers the frame's payload - also when the noise ends in 0x1b bytes or in a partial start
  sequence.  Likewise, a transmission cut off at a point where no escape sequence or 0x1b run is in
  progress, followed by a complete frame, yields a discarded-bytes report for the cut-off part and
  then the complete frame's payload."

  * model : `Dec.push` / `Dec.pushAll` / `Dec.run`   (Sml/Model/Decode.lean, Sml/Model/Frontends.lean)
            in particular `Dec.pushLook` (start-sequence matcher, decode.rs:180-210) and the
            `01010101` branch of `Dec.pushEscComplete` (decode.rs:265-277)
  * spec  : `Spec.frame`                              (Sml/Spec/Frame.lean)
  * method (Sml/Lemmas/DecResync.lean): the matcher is the automaton `Resync.delta` on the number
    of matched bytes; `Resync.Tracks` is the KMP invariant "the state is the length of the longest
    prefix of the start sequence that is a suffix of the input so far", so the matcher completes
    exactly when the input ends with the start sequence (`Resync.hit_iff`), with
    `disc + init = number of bytes consumed`.  The rest of the frame is `frame_tail_decodes`
    (C01).  Idle histories reduce to the new decoder by C14.

  All theorems hold for every noise string / payload / history / capacity; the only capacity
  hypothesis is that the payloads fit the decoder's buffer (`fitsCap`, vacuous for `Vec`).
-/
namespace Sml.C08

open Spec (frame stuff ctr)
open C07 (fitsCap)

/-- `g` is noise: in `g ++ START` the start sequence occurs only at offset `|g|`.  (So `g` does
not contain the start sequence, and no start sequence begins inside `g` and ends inside the start
sequence that follows.  `g` may end in 0x1b bytes or in a partial start sequence.) -/
def StartFree (g : List UInt8) : Prop :=
  ∀ k, k < g.length → ¬ (START <+: (g ++ START).drop k)

instance (g : List UInt8) : Decidable (StartFree g) := by unfold StartFree; infer_instance

/-! ### 1. noise, then a frame: new decoder -/

/-- One answer per byte: `Ok(None)` everywhere, except `Err(DiscardedBytes(|g|))` at the last byte
of the start sequence (if there was noise) and `Ok(Some(m))` at the last byte of the frame.
For `g = []` this is C01. -/
theorem noise_then_frame (g m : List UInt8) (cap : Option Nat) (hg : StartFree g)
    (hm : fitsCap cap m.length) :
    (Dec.pushAll (Dec.fresh cap) (g ++ frame m)).2 =
      List.replicate (g.length + 7) Out.none ++
        [if g = [] then Out.none else Out.err (.discarded g.length)] ++
        List.replicate ((frame m).length - 9) Out.none ++ [Out.msg m] :=
  (Resync.noise_frame (Dec.fresh cap) rfl rfl rfl g m hg hm).1

/-- afterwards the decoder is `Done` and holds exactly the payload -/
theorem noise_then_frame_state (g m : List UInt8) (cap : Option Nat) (hg : StartFree g)
    (hm : fitsCap cap m.length) :
    (Dec.pushAll (Dec.fresh cap) (g ++ frame m)).1.st = .done ∧
      (Dec.pushAll (Dec.fresh cap) (g ++ frame m)).1.buf.data = m :=
  (Resync.noise_frame (Dec.fresh cap) rfl rfl rfl g m hg hm).2

/-! ### 2. noise, then a frame: every idle decoder -/

/-- The decoder is between transmissions: it is new, or its last answer was a delivered
transmission, an `InvalidMessage` / `InvalidEsc` / `OutOfMemory` error, the answer of `finalize`
or `reset`, or it has just been replaced by `Decoder::new()` / `Decoder::from_buf(buf)`
(`C14.Boundary`). -/
def Idle (cap : Option Nat) (ops : List Op) : Prop :=
  ops = [] ∨ ∃ o, (Dec.run (Dec.fresh cap) ops).2.getLast? = some o ∧ C14.Boundary o

/-- The same answers from a decoder with any idle history `ops` of `push_byte` / `finalize` /
`reset` / `new` / `from_buf` calls. -/
theorem noise_then_frame_idle (cap : Option Nat) (ops : List Op) (h : Idle cap ops)
    (g m : List UInt8) (hg : StartFree g) (hm : fitsCap cap m.length) :
    (Dec.pushAll (Dec.run (Dec.fresh cap) ops).1 (g ++ frame m)).2 =
      List.replicate (g.length + 7) Out.none ++
        [if g = [] then Out.none else Out.err (.discarded g.length)] ++
        List.replicate ((frame m).length - 9) Out.none ++ [Out.msg m] := by
  rw [Resync.pushAll_after_idle cap ops h]
  exact noise_then_frame g m cap hg hm

/-! ### 3. a cut-off transmission, then a frame -/

/-- `a` = the first `k` bytes of the frame of `m1`, cut at a point where no escape sequence and no
run of 0x1b is in progress: the decoder is in state `Normal` after `a` (the capacity does not
matter for that, see `cut_state_cap`).  Then the frame of `m2` follows.  One answer per byte:
`Ok(None)` everywhere, except `Err(DiscardedBytes(|a|))` at the last byte of the start sequence and
`Ok(Some(m2))` at the last byte.  (`hroom`: the cut-off part itself does not run out of memory.) -/
theorem cut_then_frame (cap : Option Nat) (m1 m2 : List UInt8) (k : Nat)
    (hstate : (Dec.pushAll (Dec.fresh none) ((frame m1).take k)).1.st = .normal)
    (hroom : fitsCap cap m1.length) (hm : fitsCap cap m2.length) :
    (Dec.pushAll (Dec.fresh cap) ((frame m1).take k ++ frame m2)).2 =
      List.replicate (((frame m1).take k).length + 7) Out.none ++
        [Out.err (.discarded ((frame m1).take k).length)] ++
        List.replicate ((frame m2).length - 9) Out.none ++ [Out.msg m2] :=
  (Resync.cut_then_frame cap m1 m2 k hroom
    ((Resync.cut_state_cap cap m1 k hroom).trans hstate) hm).1

/-- the control state reached inside a frame does not depend on the capacity as long as the
payload fits -/
theorem cut_state_cap (cap : Option Nat) (m : List UInt8) (k : Nat) (hroom : fitsCap cap m.length) :
    (Dec.pushAll (Dec.fresh cap) ((frame m).take k)).1.st =
      (Dec.pushAll (Dec.fresh none) ((frame m).take k)).1.st :=
  Resync.cut_state_cap cap m k hroom

/-- Which cut points inside the payload qualify: after the start sequence and the stuffed payload
bytes `p` the decoder is in state `Normal` iff `p` does not end in a pending run of 0x1b
(`ctr 0 p = 0`: the number of trailing 0x1b of `p` is a multiple of four). -/
theorem cut_payload_state (cap : Option Nat) (p : List UInt8) (hp : fitsCap cap p.length) :
    (Dec.pushAll (Dec.fresh cap) (START ++ stuff p)).1.st =
      if ctr 0 p = 0 then .normal else .escChars (ctr 0 p) :=
  Resync.cut_payload_state cap p hp

/-- The explicit form for cuts inside the payload: start sequence, the stuffed bytes of any `p`
with no pending run of 0x1b, then the frame of `m`. -/
theorem cut_payload_then_frame (cap : Option Nat) (p m : List UInt8) (hc : ctr 0 p = 0)
    (hp : fitsCap cap p.length) (hm : fitsCap cap m.length) :
    (Dec.pushAll (Dec.fresh cap) ((START ++ stuff p) ++ frame m)).2 =
      List.replicate ((START ++ stuff p).length + 7) Out.none ++
        [Out.err (.discarded (START ++ stuff p).length)] ++
        List.replicate ((frame m).length - 9) Out.none ++ [Out.msg m] :=
  (Resync.cut_payload_then_frame cap p m hc hp hm).1

/-! ### 4. non-vacuity (kernel evaluation) -/

/-- the witnesses of the fixed matcher defect are noise in the sense of `StartFree` ... -/
example : StartFree [0x1b] := by decide
example : StartFree [0x00, 0x1b, 0x1b] := by decide
example : StartFree [0x1b, 0x1b, 0x1b, 0x1b, 0x01] := by decide
example : StartFree [0x1b, 0x1b, 0x1b, 0x1b, 0x1b] := by decide
example : StartFree [0x1b, 0x1b, 0x1b, 0x1b, 0x01, 0x01, 0x01, 0x1b] := by decide
/-- ... the start sequence itself is not, nor is noise whose tail completes one early -/
example : ¬ StartFree START := by decide
example : ¬ StartFree [0x1b, 0x1b, 0x1b, 0x1b, 0x01, 0x01, 0x01, 0x01, 0x1b, 0x1b, 0x1b, 0x1b] := by
  decide

/-- ... and the conclusion on them: the frame is not lost -/
example : (Dec.pushAll (Dec.fresh none) ([0x1b] ++ frame [1, 2, 3, 4])).2 =
    List.replicate 8 Out.none ++ [Out.err (.discarded 1)] ++ List.replicate 11 Out.none ++
      [Out.msg [1, 2, 3, 4]] := by decide +kernel

example : (Dec.pushAll (Dec.fresh none) ([0x00, 0x1b, 0x1b] ++ frame [1, 2, 3, 4])).2 =
    List.replicate 10 Out.none ++ [Out.err (.discarded 3)] ++ List.replicate 11 Out.none ++
      [Out.msg [1, 2, 3, 4]] := by decide +kernel

example : (Dec.pushAll (Dec.fresh none) ([0x1b, 0x1b, 0x1b, 0x1b, 0x01] ++ frame [1, 2, 3, 4])).2 =
    List.replicate 12 Out.none ++ [Out.err (.discarded 5)] ++ List.replicate 11 Out.none ++
      [Out.msg [1, 2, 3, 4]] := by decide +kernel

example : (Dec.pushAll (Dec.fresh none) ([0x1b, 0x1b, 0x1b, 0x1b, 0x1b] ++ frame [1, 2, 3, 4])).2 =
    List.replicate 12 Out.none ++ [Out.err (.discarded 5)] ++ List.replicate 11 Out.none ++
      [Out.msg [1, 2, 3, 4]] := by decide +kernel

example : (Dec.pushAll (Dec.fresh (some 4))
      ([0x1b, 0x1b, 0x1b, 0x1b, 0x01, 0x01, 0x01, 0x1b] ++ frame [1, 2, 3, 4])).2 =
    List.replicate 15 Out.none ++ [Out.err (.discarded 8)] ++ List.replicate 11 Out.none ++
      [Out.msg [1, 2, 3, 4]] := by decide +kernel

/-- an idle history: a delivered frame, then an `InvalidEsc` error, then `reset` -/
example : Idle none ((frame [7]).map Op.push) :=
  Or.inr ⟨.out (.msg [7]), by decide +kernel, trivial⟩

example : Idle (some 8) (((frame [7]).map Op.push ++
    [0x1b, 0x1b, 0x1b, 0x1b, 0x01, 0x01, 0x01, 0x01, 0x1b, 0x1b, 0x1b, 0x1b, 0x02, 0, 0, 0].map Op.push)
      ++ [Op.push 0x55, Op.reset]) :=
  Or.inr ⟨.reset 1, by decide +kernel, trivial⟩

/-- an idle history that ends with a `from_buf` over a buffer full of stale bytes -/
example : Idle (some 8)
    (((frame [7]).take 11).map Op.push ++ [Op.fromBuf [1, 2, 3, 4, 5, 6, 7, 8]]) :=
  Or.inr ⟨.fromBuf, by decide +kernel, trivial⟩

/-- a cut-off frame: `1b1b1b1b 01010101 01 02 | ...` (decoder in state `Normal`), then a frame -/
example : (Dec.pushAll (Dec.fresh none) ((frame [1, 2, 3, 4, 5]).take 10)).1.st = .normal := by
  decide +kernel

example : (Dec.pushAll (Dec.fresh (some 5)) ((frame [1, 2, 3, 4, 5]).take 10 ++ frame [9])).2 =
    List.replicate 17 Out.none ++ [Out.err (.discarded 10)] ++ List.replicate 11 Out.none ++
      [Out.msg [9]] := by decide +kernel

/-- a cut inside the zero padding also qualifies -/
example : (Dec.pushAll (Dec.fresh none) ((frame [1, 2, 3, 4, 5]).take 15)).1.st = .normal := by
  decide +kernel

/-- `cut_payload_then_frame`: a payload prefix that ends with a complete group of four 0x1b -/
example : ctr 0 [0x05, 0x1b, 0x1b, 0x1b, 0x1b] = 0 := by decide

/-- the hypothesis on the cut point is needed: cut after one 0x1b of the payload, the start
sequence of the next frame is read as the invalid escape `1b1b1b1b 1b010101` and the frame is lost -/
example : (Dec.pushAll (Dec.fresh none) ((frame [1, 0x1b]).take 10)).1.st = .escChars 1 := by
  decide +kernel

example : (Dec.pushAll (Dec.fresh none) ((frame [1, 0x1b]).take 10 ++ frame [9])).2.filterMap
    Out.toItem? = [Item.err (.invalidEsc 0x1b 0x01 0x01 0x01)] := by decide +kernel

end Sml.C08

import Sml.Props.C03
import Sml.Props.C06
/-
  Property C04.

  "The parsers return data only for inputs in which every message has the prescribed list arities
   and field types, a CRC-16 that matches the message bytes, the 0x00 end marker, and nothing is
   left over; whatever they return equals what an independent reading of the SML grammar (plus the
   documented vendor workaround) extracts from the same bytes.  Any other byte string - truncated,
   with trailing bytes, with a corrupted field, length or checksum, wrong arity or unknown
   variant - yields an error."

  * The independent reading of the grammar is `Spec.EncFile F x` (Sml/Spec/Grammar.lean): `x` is,
    completely, the concatenation of message encodings; each message is a list of 6 with the
    prescribed fields, the checksum field equal to the CRC-16/X.25 of the preceding message bytes
    (low byte first) and the end marker 0x00 (`Spec.EncMessage`).
  * `sound` / `iff`: the allocating parser returns `F` exactly when `x` is an encoding of `F`;
    `unique`: the grammar reads at most one file out of a byte string, so "what the grammar
    extracts" is well defined; `reject`: everything outside the grammar is an error value (and not
    one of the modelled panic sites).  `*_streaming`: the same for the streaming parser (events
    reassembled by `Spec.reassemble`, Sml/Spec/Events.lean).
  * `crc_checked`, `trailing_*`, `prefix_*` spell out consequences named in the English text.

  All statements hold for every byte string (no length bound).
-/
namespace Sml.C04
open Sml Sml.Spec

/-! ### 1. the allocating parser -/

theorem sound (x : Bytes) (F : File) (h : parseFile x = .ok F) : EncFile F x :=
  (Gram.parseFile_iff x F).1 h

theorem iff (x : Bytes) (F : File) : parseFile x = .ok F ↔ EncFile F x := Gram.parseFile_iff x F

/-- the grammar is unambiguous: a byte string encodes at most one file -/
theorem unique (F F' : File) (x : Bytes) (h : EncFile F x) (h' : EncFile F' x) : F = F' := by
  have := (C03.complete F x h).symm.trans (C03.complete F' x h')
  simpa using this

/-- anything outside the grammar yields an error value (never a panic) -/
theorem reject (x : Bytes) (h : ¬ ∃ F, EncFile F x) :
    ∃ e, parseFile x = .error e ∧ ∀ s, e ≠ .panic s := by
  cases hp : parseFile x with
  | ok F => exact absurd ⟨F, sound x F hp⟩ h
  | error e => exact ⟨e, rfl, fun s hs => C06.no_panic_complete x s (hs ▸ hp)⟩

/-- conversely, an error means that the input is outside the grammar -/
theorem error_not_enc (x : Bytes) (e : PErr) (h : parseFile x = .error e) : ¬ ∃ F, EncFile F x := by
  rintro ⟨F, hF⟩
  rw [C03.complete F x hF] at h
  cases h

/-! ### 2. the streaming parser -/

/-- if the streaming events end without an error and reassemble to `ms`, then the input is an
    encoding of the file `ms` -/
theorem sound_streaming (x : Bytes) (evs : List ParseEvent) (ms : List Message)
    (he : C09.events x = evs.map SParser.SItem.ev) (hr : reassemble evs = some ms) :
    EncFile ⟨ms⟩ x :=
  sound x ⟨ms⟩ ((C09.agree_ok x ⟨ms⟩).2 ⟨evs, he, hr⟩)

theorem iff_streaming (x : Bytes) (F : File) :
    (∃ evs : List ParseEvent,
      C09.events x = evs.map SParser.SItem.ev ∧ reassemble evs = some F.messages) ↔ EncFile F x :=
  (C09.agree_ok x F).symm.trans (iff x F)

/-- outside the grammar the streaming parser ends with an error item (never a panic) -/
theorem reject_streaming (x : Bytes) (h : ¬ ∃ F, EncFile F x) :
    ∃ (e : PErr) (evs : List ParseEvent),
      C09.events x = evs.map SParser.SItem.ev ++ [SParser.SItem.err e] ∧ ∀ s, e ≠ .panic s := by
  obtain ⟨e, he, hnp⟩ := reject x h
  obtain ⟨evs, hev⟩ := (C09.agree_err x e).1 he
  exact ⟨e, evs, hev, hnp⟩

/-! ### 3. every grammar symbol: what a successful parser call consumed is an encoding of what it
    returned -/

theorem sound_tlf (i : Bytes) (t : Tlf) (r : Bytes) (h : parseTlf i = .ok (t, r)) :
    ∃ e, i = e ++ r ∧ EncTlf t e := Gram.parses_tlf.sound i t r h

theorem sound_octet (i v r : Bytes) (h : parseOctet i = .ok (v, r)) :
    ∃ e, i = e ++ r ∧ EncOctet v e := Gram.parses_octet.sound i v r h

theorem sound_unsigned (size : Nat) (hs : size ∈ [1, 2, 4, 8]) (i : Bytes) (v : Int) (r : Bytes)
    (h : parseInt false size i = .ok (v, r)) : ∃ e, i = e ++ r ∧ EncUnsigned size v e :=
  (Gram.parses_unsigned size hs).sound i v r h

theorem sound_signed (size : Nat) (hs : size ∈ [1, 2, 4, 8]) (i : Bytes) (v : Int) (r : Bytes)
    (h : parseInt true size i = .ok (v, r)) : ∃ e, i = e ++ r ∧ EncSigned size v e :=
  (Gram.parses_signed size hs).sound i v r h

theorem sound_time (i : Bytes) (t : Time) (r : Bytes) (h : parseTime i = .ok (t, r)) :
    ∃ e, i = e ++ r ∧ EncTime t e := Gram.parses_time.sound i t r h

theorem sound_value (i : Bytes) (v : Value) (r : Bytes) (h : parseValue i = .ok (v, r)) :
    ∃ e, i = e ++ r ∧ EncValue v e := Gram.parses_value.sound i v r h

theorem sound_status (i : Bytes) (s : Status) (r : Bytes) (h : parseStatus i = .ok (s, r)) :
    ∃ e, i = e ++ r ∧ EncStatus s e := Gram.parses_status.sound i s r h

theorem sound_entry (i : Bytes) (x : ListEntry) (r : Bytes) (h : parseListEntry i = .ok (x, r)) :
    ∃ e, i = e ++ r ∧ EncListEntry x e := Gram.parses_listEntry.sound i x r h

theorem sound_valList (i : Bytes) (xs : List ListEntry) (r : Bytes)
    (h : parseList i = .ok (xs, r)) : ∃ e, i = e ++ r ∧ EncValList xs e :=
  Gram.parses_list.sound i xs r h

theorem sound_open (i : Bytes) (x : OpenResponse) (r : Bytes)
    (h : parseOpenResponse i = .ok (x, r)) : ∃ e, i = e ++ r ∧ EncOpenResponse x e :=
  Gram.parses_openResponse.sound i x r h

theorem sound_close (i : Bytes) (x : CloseResponse) (r : Bytes)
    (h : parseCloseResponse i = .ok (x, r)) : ∃ e, i = e ++ r ∧ EncCloseResponse x e :=
  Gram.parses_closeResponse.sound i x r h

theorem sound_getList (i : Bytes) (x : GetListResponse) (r : Bytes)
    (h : parseGetListResponse i = .ok (x, r)) : ∃ e, i = e ++ r ∧ EncGetListResponse x e :=
  Gram.parses_getListResponse.sound i x r h

theorem sound_body (i : Bytes) (x : MessageBody) (r : Bytes)
    (h : parseMessageBody i = .ok (x, r)) : ∃ e, i = e ++ r ∧ EncMessageBody x e :=
  Gram.parses_messageBody.sound i x r h

theorem sound_message (i : Bytes) (m : Message) (r : Bytes) (h : parseMessage i = .ok (m, r)) :
    ∃ e, i = e ++ r ∧ EncMessage m e := Gram.parses_message.sound i m r h

/-! ### 4. consequences named in the English text -/

/-- one message on the wire: the checksummed part `head` (list of 6 with transaction id, group
    number, abort-on-error and body), the checksum field (`tl ++ data`: an Unsigned TLF and one or
    two data bytes whose big-endian value is the byte-swapped CRC-16/X.25 of `head`), the end
    marker 0x00 -/
def MessageShape (m : Message) (c : Bytes) : Prop :=
  ∃ head tl data, c = head ++ (tl ++ data) ++ [0x00] ∧ EncMessageHead m head ∧
    EncTlf ⟨.unsigned, data.length⟩ tl ∧ 1 ≤ data.length ∧ data.length ≤ 2 ∧
    beNat data = (swap16 (crc16 head)).toNat

/-- an accepted input is, completely, one chunk per returned message, each with matching
    checksum and end marker -/
theorem crc_checked (x : Bytes) (F : File) (h : parseFile x = .ok F) :
    ∃ chunks : List Bytes, x = chunks.flatten ∧ chunks.length = F.messages.length ∧
      ∀ p ∈ F.messages.zip chunks, MessageShape p.1 p.2 := by
  obtain ⟨chunks, h1, h2, h3⟩ := Gram.encSeq_chunks (sound x F h)
  exact ⟨chunks, h1, h2, fun p hp => Gram.encMessage_shape (h3 p hp)⟩

/-- every message occupies at least 7 bytes; the empty input is the empty file -/
theorem message_length (m : Message) (e : Bytes) (h : EncMessage m e) : 7 ≤ e.length :=
  Gram.encMessage_length h

theorem empty_iff (F : File) (x : Bytes) (h : EncFile F x) : F.messages = [] ↔ x = [] :=
  Gram.parses_seq_nonempty (fun _ _ => Gram.encMessage_nonempty) h

/-- nothing is left over: bytes after a valid file are accepted only if they are themselves a
    sequence of valid messages (which are then returned, after those of the file) -/
theorem trailing_is_file (F F' : File) (x t : Bytes) (h : EncFile F x)
    (h' : parseFile (x ++ t) = .ok F') :
    ∃ G : File, EncFile G t ∧ F'.messages = F.messages ++ G.messages := by
  obtain ⟨g, hg1, hg2⟩ := Gram.encSeq_message_prefix h t _ F'.messages rfl (sound _ _ h')
  exact ⟨⟨g⟩, hg2, hg1⟩

/-- fewer than 7 trailing bytes always make a valid file invalid -/
theorem trailing_short (F : File) (x t : Bytes) (h : EncFile F x) (ht : t ≠ [])
    (hl : t.length < 7) : ∃ e, parseFile (x ++ t) = .error e ∧ ∀ s, e ≠ .panic s := by
  refine reject _ ?_
  rintro ⟨F', hF'⟩
  obtain ⟨g, _, hg2⟩ := Gram.encSeq_message_prefix h t _ F'.messages rfl hF'
  rcases Gram.encSeq_message_length hg2 with h0 | h7
  · exact ht h0
  · omega

theorem trailing_byte (F : File) (x : Bytes) (b : UInt8) (h : EncFile F x) :
    ∃ e, parseFile (x ++ [b]) = .error e ∧ ∀ s, e ≠ .panic s :=
  trailing_short F x [b] h (by simp) (by simp)

/-- a prefix of a valid file is accepted only when the cut is at a message boundary -/
theorem prefix_boundary (F F' : File) (p q : Bytes) (h : EncFile F (p ++ q))
    (hp : parseFile p = .ok F') :
    ∃ G : File, EncFile G q ∧ F.messages = F'.messages ++ G.messages := by
  obtain ⟨g, hg1, hg2⟩ := Gram.encSeq_message_prefix (sound _ _ hp) q _ F.messages rfl h
  exact ⟨⟨g⟩, hg2, hg1⟩

/-- a valid file truncated by 1 to 6 bytes is rejected -/
theorem truncated_short (F : File) (p q : Bytes) (h : EncFile F (p ++ q)) (hq : q ≠ [])
    (hl : q.length < 7) : ∃ e, parseFile p = .error e ∧ ∀ s, e ≠ .panic s := by
  refine reject _ ?_
  rintro ⟨F', hF'⟩
  obtain ⟨g, _, hg2⟩ := Gram.encSeq_message_prefix hF' q _ F.messages rfl h
  rcases Gram.encSeq_message_length hg2 with h0 | h7
  · exact hq h0
  · omega

/-! ### 5. non-vacuity -/

open C03 in
-- `sound` applied to an accepted input gives back the encoding relation proved by hand in C03
example : EncFile sampleFile sampleBytes := sound _ _ (C03.complete _ _ sample_file_enc)

open C03 in
example : ∀ F, EncFile F sampleBytes → F = sampleFile :=
  fun F h => unique F sampleFile sampleBytes h sample_file_enc

/-- error kind of a result -/
abbrev errOf := @C06.errOf File

-- the valid close message of C03 (20 bytes) and mutations of it
example : (parseFile C03.closeBytes).toOption = some ⟨[C03.sampleClose]⟩ := by decide +kernel

/-- checksum corrupted -/
def badCrc : Bytes :=
  [0x76, 0x05, 1, 2, 3, 6, 0x62, 0, 0x62, 0, 0x72, 0x63, 0x02, 0x01, 0x71, 0x01, 0x63, 0x32, 0x1e, 0x00]
/-- a checksummed byte corrupted (group number 1 instead of 0) -/
def badField : Bytes :=
  [0x76, 0x05, 1, 2, 3, 6, 0x62, 1, 0x62, 0, 0x72, 0x63, 0x02, 0x01, 0x71, 0x01, 0x63, 0x32, 0x1f, 0x00]
/-- end marker 0x01 -/
def badEnd : Bytes :=
  [0x76, 0x05, 1, 2, 3, 6, 0x62, 0, 0x62, 0, 0x72, 0x63, 0x02, 0x01, 0x71, 0x01, 0x63, 0x32, 0x1f, 0x01]
/-- last byte missing -/
def truncated : Bytes :=
  [0x76, 0x05, 1, 2, 3, 6, 0x62, 0, 0x62, 0, 0x72, 0x63, 0x02, 0x01, 0x71, 0x01, 0x63, 0x32, 0x1f]
/-- cut inside the body -/
def truncated2 : Bytes := [0x76, 0x05, 1, 2, 3, 6, 0x62, 0, 0x62, 0, 0x72, 0x63, 0x02]
/-- one trailing byte -/
def trailing : Bytes :=
  [0x76, 0x05, 1, 2, 3, 6, 0x62, 0, 0x62, 0, 0x72, 0x63, 0x02, 0x01, 0x71, 0x01, 0x63, 0x32, 0x1f, 0x00,
   0x00]
/-- message announced as list of 5 (`75`) -/
def badArity : Bytes :=
  [0x75, 0x05, 1, 2, 3, 6, 0x62, 0, 0x62, 0, 0x72, 0x63, 0x02, 0x01, 0x71, 0x01, 0x63, 0x32, 0x1f, 0x00]
/-- close response announced as list of 2 (`72`) -/
def badArity2 : Bytes :=
  [0x76, 0x05, 1, 2, 3, 6, 0x62, 0, 0x62, 0, 0x72, 0x63, 0x02, 0x01, 0x72, 0x01, 0x63, 0x32, 0x1f, 0x00]
/-- unknown body tag 0x0301 -/
def badTag : Bytes :=
  [0x76, 0x05, 1, 2, 3, 6, 0x62, 0, 0x62, 0, 0x72, 0x63, 0x03, 0x01, 0x71, 0x01, 0x63, 0x32, 0x1f, 0x00]
/-- group number sent as Integer8 (`52`) instead of Unsigned8 -/
def badType : Bytes :=
  [0x76, 0x05, 1, 2, 3, 6, 0x52, 0, 0x62, 0, 0x72, 0x63, 0x02, 0x01, 0x71, 0x01, 0x63, 0x32, 0x1f, 0x00]
/-- group number sent in two bytes (too wide for Unsigned8) -/
def badWidth : Bytes :=
  [0x76, 0x05, 1, 2, 3, 6, 0x63, 0, 0, 0x62, 0, 0x72, 0x63, 0x02, 0x01, 0x71, 0x01, 0x63, 0x32, 0x1f, 0x00]
/-- transaction id length corrupted (`06`) -/
def badLen : Bytes :=
  [0x76, 0x06, 1, 2, 3, 6, 0x62, 0, 0x62, 0, 0x72, 0x63, 0x02, 0x01, 0x71, 0x01, 0x63, 0x32, 0x1f, 0x00]
/-- a type-length field whose value needs 33 bits -/
def overflowTlf : Bytes := [0x81, 0x80, 0x80, 0x80, 0x80, 0x80, 0x80, 0x80, 0x0b]
/-- time with unknown choice tag 2 inside an open response -/
def badTimeTag : Bytes :=
  [0x76, 0x05, 1, 2, 3, 4, 0x62, 0, 0x62, 0, 0x72, 0x63, 0x01, 0x01,
   0x76, 0x01, 0x01, 0x03, 0xaa, 0xbb, 0x04, 0x0a, 0x0b, 0x0c,
   0x72, 0x62, 0x02, 0x65, 0, 0, 0x12, 0x34, 0x01, 0x63, 0xa4, 0xeb, 0x00]

example : errOf (parseFile badCrc) = some .crcMismatch := by decide +kernel
example : errOf (parseFile badField) = some .crcMismatch := by decide +kernel
example : errOf (parseFile badEnd) = some .msgEndMismatch := by decide +kernel
example : errOf (parseFile truncated) = some .unexpectedEOF := by decide +kernel
example : errOf (parseFile truncated2) = some .unexpectedEOF := by decide +kernel
example : errOf (parseFile trailing) = some .tlfLengthUnderflow := by decide +kernel
example : errOf (parseFile badArity) = some .tlfMismatch := by decide +kernel
example : errOf (parseFile badArity2) = some .tlfMismatch := by decide +kernel
example : errOf (parseFile badTag) = some .unexpectedVariant := by decide +kernel
example : errOf (parseFile badType) = some .tlfMismatch := by decide +kernel
example : errOf (parseFile badWidth) = some .tlfMismatch := by decide +kernel
example : errOf (parseFile badLen) = some .tlfLengthUnderflow := by decide +kernel
example : errOf (parseFile overflowTlf) = some .tlfLengthOverflow := by decide +kernel
example : errOf (parseFile badTimeTag) = some .unexpectedVariant := by decide +kernel
-- ... hence none of them is in the grammar
example : ¬ ∃ F, EncFile F badCrc :=
  error_not_enc _ .crcMismatch (Gram.errOf_eq (by decide +kernel))
example : ¬ ∃ F, EncFile F badEnd :=
  error_not_enc _ .msgEndMismatch (Gram.errOf_eq (by decide +kernel))
example : ¬ ∃ F, EncFile F badArity :=
  error_not_enc _ .tlfMismatch (Gram.errOf_eq (by decide +kernel))
-- instances of `trailing_byte` / `truncated_short` on the sample file of C03
example : ∃ e, parseFile (C03.sampleBytes ++ [0x00]) = .error e ∧ ∀ s, e ≠ .panic s :=
  trailing_byte _ _ _ C03.sample_file_enc
example : ∃ e, parseFile (C03.sampleBytes.take 150) = .error e ∧ ∀ s, e ≠ .panic s :=
  truncated_short C03.sampleFile (C03.sampleBytes.take 150) (C03.sampleBytes.drop 150)
    (by rw [List.take_append_drop]; exact C03.sample_file_enc) (by decide +kernel)
    (by decide +kernel)
-- the streaming parser on a rejected input: the message-start event, then the error item, then end
example : C13.kinds ((SParser.new badCrc).take 3).2 =
    [some none, some (some .crcMismatch), none] := by decide +kernel

end Sml.C04

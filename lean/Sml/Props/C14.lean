import Sml.Lemmas.DecBasic
/-
  Property C14.

  "Whenever a decoder has just delivered a transmission, reported an invalid-message,
  invalid-escape or out-of-memory error, or been reset or finalized, its behaviour on all
  following bytes is identical to that of a newly constructed decoder.  Consequently decoding a
  concatenation equals concatenating the decodings whenever the split falls on such a boundary."

  * model : `Dec`, `Dec.step` / `Dec.run` (histories of `push_byte` / `finalize` / `reset`, and of
    replacements of the decoder by `Decoder::new()` / `Decoder::from_buf(buf)` with a buffer that
    still holds stale bytes: `Op.new`, `Op.fromBuf stale`),
    `Dec.pushAll` (Sml/Model/Decode.lean, Sml/Model/Frontends.lean).
  * method (Sml/Lemmas/DecBasic.lean §7): `Dec.norm` forgets the dead fields — the digest in
    state `look` (overwritten when a start sequence completes) and, in state `done`, `raw`, `zc`,
    the digest and the buffer contents (the next operation begins with `reset`; the capacity is
    kept).  `Dec.Equiv d d' := d.norm = d'.norm` is a bisimulation for all five operations
    (`Dec.step_equiv`), and after each of the listed events the state is `Equiv` to
    `Dec.fresh cap` (`Dec.step_fresh_or`; the capacity is preserved by `Dec.run_cap`).
  * "behaviour on all following bytes" is stated for arbitrary continuations `c : List Op`
    (bytes, and also further `finalize` / `reset` / `new` / `from_buf` calls).

  The theorems hold for every history, every continuation and every buffer capacity.
-/
namespace Sml.C14

/-- The answers after which the decoder is as good as new: a transmission, an `InvalidMessage`,
`InvalidEsc` or `OutOfMemory` error, the answer of `finalize`, the answer of `reset`, and the
construction of a decoder in mid-history by `Decoder::new()` or `Decoder::from_buf(buf)` (whatever
stale bytes `buf` holds).
(Not `Ok(None)`, and not a `DiscardedBytes` error: that one is reported when a start sequence
has just been recognised, i.e. in the middle of a transmission.) -/
def Boundary : OpOut → Prop
  | .out (.msg _) => True
  | .out (.err (.invalidMsg _ _ _ _ _)) => True
  | .out (.err (.invalidEsc _ _ _ _)) => True
  | .out (.err .oom) => True
  | .fin _ => True
  | .reset _ => True
  | .new => True
  | .fromBuf => True
  | _ => False

theorem boundary_cases {o : OpOut} (h : Boundary o) :
    o ≠ .out .none ∧ (∀ n, o ≠ .out (.err (.discarded n))) ∧ ∀ s, o ≠ .out (.panic s) := by
  refine ⟨?_, ?_, ?_⟩
  · rintro rfl; exact h
  · rintro n rfl; exact h
  · rintro s rfl; exact h

/-- equal up to fields that no later operation can observe -/
abbrev Equiv : Dec → Dec → Prop := Dec.Equiv

/-- `Equiv` is a bisimulation: equivalent decoders give the same answer to every operation and
stay equivalent -/
theorem equiv_bisim {d d' : Dec} (h : Equiv d d') (op : Op) :
    (d.step op).2 = (d'.step op).2 ∧ Equiv (d.step op).1 (d'.step op).1 :=
  Dec.step_equiv h op

/-- ... hence the same answers to every sequence of operations -/
theorem equiv_run {d d' : Dec} (h : Equiv d d') (c : List Op) : (d.run c).2 = (d'.run c).2 :=
  (Dec.run_equiv c h).1

/-- after a boundary answer the decoder is equivalent to a newly constructed one -/
theorem boundary_equiv_fresh (cap : Option Nat) (ops : List Op) (op : Op)
    (h : Boundary ((Dec.run (Dec.fresh cap) ops).1.step op).2) :
    Equiv (Dec.run (Dec.fresh cap) (ops ++ [op])).1 (Dec.fresh cap) := by
  obtain ⟨h1, h2, h3⟩ := boundary_cases h
  have hinv := Dec.run_inv ops (Dec.inv_fresh cap)
  have hcap := (Dec.step_cap hinv op).trans (Dec.run_cap ops (Dec.inv_fresh cap))
  rw [Dec.run_snoc]
  show Dec.norm _ = Dec.norm _
  rw [Dec.norm_fresh]
  rcases Dec.step_fresh_or (Dec.run (Dec.fresh cap) ops).1 op with hf | hf | ⟨n, hf⟩ | ⟨s, hf⟩
  · rw [hf, hcap]; rfl
  · exact absurd hf h1
  · exact absurd hf (h2 n)
  · exact absurd hf (h3 s)

/-- Main statement: if the last answer of a history is a boundary, every continuation is
answered exactly as by a new decoder. -/
theorem boundary_fresh (cap : Option Nat) (ops : List Op)
    (h : ∃ o, (Dec.run (Dec.fresh cap) ops).2.getLast? = some o ∧ Boundary o) (c : List Op) :
    (Dec.run (Dec.run (Dec.fresh cap) ops).1 c).2 = (Dec.run (Dec.fresh cap) c).2 := by
  obtain ⟨o, hl, hb⟩ := h
  exact Dec.run_after_boundary cap ops ⟨o, hl, boundary_cases hb⟩ c

/-- feeding a concatenation: the second part starts in the state the first part left -/
theorem pushAll_append (d : Dec) (s1 s2 : List UInt8) :
    Dec.pushAll d (s1 ++ s2) =
      ((Dec.pushAll (Dec.pushAll d s1).1 s2).1,
        (Dec.pushAll d s1).2 ++ (Dec.pushAll (Dec.pushAll d s1).1 s2).2) :=
  Dec.pushAll_append s1 d s2

/-- Decoding a concatenation is concatenating the decodings when the split falls on a boundary. -/
theorem concat (cap : Option Nat) (s1 s2 : List UInt8)
    (h : ∃ o, (Dec.pushAll (Dec.fresh cap) s1).2.getLast? = some o ∧ Boundary (.out o)) :
    (Dec.pushAll (Dec.fresh cap) (s1 ++ s2)).2 =
      (Dec.pushAll (Dec.fresh cap) s1).2 ++ (Dec.pushAll (Dec.fresh cap) s2).2 := by
  obtain ⟨o, hl, hb⟩ := h
  obtain ⟨h1, h2, h3⟩ := boundary_cases hb
  rw [pushAll_append]
  simp only
  rw [Dec.pushAll_after_boundary cap s1
    ⟨o, hl, fun hc => h1 (by rw [hc]), fun n hc => h2 n (by rw [hc]), fun s hc => h3 s (by rw [hc])⟩]

/-! ### non-vacuity -/

/-- a complete transmission (the frame of `12 34 56 78`) ends on a boundary ... -/
example : ∃ o, (Dec.pushAll (Dec.fresh none)
      [0x1b, 0x1b, 0x1b, 0x1b, 0x01, 0x01, 0x01, 0x01, 0x12, 0x34, 0x56, 0x78,
       0x1b, 0x1b, 0x1b, 0x1b, 0x1a, 0x00, 0xb8, 0x7b]).2.getLast? = some o ∧
    Boundary (.out o) :=
  ⟨.msg [0x12, 0x34, 0x56, 0x78], by decide +kernel, trivial⟩

/-- ... so does a corrupted one (`InvalidMessage`) ... -/
example : ∃ o, (Dec.pushAll (Dec.fresh none)
      [0x1b, 0x1b, 0x1b, 0x1b, 0x01, 0x01, 0x01, 0x01, 0x12, 0x34, 0x56, 0x79,
       0x1b, 0x1b, 0x1b, 0x1b, 0x1a, 0x00, 0xb8, 0x7b]).2.getLast? = some o ∧
    Boundary (.out o) :=
  ⟨.err (.invalidMsg 31672 58477 false 0 false), by decide +kernel, trivial⟩

/-- ... an invalid escape sequence ... -/
example : ∃ o, (Dec.pushAll (Dec.fresh none)
      [0x1b, 0x1b, 0x1b, 0x1b, 0x01, 0x01, 0x01, 0x01,
       0x1b, 0x1b, 0x1b, 0x1b, 0x02, 0x00, 0x00, 0x00]).2.getLast? = some o ∧
    Boundary (.out o) :=
  ⟨.err (.invalidEsc 0x02 0x00 0x00 0x00), by decide +kernel, trivial⟩

/-- ... and running out of memory in an `ArrayBuf<1>` -/
example : ∃ o, (Dec.pushAll (Dec.fresh (some 1))
      [0x1b, 0x1b, 0x1b, 0x1b, 0x01, 0x01, 0x01, 0x01, 0x05, 0x06]).2.getLast? = some o ∧
    Boundary (.out o) :=
  ⟨.err .oom, by decide +kernel, trivial⟩

/-- `finalize` / `reset` in the middle of a transmission -/
example : ∃ o, (Dec.run (Dec.fresh none)
      ([0x1b, 0x1b, 0x1b, 0x1b, 0x01, 0x01, 0x01, 0x01, 0x05].map Op.push ++ [.fin])).2.getLast?
        = some o ∧ Boundary o :=
  ⟨.fin (some (.discarded 9)), by decide +kernel, trivial⟩

/-- `Decoder::new()` / `Decoder::from_buf` (with stale bytes in the buffer) in the middle of a
transmission -/
example : ∃ o, (Dec.run (Dec.fresh (some 4))
      ([0x1b, 0x1b, 0x1b, 0x1b, 0x01, 0x01, 0x01, 0x01, 0x05].map Op.push ++ [.new])).2.getLast?
        = some o ∧ Boundary o :=
  ⟨.new, by decide +kernel, trivial⟩

example : ∃ o, (Dec.run (Dec.fresh (some 4))
      ([0x1b, 0x1b, 0x1b, 0x1b, 0x01, 0x01, 0x01, 0x01, 0x05].map Op.push ++
        [.fromBuf [0xde, 0xad, 0xbe, 0xef]])).2.getLast? = some o ∧ Boundary o :=
  ⟨.fromBuf, by decide +kernel, trivial⟩

/-- ... after which a frame is decoded as by a new decoder: the stale bytes `de ad be ef` that
fill the whole `ArrayBuf<4>` neither reach the payload nor cause an out-of-memory error -/
example : (Dec.run (Dec.fresh (some 4))
      ([0x1b, 0x1b, 0x1b, 0x1b, 0x01, 0x01, 0x01, 0x01, 0x05].map Op.push ++
        [.fromBuf [0xde, 0xad, 0xbe, 0xef]] ++
        [0x1b, 0x1b, 0x1b, 0x1b, 0x01, 0x01, 0x01, 0x01, 0x12, 0x34, 0x56, 0x78,
         0x1b, 0x1b, 0x1b, 0x1b, 0x1a, 0x00, 0xb8, 0x7b].map Op.push)).2.getLast? =
    some (.out (.msg [0x12, 0x34, 0x56, 0x78])) := by
  decide +kernel

/-- the conclusion on a concrete instance: two frames back to back -/
example : (Dec.pushAll (Dec.fresh none)
      ([0x1b, 0x1b, 0x1b, 0x1b, 0x01, 0x01, 0x01, 0x01, 0x12, 0x34, 0x56, 0x78,
        0x1b, 0x1b, 0x1b, 0x1b, 0x1a, 0x00, 0xb8, 0x7b] ++
       [0x1b, 0x1b, 0x1b, 0x1b, 0x01, 0x01, 0x01, 0x01, 0x12, 0x34, 0x56, 0x78,
        0x1b, 0x1b, 0x1b, 0x1b, 0x1a, 0x00, 0xb8, 0x7b])).2.filterMap Out.toItem? =
    [.ok [0x12, 0x34, 0x56, 0x78], .ok [0x12, 0x34, 0x56, 0x78]] := by
  decide +kernel

/-- the boundary hypothesis is needed: in the middle of a transmission (`Ok(None)`) the decoder
does not behave like a new one (the same four bytes are an `InvalidEsc` here, noise there) -/
example :
    (Dec.pushAll (Dec.pushAll (Dec.fresh none)
      [0x1b, 0x1b, 0x1b, 0x1b, 0x01, 0x01, 0x01, 0x01, 0x1b, 0x1b, 0x1b, 0x1b]).1
        [0x02, 0x00, 0x00, 0x00]).2 ≠
    (Dec.pushAll (Dec.fresh none) [0x02, 0x00, 0x00, 0x00]).2 := by
  decide +kernel

/-- `Decoder::from_buf` with any (possibly non-empty) buffer is a newly constructed decoder: the
    caller's stale bytes never reach a payload. -/
theorem fromBuf_eq_fresh (b : Buf) : Dec.fromBuf b = Dec.fresh b.cap := rfl

/-- the two constructor operations of a history: whatever the decoder was doing, and whatever
stale bytes the buffer handed to `from_buf` holds, the result *is* (not only: is equivalent to)
a newly constructed decoder of the same capacity -/
theorem step_new (d : Dec) : d.step .new = (Dec.fresh d.buf.cap, .new) := rfl

theorem step_fromBuf (d : Dec) (stale : List UInt8) :
    d.step (.fromBuf stale) = (Dec.fresh d.buf.cap, .fromBuf) := rfl

/-- in a history that started with `Dec.fresh cap` the capacity is `cap` throughout, so a
`new` / `from_buf` anywhere in a history restarts it: the answers to the rest are those of a new
decoder (special case of `boundary_fresh`, stated without the `Boundary` detour) -/
theorem new_restarts (cap : Option Nat) (ops c : List Op) :
    (Dec.run (Dec.fresh cap) (ops ++ .new :: c)).2 =
      (Dec.run (Dec.fresh cap) ops).2 ++ .new :: (Dec.run (Dec.fresh cap) c).2 := by
  rw [Dec.run_append, Dec.run_cons, Dec.step_new, Dec.run_cap ops (Dec.inv_fresh cap)]
  rfl

theorem fromBuf_restarts (cap : Option Nat) (ops c : List Op) (stale : List UInt8) :
    (Dec.run (Dec.fresh cap) (ops ++ .fromBuf stale :: c)).2 =
      (Dec.run (Dec.fresh cap) ops).2 ++ .fromBuf :: (Dec.run (Dec.fresh cap) c).2 := by
  rw [Dec.run_append, Dec.run_cons, Dec.step_fromBuf, Dec.run_cap ops (Dec.inv_fresh cap)]
  rfl

end Sml.C14

import Sml.Lemmas.Encoder4
import Sml.Props.C04
/-
  Property C03, non-vacuity at full strength ("the grammar is not too narrow").

  `C03.complete : EncFile F x → parseFile x = .ok F` and `C04.iff` make the declarative grammar
  `Spec.EncFile` exactly the language of the parser.  That alone would also hold for a grammar
  that admits too FEW encodings (for a file without any encoding `C03.complete` is vacuous), and
  the AST types of the model are wider than the Rust types (`Int`, `Nat` instead of `u8` … `i64`).
  This file closes the gap with a canonical encoder and a well-formedness predicate
  (Sml/Spec/Encoder.lean, parser-free):

  * `WFFile F`: every field of `F` is in the range of its Rust type (`group_no`, `abort_on_error`,
    `unit`, `sml_version`: u8; `scaler`: i8; `SecIndex`: u32; `I8`…`I64`, `U8`…`U64`,
    `Status8`…`Status64` with that width), every octet string is shorter than 2^32 - 8 bytes and
    every value list shorter than 2^32 entries (what a 32-bit type-length field can announce).
  * `encFile c F`: a computable encoder; `c : Choices` selects, independently for every field of
    every message, among the encodings the grammar admits: extra leading type-length-field bytes,
    the transmitted integer width (fewest bytes … nominal size), list-form or vendor-workaround
    time, 1- or 2-byte checksum field.

  * `enc_sound`: for EVERY well-formed file and EVERY choice `c`, `encFile c F` is an encoding of
    `F` in the grammar; hence (`enc_roundtrip`, `enc_roundtrip_streaming`) both parsers return
    exactly `F` on it.  So `C03.complete` is non-vacuous for every well-formed file, in all the
    encoding variants.
  * `enc_wf`: conversely the grammar only relates well-formed files to byte strings, hence
    (`parse_wf`) whatever the parsers return is in range for the Rust types.
  * `encodable_iff`: `WFFile` is EXACTLY the set of files that have an encoding / that the parser
    can return.  E.g. `groupNo = 300` has no encoding (`example` below).

  All statements hold for all files and all choices (no size bounds).
-/
namespace Sml.C03
open Sml Sml.Spec

/-! ### 1. files -/

/-- every well-formed file has, for every setting of the encoding choices, an encoding in the
    grammar: the one computed by the encoder -/
theorem enc_sound (c : Choices) (F : File) (h : WFFile F) : EncFile F (encFile c F) :=
  Enc.enc_sound_file c F h

/-- the allocating parser inverts the encoder, whatever the encoding choices -/
theorem enc_roundtrip (c : Choices) (F : File) (h : WFFile F) : parseFile (encFile c F) = .ok F :=
  complete F _ (enc_sound c F h)

/-- the streaming parser inverts the encoder: its events are error-free and reassemble to `F` -/
theorem enc_roundtrip_streaming (c : Choices) (F : File) (h : WFFile F) :
    ∃ evs : List ParseEvent,
      C09.events (encFile c F) = evs.map SParser.SItem.ev ∧ reassemble evs = some F.messages :=
  complete_streaming F _ (enc_sound c F h)

/-- everything the grammar relates to a byte string is well-formed -/
theorem enc_wf (F : File) (x : Bytes) (h : EncFile F x) : WFFile F := Enc.enc_wf_file h

/-- everything the allocating parser returns is in range for the Rust types -/
theorem parse_wf (x : Bytes) (F : File) (h : parseFile x = .ok F) : WFFile F :=
  enc_wf F x (C04.sound x F h)

/-- ... and so is everything the streaming parser emits in an error-free run -/
theorem parse_wf_streaming (x : Bytes) (evs : List ParseEvent) (ms : List Message)
    (he : C09.events x = evs.map SParser.SItem.ev) (hr : reassemble evs = some ms) : WFFile ⟨ms⟩ :=
  enc_wf _ x (C04.sound_streaming x evs ms he hr)

/-- `WFFile` is exactly the domain of the grammar: a file has an encoding iff it is well-formed -/
theorem encodable_iff (F : File) : (∃ x, EncFile F x) ↔ WFFile F :=
  ⟨fun ⟨x, h⟩ => enc_wf F x h, fun h => ⟨encFile Choices.canonical F, enc_sound _ F h⟩⟩

/-- ... iff the parser can return it -/
theorem parseable_iff (F : File) : (∃ x, parseFile x = .ok F) ↔ WFFile F :=
  ⟨fun ⟨x, h⟩ => parse_wf x F h, fun h => ⟨_, enc_roundtrip Choices.canonical F h⟩⟩

/-- different choices that produce different bytes are different encodings of the same file: both
    parse to `F` -/
theorem enc_choices_agree (c c' : Choices) (F : File) (h : WFFile F) :
    parseFile (encFile c F) = parseFile (encFile c' F) :=
  (enc_roundtrip c F h).trans (enc_roundtrip c' F h).symm

/-! ### 2. every grammar symbol (for every choice of encoding) -/

/-- type-length fields: shortest form plus any number of extra continuation bytes; a list may
    announce up to 2^32-1 elements, any other field up to 2^32-9 bytes -/
theorem enc_sound_tlf (extra : Nat) (ty : Ty) (len : Nat) (hb : ty ≠ .boolean)
    (h : if ty = .listOf then len ≤ u32Max else len + 8 ≤ u32Max) :
    EncTlf ⟨ty, len⟩ (encTlf extra ty len) := Enc.enc_sound_tlf extra ty len hb h

/-- ... and these bounds are exact -/
theorem enc_wf_tlf (ty : Ty) (len : Nat) (tl : Bytes) (h : EncTlf ⟨ty, len⟩ tl) :
    if ty = .listOf then len ≤ u32Max else len + 8 ≤ u32Max := Enc.enc_wf_tlf h

theorem enc_sound_octet (c : FieldChoice) (v : Bytes) (h : WFOctet v) :
    EncOctet v (encOctet c v) := Enc.enc_sound_octet c v h

/-- `toBe` inverts `beNat` on values of `w` bytes -/
theorem beNat_toBe (w n : Nat) (h : n < 256 ^ w) : beNat (toBe w n) = n :=
  Enc.beNat_toBe_of_lt n w h

/-- two's complement: `toBeSigned` inverts `twos` on values of `w` bytes -/
theorem twos_toBeSigned (w : Nat) (v : Int) (hw : 1 ≤ w) (h : InInt w v) :
    twos (toBeSigned w v) = v := (Enc.twos_toBeSigned w v hw h).2.symm

/-- Unsigned8/16/32/64 in any admissible width -/
theorem enc_sound_unsigned (c : FieldChoice) (size : Nat) (hs : size ∈ [1, 2, 4, 8]) (v : Int)
    (hv : InUns size v) : EncUnsigned size v (encUnsigned c size v) :=
  Enc.enc_sound_unsigned c size v (Enc.widths_le hs) hv

/-- Integer8/16/32/64 in any admissible width, value and sign -/
theorem enc_sound_signed (c : FieldChoice) (size : Nat) (hs : size ∈ [1, 2, 4, 8]) (v : Int)
    (hv : InInt size v) : EncSigned size v (encSigned c size v) :=
  Enc.enc_sound_signed c size v (Enc.widths_le hs) hv

/-- list form and vendor workaround -/
theorem enc_sound_time (c : FieldChoice) (t : Time) (h : WFTime t) : EncTime t (encTime c t) :=
  Enc.enc_sound_time c t h

/-- every value type; integers in every width of their class -/
theorem enc_sound_value (c : FieldChoice) (v : Value) (h : WFValue v) :
    EncValue v (encValue c v) := Enc.enc_sound_value c v h

theorem enc_sound_status (c : FieldChoice) (s : Status) (h : WFStatus s) :
    EncStatus s (encStatus c s) := Enc.enc_sound_status c s h

/-- optional octet strings, absent, present, present and empty -/
theorem enc_sound_opt_octet (c : FieldChoice) (o : Option Bytes) (h : WFOpt WFOctet o) :
    EncOpt EncOctet o (encOptOctet c o) := Enc.enc_sound_optOctet c o h

theorem enc_sound_entry (c : EntryChoices) (x : ListEntry) (h : WFEntry x) :
    EncListEntry x (encEntry c x) := Enc.enc_sound_entry c x h

theorem enc_sound_valList (ct : FieldChoice) (c : Nat → EntryChoices) (xs : List ListEntry)
    (hl : xs.length ≤ u32Max) (h : ∀ e ∈ xs, WFEntry e) : EncValList xs (encValList ct c xs) :=
  Enc.enc_sound_valList ct c xs hl h

theorem enc_sound_open (c : OpenChoices) (x : OpenResponse) (h : WFOpen x) :
    EncOpenResponse x (encOpen c x) := Enc.enc_sound_open c x h

theorem enc_sound_close (c : CloseChoices) (x : CloseResponse) (h : WFClose x) :
    EncCloseResponse x (encClose c x) := Enc.enc_sound_close c x h

theorem enc_sound_getList (c : GetListChoices) (x : GetListResponse) (h : WFGetList x) :
    EncGetListResponse x (encGetList c x) := Enc.enc_sound_getList c x h

theorem enc_sound_body (c : MessageChoices) (b : MessageBody) (h : WFBody b) :
    EncMessageBody b (encBody c b) := Enc.enc_sound_body c b h

/-- the message with its checksum: `encMessage` appends `swap16 (crc16 head)` as an Unsigned16 -/
theorem enc_sound_message (c : MessageChoices) (m : Message) (h : WFMessage m) :
    EncMessage m (encMessage c m) := Enc.enc_sound_message c m h

theorem enc_wf_message (m : Message) (e : Bytes) (h : EncMessage m e) : WFMessage m :=
  Enc.enc_wf_message h

/-! ### 3. non-vacuity -/

-- the sample file of C03 is well-formed
example : WFFile sampleFile := by decide +kernel

/-- fewest bytes everywhere: shortest type-length fields, integers in the fewest bytes of their
    class, list-form time, checksum in 1 byte where it fits -/
def cMin : Choices := .uniform { tlfExtra := 0, width := 0, timeWorkaround := false }

/-- one extra continuation byte in every type-length field, every integer in its nominal width,
    every time in the vendor-workaround form -/
def cWide : Choices := .uniform { tlfExtra := 1, width := 8, timeWorkaround := true }

/-- a mixed setting, chosen field by field so that the encoder reproduces the hand-written
    encoding `C03.sampleBytes`: body tags in 2 bytes, in the list response (message 1) the sensor
    time in workaround form, entry 1 with a 2-byte field for its name and its U32 in 3 bytes,
    entry 2 with a workaround time as value -/
def cSample : Choices := fun i =>
  let base : MessageChoices := { MessageChoices.uniform {} with bodyTag := { width := 0 } }
  if i = 1 then
    { base with getListRes :=
        { GetListChoices.uniform {} with
            actSensorTime := { timeWorkaround := true }
            entries := fun j =>
              if j = 1 then
                { EntryChoices.uniform {} with objName := { tlfExtra := 1 }, value := { width := 3 } }
              else if j = 2 then
                { EntryChoices.uniform {} with value := { timeWorkaround := true } }
              else .uniform {} } }
  else base

/-- as `cSample`, but the close response (message 2) with 2-byte fields for the message list, the
    transaction id and the group number: reproduces `C03.sampleBytes'` -/
def cSample' : Choices := fun i =>
  if i = 2 then
    { cSample 2 with tlf := { tlfExtra := 1 }, transactionId := { tlfExtra := 1 },
                     groupNo := { tlfExtra := 1 } }
  else cSample i

-- the two hand-proved encodings of C03 are outputs of the encoder
set_option maxRecDepth 100000 in
example : encFile cSample sampleFile = sampleBytes := by decide +kernel
set_option maxRecDepth 100000 in
example : encFile cSample' sampleFile = sampleBytes' := by decide +kernel

-- four settings, four different byte strings (150 … 200 bytes) ...
set_option maxRecDepth 100000 in
example : (encFile cMin sampleFile).length = 150 ∧ (encFile Choices.canonical sampleFile).length = 166 ∧
    (encFile cSample sampleFile).length = 154 ∧ (encFile cWide sampleFile).length = 200 := by
  decide +kernel

-- ... all parsed back to the same file (evaluated, independently of the theorems)
set_option maxRecDepth 100000 in
example : (parseFile (encFile cMin sampleFile)).toOption = some sampleFile := by decide +kernel
set_option maxRecDepth 100000 in
example : (parseFile (encFile cWide sampleFile)).toOption = some sampleFile := by decide +kernel
set_option maxRecDepth 100000 in
example : (parseFile (encFile Choices.canonical sampleFile)).toOption = some sampleFile := by
  decide +kernel
set_option maxRecDepth 100000 in
example : ((C09.evsOf (C09.events (encFile cWide sampleFile))).bind reassemble) =
    some sampleFile.messages := by decide +kernel
-- instances of the theorems
example : parseFile (encFile cMin sampleFile) = .ok sampleFile :=
  enc_roundtrip _ _ (by decide +kernel)
example : parseFile (encFile cWide sampleFile) = .ok sampleFile :=
  enc_roundtrip _ _ (by decide +kernel)

-- single fields: a negative I16 sent in 2 bytes; the I64 -129 in its fewest 5 bytes (the class
-- I64 needs more than 4) and in 8 bytes; a U32 sent in 3 and in 4 bytes
example : encValue { width := 0 } (.int 2 (-2)) = [0x53, 0xff, 0xfe] := by decide +kernel
example : encValue { width := 0 } (.int 8 (-129)) = [0x56, 0xff, 0xff, 0xff, 0xff, 0x7f] := by
  decide +kernel
example : encValue {} (.int 8 (-129)) = [0x59, 0xff, 0xff, 0xff, 0xff, 0xff, 0xff, 0xff, 0x7f] := by
  decide +kernel
example : encValue { width := 0 } (.uns 4 65536) = [0x64, 0x01, 0, 0] := by decide +kernel
example : encValue {} (.uns 4 65536) = [0x65, 0, 0x01, 0, 0] := by decide +kernel
-- both time encodings
example : encTime {} (.secIndex 7) = [0x72, 0x62, 0x01, 0x65, 0, 0, 0, 7] := by decide +kernel
example : encTime { width := 0 } (.secIndex 7) = [0x72, 0x62, 0x01, 0x62, 7] := by decide +kernel
example : encTime { timeWorkaround := true } (.secIndex 7) = [0x65, 0, 0, 0, 7] := by decide +kernel
-- type-length fields: 15 bytes need a 2-byte field; with two extra bytes; the longest octet string
example : encTlf 0 .octetString 14 = [0x0f] ∧ encTlf 0 .octetString 15 = [0x81, 0x01] ∧
    encTlf 2 .octetString 14 = [0x80, 0x81, 0x01] := by decide +kernel
example : encTlf 0 .octetString (2 ^ 32 - 9) = [0x8f, 0x8f, 0x8f, 0x8f, 0x8f, 0x8f, 0x8f, 0x0f] := by
  decide +kernel
-- a present empty optional octet string is never sent as `01`
example : encOptOctet {} (some []) = [0x80, 0x02] ∧ encOptOctet {} Option.none = [0x01] := by
  decide +kernel

/-- the extremes of every Rust type -/
def extremeEntry (v : Value) : ListEntry :=
  { objName := [], status := some (.status 8 (2 ^ 64 - 1)), valTime := some (.secIndex (2 ^ 32 - 1)),
    unit := some 255, scaler := some (-128), value := v, valueSignature := some [] }

def extremeFile : File :=
  { messages := [
      { transactionId := [], groupNo := 255, abortOnError := 255,
        messageBody := .getListResponse
          { clientId := some [], serverId := [], listName := none, actSensorTime := none,
            valList := [extremeEntry (.int 8 (-(2 ^ 63))), extremeEntry (.int 8 (2 ^ 63 - 1)),
              extremeEntry (.uns 8 (2 ^ 64 - 1)), extremeEntry (.int 1 (-128)),
              extremeEntry (.int 4 (-(2 ^ 23) - 1)), extremeEntry (.uns 2 256),
              extremeEntry (.bool true), extremeEntry (.bytes [])],
            listSignature := none, actGatewayTime := some (.secIndex 0) } },
      { transactionId := [0xd4, 0], groupNo := 0, abortOnError := 0,
        messageBody := .closeResponse ⟨none⟩ } ] }

example : WFFile extremeFile := by decide +kernel
set_option maxRecDepth 100000 in
example : (parseFile (encFile cMin extremeFile)).toOption = some extremeFile := by decide +kernel
set_option maxRecDepth 100000 in
example : (parseFile (encFile cWide extremeFile)).toOption = some extremeFile := by decide +kernel
-- with `cMin` the checksum of the second message is sent in ONE byte (`62 e7`)
example : encMessages (fun i => cMin (i + 1)) (extremeFile.messages.drop 1) =
    [0x76, 0x03, 0xd4, 0, 0x62, 0, 0x62, 0, 0x72, 0x63, 0x02, 0x01, 0x71, 0x01, 0x62, 0xe7, 0x00] := by
  decide +kernel

/-- out of range for `u8`: no encoding exists, and no input makes the parser return it -/
def badGroup : File :=
  { messages := [{ transactionId := [], groupNo := 300, abortOnError := 0,
                   messageBody := .closeResponse ⟨none⟩ }] }

example : ¬ ∃ x, EncFile badGroup x := fun h => absurd ((encodable_iff _).1 h) (by decide +kernel)
example : ¬ ∃ x, parseFile x = .ok badGroup :=
  fun h => absurd ((parseable_iff _).1 h) (by decide +kernel)
-- `I16` holding 40000, `U8` in class 4 (not a width), class 3: all outside the grammar
example : ¬ WFValue (.int 2 40000) ∧ ¬ WFValue (.uns 3 5) ∧ WFValue (.uns 4 5) := by decide +kernel

end Sml.C03

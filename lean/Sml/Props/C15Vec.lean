import Sml.Props.C15
import Sml.Props.C05VecPrefix
/-
  Property C15 for a push decoder over a `Vec<u8>` whose allocations may fail.

  The frontends of C15 are characterised against `reference cap s` = the results of pushing every
  byte into the never-failing model and finalising.  Here the push decoder itself runs with an
  arbitrary allocation oracle (`DecF`, Sml/Model/DecodeFallible.lean):

  * `fallible_push_eq_reference` : if no `push_byte` call answered `Err(OutOfMemory)`, the payloads
    and decode errors it reported, followed by what `finalize` reports, are exactly the reference
    sequence — hence (by `C15.decode_eq`, `iter_eq`, `reader_eq`) exactly what `decode`,
    `decode_streaming` and the readers report for the same stream;
  * `fallible_push_eq_decode` : the same, stated against `decodeAll` (`decode`).

  For every oracle and every stream; the hypothesis is observable by the caller (it is a statement
  about the answers the caller received), and by `C05.run_agrees_until_oom` it can only fail when
  an allocation really failed.
-/
namespace Sml.C15

open Sml

/-- push decoder with any allocation oracle, no `OutOfMemory` answered ⇒ the reference sequence -/
theorem fallible_push_eq_reference (alloc : List Bool) (s : List UInt8)
    (h : Out.err .oom ∉ (DecF.pushAll (DecF.fresh alloc) s).2) :
    items (DecF.pushAll (DecF.fresh alloc) s).2 ++
        (match (DecF.pushAll (DecF.fresh alloc) s).1.finalize.2 with
          | some e => [Item.err e]
          | none => []) = reference none s := by
  obtain ⟨e2, e1⟩ := C05.pushAll_eq_of_no_oom (DecF.fresh alloc) s h
  have hf : (DecF.fresh alloc).d = Dec.fresh none := rfl
  rw [hf] at e1 e2
  unfold reference finalItem DecF.finalize
  simp only [e2, e1]
  rfl

/-- ... and therefore what `decode` returns for the stream -/
theorem fallible_push_eq_decode (alloc : List Bool) (s : List UInt8)
    (h : Out.err .oom ∉ (DecF.pushAll (DecF.fresh alloc) s).2) :
    items (DecF.pushAll (DecF.fresh alloc) s).2 ++
        (match (DecF.pushAll (DecF.fresh alloc) s).1.finalize.2 with
          | some e => [Item.err e]
          | none => []) = decodeAll s := by
  rw [fallible_push_eq_reference alloc s h, decode_eq]
  rfl

/-- a bounded buffer of capacity at least the stream length whose pushes may additionally fail
    spuriously: as long as no `OutOfMemory` was answered, every `push_byte` answer is the one of
    the never-failing unbounded model (`buffer_independent` composed with the refinement) -/
theorem fallible_cap_push_eq (alloc : List Bool) (s : List UInt8) (N : Nat) (hN : s.length ≤ N)
    (h : Out.err .oom ∉ (DecF.pushAll (DecF.freshCap (some N) alloc) s).2) :
    (DecF.pushAll (DecF.freshCap (some N) alloc) s).2 = (Dec.pushAll (Dec.fresh none) s).2 := by
  have e := (C05.pushAll_eq_of_no_oom (DecF.freshCap (some N) alloc) s h).1
  have hf : (DecF.freshCap (some N) alloc).d = Dec.fresh (some N) := rfl
  rw [hf] at e
  rw [e, buffer_independent s N hN]

/-- non-vacuity: the hypothesis holds for an oracle that does contain a failure, as long as the
    failing answer is not consumed by this stream (one allocation, second answer `false`) -/
example : Out.err .oom ∉
    (DecF.pushAll (DecF.fresh [true, false]) [0x1b, 0x1b, 0x1b, 0x1b, 1, 1, 1, 1, 0x76]).2 := by
  decide

end Sml.C15

import Sml.Lemmas.DecSound1
import Sml.Lemmas.DecSound2
/-
  Property C17.

  "Over any stream, the byte ranges covered by delivered frames, by discarded-bytes reports
  (including the final one from finalize, or the count attached to an I/O error) and by frames
  rejected with an error tile the input without gaps or overlaps: each discarded-bytes count equals
  exactly the number of bytes between the previous boundary and the start sequence, or end of
  input, that triggered it.  Counts stay exact for arbitrarily long noise."

  * model : `Dec.push` / `Dec.pushAll` / `Dec.finalize` / `Dec.reset` / `Dec.run`
            (Sml/Model/Decode.lean, Sml/Model/Frontends.lean)
  * spec  : the position-only walker `Spec.tileStep` / `Spec.tileFrom` / `Spec.tileEnd` /
            `Spec.tileReset` / `Spec.tileOps` (Sml/Spec/Tiling.lean).  The walker recomputes every
            count from the previous boundary `b` and the number `i` of bytes consumed:
              - `DiscardedBytes(n)` at the byte that completes a start sequence:
                `n = (i+1) - 8 - b`, `n > 0`, new boundary `(i+1) - 8` (start of that sequence);
              - payload delivered / `InvalidMessage` / `InvalidEsc` / `OutOfMemory`: the frame
                `b .. i+1` ends, new boundary `i+1`;
              - `finalize`: `None` iff `b = len`, else `DiscardedBytes(len - b)`;
              - `reset` (this is the count attached to an I/O error by `DecoderReader`, see
                `Rdr.onIoErr`): returns `len - b`;
              - `Decoder::new()` / `Decoder::from_buf(buf)` replacing the decoder in mid-history
                (`Op.new`, `Op.fromBuf stale`): the dropped decoder's pending bytes `b .. len` are
                lost without a report (there is nothing to check); new boundary `len`;
              - a panic is a violation.
  `frame_tile` adds (using the soundness invariant of C02) that the tile of a delivered payload
  `m` is exactly `Spec.frame m`.
  All counters are unbounded `Nat`s and the theorems quantify over all streams / histories and all
  buffer capacities, so the counts are exact for arbitrarily long noise.
-/
namespace Sml.C17

open Spec (tileStep tileFrom tileOk tileEnd tileReset tileOps pushCount)

/-- Plain streams: every per-byte report is the one the positions dictate (`tileFrom … = some b`,
`b` = the last boundary), and the final `finalize` reports exactly the `s.length - b` bytes after
that boundary (nothing if there are none). -/
theorem tiling (cap : Option Nat) (s : List UInt8) :
    ∃ b, tileFrom 0 0 (Dec.pushAll (Dec.fresh cap) s).2 = some b ∧
      tileEnd b s.length ((Dec.pushAll (Dec.fresh cap) s).1.finalize).2 = true := by
  obtain ⟨b, e, h⟩ := Dec.tinv_pushAll s (Dec.tinv_fresh cap)
  rw [Nat.zero_add] at h
  exact ⟨b, e, (Dec.tinv_finalize h).1⟩

/-- the Boolean form of the first half -/
theorem tiling_ok (cap : Option Nat) (s : List UInt8) :
    tileOk 0 0 (Dec.pushAll (Dec.fresh cap) s).2 = true := by
  obtain ⟨b, e, _⟩ := tiling cap s
  simp [tileOk, e]

/-- Histories with `finalize` / `reset` calls (and replacements of the decoder by `new` /
`from_buf`) anywhere: every report of every operation (per-byte outputs, `finalize` results,
`reset` return values) is the one the positions dictate; after a `new` / `from_buf` the counts
restart at the current position (they never include bytes given to the dropped decoder, nor the
stale contents of the buffer handed to `from_buf`).
`tileOps` returns the last boundary and the number of bytes pushed. -/
theorem tiling_history (cap : Option Nat) (ops : List Op) :
    ∃ b, tileOps 0 0 (Dec.run (Dec.fresh cap) ops).2 = some (b, pushCount ops) := by
  obtain ⟨b, e, _⟩ := Dec.tinv_run ops (Dec.tinv_fresh cap)
  rw [Nat.zero_add] at e
  exact ⟨b, e⟩

/-- After any history, with `b` the last boundary determined by the walker: a `reset` now returns
exactly the number of bytes pushed since `b` (0 right after a delivered frame, because the boundary
then is the current position), and a `finalize` now reports `DiscardedBytes` of exactly that number
(and nothing if it is 0). -/
theorem reset_count (cap : Option Nat) (ops : List Op) :
    ∃ b, tileOps 0 0 (Dec.run (Dec.fresh cap) ops).2 = some (b, pushCount ops) ∧
      b + ((Dec.run (Dec.fresh cap) ops).1.reset).2 = pushCount ops ∧
      tileEnd b (pushCount ops) ((Dec.run (Dec.fresh cap) ops).1.finalize).2 = true := by
  obtain ⟨b, e, h⟩ := Dec.tinv_run ops (Dec.tinv_fresh cap)
  rw [Nat.zero_add] at e h
  refine ⟨b, e, ?_, (Dec.tinv_finalize h).1⟩
  have := (Dec.tinv_reset_count h).1
  simpa [tileReset] using this

/-- The tile of a delivered frame is the frame: if the byte at index `i` delivers the payload `m`,
and `b` is the boundary the walker has reached on the earlier reports, then the canonical frame of
`m` (`Spec.frame m`, see C02) occupies exactly the positions `b .. i+1` of the stream. -/
theorem frame_tile (cap : Option Nat) (s : List UInt8) (i : Nat) (m : List UInt8)
    (h : (Dec.pushAll (Dec.fresh cap) s).2[i]? = some (Out.msg m)) :
    ∃ b, tileFrom 0 0 ((Dec.pushAll (Dec.fresh cap) s).2.take i) = some b ∧
      b + (Spec.frame m).length = i + 1 ∧ s.take (i + 1) = s.take b ++ Spec.frame m := by
  obtain ⟨b, e, hl⟩ := Dec.frame_tile_aux s i (Dec.tinv_fresh cap) (Dec.sinv_fresh cap) h
  rw [Nat.zero_add] at hl
  obtain ⟨pre, hp⟩ := Dec.sound_pushAll s i (Dec.sinv_fresh cap) h
  rw [List.nil_append] at hp
  have hi : i < s.length := by
    have := (List.getElem?_eq_some_iff.1 h).1
    rwa [Dec.length_pushAll] at this
  have hlen : pre.length = b := by
    have := congrArg List.length hp
    simp only [List.length_take, List.length_append] at this
    omega
  refine ⟨b, e, hl, ?_⟩
  have hpre : pre = s.take b := by
    have := congrArg (List.take b) hp
    rw [List.take_take, ← hlen, List.take_left] at this
    rw [← this, hlen]
    congr 1
    omega
  rw [hp, hpre]

/-- right after a delivered frame `reset` returns 0 and `finalize` reports nothing -/
theorem reset_after_frame (d : Dec) (h : d.st = .done) :
    (d.reset).2 = 0 ∧ (d.finalize).2 = none := by
  simp [Dec.reset, Dec.finalize, h]

/-- The count attached to an I/O error by `DecoderReader::read` (every error kind except
`WouldBlock`, which does not reset the decoder and carries 0) is the value returned by `reset`,
i.e. by `reset_count` exactly the number of bytes since the previous boundary. -/
theorem io_error_count (kind : SrcKind) (d : Dec) (evs : List Ev) (k : IoKind)
    (hk : k ≠ .wouldBlock) :
    Rdr.onIoErr kind d evs k =
      ({ kind := kind, dec := (d.reset).1, evs := evs }, RItem.ioErr k (d.reset).2) := by
  cases k <;> simp_all [Rdr.onIoErr]

/-! ### non-vacuity -/

/-- noise, a frame, noise, a frame rejected for its checksum, trailing bytes -/
def sample : List UInt8 :=
  [0xaa, 0xbb] ++ Spec.frame [0x12, 0x34, 0x56, 0x78] ++ [0x55, 0x1b, 0x66] ++
    [0x1b, 0x1b, 0x1b, 0x1b, 1, 1, 1, 1, 1, 2, 3, 4, 0x1b, 0x1b, 0x1b, 0x1b, 0x1a, 0, 0, 0] ++
    [0xcc, 0x1b]

example :
    (Dec.pushAll (Dec.fresh none) sample).2 =
      List.replicate 9 Out.none ++ [Out.err (.discarded 2)] ++
      List.replicate 11 Out.none ++ [Out.msg [0x12, 0x34, 0x56, 0x78]] ++
      List.replicate 10 Out.none ++ [Out.err (.discarded 3)] ++
      List.replicate 11 Out.none ++ [Out.err (.invalidMsg 0 30735 false 0 false)] ++
      [Out.none, Out.none] := by
  decide +kernel

example : ((Dec.pushAll (Dec.fresh none) sample).1.finalize).2 = some (.discarded 2) := by
  decide +kernel

/-- boundaries: 0 → 2 (frame starts) → 22 (frame ends) → 25 (next start) → 45 (rejected) -/
example : tileFrom 0 0 (Dec.pushAll (Dec.fresh none) sample).2 = some 45 := by
  decide +kernel

example : sample.length = 47 := by decide +kernel

/-- the walker does reject wrong counts -/
example : tileFrom 0 0 (List.replicate 9 Out.none ++ [Out.err (.discarded 3)]) = none := by
  decide

example : tileEnd 45 47 (some (.discarded 1)) = false := by decide

/-- a history with a `from_buf` (stale buffer contents) in the middle of a frame and a `new` in the
middle of noise: the counts reported afterwards restart at the construction -/
example : (Dec.run (Dec.fresh (some 8))
      ([0xaa, 0x1b, 0x1b, 0x1b, 0x1b, 1, 1, 1, 1, 5].map Op.push ++ [.fromBuf [9, 9, 9]] ++
        [0xbb, 0xcc].map Op.push ++ [.new] ++ [0xdd].map Op.push ++ [.reset, .fin])).2 =
    List.replicate 8 (.out .none) ++ [.out (.err (.discarded 1)), .out .none, .fromBuf,
      .out .none, .out .none, .new, .out .none, .reset 1, .fin none] := by
  decide +kernel

example : tileOps 0 0 (Dec.run (Dec.fresh (some 8))
      ([0xaa, 0x1b, 0x1b, 0x1b, 0x1b, 1, 1, 1, 1, 5].map Op.push ++ [.fromBuf [9, 9, 9]] ++
        [0xbb, 0xcc].map Op.push ++ [.new] ++ [0xdd].map Op.push ++ [.reset, .fin])).2 =
    some (13, 13) := by
  decide +kernel

end Sml.C17

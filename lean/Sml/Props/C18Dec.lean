/-
  Property C18, composed with the decoder (src/util.rs:79-150 + src/transport/decode.rs).

  C18 (`Sml/Props/C18.lean`) shows that the real `ArrayBuf<N>` representation (backing array that
  keeps stale bytes + `num_elements`, explicit panic sites) refines the ideal bounded vector, and so
  does the abstract `Buf` the decoder model `Dec` works on.  Here the refinement is composed with
  the decoder:  `DecA` (`Sml/Model/DecodeArr.lean`) is the push decoder transcribed for
  `B = ArrayBuf<N>`, every buffer access going through `ArrayBuf.push` / `clear` / `deref`.

  "For every N and every history of push_byte / finalize / reset / Decoder::new() /
   Decoder::from_buf(buf) operations, the decoder running on the real ArrayBuf<N> representation —
   with whatever stale bytes earlier frames or the caller's used buffer left in the backing array —
   reports exactly what the decoder model on the abstract buffer reports: the same payloads, errors
   and counts, and no panic.  A decoder built by from_buf from ANY used buffer behaves exactly like
   a new one."

  The simulation itself (abstraction `absD`, invariant `WF`) is in `Sml/Lemmas/DecArrRefine.lean`.
-/
import Sml.Lemmas.DecArrRefine
import Sml.Props.C01
import Sml.Props.C02
import Sml.Props.C05

namespace Sml.C18
open Spec (frame)

/-- the buffer contents handed to `Decoder::from_buf` in a history -/
def stalesOf (ops : List Op) : List (List UInt8) :=
  ops.filterMap fun op => match op with
    | .fromBuf st => some st
    | _ => none

/-! ### single operations -/

/-- `_push_byte` on a well-formed concrete state: same `Res` as the model on the abstracted state,
    the abstraction of the new state is the model's new state, `num_elements ≤ N` and `N` are
    preserved.  (Equal `Res` also means: an `ArrayBuf` panic outcome could only occur where the model
    reports the very same panic site, and the model has no `util.rs` sites.) -/
theorem pushByte_refines (d : DecA) (b : UInt8) (h : WF d.buf) :
    (d.pushByte b).2 = ((absD d).pushByte b).2 ∧
    absD (d.pushByte b).1 = ((absD d).pushByte b).1 ∧
    WF (d.pushByte b).1.buf ∧ (d.pushByte b).1.buf.N = d.buf.N :=
  let ⟨h1, h2, h3, h4⟩ := pushByte_sim d b h
  ⟨h4, h3, h1, h2⟩

/-- `Decoder::push_byte`: in addition the delivered payload (`deref` of the real buffer) is the
    payload the model delivers. -/
theorem push_refines (d : DecA) (b : UInt8) (h : WF d.buf) :
    (d.push b).2 = ((absD d).push b).2 ∧
    absD (d.push b).1 = ((absD d).push b).1 ∧
    WF (d.push b).1.buf ∧ (d.push b).1.buf.N = d.buf.N :=
  let ⟨h1, h2, h3, h4⟩ := push_sim d b h
  ⟨h4, h3, h1, h2⟩

/-- `reset` and `finalize` -/
theorem reset_finalize_refine (d : DecA) :
    d.reset.2 = (absD d).reset.2 ∧ absD d.reset.1 = (absD d).reset.1 ∧
    d.finalize.2 = (absD d).finalize.2 ∧ absD d.finalize.1 = (absD d).finalize.1 ∧
    WF d.reset.1.buf ∧ WF d.finalize.1.buf ∧
    d.reset.1.buf.N = d.buf.N ∧ d.finalize.1.buf.N = d.buf.N :=
  ⟨rfl, absD_reset d, rfl, absD_finalize d, WF_reset d, WF_reset d, rfl, rfl⟩

/-- one operation of a history (incl. `new` and `from_buf` of a buffer holding `stale`, which must
    fit an `ArrayBuf<N>`) -/
theorem step_refines_dec (d : DecA) (op : Op) (h : WF d.buf)
    (hop : ∀ st, op = .fromBuf st → st.length ≤ d.buf.N) :
    (d.step op).2 = ((absD d).step op).2 ∧
    absD (d.step op).1 = ((absD d).step op).1 ∧
    WF (d.step op).1.buf ∧ (d.step op).1.buf.N = d.buf.N :=
  let ⟨h1, h2, h3, h4⟩ := step_sim d op h hop
  ⟨h4, h3, h1, h2⟩

/-- no panic site at all — in particular none of the `ArrayBuf` ones — is reached from a
    well-formed state whose abstraction satisfies the decoder invariant of C05 -/
theorem push_never_panics (d : DecA) (b : UInt8) (h : WF d.buf) (hi : Dec.Inv (absD d)) :
    (∀ s, (d.pushByte b).2 ≠ .panic s) ∧ (∀ s, (d.push b).2 ≠ .panic s) :=
  ⟨pushByte_no_panic d b h hi, push_no_panic d b h hi⟩

/-! ### histories -/

/-- Histories from any well-formed concrete state: outputs, final abstract state, invariant. -/
theorem run_refines_dec (d : DecA) (h : WF d.buf) (ops : List Op)
    (hstale : ∀ st ∈ stalesOf ops, st.length ≤ d.buf.N) :
    (d.run ops).2 = ((absD d).run ops).2 ∧
    absD (d.run ops).1 = ((absD d).run ops).1 ∧
    WF (d.run ops).1.buf ∧ (d.run ops).1.buf.N = d.buf.N :=
  let ⟨h1, h2, h3, h4⟩ := run_sim ops d h
    (fun st hm => hstale st (List.mem_filterMap.2 ⟨.fromBuf st, hm, rfl⟩))
  ⟨h4, h3, h1, h2⟩

/-- **The decoder on the real `ArrayBuf<N>` representation reports exactly what the decoder model
    reports**, for all histories of `push_byte` / `finalize` / `reset` / `new` / `from_buf`. -/
theorem decoder_on_arraybuf (N : Nat) (ops : List Op)
    (hstale : ∀ st ∈ stalesOf ops, st.length ≤ N) :
    (DecA.run (DecA.fresh N) ops).2 = (Dec.run (Dec.fresh (some N)) ops).2 := by
  have h := (run_refines_dec (DecA.fresh N) (WF_clear _) ops
    (by rw [show (DecA.fresh N).buf.N = N from N_new N]; exact hstale)).1
  rw [absD_fresh] at h
  exact h

/-- **Stale bytes never leak**: a decoder built by `from_buf` from ANY used buffer (arbitrary
    backing bytes, arbitrary `num_elements ≤ N`) behaves on every stream exactly like the model of
    a new decoder.  (`ha` is not even needed — `clear` repairs `num_elements` —, see
    `stale_bytes_never_leak'`; it is kept because only well-formed values exist in Rust.) -/
theorem stale_bytes_never_leak (a : ArrayBuf) (_ha : WF a) (s : List UInt8) :
    (DecA.pushAll (DecA.fromBuf a) s).2 = (Dec.pushAll (Dec.fresh (some a.N)) s).2 := by
  have h := (pushAll_sim s (DecA.fromBuf a) (WF_clear a)).2.2.2
  rw [absD_fromBuf] at h
  exact h

theorem stale_bytes_never_leak' (a : ArrayBuf) (s : List UInt8) :
    (DecA.pushAll (DecA.fromBuf a) s).2 = (Dec.pushAll (Dec.fresh (some a.N)) s).2 ∧
    absD (DecA.pushAll (DecA.fromBuf a) s).1 = (Dec.pushAll (Dec.fresh (some a.N)) s).1 := by
  obtain ⟨_, _, h3, h4⟩ := pushAll_sim s (DecA.fromBuf a) (WF_clear a)
  rw [absD_fromBuf] at h3 h4
  exact ⟨h4, h3⟩

/-- the same for whole histories after `from_buf` of any buffer -/
theorem fromBuf_any_buffer (a : ArrayBuf) (ops : List Op)
    (hstale : ∀ st ∈ stalesOf ops, st.length ≤ a.N) :
    (DecA.run (DecA.fromBuf a) ops).2 = (Dec.run (Dec.fresh (some a.N)) ops).2 := by
  have h := (run_refines_dec (DecA.fromBuf a) (WF_clear a) ops hstale).1
  rw [absD_fromBuf] at h
  exact h

/-- hence two decoders built from buffers of the same size are indistinguishable, whatever the
    buffers held -/
theorem fromBuf_contents_irrelevant (a a' : ArrayBuf) (hN : a.N = a'.N) (s : List UInt8) :
    (DecA.pushAll (DecA.fromBuf a) s).2 = (DecA.pushAll (DecA.fromBuf a') s).2 := by
  have h := (pushAll_sim s (DecA.fromBuf a) (WF_clear a)).2.2.2
  have h' := (pushAll_sim s (DecA.fromBuf a') (WF_clear a')).2.2.2
  rw [absD_fromBuf] at h h'
  rw [h, h', hN]

/-! ### transferred corollaries: theorems of C01–C17 about `Dec.fresh (some N)` hold for `DecA` -/

/-- C05.no_panic on the real representation: no operation of any history panics, in particular
    never at an `ArrayBuf` index / slice site. -/
theorem no_panic_arraybuf (N : Nat) (ops : List Op) (hstale : ∀ st ∈ stalesOf ops, st.length ≤ N) :
    ∀ o ∈ (DecA.run (DecA.fresh N) ops).2, ∀ s, o ≠ OpOut.out (Out.panic s) := by
  rw [decoder_on_arraybuf N ops hstale]
  exact C05.no_panic (some N) ops

/-- C02.sound on the real representation: a delivered payload is framed by the bytes pushed since
    the latest `finalize` / `reset` / `new` / `from_buf`; stale bytes contribute nothing. -/
theorem sound_arraybuf (N : Nat) (ops : List Op) (hstale : ∀ st ∈ stalesOf ops, st.length ≤ N)
    (i : Nat) (m : List UInt8)
    (h : (DecA.run (DecA.fresh N) ops).2[i]? = some (OpOut.out (Out.msg m))) :
    ∃ pre, C02.consumed (ops.take (i + 1)) = pre ++ frame m := by
  rw [decoder_on_arraybuf N ops hstale] at h
  exact C02.sound (some N) ops i m h

/-- C02.sound_stream for a decoder built from any used buffer -/
theorem sound_stream_fromBuf (a : ArrayBuf) (ha : WF a) (s : List UInt8) (i : Nat) (m : List UInt8)
    (h : (DecA.pushAll (DecA.fromBuf a) s).2[i]? = some (Out.msg m)) :
    ∃ pre, s.take (i + 1) = pre ++ frame m := by
  rw [stale_bytes_never_leak a ha s] at h
  exact C02.sound_stream (some a.N) s i m h

/-- C01.roundtrip_push for a decoder built from any used buffer that is large enough: exactly the
    payload comes out, whatever the buffer held. -/
theorem roundtrip_push_fromBuf (a : ArrayBuf) (ha : WF a) (p : List UInt8) (hp : p.length ≤ a.N) :
    (DecA.pushAll (DecA.fromBuf a) (frame p)).2 =
      List.replicate ((frame p).length - 1) Out.none ++ [Out.msg p] := by
  rw [stale_bytes_never_leak a ha (frame p)]
  exact C01.roundtrip_push p (some a.N) hp

/-- C01.roundtrip_push for `Decoder::<ArrayBuf<N>>::new()` -/
theorem roundtrip_push_arraybuf (N : Nat) (p : List UInt8) (hp : p.length ≤ N) :
    (DecA.pushAll (DecA.fresh N) (frame p)).2 =
      List.replicate ((frame p).length - 1) Out.none ++ [Out.msg p] := by
  have := roundtrip_push_fromBuf (ArrayBuf.new N) (WF_new N) p (by rw [N_new]; exact hp)
  exact this

/-! ### Non-vacuity -/

def p1 : List UInt8 := [1, 2, 3, 4, 5, 6, 7, 8]
def p2 : List UInt8 := [9, 10, 11, 12]

/-- the payloads delivered in a history -/
def msgsOf (os : List OpOut) : List (List UInt8) :=
  os.filterMap fun o => match o with
    | .out (.msg m) => some m
    | _ => none

/-- N = 8.  A first frame fills the buffer; then a shorter frame into the same decoder. -/
def demoSame : List Op := (frame p1).map .push ++ (frame p2).map .push

/-- N = 8.  A first frame, then `from_buf` with a buffer full of 0xdd, then a shorter frame. -/
def demoFromBuf : List Op :=
  (frame p1).map .push ++ [.fromBuf (List.replicate 8 0xdd)] ++ (frame p2).map .push

-- the hypothesis of `decoder_on_arraybuf` holds for both
example : ∀ st ∈ stalesOf demoSame, st.length ≤ 8 := by decide +kernel
example : ∀ st ∈ stalesOf demoFromBuf, st.length ≤ 8 := by decide +kernel
example : stalesOf demoFromBuf = [List.replicate 8 0xdd] := by decide +kernel

-- same decoder: while the second frame is decoded the backing array still holds 5,6,7,8 of the
-- first one (final state: `[9,10,11,12,5,6,7,8]`, 4 visible); the delivered payload is `p2` only
example : msgsOf (DecA.run (DecA.fresh 8) demoSame).2 = [p1, p2] := by decide +kernel
example : (DecA.run (DecA.fresh 8) demoSame).1.buf = ⟨[9, 10, 11, 12, 5, 6, 7, 8], 4⟩ := by
  decide +kernel

-- `from_buf` with a buffer full of 0xdd: the dd bytes really are in the backing array of the new
-- decoder (final state `[9,10,11,12,dd,dd,dd,dd]`, 4 visible), no delivered payload contains one
example : msgsOf (DecA.run (DecA.fresh 8) demoFromBuf).2 = [p1, p2] := by decide +kernel
example : (DecA.run (DecA.fresh 8) demoFromBuf).1.buf
    = ⟨[9, 10, 11, 12, 0xdd, 0xdd, 0xdd, 0xdd], 4⟩ := by decide +kernel
example : ∀ m ∈ msgsOf (DecA.run (DecA.fresh 8) demoFromBuf).2, (0xdd : UInt8) ∉ m := by
  decide +kernel

-- both sides of `decoder_on_arraybuf` on this history, computed independently
example : (DecA.run (DecA.fresh 8) demoFromBuf).2 = (Dec.run (Dec.fresh (some 8)) demoFromBuf).2 := by
  decide +kernel

-- `stale_bytes_never_leak` with a used buffer that still claims 5 visible elements
example : WF ⟨List.replicate 8 0xdd, 5⟩ ∧
    (DecA.pushAll (DecA.fromBuf ⟨List.replicate 8 0xdd, 5⟩) (frame p2)).2
      = List.replicate 19 Out.none ++ [Out.msg p2] := by decide +kernel

-- out of memory on the real representation: a 9-byte payload does not fit N = 8, the decoder
-- reports `OutOfMemory` exactly like the model
example : (DecA.pushAll (DecA.fresh 8) (frame (p1 ++ [9]))).2
    = (Dec.pushAll (Dec.fresh (some 8)) (frame (p1 ++ [9]))).2 ∧
    Out.err .oom ∈ (DecA.pushAll (DecA.fresh 8) (frame (p1 ++ [9]))).2 := by decide +kernel

-- the invariant is necessary: with `num_elements > N` (unreachable) the ArrayBuf panic sites fire
example : ¬ WF ⟨[0, 0], 3⟩ ∧
    (DecA.pushByte ⟨8, startCrc, .normal, 0, ⟨[0, 0], 3⟩⟩ 7).2
      = .panic "util.rs:128 index out of bounds" ∧
    DecA.borrowBuf ⟨24, crcInit, .done, 0, ⟨[0, 0], 3⟩⟩
      = .panic "util.rs:109 slice end out of range" := by decide +kernel

-- the `hstale` hypothesis is necessary: collecting 9 bytes into an `ArrayBuf<8>` panics in the
-- caller (util.rs:117) before `from_buf` is reached
example : (DecA.run (DecA.fresh 8) [.fromBuf (List.replicate 9 0xdd)]).2
    = [.out (.panic "util.rs:117 unwrap on OutOfMemory")] := by decide +kernel

end Sml.C18

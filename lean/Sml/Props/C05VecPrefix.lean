import Sml.Props.C05Vec
/-
  C05 / C17 over a fallible `Vec<u8>`, history level: the answers of the fallible decoder and of
  the never-failing model `Dec` can only part at an answer `Err(OutOfMemory)` that an actual
  allocation failure produced.

  `step_refines_or_oom` (Props/C05Vec.lean) is the one-step statement.  Here it is lifted to whole
  histories, for every oracle, every start state and every length:

  * `run_agrees_until_oom` : either the complete answer list (and the final decoder state) equals
    that of `Dec`, or there is a FIRST position `k` where the fallible decoder answered
    `Err(OutOfMemory)`; all answers before `k` are those of `Dec`, and the oracle contained a
    `false`.  So an allocation failure can never silently alter, drop or invent an answer before it
    is reported.
  * `run_eq_of_no_oom` : a history in which no `Err(OutOfMemory)` was answered is indistinguishable
    from the never-failing model (contrapositive use: every divergence is announced).
-/

namespace Sml.C05

open Sml

/-- history-level refinement: answers agree with `Dec` up to the first reported allocation
    failure -/
theorem run_agrees_until_oom (ops : List Op) : ∀ f : DecF,
    ((f.run ops).2 = (f.d.run ops).2 ∧ (f.run ops).1.d = (f.d.run ops).1) ∨
      ∃ k, k < ops.length ∧
        (f.run ops).2.take k = (f.d.run ops).2.take k ∧
        (f.run ops).2[k]? = some (.out (.err .oom)) ∧
        (∃ a ∈ f.alloc, a = false) := by
  induction ops with
  | nil => intro f; exact Or.inl ⟨rfl, rfl⟩
  | cons op ops ih =>
    intro f
    obtain ⟨hsuf, hstep⟩ := step_refines_or_oom f op
    rw [DecF.run_cons]
    have hd : f.d.run (op :: ops) =
        (((f.d.step op).1.run ops).1, (f.d.step op).2 :: ((f.d.step op).1.run ops).2) := rfl
    rw [hd]
    rcases hstep with ⟨e1, e2⟩ | ⟨hf, _, e⟩
    · rcases ih (f.step op).1 with ⟨a1, a2⟩ | ⟨k, hk, t, g, a, ha, hfa⟩
      · left
        refine ⟨?_, ?_⟩
        · simp only [e2, a1, e1]
        · simp only [a2, e1]
      · right
        refine ⟨k + 1, by simp only [List.length_cons]; omega, ?_, ?_, a, hsuf.subset ha, hfa⟩
        · simp only [List.take_succ_cons, e2, t, e1]
        · simpa only [List.getElem?_cons_succ] using g
    · right
      exact ⟨0, by simp only [List.length_cons]; omega, by simp only [List.take_zero],
        by simp only [List.getElem?_cons_zero, e], hf⟩

/-- a history without an `Err(OutOfMemory)` answer is exactly a history of the never-failing
    model: same answers, same final decoder -/
theorem run_eq_of_no_oom (f : DecF) (ops : List Op)
    (h : OpOut.out (.err .oom) ∉ (f.run ops).2) :
    (f.run ops).2 = (f.d.run ops).2 ∧ (f.run ops).1.d = (f.d.run ops).1 := by
  rcases run_agrees_until_oom ops f with e | ⟨k, _, _, g, _⟩
  · exact e
  · exact absurd (List.mem_of_getElem? g) h

/-- ... from a newly constructed `Decoder::<Vec<u8>>::new()` -/
theorem run_eq_of_no_oom_fresh (alloc : List Bool) (ops : List Op)
    (h : OpOut.out (.err .oom) ∉ (DecF.run (DecF.fresh alloc) ops).2) :
    (DecF.run (DecF.fresh alloc) ops).2 = (Dec.run (Dec.fresh none) ops).2 :=
  (run_eq_of_no_oom (DecF.fresh alloc) ops h).1

/-- ... for byte streams: a stream during which `push_byte` never answered `Err(OutOfMemory)` is
    decoded exactly as by the never-failing model — same answer per byte, same final decoder -/
theorem pushAll_eq_of_no_oom (f : DecF) (s : List UInt8)
    (h : Out.err .oom ∉ (f.pushAll s).2) :
    (f.pushAll s).2 = (f.d.pushAll s).2 ∧ (f.pushAll s).1.d = (f.d.pushAll s).1 := by
  have hm : OpOut.out (.err .oom) ∉ (f.run (s.map Op.push)).2 := by
    rw [← (DecF.pushAll_eq_run s f).2]
    intro hc
    obtain ⟨o, ho, e⟩ := List.mem_map.1 hc
    exact h (OpOut.out.inj e ▸ ho)
  obtain ⟨e2, e1⟩ := run_eq_of_no_oom f (s.map Op.push) hm
  refine ⟨?_, ?_⟩
  · apply (List.map_inj_right (f := OpOut.out) (fun _ _ h => OpOut.out.inj h)).1
    rw [(DecF.pushAll_eq_run s f).2, e2, (Dec.pushAll_eq_run s f.d).2]
  · rw [(DecF.pushAll_eq_run s f).1, e1, (Dec.pushAll_eq_run s f.d).1]

/-- the history of the non-vacuity check: start sequence, then the first payload byte (the first
    byte that is pushed into the buffer, i.e. the first allocation) -/
def firstAllocHistory : List Op :=
  ([0x1b, 0x1b, 0x1b, 0x1b, 1, 1, 1, 1, 0x76] : List UInt8).map Op.push

/-- non-vacuity: an oracle that fails the first allocation yields the `k = 8` branch (eight
    agreeing answers, then `Err(OutOfMemory)`), while the never-failing model answers `none`
    there — both branches of `run_agrees_until_oom` are inhabited -/
example :
    (DecF.run (DecF.fresh [false]) firstAllocHistory).2[8]? = some (.out (.err .oom)) ∧
    (Dec.run (Dec.fresh none) firstAllocHistory).2[8]? = some (.out .none) ∧
    (DecF.run (DecF.fresh [false]) firstAllocHistory).2.take 8 =
      (Dec.run (Dec.fresh none) firstAllocHistory).2.take 8 := by decide

end Sml.C05

import Sml.Lemmas.DecBasic
/-
  Property C15.

  "For every byte stream, the push decoder with finalize, decode, decode_streaming, and
  DecoderReader/SmlReader over a slice, an iterator or an io::Read report the same sequence of
  payloads and decode errors; only the representation of leftover bytes at end of input differs
  (a trailing discarded-bytes error versus an end-of-file error carrying the same count).  The
  buffer type does not change any result as long as its capacity is never exceeded (a capacity of
  at least the stream length always suffices)."

  * model : `Dec.pushAll` + `Dec.finalize` (the push decoder), `decodeAll` (`decode`),
    `DecIter` (`decode_streaming`), `Rdr` with `SrcKind.mem` (slice / iterator source) or
    `SrcKind.io` (`io::Read`) over the events `s.map Ev.byte` (a source without faults), all in
    Sml/Model/Frontends.lean.
  * reference sequence : `items (pushAll (fresh cap) s).2` — the non-`None` results of the
    `push_byte` calls — followed by what `finalize` reports (`finalItem`).
  * helper definitions from Sml/Lemmas/DecBasic.lean used in the statements:
      `padTo x l k = (l ++ List.replicate k x).take k`   ("`l`, then `x` forever", first `k`),
      `cutNone`  (the elements of a `List (Option α)` before the first `none`),
      `Item.toR` (`ok m ↦ RItem.ok m`, `err e ↦ RItem.decErr e`, `panic s ↦ RItem.panic s`),
      `DecIter.take it k`  (the results of `k` successive `next` calls; in the model),
      `Rdr.calls r (List.replicate k .next)` (the results of `k` successive `next` calls).
  * `SmlReader` is `DecoderReader` plus parsing of each `ok` payload (Sml/Model/SmlReader.lean);
    what it receives from the transport layer is exactly the `Rdr` sequence characterised here.

  All theorems hold for every stream and (where a capacity occurs) every capacity.
-/
namespace Sml.C15

/-- payloads and decode errors among the `push_byte` results -/
def items (outs : List Out) : List Item := outs.filterMap Out.toItem?

/-- what `finalize` adds at end of input -/
def finalItem (d : Dec) : List Item :=
  match d.finalize.2 with
  | some e => [Item.err e]
  | none => []

/-- the reference: push every byte, then finalize -/
def reference (cap : Option Nat) (s : List UInt8) : List Item :=
  items (Dec.pushAll (Dec.fresh cap) s).2 ++ finalItem (Dec.pushAll (Dec.fresh cap) s).1

/-! ### `decode` -/

theorem decode_eq (s : List UInt8) :
    decodeAll s =
      items (Dec.pushAll (Dec.fresh none) s).2 ++
        (match (Dec.pushAll (Dec.fresh none) s).1.finalize.2 with
          | some e => [Item.err e]
          | none => []) :=
  decodeAll_go_eq s (Dec.inv_fresh none)

/-! ### `decode_streaming` -/

/-- the first `k` results of `DecodeIterator::next`, for every `k`: the reference items, then
`None` forever -/
theorem iter_take_eq (cap : Option Nat) (s : List UInt8) (k : Nat) :
    (DecIter.new cap s).take k = padTo none ((reference cap s).map some) k :=
  DecIter.take_new cap s k

/-- collect the results of `n` calls of `next` up to the first `None` -/
def collect (it : DecIter) (n : Nat) : List Item := cutNone (it.take n)

/-- Collecting until the first `None` gives the reference sequence; `|s| + 2` calls (indeed any
number above `|reference|`) are enough to see the `None`. -/
theorem iter_eq (cap : Option Nat) (s : List UInt8) :
    collect (DecIter.new cap s) (s.length + 2) = reference cap s := by
  unfold collect
  rw [iter_take_eq]
  exact cutNone_padTo _ (Nat.lt_succ_of_le (Dec.allItems_length_le _ s))

theorem iter_eq_of_lt (cap : Option Nat) (s : List UInt8) (n : Nat)
    (h : (reference cap s).length < n) : collect (DecIter.new cap s) n = reference cap s := by
  unfold collect
  rw [iter_take_eq]
  exact cutNone_padTo _ h

/-- every call after the reference items returns `None` -/
theorem iter_later_none (cap : Option Nat) (s : List UInt8) (k i : Nat) (hi : i < k)
    (h : (reference cap s).length ≤ i) : ((DecIter.new cap s).take k)[i]? = some none := by
  rw [iter_take_eq, getElem?_padTo _ _ _ _ hi, List.getElem?_eq_none (by simpa using h)]
  rfl

/-! ### `DecoderReader` over a slice, an iterator or an `io::Read` -/

/-- what the reader reports at end of input instead of `finalItem` -/
def finalRItem (d : Dec) : List RItem :=
  match d.finalize.2 with
  | some (.discarded n) => [RItem.ioErr .eof n]
  | _ => []

/-- `finalize` reports nothing or `DiscardedBytes(raw)` with `raw > 0`; so `finalRItem` is the
image of `finalItem` with the same count -/
theorem finalItem_cases (cap : Option Nat) (s : List UInt8) :
    let d := (Dec.pushAll (Dec.fresh cap) s).1
    (finalItem d = [] ∧ finalRItem d = []) ∨
      ∃ n, 0 < n ∧ finalItem d = [Item.err (.discarded n)] ∧ finalRItem d = [RItem.ioErr .eof n] := by
  intro d
  have hinv : Dec.Inv d := Dec.pushAll_inv s (Dec.inv_fresh cap)
  rcases Dec.finalize_cases d with h | h
  · exact Or.inl ⟨by simp [finalItem, h], by simp [finalRItem, h]⟩
  · exact Or.inr ⟨d.raw, Dec.finalize_discarded_pos hinv h, by simp [finalItem, h],
      by simp [finalRItem, h]⟩

/-- The first `k` results of `DecoderReader::next`, for every `k`: the same payloads and decode
errors (as `RItem`s), then — if `finalize` would report `DiscardedBytes(n)` — one `Eof` error
carrying the same `n`, then `None` forever. -/
theorem reader_eq (kind : SrcKind) (hk : kind = .mem ∨ kind = .io) (cap : Option Nat)
    (s : List UInt8) (k : Nat) :
    ((Rdr.new kind cap (s.map Ev.byte)).calls (List.replicate k .next)).2 =
      padTo RItem.none
        ((items (Dec.pushAll (Dec.fresh cap) s).2).map Item.toR ++
          finalRItem (Dec.pushAll (Dec.fresh cap) s).1) k := by
  have hk' : kind ≠ .eh := by rcases hk with rfl | rfl <;> simp
  exact Rdr.nexts_eq hk' s (Dec.inv_fresh cap) k

/-! ### the buffer type -/

/-- An `ArrayBuf<N>` with `N ≥ |s|` gives exactly the results of a `Vec<u8>`. -/
theorem buffer_independent (s : List UInt8) (N : Nat) (h : s.length ≤ N) :
    (Dec.pushAll (Dec.fresh (some N)) s).2 = (Dec.pushAll (Dec.fresh none) s).2 := by
  have := Dec.pushAll_sim (c := some N) s (Dec.inv_fresh none) rfl
    (by simpa [Dec.fresh] using h)
  rw [Dec.withCap_fresh] at this
  rw [this]

/-- ... and the same final state up to the capacity, hence the same `finalize` result -/
theorem buffer_independent_final (s : List UInt8) (N : Nat) (h : s.length ≤ N) :
    (Dec.pushAll (Dec.fresh (some N)) s).1 = (Dec.pushAll (Dec.fresh none) s).1.withCap (some N) ∧
    (Dec.pushAll (Dec.fresh (some N)) s).1.finalize.2 =
      (Dec.pushAll (Dec.fresh none) s).1.finalize.2 := by
  have := Dec.pushAll_sim (c := some N) s (Dec.inv_fresh none) rfl
    (by simpa [Dec.fresh] using h)
  rw [Dec.withCap_fresh] at this
  rw [this]
  exact ⟨rfl, rfl⟩

/-- all front-ends over an `ArrayBuf<N>`, `N ≥ |s|`, report the `Vec<u8>` reference -/
theorem reference_buffer_independent (s : List UInt8) (N : Nat) (h : s.length ≤ N) :
    reference (some N) s = reference none s := by
  unfold reference finalItem
  rw [buffer_independent s N h, (buffer_independent_final s N h).2]

/-! ### non-vacuity: noise, a frame, an incomplete frame -/

/-- 2 noise bytes, the frame of `12 34 56 78`, then 9 bytes of an unfinished frame -/
def sample : List UInt8 :=
  [0xaa, 0x1b,
   0x1b, 0x1b, 0x1b, 0x1b, 0x01, 0x01, 0x01, 0x01, 0x12, 0x34, 0x56, 0x78,
   0x1b, 0x1b, 0x1b, 0x1b, 0x1a, 0x00, 0xb8, 0x7b,
   0x1b, 0x1b, 0x1b, 0x1b, 0x01, 0x01, 0x01, 0x01, 0x05]

example : reference none sample =
    [.err (.discarded 2), .ok [0x12, 0x34, 0x56, 0x78], .err (.discarded 9)] := by
  decide +kernel

example : decodeAll sample =
    [.err (.discarded 2), .ok [0x12, 0x34, 0x56, 0x78], .err (.discarded 9)] := by
  decide +kernel

example : (DecIter.new none sample).take 5 =
    [some (.err (.discarded 2)), some (.ok [0x12, 0x34, 0x56, 0x78]), some (.err (.discarded 9)),
      none, none] := by
  decide +kernel

example : collect (DecIter.new none sample) (sample.length + 2) =
    [.err (.discarded 2), .ok [0x12, 0x34, 0x56, 0x78], .err (.discarded 9)] := by
  decide +kernel

example : ((Rdr.new .io none (sample.map Ev.byte)).calls (List.replicate 5 .next)).2 =
    [.decErr (.discarded 2), .ok [0x12, 0x34, 0x56, 0x78], .ioErr .eof 9, .none, .none] := by
  decide +kernel

example : ((Rdr.new .mem none (sample.map Ev.byte)).calls (List.replicate 5 .next)).2 =
    [.decErr (.discarded 2), .ok [0x12, 0x34, 0x56, 0x78], .ioErr .eof 9, .none, .none] := by
  decide +kernel

/-- a stream that ends on a boundary: `None` right away -/
example : ((Rdr.new .mem none ((sample.take 22).map Ev.byte)).calls (List.replicate 4 .next)).2 =
    [.decErr (.discarded 2), .ok [0x12, 0x34, 0x56, 0x78], .none, .none] := by
  decide +kernel

/-- `ArrayBuf<31>` (`= |sample|`) behaves like `Vec<u8>`; `ArrayBuf<3>` does not (the hypothesis
of `buffer_independent` is needed) -/
example : (Dec.pushAll (Dec.fresh (some 31)) sample).2 = (Dec.pushAll (Dec.fresh none) sample).2 := by
  decide +kernel

example : (Dec.pushAll (Dec.fresh (some 3)) sample).2 ≠ (Dec.pushAll (Dec.fresh none) sample).2 := by
  decide +kernel

end Sml.C15

import Sml.Lemmas.RdrFaults
import Sml.Props.C15
import Sml.Props.C17
/-
  Property C11.

  "For any byte stream and any placement of source faults between bytes, would-block and
  interrupted conditions never change the sequence of decoded results: each would-block surfaces
  once with zero discarded bytes and reading resumes where it stopped.  Any other read error is
  returned together with the exact number of not-yet-reported bytes it discards, after which
  reading continues exactly like a fresh reader on the remaining stream.  End of input makes next
  return None iff no partial data is pending, and keeps doing so on further calls."

  * model : `Rdr` (Sml/Model/Frontends.lean): `DecoderReader` over a source that answers the
    successive `read_byte` attempts with the events `evs : List Ev`
    (`byte b | wouldBlock | interrupted | other | eof`) and with end of input once the list is
    used up.
    `SrcKind.io` = `IoByteSource` over `std::io::Read` (`read_exact` of one byte retries
    `Interrupted`; `Ok(0)` is `UnexpectedEof`), `SrcKind.mem` = slice / iterator source.
    An arbitrary `evs` is an arbitrary byte stream with an arbitrary finite sequence of faults at
    every inter-byte position (and before the first / after the last byte).
    End of input comes in two forms: the *final* one at the end of `evs` (every later read attempt
    reports it again), and the *mid-stream* one, the event `Ev.eof`: this read attempt reports end
    of input (`Ok(0)` / `UnexpectedEof` from the inner reader), later attempts deliver the
    following events (a file that is being appended to, a socket / pipe that delivers more
    later).  `evs` is arbitrary, so both can be at any position.
  * `nexts r k` / `reads r k` : the results of `k` successive `next` / `read` calls.
  * the complete behaviour (§0, Sml/Lemmas/RdrFaults.lean):
      `RF.opsOf evs`   the decoder operations the events cause: `byte b ↦ push_byte b`,
                        `other`, `eof ↦ reset`, `wouldBlock`, `interrupted ↦` nothing;
      `RF.body d evs`  the results `read` produces while events are left: per byte the non-`None`
                        answer of `push_byte`, per `wouldBlock` one `IoErr(WouldBlock, 0)`, per
                        `other` one `IoErr(Other, reset())`, per `eof` one `IoErr(Eof, reset())`;
      `nextBody cap evs` the same as `next` presents it: `IoErr(Eof, 0)` becomes `None`, nothing
                        else changes (`= body` when `Ev.eof ∉ evs`: `nextBody_eq_body`);
      `pending cap evs` the value `reset` returns in the decoder state reached when `evs` is
                        used up, i.e. (C17) the number of bytes since the last boundary;
      `results cap evs = nextBody ++ (if pending = 0 then [] else [IoErr(Eof, pending)])`.
    `nexts_eq` : `k` calls of `next` return `results`, then `None` forever — for every `k`.
    `calls_eq` : any interleaving of `read` / `next` / `read_nb` / `next_nb`: the `i`-th call
    returns `view c` of the `i`-th element of `readResults = body ++ [IoErr(Eof, pending)]`, resp.
    of `IoErr(Eof, 0)` afterwards, where `view` is the relabelling the entry point applies to the
    result of `read` (`all_calls`).
  All theorems hold for all event lists (with any number of mid-stream ends of input) and all
  buffer capacities.  A hypothesis `Ev.eof ∉ evs` appears only where a statement is *about* the
  absence of end-of-input reports before the final one:
    - `results_spec`, `other_resets` : the clause "no `None` / no `IoErr(Eof, _)` among these
      results" (a mid-stream end of input is, by definition, such a result),
    - `wouldblock_reference` : "with would-block / interrupted faults only".
-/
namespace Sml.C11

open RF (view body opsOf bytesOf)

/-- remove the `WouldBlock` and `Interrupted` events (errors and mid-stream ends of input stay) -/
def strip : List Ev → List Ev
  | [] => []
  | .byte b :: evs => .byte b :: strip evs
  | .wouldBlock :: evs => strip evs
  | .interrupted :: evs => strip evs
  | .other :: evs => .other :: strip evs
  | .eof :: evs => .eof :: strip evs

/-- remove the would-block results -/
def dropWB (l : List RItem) : List RItem := l.filter (· ≠ RItem.ioErr .wouldBlock 0)

/-- the results of `k` successive `next` calls -/
def nexts (r : Rdr) (k : Nat) : List RItem := (r.calls (List.replicate k .next)).2

/-- the results of `k` successive `read` calls -/
def reads (r : Rdr) (k : Nat) : List RItem := (r.calls (List.replicate k .read)).2

/-- what `reset` returns once the events are used up (new reader, capacity `cap`) -/
def pending (cap : Option Nat) (evs : List Ev) : Nat :=
  ((Dec.run (Dec.fresh cap) (opsOf evs)).1.reset).2

/-- the results `next` produces while events are left: those of `read` (`body`), with
`IoErr(Eof, 0)` (a mid-stream end of input with nothing pending) presented as `None` -/
def nextBody (cap : Option Nat) (evs : List Ev) : List RItem :=
  (body (Dec.fresh cap) evs).map (view .next)

/-- what `next` returns for a mid-stream end of input with `n` bytes pending -/
def midEof (n : Nat) : RItem := if n = 0 then .none else .ioErr .eof n

/-- everything `next` returns before it starts returning `None` for good -/
def results (cap : Option Nat) (evs : List Ev) : List RItem :=
  nextBody cap evs ++
    (if pending cap evs = 0 then [] else [RItem.ioErr .eof (pending cap evs)])

/-- everything `read` returns before it starts returning `IoErr(Eof, 0)` -/
def readResults (cap : Option Nat) (evs : List Ev) : List RItem :=
  body (Dec.fresh cap) evs ++ [RItem.ioErr .eof (pending cap evs)]

theorem strip_eq (evs : List Ev) : strip evs = RF.strip evs := by
  induction evs with
  | nil => rfl
  | cons e evs ih => cases e <;> simp [strip, RF.strip, ih]

theorem nextBody_eq (cap : Option Nat) (evs : List Ev) :
    nextBody cap evs = RF.nextBody (Dec.fresh cap) evs := rfl

theorem midEof_eq (n : Nat) : midEof n = RF.midEof n := rfl

/-- without a mid-stream end of input `next` and `read` return the same results while events are
left, and `results` has the form `body ++ …` -/
theorem nextBody_eq_body (cap : Option Nat) (evs : List Ev) (h : Ev.eof ∉ evs) :
    nextBody cap evs = body (Dec.fresh cap) evs ∧
    results cap evs = body (Dec.fresh cap) evs ++
      (if pending cap evs = 0 then [] else [RItem.ioErr .eof (pending cap evs)]) := by
  have := RF.map_view_next_body (Dec.fresh cap) evs h
  exact ⟨this, by unfold results nextBody; rw [this]⟩

/-! ### 0. the complete behaviour of the reader, all four entry points -/

/-- `k` successive `next` calls, any `k`: `results`, then `None` forever -/
theorem nexts_eq (cap : Option Nat) (evs : List Ev) (k : Nat) :
    nexts (Rdr.new .io cap evs) k = padTo RItem.none (results cap evs) k :=
  RF.nexts_io (Dec.fresh cap) evs k

/-- `results` is determined by `nexts_eq`: it contains no `IoErr(Eof, 0)` (which `next` turns into
`None`) and a `None` only for a mid-stream end of input with nothing pending — at most one per
`Ev.eof` event, hence none at all if there is no such event (this is the old statement; the
hypothesis `Ev.eof ∉ evs` is needed for that clause, e.g. `results cap [.eof] = [None]`);
`|evs| + 1` calls suffice to see all of it -/
theorem results_spec (cap : Option Nat) (evs : List Ev) :
    (∀ x ∈ results cap evs,
      (Ev.eof ∉ evs → x ≠ RItem.none) ∧ x ≠ RItem.nbWouldBlock ∧ x ≠ RItem.ioErr .eof 0) ∧
      (results cap evs).count RItem.none ≤ evs.count .eof ∧
      (results cap evs).length ≤ evs.length + 1 :=
  ⟨fun x hx => by
      have := RF.results_mem (Dec.fresh cap) evs x hx
      exact ⟨this.1, this.2.1, this.2.2.1⟩,
    RF.count_none_results (Dec.fresh cap) evs,
    RF.results_length_le (Dec.fresh cap) evs⟩

/-- every entry point is `read` followed by a relabelling of its result; all four leave the
reader in the same state -/
theorem all_calls (r : Rdr) (c : Rdr.Call) : r.call c = ((r.read).1, view c (r.read).2) :=
  RF.call_eq_read r c

/-- `read_nb` / `next_nb` are `read` / `next` with `IoErr(WouldBlock, _)` turned into
`nb::Error::WouldBlock`; nothing else changes -/
theorem nb_variants (r : Rdr) :
    r.readNb = (match r.read with
      | (r', .ioErr .wouldBlock _) => (r', RItem.nbWouldBlock)
      | x => x) ∧
    r.nextNb = (match r.next with
      | (r', .ioErr .wouldBlock _) => (r', RItem.nbWouldBlock)
      | x => x) := by
  refine ⟨rfl, ?_⟩
  unfold Rdr.nextNb Rdr.readNb Rdr.next
  rcases r.read with ⟨r', x⟩
  cases x with
  | ioErr k n =>
    cases k with
    | eof => cases n <;> rfl
    | wouldBlock => rfl
    | other => rfl
  | _ => rfl

/-- any sequence of `read` / `next` / `read_nb` / `next_nb` calls -/
theorem calls_eq (cap : Option Nat) (evs : List Ev) (cs : List Rdr.Call) :
    ((Rdr.new .io cap evs).calls cs).2 =
      List.zipWith view cs (padTo (RItem.ioErr .eof 0) (readResults cap evs) cs.length) :=
  RF.calls_eq evs (Dec.fresh cap) cs

theorem reads_eq (cap : Option Nat) (evs : List Ev) (k : Nat) :
    reads (Rdr.new .io cap evs) k = padTo (RItem.ioErr .eof 0) (readResults cap evs) k :=
  RF.reads_io (Dec.fresh cap) evs k

/-! ### 1. would-block and interrupted -/

/-- Erasing the would-block results gives exactly the results of the same stream without
would-block and interrupted events (same items, same order, same counts); every would-block event
surfaces exactly once; it always carries the count 0. -/
theorem wouldblock_transparent (cap : Option Nat) (evs : List Ev) :
    dropWB (results cap evs) = results cap (strip evs) ∧
    (results cap evs).count (RItem.ioErr .wouldBlock 0) = evs.count .wouldBlock ∧
    ∀ n, RItem.ioErr .wouldBlock n ∈ results cap evs → n = 0 := by
  refine ⟨?_, RF.count_wb_results (Dec.fresh cap) evs, fun n hn => ?_⟩
  · rw [strip_eq]; exact (RF.results_strip (Dec.fresh cap) evs).symm
  · exact (RF.results_mem (Dec.fresh cap) evs _ hn).2.2.2 n rfl

/-- the same for `read` (hence, by `calls_eq`, for every entry point) -/
theorem wouldblock_transparent_read (cap : Option Nat) (evs : List Ev) :
    dropWB (readResults cap evs) = readResults cap (strip evs) := by
  rw [strip_eq]; exact (RF.readResults_strip (Dec.fresh cap) evs).symm

/-- In terms of calls: with `W` would-block events, the first `k` results other than would-block
among `k + W` calls of `next` are the results of `k` calls on the stream without would-block and
interrupted events — for every `k`. -/
theorem wouldblock_transparent_calls (cap : Option Nat) (evs : List Ev) (k : Nat) :
    (dropWB (nexts (Rdr.new .io cap evs) (k + evs.count .wouldBlock))).take k =
      nexts (Rdr.new .io cap (strip evs)) k := by
  have h := wouldblock_transparent cap evs
  rw [nexts_eq, nexts_eq, ← h.1, ← h.2.1]
  exact RF.dropWB_padTo (results cap evs) k

/-- from any reader state, not only a new reader -/
theorem wouldblock_transparent_from (d : Dec) (evs : List Ev) (k : Nat) :
    (dropWB (nexts { kind := .io, dec := d, evs := evs } (k + evs.count .wouldBlock))).take k =
      nexts { kind := .io, dec := d, evs := strip evs } k := by
  unfold nexts
  rw [RF.nexts_io, RF.nexts_io, strip_eq, RF.results_strip, ← RF.count_wb_results d evs]
  exact RF.dropWB_padTo (RF.results d evs) k

/-- With would-block / interrupted faults only (no `other` error and no mid-stream end of input:
`h'` is new with `Ev.eof`, which resets the decoder like `other`), the results other than
would-block are the reference sequence of C15 for the bytes of the stream. -/
theorem wouldblock_reference (cap : Option Nat) (evs : List Ev) (h : Ev.other ∉ evs)
    (h' : Ev.eof ∉ evs) :
    dropWB (results cap evs) =
      (C15.items (Dec.pushAll (Dec.fresh cap) (bytesOf evs)).2).map Item.toR ++
        C15.finalRItem (Dec.pushAll (Dec.fresh cap) (bytesOf evs)).1 := by
  rw [(wouldblock_transparent cap evs).1, strip_eq, RF.strip_eq_bytes evs h h']
  exact RF.results_bytes _ (Dec.inv_fresh cap)

/-- One `read` call that runs into a would-block after the events `pre` (bytes answered
`Ok(None)` and interrupts, i.e. nothing to return): the would-block is returned with count 0, the
decoder keeps the state reached after the bytes of `pre`, the source is positioned behind the fault;
and the next call continues exactly as the first would have without the fault. -/
theorem read_wouldBlock (d : Dec) (pre post : List Ev) (hq : body d pre = []) :
    Rdr.readLoop .io d (pre ++ .wouldBlock :: post) =
      ({ kind := .io, dec := (Dec.run d (opsOf pre)).1, evs := post }, RItem.ioErr .wouldBlock 0) ∧
    Rdr.readLoop .io (Dec.run d (opsOf pre)).1 post = Rdr.readLoop .io d (pre ++ post) := by
  rw [RF.readLoop_quiet pre d _ hq, RF.readLoop_quiet pre d _ hq]
  exact ⟨rfl, rfl⟩

/-- `Interrupted` is retried inside `read_exact`: the event is invisible -/
theorem read_interrupted (d : Dec) (evs : List Ev) :
    Rdr.readLoop .io d (.interrupted :: evs) = Rdr.readLoop .io d evs :=
  RF.read_interrupted d evs

/-! ### 2. any other read error -/

/-- Events `pre`, then an error, then `post`.  With `rs` = the results `pre` produces before its
end of input (the first `|rs|` results on `pre` alone) and `n` = the count the reader would attach
to `Eof` there (`results cap pre` is `rs`, followed by `IoErr(Eof, n)` unless `n = 0`):
the reader returns `rs`, then exactly one `IoErr(Other, n)`, then exactly what a new reader returns
on `post` — for any number of further calls. -/
theorem other_resets (cap : Option Nat) (pre post : List Ev) :
    let rs := nextBody cap pre
    let n := pending cap pre
    results cap pre = rs ++ (if n = 0 then [] else [RItem.ioErr .eof n]) ∧
    -- `rs` holds no end-of-input report unless `pre` has a mid-stream end of input
    (Ev.eof ∉ pre → ∀ x ∈ rs, x ≠ RItem.none ∧ ∀ m, x ≠ RItem.ioErr .eof m) ∧
    nexts (Rdr.new .io cap pre) rs.length = rs ∧
    results cap (pre ++ .other :: post) = rs ++ [RItem.ioErr .other n] ++ results cap post ∧
    ∀ k, nexts (Rdr.new .io cap (pre ++ .other :: post)) (rs.length + 1 + k) =
      rs ++ [RItem.ioErr .other n] ++ nexts (Rdr.new .io cap post) k := by
  intro rs n
  have h3 : results cap (pre ++ .other :: post) = rs ++ [RItem.ioErr .other n] ++ results cap post :=
    RF.results_other_fresh cap pre post
  refine ⟨rfl, fun hne x hx => ?_, ?_, h3, fun k => ?_⟩
  · have := RF.nextBody_mem (Dec.fresh cap) pre x hx
    exact ⟨this.1 hne, this.2.2.2.1 hne⟩
  · have := padTo_append_left RItem.none rs
      (if n = 0 then [] else [RItem.ioErr .eof n]) 0
    rw [padTo_zero, List.append_nil, Nat.add_zero] at this
    rw [nexts_eq]
    exact this
  · rw [nexts_eq, nexts_eq, h3]
    have := padTo_append_left RItem.none (rs ++ [RItem.ioErr .other n]) (results cap post) k
    rw [List.length_append, List.length_singleton] at this
    exact this

/-- the same for `read` (hence for every entry point, by `calls_eq`) -/
theorem other_resets_read (cap : Option Nat) (pre post : List Ev) :
    let rs := body (Dec.fresh cap) pre
    let n := pending cap pre
    readResults cap (pre ++ .other :: post) = rs ++ [RItem.ioErr .other n] ++ readResults cap post ∧
    ∀ k, reads (Rdr.new .io cap (pre ++ .other :: post)) (rs.length + 1 + k) =
      rs ++ [RItem.ioErr .other n] ++ reads (Rdr.new .io cap post) k := by
  intro rs n
  have h3 : readResults cap (pre ++ .other :: post) =
      rs ++ [RItem.ioErr .other n] ++ readResults cap post :=
    RF.readResults_other_fresh cap pre post
  refine ⟨h3, fun k => ?_⟩
  rw [reads_eq, reads_eq, h3]
  have := padTo_append_left (RItem.ioErr .eof 0) (rs ++ [RItem.ioErr .other n])
    (readResults cap post) k
  rw [List.length_append, List.length_singleton] at this
  exact this

/-- The count is exact (C17): the operations `pre` causes tile the bytes of `pre` with last
boundary `b`, and the count attached to the error is the number of bytes after `b`. -/
theorem other_count_exact (cap : Option Nat) (pre : List Ev) :
    ∃ b, Spec.tileOps 0 0 (Dec.run (Dec.fresh cap) (opsOf pre)).2 = some (b, (bytesOf pre).length) ∧
      b + pending cap pre = (bytesOf pre).length := by
  obtain ⟨b, h1, h2, _⟩ := C17.reset_count cap (opsOf pre)
  rw [RF.pushCount_opsOf] at h1 h2
  exact ⟨b, h1, h2⟩

/-- why the reader continues like a new one: the decoder the error leaves behind differs from a
new decoder in dead fields only (C14), and such decoders give the same results on every event
sequence -/
theorem other_leaves_fresh (cap : Option Nat) (pre : List Ev) :
    Dec.Equiv ((Dec.run (Dec.fresh cap) (opsOf pre)).1.reset).1 (Dec.fresh cap) := by
  have := RF.reset_equiv_fresh (RF.endDec (Dec.fresh cap) pre)
  rwa [RF.endDec_cap pre (Dec.inv_fresh cap)] at this

theorem equiv_same_results {d d' : Dec} (h : Dec.Equiv d d') (evs : List Ev) (cs : List Rdr.Call) :
    (({ kind := .io, dec := d, evs := evs } : Rdr).calls cs).2 =
      (({ kind := .io, dec := d', evs := evs } : Rdr).calls cs).2 := by
  rw [RF.calls_eq, RF.calls_eq, RF.readResults_equiv evs h]

/-! ### 3. end of input -/

/-- A reader (slice / iterator / `io::Read`) whose source is exhausted, in any decoder state `d`:
`next` returns `None` iff `reset` has nothing to discard, otherwise `IoErr(Eof, n)` with that count
`n > 0`; `read` returns `IoErr(Eof, n)` in both cases.  Either call resets the decoder, and from
then on every `next` returns `None` and every `read` returns `IoErr(Eof, 0)`. -/
theorem eof (kind : SrcKind) (hk : kind = .mem ∨ kind = .io) (d : Dec) :
    let r : Rdr := { kind := kind, dec := d, evs := [] }
    (r.next).2 = (if (d.reset).2 = 0 then RItem.none else RItem.ioErr .eof (d.reset).2) ∧
    ((r.next).2 = RItem.none ↔ (d.reset).2 = 0) ∧
    (r.read).2 = RItem.ioErr .eof (d.reset).2 ∧
    (r.next).1 = { kind := kind, dec := (d.reset).1, evs := [] } ∧
    (r.read).1 = { kind := kind, dec := (d.reset).1, evs := [] } ∧
    (((d.reset).1.reset).2 = 0) ∧
    (∀ j, nexts (r.next).1 j = List.replicate j RItem.none) ∧
    (∀ j, nexts (r.read).1 j = List.replicate j RItem.none) ∧
    (∀ j, reads (r.next).1 j = List.replicate j (RItem.ioErr .eof 0)) ∧
    (∀ j, reads (r.read).1 j = List.replicate j (RItem.ioErr .eof 0)) := by
  have hk' : kind ≠ .eh := by rcases hk with rfl | rfl <;> simp
  intro r
  have hn : r.next = _ := Rdr.next_nil hk' d
  have hr : r.read = _ := Rdr.read_nil hk' d
  rw [hn, hr]
  refine ⟨rfl, ?_, rfl, rfl, rfl, rfl, ?_, ?_, ?_, ?_⟩
  · simp only
    split <;> simp_all
  · exact fun j => Rdr.nexts_eof hk' j (Dec.isReset_reset d)
  · exact fun j => Rdr.nexts_eof hk' j (Dec.isReset_reset d)
  · exact fun j => RF.reads_exhausted hk' j (Dec.isReset_reset d)
  · exact fun j => RF.reads_exhausted hk' j (Dec.isReset_reset d)

/-- "nothing pending" in terms of the decoder state (every state reachable inside a reader
satisfies `Dec.Inv`, C05): `reset` returns 0 iff a transmission has just been delivered or not a
single byte has arrived since the last boundary; and that is exactly when `finalize` reports
nothing. -/
theorem eof_pending {d : Dec} (h : Dec.Inv d) :
    ((d.reset).2 = 0 ↔ d.st = .done ∨ d.st = .look 0 0) ∧
    ((d.finalize).2 = none ↔ (d.reset).2 = 0) :=
  ⟨RF.reset_eq_zero_iff h, RF.finalize_none_iff h⟩

/-- whole streams: after the results produced by the events, `next` returns `None` at once iff
nothing is pending, otherwise one `IoErr(Eof, pending)`; then `None` on all further calls -/
theorem eof_stream (cap : Option Nat) (evs : List Ev) (k : Nat) :
    nexts (Rdr.new .io cap evs) ((nextBody cap evs).length + 1 + k) =
      nextBody cap evs ++
        (if pending cap evs = 0 then RItem.none else RItem.ioErr .eof (pending cap evs)) ::
          List.replicate k RItem.none := by
  rw [nexts_eq, results, Nat.add_assoc, padTo_append_left, Nat.add_comm 1 k]
  split
  · rw [padTo_nil, List.replicate_succ]
  · rw [padTo_cons, padTo_nil]

/-! ### 3b. mid-stream end of input (`Ev.eof`): the source reports end of input for one read
attempt and delivers more afterwards -/

/-- One call on a reader (slice / iterator / `io::Read`) in any decoder state `d` whose source now
reports end of input but has the events `evs` to deliver later: `read` returns `IoErr(Eof, n)` with
`n` = what `reset` discards; `next` returns `None` iff `n = 0`, otherwise the same error.  Either
call resets the decoder and leaves the source positioned behind the event. -/
theorem eof_midstream_call (kind : SrcKind) (hk : kind = .mem ∨ kind = .io) (d : Dec)
    (evs : List Ev) :
    let r : Rdr := { kind := kind, dec := d, evs := .eof :: evs }
    r.read = ({ kind := kind, dec := (d.reset).1, evs := evs }, RItem.ioErr .eof (d.reset).2) ∧
    r.next = ({ kind := kind, dec := (d.reset).1, evs := evs }, midEof (d.reset).2) ∧
    ((r.next).2 = RItem.none ↔ (d.reset).2 = 0) := by
  have hk' : kind ≠ .eh := by rcases hk with rfl | rfl <;> simp
  intro r
  have hr : r.read = _ := RF.read_eof hk' d evs
  have hn : r.next = ({ kind := kind, dec := (d.reset).1, evs := evs }, midEof (d.reset).2) := by
    have := all_calls r .next
    rw [hr] at this
    exact this.trans (by rw [midEof_eq, ← RF.view_next_eof])
  refine ⟨hr, hn, ?_⟩
  rw [hn]
  unfold midEof
  split <;> simp_all

/-- Events `pre`, then a mid-stream end of input, then `post` — `next`.  With `rs` = what `next`
returns on the events `pre` and `n` = the number of pending bytes there (`results cap pre` is `rs`,
followed by `IoErr(Eof, n)` unless `n = 0`): the reader returns `rs`, then for the end of input
exactly one result — `None` if nothing is pending, `IoErr(Eof, n)` with the exact count otherwise —,
then exactly what a new reader returns on `post`, for any number of further calls.  In particular
after a `None` later calls of `next` can return data again. -/
theorem eof_midstream (cap : Option Nat) (pre post : List Ev) :
    let rs := nextBody cap pre
    let n := pending cap pre
    results cap pre = rs ++ (if n = 0 then [] else [RItem.ioErr .eof n]) ∧
    nexts (Rdr.new .io cap pre) rs.length = rs ∧
    results cap (pre ++ .eof :: post) = rs ++ [midEof n] ++ results cap post ∧
    ∀ k, nexts (Rdr.new .io cap (pre ++ .eof :: post)) (rs.length + 1 + k) =
      rs ++ [midEof n] ++ nexts (Rdr.new .io cap post) k := by
  intro rs n
  have h3 : results cap (pre ++ .eof :: post) = rs ++ [midEof n] ++ results cap post :=
    RF.results_eof_fresh cap pre post
  refine ⟨rfl, ?_, h3, fun k => ?_⟩
  · have := padTo_append_left RItem.none rs
      (if n = 0 then [] else [RItem.ioErr .eof n]) 0
    rw [padTo_zero, List.append_nil, Nat.add_zero] at this
    rw [nexts_eq]
    exact this
  · rw [nexts_eq, nexts_eq, h3]
    have := padTo_append_left RItem.none (rs ++ [midEof n]) (results cap post) k
    rw [List.length_append, List.length_singleton] at this
    exact this

/-- the same for `read` (hence for every entry point, by `calls_eq`): the results of `read` are
exact, the end of input is `IoErr(Eof, n)` also for `n = 0` -/
theorem eof_midstream_read (cap : Option Nat) (pre post : List Ev) :
    let rs := body (Dec.fresh cap) pre
    let n := pending cap pre
    readResults cap (pre ++ .eof :: post) = rs ++ [RItem.ioErr .eof n] ++ readResults cap post ∧
    ∀ k, reads (Rdr.new .io cap (pre ++ .eof :: post)) (rs.length + 1 + k) =
      rs ++ [RItem.ioErr .eof n] ++ reads (Rdr.new .io cap post) k := by
  intro rs n
  have h3 : readResults cap (pre ++ .eof :: post) =
      rs ++ [RItem.ioErr .eof n] ++ readResults cap post :=
    RF.readResults_eof_fresh cap pre post
  refine ⟨h3, fun k => ?_⟩
  rw [reads_eq, reads_eq, h3]
  have := padTo_append_left (RItem.ioErr .eof 0) (rs ++ [RItem.ioErr .eof n])
    (readResults cap post) k
  rw [List.length_append, List.length_singleton] at this
  exact this

/-- the count attached to a mid-stream end of input is exact (C17), and the decoder it leaves
behind is as good as new (C14): both are the statements for `other`, because the two events cause
the same decoder operation (`reset`) -/
theorem eof_midstream_count_exact (cap : Option Nat) (pre : List Ev) :
    (∃ b, Spec.tileOps 0 0 (Dec.run (Dec.fresh cap) (opsOf pre)).2 =
        some (b, (bytesOf pre).length) ∧ b + pending cap pre = (bytesOf pre).length) ∧
    Dec.Equiv ((Dec.run (Dec.fresh cap) (opsOf pre)).1.reset).1 (Dec.fresh cap) ∧
    opsOf (pre ++ [.eof]) = opsOf (pre ++ [.other]) :=
  ⟨other_count_exact cap pre, other_leaves_fresh cap pre, by
    rw [RF.opsOf_append, RF.opsOf_append]; rfl⟩

/-- the count at end of input is exact as well (C17) -/
theorem eof_count_exact (cap : Option Nat) (evs : List Ev) :
    ∃ b, Spec.tileOps 0 0 (Dec.run (Dec.fresh cap) (opsOf evs)).2 = some (b, (bytesOf evs).length) ∧
      b + pending cap evs = (bytesOf evs).length :=
  other_count_exact cap evs

/-- a slice / iterator source (bytes only) behaves like an `io::Read` without faults -/
theorem eof_stream_mem (cap : Option Nat) (s : List UInt8) (k : Nat) :
    nexts (Rdr.new .mem cap (s.map Ev.byte)) k = nexts (Rdr.new .io cap (s.map Ev.byte)) k := by
  unfold nexts
  rw [C15.reader_eq .mem (Or.inl rfl), C15.reader_eq .io (Or.inr rfl)]

/-! ### 4. non-vacuity -/

/-- the frame of `12 34 56 78` -/
def frame : List UInt8 :=
  [0x1b, 0x1b, 0x1b, 0x1b, 0x01, 0x01, 0x01, 0x01, 0x12, 0x34, 0x56, 0x78,
   0x1b, 0x1b, 0x1b, 0x1b, 0x1a, 0x00, 0xb8, 0x7b]

/-- the frame split by `WouldBlock`, `Interrupted`, `WouldBlock WouldBlock` -/
def split : List Ev :=
  (frame.take 5).map .byte ++ [.wouldBlock] ++ ((frame.drop 5).take 3).map .byte ++ [.interrupted] ++
    ((frame.drop 8).take 4).map .byte ++ [.wouldBlock, .wouldBlock] ++ (frame.drop 12).map .byte

example : nexts (Rdr.new .io none split) 6 =
    [.ioErr .wouldBlock 0, .ioErr .wouldBlock 0, .ioErr .wouldBlock 0, .ok [0x12, 0x34, 0x56, 0x78],
      .none, .none] := by
  decide +kernel

example : strip split = frame.map .byte := by decide +kernel

example : nexts (Rdr.new .io none (strip split)) 3 = [.ok [0x12, 0x34, 0x56, 0x78], .none, .none] := by
  decide +kernel

example : split.count .wouldBlock = 3 := by decide +kernel

/-- the non-blocking entry points on the same stream -/
example : ((Rdr.new .io none split).calls [.nextNb, .readNb, .next, .nextNb, .nextNb, .read]).2 =
    [.nbWouldBlock, .nbWouldBlock, .ioErr .wouldBlock 0, .ok [0x12, 0x34, 0x56, 0x78], .none,
      .ioErr .eof 0] := by
  decide +kernel

/-- an error 9 bytes into a frame (and a would-block before it), then a complete frame: the count
is the 9 bytes of the cut-off part, the following frame is delivered -/
def cut : List Ev :=
  (frame.take 4).map .byte ++ [.wouldBlock] ++ ((frame.drop 4).take 5).map .byte ++ [.other] ++
    frame.map .byte

example : nexts (Rdr.new .io none cut) 5 =
    [.ioErr .wouldBlock 0, .ioErr .other 9, .ok [0x12, 0x34, 0x56, 0x78], .none, .none] := by
  decide +kernel

example : pending none ((frame.take 4).map .byte ++ [.wouldBlock] ++ ((frame.drop 4).take 5).map .byte)
    = 9 := by
  decide +kernel

/-- an error right after a delivered frame discards nothing -/
example : nexts (Rdr.new .io none (frame.map .byte ++ [.other] ++ frame.map .byte)) 4 =
    [.ok [0x12, 0x34, 0x56, 0x78], .ioErr .other 0, .ok [0x12, 0x34, 0x56, 0x78], .none] := by
  decide +kernel

/-- end of input after a partial frame: one `Eof` with the 9 pending bytes, then `None` -/
example : nexts (Rdr.new .io none ((frame.take 9).map .byte)) 3 =
    [.ioErr .eof 9, .none, .none] := by
  decide +kernel

example : nexts (Rdr.new .mem none ((frame ++ frame.take 9).map .byte)) 4 =
    [.ok [0x12, 0x34, 0x56, 0x78], .ioErr .eof 9, .none, .none] := by
  decide +kernel

/-- end of input on a boundary: `None` at once; `read` reports `Eof, 0` -/
example : nexts (Rdr.new .io none (frame.map .byte)) 3 =
    [.ok [0x12, 0x34, 0x56, 0x78], .none, .none] := by
  decide +kernel

example : reads (Rdr.new .io none (frame.map .byte)) 3 =
    [.ok [0x12, 0x34, 0x56, 0x78], .ioErr .eof 0, .ioErr .eof 0] := by
  decide +kernel

/-- mid-stream end of input on a boundary (a file that is appended to between two reads): `next`
returns `None`, and the next call delivers the frame that has arrived meanwhile; `read` reports
`IoErr(Eof, 0)` instead -/
example : nexts (Rdr.new .io none (frame.map .byte ++ [.eof] ++ frame.map .byte)) 5 =
    [.ok [0x12, 0x34, 0x56, 0x78], .none, .ok [0x12, 0x34, 0x56, 0x78], .none, .none] := by
  decide +kernel

example : reads (Rdr.new .io none (frame.map .byte ++ [.eof] ++ frame.map .byte)) 5 =
    [.ok [0x12, 0x34, 0x56, 0x78], .ioErr .eof 0, .ok [0x12, 0x34, 0x56, 0x78], .ioErr .eof 0,
      .ioErr .eof 0] := by
  decide +kernel

/-- mid-stream end of input 9 bytes into a frame: the 9 bytes are reported and discarded, the rest
of that frame (11 bytes) is noise to the reset decoder, the following frame is delivered -/
example : nexts (Rdr.new .io none
      ((frame.take 9).map .byte ++ [.eof] ++ (frame.drop 9).map .byte ++ frame.map .byte)) 5 =
    [.ioErr .eof 9, .decErr (.discarded 11), .ok [0x12, 0x34, 0x56, 0x78], .none, .none] := by
  decide +kernel

example : results none (frame.map .byte ++ [.eof, .eof] ++ (frame.take 3).map .byte) =
    [.ok [0x12, 0x34, 0x56, 0x78], .none, .none, .ioErr .eof 3] := by
  decide +kernel

/-- the hypothesis of `read_wouldBlock` is met by the first five bytes of a frame -/
example : body (Dec.fresh none) ((frame.take 5).map .byte) = [] := by decide +kernel

end Sml.C11

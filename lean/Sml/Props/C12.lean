import Sml.Lemmas.C12
/-
  Property C12.

  "For every type-length field, however many bytes it spans, the parser uses exactly the length
   the SML rule prescribes (the concatenated 4-bit groups, minus the field's own size for non-list
   types) or returns an error when that value is negative, does not fit 32 bits, or reserved type
   bits are used; it never proceeds with a wrapped or truncated length.  Every integer of 1-8
   bytes is returned with exactly its big-endian two's-complement (signed) or plain (unsigned)
   value in the narrowest standard width holding its encoded size, booleans as a non-zero test,
   and byte strings as exactly the designated bytes."

  All statements hold for every input (no length bound).  The rule for the field is the
  independent positional specification `Spec.tlfSpec` (Sml/Spec/TlfSpec.lean).
-/
namespace Sml.C12
open Sml

/-! ### 1. type-length field = the SML rule -/

/-- value, number of consumed bytes and error kind of `parseTlf` are exactly those of the rule -/
theorem tlf_eq_spec (bs : Bytes) :
    (match parseTlf bs with
      | .ok (t, rest) => (Except.ok (t, bs.length - rest.length) : Except PErr (Tlf × Nat))
      | .error e => .error e) = Spec.tlfSpec bs :=
  parseTlf_eq_spec bs

/-- the remaining input is the suffix after the (non-empty) field -/
theorem tlf_rest (bs : Bytes) (t : Tlf) (rest : Bytes) :
    parseTlf bs = .ok (t, rest) → ∃ n, n ≤ bs.length ∧ 1 ≤ n ∧ rest = bs.drop n := by
  intro h
  obtain ⟨n, h1, h2, h3, _⟩ := parseTlf_ok bs t rest h
  exact ⟨n, h1, h2, h3⟩

/-! ### 2. no wrapped length, no panic -/

theorem tlf_no_wrap (bs : Bytes) (t : Tlf) (rest : Bytes) :
    parseTlf bs = .ok (t, rest) → t.len ≤ u32Max := by
  intro h
  obtain ⟨_, _, _, _, h4⟩ := parseTlf_ok bs t rest h
  exact h4

theorem tlf_no_panic (bs : Bytes) (s : String) : parseTlf bs ≠ .error (.panic s) :=
  parseTlf_no_panic bs s

/-- a field may span arbitrarily many bytes (here `n + 2`, e.g. more than 2^32): its own size is
    still subtracted exactly, so the value 5 underflows instead of wrapping -/
theorem tlf_long_field (n : Nat) (hn : 4 ≤ n) :
    parseTlf (List.replicate (n + 1) (0x80 : UInt8) ++ [0x05]) = .error .tlfLengthUnderflow :=
  parseTlf_long n hn

/-! ### 3. integers -/

/-- big-endian two's-complement value of a byte string (sign = top bit of the first byte) -/
def twos (bs : Bytes) : Int :=
  if (match bs with | b0 :: _ => decide (b0.toNat ≥ 128) | [] => false)
  then (beNat bs : Int) - (2 ^ (8 * bs.length) : Nat)
  else beNat bs

/-- plain big-endian value of a byte string -/
def plain (bs : Bytes) : Int := beNat bs

theorem int_exact (signed : Bool) (size : Nat) (_hs : size ∈ [1, 2, 4, 8]) (tlf : Tlf)
    (input : Bytes) (h : numCheck signed size tlf = true) :
    parseNum signed size input tlf =
      (if input.length < tlf.len then .error .unexpectedEOF
       else .ok ((if signed then twos (input.take tlf.len) else plain (input.take tlf.len)),
                 input.drop tlf.len)) := by
  cases signed with
  | false => simpa [plain] using parseNum_unsigned size input tlf h
  | true =>
    by_cases hl : input.length < tlf.len
    · simp [hl, parseNum, takeN]
    · obtain ⟨b0, tl, hb, hp⟩ := parseNum_signed size input tlf h hl
      simp [hl, hp, hb, twos]

/-! ### 4. width class -/

/-- the narrowest of 1/2/4/8 bytes (8/16/32/64 bits) holding `w` bytes -/
def narrow (w : Nat) : Nat := if w ≤ 1 then 1 else if w ≤ 2 then 2 else if w ≤ 4 then 4 else 8

theorem value_int_class (w : Nat) (hw : 1 ≤ w ∧ w ≤ 8) (input : Bytes) :
    parseValueWith input ⟨.integer, w⟩ =
      mapRes (Value.int (narrow w)) (parseNum true (narrow w) input ⟨.integer, w⟩) := by
  rcases cases_1_8 w hw with h | h | h | h | h | h | h | h <;> subst h <;> rfl

theorem value_uns_class (w : Nat) (hw : 1 ≤ w ∧ w ≤ 8) (input : Bytes) :
    parseValueWith input ⟨.unsigned, w⟩ =
      mapRes (Value.uns (narrow w)) (parseNum false (narrow w) input ⟨.unsigned, w⟩) := by
  rcases cases_1_8 w hw with h | h | h | h | h | h | h | h <;> subst h <;> rfl

theorem status_class (w : Nat) (hw : 1 ≤ w ∧ w ≤ 8) (input : Bytes) :
    parseStatusWith input ⟨.unsigned, w⟩ =
      mapRes (Status.status (narrow w)) (parseNum false (narrow w) input ⟨.unsigned, w⟩) := by
  rcases cases_1_8 w hw with h | h | h | h | h | h | h | h <;> subst h <;> rfl

theorem value_int_reject (w : Nat) (h : w = 0 ∨ 8 < w) (input : Bytes) :
    parseValueWith input ⟨.integer, w⟩ = .error .tlfMismatch ∧
    parseValueWith input ⟨.unsigned, w⟩ = .error .tlfMismatch ∧
    parseStatusWith input ⟨.unsigned, w⟩ = .error .tlfMismatch :=
  value_int_rej w h input

theorem narrow_mem (w : Nat) : narrow w ∈ [1, 2, 4, 8] := by
  unfold narrow
  repeat' split
  all_goals simp

theorem narrow_ge (w : Nat) (hw : w ≤ 8) : w ≤ narrow w := by
  unfold narrow
  repeat' split
  all_goals omega

theorem narrow_check_int (w : Nat) (hw : 1 ≤ w ∧ w ≤ 8) :
    numCheck true (narrow w) ⟨.integer, w⟩ = true :=
  (numCheck_iff _ _ _).2 ⟨rfl, hw.1, narrow_ge w hw.2⟩

theorem narrow_check_uns (w : Nat) (hw : 1 ≤ w ∧ w ≤ 8) :
    numCheck false (narrow w) ⟨.unsigned, w⟩ = true :=
  (numCheck_iff _ _ _).2 ⟨rfl, hw.1, narrow_ge w hw.2⟩

/-- 3 + 4 combined: a signed integer field of `w ∈ 1..8` bytes yields the two's-complement value
    of exactly the next `w` bytes, in width class `narrow w`; too little input is `UnexpectedEOF` -/
theorem value_int_exact (w : Nat) (hw : 1 ≤ w ∧ w ≤ 8) (input : Bytes) :
    parseValueWith input ⟨.integer, w⟩ =
      if input.length < w then .error .unexpectedEOF
      else .ok (Value.int (narrow w) (twos (input.take w)), input.drop w) := by
  rw [value_int_class w hw, int_exact true (narrow w) (narrow_mem w) _ _ (narrow_check_int w hw)]
  by_cases hl : input.length < w <;> simp [hl, mapRes]

/-- the same for unsigned fields: plain big-endian value -/
theorem value_uns_exact (w : Nat) (hw : 1 ≤ w ∧ w ≤ 8) (input : Bytes) :
    parseValueWith input ⟨.unsigned, w⟩ =
      if input.length < w then .error .unexpectedEOF
      else .ok (Value.uns (narrow w) (plain (input.take w)), input.drop w) := by
  rw [value_uns_class w hw, int_exact false (narrow w) (narrow_mem w) _ _ (narrow_check_uns w hw)]
  by_cases hl : input.length < w <;> simp [hl, mapRes]

/-- the same for status words -/
theorem status_exact (w : Nat) (hw : 1 ≤ w ∧ w ≤ 8) (input : Bytes) :
    parseStatusWith input ⟨.unsigned, w⟩ =
      if input.length < w then .error .unexpectedEOF
      else .ok (Status.status (narrow w) (plain (input.take w)), input.drop w) := by
  rw [status_class w hw, int_exact false (narrow w) (narrow_mem w) _ _ (narrow_check_uns w hw)]
  by_cases hl : input.length < w <;> simp [hl, mapRes]

/-! ### 5. booleans and byte strings -/

theorem bool_exact (input : Bytes) (tlf : Tlf) :
    parseBoolWith input tlf =
      match input with
      | [] => .error .unexpectedEOF
      | b :: rest => .ok (decide (b ≠ 0), rest) :=
  parseBoolWith_eq input tlf

theorem octet_exact (input : Bytes) (tlf : Tlf) :
    parseOctetWith input tlf =
      if input.length < tlf.len then .error .unexpectedEOF
      else .ok (input.take tlf.len, input.drop tlf.len) :=
  parseOctetWith_eq input tlf

/-! ### 6. non-vacuity -/

-- value 0x8000000b would need 33 bits (the former `checked_shl` accepted this as length 2)
example : parseTlf [0x81,0x80,0x80,0x80,0x80,0x80,0x80,0x80,0x0b] = .error .tlfLengthOverflow := rfl
example : Spec.tlfSpec [0x81,0x80,0x80,0x80,0x80,0x80,0x80,0x80,0x0b] = .error .tlfLengthOverflow := rfl
-- the largest lengths are accepted unchanged
example : parseTlf [0xff,0x8f,0x8f,0x8f,0x8f,0x8f,0x8f,0x0e] = .ok (⟨.listOf, 4294967294⟩, []) := rfl
example : Spec.tlfSpec [0xff,0x8f,0x8f,0x8f,0x8f,0x8f,0x8f,0x0e] = .ok (⟨.listOf, 4294967294⟩, 8) := rfl
example : parseTlf [0x8f,0x8f,0x8f,0x8f,0x8f,0x8f,0x8f,0x0f] = .ok (⟨.octetString, 4294967287⟩, []) := rfl
example : parseTlf [0x83, 0x02] = .ok (⟨.octetString, 48⟩, []) := rfl
example : parseTlf [0x83, 0x02, 0xaa] = .ok (⟨.octetString, 48⟩, [0xaa]) := rfl
example : parseTlf [0x01] = .ok (⟨.octetString, 0⟩, []) := rfl
example : parseTlf [0x72, 0x99] = .ok (⟨.listOf, 2⟩, [0x99]) := rfl
-- every error kind occurs
example : parseTlf [0x00] = .error .tlfLengthUnderflow := rfl
example : parseTlf [0x80, 0x01] = .error .tlfLengthUnderflow := rfl
example : parseTlf [0xc2] = .error .tlfReserved := rfl
example : parseTlf [0x15] = .error .tlfInvalidTy := rfl
example : parseTlf [0x81, 0x12] = .error .tlfNextByteTypeMismatch := rfl
example : parseTlf [0x81] = .error .unexpectedEOF := rfl
example : parseTlf [] = .error .unexpectedEOF := rfl
-- integers: sign extension and width classes
example : twos [0xff, 0xfe] = -2 := by decide
example : twos [0x7f, 0xff, 0xfe] = 8388606 := by decide
example : plain [0xff, 0xfe] = 65534 := by decide
example : narrow 3 = 4 ∧ narrow 5 = 8 ∧ narrow 1 = 1 ∧ narrow 2 = 2 := by decide
example : parseValue [0x53, 0xff, 0xfe] = .ok (Value.int 2 (-2), []) := rfl
example : parseValue [0x54, 0xff, 0xff, 0xfe] = .ok (Value.int 4 (-2), []) := rfl
example : parseValue [0x54, 0x7f, 0xff, 0xfe] = .ok (Value.int 4 8388606, []) := rfl
example : parseValue [0x59, 0x80, 0, 0, 0, 0, 0, 0, 0] =
    .ok (Value.int 8 (-9223372036854775808), []) := rfl
example : parseValue [0x69, 0xff, 0xff, 0xff, 0xff, 0xff, 0xff, 0xff, 0xff] =
    .ok (Value.uns 8 18446744073709551615, []) := rfl
example : parseValue [0x64, 0x01, 0x00, 0x00] = .ok (Value.uns 4 65536, []) := rfl
example : parseValue [0x5a, 0, 0, 0, 0, 0, 0, 0, 0, 0] = .error .tlfMismatch := rfl
example : parseValue [0x51] = .error .tlfMismatch := rfl
example : parseInt true 2 [0x53, 0xff, 0xfe] = .ok (-2, []) := rfl
example : parseInt true 8 [0x52, 0x80] = .ok (-128, []) := rfl
example : parseInt true 2 [0x53, 0xff] = .error .unexpectedEOF := rfl
example : parseStatus [0x63, 0x01, 0x82] = .ok (Status.status 2 386, []) := rfl
-- booleans and byte strings
example : parseValue [0x42, 0x02] = .ok (Value.bool true, []) := rfl
example : parseValue [0x42, 0x00] = .ok (Value.bool false, []) := rfl
example : parseValue [0x03, 0xca, 0xfe, 0x99] = .ok (Value.bytes [0xca, 0xfe], [0x99]) := rfl
example : parseValue [0x03, 0xca] = .error .unexpectedEOF := rfl

end Sml.C12

import Sml.Lemmas.C09
/-
  Property C09.

  "For every byte string, the events of the streaming parser up to its first error or end,
   reassembled, equal the file returned by the allocating parser; one reports an error exactly
   when the other does, and with the same error kind.  For every list response the streaming
   parser announces n values, then emits exactly n value events and one end event before the next
   message starts."

  * `events x` is the `for item in Parser::new(x)` iteration: all items up to and including the
    first error, or up to the first `None`.  By C13 the fuel `|x| + 2` is more than enough;
    `events_fuel` shows that any fuel above `|x|` gives the same list.
  * `Spec.reassemble`, `Spec.WellFormedEvents`, `Spec.WellFormedPrefix`, `Spec.Grammar` are the
    parser-independent event grammar (Sml/Spec/Events.lean).
  * `completedMessages fuel x` (Sml/Lemmas/C09.lean) are the messages the allocating parser has
    parsed and checksum-verified before it stops.

  All statements hold for every input.
-/
namespace Sml.C09
open Sml SParser Spec

/-- the items of the streaming iteration up to the first error or `None` -/
def events (x : Bytes) : List SItem := (SParser.new x).collect (x.length + 2)

/-- `collect` with any larger fuel gives the same list -/
theorem events_fuel (x : Bytes) (fuel : Nat) (h : x.length + 1 ≤ fuel) :
    (SParser.new x).collect fuel = events x := by
  rw [events, collect_eq_run (new x) fuel h, collect_eq_run (new x) (x.length + 2)]
  exact Nat.le_succ _

theorem events_eq_run (x : Bytes) : events x = run (new x) :=
  collect_eq_run (new x) (x.length + 2) (Nat.le_succ _)

/-- both parsers succeed together, and then the events reassemble to the file -/
theorem agree_ok (x : Bytes) (F : File) :
    parseFile x = .ok F ↔
      ∃ evs : List ParseEvent,
        events x = evs.map SParser.SItem.ev ∧ reassemble evs = some F.messages := by
  rw [events_eq_run]
  rcases file_cases x with ⟨F', evs', hp, hr, hre⟩ | ⟨e, evs', extra, hp, hr, _, _⟩
  · rw [hp, hr]
    constructor
    · intro h
      cases h
      exact ⟨evs', rfl, hre true⟩
    · rintro ⟨evs, he, hrea⟩
      rw [← map_ev_inj _ _ he] at hrea
      have := (hre true).symm.trans hrea
      simp only [Option.some.injEq] at this
      cases F; cases F'
      simp only at this
      rw [this]
  · rw [hp, hr]
    constructor
    · intro h; cases h
    · rintro ⟨evs, he, _⟩
      exact absurd he.symm (map_ev_ne_err _ _ _)

/-- both parsers fail together, with the same error -/
theorem agree_err (x : Bytes) (e : PErr) :
    parseFile x = .error e ↔
      ∃ evs : List ParseEvent, events x = evs.map SParser.SItem.ev ++ [SParser.SItem.err e] := by
  rw [events_eq_run]
  rcases file_cases x with ⟨F', evs', hp, hr, hre⟩ | ⟨e', evs', extra, hp, hr, _, _⟩
  · rw [hp, hr]
    constructor
    · intro h; cases h
    · rintro ⟨evs, he⟩
      exact absurd he (map_ev_ne_err _ _ _)
  · rw [hp, hr]
    constructor
    · intro h
      cases h
      exact ⟨evs', rfl⟩
    · rintro ⟨evs, he⟩
      rw [(map_ev_err_inj _ _ _ _ he).2]

/-- the events before the error / end form a well-formed prefix of the grammar
    `(MsgStart_nonlist | MsgStart_list n · Entry^n · End)*`; without an error they form a complete
    word of the grammar -/
theorem event_grammar (x : Bytes) :
    ∃ evs : List ParseEvent, (events x = evs.map SParser.SItem.ev ∨
        ∃ e, events x = evs.map SParser.SItem.ev ++ [SParser.SItem.err e]) ∧
      WellFormedPrefix evs ∧
      (events x = evs.map SParser.SItem.ev → WellFormedEvents evs) := by
  rw [events_eq_run]
  rcases file_cases x with ⟨F', evs', hp, hr, hre⟩ | ⟨e, evs', extra, hp, hr, _, hre⟩
  · exact ⟨evs', Or.inl hr, wf_of_reassemble false evs' none _ (hre false),
      fun _ => wf_of_reassemble true evs' none _ (hre true)⟩
  · refine ⟨evs', Or.inr ⟨e, hr⟩, wf_of_reassemble false evs' none _ hre, fun h => ?_⟩
    rw [hr] at h
    exact absurd h.symm (map_ev_ne_err _ _ _)

/-- declarative reading of well-formedness: after `MsgStart_list` announcing `g.numVals` values
    come exactly `g.numVals` value events and one end event, then the next message (`Grammar.list`) -/
theorem wellFormed_iff_grammar (evs : List ParseEvent) : WellFormedEvents evs ↔ Grammar evs :=
  ⟨grammar_of_wf evs.length evs (Nat.le_refl _), wf_of_grammar⟩

/-- a successful run is a word of the grammar -/
theorem events_grammar_ok (x : Bytes) (F : File) (h : parseFile x = .ok F) :
    ∃ evs : List ParseEvent, events x = evs.map SParser.SItem.ev ∧ Grammar evs := by
  obtain ⟨evs, he, hre⟩ := (agree_ok x F).1 h
  exact ⟨evs, he, (wellFormed_iff_grammar evs).1 (wf_of_reassemble true evs none _ hre)⟩

/-- error case: the events before the error reassemble, as a prefix, to the messages the
    allocating parser had completed - plus at most one further message, namely when the error is
    in the trailer (checksum / end marker) of a message whose events were already all emitted -/
theorem error_prefix (x : Bytes) (e : PErr) (h : parseFile x = .error e) :
    ∃ (evs : List ParseEvent) (extra : List Message),
      events x = evs.map SParser.SItem.ev ++ [SParser.SItem.err e] ∧
      extra.length ≤ 1 ∧
      reassemblePrefix evs = some (completedMessages x.length x ++ extra) := by
  rw [events_eq_run]
  rcases file_cases x with ⟨F', evs', hp, hr, hre⟩ | ⟨e', evs', extra, hp, hr, hx, hre⟩
  · rw [hp] at h; cases h
  · rw [hp] at h
    cases h
    exact ⟨evs', extra, hr, hx, hre⟩

/-- on success the completed messages are the file -/
theorem completed_ok (x : Bytes) (F : File) (h : parseFile x = .ok F) :
    completedMessages x.length x = F.messages := by
  unfold parseFile at h
  cases hp : parseMessages x.length x with
  | error e => simp [hp] at h
  | ok ms =>
    simp only [hp, Except.ok.injEq] at h
    rw [← h]
    exact completedMessages_ok _ _ _ hp

/-! ### non-vacuity -/

def glrHead : Bytes :=
  [0x76, 0x05, 0x01, 0x02, 0x03, 0x04, 0x62, 0x00, 0x62, 0x00, 0x72, 0x63, 0x07, 0x01,
   0x77, 0x01, 0x02, 0xaa, 0x01, 0x01]

/-- a valid list response with two values -/
def goodList : Bytes :=
  glrHead ++ [0x72,
    0x77, 0x02, 0xbb, 0x01, 0x01, 0x01, 0x01, 0x62, 0x05, 0x01,
    0x77, 0x02, 0xbc, 0x01, 0x01, 0x01, 0x01, 0x62, 0x06, 0x01,
    0x01, 0x01, 0x63, 0x44, 0x67, 0x00]

/-- a valid close response -/
def goodClose : Bytes :=
  [0x76, 0x05, 0x01, 0x02, 0x03, 0x04, 0x62, 0x00, 0x62, 0x00, 0x72, 0x63, 0x02, 0x01, 0x71, 0x01,
   0x63, 0x10, 0xb4, 0x00]

/-- the same list response with a wrong checksum -/
def badCrcList : Bytes := goodList.take (goodList.length - 2) ++ [0x00, 0x00]

/-- the list response cut inside its second value -/
def cutList : Bytes := goodList.take 35

/-- events of an error-free run -/
def evsOf (l : List SItem) : Option (List ParseEvent) :=
  l.mapM fun | .ev e => some e | .err _ => Option.none

-- two messages (list response, close response): 4 + 1 events, reassembled = the parsed file
example : (events (goodList ++ goodClose)).length = 5 := by decide +kernel
example : ((evsOf (events (goodList ++ goodClose))).bind reassemble) =
    (parseFile (goodList ++ goodClose)).toOption.map (·.messages) := by decide +kernel
example : ((parseFile (goodList ++ goodClose)).toOption.map (·.messages.length)) = some 2 := by
  decide +kernel
example : ((evsOf (events (goodList ++ goodClose))).map fun evs => decide (WellFormedEvents evs)) =
    some true := by decide +kernel
-- errors: same kind in both parsers
example : (events (goodList ++ cutList)).getLast? = some (.err .unexpectedEOF) ∧
    (events (goodList ++ cutList)).length = 7 := by decide +kernel
example : (match parseFile (goodList ++ cutList) with | .error e => some e | .ok _ => Option.none) =
    some .unexpectedEOF := by decide +kernel
-- checksum error after all events of the message: one `extra` message in `error_prefix`
example : (events (goodClose ++ badCrcList)).getLast? = some (.err .crcMismatch) ∧
    (events (goodClose ++ badCrcList)).length = 6 := by decide +kernel
example : ((evsOf ((events (goodClose ++ badCrcList)).dropLast)).bind reassemblePrefix).map
    List.length = some 2 ∧ (completedMessages (goodClose ++ badCrcList).length
      (goodClose ++ badCrcList)).length = 1 := by decide +kernel
-- the grammar rejects a list response with a missing value event
example : ¬ WellFormedEvents
    [.messageStart ⟨[], 0, 0, .getListResponse ⟨none, [], none, none, 1⟩⟩,
     .getListResponseEnd ⟨none, none⟩] := by decide
example : WellFormedPrefix
    [.messageStart ⟨[], 0, 0, .getListResponse ⟨none, [], none, none, 1⟩⟩] := by decide

end Sml.C09

import Sml.Model.Frontends
import Sml.Lemmas.C07
/-
  Shared lemmas about the push decoder `Dec` (Sml/Model/Decode.lean) and its front-ends.

  1. the data-push layer (`pushInner`, `pushZeros`, `flush`, `pushData`, `pushRep`, `pushList`)
     in closed form (`*_eq`): a push either appends to the buffer / zero cache or reports OOM,
     it never panics and never touches `raw`, `crc`, `st`, `buf.cap`;
  2. the state invariant `Dec.Inv` and its preservation by `pushByte`, `push`, `reset`,
     `finalize`, `step`, `run`, `pushAll` — together with "no panic under `Inv`";
  3. `buf.cap` is never changed by any operation (unconditionally);
  4. generic facts about `Dec.run` / `Dec.pushAll` (append, relation between the two);
  5. a state invariant for the iterator encoder (`Enc.EInv`).
-/
namespace Sml

open C07

namespace Dec

/-! ### 1. the data-push layer -/

/-- replace zero cache and buffer contents -/
def setBuf (d : Dec) (zc : Nat) (r : List UInt8) : Dec :=
  { d with zc := zc, buf := { d.buf with rdata := r } }

@[simp] theorem setBuf_raw (d : Dec) (z r) : (d.setBuf z r).raw = d.raw := rfl
@[simp] theorem setBuf_crc (d : Dec) (z r) : (d.setBuf z r).crc = d.crc := rfl
@[simp] theorem setBuf_st (d : Dec) (z r) : (d.setBuf z r).st = d.st := rfl
@[simp] theorem setBuf_zc (d : Dec) (z r) : (d.setBuf z r).zc = z := rfl
@[simp] theorem setBuf_cap (d : Dec) (z r) : (d.setBuf z r).buf.cap = d.buf.cap := rfl
@[simp] theorem setBuf_rdata (d : Dec) (z r) : (d.setBuf z r).buf.rdata = r := rfl
@[simp] theorem setBuf_len (d : Dec) (z r) : (d.setBuf z r).buf.len = r.length := rfl
@[simp] theorem setBuf_setBuf (d : Dec) (z r z' r') :
    (d.setBuf z r).setBuf z' r' = d.setBuf z' r' := rfl
theorem setBuf_self (d : Dec) : d.setBuf d.zc d.buf.rdata = d := rfl

/-- there is room for `n` more bytes in the buffer -/
def room (d : Dec) (n : Nat) : Prop := fitsCap d.buf.cap (d.buf.len + n)

instance (d : Dec) (n : Nat) : Decidable (d.room n) := by unfold room; infer_instance

theorem room_mono {d : Dec} {m n : Nat} (h : d.room n) (hmn : m ≤ n) : d.room m := by
  unfold room fitsCap at *
  cases hc : d.buf.cap with
  | none => simp
  | some c => simp only [hc] at h ⊢; omega

theorem room_zero {d : Dec} (h : d.buf.WF) : d.room 0 := h

@[simp] theorem room_setBuf (d : Dec) (z r n) :
    (d.setBuf z r).room n ↔ fitsCap d.buf.cap (r.length + n) := Iff.rfl

instance (b : Buf) : Decidable b.WF := by unfold Buf.WF; infer_instance

theorem wf_setBuf_of_room {d : Dec} {n : Nat} (h : d.room n) (z : Nat) {r : List UInt8}
    (hr : r.length = d.buf.len + n) : (d.setBuf z r).buf.WF := by
  show fitsCap d.buf.cap r.length
  rw [hr]; exact h

theorem room_of_none {d : Dec} (h : d.buf.cap = none) (n : Nat) : d.room n := by
  unfold room; rw [h]; trivial

theorem pushInner_eq (d : Dec) (b : UInt8) :
    d.pushInner b = if d.room 1 then some (d.setBuf d.zc (b :: d.buf.rdata)) else none := by
  rcases d with ⟨raw, crc, st, zc, ⟨cap, rdata⟩⟩
  unfold pushInner Buf.push Buf.isFull room fitsCap Buf.len setBuf
  cases cap with
  | none => simp
  | some c =>
    by_cases h : c ≤ rdata.length
    · have h' : ¬ (rdata.length + 1 ≤ c) := by omega
      simp [h, h']
    · have h' : rdata.length + 1 ≤ c := by omega
      simp [h, h']

theorem pushZeros_eq (n : Nat) : ∀ (d : Dec), d.buf.WF →
    d.pushZeros n =
      if d.room n then some (d.setBuf d.zc (List.replicate n 0 ++ d.buf.rdata)) else none := by
  induction n with
  | zero =>
    intro d hwf
    rw [if_pos (room_zero hwf)]
    rfl
  | succ n ih =>
    intro d hwf
    unfold pushZeros
    rw [pushInner_eq]
    by_cases h1 : d.room 1
    · rw [if_pos h1]
      simp only
      have hwf' : (d.setBuf d.zc (0 :: d.buf.rdata)).buf.WF := h1
      rw [ih _ hwf']
      have : (d.setBuf d.zc (0 :: d.buf.rdata)).room n ↔ d.room (n + 1) := by
        simp only [room, Buf.len, setBuf, List.length_cons]
        rw [Nat.add_assoc, Nat.add_comm 1 n]
      simp only [this, setBuf_setBuf, setBuf_zc, setBuf_rdata]
      have hl : List.replicate n (0 : UInt8) ++ 0 :: d.buf.rdata
          = List.replicate (n + 1) 0 ++ d.buf.rdata := by
        rw [List.replicate_succ', List.append_assoc]; rfl
      rw [hl]
    · rw [if_neg h1, if_neg (fun h => h1 (room_mono h (by omega)))]

theorem flush_eq {d : Dec} (hwf : d.buf.WF) :
    d.flush =
      if d.room d.zc then some (d.setBuf 0 (List.replicate d.zc 0 ++ d.buf.rdata)) else none := by
  unfold flush
  rw [pushZeros_eq _ _ hwf]
  by_cases h : d.room d.zc
  · simp only [h, if_true]; rfl
  · simp only [h, if_false]

/-- the state after a successful `push(b)` (decode.rs:418-433) -/
def dataStep (d : Dec) (b : UInt8) : Dec :=
  if b = 0 then
    if d.zc ≤ 3 then d.setBuf (d.zc + 1) d.buf.rdata else d.setBuf d.zc (0 :: d.buf.rdata)
  else d.setBuf 0 (b :: (List.replicate d.zc 0 ++ d.buf.rdata))

/-- the number of bytes `push(b)` writes into the buffer -/
def dataNeed (d : Dec) (b : UInt8) : Nat :=
  if b = 0 then (if d.zc ≤ 3 then 0 else 1) else d.zc + 1

/-- `push` in closed form: it never panics -/
theorem pushData_eq {d : Dec} (hwf : d.buf.WF) (b : UInt8) :
    d.pushData b = if d.room (d.dataNeed b) then .ok (d.dataStep b) else .oom := by
  unfold pushData dataNeed dataStep
  by_cases hb : b = 0
  · simp only [hb, if_true]
    by_cases hz : d.zc ≤ 3
    · have : ¬ (d.zc + 1 > 255) := by omega
      simp only [hz, if_true, this, if_false, room_zero hwf]
      rfl
    · simp only [hz, if_false, pushInner_eq]
      by_cases h : d.room 1
      · simp only [h, if_true]
      · simp only [h, if_false]
  · simp only [hb, if_false, flush_eq hwf]
    have e : (d.setBuf 0 (List.replicate d.zc 0 ++ d.buf.rdata)).room 1 ↔ d.room (d.zc + 1) := by
      have e' : (List.replicate d.zc (0 : UInt8) ++ d.buf.rdata).length + 1
          = d.buf.rdata.length + (d.zc + 1) := by simp; omega
      show fitsCap d.buf.cap ((List.replicate d.zc (0 : UInt8) ++ d.buf.rdata).length + 1) ↔ _
      rw [e']; rfl
    by_cases h1 : d.room (d.zc + 1)
    · have h0 : d.room d.zc := room_mono h1 (by omega)
      have h2 := e.2 h1
      simp only [h0, h1, if_true, pushInner_eq, h2]
      rfl
    · simp only [h1, if_false]
      by_cases h0 : d.room d.zc
      · have h2 : ¬ (d.setBuf 0 (List.replicate d.zc 0 ++ d.buf.rdata)).room 1 :=
          fun h => h1 (e.1 h)
        simp only [h0, if_true, pushInner_eq, h2, if_false]
      · simp only [h0, if_false]

/-- a sequence of successful pushes -/
def dataSteps (d : Dec) (l : List UInt8) : Dec := l.foldl dataStep d

@[simp] theorem dataSteps_nil (d : Dec) : d.dataSteps [] = d := rfl
@[simp] theorem dataSteps_cons (d : Dec) (b : UInt8) (l : List UInt8) :
    d.dataSteps (b :: l) = (d.dataStep b).dataSteps l := rfl
theorem dataSteps_append (d : Dec) (l m : List UInt8) :
    d.dataSteps (l ++ m) = (d.dataSteps l).dataSteps m := by
  simp [dataSteps, List.foldl_append]

/-- `d'` is `d` after `k` bytes of data have been accepted: the control part is untouched, the
zero cache stays bounded, and buffer + zero cache have grown by `k` -/
structure Grow (d d' : Dec) (k : Nat) : Prop where
  raw : d'.raw = d.raw
  crc : d'.crc = d.crc
  st : d'.st = d.st
  cap : d'.buf.cap = d.buf.cap
  zc : d.zc ≤ 4 → d'.zc ≤ 4
  len : d'.buf.len + d'.zc = d.buf.len + d.zc + k
  mono : d.buf.len ≤ d'.buf.len

theorem Grow.refl (d : Dec) : Grow d d 0 := ⟨rfl, rfl, rfl, rfl, id, rfl, Nat.le_refl _⟩

theorem Grow.trans {a b c : Dec} {m n : Nat} (h1 : Grow a b m) (h2 : Grow b c n) :
    Grow a c (m + n) :=
  ⟨h2.raw.trans h1.raw, h2.crc.trans h1.crc, h2.st.trans h1.st, h2.cap.trans h1.cap,
    fun h => h2.zc (h1.zc h), by have := h1.len; have := h2.len; omega,
    Nat.le_trans h1.mono h2.mono⟩

theorem grow_dataStep (d : Dec) (b : UInt8) : Grow d (d.dataStep b) 1 := by
  unfold dataStep
  by_cases hb : b = 0
  · by_cases hz : d.zc ≤ 3
    · simp only [hb, hz, if_true]
      exact ⟨rfl, rfl, rfl, rfl, fun _ => by simp; omega, by simp [Buf.len]; omega, by simp [Buf.len]⟩
    · simp only [hb, hz, if_true, if_false]
      exact ⟨rfl, rfl, rfl, rfl, fun h => by simpa using h, by simp [Buf.len]; omega,
        by simp [Buf.len]⟩
  · simp only [hb, if_false]
    exact ⟨rfl, rfl, rfl, rfl, fun _ => by simp, by simp [Buf.len]; omega,
      by simp [Buf.len]; omega⟩

theorem grow_dataSteps (l : List UInt8) : ∀ d : Dec, Grow d (d.dataSteps l) l.length := by
  induction l with
  | nil => intro d; exact Grow.refl d
  | cons b l ih =>
    intro d
    have := (grow_dataStep d b).trans (ih (d.dataStep b))
    rw [List.length_cons, Nat.add_comm]
    exact this

/-- the bytes accepted so far, newest first: buffer contents plus the cached zeros -/
def pending (d : Dec) : List UInt8 := List.replicate d.zc 0 ++ d.buf.rdata

theorem pending_dataStep (d : Dec) (b : UInt8) : (d.dataStep b).pending = b :: d.pending := by
  unfold dataStep pending
  by_cases hb : b = 0
  · by_cases hz : d.zc ≤ 3
    · simp [hb, hz, List.replicate_succ]
    · simp only [hb, hz, if_true, if_false, setBuf_zc, setBuf_rdata]
      rw [← List.cons_append, ← List.replicate_succ, List.replicate_succ', List.append_assoc]
      rfl
  · simp [hb]

theorem pending_dataSteps (l : List UInt8) : ∀ d : Dec,
    (d.dataSteps l).pending = l.reverse ++ d.pending := by
  induction l with
  | nil => intro d; rfl
  | cons b l ih => intro d; simp [ih, pending_dataStep]

theorem room_dataNeed_iff (d : Dec) (b : UInt8) :
    d.room (d.dataNeed b) ↔ (d.dataStep b).buf.WF := by
  unfold dataNeed dataStep room Buf.WF
  by_cases hb : b = 0
  · by_cases hz : d.zc ≤ 3
    · simp [hb, hz, Buf.len]
    · simp [hb, hz, Buf.len]
  · simp only [hb, if_false]
    have : d.buf.rdata.length + (d.zc + 1)
        = (b :: (List.replicate d.zc (0 : UInt8) ++ d.buf.rdata)).length := by simp; omega
    show fitsCap d.buf.cap (d.buf.rdata.length + (d.zc + 1)) ↔
      fitsCap d.buf.cap (b :: (List.replicate d.zc (0 : UInt8) ++ d.buf.rdata)).length
    rw [this]

theorem wf_of_grow {d d' : Dec} {k : Nat} (h : Grow d d' k) (hwf : d'.buf.WF) : d.buf.WF := by
  unfold Buf.WF fitsCap at *
  rw [h.cap] at hwf
  have := h.mono
  cases hc : d.buf.cap with
  | none => trivial
  | some c => simp only [hc] at hwf ⊢; omega

/-- a sequence of pushes in closed form: all bytes are accepted if the result fits the buffer,
otherwise out-of-memory is reported; no panic -/
theorem pushList_eq (l : List UInt8) : ∀ {d : Dec}, d.buf.WF →
    d.pushList l = if (d.dataSteps l).buf.WF then .ok (d.dataSteps l) else .oom := by
  induction l with
  | nil =>
    intro d hwf
    simp only [dataSteps_nil, hwf, if_true]
    rfl
  | cons b l ih =>
    intro d hwf
    unfold pushList
    rw [pushData_eq hwf, dataSteps_cons]
    by_cases h : d.room (d.dataNeed b)
    · simp only [h, if_true]
      exact ih ((room_dataNeed_iff d b).1 h)
    · simp only [h, if_false]
      rw [if_neg]
      intro hw
      exact h ((room_dataNeed_iff d b).2 (wf_of_grow (grow_dataSteps l _) hw))

theorem pushData_eq_pushList (d : Dec) (b : UInt8) : d.pushData b = d.pushList [b] := by
  unfold pushList pushList
  cases d.pushData b <;> rfl

theorem pushRep_eq_pushList (x : UInt8) (n : Nat) : ∀ d : Dec,
    d.pushRep x n = d.pushList (List.replicate n x) := by
  induction n with
  | zero => intro d; rfl
  | succ n ih =>
    intro d
    rw [List.replicate_succ]
    unfold pushRep pushList
    cases d.pushData x with
    | ok d' => exact ih d'
    | oom => rfl
    | panic s => rfl

/-! ### 2. the state invariant -/

/-- The invariant of the push decoder.  `raw` counts the bytes of the current (candidate)
transmission, so everything stored (`buf.len`), cached (`zc`) or pending in an escape sequence is
bounded by it. -/
def Inv (d : Dec) : Prop :=
  d.zc ≤ 4 ∧ d.buf.WF ∧
  match d.st with
  | .look disc init => init ≤ 7 ∧ d.zc = 0 ∧ d.buf.rdata = [] ∧ d.raw = disc + init
  | .normal => d.buf.len + d.zc + 8 ≤ d.raw
  | .escChars n => 1 ≤ n ∧ n ≤ 3 ∧ d.buf.len + d.zc + n + 8 ≤ d.raw
  | .escPayload step _ => step ≤ 3 ∧ d.buf.len + d.zc + step + 12 ≤ d.raw
  | .done => d.buf.len + 16 ≤ d.raw

theorem Inv.zc_le {d : Dec} (h : Inv d) : d.zc ≤ 4 := h.1
theorem Inv.wf {d : Dec} (h : Inv d) : d.buf.WF := h.2.1

theorem Inv.look {d : Dec} (h : Inv d) {disc init : Nat} (hs : d.st = .look disc init) :
    init ≤ 7 ∧ d.zc = 0 ∧ d.buf.rdata = [] ∧ d.raw = disc + init := by
  have := h.2.2; rw [hs] at this; exact this

theorem Inv.normal {d : Dec} (h : Inv d) (hs : d.st = .normal) :
    d.buf.len + d.zc + 8 ≤ d.raw := by
  have := h.2.2; rw [hs] at this; exact this

theorem Inv.escChars {d : Dec} (h : Inv d) {n : Nat} (hs : d.st = .escChars n) :
    1 ≤ n ∧ n ≤ 3 ∧ d.buf.len + d.zc + n + 8 ≤ d.raw := by
  have := h.2.2; rw [hs] at this; exact this

theorem Inv.escPayload {d : Dec} (h : Inv d) {step : Nat} {q : Quad}
    (hs : d.st = .escPayload step q) : step ≤ 3 ∧ d.buf.len + d.zc + step + 12 ≤ d.raw := by
  have := h.2.2; rw [hs] at this; exact this

theorem Inv.done {d : Dec} (h : Inv d) (hs : d.st = .done) : d.buf.len + 16 ≤ d.raw := by
  have := h.2.2; rw [hs] at this; exact this

/-- outside `LookingForMessageStart` the start sequence has been counted -/
theorem Inv.raw_ge {d : Dec} (h : Inv d) (hs : ∀ disc init, d.st ≠ .look disc init) :
    8 ≤ d.raw := by
  have := h.2.2
  cases hst : d.st with
  | look disc init => exact absurd hst (hs disc init)
  | normal => rw [hst] at this; simp only at this; omega
  | escChars n => rw [hst] at this; simp only at this; omega
  | escPayload step q => rw [hst] at this; simp only at this; omega
  | done => rw [hst] at this; simp only at this; omega

/-- everything stored or cached is bounded by the number of bytes consumed -/
theorem Inv.len_le_raw {d : Dec} (h : Inv d) : d.buf.len + d.zc ≤ d.raw := by
  have hz := h.1
  have := h.2.2
  cases hst : d.st with
  | look disc init =>
    rw [hst] at this; simp only at this
    simp [Buf.len, this.2.1, this.2.2.1]
  | normal => rw [hst] at this; simp only at this; omega
  | escChars n => rw [hst] at this; simp only at this; omega
  | escPayload step q => rw [hst] at this; simp only at this; omega
  | done => rw [hst] at this; simp only at this; omega

theorem wf_clear (b : Buf) : b.clear.WF := by
  unfold Buf.WF fitsCap Buf.clear Buf.len
  cases b.cap <;> simp

theorem inv_fresh (cap : Option Nat) : Inv (fresh cap) := by
  refine ⟨Nat.zero_le _, Buf.wf_new cap, ?_⟩
  simp [fresh, Buf.new]

/-- `reset` establishes the invariant from any state -/
theorem inv_reset (d : Dec) : Inv d.reset.1 := by
  refine ⟨Nat.zero_le _, wf_clear _, ?_⟩
  simp [reset, Buf.clear]

theorem inv_finalize (d : Dec) : Inv d.finalize.1 := inv_reset d

/-- the result of `_push_byte` is acceptable: the new state satisfies the invariant and the
outcome is not a panic; the buffer capacity is `c`, and `raw` is at most `B` -/
def Good (c : Option Nat) (B : Nat) (x : Dec × Res) : Prop :=
  Inv x.1 ∧ x.1.buf.cap = c ∧ x.1.raw ≤ B ∧ ∀ s, x.2 ≠ .panic s

theorem Good.mono {c : Option Nat} {B B' : Nat} {x : Dec × Res} (h : Good c B x) (hB : B ≤ B') :
    Good c B' x := ⟨h.1, h.2.1, Nat.le_trans h.2.2.1 hB, h.2.2.2⟩

theorem afterPush_pushList_good {c : Option Nat} {B : Nat} {d0 d : Dec} {l : List UInt8}
    {k : Dec → Dec × Res} (hwf : d.buf.WF) (h0 : d0.buf.cap = c)
    (hk : (d.dataSteps l).buf.WF → Good c B (k (d.dataSteps l))) :
    Good c B (afterPush d0 (d.pushList l) k) := by
  rw [pushList_eq l hwf]
  by_cases h : (d.dataSteps l).buf.WF
  · simp only [h, if_true, afterPush]
    exact hk h
  · simp only [h, if_false, afterPush]
    exact ⟨inv_reset d0, h0, Nat.zero_le _, fun s => by simp⟩

theorem pushLook_good {d : Dec} {disc init : Nat} (b : UInt8) (hz : d.zc = 0)
    (hwf : d.buf.WF) (hr : d.buf.rdata = []) (hi : init ≤ 7) (hraw : d.raw = disc + init + 1) :
    Good d.buf.cap d.raw (pushLook d disc init b) := by
  unfold pushLook
  by_cases hc : (b = 0x1b ∧ init < 4) ∨ (b = 0x01 ∧ init ≥ 4)
  · have h255 : ¬ (init + 1 > 255) := by omega
    simp only [hc, if_true, h255, if_false]
    by_cases h8 : init + 1 = 8
    · simp only [h8, if_true]
      have hI : Inv { d with st := .normal, raw := 8, crc := startCrc } :=
        ⟨by simp [hz], hwf, by simp [Buf.len, hr, hz]⟩
      by_cases hd : disc > 0
      · simp only [hd, if_true]; exact ⟨hI, (by first | rfl | exact g.cap), (by first | exact Nat.le_refl _ | exact Nat.zero_le _ | (have := g.raw; simp only at this ⊢; omega) | (simp only; omega)), fun s => by simp⟩
      · simp only [hd, if_false]; exact ⟨hI, (by first | rfl | exact g.cap), (by first | exact Nat.le_refl _ | exact Nat.zero_le _ | (have := g.raw; simp only at this ⊢; omega) | (simp only; omega)), fun s => by simp⟩
    · simp only [h8, if_false]
      refine ⟨⟨by simp [hz], hwf, ?_⟩, (by first | rfl | exact g.cap), (by first | exact Nat.le_refl _ | exact Nat.zero_le _ | (have := g.raw; simp only at this ⊢; omega) | (simp only; omega)), fun s => by simp⟩
      simp only
      exact ⟨by omega, hz, hr, by omega⟩
  · simp only [hc, if_false]
    have hkeep : (if b = 0x1b then (if init = 4 then 4 else 1) else 0 : Nat) ≤ 1 + init ∧
        (if b = 0x1b then (if init = 4 then 4 else 1) else 0 : Nat) ≤ 4 := by
      by_cases hb : b = 0x1b
      · by_cases h4 : init = 4
        · simp [hb, h4]
        · simp [hb, h4]
      · simp [hb]
    have hlt : ¬ (1 + init < (if b = 0x1b then (if init = 4 then 4 else 1) else 0 : Nat)) := by
      omega
    simp only [hlt, if_false]
    refine ⟨⟨by simp [hz], hwf, ?_⟩, (by first | rfl | exact g.cap), (by first | exact Nat.le_refl _ | exact Nat.zero_le _ | (have := g.raw; simp only at this ⊢; omega) | (simp only; omega)), fun s => by simp⟩
    simp only
    exact ⟨by omega, hz, hr, by omega⟩

theorem pushEnd_good {d : Dec} (q : Quad) (hwf : d.buf.WF)
    (hlen : d.buf.len + d.zc + 16 ≤ d.raw) : Good d.buf.cap d.raw (pushEnd d q) := by
  unfold pushEnd
  simp only
  split
  · exact ⟨inv_reset _, (by first | rfl | exact g.cap), (by first | exact Nat.le_refl _ | exact Nat.zero_le _ | (have := g.raw; simp only at this ⊢; omega) | (simp only; omega)), fun s => by simp⟩
  · next hbad =>
    simp only [Bool.or_eq_true, not_or, decide_eq_true_eq] at hbad
    have hpad : q.b.toNat ≤ d.zc := by
      have := hbad.2; omega
    have hlt : ¬ (d.zc < q.b.toNat) := by omega
    simp only [hlt, if_false]
    rw [flush_eq (d := { d with crc := crcInit, zc := d.zc - q.b.toNat }) hwf]
    by_cases hroom : ({ d with crc := crcInit, zc := d.zc - q.b.toNat } : Dec).room (d.zc - q.b.toNat)
    · simp only [hroom, if_true]
      refine ⟨⟨by simp, wf_setBuf_of_room hroom 0 (by simp [Buf.len]; omega), ?_⟩, rfl,
        Nat.le_refl _, fun s => by simp⟩
      simp only [setBuf_len, List.length_append, List.length_replicate]
      simp only [Buf.len] at hlen
      show d.zc - q.b.toNat + d.buf.rdata.length + 16 ≤ d.raw
      omega
    · simp only [hroom, if_false]
      exact ⟨inv_reset _, (by first | rfl | exact g.cap), (by first | exact Nat.le_refl _ | exact Nat.zero_le _ | (have := g.raw; simp only at this ⊢; omega) | (simp only; omega)), fun s => by simp⟩

theorem pushEscComplete_good {d : Dec} (q : Quad) (hz : d.zc ≤ 4) (hwf : d.buf.WF)
    (hlen : d.buf.len + d.zc + 16 ≤ d.raw) : Good d.buf.cap d.raw (pushEscComplete d q) := by
  unfold pushEscComplete
  by_cases h1 : q = ⟨0x1b, 0x1b, 0x1b, 0x1b⟩
  · simp only [h1, if_true]
    refine afterPush_pushList_good (by exact hwf) rfl ?_
    intro hwf'
    have g := grow_dataSteps (Quad.toList ⟨0x1b, 0x1b, 0x1b, 0x1b⟩)
      { d with crc := crcUpdate d.crc (Quad.toList ⟨0x1b, 0x1b, 0x1b, 0x1b⟩) }
    refine ⟨⟨g.zc hz, hwf', ?_⟩, (by first | rfl | exact g.cap), (by first | exact Nat.le_refl _ | exact Nat.zero_le _ | (have := g.raw; simp only at this ⊢; omega) | (simp only; omega)), fun s => by simp⟩
    have h1 := g.len
    have h2 := g.raw
    simp only [Quad.toList, List.length_cons, List.length_nil] at h1 h2 ⊢
    omega
  · simp only [h1, if_false]
    by_cases h2 : q = ⟨0x01, 0x01, 0x01, 0x01⟩
    · have h8 : ¬ (d.raw < 8) := by omega
      simp only [h2, if_true, h8, if_false]
      exact ⟨⟨by simp, wf_clear _, by simp [Buf.clear, Buf.len]⟩, (by first | rfl | exact g.cap), (by first | exact Nat.le_refl _ | exact Nat.zero_le _ | (have := g.raw; simp only at this ⊢; omega) | (simp only; omega)), fun s => by simp⟩
    · simp only [h2, if_false]
      by_cases h3 : q.a = 0x1a
      · simp only [h3, if_true]
        exact pushEnd_good q hwf hlen
      · simp only [h3, if_false]
        split
        · next hk =>
          have hk3 : (4 - d.raw % 4) % 4 ≤ 3 := by omega
          rw [pushRep_eq_pushList]
          refine afterPush_pushList_good (by exact hwf) rfl ?_
          intro hwf'
          have g := grow_dataSteps (List.replicate ((4 - d.raw % 4) % 4) 0x1b)
            { d with crc := crcUpdate d.crc (q.toList.take ((4 - d.raw % 4) % 4)) }
          refine ⟨⟨g.zc hz, hwf', ?_⟩, (by first | rfl | exact g.cap), (by first | exact Nat.le_refl _ | exact Nat.zero_le _ | (have := g.raw; simp only at this ⊢; omega) | (simp only; omega)), fun s => by simp⟩
          have h1 := g.len
          have h2 := g.raw
          simp only [List.length_replicate] at h1 h2 ⊢
          have := hk.1
          omega
        · exact ⟨inv_reset _, (by first | rfl | exact g.cap), (by first | exact Nat.le_refl _ | exact Nat.zero_le _ | (have := g.raw; simp only at this ⊢; omega) | (simp only; omega)), fun s => by simp⟩

/-- `_push_byte` preserves the invariant and never panics -/
theorem pushByte_good {d : Dec} (h : Inv d) (b : UInt8) : Good d.buf.cap (d.raw + 1) (d.pushByte b) := by
  obtain ⟨hz, hwf, hst⟩ := h
  rcases d with ⟨raw, crc, st, zc, buf⟩
  simp only at hz hwf hst
  cases st with
  | look disc init =>
    simp only at hst
    simp only [pushByte]
    exact pushLook_good b hst.2.1 hwf hst.2.2.1 hst.1 (by simp [hst.2.2.2])
  | done =>
    simp only [pushByte, reset]
    exact (pushLook_good (disc := 0) (init := 0) b rfl (wf_clear _) rfl (by omega) rfl).mono
      (by simp)
  | normal =>
    simp only at hst
    simp only [pushByte]
    by_cases hb : b = 0x1b
    · simp only [hb, if_true]
      exact ⟨⟨hz, hwf, by simp only; omega⟩, (by first | rfl | exact g.cap), (by first | exact Nat.le_refl _ | exact Nat.zero_le _ | (have := g.raw; simp only at this ⊢; omega) | (simp only; omega)), fun s => by simp⟩
    · simp only [hb, if_false]
      rw [pushData_eq_pushList]
      refine afterPush_pushList_good (by exact hwf) rfl ?_
      intro hwf'
      have g := grow_dataSteps [b]
        { raw := raw + 1, crc := crcByte crc b, st := .normal, zc := zc, buf := buf }
      refine ⟨⟨g.zc hz, hwf', ?_⟩, (by first | rfl | exact g.cap), (by first | exact Nat.le_refl _ | exact Nat.zero_le _ | (have := g.raw; simp only at this ⊢; omega) | (simp only; omega)), fun s => by simp⟩
      have h1 := g.len
      have h2 := g.raw
      have h3 := g.st
      simp only [List.length_cons, List.length_nil] at h1 h2 h3
      rw [h3]
      simp only
      omega
  | escChars n =>
    simp only at hst
    simp only [pushByte]
    by_cases hb : b = 0x1b
    · simp only [hb, ne_eq, not_true_eq_false, if_false]
      by_cases h3 : n = 3
      · simp only [h3, if_true]
        exact ⟨⟨hz, hwf, by simp only; omega⟩, (by first | rfl | exact g.cap), (by first | exact Nat.le_refl _ | exact Nat.zero_le _ | (have := g.raw; simp only at this ⊢; omega) | (simp only; omega)), fun s => by simp⟩
      · have h255 : ¬ (n + 1 > 255) := by omega
        simp only [h3, if_false, h255]
        exact ⟨⟨hz, hwf, by simp only; omega⟩, (by first | rfl | exact g.cap), (by first | exact Nat.le_refl _ | exact Nat.zero_le _ | (have := g.raw; simp only at this ⊢; omega) | (simp only; omega)), fun s => by simp⟩
    · simp only [ne_eq, hb, not_false_eq_true, if_true]
      rw [pushRep_eq_pushList]
      refine afterPush_pushList_good (by exact hwf) rfl ?_
      intro hwf1
      have g1 := grow_dataSteps (List.replicate n 0x1b)
        { raw := raw + 1, crc := crcByte crc b, st := .escChars n, zc := zc, buf := buf }
      rw [pushData_eq_pushList]
      refine afterPush_pushList_good hwf1 rfl ?_
      intro hwf2
      have g2 := grow_dataSteps [b] (dataSteps
        { raw := raw + 1, crc := crcByte crc b, st := .escChars n, zc := zc, buf := buf }
        (List.replicate n 0x1b))
      have g := g1.trans g2
      refine ⟨⟨g.zc hz, hwf2, ?_⟩, (by first | rfl | exact g.cap), (by first | exact Nat.le_refl _ | exact Nat.zero_le _ | (have := g.raw; simp only at this ⊢; omega) | (simp only; omega)), fun s => by simp⟩
      have h1 := g.len
      have h2 := g.raw
      simp only [List.length_cons, List.length_nil, List.length_replicate] at h1 h2 ⊢
      omega
  | escPayload step q =>
    simp only at hst
    simp only [pushByte]
    have hset : ∃ q', q.set step b = some q' := by
      have : step = 0 ∨ step = 1 ∨ step = 2 ∨ step = 3 := by omega
      rcases this with rfl | rfl | rfl | rfl <;> exact ⟨_, rfl⟩
    obtain ⟨q', hq'⟩ := hset
    simp only [hq']
    by_cases h3 : step < 3
    · simp only [h3, if_true]
      exact ⟨⟨hz, hwf, by simp only; omega⟩, (by first | rfl | exact g.cap), (by first | exact Nat.le_refl _ | exact Nat.zero_le _ | (have := g.raw; simp only at this ⊢; omega) | (simp only; omega)), fun s => by simp⟩
    · simp only [h3, if_false]
      exact pushEscComplete_good q' hz hwf (by simp only; omega)

/-! ### 3. classification of the outcomes of `_push_byte` (no hypothesis on the state) -/

/-- the state `reset` leaves behind (up to `crc` and `buf.cap`) -/
def IsReset (d : Dec) : Prop := d.st = .look 0 0 ∧ d.raw = 0 ∧ d.zc = 0 ∧ d.buf.rdata = []

theorem isReset_reset (d : Dec) : IsReset d.reset.1 := ⟨rfl, rfl, rfl, rfl⟩

/-- `Ok(true)` is only returned in state `Done`; every error other than `DiscardedBytes` is
returned after a `reset` -/
def Post (x : Dec × Res) : Prop :=
  match x.2 with
  | .ready => x.1.st = .done
  | .err e => (∀ n, e ≠ .discarded n) → IsReset x.1
  | _ => True

theorem post_afterPush (d0 : Dec) (r : PushRes) {k : Dec → Dec × Res} (hk : ∀ d, Post (k d)) :
    Post (afterPush d0 r k) := by
  cases r with
  | ok d => exact hk d
  | oom => exact fun _ => isReset_reset d0
  | panic s => trivial

theorem post_pushLook (d : Dec) (disc init : Nat) (b : UInt8) : Post (pushLook d disc init b) := by
  unfold pushLook
  dsimp only
  repeat' split
  all_goals first
    | trivial
    | exact fun h => absurd rfl (h _)

theorem post_pushEnd (d : Dec) (q : Quad) : Post (pushEnd d q) := by
  unfold pushEnd
  simp only
  repeat' split
  all_goals first
    | trivial
    | rfl
    | exact fun _ => isReset_reset _

theorem post_pushEscComplete (d : Dec) (q : Quad) : Post (pushEscComplete d q) := by
  unfold pushEscComplete
  dsimp only
  split
  · exact post_afterPush _ _ fun _ => trivial
  · split
    · split
      · trivial
      · exact fun h => absurd rfl (h _)
    · split
      · exact post_pushEnd d q
      · split
        · exact post_afterPush _ _ fun _ => trivial
        · exact fun _ => isReset_reset _

theorem post_pushByte (d : Dec) (b : UInt8) : Post (d.pushByte b) := by
  unfold pushByte
  simp only
  split
  · exact post_pushLook _ _ _ _
  · split
    · trivial
    · exact post_afterPush _ _ fun _ => trivial
  · split
    · exact post_afterPush _ _ fun _ => post_afterPush _ _ fun _ => trivial
    · split
      · trivial
      · split <;> trivial
  · split
    · trivial
    · split
      · trivial
      · exact post_pushEscComplete _ _
  · trivial

theorem pushByte_ready {d d' : Dec} {b : UInt8} (h : d.pushByte b = (d', .ready)) :
    d'.st = .done := by
  have := post_pushByte d b
  rw [h] at this
  exact this

theorem pushByte_err {d d' : Dec} {b : UInt8} {e : DecErr} (h : d.pushByte b = (d', .err e))
    (he : ∀ n, e ≠ .discarded n) : IsReset d' := by
  have := post_pushByte d b
  rw [h] at this
  exact this he

/-! ### 4. `Decoder::push_byte`, histories, front-end loops -/

/-- `Decoder::push_byte` in terms of `_push_byte` -/
theorem push_eq (d : Dec) (b : UInt8) :
    d.push b = ((d.pushByte b).1,
      match (d.pushByte b).2 with
      | .more => Out.none
      | .ready => .msg (d.pushByte b).1.buf.data
      | .err e => .err e
      | .panic s => .panic s) := by
  unfold push
  rcases h : d.pushByte b with ⟨d', r⟩
  cases r with
  | more => rfl
  | ready =>
    have := pushByte_ready h
    simp [borrowBuf, isDone, this]
  | err e => rfl
  | panic s => rfl

theorem push_fst (d : Dec) (b : UInt8) : (d.push b).1 = (d.pushByte b).1 := by
  rw [push_eq]

theorem push_inv {d : Dec} (h : Inv d) (b : UInt8) : Inv (d.push b).1 := by
  rw [push_fst]; exact (pushByte_good h b).1

theorem push_cap {d : Dec} (h : Inv d) (b : UInt8) : (d.push b).1.buf.cap = d.buf.cap := by
  rw [push_fst]; exact (pushByte_good h b).2.1

theorem pushByte_raw_le {d : Dec} (h : Inv d) (b : UInt8) : (d.pushByte b).1.raw ≤ d.raw + 1 :=
  (pushByte_good h b).2.2.1

theorem pushByte_no_panic {d : Dec} (h : Inv d) (b : UInt8) (s : String) :
    (d.pushByte b).2 ≠ .panic s := (pushByte_good h b).2.2.2 s

theorem push_no_panic {d : Dec} (h : Inv d) (b : UInt8) (s : String) :
    (d.push b).2 ≠ .panic s := by
  rw [push_eq]
  have := pushByte_no_panic h b
  cases hr : (d.pushByte b).2 with
  | more => simp
  | ready => simp
  | err e => simp
  | panic s' => exact absurd hr (this s')

theorem reset_cap (d : Dec) : d.reset.1.buf.cap = d.buf.cap := rfl
theorem finalize_cap (d : Dec) : d.finalize.1.buf.cap = d.buf.cap := rfl

/-- `Decoder::from_buf(buf)` clears the buffer: whatever it held, the result is a new decoder
over a buffer of that capacity -/
theorem fromBuf_eq_fresh (cap : Option Nat) (r : List UInt8) :
    fromBuf { cap := cap, rdata := r } = fresh cap := rfl

theorem step_new (d : Dec) : d.step .new = (fresh d.buf.cap, .new) := rfl

theorem step_fromBuf (d : Dec) (stale : List UInt8) :
    d.step (.fromBuf stale) = (fresh d.buf.cap, .fromBuf) := rfl

theorem step_inv {d : Dec} (h : Inv d) (op : Op) : Inv (d.step op).1 := by
  cases op with
  | push b => exact push_inv h b
  | fin => exact inv_finalize d
  | reset => exact inv_reset d
  | new => exact inv_fresh d.buf.cap
  | fromBuf stale => exact inv_fresh d.buf.cap

theorem step_cap {d : Dec} (h : Inv d) (op : Op) : (d.step op).1.buf.cap = d.buf.cap := by
  cases op with
  | push b => exact push_cap h b
  | fin => rfl
  | reset => rfl
  | new => rfl
  | fromBuf stale => rfl

theorem step_no_panic {d : Dec} (h : Inv d) (op : Op) (s : String) :
    (d.step op).2 ≠ .out (.panic s) := by
  cases op with
  | push b =>
    have := push_no_panic h b s
    intro hc
    apply this
    simpa [step] using hc
  | fin => simp [step]
  | reset => simp [step]
  | new => simp [step]
  | fromBuf stale => simp [step]

theorem run_nil (d : Dec) : d.run [] = (d, []) := rfl

theorem run_cons (d : Dec) (op : Op) (ops : List Op) :
    d.run (op :: ops) = (((d.step op).1.run ops).1, (d.step op).2 :: ((d.step op).1.run ops).2) :=
  rfl

theorem run_append (ops1 : List Op) : ∀ (d : Dec) (ops2 : List Op),
    d.run (ops1 ++ ops2) =
      (((d.run ops1).1.run ops2).1, (d.run ops1).2 ++ ((d.run ops1).1.run ops2).2) := by
  induction ops1 with
  | nil => intro d ops2; rfl
  | cons op ops ih =>
    intro d ops2
    rw [List.cons_append, run_cons, ih, run_cons]
    rfl

theorem run_inv (ops : List Op) : ∀ {d : Dec}, Inv d → Inv (d.run ops).1 := by
  induction ops with
  | nil => intro d h; exact h
  | cons op ops ih => intro d h; rw [run_cons]; exact ih (step_inv h op)

theorem run_cap (ops : List Op) : ∀ {d : Dec}, Inv d → (d.run ops).1.buf.cap = d.buf.cap := by
  induction ops with
  | nil => intro d h; rfl
  | cons op ops ih =>
    intro d h; rw [run_cons]; exact (ih (step_inv h op)).trans (step_cap h op)

theorem run_no_panic (ops : List Op) : ∀ {d : Dec}, Inv d →
    ∀ o ∈ (d.run ops).2, ∀ s, o ≠ OpOut.out (Out.panic s) := by
  induction ops with
  | nil => intro d h o ho; simp [run_nil] at ho
  | cons op ops ih =>
    intro d h o ho s
    rw [run_cons] at ho
    rcases List.mem_cons.1 ho with rfl | ho
    · exact step_no_panic h op s
    · exact ih (step_inv h op) o ho s

theorem run_length (ops : List Op) : ∀ d : Dec, (d.run ops).2.length = ops.length := by
  induction ops with
  | nil => intro d; rfl
  | cons op ops ih => intro d; rw [run_cons]; simp [ih]

theorem pushAll_nil (d : Dec) : d.pushAll [] = (d, []) := rfl

theorem pushAll_cons (d : Dec) (b : UInt8) (bs : List UInt8) :
    d.pushAll (b :: bs) =
      (((d.push b).1.pushAll bs).1, (d.push b).2 :: ((d.push b).1.pushAll bs).2) := rfl

/-- feeding bytes is the history of `push_byte` calls -/
theorem pushAll_eq_run (s : List UInt8) : ∀ d : Dec,
    (d.pushAll s).1 = (d.run (s.map Op.push)).1 ∧
    (d.pushAll s).2.map OpOut.out = (d.run (s.map Op.push)).2 := by
  induction s with
  | nil => intro d; exact ⟨rfl, rfl⟩
  | cons b bs ih =>
    intro d
    rw [pushAll_cons, List.map_cons, run_cons]
    have := ih (d.push b).1
    exact ⟨this.1, by simp only [List.map_cons, this.2]; rfl⟩

theorem pushAll_append (s1 : List UInt8) : ∀ (d : Dec) (s2 : List UInt8),
    d.pushAll (s1 ++ s2) =
      (((d.pushAll s1).1.pushAll s2).1, (d.pushAll s1).2 ++ ((d.pushAll s1).1.pushAll s2).2) := by
  induction s1 with
  | nil => intro d s2; rfl
  | cons b bs ih =>
    intro d s2
    rw [List.cons_append, pushAll_cons, ih, pushAll_cons]
    rfl

theorem pushAll_inv (s : List UInt8) {d : Dec} (h : Inv d) : Inv (d.pushAll s).1 := by
  rw [(pushAll_eq_run s d).1]; exact run_inv _ h

theorem pushAll_cap (s : List UInt8) {d : Dec} (h : Inv d) :
    (d.pushAll s).1.buf.cap = d.buf.cap := by
  rw [(pushAll_eq_run s d).1]; exact run_cap _ h

theorem pushAll_no_panic (s : List UInt8) {d : Dec} (h : Inv d) :
    ∀ o ∈ (d.pushAll s).2, ∀ t, o ≠ Out.panic t := by
  intro o ho t hc
  have hm : OpOut.out o ∈ (d.run (s.map Op.push)).2 := by
    rw [← (pushAll_eq_run s d).2]; exact List.mem_map_of_mem ho
  exact run_no_panic _ h _ hm t (by rw [hc])

theorem pushAll_length (s : List UInt8) : ∀ d : Dec, (d.pushAll s).2.length = s.length := by
  induction s with
  | nil => intro d; rfl
  | cons b bs ih => intro d; rw [pushAll_cons]; simp [ih]

/-- what `finalize` reports at end of input, as an item of the list / iterator front-ends -/
def finItems (d : Dec) : List Item :=
  match d.finalize.2 with
  | some e => [Item.err e]
  | none => []

/-- the items a byte string produces from state `d`: one per non-`None` result of `push_byte`,
then the result of `finalize` -/
def allItems (d : Dec) (s : List UInt8) : List Item :=
  (d.pushAll s).2.filterMap Out.toItem? ++ (d.pushAll s).1.finItems

theorem allItems_nil (d : Dec) : d.allItems [] = d.finItems := rfl

theorem allItems_cons (d : Dec) (b : UInt8) (bs : List UInt8) :
    d.allItems (b :: bs) =
      (match (d.push b).2.toItem? with | some x => [x] | none => []) ++ (d.push b).1.allItems bs := by
  unfold allItems
  rw [pushAll_cons]
  cases h : (d.push b).2.toItem? <;> simp [h]

theorem finItems_length_le (d : Dec) : d.finItems.length ≤ 1 := by
  unfold finItems; split <;> simp

/-- at most one item per byte, plus one for `finalize` -/
theorem allItems_length_le (d : Dec) (s : List UInt8) : (d.allItems s).length ≤ s.length + 1 := by
  unfold allItems
  have h1 := List.length_filterMap_le Out.toItem? (d.pushAll s).2
  have h2 := finItems_length_le (d.pushAll s).1
  rw [pushAll_length] at h1
  rw [List.length_append]
  omega

/-- `finalize` reports nothing or a `DiscardedBytes` error -/
theorem finalize_cases (d : Dec) :
    d.finalize.2 = none ∨ d.finalize.2 = some (.discarded d.raw) := by
  unfold finalize
  simp only
  split
  · exact Or.inl rfl
  · exact Or.inl rfl
  · exact Or.inr rfl

/-- `finalize` and `reset` report the same count -/
theorem finalize_eq_reset {d : Dec} (h : Inv d) :
    d.finalize.2 = if d.reset.2 = 0 then none else some (.discarded d.reset.2) := by
  have hraw := h.raw_ge
  have hl := fun disc init => h.look (disc := disc) (init := init)
  rcases d with ⟨raw, crc, st, zc, buf⟩
  cases st with
  | look disc init =>
    have := hl disc init rfl
    simp only at this
    cases disc with
    | zero =>
      cases init with
      | zero => simp [finalize, reset, this.2.2.2]
      | succ i => simp [finalize, reset, this.2.2.2]
    | succ k => simp [finalize, reset, this.2.2.2]
  | normal =>
    have := hraw (by simp); simp only at this
    have h0 : ¬ (raw = 0) := by omega
    simp [finalize, reset, h0]
  | escChars n =>
    have := hraw (by simp); simp only at this
    have h0 : ¬ (raw = 0) := by omega
    simp [finalize, reset, h0]
  | escPayload step q =>
    have := hraw (by simp); simp only at this
    have h0 : ¬ (raw = 0) := by omega
    simp [finalize, reset, h0]
  | done => simp [finalize, reset]

/-- a `DiscardedBytes` error reported by `finalize` never carries the count 0 -/
theorem finalize_discarded_pos {d : Dec} (h : Inv d) {n : Nat}
    (hf : d.finalize.2 = some (.discarded n)) : 0 < n := by
  rw [finalize_eq_reset h] at hf
  split at hf
  · cases hf
  · next h0 =>
    have := Option.some.inj hf
    injection this with this
    omega

end Dec

/-! ### 5. the front-end loops -/

theorem no_panic_filterMap {outs : List Out} (h : ∀ o ∈ outs, ∀ t, o ≠ Out.panic t) :
    ∀ x ∈ outs.filterMap Out.toItem?, ∀ t, x ≠ Item.panic t := by
  intro x hx t hc
  obtain ⟨o, ho, hox⟩ := List.mem_filterMap.1 hx
  subst hc
  cases o with
  | none => simp [Out.toItem?] at hox
  | msg m => simp [Out.toItem?] at hox
  | err e => simp [Out.toItem?] at hox
  | panic s' => exact h _ ho s' rfl

theorem Dec.finItems_no_panic (d : Dec) : ∀ x ∈ d.finItems, ∀ t, x ≠ Item.panic t := by
  intro x hx t
  unfold Dec.finItems at hx
  split at hx <;> simp at hx
  subst hx; simp

theorem Dec.allItems_no_panic {d : Dec} (h : Dec.Inv d) (s : List UInt8) :
    ∀ x ∈ d.allItems s, ∀ t, x ≠ Item.panic t := by
  intro x hx t
  rcases List.mem_append.1 hx with hx | hx
  · exact no_panic_filterMap (Dec.pushAll_no_panic s h) x hx t
  · exact Dec.finItems_no_panic _ x hx t

/-- `decode` reports exactly `allItems` -/
theorem decodeAll_go_eq (s : List UInt8) : ∀ {d : Dec}, Dec.Inv d →
    decodeAll.go d s = d.allItems s := by
  induction s with
  | nil =>
    intro d _
    unfold decodeAll.go
    rw [Dec.allItems_nil, Dec.finItems]
    rcases d.finalize with ⟨d', e⟩
    cases e <;> rfl
  | cons b bs ih =>
    intro d h
    have hnp := Dec.push_no_panic h b
    have hi := ih (Dec.push_inv h b)
    rw [Dec.allItems_cons]
    unfold decodeAll.go
    rcases hp : d.push b with ⟨d', o⟩
    rw [hp] at hnp hi
    simp only at hnp hi
    cases o with
    | none => simpa [Out.toItem?] using hi
    | msg m => simpa [Out.toItem?] using hi
    | err e => simpa [Out.toItem?] using hi
    | panic t => exact absurd rfl (hnp t)

/-- the first `k` elements of `l` followed by `x` forever -/
def padTo {α : Type} (x : α) (l : List α) (k : Nat) : List α := (l ++ List.replicate k x).take k

theorem padTo_zero {α : Type} (x : α) (l : List α) : padTo x l 0 = [] := by simp [padTo]

theorem padTo_nil {α : Type} (x : α) (k : Nat) : padTo x [] k = List.replicate k x := by
  simp [padTo]

theorem padTo_cons {α : Type} (x y : α) (l : List α) (k : Nat) :
    padTo x (y :: l) (k + 1) = y :: padTo x l k := by
  simp [padTo, List.replicate_succ']
  rw [← List.append_assoc, List.take_append_of_le_length (by simp)]

theorem padTo_length {α : Type} (x : α) (l : List α) (k : Nat) : (padTo x l k).length = k := by
  simp [padTo]

/-- the results before the first `None` -/
def cutNone {α : Type} : List (Option α) → List α
  | [] => []
  | none :: _ => []
  | some x :: l => x :: cutNone l

/-- if more calls are made than there are items, cutting at the first `None` returns the items -/
theorem cutNone_padTo {α : Type} (l : List α) : ∀ {k : Nat}, l.length < k →
    cutNone (padTo none (l.map some) k) = l := by
  induction l with
  | nil =>
    intro k hk
    cases k with
    | zero => simp at hk
    | succ k => rw [List.map_nil, padTo_nil, List.replicate_succ]; rfl
  | cons x l ih =>
    intro k hk
    cases k with
    | zero => simp at hk
    | succ k =>
      rw [List.map_cons, padTo_cons, cutNone, ih (by simpa using hk)]

/-- the elements of `padTo x l k` beyond `l` are `x` -/
theorem getElem?_padTo {α : Type} (x : α) (l : List α) (k i : Nat) (hi : i < k) :
    (padTo x l k)[i]? = some (l[i]?.getD x) := by
  unfold padTo
  rw [List.getElem?_take_of_lt hi, List.getElem?_append]
  split
  · next h => simp [h]
  · next h =>
    have h' : l.length ≤ i := by omega
    rw [List.getElem?_replicate, if_pos (by omega), List.getElem?_eq_none h']
    rfl

namespace DecIter

theorem take_succ (it : DecIter) (k : Nat) :
    it.take (k + 1) = it.next.2 :: it.next.1.take k := rfl

theorem take_done {it : DecIter} (h : it.done = true) (k : Nat) :
    it.take k = List.replicate k none := by
  induction k with
  | zero => rfl
  | succ k ih =>
    have : it.next = (it, none) := by simp [next, h]
    rw [take_succ, this, List.replicate_succ, ih]

theorem next_of_not_done (d : Dec) (s : List UInt8) :
    next { dec := d, bytes := s, done := false } = pull d s := by
  simp [next]

/-- the iterator yields `allItems` and then `None` forever; its decoder always satisfies `Inv` -/
theorem take_eq (s : List UInt8) : ∀ {d : Dec}, Dec.Inv d → ∀ k : Nat,
    take { dec := d, bytes := s, done := false } k = padTo none ((d.allItems s).map some) k := by
  induction s with
  | nil =>
    intro d _ k
    cases k with
    | zero => rw [padTo_zero]; rfl
    | succ k =>
      rw [take_succ, next_of_not_done]
      unfold pull
      simp only
      rw [take_done rfl, Dec.allItems_nil, Dec.finItems]
      cases d.finalize.2 with
      | none => simp [padTo_nil, List.replicate_succ]
      | some e => simp [padTo_cons, padTo_nil]
  | cons b bs ih =>
    intro d h k
    cases k with
    | zero => rw [padTo_zero]; rfl
    | succ k =>
      have hnp := Dec.pushByte_no_panic h b
      have hi := ih (Dec.push_inv h b)
      rw [Dec.allItems_cons, Dec.push_eq]
      rw [Dec.push_fst] at hi
      rw [take_succ, next_of_not_done]
      unfold pull
      rcases hp : d.pushByte b with ⟨d', r⟩
      rw [hp] at hnp hi
      simp only at hnp hi ⊢
      cases r with
      | more =>
        have := hi (k + 1)
        rw [take_succ, next_of_not_done] at this
        simpa [Out.toItem?] using this
      | ready =>
        have hd := Dec.pushByte_ready hp
        simp [Out.toItem?, padTo_cons, hi k, Dec.borrowBuf, Dec.isDone, hd]
      | err e => simp [Out.toItem?, padTo_cons, hi k]
      | panic t => exact absurd rfl (hnp t)

theorem take_new (cap : Option Nat) (s : List UInt8) (k : Nat) :
    (DecIter.new cap s).take k = padTo none (((Dec.fresh cap).allItems s).map some) k :=
  take_eq s (Dec.inv_fresh cap) k

end DecIter

/-- list / iterator item as reported by the reader front-ends -/
def Item.toR : Item → RItem
  | .ok m => .ok m
  | .err e => .decErr e
  | .panic s => .panic s

/-- what a reader reports at end of input: an `Eof` I/O error carrying the number of discarded
bytes, or nothing -/
def Dec.rEnd (d : Dec) : List RItem :=
  match d.finalize.2 with
  | some (.discarded n) => [RItem.ioErr .eof n]
  | _ => []

/-- the results of `DecoderReader::next` for a byte string from state `d` -/
def Dec.allRItems (d : Dec) (s : List UInt8) : List RItem :=
  ((d.pushAll s).2.filterMap Out.toItem?).map Item.toR ++ (d.pushAll s).1.rEnd

theorem Dec.allRItems_cons (d : Dec) (b : UInt8) (bs : List UInt8) :
    d.allRItems (b :: bs) =
      (match (d.push b).2.toItem? with | some x => [x.toR] | none => []) ++
        (d.push b).1.allRItems bs := by
  unfold Dec.allRItems
  rw [Dec.pushAll_cons]
  cases h : (d.push b).2.toItem? <;> simp [h]

namespace Rdr

theorem calls_nil (r : Rdr) : r.calls [] = (r, []) := rfl

theorem calls_cons (r : Rdr) (c : Call) (cs : List Call) :
    r.calls (c :: cs) = (((r.call c).1.calls cs).1, (r.call c).2 :: ((r.call c).1.calls cs).2) :=
  rfl

theorem read_nil {kind : SrcKind} (hk : kind ≠ .eh) (d : Dec) :
    read { kind := kind, dec := d, evs := [] } =
      ({ kind := kind, dec := d.reset.1, evs := [] }, .ioErr .eof d.reset.2) := by
  cases kind with
  | eh => exact absurd rfl hk
  | mem => rfl
  | io => rfl

theorem next_nil {kind : SrcKind} (hk : kind ≠ .eh) (d : Dec) :
    next { kind := kind, dec := d, evs := [] } =
      ({ kind := kind, dec := d.reset.1, evs := [] },
        if d.reset.2 = 0 then .none else .ioErr .eof d.reset.2) := by
  unfold next
  rw [read_nil hk]
  cases h : d.reset.2 with
  | zero => rfl
  | succ n => rfl

/-- one byte that does not complete anything: the loop goes on -/
theorem read_byte (kind : SrcKind) (d : Dec) (b : UInt8) (evs : List Ev) :
    read { kind := kind, dec := d, evs := .byte b :: evs } =
      match d.pushByte b with
      | (d', .more) => read { kind := kind, dec := d', evs := evs }
      | (d', .ready) =>
        ({ kind := kind, dec := d', evs := evs },
          match d'.borrowBuf with | .msg m => .ok m | .panic s => .panic s | _ => .panic "unreachable")
      | (d', .err e) => ({ kind := kind, dec := d', evs := evs }, .decErr e)
      | (d', .panic s) => ({ kind := kind, dec := d', evs := evs }, .panic s) := by
  simp only [read]
  rw [readLoop]
  rcases d.pushByte b with ⟨d', r⟩
  cases r <;> rfl

/-- after end of input has been reported once, `next` returns `None` forever -/
theorem nexts_eof {kind : SrcKind} (hk : kind ≠ .eh) (k : Nat) : ∀ {d : Dec}, Dec.IsReset d →
    (({ kind := kind, dec := d, evs := [] } : Rdr).calls (List.replicate k .next)).2 =
      List.replicate k RItem.none := by
  induction k with
  | zero => intro d _; rfl
  | succ k ih =>
    intro d h
    rw [List.replicate_succ, calls_cons]
    have h0 : d.reset.2 = 0 := by simp [Dec.reset, h.1, h.2.1]
    simp only [call, next_nil hk, h0, if_true]
    rw [ih (Dec.isReset_reset d), List.replicate_succ]

/-- `DecoderReader::next` over a slice / iterator / `io::Read` without faults yields `allRItems`
and then `None` forever -/
theorem nexts_eq {kind : SrcKind} (hk : kind ≠ .eh) (s : List UInt8) :
    ∀ {d : Dec}, Dec.Inv d → ∀ k : Nat,
      (({ kind := kind, dec := d, evs := s.map Ev.byte } : Rdr).calls (List.replicate k .next)).2 =
        padTo RItem.none (d.allRItems s) k := by
  induction s with
  | nil =>
    intro d h k
    cases k with
    | zero => rw [padTo_zero]; rfl
    | succ k =>
      rw [List.replicate_succ, List.map_nil, calls_cons]
      simp only [call, next_nil hk]
      rw [nexts_eof hk k (Dec.isReset_reset d)]
      have hf := Dec.finalize_eq_reset h
      simp only [Dec.allRItems, Dec.pushAll_nil, List.filterMap_nil, List.map_nil, List.nil_append,
        Dec.rEnd, hf]
      by_cases h0 : d.reset.2 = 0
      · simp [h0, padTo_nil, List.replicate_succ]
      · simp [h0, padTo_cons, padTo_nil]
  | cons b bs ih =>
    intro d h k
    cases k with
    | zero => rw [padTo_zero]; rfl
    | succ k =>
      have hnp := Dec.pushByte_no_panic h b
      have hi := ih (Dec.push_inv h b)
      rw [Dec.allRItems_cons, Dec.push_eq]
      rw [Dec.push_fst] at hi
      rw [List.replicate_succ, List.map_cons, calls_cons]
      simp only [call]
      unfold next
      rw [read_byte]
      rcases hp : d.pushByte b with ⟨d', r⟩
      rw [hp] at hnp hi
      simp only at hnp hi ⊢
      cases r with
      | more =>
        have := hi (k + 1)
        rw [List.replicate_succ, calls_cons] at this
        simp only [call] at this
        unfold next at this
        simpa [Out.toItem?] using this
      | ready =>
        have hd := Dec.pushByte_ready hp
        simp [Out.toItem?, Item.toR, padTo_cons, hi k, Dec.borrowBuf, Dec.isDone, hd]
      | err e => simp [Out.toItem?, Item.toR, padTo_cons, hi k]
      | panic t => exact absurd rfl (hnp t)

/-! #### arbitrary event sequences, all source kinds, all four entry points -/

/-- the decoder inside the reader satisfies `Inv`, and the result is not a panic -/
def GoodR (x : Rdr × RItem) : Prop := Dec.Inv x.1.dec ∧ ∀ t, x.2 ≠ .panic t

theorem onIoErr_good (kind : SrcKind) {d : Dec} (h : Dec.Inv d) (evs : List Ev) (k : IoKind) :
    GoodR (onIoErr kind d evs k) := by
  cases k with
  | wouldBlock => exact ⟨h, fun t => by simp [onIoErr]⟩
  | eof => exact ⟨Dec.inv_reset d, fun t => by simp [onIoErr]⟩
  | other => exact ⟨Dec.inv_reset d, fun t => by simp [onIoErr]⟩

theorem readLoop_good (kind : SrcKind) (evs : List Ev) : ∀ {d : Dec}, Dec.Inv d →
    GoodR (readLoop kind d evs) := by
  induction evs with
  | nil =>
    intro d h
    unfold readLoop
    cases kind <;> exact onIoErr_good _ h _ _
  | cons ev evs ih =>
    intro d h
    cases ev with
    | byte b =>
      have hg := Dec.pushByte_good h b
      rw [readLoop]
      rcases hp : d.pushByte b with ⟨d', r⟩
      rw [hp] at hg
      cases r with
      | more => exact ih hg.1
      | ready =>
        have hd := Dec.pushByte_ready hp
        exact ⟨hg.1, fun t => by simp [Dec.borrowBuf, Dec.isDone, hd]⟩
      | err e => exact ⟨hg.1, fun t => by simp⟩
      | panic t => exact absurd rfl (hg.2.2.2 t)
    | wouldBlock => rw [readLoop]; exact onIoErr_good _ h _ _
    | interrupted =>
      cases kind
      · rw [readLoop]
        · exact onIoErr_good _ h _ _
        · simp
      · rw [readLoop]; exact ih h
      · rw [readLoop]
        · exact onIoErr_good _ h _ _
        · simp
    | other => rw [readLoop]; exact onIoErr_good _ h _ _
    | eof => cases kind <;> exact onIoErr_good _ h _ _

theorem read_good {r : Rdr} (h : Dec.Inv r.dec) : GoodR r.read := readLoop_good _ _ h

theorem next_good {r : Rdr} (h : Dec.Inv r.dec) : GoodR r.next := by
  have := read_good h
  unfold next
  split
  · next r' heq => rw [heq] at this; exact ⟨this.1, fun t => by simp⟩
  · exact this

theorem readNb_good {r : Rdr} (h : Dec.Inv r.dec) : GoodR r.readNb := by
  have := read_good h
  unfold readNb
  split
  · next r' n heq => rw [heq] at this; exact ⟨this.1, fun t => by simp⟩
  · exact this

theorem nextNb_good {r : Rdr} (h : Dec.Inv r.dec) : GoodR r.nextNb := by
  have := readNb_good h
  unfold nextNb
  split
  · next r' heq => rw [heq] at this; exact ⟨this.1, fun t => by simp⟩
  · exact this

theorem call_good {r : Rdr} (h : Dec.Inv r.dec) (c : Call) : GoodR (r.call c) := by
  cases c
  · exact read_good h
  · exact next_good h
  · exact readNb_good h
  · exact nextNb_good h

theorem calls_good (cs : List Call) : ∀ {r : Rdr}, Dec.Inv r.dec →
    Dec.Inv (r.calls cs).1.dec ∧ ∀ x ∈ (r.calls cs).2, ∀ t, x ≠ RItem.panic t := by
  induction cs with
  | nil => intro r h; exact ⟨h, fun x hx => by simp [calls_nil] at hx⟩
  | cons c cs ih =>
    intro r h
    have hc := call_good h c
    have := ih hc.1
    rw [calls_cons]
    refine ⟨this.1, fun x hx t => ?_⟩
    rcases List.mem_cons.1 hx with rfl | hx
    · exact hc.2 t
    · exact this.2 x hx t

end Rdr

/-! ### 6. the iterator encoder never reaches an assertion -/

namespace Enc

/-- state invariant of `Encoder<I>` -/
def EInv (e : Enc) : Prop :=
  match e.st with
  | .init n => n ≤ 8
  | .look n => n ≤ 4
  | .esc n => 1 ≤ n ∧ n ≤ 4
  | .fin n => -3 ≤ n ∧ n ≤ 8

def GoodE (x : Enc × EOut) : Prop := EInv x.1 ∧ ∀ t, x.2 ≠ .panic t

theorem einv_new (p : List UInt8) : EInv (Enc.new p) := by simp [EInv, Enc.new]

theorem nextFin_good (e : Enc) {n : Int} (h1 : -3 ≤ n) (h2 : n ≤ 8) : GoodE (nextFin e n) := by
  by_cases h : 6 ≤ n ∧ n < 8
  · -- `crc_bytes[(n - 6) as usize]`: the index is 0 or 1, the explicit panic site is not taken
    rw [nextFin_crc e h.1 h.2]
    exact ⟨by simp only [EInv]; omega, fun t => by simp⟩
  · unfold nextFin
    repeat' split
    all_goals first
      | omega
      | exact ⟨by simp only [EInv]; omega, fun t => by simp⟩

theorem nextLook_good (e : Enc) {n : Nat} (h : n < 4) : GoodE (nextLook e n) := by
  unfold nextLook
  split
  · next b rest _ =>
    refine ⟨?_, fun t => by simp⟩
    simp only [EInv]
    split <;> omega
  · have := toNat_and_three_lt e.padding
    exact nextFin_good _ (by simp only [padGet]; omega) (by omega)

theorem next_good {e : Enc} (h : EInv e) : GoodE e.next := by
  unfold EInv at h
  unfold next
  split
  · next n hs =>
    rw [hs] at h
    simp only at h
    repeat' split
    all_goals first
      | omega
      | exact nextLook_good e (by omega)
      | exact ⟨by simp only [EInv]; omega, fun t => by simp⟩
  · next n hs =>
    rw [hs] at h
    simp only at h
    repeat' split
    all_goals first
      | omega
      | exact nextLook_good e (by omega)
      | exact ⟨by simp only [EInv]; omega, fun t => by simp⟩
  · next n hs =>
    rw [hs] at h
    simp only at h
    repeat' split
    all_goals first
      | omega
      | exact nextLook_good e (by omega)
      | exact ⟨by simp only [EInv]; omega, fun t => by simp⟩
  · next n hs =>
    rw [hs] at h
    simp only at h
    exact nextFin_good e h.1 h.2

theorem run_good (n : Nat) : ∀ {e : Enc}, EInv e →
    EInv (e.run n).1 ∧ ∀ o ∈ (e.run n).2, ∀ t, o ≠ EOut.panic t := by
  induction n with
  | zero => intro e h; exact ⟨h, fun o ho => by simp [run_zero] at ho⟩
  | succ n ih =>
    intro e h
    have hn := next_good h
    have := ih hn.1
    rw [run_succ]
    refine ⟨this.1, fun o ho t => ?_⟩
    rcases List.mem_cons.1 ho with rfl | ho
    · exact hn.2 t
    · exact this.2 o ho t

end Enc

/-! ### 7. dead fields: which states behave like a newly constructed decoder -/

namespace Dec

/-- Forget the fields no later operation can observe: in `LookingForMessageStart` the digest is
dead (it is overwritten when the start sequence completes); in `Done` everything except the
buffer capacity is dead, because the next `push_byte` / `finalize` / `reset` begins with `reset`. -/
def norm (d : Dec) : Dec :=
  match d.st with
  | .look _ _ => { d with crc := crcInit }
  | .done => { d.reset.1 with crc := crcInit }
  | _ => d

/-- equal up to dead fields -/
def Equiv (d d' : Dec) : Prop := d.norm = d'.norm

theorem Equiv.refl (d : Dec) : Equiv d d := rfl
theorem Equiv.symm {d d' : Dec} (h : Equiv d d') : Equiv d' d := Eq.symm h
theorem Equiv.trans {a b c : Dec} (h1 : Equiv a b) (h2 : Equiv b c) : Equiv a c := Eq.trans h1 h2

theorem norm_fresh (cap : Option Nat) : (fresh cap).norm = fresh cap := rfl

theorem norm_of_isReset {d : Dec} (h : IsReset d) : d.norm = fresh d.buf.cap := by
  rcases d with ⟨raw, crc, st, zc, ⟨cap, rdata⟩⟩
  obtain ⟨h1, h2, h3, h4⟩ := h
  simp only at h1 h2 h3 h4
  subst h1 h2 h3 h4
  rfl

theorem norm_of_done {d : Dec} (h : d.st = .done) : d.norm = fresh d.buf.cap := by
  rcases d with ⟨raw, crc, st, zc, ⟨cap, rdata⟩⟩
  simp only at h
  subst h
  rfl

theorem norm_reset (d : Dec) : d.reset.1.norm = fresh d.buf.cap :=
  norm_of_isReset (isReset_reset d)

/-- the digest does not influence `LookingForMessageStart` -/
theorem pushLook_crc (raw : Nat) (c1 c2 : UInt16) (x y zc : Nat) (buf : Buf) (disc init : Nat)
    (b : UInt8) :
    (pushLook ⟨raw, c1, .look x y, zc, buf⟩ disc init b).2 =
      (pushLook ⟨raw, c2, .look x y, zc, buf⟩ disc init b).2 ∧
    (pushLook ⟨raw, c1, .look x y, zc, buf⟩ disc init b).1.norm =
      (pushLook ⟨raw, c2, .look x y, zc, buf⟩ disc init b).1.norm ∧
    (pushLook ⟨raw, c1, .look x y, zc, buf⟩ disc init b).2 ≠ .ready := by
  unfold pushLook
  dsimp only
  repeat' split
  all_goals exact ⟨rfl, rfl, by simp⟩

theorem push_snd_congr {d d' : Dec} {b : UInt8} (h : (d.pushByte b).2 = (d'.pushByte b).2)
    (hr : (d.pushByte b).2 ≠ .ready) : (d.push b).2 = (d'.push b).2 := by
  rw [push_eq, push_eq]
  simp only
  rw [← h]
  cases hx : (d.pushByte b).2 with
  | more => rfl
  | ready => exact absurd hx hr
  | err e => rfl
  | panic s => rfl

/-- one operation on a state and on its normal form: same answer, equivalent successors -/
theorem step_norm (d : Dec) (op : Op) :
    (d.step op).2 = (d.norm.step op).2 ∧ (d.step op).1.norm = (d.norm.step op).1.norm := by
  rcases d with ⟨raw, crc, st, zc, buf⟩
  cases st with
  | normal => exact ⟨rfl, rfl⟩
  | escChars n => exact ⟨rfl, rfl⟩
  | escPayload step q => exact ⟨rfl, rfl⟩
  | look x y =>
    cases op with
    | fin => exact ⟨rfl, rfl⟩
    | reset => exact ⟨rfl, rfl⟩
    | new => exact ⟨rfl, rfl⟩
    | fromBuf stale => exact ⟨rfl, rfl⟩
    | push b =>
      have h := pushLook_crc (raw + 1) crc crcInit x y zc buf x y b
      have e1 : pushByte ⟨raw, crc, .look x y, zc, buf⟩ b
          = pushLook ⟨raw + 1, crc, .look x y, zc, buf⟩ x y b := rfl
      have e2 : pushByte (norm ⟨raw, crc, .look x y, zc, buf⟩) b
          = pushLook ⟨raw + 1, crcInit, .look x y, zc, buf⟩ x y b := rfl
      refine ⟨?_, ?_⟩
      · simp only [step]
        congr 1
        exact push_snd_congr (by rw [e1, e2]; exact h.1) (by rw [e1]; exact h.2.2)
      · simp only [step]
        rw [push_fst, push_fst, e1, e2]
        exact h.2.1
  | done =>
    cases op with
    | fin => exact ⟨rfl, rfl⟩
    | reset => exact ⟨rfl, rfl⟩
    | new => exact ⟨rfl, rfl⟩
    | fromBuf stale => exact ⟨rfl, rfl⟩
    | push b =>
      have h := pushLook_crc 1 crc crcInit 0 0 0 buf.clear 0 0 b
      have e1 : pushByte ⟨raw, crc, .done, zc, buf⟩ b
          = pushLook ⟨1, crc, .look 0 0, 0, buf.clear⟩ 0 0 b := rfl
      have e2 : pushByte (norm ⟨raw, crc, .done, zc, buf⟩) b
          = pushLook ⟨1, crcInit, .look 0 0, 0, buf.clear⟩ 0 0 b := rfl
      refine ⟨?_, ?_⟩
      · simp only [step]
        congr 1
        exact push_snd_congr (by rw [e1, e2]; exact h.1) (by rw [e1]; exact h.2.2)
      · simp only [step]
        rw [push_fst, push_fst, e1, e2]
        exact h.2.1

/-- `Equiv` is a bisimulation -/
theorem step_equiv {d d' : Dec} (h : Equiv d d') (op : Op) :
    (d.step op).2 = (d'.step op).2 ∧ Equiv (d.step op).1 (d'.step op).1 := by
  have h1 := step_norm d op
  have h2 := step_norm d' op
  unfold Equiv at h ⊢
  rw [h] at h1
  exact ⟨h1.1.trans h2.1.symm, h1.2.trans h2.2.symm⟩

theorem run_equiv (ops : List Op) : ∀ {d d' : Dec}, Equiv d d' →
    (d.run ops).2 = (d'.run ops).2 ∧ Equiv (d.run ops).1 (d'.run ops).1 := by
  induction ops with
  | nil => intro d d' h; exact ⟨rfl, h⟩
  | cons op ops ih =>
    intro d d' h
    have hs := step_equiv h op
    have := ih hs.2
    rw [run_cons, run_cons]
    exact ⟨by rw [hs.1, this.1], this.2⟩

/-- after every operation the decoder is either equivalent to a new one, or the operation
returned `Ok(None)`, a `DiscardedBytes` error, or panicked -/
theorem step_fresh_or (d : Dec) (op : Op) :
    (d.step op).1.norm = fresh (d.step op).1.buf.cap ∨ (d.step op).2 = .out .none ∨
      (∃ n, (d.step op).2 = .out (.err (.discarded n))) ∨ ∃ s, (d.step op).2 = .out (.panic s) := by
  cases op with
  | fin => exact Or.inl (norm_reset d)
  | reset => exact Or.inl (norm_reset d)
  | new => exact Or.inl rfl
  | fromBuf stale => exact Or.inl rfl
  | push b =>
    simp only [step]
    rw [push_eq]
    simp only
    rcases hp : d.pushByte b with ⟨d', r⟩
    cases r with
    | more => exact Or.inr (Or.inl rfl)
    | ready => exact Or.inl (norm_of_done (pushByte_ready hp))
    | panic s => exact Or.inr (Or.inr (Or.inr ⟨s, rfl⟩))
    | err e =>
      by_cases he : ∃ n, e = .discarded n
      · obtain ⟨n, rfl⟩ := he
        exact Or.inr (Or.inr (Or.inl ⟨n, rfl⟩))
      · exact Or.inl (norm_of_isReset (pushByte_err hp (fun n hn => he ⟨n, hn⟩)))

/-- the last answer of a history -/
theorem run_snoc (d : Dec) (ops : List Op) (op : Op) :
    d.run (ops ++ [op]) =
      (((d.run ops).1.step op).1, (d.run ops).2 ++ [((d.run ops).1.step op).2]) := by
  rw [run_append]; rfl

/-- If the last answer of a history is neither `Ok(None)` nor a `DiscardedBytes` error (nor a
panic), the decoder then answers every continuation exactly like a new decoder. -/
theorem run_after_boundary (cap : Option Nat) (ops : List Op)
    (h : ∃ o, ((fresh cap).run ops).2.getLast? = some o ∧ o ≠ .out .none ∧
      (∀ n, o ≠ .out (.err (.discarded n))) ∧ ∀ s, o ≠ .out (.panic s))
    (c : List Op) :
    (((fresh cap).run ops).1.run c).2 = ((fresh cap).run c).2 := by
  obtain ⟨o, hlast, h1, h2, h3⟩ := h
  rcases List.eq_nil_or_concat ops with rfl | ⟨ops', op, rfl⟩
  · simp [run_nil] at hlast
  · rw [List.concat_eq_append, run_snoc] at hlast ⊢
    simp only [List.getLast?_append, List.getLast?_singleton, Option.some_or] at hlast
    have ho := Option.some.inj hlast
    have hinv := run_inv ops' (inv_fresh cap)
    have hcap : (((fresh cap).run ops').1.step op).1.buf.cap = cap :=
      (step_cap hinv op).trans (run_cap ops' (inv_fresh cap))
    have hn : (((fresh cap).run ops').1.step op).1.norm = fresh cap := by
      rcases step_fresh_or ((fresh cap).run ops').1 op with hf | hf | ⟨n, hf⟩ | ⟨s, hf⟩
      · rw [hf, hcap]
      · exact absurd (ho ▸ hf) h1
      · exact absurd (ho ▸ hf) (h2 n)
      · exact absurd (ho ▸ hf) (h3 s)
    exact (run_equiv c (d' := fresh cap) (hn.trans (norm_fresh cap).symm)).1

/-- the same for byte strings -/
theorem pushAll_after_boundary (cap : Option Nat) (s1 : List UInt8)
    (h : ∃ o, ((fresh cap).pushAll s1).2.getLast? = some o ∧ o ≠ .none ∧
      (∀ n, o ≠ .err (.discarded n)) ∧ ∀ s, o ≠ .panic s)
    (s2 : List UInt8) :
    (((fresh cap).pushAll s1).1.pushAll s2).2 = ((fresh cap).pushAll s2).2 := by
  obtain ⟨o, hlast, h1, h2, h3⟩ := h
  apply (List.map_inj_right (f := OpOut.out) (fun _ _ h => OpOut.out.inj h)).1
  rw [(pushAll_eq_run s2 _).2, (pushAll_eq_run s2 _).2, (pushAll_eq_run s1 _).1]
  apply run_after_boundary
  refine ⟨.out o, ?_, fun hc => h1 (OpOut.out.inj hc), fun n hc => h2 n (OpOut.out.inj hc),
    fun s hc => h3 s (OpOut.out.inj hc)⟩
  rw [← (pushAll_eq_run s1 _).2, List.getLast?_map, hlast]
  rfl

/-! ### 8. the buffer capacity does not matter as long as it is not exceeded -/

/-- the same decoder over a buffer of capacity `c` -/
def withCap (d : Dec) (c : Option Nat) : Dec := { d with buf := { d.buf with cap := c } }

@[simp] theorem withCap_raw (d : Dec) (c) : (d.withCap c).raw = d.raw := rfl
@[simp] theorem withCap_zc (d : Dec) (c) : (d.withCap c).zc = d.zc := rfl
@[simp] theorem withCap_st (d : Dec) (c) : (d.withCap c).st = d.st := rfl
@[simp] theorem withCap_crc (d : Dec) (c) : (d.withCap c).crc = d.crc := rfl
@[simp] theorem withCap_cap (d : Dec) (c) : (d.withCap c).buf.cap = c := rfl
@[simp] theorem withCap_rdata (d : Dec) (c) : (d.withCap c).buf.rdata = d.buf.rdata := rfl
@[simp] theorem withCap_len (d : Dec) (c) : (d.withCap c).buf.len = d.buf.len := rfl
theorem withCap_fresh (c c' : Option Nat) : (fresh c).withCap c' = fresh c' := rfl
theorem withCap_reset (d : Dec) (c) : (d.withCap c).reset.1 = d.reset.1.withCap c := rfl

theorem fitsCap_mono {c : Option Nat} {m n : Nat} (h : fitsCap c n) (hmn : m ≤ n) :
    fitsCap c m := by
  cases c with
  | none => trivial
  | some c => exact Nat.le_trans hmn h

theorem dataStep_withCap (d : Dec) (c : Option Nat) (b : UInt8) :
    (d.withCap c).dataStep b = (d.dataStep b).withCap c := by
  unfold dataStep
  by_cases hb : b = 0
  · by_cases hz : d.zc ≤ 3
    · simp only [hb, hz, if_true, withCap_zc]; rfl
    · simp only [hb, hz, if_true, if_false, withCap_zc]; rfl
  · simp only [hb, if_false]; rfl

theorem dataSteps_withCap (l : List UInt8) : ∀ (d : Dec) (c : Option Nat),
    (d.withCap c).dataSteps l = (d.dataSteps l).withCap c := by
  induction l with
  | nil => intro d c; rfl
  | cons b l ih => intro d c; rw [dataSteps_cons, dataSteps_cons, dataStep_withCap, ih]

/-- the result `x` over an unbounded buffer and the result `y` over a buffer of capacity `c`
agree (up to the capacity itself) -/
def Sim (c : Option Nat) (x y : Dec × Res) : Prop := y = (x.1.withCap c, x.2)

theorem afterPush_sim {c : Option Nat} {d0 d : Dec} {l : List UInt8} {k k' : Dec → Dec × Res}
    (hcap : d.buf.cap = none) (hroom : fitsCap c (d.dataSteps l).buf.len)
    (hk : Sim c (k (d.dataSteps l)) (k' ((d.dataSteps l).withCap c))) :
    Sim c (afterPush d0 (d.pushList l) k)
      (afterPush (d0.withCap c) ((d.withCap c).pushList l) k') := by
  have g := grow_dataSteps l d
  have hwf1 : d.buf.WF := by unfold Buf.WF; rw [hcap]; trivial
  have hwf2 : (d.withCap c).buf.WF := fitsCap_mono hroom g.mono
  have hwf3 : (d.dataSteps l).buf.WF := by unfold Buf.WF; rw [g.cap, hcap]; trivial
  have hwf4 : ((d.withCap c).dataSteps l).buf.WF := by rw [dataSteps_withCap]; exact hroom
  rw [pushList_eq l hwf1, pushList_eq l hwf2, if_pos hwf3, if_pos hwf4, dataSteps_withCap]
  exact hk

theorem pushLook_sim (c : Option Nat) (d : Dec) (disc init : Nat) (b : UInt8) :
    Sim c (pushLook d disc init b) (pushLook (d.withCap c) disc init b) := by
  unfold pushLook
  dsimp only
  by_cases h1 : (b = 0x1b ∧ init < 4) ∨ (b = 0x01 ∧ init ≥ 4)
  · simp only [h1, if_true]
    by_cases h2 : init + 1 > 255
    · simp only [h2, if_true]; rfl
    · simp only [h2, if_false]
      by_cases h3 : init + 1 = 8
      · simp only [h3, if_true]
        by_cases h4 : disc > 0
        · simp only [h4, if_true, Sim, withCap]
        · simp only [h4, if_false, Sim, withCap]
      · simp only [h3, if_false]; rfl
  · simp only [h1, if_false]
    by_cases h5 : 1 + init < (if b = 0x1b then (if init = 4 then 4 else 1) else 0 : Nat)
    · simp only [h5, if_true]; rfl
    · simp only [h5, if_false]; rfl

theorem pushEnd_sim {c : Option Nat} {d : Dec} (q : Quad) (hcap : d.buf.cap = none)
    (hroom : fitsCap c (d.buf.len + d.zc)) :
    Sim c (pushEnd d q) (pushEnd (d.withCap c) q) := by
  have hwf1 : d.buf.WF := by unfold Buf.WF; rw [hcap]; trivial
  have hwf2 : (d.withCap c).buf.WF := fitsCap_mono hroom (Nat.le_add_right _ _)
  unfold pushEnd
  dsimp only [withCap]
  generalize (ofLe16 q.c q.d != crcFinal (crcUpdate d.crc [q.a, q.b]) || d.raw % 4 != 0 ||
      decide (q.b > 3) || decide (d.raw < q.b.toNat + 16) || decide (q.b.toNat > d.zc)) = bad
  cases bad with
  | true => simp only [if_true]; rfl
  | false =>
    simp only [Bool.false_eq_true, if_false]
    by_cases hlt : d.zc < q.b.toNat
    · simp only [hlt, if_true]; rfl
    · simp only [hlt, if_false]
      rw [flush_eq (d := ⟨d.raw, crcInit, d.st, d.zc - q.b.toNat, d.buf⟩) hwf1,
        flush_eq (d := ⟨d.raw, crcInit, d.st, d.zc - q.b.toNat, ⟨c, d.buf.rdata⟩⟩) hwf2]
      have r1 : (⟨d.raw, crcInit, d.st, d.zc - q.b.toNat, d.buf⟩ : Dec).room (d.zc - q.b.toNat) :=
        room_of_none hcap _
      have r2 : (⟨d.raw, crcInit, d.st, d.zc - q.b.toNat, ⟨c, d.buf.rdata⟩⟩ : Dec).room
          (d.zc - q.b.toNat) :=
        fitsCap_mono hroom (by show d.buf.rdata.length + _ ≤ d.buf.rdata.length + _; omega)
      simp only [r1, r2, if_true]
      rfl

theorem pushEscComplete_sim {c : Option Nat} {d : Dec} (q : Quad) (hcap : d.buf.cap = none)
    (hroom : fitsCap c (d.buf.len + d.zc + 4)) :
    Sim c (pushEscComplete d q) (pushEscComplete (d.withCap c) q) := by
  unfold pushEscComplete
  simp only [withCap_raw]
  by_cases h1 : q = ⟨0x1b, 0x1b, 0x1b, 0x1b⟩
  · simp only [h1, if_true]
    refine afterPush_sim (d := { d with crc := crcUpdate d.crc _ })
      (d0 := { d with crc := crcUpdate d.crc _ }) hcap ?_ rfl
    have g := grow_dataSteps (Quad.toList ⟨0x1b, 0x1b, 0x1b, 0x1b⟩)
      { d with crc := crcUpdate d.crc (Quad.toList ⟨0x1b, 0x1b, 0x1b, 0x1b⟩) }
    refine fitsCap_mono hroom ?_
    have := g.len
    simp only [Quad.toList, List.length_cons, List.length_nil] at this ⊢
    omega
  · simp only [h1, if_false]
    by_cases h2 : q = ⟨0x01, 0x01, 0x01, 0x01⟩
    · simp only [h2, if_true]
      by_cases h8 : d.raw < 8
      · simp only [h8, if_true]; rfl
      · simp only [h8, if_false, Sim, withCap, Buf.clear]
    · simp only [h2, if_false]
      by_cases h3 : q.a = 0x1a
      · simp only [h3, if_true]
        exact pushEnd_sim q hcap (fitsCap_mono hroom (by omega))
      · simp only [h3, if_false]
        by_cases hk : (4 - d.raw % 4) % 4 > 0 ∧
            ((q.toList.take ((4 - d.raw % 4) % 4)).all (· = 0x1b)) ∧ q.get ((4 - d.raw % 4) % 4) = 0x1a
        · have hk3 : (4 - d.raw % 4) % 4 ≤ 3 := by omega
          simp only [hk, and_self, if_true]
          rw [pushRep_eq_pushList, pushRep_eq_pushList]
          refine afterPush_sim (d := { d with crc := crcUpdate d.crc _ })
            (d0 := { d with crc := crcUpdate d.crc _ }) hcap ?_ rfl
          have g := grow_dataSteps (List.replicate ((4 - d.raw % 4) % 4) 0x1b)
            { d with crc := crcUpdate d.crc (q.toList.take ((4 - d.raw % 4) % 4)) }
          refine fitsCap_mono hroom ?_
          have := g.len
          simp only [List.length_replicate] at this ⊢
          omega
        · simp only [hk, if_false]; rfl

/-- one byte: if `raw + 1` fits the capacity `c`, the bounded decoder does exactly what the
unbounded one does -/
theorem pushByte_sim {c : Option Nat} {d : Dec} (h : Inv d) (hcap : d.buf.cap = none) (b : UInt8)
    (hroom : d.st = .done ∨ fitsCap c (d.raw + 1)) :
    Sim c (d.pushByte b) ((d.withCap c).pushByte b) := by
  obtain ⟨hz, hwf, hst⟩ := h
  rcases d with ⟨raw, crc, st, zc, buf⟩
  simp only at hz hwf hst hcap
  cases st with
  | look disc init => exact pushLook_sim c _ _ _ _
  | done => exact pushLook_sim c _ _ _ _
  | normal =>
    simp only at hst
    have hroom : fitsCap c (raw + 1) := by simpa using hroom
    simp only [pushByte, withCap]
    by_cases hb : b = 0x1b
    · simp only [hb, if_true]; rfl
    · simp only [hb, if_false]
      rw [pushData_eq_pushList, pushData_eq_pushList]
      refine afterPush_sim (d := ⟨_, _, _, _, _⟩) (d0 := ⟨_, _, _, _, _⟩) hcap ?_ rfl
      have g := grow_dataSteps [b]
        { raw := raw + 1, crc := crcByte crc b, st := .normal, zc := zc, buf := buf }
      refine fitsCap_mono hroom ?_
      have := g.len
      simp only [List.length_cons, List.length_nil] at this ⊢
      omega
  | escChars n =>
    simp only at hst
    have hroom : fitsCap c (raw + 1) := by simpa using hroom
    simp only [pushByte, withCap]
    by_cases hb : b = 0x1b
    · simp only [hb, ne_eq, not_true_eq_false, if_false]
      by_cases h3 : n = 3
      · simp only [h3, if_true]; rfl
      · simp only [h3, if_false]
        by_cases h255 : n + 1 > 255
        · simp only [h255, if_true]; rfl
        · simp only [h255, if_false]; rfl
    · simp only [ne_eq, hb, not_false_eq_true, if_true]
      rw [pushRep_eq_pushList, pushRep_eq_pushList]
      have g1 := grow_dataSteps (List.replicate n 0x1b)
        { raw := raw + 1, crc := crcByte crc b, st := .escChars n, zc := zc, buf := buf }
      have g2 := grow_dataSteps [b] (dataSteps
        { raw := raw + 1, crc := crcByte crc b, st := .escChars n, zc := zc, buf := buf }
        (List.replicate n 0x1b))
      have l1 := g1.len
      have l2 := g2.len
      simp only [List.length_cons, List.length_nil, List.length_replicate] at l1 l2
      refine afterPush_sim (d := ⟨_, _, _, _, _⟩) (d0 := ⟨_, _, _, _, _⟩) hcap ?_ ?_
      · exact fitsCap_mono hroom (by omega)
      · rw [pushData_eq_pushList, pushData_eq_pushList]
        refine afterPush_sim (d0 := ⟨_, _, _, _, _⟩) (g1.cap.trans hcap) ?_ rfl
        exact fitsCap_mono hroom (by omega)
  | escPayload step q =>
    simp only at hst
    have hroom : fitsCap c (raw + 1) := by simpa using hroom
    simp only [pushByte, withCap]
    rcases hq : q.set step b with _ | q'
    · rfl
    · simp only
      by_cases h3 : step < 3
      · simp only [h3, if_true]; rfl
      · simp only [h3, if_false]
        exact pushEscComplete_sim (d := ⟨_, _, _, _, _⟩) _ hcap
          (fitsCap_mono hroom (by simp only; omega))

theorem push_sim {c : Option Nat} {d : Dec} (h : Inv d) (hcap : d.buf.cap = none) (b : UInt8)
    (hroom : d.st = .done ∨ fitsCap c (d.raw + 1)) :
    (d.withCap c).push b = ((d.push b).1.withCap c, (d.push b).2) := by
  have hs : (d.withCap c).pushByte b = _ := pushByte_sim h hcap b hroom
  rw [push_eq, push_eq, hs]
  cases (d.pushByte b).2 <;> rfl

/-- a whole byte string: a capacity of `raw` + the number of bytes to come always suffices -/
theorem pushAll_sim {c : Option Nat} (s : List UInt8) : ∀ {d : Dec}, Inv d → d.buf.cap = none →
    fitsCap c (d.raw + s.length) →
    (d.withCap c).pushAll s = ((d.pushAll s).1.withCap c, (d.pushAll s).2) := by
  induction s with
  | nil => intro d _ _ _; rfl
  | cons b bs ih =>
    intro d h hcap hroom
    rw [List.length_cons] at hroom
    rw [pushAll_cons, pushAll_cons, push_sim h hcap b (Or.inr (fitsCap_mono hroom (by omega)))]
    have hle := pushByte_raw_le h b
    rw [← push_fst] at hle
    rw [ih (push_inv h b) ((push_cap h b).trans hcap) (fitsCap_mono hroom (by omega))]

end Dec

end Sml

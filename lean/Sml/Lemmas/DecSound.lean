import Sml.Model.Frontends
import Sml.Lemmas.Stuff
import Sml.Lemmas.C07
/-
  Helper lemmas about the push decoder that are shared by C02 (soundness) and C17 (tiling):

  * `Dec.ddS`      : the logical payload so far (buffer contents followed by the withheld zeros),
  * `Dec.Pushed`  : "`d'` is `d` with `l` appended to the logical payload, nothing else changed",
  * `PushOk`      : the data-push helpers (`pushData`, `pushRep`, `pushList`, `flush`) either
                    append to the logical payload or report out-of-memory; they never panic,
  * unfolding lemmas for `Dec.pushByte` per decoder state.
-/
namespace Sml

namespace Dec

/-- the logical payload decoded so far: buffer contents, then the zeros held back in `zero_cache` -/
def ddS (d : Dec) : List UInt8 := d.buf.data ++ List.replicate d.zc 0

/-- `d'` is `d` with `l` appended to the logical payload; counters, digest and state unchanged -/
def Pushed (d d' : Dec) (l : List UInt8) : Prop :=
  d'.raw = d.raw ∧ d'.crc = d.crc ∧ d'.st = d.st ∧ d'.ddS = d.ddS ++ l

theorem Pushed.rfl' (d : Dec) : Pushed d d [] := ⟨rfl, rfl, rfl, by simp⟩

theorem Pushed.trans {d d' d'' : Dec} {l l' : List UInt8} (h : Pushed d d' l)
    (h' : Pushed d' d'' l') : Pushed d d'' (l ++ l') := by
  obtain ⟨a1, a2, a3, a4⟩ := h
  obtain ⟨b1, b2, b3, b4⟩ := h'
  exact ⟨b1.trans a1, b2.trans a2, b3.trans a3, by rw [b4, a4, List.append_assoc]⟩

end Dec

theorem Buf.push_some {b b' : Buf} {x : UInt8} (h : b.push x = some b') :
    b'.data = b.data ++ [x] := by
  unfold Buf.push at h
  split at h
  · cases h
  · cases h; simp [Buf.data]

namespace Dec

theorem pushInner_some {d d' : Dec} {x : UInt8} (h : d.pushInner x = some d') :
    d'.raw = d.raw ∧ d'.crc = d.crc ∧ d'.st = d.st ∧ d'.zc = d.zc ∧
      d'.buf.data = d.buf.data ++ [x] := by
  unfold pushInner at h
  split at h
  · next buf hb => cases h; exact ⟨rfl, rfl, rfl, rfl, Buf.push_some hb⟩
  · cases h

theorem pushZeros_some : ∀ (n : Nat) {d d' : Dec}, d.pushZeros n = some d' →
    d'.raw = d.raw ∧ d'.crc = d.crc ∧ d'.st = d.st ∧ d'.zc = d.zc ∧
      d'.buf.data = d.buf.data ++ List.replicate n 0 := by
  intro n
  induction n with
  | zero => intro d d' h; cases h; simp
  | succ n ih =>
    intro d d' h
    unfold pushZeros at h
    split at h
    · next d1 h1 =>
      obtain ⟨a1, a2, a3, a4, a5⟩ := pushInner_some h1
      obtain ⟨b1, b2, b3, b4, b5⟩ := ih h
      refine ⟨b1.trans a1, b2.trans a2, b3.trans a3, b4.trans a4, ?_⟩
      rw [b5, a5, List.replicate_succ]; simp
    · cases h

theorem flush_some {d d' : Dec} (h : d.flush = some d') :
    d'.raw = d.raw ∧ d'.crc = d.crc ∧ d'.st = d.st ∧ d'.zc = 0 ∧
      d'.buf.data = d.buf.data ++ List.replicate d.zc 0 := by
  unfold flush at h
  split at h
  · next d1 h1 =>
    obtain ⟨a1, a2, a3, _, a5⟩ := pushZeros_some _ h1
    cases h
    exact ⟨a1, a2, a3, rfl, a5⟩
  · cases h

theorem flush_pushed {d d' : Dec} (h : d.flush = some d') : Pushed d d' [] ∧ d'.zc = 0 := by
  obtain ⟨a1, a2, a3, a4, a5⟩ := flush_some h
  exact ⟨⟨a1, a2, a3, by simp [ddS, a4, a5]⟩, a4⟩

end Dec

/-- outcome of a data push: success appends `l` to the logical payload, out-of-memory is allowed,
a panic is not -/
def PushOk (r : Dec.PushRes) (d : Dec) (l : List UInt8) : Prop :=
  match r with
  | .ok d' => Dec.Pushed d d' l
  | .oom => True
  | .panic _ => False

namespace Dec

theorem replicate_zero_comm (n : Nat) :
    (0 : UInt8) :: List.replicate n 0 = List.replicate n 0 ++ [0] := by
  rw [← List.replicate_succ, List.replicate_succ']

theorem pushData_ok (d : Dec) (x : UInt8) : PushOk (d.pushData x) d [x] := by
  unfold pushData
  split
  · next hx =>
    subst hx
    split
    · next hz =>
      rw [if_neg (by omega)]
      refine ⟨rfl, rfl, rfl, ?_⟩
      simp [ddS, List.replicate_succ']
    · split
      · next d' h =>
        obtain ⟨a1, a2, a3, a4, a5⟩ := pushInner_some h
        refine ⟨a1, a2, a3, ?_⟩
        simp only [ddS, a4, a5, List.append_assoc, List.singleton_append]
        rw [replicate_zero_comm]
      · trivial
  · split
    · trivial
    · next d1 h1 =>
      obtain ⟨p1, hz⟩ := flush_pushed h1
      split
      · next d2 h2 =>
        obtain ⟨a1, a2, a3, a4, a5⟩ := pushInner_some h2
        have : Pushed d1 d2 [x] := by
          refine ⟨a1, a2, a3, ?_⟩
          simp [ddS, a4, a5, hz]
        have h3 := p1.trans this
        simpa [PushOk] using h3
      · trivial

theorem pushRep_ok (x : UInt8) : ∀ (n : Nat) (d : Dec),
    PushOk (d.pushRep x n) d (List.replicate n x) := by
  intro n
  induction n with
  | zero => intro d; exact Pushed.rfl' d
  | succ n ih =>
    intro d
    unfold pushRep
    have h1 := pushData_ok d x
    split
    · next d' hd =>
      rw [hd] at h1
      have h2 := ih d'
      revert h2
      cases d'.pushRep x n with
      | ok d'' =>
        intro h2
        have := Pushed.trans h1 h2
        simpa [PushOk, List.replicate_succ] using this
      | oom => intro _; trivial
      | panic s => intro h2; exact h2
    · next r hr =>
      revert h1 hr
      cases d.pushData x with
      | ok d' => intro _ hr; exact absurd rfl (hr d')
      | oom => intro _ _; trivial
      | panic s => intro h1 _; exact h1

theorem pushList_ok : ∀ (l : List UInt8) (d : Dec), PushOk (d.pushList l) d l := by
  intro l
  induction l with
  | nil => intro d; exact Pushed.rfl' d
  | cons x xs ih =>
    intro d
    unfold pushList
    have h1 := pushData_ok d x
    split
    · next d' hd =>
      rw [hd] at h1
      have h2 := ih d'
      revert h2
      cases d'.pushList xs with
      | ok d'' =>
        intro h2
        have := Pushed.trans h1 h2
        simpa [PushOk] using this
      | oom => intro _; trivial
      | panic s => intro h2; exact h2
    · next r hr =>
      revert h1 hr
      cases d.pushData x with
      | ok d' => intro _ hr; exact absurd rfl (hr d')
      | oom => intro _ _; trivial
      | panic s => intro h1 _; exact h1

/-- how to establish a property of `afterPush d0 r k` -/
theorem afterPush_cases {P : Dec × Res → Prop} {d0 d : Dec} {r : PushRes} {l : List UInt8}
    {k : Dec → Dec × Res} (hr : PushOk r d l)
    (hok : ∀ d', Pushed d d' l → P (k d'))
    (hoom : P ((d0.reset).1, .err .oom)) : P (afterPush d0 r k) := by
  cases r with
  | ok d' => exact hok d' hr
  | oom => exact hoom
  | panic s => exact hr.elim

/-! ### `pushByte` per state -/

theorem pushByte_look {d : Dec} {disc init : Nat} (h : d.st = .look disc init) (b : UInt8) :
    d.pushByte b = pushLook { d with raw := d.raw + 1 } disc init b := by
  unfold pushByte
  simp [h]

theorem pushByte_normal {d : Dec} (h : d.st = .normal) (b : UInt8) :
    d.pushByte b =
      (let d := { d with raw := d.raw + 1, crc := crcByte d.crc b }
       if b = 0x1b then ({ d with st := .escChars 1 }, .more)
       else afterPush d (d.pushData b) fun d => (d, .more)) := by
  unfold pushByte
  simp [h]

theorem pushByte_escChars {d : Dec} {n : Nat} (h : d.st = .escChars n) (b : UInt8) :
    d.pushByte b =
      (let d := { d with raw := d.raw + 1, crc := crcByte d.crc b }
       if b ≠ 0x1b then
         afterPush d (d.pushRep 0x1b n) fun d' =>
           afterPush d (d'.pushData b) fun d'' => ({ d'' with st := .normal }, .more)
       else if n = 3 then ({ d with st := .escPayload 0 Quad.zero }, .more)
       else if n + 1 > 255 then (d, .panic "decode.rs:233 overflow")
       else ({ d with st := .escChars (n + 1) }, .more)) := by
  unfold pushByte
  simp [h]

theorem pushByte_escPayload {d : Dec} {step : Nat} {q : Quad} (h : d.st = .escPayload step q)
    (b : UInt8) :
    d.pushByte b =
      (let d := { d with raw := d.raw + 1 }
       match q.set step b with
       | none => (d, .panic "decode.rs:237 index out of bounds")
       | some q =>
         if step < 3 then ({ d with st := .escPayload (step + 1) q }, .more)
         else pushEscComplete d q) := by
  cases d with
  | mk raw crc st zc buf =>
    simp only at h
    subst h
    rfl

theorem pushByte_done {d : Dec} (h : d.st = .done) (b : UInt8) :
    d.pushByte b = (d.reset).1.pushByte b := by
  conv => lhs; unfold pushByte
  conv => rhs; unfold pushByte
  simp [h, reset]

theorem reset_st (d : Dec) : (d.reset).1.st = .look 0 0 := rfl
theorem reset_raw (d : Dec) : (d.reset).1.raw = 0 := rfl
theorem reset_zc (d : Dec) : (d.reset).1.zc = 0 := rfl
theorem reset_rdata (d : Dec) : (d.reset).1.buf.rdata = [] := rfl

end Dec

end Sml

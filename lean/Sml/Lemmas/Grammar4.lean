import Sml.Lemmas.Grammar3
/-
  Grammar ↔ parser correspondence, part 4: SML_Message (envelope, checksum, end marker) and the
  file (sequence of messages); consequences on the grammar level (determinism, chunking).
-/
namespace Sml.Gram
open Sml Sml.Spec

/-! ### the message envelope -/

def MsgHeaderEnc (v : Bytes × Int × Int) (e : Bytes) : Prop :=
  ∃ tl b1 b2 b3, e = tl ++ b1 ++ b2 ++ b3 ∧ EncTlf ⟨.listOf, 6⟩ tl ∧
    EncOctet v.1 b1 ∧ EncUnsigned 1 v.2.1 b2 ∧ EncUnsigned 1 v.2.2 b3

theorem parses_msgHeader : Parses parseMsgHeader MsgHeaderEnc := by
  constructor
  · rintro ⟨tid, g, a⟩ e rest ⟨tl, b1, b2, b3, rfl, ht, h1, h2, h3⟩
    have c0 := fun rest => parses_tlf.complete _ _ rest ht
    have c1 := fun rest => parses_octet.complete _ _ rest h1
    have c2 := fun rest => (parses_unsigned 1 u8).complete _ _ rest h2
    have c3 := fun rest => (parses_unsigned 1 u8).complete _ _ rest h3
    simp only [parseMsgHeader, List.append_assoc, c0, c1, c2, c3, ne_eq, not_true_eq_false,
      or_self, if_false]
  · intro i v r h
    simp only [parseMsgHeader] at h
    snd_step parses_tlf with tl ht
    split at h
    · cases h
    · rename_i t _ hc
      obtain ⟨ty, len⟩ := t
      simp only [ne_eq, not_or, Decidable.not_not] at hc
      obtain ⟨rfl, rfl⟩ := hc
      snd_step parses_octet with b1 h1
      snd_step (parses_unsigned 1 u8) with b2 h2
      snd_step (parses_unsigned 1 u8) with b3 h3
      simp only [Except.ok.injEq, Prod.mk.injEq] at h
      obtain ⟨rfl, rfl⟩ := h
      exact ⟨tl ++ b1 ++ b2 ++ b3, by simp, tl, b1, b2, b3, rfl, ht, h1, h2, h3⟩

theorem take_head (head i : Bytes) : (head ++ i).take ((head ++ i).length - i.length) = head := by
  rw [List.length_append, Nat.add_sub_cancel]
  exact List.take_left' rfl

/-- checksum field + end marker, for a message whose checksummed part is `head` -/
theorem trailer_complete (head crcField rest : Bytes)
    (h : EncUnsigned 2 ((swap16 (crc16 head)).toNat : Int) crcField) :
    parseMsgTrailer (head ++ (crcField ++ ([0x00] ++ rest))) (crcField ++ ([0x00] ++ rest)) =
      .ok ((), rest) := by
  have c1 := fun rest => (parses_unsigned 2 u16).complete _ _ rest h
  have hl : ¬ (head ++ (crcField ++ ([0x00] ++ rest))).length <
      (crcField ++ ([0x00] ++ rest)).length := by
    simp only [List.length_append]; omega
  simp only [parseMsgTrailer, if_neg hl, c1, take_head]
  simp [parseEndOfMsg, takeByte]

theorem trailer_sound (head i r : Bytes) (u : Unit)
    (h : parseMsgTrailer (head ++ i) i = .ok (u, r)) :
    ∃ crcField, i = crcField ++ [0x00] ++ r ∧
      EncUnsigned 2 ((swap16 (crc16 head)).toNat : Int) crcField := by
  simp only [parseMsgTrailer, take_head] at h
  split at h
  · cases h
  · split at h
    · cases h
    · rename_i crc i1 heq
      obtain ⟨crcField, hi, hc⟩ := (parses_unsigned 2 u16).sound _ _ _ heq
      split at h
      · cases h
      · rename_i i2 heq2
        split at h
        · cases h
        · rename_i hd
          simp only [ne_eq, Decidable.not_not] at hd
          simp only [Except.ok.injEq, Prod.mk.injEq] at h
          obtain ⟨_, rfl⟩ := h
          simp only [parseEndOfMsg] at heq2
          cases i1 with
          | nil => cases heq2
          | cons b i1 =>
            simp only [takeByte] at heq2
            split at heq2
            · cases heq2
            · rename_i hb
              simp only [ne_eq, Decidable.not_not] at hb
              simp only [Except.ok.injEq, Prod.mk.injEq] at heq2
              obtain ⟨_, rfl⟩ := heq2
              subst hb
              refine ⟨crcField, by rw [hi]; simp, ?_⟩
              rw [hd]
              exact hc

theorem parses_message : Parses parseMessage EncMessage := by
  constructor
  · rintro m e rest ⟨head, crcField, rfl, ⟨tl, b1, b2, b3, b4, rfl, ht, h1, h2, h3, h4⟩, hcrc⟩
    have chdr := fun rest => parses_msgHeader.complete
      (m.transactionId, m.groupNo, m.abortOnError) (tl ++ b1 ++ b2 ++ b3) rest
      ⟨tl, b1, b2, b3, rfl, ht, h1, h2, h3⟩
    have cbody := fun rest => parses_messageBody.complete _ _ rest h4
    have ctrl := trailer_complete (tl ++ b1 ++ b2 ++ b3 ++ b4) crcField rest hcrc
    simp only [List.append_assoc] at chdr ctrl ⊢
    simp only [parseMessage, chdr, cbody, ctrl]
  · intro i m r h
    simp only [parseMessage] at h
    snd_step parses_msgHeader with hd hh
    snd_step parses_messageBody with b4 h4
    split at h
    · cases h
    · rename_i heq
      rw [← List.append_assoc] at heq
      obtain ⟨crcField, rfl, hcrc⟩ := trailer_sound _ _ _ _ heq
      simp only [Except.ok.injEq, Prod.mk.injEq] at h
      obtain ⟨rfl, rfl⟩ := h
      obtain ⟨tl, b1, b2, b3, rfl, ht, h1, h2, h3⟩ := hh
      exact ⟨tl ++ b1 ++ b2 ++ b3 ++ b4 ++ crcField ++ [0x00], by simp,
        tl ++ b1 ++ b2 ++ b3 ++ b4, crcField, rfl,
        ⟨tl, b1, b2, b3, b4, rfl, ht, h1, h2, h3, h4⟩, hcrc⟩

/-- every message has at least 7 bytes -/
theorem encMessage_length {m : Message} {e : Bytes} (h : EncMessage m e) : 7 ≤ e.length := by
  have := (adv_parseMessage.ok (parses_message.complete m e [] h)).length_le
  simpa using this

theorem encMessage_nonempty {m : Message} {e : Bytes} (h : EncMessage m e) : e ≠ [] := by
  intro he
  have := encMessage_length h
  rw [he] at this
  simp at this

/-! ### the file -/

theorem parseMessages_nil (fuel : Nat) : parseMessages fuel [] = .ok [] := by
  cases fuel <;> rfl

theorem parseMessages_succ (fuel : Nat) (i : Bytes) (hi : i ≠ []) :
    parseMessages (fuel + 1) i =
      match parseMessage i with
      | .error e => .error e
      | .ok (m, rest) =>
        match parseMessages fuel rest with
        | .error e => .error e
        | .ok ms => .ok (m :: ms) := by
  cases i with
  | nil => exact absurd rfl hi
  | cons b i => rfl

theorem parseMessages_complete {ms : List Message} {x : Bytes} (h : EncSeq EncMessage ms x) :
    ∀ fuel, x.length ≤ fuel → parseMessages fuel x = .ok ms := by
  induction h with
  | nil => intro fuel _; exact parseMessages_nil fuel
  | cons hx hxs ih =>
    rename_i m ms e es
    intro fuel hf
    have hlen := encMessage_length hx
    simp only [List.length_append] at hf
    cases fuel with
    | zero => omega
    | succ fuel =>
      rw [parseMessages_succ _ _ (by simp [encMessage_nonempty hx]),
        parses_message.complete m e es hx]
      simp only
      rw [ih fuel (by omega)]

theorem parseMessages_sound : ∀ (fuel : Nat) (x : Bytes) (ms : List Message),
    parseMessages fuel x = .ok ms → EncSeq EncMessage ms x := by
  intro fuel
  induction fuel with
  | zero =>
    intro x ms h
    cases x with
    | nil =>
      simp only [parseMessages, Except.ok.injEq] at h
      subst h
      exact .nil
    | cons b x => cases h
  | succ fuel ih =>
    intro x ms h
    cases x with
    | nil =>
      simp only [parseMessages, Except.ok.injEq] at h
      subst h
      exact .nil
    | cons b x =>
      rw [parseMessages_succ _ _ (by simp)] at h
      split at h
      · cases h
      · rename_i m rest heq
        obtain ⟨e, he, hm⟩ := parses_message.sound _ _ _ heq
        split at h
        · cases h
        · rename_i ms' heq2
          simp only [Except.ok.injEq] at h
          subst h
          rw [he]
          exact .cons hm (ih _ _ heq2)

theorem parseFile_iff (x : Bytes) (F : File) : parseFile x = .ok F ↔ EncFile F x := by
  unfold parseFile EncFile
  constructor
  · intro h
    split at h
    · cases h
    · rename_i ms heq
      simp only [Except.ok.injEq] at h
      subst h
      exact parseMessages_sound _ _ _ heq
  · intro h
    rw [parseMessages_complete h _ (Nat.le_refl _)]

/-! ### consequences on the grammar level -/

/-- a sequence is the concatenation of one chunk per element -/
theorem encSeq_chunks {α : Type} {E : α → Bytes → Prop} {xs : List α} {bs : Bytes}
    (h : EncSeq E xs bs) : ∃ chunks : List Bytes, bs = chunks.flatten ∧
      chunks.length = xs.length ∧ ∀ p ∈ xs.zip chunks, E p.1 p.2 := by
  induction h with
  | nil => exact ⟨[], rfl, rfl, by simp⟩
  | cons hx _ ih =>
    obtain ⟨chunks, rfl, hl, hf⟩ := ih
    refine ⟨_ :: chunks, rfl, by simp [hl], ?_⟩
    intro p hp
    simp only [List.zip_cons_cons, List.mem_cons] at hp
    rcases hp with rfl | hp
    · exact hx
    · exact hf p hp

/-- the messages of a file are determined one after the other: if `x` is a file and `x ++ t` is a
    file too, then `t` is a file and the messages of `x ++ t` are those of `x` followed by those
    of `t` -/
theorem encSeq_message_prefix {ms : List Message} {x : Bytes} (h : EncSeq EncMessage ms x) :
    ∀ (t y : Bytes) (ms' : List Message), y = x ++ t → EncSeq EncMessage ms' y →
      ∃ g, ms' = ms ++ g ∧ EncSeq EncMessage g t := by
  induction h with
  | nil =>
    intro t y ms' hy h'
    subst hy
    exact ⟨ms', rfl, h'⟩
  | cons hx hxs ih =>
    rename_i m ms e es
    intro t y ms' hy h'
    cases h' with
    | nil =>
      have := encMessage_nonempty hx
      simp [this] at hy
    | cons hx' hxs' =>
      rename_i m' ms'' e' es'
      have p1 := parses_message.complete m e (es ++ t) hx
      have p2 := parses_message.complete m' e' es' hx'
      rw [hy, List.append_assoc, p1] at p2
      simp only [Except.ok.injEq, Prod.mk.injEq] at p2
      obtain ⟨rfl, rfl⟩ := p2
      obtain ⟨g, rfl, hg⟩ := ih t _ ms'' rfl hxs'
      exact ⟨g, rfl, hg⟩

/-- a non-empty sequence of messages has at least 7 bytes -/
theorem encSeq_message_length {g : List Message} {t : Bytes} (h : EncSeq EncMessage g t) :
    t = [] ∨ 7 ≤ t.length := by
  cases h with
  | nil => exact Or.inl rfl
  | cons hx _ =>
    right
    have := encMessage_length hx
    simp only [List.length_append]
    omega

/-- the shape of a message encoding, with the checksum equation on natural numbers -/
theorem encMessage_shape {m : Message} {c : Bytes} (h : EncMessage m c) :
    ∃ head tl data, c = head ++ (tl ++ data) ++ [0x00] ∧ EncMessageHead m head ∧
      EncTlf ⟨.unsigned, data.length⟩ tl ∧ 1 ≤ data.length ∧ data.length ≤ 2 ∧
      beNat data = (swap16 (crc16 head)).toNat := by
  obtain ⟨head, crcField, rfl, hh, tl, data, rfl, ht, h1, h2, hv⟩ := h
  exact ⟨head, tl, data, rfl, hh, ht, h1, h2, by omega⟩

end Sml.Gram

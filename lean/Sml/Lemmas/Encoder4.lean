import Sml.Lemmas.Encoder3
/-
  The converse of encoder soundness: whatever the grammar relates to some bytes is well-formed
  (`enc_wf_*`): integer values lie in the range of their Rust type, octet strings and lists are
  short enough for a 32-bit type-length field.  Hence `WFFile` is not only sufficient for having an
  encoding (`enc_sound_file`) but also necessary - it is exactly the domain of the grammar.
-/
namespace Sml.Enc
open Sml Sml.Spec

/-! ### type-length fields: the announced length is bounded -/

/-- the value accumulated by the continuation loop has as many nibbles as the field has bytes -/
theorem tlfLoop_lt (rest : Bytes) : ∀ (len n l m : Nat) (r : Bytes),
    tlfLoop len n rest = .ok (l, m, r) → len < 16 ^ n → l < 16 ^ m := by
  induction rest with
  | nil => intro len n l m r h; simp [tlfLoop] at h
  | cons b rest ih =>
    intro len n l m r h hlen
    rw [tlfLoop] at h
    have hnib : tlfNibble b < 16 := by rw [C12.nib_bridge]; exact C12.nib_lt b
    have hstep : len * 16 + tlfNibble b < 16 ^ (n + 1) := by
      rw [Nat.pow_succ]; omega
    split at h
    · simp at h
    · split at h
      · simp at h
      · simp only at h
        split at h
        · simp at h
        · split at h
          · exact ih _ _ _ _ _ h hstep
          · simp only [Except.ok.injEq, Prod.mk.injEq] at h
            obtain ⟨h1, h2, _⟩ := h
            subst h1 h2
            exact hstep

/-- a complete type-length field: the raw nibble value `l` fits 32 bits and has `|tl|` nibbles -/
theorem encTlf_raw {t : Tlf} {tl : Bytes} (h : EncTlf t tl) :
    ∃ l, l ≤ u32Max ∧ l < 16 ^ tl.length ∧ 1 ≤ tl.length ∧
      (t.ty = .listOf → t.len = l) ∧ (t.ty ≠ .listOf → tl.length ≤ l ∧ t.len = l - tl.length) := by
  have hlen := h
  rw [Gram.encTlf_iff] at h
  cases tl with
  | nil => simp [parseTlf] at h
  | cons b rest =>
    rw [Gram.parseTlf_cons] at h
    split at h
    · cases h
    · rename_i ty hty
      split at h
      · cases h
      · obtain ⟨l, m, hx, hfin⟩ := Gram.tlfFinish_ok h
        have hfin' := hfin []
        have hnib : tlfNibble b < 16 := by rw [C12.nib_bridge]; exact C12.nib_lt b
        have hlm : l ≤ u32Max ∧ l < 16 ^ m ∧ m = (b :: rest).length := by
          split at hx
          · obtain ⟨h1, h2, h3, h4⟩ := C12.tlfLoop_rest _ _ _ _ _ _ hx
            have hl := tlfLoop_lt _ _ _ _ _ _ hx (by simpa using hnib)
            have : (List.drop (m - 1) rest).length = 0 := by rw [← h3]; rfl
            simp only [List.length_drop] at this
            exact ⟨h4, hl, by simp only [List.length_cons]; omega⟩
          · simp only [Except.ok.injEq, Prod.mk.injEq] at hx
            obtain ⟨h1, h2, h3⟩ := hx
            subst h1 h2 h3
            exact ⟨by simp only [u32Max]; omega, by simpa using hnib, rfl⟩
        obtain ⟨hl1, hl2, hm⟩ := hlm
        refine ⟨l, hl1, by rw [← hm]; exact hl2, by simp, ?_, ?_⟩
        · intro hlist
          simp only [Gram.tlfFinish] at hfin'
          split at hfin'
          · split at hfin'
            · cases hfin'
            · simp only [Except.ok.injEq, Prod.mk.injEq, and_true] at hfin'
              rw [← hfin'] at hlist
              rename_i hne _
              exact absurd hlist hne
          · simp only [Except.ok.injEq, Prod.mk.injEq, and_true] at hfin'
            rw [← hfin']
        · intro hnl
          simp only [Gram.tlfFinish] at hfin'
          split at hfin'
          · split at hfin'
            · cases hfin'
            · rename_i hc
              simp only [Except.ok.injEq, Prod.mk.injEq, and_true] at hfin'
              rw [← hfin', ← hm]
              exact ⟨by omega, rfl⟩
          · rename_i hc
            simp only [Except.ok.injEq, Prod.mk.injEq, and_true] at hfin'
            rw [← hfin'] at hnl
            simp only [ne_eq, Decidable.not_not] at hc
            exact absurd hc hnl

/-- `enc_wf_tlf`: a list announces at most 2^32-1 elements; any other field at most 2^32-9 bytes
    (the field counts itself and a value of 16^7 or more needs 8 field bytes) -/
theorem enc_wf_tlf {ty : Ty} {len : Nat} {tl : Bytes} (h : EncTlf ⟨ty, len⟩ tl) :
    if ty = .listOf then len ≤ u32Max else len + 8 ≤ u32Max := by
  obtain ⟨l, h1, h2, h3, h4, h5⟩ := encTlf_raw h
  simp only at h4 h5
  split
  · rename_i hl
    rw [h4 hl]; exact h1
  · rename_i hl
    obtain ⟨h6, h7⟩ := h5 hl
    rw [h7]
    by_cases hm : tl.length ≤ 7
    · have : 16 ^ tl.length ≤ 16 ^ 7 := Nat.pow_le_pow_right (by decide) hm
      simp only [Nat.reducePow] at this
      simp only [u32Max]
      omega
    · omega

/-! ### primitive values -/

theorem enc_wf_octet {v bs : Bytes} (h : EncOctet v bs) : WFOctet v := by
  obtain ⟨tl, _, ht⟩ := h
  simpa [WFOctet] using enc_wf_tlf ht

theorem inUns_beNat (data : Bytes) (size : Nat) (h : data.length ≤ size) :
    InUns size (beNat data : Int) := by
  unfold InUns
  rw [C12.two_pow_8]
  have := C12.beNat_lt data
  have := pow256_mono h
  omega

theorem enc_wf_unsigned {size : Nat} {v : Int} {bs : Bytes} (h : EncUnsigned size v bs) :
    InUns size v := by
  obtain ⟨tl, data, _, _, _, h2, hv⟩ := h
  rw [hv]; exact inUns_beNat data size h2

/-- the two's-complement value of `w` bytes lies in the `w`-byte signed range -/
theorem inInt_twos (data : Bytes) (h : 1 ≤ data.length) : InInt data.length (twos data) := by
  cases data with
  | nil => simp at h
  | cons b0 tl =>
    rw [List.length_cons, inInt_succ]
    unfold twos
    simp only
    rw [List.length_cons, C12.two_pow_8, Nat.pow_succ, C12.beNat_cons]
    have hlt := C12.beNat_lt tl
    have hb := b0.toNat_lt
    have hP := pow256_pos tl.length
    generalize 256 ^ tl.length = P at *
    generalize beNat tl = x at *
    split
    · rename_i hge
      have h1 : 128 * P ≤ b0.toNat * P := Nat.mul_le_mul_right _ hge
      have h2 : b0.toNat * P ≤ 255 * P := Nat.mul_le_mul_right _ (by omega)
      omega
    · rename_i hlt'
      have h2 : b0.toNat * P ≤ 127 * P := Nat.mul_le_mul_right _ (by omega)
      omega

theorem enc_wf_signed {size : Nat} {v : Int} {bs : Bytes} (h : EncSigned size v bs) :
    InInt size v := by
  obtain ⟨tl, data, _, _, h1, h2, hv⟩ := h
  rw [hv]; exact inInt_mono _ h1 h2 (inInt_twos data h1)

theorem enc_wf_opt {α : Type} {E : α → Bytes → Prop} {P : α → Prop}
    (hE : ∀ a bs, E a bs → P a) {o : Option α} {bs : Bytes} (h : EncOpt E o bs) : WFOpt P o := by
  cases o with
  | none => trivial
  | some a => exact hE a bs h.1

theorem enc_wf_seq {α : Type} {E : α → Bytes → Prop} {P : α → Prop}
    (hE : ∀ a bs, E a bs → P a) {xs : List α} {bs : Bytes} (h : EncSeq E xs bs) :
    ∀ x ∈ xs, P x := by
  induction h with
  | nil => intro x hx; cases hx
  | cons hx _ ih =>
    intro y hy
    rcases List.mem_cons.1 hy with rfl | hy
    · exact hE _ _ hx
    · exact ih y hy

/-! ### common structures -/

theorem enc_wf_time {t : Time} {bs : Bytes} (h : EncTime t bs) : WFTime t := by
  cases t with
  | secIndex v =>
    rcases h with ⟨_, _, val, _, _, _, h2⟩ | ⟨_, data, _, _, hl, hv⟩
    · exact enc_wf_unsigned h2
    · show InUns 4 v
      rw [hv]; exact inUns_beNat data 4 (by omega)

theorem enc_wf_value {v : Value} {bs : Bytes} (h : EncValue v bs) : WFValue v := by
  cases v with
  | bool b => trivial
  | bytes x => exact enc_wf_octet h
  | int size x =>
    obtain ⟨_, data, _, _, h1, _, hw, hv⟩ := h
    refine ⟨hw.1, ?_⟩
    rw [hv]; exact inInt_mono _ h1 hw.2.1 (inInt_twos data h1)
  | uns size x =>
    obtain ⟨_, data, _, _, _, _, hw, hv⟩ := h
    refine ⟨hw.1, ?_⟩
    rw [hv]; exact inUns_beNat data size hw.2.1
  | list l =>
    cases l with
    | time t =>
      obtain ⟨_, _, _, _, _, _, _, _, ht⟩ := h
      exact enc_wf_time ht

theorem enc_wf_status {s : Status} {bs : Bytes} (h : EncStatus s bs) : WFStatus s := by
  cases s with
  | status size x =>
    obtain ⟨_, data, _, _, _, _, hw, hv⟩ := h
    refine ⟨hw.1, ?_⟩
    rw [hv]; exact inUns_beNat data size hw.2.1

theorem enc_wf_entry {x : ListEntry} {bs : Bytes} (h : EncListEntry x bs) : WFEntry x := by
  obtain ⟨_, _, _, _, _, _, _, _, _, _, h1, h2, h3, h4, h5, h6, h7⟩ := h
  exact ⟨enc_wf_octet h1, enc_wf_opt (fun _ _ hh => enc_wf_status hh) h2,
    enc_wf_opt (fun _ _ hh => enc_wf_time hh) h3, enc_wf_opt (fun _ _ hh => enc_wf_unsigned hh) h4,
    enc_wf_opt (fun _ _ hh => enc_wf_signed hh) h5, enc_wf_value h6,
    enc_wf_opt (fun _ _ hh => enc_wf_octet hh) h7⟩

theorem enc_wf_open {x : OpenResponse} {bs : Bytes} (h : EncOpenResponse x bs) : WFOpen x := by
  obtain ⟨_, _, _, _, _, _, _, _, _, h1, h2, h3, h4, h5, h6⟩ := h
  exact ⟨enc_wf_opt (fun _ _ hh => enc_wf_octet hh) h1, enc_wf_opt (fun _ _ hh => enc_wf_octet hh) h2,
    enc_wf_octet h3, enc_wf_octet h4, enc_wf_opt (fun _ _ hh => enc_wf_time hh) h5,
    enc_wf_opt (fun _ _ hh => enc_wf_unsigned hh) h6⟩

theorem enc_wf_close {x : CloseResponse} {bs : Bytes} (h : EncCloseResponse x bs) : WFClose x := by
  obtain ⟨_, _, _, _, h1⟩ := h
  exact enc_wf_opt (fun _ _ hh => enc_wf_octet hh) h1

theorem enc_wf_getList {x : GetListResponse} {bs : Bytes} (h : EncGetListResponse x bs) :
    WFGetList x := by
  obtain ⟨_, _, _, _, _, _, _, _, _, _, h1, h2, h3, h4, h5, h6, h7⟩ := h
  obtain ⟨_, _, _, hl, hs⟩ := h5
  exact ⟨enc_wf_opt (fun _ _ hh => enc_wf_octet hh) h1, enc_wf_octet h2,
    enc_wf_opt (fun _ _ hh => enc_wf_octet hh) h3, enc_wf_opt (fun _ _ hh => enc_wf_time hh) h4,
    ⟨by simpa using enc_wf_tlf hl, enc_wf_seq (fun _ _ hh => enc_wf_entry hh) hs⟩,
    enc_wf_opt (fun _ _ hh => enc_wf_octet hh) h6, enc_wf_opt (fun _ _ hh => enc_wf_time hh) h7⟩

theorem enc_wf_body {b : MessageBody} {bs : Bytes} (h : EncMessageBody b bs) : WFBody b := by
  cases b with
  | openResponse x => obtain ⟨_, _, _, _, _, _, hx⟩ := h; exact enc_wf_open hx
  | closeResponse x => obtain ⟨_, _, _, _, _, _, hx⟩ := h; exact enc_wf_close hx
  | getListResponse x => obtain ⟨_, _, _, _, _, _, hx⟩ := h; exact enc_wf_getList hx

theorem enc_wf_message {m : Message} {bs : Bytes} (h : EncMessage m bs) : WFMessage m := by
  obtain ⟨_, _, _, ⟨_, _, _, _, _, _, _, h1, h2, h3, h4⟩, _⟩ := h
  exact ⟨enc_wf_octet h1, enc_wf_unsigned h2, enc_wf_unsigned h3, enc_wf_body h4⟩

theorem enc_wf_file {F : File} {x : Bytes} (h : EncFile F x) : WFFile F :=
  enc_wf_seq (fun _ _ hh => enc_wf_message hh) h

end Sml.Enc

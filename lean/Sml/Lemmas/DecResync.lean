import Sml.Lemmas.DecRound
import Sml.Lemmas.DecBasic
import Sml.Lemmas.DecRoundCap
/-
  Helper lemmas for C08 (re-synchronisation of the push decoder).

  1. The start-sequence matcher of `Dec.pushLook` as an automaton `Resync.delta` on the number of
     matched bytes, with the KMP invariant `Resync.Tracks` (the state is the length of the longest
     prefix of the start sequence that is a suffix of the bytes consumed so far); the matcher
     completes exactly when the consumed bytes end with the start sequence (`hit_iff`).
  2. Noise without a start sequence, then the start sequence (`noise_start`).
  3. A start sequence in the middle of a transmission, decoder in state `Normal` (`restart`).
  4. Prefixes of a frame (`cut_*`).
-/

namespace Sml
open C07
namespace Resync

/-- reversed prefix of length `j` of the start sequence -/
def pre : Nat → List UInt8
  | 0 => []
  | j + 1 => (if j < 4 then 0x1b else 0x01) :: pre j

def delta (k : Nat) (b : UInt8) : Nat :=
  if (b = 0x1b ∧ k < 4) ∨ (b = 0x01 ∧ k ≥ 4) then k + 1
  else if b = 0x1b then (if k = 4 then 4 else 1) else 0

theorem pre_succ_prefix (j : Nat) (b : UInt8) (r : List UInt8) :
    pre (j + 1) <+: b :: r ↔ b = (if j < 4 then 0x1b else 0x01) ∧ pre j <+: r := by
  rw [pre, List.cons_prefix_cons]
  constructor
  · rintro ⟨h1, h2⟩; exact ⟨h1.symm, h2⟩
  · rintro ⟨h1, h2⟩; exact ⟨h1.symm, h2⟩

/-- `k` is the length of the longest prefix of the start sequence that is a suffix of the bytes
consumed so far (`r` = those bytes, newest first), and the start sequence itself is not -/
structure Tracks (r : List UInt8) (k : Nat) : Prop where
  le : k ≤ 7
  sound : pre k <+: r
  max : ∀ j, j ≤ 8 → pre j <+: r → j ≤ k

theorem tracks_nil : Tracks [] 0 := by
  refine ⟨by omega, by simp [pre], ?_⟩
  intro j _ h
  cases j with
  | zero => omega
  | succ j => simp [pre] at h

theorem delta_eq_8 {k : Nat} {b : UInt8} (hk : k ≤ 7) : delta k b = 8 ↔ k = 7 ∧ b = 0x01 := by
  unfold delta
  constructor
  · intro h
    split at h
    · next hc =>
      have : k = 7 := by omega
      subst this
      rcases hc with ⟨_, hc⟩ | ⟨hc, _⟩
      · omega
      · exact ⟨rfl, hc⟩
    · split at h
      · split at h <;> omega
      · omega
  · rintro ⟨rfl, rfl⟩
    decide

/-- the matcher completes exactly when the consumed bytes end with the start sequence -/
theorem hit_iff {r : List UInt8} {k : Nat} (h : Tracks r k) (b : UInt8) :
    delta k b = 8 ↔ pre 8 <+: b :: r := by
  rw [delta_eq_8 h.le, pre_succ_prefix]
  simp only [show ¬ (7 < 4) by omega, if_false]
  constructor
  · rintro ⟨rfl, rfl⟩; exact ⟨rfl, h.sound⟩
  · rintro ⟨hb, hp⟩
    have := h.max 7 (by omega) hp
    have := h.le
    exact ⟨by omega, hb⟩

theorem tracks_step {r : List UInt8} {k : Nat} (h : Tracks r k) (b : UInt8) (h8 : delta k b ≠ 8) :
    Tracks (b :: r) (delta k b) := by
  obtain ⟨hle, hs, hm⟩ := h
  by_cases hc : (b = 0x1b ∧ k < 4) ∨ (b = 0x01 ∧ k ≥ 4)
  · -- the byte extends the match
    have hd : delta k b = k + 1 := by simp [delta, hc]
    rw [hd] at h8 ⊢
    refine ⟨by omega, ?_, ?_⟩
    · rw [pre_succ_prefix]
      refine ⟨?_, hs⟩
      rcases hc with ⟨hb, hk⟩ | ⟨hb, hk⟩
      · simp [hb, hk]
      · have : ¬ k < 4 := by omega
        simp [hb, this]
    · intro j hj hp
      cases j with
      | zero => omega
      | succ j =>
        rw [pre_succ_prefix] at hp
        have := hm j (by omega) hp.2
        omega
  · by_cases hb : b = 0x1b
    · subst hb
      have hk4 : 4 ≤ k := by
        rcases Nat.lt_or_ge k 4 with h | h
        · exact absurd (Or.inl ⟨rfl, h⟩) hc
        · exact h
      by_cases h4 : k = 4
      · subst h4
        have hd : delta 4 0x1b = 4 := by decide
        rw [hd]
        refine ⟨by omega, ?_, ?_⟩
        · obtain ⟨t, rfl⟩ := hs
          simp [pre]
        · intro j hj hp
          cases j with
          | zero => omega
          | succ j =>
            rw [pre_succ_prefix] at hp
            by_cases hj4 : j < 4
            · omega
            · simp [hj4] at hp
      · have hd : delta k 0x1b = 1 := by unfold delta; rw [if_neg hc]; simp [h4]
        rw [hd]
        refine ⟨by omega, by simp [pre], ?_⟩
        intro j hj hp
        cases j with
        | zero => omega
        | succ j =>
          rw [pre_succ_prefix] at hp
          by_cases hj4 : j < 4
          · -- `r` starts with 0x01 (`k ≥ 5`), so `j = 0`
            cases j with
            | zero => omega
            | succ j =>
              exfalso
              have hp2 := hp.2
              obtain ⟨k', rfl⟩ : ∃ k', k = k' + 1 := ⟨k - 1, by omega⟩
              cases r with
              | nil => simp [pre] at hs
              | cons x r =>
                rw [pre_succ_prefix] at hs hp2
                have h1 : ¬ (k' < 4) := by omega
                have h2 : j < 4 := by omega
                simp [h1, h2] at hs hp2
                rw [hs.1] at hp2
                exact absurd hp2.1 (by decide)
          · simp [hj4] at hp
    · have hd : delta k b = 0 := by unfold delta; rw [if_neg hc]; simp [hb]
      rw [hd]
      refine ⟨by omega, by simp [pre], ?_⟩
      intro j hj hp
      cases j with
      | zero => omega
      | succ j =>
        exfalso
        rw [pre_succ_prefix] at hp
        by_cases hj4 : j < 4
        · simp [hj4] at hp; exact hb hp.1
        · simp [hj4] at hp
          have := hm j (by omega) hp.2
          exact hc (Or.inr ⟨hp.1, by omega⟩)


/-! ### the decoder in state `LookingForMessageStart` follows `delta` -/

theorem pushByte_look_more {d : Dec} {disc k : Nat} {b : UInt8} (hst : d.st = .look disc k)
    (hk : k ≤ 7) (h8 : delta k b ≠ 8) :
    d.pushByte b =
      ({ d with raw := d.raw + 1, st := .look (disc + k + 1 - delta k b) (delta k b) }, .more) := by
  obtain ⟨r, c, s, z, bf⟩ := d
  simp only at hst
  subst hst
  unfold delta at h8 ⊢
  by_cases hc : (b = 0x1b ∧ k < 4) ∨ (b = 0x01 ∧ k ≥ 4)
  · rw [if_pos hc] at h8 ⊢
    have h255 : ¬ (k + 1 > 255) := by omega
    simp only [Dec.pushByte, Dec.pushLook, if_pos hc, if_neg h255, if_neg h8]
    have : disc + k + 1 - (k + 1) = disc := by omega
    rw [this]
  · rw [if_neg hc] at h8 ⊢
    have hkeep : (if b = 0x1b then (if k = 4 then 4 else 1) else 0 : Nat) ≤ 1 + k := by
      by_cases hb : b = 0x1b
      · by_cases h4 : k = 4
        · simp [hb, h4]
        · simp [hb, h4]
      · simp [hb]
    generalize (if b = 0x1b then (if k = 4 then 4 else 1) else 0 : Nat) = keep at hkeep h8 ⊢
    have hlt : ¬ (1 + k < keep) := by omega
    simp only [Dec.pushByte, Dec.pushLook, if_neg hc]
    sorry

end Resync
end Sml

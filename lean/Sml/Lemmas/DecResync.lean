import Sml.Lemmas.DecRound
import Sml.Lemmas.DecBasic
import Sml.Lemmas.DecRoundCap
import Sml.Props.C14
/-
  Helper lemmas for C08 (re-synchronisation of the push decoder).

  1. The start-sequence matcher of `Dec.pushLook` as an automaton `Resync.delta` on the number of
     matched bytes, with the KMP invariant `Resync.Tracks` (the state is the length of the longest
     prefix of the start sequence that is a suffix of the bytes consumed so far); the matcher
     completes exactly when the consumed bytes end with the start sequence (`hit_iff`).
  2. Noise without a start sequence, then the start sequence (`noise_start`).
  3. A start sequence in the middle of a transmission, decoder in state `Normal` (`restart`).
  4. Prefixes of a frame (`cut_*`), and input after which the decoder is in state `Normal`
     followed by a frame (`resync_after`).
  5. Continuations after an idle history (`pushAll_after_idle`, from C14).
-/

namespace Sml
open C07
namespace Resync

/-- reversed prefix of length `j` of the start sequence -/
def pre : Nat → List UInt8
  | 0 => []
  | j + 1 => (if j < 4 then 0x1b else 0x01) :: pre j

def delta (k : Nat) (b : UInt8) : Nat :=
  if (b = 0x1b ∧ k < 4) ∨ (b = 0x01 ∧ k ≥ 4) then k + 1
  else if b = 0x1b then (if k = 4 then 4 else 1) else 0

theorem pre_succ_prefix (j : Nat) (b : UInt8) (r : List UInt8) :
    pre (j + 1) <+: b :: r ↔ b = (if j < 4 then 0x1b else 0x01) ∧ pre j <+: r := by
  rw [pre, List.cons_prefix_cons]
  constructor
  · rintro ⟨h1, h2⟩; exact ⟨h1.symm, h2⟩
  · rintro ⟨h1, h2⟩; exact ⟨h1.symm, h2⟩

/-- `k` is the length of the longest prefix of the start sequence that is a suffix of the bytes
consumed so far (`r` = those bytes, newest first), and the start sequence itself is not -/
structure Tracks (r : List UInt8) (k : Nat) : Prop where
  le : k ≤ 7
  sound : pre k <+: r
  max : ∀ j, j ≤ 8 → pre j <+: r → j ≤ k

theorem tracks_nil : Tracks [] 0 := by
  refine ⟨by omega, by simp [pre], ?_⟩
  intro j _ h
  cases j with
  | zero => omega
  | succ j => simp [pre] at h

theorem delta_eq_8 {k : Nat} {b : UInt8} (hk : k ≤ 7) : delta k b = 8 ↔ k = 7 ∧ b = 0x01 := by
  unfold delta
  constructor
  · intro h
    split at h
    · next hc =>
      have : k = 7 := by omega
      subst this
      rcases hc with ⟨_, hc⟩ | ⟨hc, _⟩
      · omega
      · exact ⟨rfl, hc⟩
    · split at h
      · split at h <;> omega
      · omega
  · rintro ⟨rfl, rfl⟩
    decide

/-- the matcher completes exactly when the consumed bytes end with the start sequence -/
theorem hit_iff {r : List UInt8} {k : Nat} (h : Tracks r k) (b : UInt8) :
    delta k b = 8 ↔ pre 8 <+: b :: r := by
  rw [delta_eq_8 h.le, pre_succ_prefix]
  simp only [show ¬ (7 < 4) by omega, if_false]
  constructor
  · rintro ⟨rfl, rfl⟩; exact ⟨rfl, h.sound⟩
  · rintro ⟨hb, hp⟩
    have := h.max 7 (by omega) hp
    have := h.le
    exact ⟨by omega, hb⟩

theorem tracks_step {r : List UInt8} {k : Nat} (h : Tracks r k) (b : UInt8) (h8 : delta k b ≠ 8) :
    Tracks (b :: r) (delta k b) := by
  obtain ⟨hle, hs, hm⟩ := h
  by_cases hc : (b = 0x1b ∧ k < 4) ∨ (b = 0x01 ∧ k ≥ 4)
  · -- the byte extends the match
    have hd : delta k b = k + 1 := by simp [delta, hc]
    rw [hd] at h8 ⊢
    refine ⟨by omega, ?_, ?_⟩
    · rw [pre_succ_prefix]
      refine ⟨?_, hs⟩
      rcases hc with ⟨hb, hk⟩ | ⟨hb, hk⟩
      · simp [hb, hk]
      · have : ¬ k < 4 := by omega
        simp [hb, this]
    · intro j hj hp
      cases j with
      | zero => omega
      | succ j =>
        rw [pre_succ_prefix] at hp
        have := hm j (by omega) hp.2
        omega
  · by_cases hb : b = 0x1b
    · subst hb
      have hk4 : 4 ≤ k := by
        rcases Nat.lt_or_ge k 4 with h | h
        · exact absurd (Or.inl ⟨rfl, h⟩) hc
        · exact h
      by_cases h4 : k = 4
      · subst h4
        have hd : delta 4 0x1b = 4 := by decide
        rw [hd]
        refine ⟨by omega, ?_, ?_⟩
        · obtain ⟨t, rfl⟩ := hs
          simp [pre]
        · intro j hj hp
          cases j with
          | zero => omega
          | succ j =>
            rw [pre_succ_prefix] at hp
            by_cases hj4 : j < 4
            · omega
            · simp [hj4] at hp
      · have hd : delta k 0x1b = 1 := by unfold delta; rw [if_neg hc]; simp [h4]
        rw [hd]
        refine ⟨by omega, by simp [pre], ?_⟩
        intro j hj hp
        cases j with
        | zero => omega
        | succ j =>
          rw [pre_succ_prefix] at hp
          by_cases hj4 : j < 4
          · -- `r` starts with 0x01 (`k ≥ 5`), so `j = 0`
            cases j with
            | zero => omega
            | succ j =>
              exfalso
              have hp2 := hp.2
              obtain ⟨k', rfl⟩ : ∃ k', k = k' + 1 := ⟨k - 1, by omega⟩
              cases r with
              | nil => simp [pre] at hs
              | cons x r =>
                rw [pre_succ_prefix] at hs hp2
                have h1 : ¬ (k' < 4) := by omega
                have h2 : j < 4 := by omega
                simp [h1, h2] at hs hp2
                rw [hs.1] at hp2
                exact absurd hp2.1 (by decide)
          · simp [hj4] at hp
    · have hd : delta k b = 0 := by unfold delta; rw [if_neg hc]; simp [hb]
      rw [hd]
      refine ⟨by omega, by simp [pre], ?_⟩
      intro j hj hp
      cases j with
      | zero => omega
      | succ j =>
        exfalso
        rw [pre_succ_prefix] at hp
        by_cases hj4 : j < 4
        · simp [hj4] at hp; exact hb hp.1
        · simp [hj4] at hp
          have := hm j (by omega) hp.2
          exact hc (Or.inr ⟨hp.1, by omega⟩)


/-! ### the decoder in state `LookingForMessageStart` follows `delta` -/

theorem pushByte_look_more {d : Dec} {disc k : Nat} {b : UInt8} (hst : d.st = .look disc k)
    (hk : k ≤ 7) (h8 : delta k b ≠ 8) :
    d.pushByte b =
      ({ d with raw := d.raw + 1, st := .look (disc + k + 1 - delta k b) (delta k b) }, .more) := by
  obtain ⟨r, c, s, z, bf⟩ := d
  simp only at hst
  subst hst
  unfold delta at h8 ⊢
  by_cases hc : (b = 0x1b ∧ k < 4) ∨ (b = 0x01 ∧ k ≥ 4)
  · rw [if_pos hc] at h8 ⊢
    have h255 : ¬ (k + 1 > 255) := by omega
    simp only [Dec.pushByte, Dec.pushLook, if_pos hc, if_neg h255, if_neg h8]
    have : disc + k + 1 - (k + 1) = disc := by omega
    rw [this]
  · rw [if_neg hc] at h8 ⊢
    have hkeep : (if b = 0x1b then (if k = 4 then 4 else 1) else 0 : Nat) ≤ 1 + k := by
      by_cases hb : b = 0x1b
      · by_cases h4 : k = 4
        · simp [hb, h4]
        · simp [hb, h4]
      · simp [hb]
    simp only [Dec.pushByte, Dec.pushLook, if_neg hc]
    generalize (if b = 0x1b then (if k = 4 then 4 else 1) else 0 : Nat) = keep at hkeep h8 ⊢
    have hlt : ¬ (1 + k < keep) := by omega
    rw [if_neg hlt]
    have : disc + (1 + k - keep) = disc + k + 1 - keep := by omega
    rw [this]

theorem pushByte_look_hit {d : Dec} {disc k : Nat} {b : UInt8} (hst : d.st = .look disc k)
    (hk : k ≤ 7) (h8 : delta k b = 8) :
    d.pushByte b =
      ({ d with raw := 8, crc := startCrc, st := .normal },
        if disc > 0 then .err (.discarded disc) else .more) := by
  obtain ⟨hk7, hb⟩ := (delta_eq_8 hk).1 h8
  subst hk7 hb
  obtain ⟨r, c, s, z, bf⟩ := d
  simp only at hst
  subst hst
  simp only [Dec.pushByte, Dec.pushLook]
  by_cases hd : disc > 0
  · simp [hd]
  · simp [hd]

/-- Bytes after which the consumed input never ends with the start sequence are consumed
silently; the matcher state keeps tracking. `r` = the bytes consumed before, newest first. -/
theorem look_quiet (s : List UInt8) : ∀ (r : List UInt8) (d : Dec) (disc k : Nat), Tracks r k →
    d.st = .look disc k →
    (∀ i, i < s.length → ¬ pre 8 <+: (s.take (i + 1)).reverse ++ r) →
    ∃ disc' k', Tracks (s.reverse ++ r) k' ∧ disc' + k' = disc + k + s.length ∧
      d.quiet s = some { d with raw := d.raw + s.length, st := .look disc' k' } := by
  induction s with
  | nil =>
    intro r d disc k ht hst _
    refine ⟨disc, k, by simpa using ht, by simp, ?_⟩
    obtain ⟨r', c, s, z, bf⟩ := d
    simp only at hst
    subst hst
    rfl
  | cons b s ih =>
    intro r d disc k ht hst hfree
    have h8 : delta k b ≠ 8 := by
      intro h
      have := (hit_iff ht b).1 h
      exact hfree 0 (by simp) (by simpa using this)
    have hstep := pushByte_look_more hst ht.le h8
    have ht' := tracks_step ht b h8
    obtain ⟨disc', k', h1, h2, h3⟩ := ih (b :: r)
      { d with raw := d.raw + 1, st := .look (disc + k + 1 - delta k b) (delta k b) } _ _ ht' rfl (by
      intro i hi
      have := hfree (i + 1) (by simpa using hi)
      simpa [List.take_succ_cons] using this)
    refine ⟨disc', k', by simpa using h1, ?_, ?_⟩
    · have := ht.le
      have hd : delta k b ≤ k + 1 := by
        unfold delta; split
        · omega
        · split
          · split <;> omega
          · omega
      simp only [List.length_cons]
      omega
    · rw [Dec.quiet_cons_of hstep, h3]
      simp only [List.length_cons]
      congr 2
      omega

/-! ### noise, then the start sequence -/

theorem pre8 : pre 8 = START.reverse := by decide

/-- in `g ++ START` with the start sequence only at offset `|g|`, no prefix shorter than the whole
ends with the start sequence -/
theorem free_prefix {g : List UInt8}
    (hg : ∀ k, k < g.length → ¬ (START <+: (g ++ START).drop k)) (i : Nat)
    (hi : i < (g ++ [0x1b, 0x1b, 0x1b, 0x1b, 0x01, 0x01, 0x01]).length) :
    ¬ pre 8 <+: ((g ++ [0x1b, 0x1b, 0x1b, 0x1b, 0x01, 0x01, 0x01]).take (i + 1)).reverse ++ [] := by
  intro h
  rw [List.append_nil, pre8, List.reverse_prefix] at h
  obtain ⟨x, hx⟩ := h
  have hsplit : g ++ START = (g ++ [0x1b, 0x1b, 0x1b, 0x1b, 0x01, 0x01, 0x01]) ++ [0x01] := by
    simp [START]
  have hlen : i + 1 ≤ (g ++ [0x1b, 0x1b, 0x1b, 0x1b, 0x01, 0x01, 0x01]).length := by omega
  have htake : (g ++ START).take (i + 1) = x ++ START := by
    rw [hsplit, List.take_append_of_le_length hlen, hx]
  have hxl : x.length + 8 = i + 1 := by
    have := congrArg List.length hx
    simp only [List.length_append, List.length_take] at this
    simp only [List.length_append] at hlen
    have h8 : START.length = 8 := rfl
    rw [h8] at this
    simp only [List.length_cons, List.length_nil] at this hlen
    omega
  have hxg : x.length < g.length := by
    simp only [List.length_append, List.length_cons, List.length_nil] at hi
    omega
  apply hg x.length hxg
  have hfull : g ++ START = x ++ (START ++ (g ++ START).drop (i + 1)) := by
    rw [← List.append_assoc, ← htake, List.take_append_drop]
  refine ⟨(g ++ START).drop (i + 1), ?_⟩
  conv => rhs; rw [hfull]
  rw [List.drop_left]

/-- Noise `g` that does not contain the start sequence (also not overlapping with the start
sequence that follows), then the start sequence: silence, and at the last byte of the start
sequence the number of noise bytes is reported (nothing if there was no noise).  The decoder is
then in the post-START state; zero cache and buffer are untouched. -/
theorem noise_start (d : Dec) (hst : d.st = .look 0 0) (g : List UInt8)
    (hg : ∀ k, k < g.length → ¬ (START <+: (g ++ START).drop k)) :
    Dec.pushAll d (g ++ START) =
      ({ d with raw := 8, crc := startCrc, st := .normal },
        List.replicate (g.length + 7) Out.none ++
          [if g = [] then Out.none else Out.err (.discarded g.length)]) := by
  have hsplit : g ++ START = (g ++ [0x1b, 0x1b, 0x1b, 0x1b, 0x01, 0x01, 0x01]) ++ [0x01] := by
    simp [START]
  obtain ⟨disc', k', ht, hsum, hq⟩ := look_quiet (g ++ [0x1b, 0x1b, 0x1b, 0x1b, 0x01, 0x01, 0x01]) []
    d 0 0 tracks_nil hst (free_prefix hg)
  have hhit : delta k' 0x01 = 8 := by
    rw [hit_iff ht]
    exact ⟨g.reverse, by simp [pre]⟩
  obtain ⟨hk7, _⟩ := (delta_eq_8 ht.le).1 hhit
  subst hk7
  have hdisc : disc' = g.length := by
    simp only [List.length_append, List.length_cons, List.length_nil] at hsum
    omega
  subst hdisc
  have hlast := pushByte_look_hit (b := 0x01)
    (d := { d with raw := d.raw + (g ++ [0x1b, 0x1b, 0x1b, 0x1b, 0x01, 0x01, 0x01]).length,
                   st := .look g.length 7 }) rfl (by omega) hhit
  rw [hsplit, Dec.pushAll_append, Dec.pushAll_quiet hq]
  have hl : (g ++ [0x1b, 0x1b, 0x1b, 0x1b, 0x01, 0x01, 0x01]).length = g.length + 7 := by simp
  rw [hl] at hlast ⊢
  by_cases hg0 : g = []
  · have hpos : ¬ (g.length > 0) := by simp [hg0]
    rw [if_neg hpos] at hlast
    simp only [Dec.pushAll, Dec.push, hlast, if_pos hg0]
  · have hpos : g.length > 0 := List.length_pos_iff.2 hg0
    rw [if_pos hpos] at hlast
    simp only [Dec.pushAll, Dec.push, hlast, if_neg hg0]

open Spec (frame) in
/-- Noise, then a frame, for any decoder that is looking for a start sequence with nothing
discarded and an empty buffer. -/
theorem noise_frame (d : Dec) (hst : d.st = .look 0 0) (hz : d.zc = 0) (hb : d.buf.rdata = [])
    (g m : List UInt8) (hg : ∀ k, k < g.length → ¬ (START <+: (g ++ START).drop k))
    (hm : fitsCap d.buf.cap m.length) :
    (Dec.pushAll d (g ++ frame m)).2 =
        List.replicate (g.length + 7) Out.none ++
          [if g = [] then Out.none else Out.err (.discarded g.length)] ++
          List.replicate ((frame m).length - 9) Out.none ++ [Out.msg m] ∧
      (Dec.pushAll d (g ++ frame m)).1.st = .done ∧
      (Dec.pushAll d (g ++ frame m)).1.buf.data = m := by
  have hsplit : g ++ frame m = (g ++ START) ++ (frame m).drop 8 := by
    rw [List.append_assoc, ← Dec.frame_eq_START_drop8]
  obtain ⟨h1, h2, h3, _, _⟩ := frame_tail_decodes
    { d with raw := 8, crc := startCrc, st := .normal } m rfl rfl (by simp only) hz hb hm
  rw [hsplit, Dec.pushAll_append, noise_start d hst g hg]
  simp only [h1, h2, h3, List.append_assoc, and_self]

/-! ### a start sequence in the middle of a transmission -/

/-- In state `Normal` the start sequence is read as an escape sequence with payload `01010101`:
everything received so far is dropped and reported when its last byte arrives. -/
theorem restart (d : Dec) (hst : d.st = .normal) :
    Dec.pushAll d START =
      ({ d with raw := 8, zc := 0, buf := d.buf.clear, crc := startCrc, st := .normal },
        List.replicate 7 Out.none ++ [Out.err (.discarded d.raw)]) := by
  obtain ⟨r, c, s, z, bf⟩ := d
  simp only at hst
  subst hst
  have h8 : ¬ (r + 1 + 1 + 1 + 1 + 1 + 1 + 1 + 1 < 8) := by omega
  have hr : r + 1 + 1 + 1 + 1 + 1 + 1 + 1 + 1 - 8 = r := by omega
  simp [Dec.pushAll, Dec.push, Dec.pushByte, START, Quad.set, Quad.zero, Dec.pushEscComplete,
    h8, hr, List.replicate]

/-! ### prefixes of a frame -/

theorem pushAll_raw_le (s : List UInt8) : ∀ {d : Dec}, Dec.Inv d →
    (Dec.pushAll d s).1.raw ≤ d.raw + s.length := by
  induction s with
  | nil => intro d _; simp [Dec.pushAll]
  | cons b bs ih =>
    intro d h
    rw [Dec.pushAll_cons]
    have h1 := ih (Dec.push_inv h b)
    have h2 := Dec.pushByte_raw_le h b
    rw [← Dec.push_fst] at h2
    simp only [List.length_cons]
    omega

open Spec (frame) in
/-- A frame cut off at a point where the decoder is in state `Normal`: nothing has been reported,
and `raw` counts exactly the bytes of the cut-off part. -/
theorem cut_frame (cap : Option Nat) (m : List UInt8) (k : Nat) (hroom : fitsCap cap m.length)
    (hst : (Dec.pushAll (Dec.fresh cap) ((frame m).take k)).1.st = .normal) :
    (Dec.pushAll (Dec.fresh cap) ((frame m).take k)).2 =
        List.replicate ((frame m).take k).length Out.none ∧
      (Dec.pushAll (Dec.fresh cap) ((frame m).take k)).1.raw = ((frame m).take k).length ∧
      (Dec.pushAll (Dec.fresh cap) ((frame m).take k)).1.buf.cap = cap := by
  obtain ⟨d', hd, hfin⟩ := Dec.frame_delivers (Dec.fresh cap) m rfl rfl rfl hroom
  have hrun := hd.pushAll
  obtain ⟨_, _, _, _, _, _, hdone, _⟩ := id hd
  have hlen9 : 9 ≤ (frame m).length := by rw [length_frame]; omega
  have hk : k < (frame m).length := by
    rcases Nat.lt_or_ge k (frame m).length with h | h
    · exact h
    · rw [List.take_of_length_le h, hrun] at hst
      rw [hdone] at hst
      cases hst
  have hal : ((frame m).take k).length = k := by simp; omega
  have hinv := Dec.pushAll_inv ((frame m).take k) (Dec.inv_fresh cap)
  refine ⟨?_, ?_, Dec.pushAll_cap _ (Dec.inv_fresh cap)⟩
  · rw [Dec.pushAll_take, hrun, hal, List.take_append_of_le_length (by simp; omega)]
    simp
    omega
  · have hle := pushAll_raw_le ((frame m).take k) (Dec.inv_fresh cap)
    have hsplit := Dec.pushAll_append ((frame m).take k) (Dec.fresh cap) ((frame m).drop k)
    rw [List.take_append_drop, hrun] at hsplit
    have hd' := congrArg Prod.fst hsplit
    simp only at hd'
    have hle2 := pushAll_raw_le ((frame m).drop k) hinv
    rw [← hd', hfin.raw] at hle2
    have hf0 : (Dec.fresh cap).raw = 0 := rfl
    simp only [List.length_drop] at hle2
    omega

open Spec (frame) in
/-- with enough room for the payload the capacity does not influence the control state reached
inside a frame -/
theorem cut_state_cap (cap : Option Nat) (m : List UInt8) (k : Nat) (hroom : fitsCap cap m.length) :
    (Dec.pushAll (Dec.fresh cap) ((frame m).take k)).1.st =
      (Dec.pushAll (Dec.fresh none) ((frame m).take k)).1.st := by
  obtain ⟨d', hd, _⟩ := Dec.frame_delivers (Dec.fresh cap) m rfl rfl rfl hroom
  have hrun := hd.pushAll
  have e : Dec.fresh cap = (Dec.fresh none).withCapR cap := rfl
  rcases Dec.pushAll_rel cap ((frame m).take k) (Dec.fresh none) rfl (Dec.fitsCap_zero cap) with
    ⟨g1, _⟩ | ⟨i, hi, g1, _⟩
  · rw [e, g1]
    rfl
  · exfalso
    rw [← e, List.take_take, Dec.pushAll_take, hrun] at g1
    have hmem : Out.err DecErr.oom ∈
        (List.replicate ((frame m).length - 1) Out.none ++ [Out.msg m]).take (min (i + 1) k) := by
      rw [g1]; simp
    have := List.mem_of_mem_take hmem
    simp at this

open Spec (frame) in
/-- Any input `a` after which the decoder is silently in state `Normal` with `raw = |a|`
(an unfinished transmission), followed by a frame: the unfinished part is reported as discarded
when the start sequence is complete, then the frame is delivered. -/
theorem resync_after (d : Dec) (a m : List UInt8)
    (hout : (Dec.pushAll d a).2 = List.replicate a.length Out.none)
    (hst : (Dec.pushAll d a).1.st = .normal) (hraw : (Dec.pushAll d a).1.raw = a.length)
    (hm : fitsCap (Dec.pushAll d a).1.buf.cap m.length) :
    (Dec.pushAll d (a ++ frame m)).2 =
        List.replicate (a.length + 7) Out.none ++ [Out.err (.discarded a.length)] ++
          List.replicate ((frame m).length - 9) Out.none ++ [Out.msg m] ∧
      (Dec.pushAll d (a ++ frame m)).1.st = .done ∧
      (Dec.pushAll d (a ++ frame m)).1.buf.data = m := by
  obtain ⟨h1, h2, h3, _, _⟩ := frame_tail_decodes
    { (Dec.pushAll d a).1 with raw := 8, zc := 0, buf := (Dec.pushAll d a).1.buf.clear,
                               crc := startCrc, st := .normal } m rfl rfl (by simp only) rfl rfl hm
  have hsplit : a ++ frame m = a ++ (START ++ (frame m).drop 8) := by
    rw [← Dec.frame_eq_START_drop8]
  rw [hsplit, Dec.pushAll_append, Dec.pushAll_append, restart _ hst, hout, hraw]
  simp only [h1, h2, h3, and_self, and_true]
  have e : List.replicate (a.length + 7) Out.none =
      List.replicate a.length Out.none ++ List.replicate 7 Out.none :=
    List.replicate_append_replicate.symm
  rw [e]
  simp [List.replicate]

open Spec (frame) in
theorem cut_then_frame (cap : Option Nat) (m1 m2 : List UInt8) (k : Nat)
    (hroom : fitsCap cap m1.length)
    (hst : (Dec.pushAll (Dec.fresh cap) ((frame m1).take k)).1.st = .normal)
    (hm : fitsCap cap m2.length) :
    (Dec.pushAll (Dec.fresh cap) ((frame m1).take k ++ frame m2)).2 =
        List.replicate (((frame m1).take k).length + 7) Out.none ++
          [Out.err (.discarded ((frame m1).take k).length)] ++
          List.replicate ((frame m2).length - 9) Out.none ++ [Out.msg m2] ∧
      (Dec.pushAll (Dec.fresh cap) ((frame m1).take k ++ frame m2)).1.st = .done ∧
      (Dec.pushAll (Dec.fresh cap) ((frame m1).take k ++ frame m2)).1.buf.data = m2 := by
  obtain ⟨h1, h2, h3⟩ := cut_frame cap m1 k hroom hst
  exact resync_after _ _ _ h1 hst h2 (by rw [h3]; exact hm)

open Spec (frame stuff ctr) in
/-- A transmission cut off inside the payload, after the (stuffed) payload bytes `p`, at a point
where no run of 0x1b is pending (`ctr 0 p = 0`), then a frame. -/
theorem cut_payload_then_frame (cap : Option Nat) (p m : List UInt8) (hc : ctr 0 p = 0)
    (hp : fitsCap cap p.length) (hm : fitsCap cap m.length) :
    (Dec.pushAll (Dec.fresh cap) ((START ++ stuff p) ++ frame m)).2 =
        List.replicate ((START ++ stuff p).length + 7) Out.none ++
          [Out.err (.discarded (START ++ stuff p).length)] ++
          List.replicate ((frame m).length - 9) Out.none ++ [Out.msg m] ∧
      (Dec.pushAll (Dec.fresh cap) ((START ++ stuff p) ++ frame m)).1.st = .done ∧
      (Dec.pushAll (Dec.fresh cap) ((START ++ stuff p) ++ frame m)).1.buf.data = m := by
  have h8 := start_decodes (Dec.fresh cap) rfl
  have hS : Dec.St { Dec.fresh cap with st := .normal, raw := 8, crc := startCrc } 8 startCrc
      (Dec.stOf 0) cap [] := ⟨rfl, by simp only, rfl, rfl, rfl, by simp [Dec.fresh]⟩
  obtain ⟨d1, data1, hq, hs, _⟩ := Dec.sim_stuff p _ 0 8 startCrc cap [] (by omega) hS
    (by simpa using hp)
  rw [hc, Dec.stOf_zero] at hs
  have hrun : Dec.pushAll (Dec.fresh cap) (START ++ stuff p) =
      (d1, List.replicate (START ++ stuff p).length Out.none) := by
    rw [Dec.pushAll_append, h8]
    simp only
    have : Spec.stuffFrom 0 p = stuff p := rfl
    rw [this] at hq
    rw [Dec.pushAll_quiet hq]
    simp only [List.length_append, ← List.replicate_append_replicate]
    rfl
  refine resync_after _ _ _ (by rw [hrun]) (by rw [hrun]; exact hs.st) ?_ (by rw [hrun, hs.cap]; exact hm)
  rw [hrun]
  have := hs.raw
  simp only [List.length_append] at this ⊢
  have h8l : START.length = 8 := rfl
  rw [h8l]
  exact this

open Spec (stuff ctr) in
/-- the control state after the start sequence and the stuffed payload bytes `p` -/
theorem cut_payload_state (cap : Option Nat) (p : List UInt8) (hp : fitsCap cap p.length) :
    (Dec.pushAll (Dec.fresh cap) (START ++ stuff p)).1.st =
      if ctr 0 p = 0 then .normal else .escChars (ctr 0 p) := by
  have h8 := start_decodes (Dec.fresh cap) rfl
  have hS : Dec.St { Dec.fresh cap with st := .normal, raw := 8, crc := startCrc } 8 startCrc
      (Dec.stOf 0) cap [] := ⟨rfl, by simp only, rfl, rfl, rfl, by simp [Dec.fresh]⟩
  obtain ⟨d1, data1, hq, hs, _⟩ := Dec.sim_stuff p _ 0 8 startCrc cap [] (by omega) hS
    (by simpa using hp)
  have : Spec.stuffFrom 0 p = stuff p := rfl
  rw [this] at hq
  rw [Dec.pushAll_append, h8]
  simp only
  rw [Dec.pushAll_quiet hq]
  exact hs.st

/-! ### idle histories -/

/-- After a history that is empty or ends at a boundary (C14) every byte string is answered as by
a new decoder. -/
theorem pushAll_after_idle (cap : Option Nat) (ops : List Op)
    (h : ops = [] ∨ ∃ o, (Dec.run (Dec.fresh cap) ops).2.getLast? = some o ∧ C14.Boundary o)
    (s : List UInt8) :
    (Dec.pushAll (Dec.run (Dec.fresh cap) ops).1 s).2 = (Dec.pushAll (Dec.fresh cap) s).2 := by
  rcases h with rfl | h
  · rfl
  · apply (List.map_inj_right (f := OpOut.out) (fun _ _ h => OpOut.out.inj h)).1
    rw [(Dec.pushAll_eq_run s _).2, (Dec.pushAll_eq_run s _).2]
    exact C14.boundary_fresh cap ops h _

end Resync
end Sml

/-
  Composition of the C18 buffer refinement with the decoder.

  `DecA` (`Sml/Model/DecodeArr.lean`) is the push decoder on the REAL `ArrayBuf` representation
  (backing array with stale bytes + `num_elements`, explicit panic outcomes); `Dec`
  (`Sml/Model/Decode.lean`) is the decoder model on the abstract `Buf` that all of C01–C17 talk about.

  This file proves a forward simulation:  with the abstraction
      absD d = { d with buf := { cap := some d.buf.N, rdata := (abs d.buf).reverse } }
  (`abs a = a.buffer.take a.numElements`, `Sml/Lemmas/C18.lean`) and the invariant `WF d.buf`
  (`num_elements ≤ N`), every operation of `DecA` returns the same result as the operation of `Dec`
  on the abstracted state, the abstraction of the new concrete state is the new abstract state, and
  the invariant is preserved.  In particular the `ArrayBuf` panic sites are never hit and stale
  bytes never reach a result.
-/
import Sml.Model.DecodeArr
import Sml.Lemmas.C18
import Sml.Lemmas.DecBasic

namespace Sml.C18
open Sml

/-! ### abstraction -/

/-- the abstract buffer an `ArrayBuf` stands for: capacity `N`, the visible bytes (newest first) -/
def absB (a : ArrayBuf) : Buf := { cap := some a.N, rdata := (abs a).reverse }

/-- the abstract decoder state a concrete one stands for -/
def absD (d : DecA) : Dec :=
  { raw := d.raw, crc := d.crc, st := d.st, zc := d.zc, buf := absB d.buf }

/-- a reset decoder with digest `c` over an empty buffer of capacity `n` -/
def blank (c : UInt16) (n : Nat) : Dec :=
  { raw := 0, crc := c, st := .look 0 0, zc := 0, buf := { cap := some n, rdata := [] } }

theorem absB_data (a : ArrayBuf) : (absB a).data = abs a := by simp [absB, Buf.data]

theorem absB_cap (a : ArrayBuf) : (absB a).cap = some a.N := rfl

theorem absB_clear (a : ArrayBuf) : absB a.clear = (absB a).clear := by
  simp [absB, abs, ArrayBuf.clear, Buf.clear, ArrayBuf.N]

theorem absB_clear' (a : ArrayBuf) : absB a.clear = { cap := some a.N, rdata := [] } := by
  simp [absB, abs, ArrayBuf.clear, ArrayBuf.N]

theorem WF_clear (a : ArrayBuf) : WF a.clear := clear_ok.1

theorem N_clear (a : ArrayBuf) : a.clear.N = a.N := rfl

theorem absB_new (n : Nat) : absB (ArrayBuf.new n) = Buf.new (some n) := by
  simp [absB, abs_new, N_new, Buf.new]

/-! ### `push` on the two buffers -/

theorem push_sim_ok {a : ArrayBuf} (b : UInt8) (h : WF a) (hlt : a.numElements < a.N) :
    ∃ a', a.push b = .ok a' ∧ WF a' ∧ a'.N = a.N ∧ (absB a).push b = some (absB a') := by
  obtain ⟨a', h1, h2, h3, h4⟩ := push_ok b h hlt
  refine ⟨a', h1, h2, h3, ?_⟩
  have hl := abs_length h
  have : ¬ a.N ≤ (abs a).length := by omega
  simp [Buf.push, Buf.isFull, absB, h3, h4, this]

theorem push_sim_oom {a : ArrayBuf} (b : UInt8) (h : WF a) (hge : ¬ a.numElements < a.N) :
    a.push b = .oom ∧ (absB a).push b = none := by
  refine ⟨push_oom b h hge, ?_⟩
  have hl := abs_length h
  have : a.N ≤ (abs a).length := by omega
  simp [Buf.push, Buf.isFull, absB, this]

/-! ### reset / finalize / constructors -/

theorem absD_reset (d : DecA) : absD d.reset.1 = (absD d).reset.1 := by
  simp [absD, DecA.reset, Dec.reset, absB_clear]

theorem absD_reset_blank (d : DecA) : absD d.reset.1 = blank d.crc d.buf.N := by
  simp [absD, DecA.reset, blank, absB_clear']

theorem reset_snd (d : DecA) : d.reset.2 = (absD d).reset.2 := rfl

theorem WF_reset (d : DecA) : WF d.reset.1.buf := WF_clear d.buf

theorem N_reset (d : DecA) : d.reset.1.buf.N = d.buf.N := rfl

theorem absD_finalize (d : DecA) : absD d.finalize.1 = (absD d).finalize.1 := absD_reset d

theorem finalize_snd (d : DecA) : d.finalize.2 = (absD d).finalize.2 := rfl

theorem absD_fromBuf (a : ArrayBuf) : absD (DecA.fromBuf a) = Dec.fresh (some a.N) := by
  simp [absD, DecA.fromBuf, Dec.fresh, absB_clear', Buf.new]

theorem absD_fresh (n : Nat) : absD (DecA.fresh n) = Dec.fresh (some n) := by
  rw [DecA.fresh, absD_fromBuf, N_new]

/-! ### the data-push helpers -/

/-- `Option Dec` results of `Dec.pushInner` / `pushZeros` / `flush` as `PushRes` -/
def ofOpt : Option Dec → Dec.PushRes
  | some d => .ok d
  | none => .oom

/-- Relation between the result of a data push on `DecA` and on `Dec`, for a push that started from
    a state with digest `c` and buffer size `n`. -/
inductive RelP (c : UInt16) (n : Nat) : DecA.PushResA → Dec.PushRes → Prop
  | ok (d' : DecA) : WF d'.buf → d'.crc = c → d'.buf.N = n → RelP c n (.ok d') (.ok (absD d'))
  | oom (d' : DecA) : WF d'.buf → absD d' = blank c n → RelP c n (.oom d') .oom
  | panic (s : String) : RelP c n (.panic s) (.panic s)

theorem pushInner_sim (d : DecA) (b : UInt8) (h : WF d.buf) :
    RelP d.crc d.buf.N (d.pushInner b) (ofOpt ((absD d).pushInner b)) := by
  unfold DecA.pushInner Dec.pushInner
  by_cases hlt : d.buf.numElements < d.buf.N
  · obtain ⟨a', h1, h2, h3, h4⟩ := push_sim_ok b h hlt
    have h4' : (absD d).buf.push b = some (absB a') := h4
    rw [h1, h4']
    exact RelP.ok { d with buf := a' } h2 rfl h3
  · obtain ⟨h1, h2⟩ := push_sim_oom b h hlt
    have h2' : (absD d).buf.push b = none := h2
    rw [h1, h2']
    exact RelP.oom _ (WF_reset d) (absD_reset_blank d)

theorem pushZeros_sim (n : Nat) : ∀ (d : DecA), WF d.buf →
    RelP d.crc d.buf.N (d.pushZeros n) (ofOpt ((absD d).pushZeros n)) := by
  induction n with
  | zero => intro d h; exact RelP.ok d h rfl rfl
  | succ n ih =>
    intro d h
    have hs := pushInner_sim d 0 h
    unfold DecA.pushZeros Dec.pushZeros
    generalize d.pushInner 0 = r at hs
    generalize (absD d).pushInner 0 = ra at hs
    cases ra with
    | none =>
      cases hs with
      | oom d' h1 h2 => exact RelP.oom d' h1 h2
    | some da =>
      cases hs with
      | ok d' h1 h2 h3 =>
        have := ih d' h1
        rw [h2, h3] at this
        exact this

theorem flush_sim (d : DecA) (h : WF d.buf) :
    RelP d.crc d.buf.N d.flush (ofOpt (absD d).flush) := by
  have hs := pushZeros_sim d.zc d h
  unfold DecA.flush Dec.flush
  have hz : (absD d).zc = d.zc := rfl
  rw [hz]
  generalize d.pushZeros d.zc = r at hs
  generalize (absD d).pushZeros d.zc = ra at hs
  cases ra with
  | none =>
    cases hs with
    | oom d' h1 h2 => exact RelP.oom d' h1 h2
  | some da =>
    cases hs with
    | ok d' h1 h2 h3 => exact RelP.ok { d' with zc := 0 } h1 h2 h3

theorem pushData_sim (d : DecA) (b : UInt8) (h : WF d.buf) :
    RelP d.crc d.buf.N (d.pushData b) ((absD d).pushData b) := by
  unfold DecA.pushData Dec.pushData
  have hz : (absD d).zc = d.zc := rfl
  rw [hz]
  by_cases hb : b = 0
  · rw [if_pos hb, if_pos hb]
    by_cases hz3 : d.zc ≤ 3
    · rw [if_pos hz3, if_pos hz3]
      by_cases ho : d.zc + 1 > 255
      · rw [if_pos ho, if_pos ho]; exact RelP.panic _
      · rw [if_neg ho, if_neg ho]; exact RelP.ok { d with zc := d.zc + 1 } h rfl rfl
    · rw [if_neg hz3, if_neg hz3]
      have hs := pushInner_sim d b h
      generalize d.pushInner b = r at hs
      generalize (absD d).pushInner b = ra at hs
      cases ra <;> exact hs
  · rw [if_neg hb, if_neg hb]
    have hs := flush_sim d h
    generalize d.flush = r at hs
    generalize (absD d).flush = ra at hs
    cases ra with
    | none =>
      cases hs with
      | oom d' h1 h2 => exact RelP.oom d' h1 h2
    | some da =>
      cases hs with
      | ok d' h1 h2 h3 =>
        have hs' := pushInner_sim d' b h1
        rw [h2, h3] at hs'
        show RelP d.crc d.buf.N (d'.pushInner b)
          (match (absD d').pushInner b with
            | some d'' => Dec.PushRes.ok d''
            | none => Dec.PushRes.oom)
        generalize d'.pushInner b = r' at hs'
        generalize (absD d').pushInner b = ra' at hs'
        cases ra' <;> exact hs'

theorem pushRep_sim (x : UInt8) (n : Nat) : ∀ (d : DecA), WF d.buf →
    RelP d.crc d.buf.N (d.pushRep x n) ((absD d).pushRep x n) := by
  induction n with
  | zero => intro d h; exact RelP.ok d h rfl rfl
  | succ n ih =>
    intro d h
    have hs := pushData_sim d x h
    unfold DecA.pushRep Dec.pushRep
    generalize d.pushData x = r at hs
    generalize (absD d).pushData x = ra at hs
    cases hs with
    | ok d' h1 h2 h3 =>
      have := ih d' h1
      rw [h2, h3] at this
      exact this
    | oom d' h1 h2 => exact RelP.oom d' h1 h2
    | panic s => exact RelP.panic s

theorem pushList_sim (l : List UInt8) : ∀ (d : DecA), WF d.buf →
    RelP d.crc d.buf.N (d.pushList l) ((absD d).pushList l) := by
  induction l with
  | nil => intro d h; exact RelP.ok d h rfl rfl
  | cons x l ih =>
    intro d h
    have hs := pushData_sim d x h
    unfold DecA.pushList Dec.pushList
    generalize d.pushData x = r at hs
    generalize (absD d).pushData x = ra at hs
    cases hs with
    | ok d' h1 h2 h3 =>
      have := ih d' h1
      rw [h2, h3] at this
      exact this
    | oom d' h1 h2 => exact RelP.oom d' h1 h2
    | panic s => exact RelP.panic s

/-! ### `push_byte` -/

/-- Relation between the results of an operation on the two decoders: invariant, the buffer size
    `N` is unchanged, abstraction of the new state, identical reported value. -/
def RelK {α : Type} (n : Nat) (x : DecA × α) (y : Dec × α) : Prop :=
  WF x.1.buf ∧ x.1.buf.N = n ∧ absD x.1 = y.1 ∧ x.2 = y.2

theorem blank_eq_reset (d : DecA) : blank d.crc d.buf.N = (absD d).reset.1 := by
  rw [← absD_reset_blank, absD_reset]

theorem afterPush_sim {d0 : DecA} {r : DecA.PushResA} {ra : Dec.PushRes}
    {k : DecA → DecA × Res} {ka : Dec → Dec × Res} (h0 : WF d0.buf)
    (hr : RelP d0.crc d0.buf.N r ra)
    (hk : ∀ d', WF d'.buf → d'.crc = d0.crc → d'.buf.N = d0.buf.N →
      RelK d0.buf.N (k d') (ka (absD d'))) :
    RelK d0.buf.N (DecA.afterPush d0 r k) (Dec.afterPush (absD d0) ra ka) := by
  cases hr with
  | ok d' h1 h2 h3 => exact hk d' h1 h2 h3
  | oom d' h1 h2 =>
    refine ⟨h1, ?_, ?_, rfl⟩
    · show d'.buf.N = d0.buf.N
      have := congrArg (fun x => x.buf.cap) h2
      simpa [absD, absB, blank] using this
    · show absD d' = (absD d0).reset.1
      rw [h2, blank_eq_reset]
  | panic s => exact ⟨h0, rfl, rfl, rfl⟩

theorem pushEnd_sim (d : DecA) (q : Quad) (h : WF d.buf) :
    RelK d.buf.N (d.pushEnd q) ((absD d).pushEnd q) := by
  rcases d with ⟨raw, crc, st, zc, buf⟩
  unfold DecA.pushEnd Dec.pushEnd
  dsimp only [absD]
  split
  · exact ⟨WF_reset _, rfl, absD_reset _, rfl⟩
  · split
    · exact ⟨h, rfl, by simp only [absD], rfl⟩
    · have hk := afterPush_sim (d0 := ⟨raw, crcInit, st, zc - q.b.toNat, buf⟩)
        (k := fun d => ({ d with st := .done }, .ready))
        (ka := fun d => ({ d with st := .done }, .ready)) h
        (flush_sim _ h) (fun d' h1 h2 h3 => ⟨h1, h3, by simp only [absD], rfl⟩)
      dsimp only [absD] at hk
      generalize Dec.flush _ = o at hk ⊢
      cases o <;> exact hk

theorem pushEscComplete_sim (d : DecA) (q : Quad) (h : WF d.buf) :
    RelK d.buf.N (d.pushEscComplete q) ((absD d).pushEscComplete q) := by
  have hend := pushEnd_sim d q h
  rcases d with ⟨raw, crc, st, zc, buf⟩
  unfold DecA.pushEscComplete Dec.pushEscComplete
  dsimp only [absD] at hend ⊢
  split
  · exact afterPush_sim (d0 := ⟨raw, crcUpdate crc q.toList, st, zc, buf⟩) h (pushList_sim _ _ h)
      (fun d' h1 h2 h3 => ⟨h1, h3, by simp only [absD], rfl⟩)
  · split
    · split
      · rename_i hr
        exact ⟨h, rfl, by simp only [absD, hr, ↓reduceIte], by simp only [hr, ↓reduceIte]⟩
      · rename_i hr
        exact ⟨WF_clear _, rfl, by simp only [absD, absB_clear, hr, ↓reduceIte],
          by simp only [hr, ↓reduceIte]⟩
    · split
      · exact hend
      · split
        · exact afterPush_sim (d0 := ⟨raw, crcUpdate crc (q.toList.take ((4 - raw % 4) % 4)), st, zc, buf⟩)
            h (pushRep_sim _ _ _ h) (fun d' h1 h2 h3 => ⟨h1, h3, by simp only [absD], rfl⟩)
        · exact ⟨WF_reset _, rfl, absD_reset _, rfl⟩
theorem pushLook_sim (d : DecA) (disc init : Nat) (b : UInt8) (h : WF d.buf) :
    RelK d.buf.N (d.pushLook disc init b) ((absD d).pushLook disc init b) := by
  unfold DecA.pushLook Dec.pushLook RelK
  repeat' ((try dsimp only); split)
  all_goals (refine ⟨h, rfl, ?_, rfl⟩; simp only [absD])

theorem pushByte_sim (d : DecA) (b : UInt8) (h : WF d.buf) :
    RelK d.buf.N (d.pushByte b) ((absD d).pushByte b) := by
  rcases d with ⟨raw, crc, st, zc, buf⟩
  cases st with
  | look disc init => exact pushLook_sim ⟨raw + 1, crc, .look disc init, zc, buf⟩ disc init b h
  | normal =>
    unfold DecA.pushByte Dec.pushByte
    dsimp only [absD]
    split
    · exact ⟨h, rfl, by simp only [absD], rfl⟩
    · exact afterPush_sim (d0 := ⟨raw + 1, crcByte crc b, .normal, zc, buf⟩) h
        (pushData_sim _ _ h) (fun d' h1 h2 h3 => ⟨h1, h3, rfl, rfl⟩)
  | escChars n =>
    unfold DecA.pushByte Dec.pushByte
    dsimp only [absD]
    split
    · exact afterPush_sim (d0 := ⟨raw + 1, crcByte crc b, .escChars n, zc, buf⟩) h
        (pushRep_sim _ _ _ h) (fun d' h1 h2 h3 =>
          afterPush_sim (d0 := ⟨raw + 1, crcByte crc b, .escChars n, zc, buf⟩) h
            (h2 ▸ h3 ▸ pushData_sim d' b h1)
            (fun d'' g1 g2 g3 => ⟨g1, g3, by simp only [absD], rfl⟩))
    · split
      · exact ⟨h, rfl, by simp only [absD], rfl⟩
      · split
        · exact ⟨h, rfl, by simp only [absD], rfl⟩
        · exact ⟨h, rfl, by simp only [absD], rfl⟩
  | escPayload step q =>
    have hc := pushEscComplete_sim
    unfold DecA.pushByte Dec.pushByte
    dsimp only [absD]
    cases hq : q.set step b with
    | none => exact ⟨h, rfl, by simp only [absD], rfl⟩
    | some q' =>
      dsimp only
      split
      · exact ⟨h, rfl, by simp only [absD], rfl⟩
      · exact hc ⟨raw + 1, crc, .escPayload step q, zc, buf⟩ q' h
  | done =>
    have := pushLook_sim ⟨0 + 1, crc, .look 0 0, 0, buf.clear⟩ 0 0 b (WF_clear buf)
    simp only [absD, absB_clear] at this
    exact this


/-! ### `Decoder::push_byte`, histories -/

theorem borrowBuf_sim (d : DecA) (h : WF d.buf) : d.borrowBuf = (absD d).borrowBuf := by
  unfold DecA.borrowBuf Dec.borrowBuf
  have h1 : (absD d).isDone = d.isDone := rfl
  have h2 : (absD d).buf.data = abs d.buf := absB_data d.buf
  rw [deref_of_WF h, h1, h2]
  dsimp only
  rw [List.take_length]

theorem push_sim (d : DecA) (b : UInt8) (h : WF d.buf) :
    RelK d.buf.N (d.push b) ((absD d).push b) := by
  obtain ⟨h1, h2, h3, h4⟩ := pushByte_sim d b h
  unfold DecA.push Dec.push
  rcases hx : d.pushByte b with ⟨d', r⟩
  rcases hy : (absD d).pushByte b with ⟨da', ra⟩
  rw [hx, hy] at h3 h4
  rw [hx] at h1 h2
  dsimp only at h1 h2 h3 h4
  subst h3 h4
  cases r with
  | more => exact ⟨h1, h2, rfl, rfl⟩
  | ready => exact ⟨h1, h2, rfl, borrowBuf_sim d' h1⟩
  | err e => exact ⟨h1, h2, rfl, rfl⟩
  | panic s => exact ⟨h1, h2, rfl, rfl⟩

theorem fromIter_sim (n : Nat) (stale : List UInt8) (hl : stale.length ≤ n) :
    ∃ a, ArrayBuf.fromIter n stale = .ok a ∧ WF a ∧ a.N = n ∧ abs a = stale := by
  obtain ⟨a, h1, h2, h3, h4⟩ :=
    fromIter_go_ok stale (ArrayBuf.new n) (WF_new n) (by rw [N_new]; simpa [ArrayBuf.new] using hl)
  exact ⟨a, h1, h2, by rw [h3, N_new], by rw [h4, abs_new]; simp⟩

/-- one operation of a history; a `fromBuf stale` operation needs `stale` to fit the `ArrayBuf<N>`
    (otherwise the caller's `collect()` panics before `from_buf` is reached) -/
theorem step_sim (d : DecA) (op : Op) (h : WF d.buf)
    (hop : ∀ st, op = .fromBuf st → st.length ≤ d.buf.N) :
    RelK d.buf.N (d.step op) ((absD d).step op) := by
  cases op with
  | push b =>
    obtain ⟨h1, h2, h3, h4⟩ := push_sim d b h
    exact ⟨h1, h2, h3, congrArg OpOut.out h4⟩
  | fin => exact ⟨WF_reset d, rfl, absD_finalize d, rfl⟩
  | reset => exact ⟨WF_reset d, rfl, absD_reset d, rfl⟩
  | new =>
    refine ⟨WF_clear _, ?_, ?_, rfl⟩
    · show (ArrayBuf.new d.buf.N).clear.N = d.buf.N
      rw [N_clear, N_new]
    · exact absD_fresh d.buf.N
  | fromBuf stale =>
    obtain ⟨a, h1, h2, h3, _⟩ := fromIter_sim d.buf.N stale (hop stale rfl)
    simp only [DecA.step, h1]
    refine ⟨WF_clear a, h3, ?_, rfl⟩
    show absD (DecA.fromBuf a) = Dec.fresh (some d.buf.N)
    rw [absD_fromBuf, h3]

theorem run_sim (ops : List Op) : ∀ (d : DecA), WF d.buf →
    (∀ st, Op.fromBuf st ∈ ops → st.length ≤ d.buf.N) →
    RelK d.buf.N (d.run ops) ((absD d).run ops) := by
  induction ops with
  | nil => intro d h _; exact ⟨h, rfl, rfl, rfl⟩
  | cons op ops ih =>
    intro d h hst
    obtain ⟨h1, h2, h3, h4⟩ :=
      step_sim d op h (fun st e => hst st (by rw [e]; exact List.mem_cons_self))
    obtain ⟨g1, g2, g3, g4⟩ := ih (d.step op).1 h1
      (fun st hm => by rw [h2]; exact hst st (List.mem_cons_of_mem _ hm))
    rw [h3] at g3 g4
    unfold DecA.run Dec.run
    exact ⟨g1, by rw [g2, h2], g3, by
      show (d.step op).2 :: ((d.step op).1.run ops).2 = _
      rw [h4, g4]⟩

theorem pushAll_sim (s : List UInt8) : ∀ (d : DecA), WF d.buf →
    RelK d.buf.N (d.pushAll s) ((absD d).pushAll s) := by
  induction s with
  | nil => intro d h; exact ⟨h, rfl, rfl, rfl⟩
  | cons b s ih =>
    intro d h
    obtain ⟨h1, h2, h3, h4⟩ := push_sim d b h
    obtain ⟨g1, g2, g3, g4⟩ := ih (d.push b).1 h1
    rw [h3] at g3 g4
    unfold DecA.pushAll Dec.pushAll
    exact ⟨g1, by rw [g2, h2], g3, by
      show (d.push b).2 :: ((d.push b).1.pushAll s).2 = _
      rw [h4, g4]⟩

/-! ### no panic -/

/-- In a well-formed state whose abstraction satisfies the decoder invariant `Dec.Inv` (all
    reachable states do) `_push_byte` reaches no panic site at all, in particular none of the
    `ArrayBuf` ones (`util.rs:128` index, `util.rs:109` slice). -/
theorem pushByte_no_panic (d : DecA) (b : UInt8) (h : WF d.buf) (hi : Dec.Inv (absD d))
    (s : String) : (d.pushByte b).2 ≠ .panic s := by
  rw [(pushByte_sim d b h).2.2.2]
  exact Dec.pushByte_no_panic hi b s

theorem push_no_panic (d : DecA) (b : UInt8) (h : WF d.buf) (hi : Dec.Inv (absD d))
    (s : String) : (d.push b).2 ≠ .panic s := by
  rw [(push_sim d b h).2.2.2]
  exact Dec.push_no_panic hi b s

end Sml.C18

import Sml.Lemmas.Encoder2
/-
  Encoder soundness, part 3: octet strings, optional elements, SML_Time, SML_Value, SML_Status,
  list entries, the three response bodies, messages (with their checksum) and files.
  Every `enc_sound_*` says: for EVERY setting of the encoding choices, the bytes produced by the
  encoder for a well-formed value are related to that value by the grammar of Sml/Spec/Grammar.lean.
  Only the introduction rules `Gram.mk_*` (unfoldings of the grammar) are used.
-/
namespace Sml.Enc
open Sml Sml.Spec

/-! ### octet strings, booleans, optional elements -/

theorem enc_sound_octet (c : FieldChoice) (v : Bytes) (h : WFOctet v) :
    EncOctet v (encOctet c v) :=
  Gram.mk_octet _ v (enc_sound_tlf _ _ _ (by decide) (by simpa [WFOctet] using h))

theorem enc_sound_bool (b : Bool) : EncBool b (encBool b) :=
  ⟨[0x42], if b then 0x01 else 0x00, rfl, rfl, by cases b <;> rfl⟩

theorem enc_sound_opt {α : Type} {E : α → Bytes → Prop} {enc : α → Bytes} {P : α → Prop}
    (hs : ∀ a, P a → E a (enc a)) (hh : ∀ a, P a → (enc a).head? ≠ some 0x01) (o : Option α)
    (h : WFOpt P o) : EncOpt E o (encOpt enc o) := by
  cases o with
  | none => exact Gram.mk_none E
  | some a => exact Gram.mk_some (hs a h) (hh a h)

/-- OPTIONAL Octet String, including the present empty string -/
theorem enc_sound_optOctet (c : FieldChoice) (o : Option Bytes) (h : WFOpt WFOctet o) :
    EncOpt EncOctet o (encOptOctet c o) := by
  cases o with
  | none => exact Gram.mk_none _
  | some v =>
    refine Gram.mk_some (enc_sound_octet _ v h) ?_
    show (encTlf _ _ _ ++ v).head? ≠ _
    refine encTlf_head _ _ _ _ (Or.inr ?_) (fun _ => h)
    by_cases he : v.isEmpty = true
    · right
      simp only [he, if_true]
      omega
    · left
      intro hl
      exact he (by simpa using List.eq_nil_of_length_eq_zero hl)

/-! ### integers in optional positions: never start with `01` -/

theorem encUnsigned_head (c : FieldChoice) (size : Nat) (v : Int) :
    (encUnsigned c size v).head? ≠ some 0x01 :=
  encTlf_head _ _ _ _ (Or.inl (by decide)) (fun h => by cases h)

theorem encSigned_head (c : FieldChoice) (size : Nat) (v : Int) :
    (encSigned c size v).head? ≠ some 0x01 :=
  encTlf_head _ _ _ _ (Or.inl (by decide)) (fun h => by cases h)

theorem enc_sound_optU8 (c : FieldChoice) (o : Option Int) (h : WFOpt (InUns 1) o) :
    EncOpt (EncUnsigned 1) o (encOpt (encUnsigned c 1) o) :=
  enc_sound_opt (fun a ha => enc_sound_unsigned c 1 a (by decide) ha)
    (fun a _ => encUnsigned_head c 1 a) o h

theorem enc_sound_optI8 (c : FieldChoice) (o : Option Int) (h : WFOpt (InInt 1) o) :
    EncOpt (EncSigned 1) o (encOpt (encSigned c 1) o) :=
  enc_sound_opt (fun a ha => enc_sound_signed c 1 a (by decide) ha)
    (fun a _ => encSigned_head c 1 a) o h

/-! ### SML_Time -/

theorem inUns_one : InUns 1 1 := by unfold InUns; decide

/-- `enc_sound_time`: list form and vendor workaround -/
theorem enc_sound_time (c : FieldChoice) (t : Time) (h : WFTime t) : EncTime t (encTime c t) := by
  cases t with
  | secIndex v =>
    simp only [encTime]
    have hv : InUns 4 v := h
    by_cases hw : c.timeWorkaround = true
    · rw [if_pos hw]
      obtain ⟨d1, d2⟩ := uns_data v 4 hv.1 (inUns_toNat hv)
      exact Gram.mk_time_workaround v _ _ (tlf_small _ _ _ (by decide) (by decide)) d1 d2
    · rw [if_neg hw]
      exact Gram.mk_time_list _ _ _ v
        (enc_sound_tlf _ _ _ (by decide) (by simp [u32Max]))
        (enc_sound_unsigned c 1 1 (by decide) inUns_one)
        (enc_sound_unsigned c 4 v (by decide) hv)

theorem encTime_head (c : FieldChoice) (t : Time) : (encTime c t).head? ≠ some 0x01 := by
  cases t with
  | secIndex v =>
    simp only [encTime]
    split
    · exact encTlf_head _ _ _ _ (Or.inl (by decide)) (fun h => by cases h)
    · rw [List.append_assoc]
      exact encTlf_head _ _ _ _ (Or.inl (by decide)) (fun h => by cases h)

theorem enc_sound_optTime (c : FieldChoice) (o : Option Time) (h : WFOpt WFTime o) :
    EncOpt EncTime o (encOpt (encTime c) o) :=
  enc_sound_opt (fun a ha => enc_sound_time c a ha) (fun a _ => encTime_head c a) o h

/-! ### SML_Value, SML_Status -/

theorem tlf_list (extra n : Nat) (h : n ≤ u32Max) :
    EncTlf ⟨.listOf, n⟩ (encTlf extra .listOf n) :=
  enc_sound_tlf _ _ _ (by decide) (by simpa using h)

/-- `enc_sound_value`: every value type, every width class -/
theorem enc_sound_value (c : FieldChoice) (v : Value) (h : WFValue v) :
    EncValue v (encValue c v) := by
  cases v with
  | bool b => exact Gram.mk_value_bool (enc_sound_bool b)
  | bytes bs => exact Gram.mk_value_bytes (enc_sound_octet c bs h)
  | int size x =>
    obtain ⟨hs, hx⟩ : size ∈ widths ∧ InInt size x := h
    obtain ⟨a1, a2, a3, a4, a5⟩ := class_int c size x hs hx
    exact Gram.mk_value_int size x _ _ a1 a2 a3 a4 a5
  | uns size x =>
    obtain ⟨hs, hx⟩ : size ∈ widths ∧ InUns size x := h
    obtain ⟨a1, a2, a3, a4, a5⟩ := class_uns c size x hs hx
    exact Gram.mk_value_uns size x _ _ a1 a2 a3 a4 a5
  | list l =>
    cases l with
    | time t =>
      have ht : WFTime t := h
      exact Gram.mk_value_list _ _ _ (tlf_list _ 2 (by simp [u32Max]))
        (Gram.mk_listType _ _ t (enc_sound_unsigned c 1 1 (by decide) inUns_one)
          (enc_sound_time c t ht))

theorem enc_sound_status (c : FieldChoice) (s : Status) (h : WFStatus s) :
    EncStatus s (encStatus c s) := by
  cases s with
  | status size x =>
    obtain ⟨hs, hx⟩ : size ∈ widths ∧ InUns size x := h
    obtain ⟨a1, a2, a3, a4, a5⟩ := class_uns c size x hs hx
    exact Gram.mk_status size x _ _ a1 a2 a3 a4 a5

theorem encStatus_head (c : FieldChoice) (s : Status) : (encStatus c s).head? ≠ some 0x01 := by
  cases s with
  | status size x => exact encTlf_head _ _ _ _ (Or.inl (by decide)) (fun h => by cases h)

theorem enc_sound_optStatus (c : FieldChoice) (o : Option Status) (h : WFOpt WFStatus o) :
    EncOpt EncStatus o (encOpt (encStatus c) o) :=
  enc_sound_opt (fun a ha => enc_sound_status c a ha) (fun a _ => encStatus_head c a) o h

/-! ### list entries and the response bodies -/

theorem enc_sound_entry (c : EntryChoices) (x : ListEntry) (h : WFEntry x) :
    EncListEntry x (encEntry c x) := by
  obtain ⟨h1, h2, h3, h4, h5, h6, h7⟩ := h
  exact Gram.mk_listEntry (tlf_list _ 7 (by simp [u32Max])) (enc_sound_octet _ _ h1)
    (enc_sound_optStatus _ _ h2) (enc_sound_optTime _ _ h3) (enc_sound_optU8 _ _ h4)
    (enc_sound_optI8 _ _ h5) (enc_sound_value _ _ h6) (enc_sound_optOctet _ _ h7)

theorem enc_sound_entries : ∀ (xs : List ListEntry) (c : Nat → EntryChoices),
    (∀ e ∈ xs, WFEntry e) → EncSeq EncListEntry xs (encEntries c xs) := by
  intro xs
  induction xs with
  | nil => intro c _; exact .nil
  | cons x xs ih =>
    intro c h
    exact .cons (enc_sound_entry (c 0) x (h x (by simp)))
      (ih _ (fun e he => h e (by simp [he])))

theorem enc_sound_valList (ct : FieldChoice) (c : Nat → EntryChoices) (xs : List ListEntry)
    (hl : xs.length ≤ u32Max) (h : ∀ e ∈ xs, WFEntry e) :
    EncValList xs (encValList ct c xs) :=
  Gram.mk_valList (tlf_list _ _ hl) (enc_sound_entries xs c h)

theorem enc_sound_open (c : OpenChoices) (x : OpenResponse) (h : WFOpen x) :
    EncOpenResponse x (encOpen c x) := by
  obtain ⟨h1, h2, h3, h4, h5, h6⟩ := h
  exact Gram.mk_openResponse (tlf_list _ 6 (by simp [u32Max])) (enc_sound_optOctet _ _ h1)
    (enc_sound_optOctet _ _ h2) (enc_sound_octet _ _ h3) (enc_sound_octet _ _ h4)
    (enc_sound_optTime _ _ h5) (enc_sound_optU8 _ _ h6)

theorem enc_sound_close (c : CloseChoices) (x : CloseResponse) (h : WFClose x) :
    EncCloseResponse x (encClose c x) :=
  Gram.mk_closeResponse (tlf_list _ 1 (by simp [u32Max])) (enc_sound_optOctet _ _ h)

theorem enc_sound_getList (c : GetListChoices) (x : GetListResponse) (h : WFGetList x) :
    EncGetListResponse x (encGetList c x) := by
  obtain ⟨h1, h2, h3, h4, ⟨h5, h5'⟩, h6, h7⟩ := h
  exact Gram.mk_getListResponse (tlf_list _ 7 (by simp [u32Max])) (enc_sound_optOctet _ _ h1)
    (enc_sound_octet _ _ h2) (enc_sound_optOctet _ _ h3) (enc_sound_optTime _ _ h4)
    (enc_sound_valList _ _ _ h5 h5') (enc_sound_optOctet _ _ h6) (enc_sound_optTime _ _ h7)

/-! ### messages and files -/

theorem inUns4_of_lt (n : Nat) (h : n < 2 ^ 32) : InUns 4 (n : Int) := by
  unfold InUns
  simp only [Nat.reduceMul, Nat.reducePow] at h ⊢
  omega

theorem enc_sound_body (c : MessageChoices) (b : MessageBody) (h : WFBody b) :
    EncMessageBody b (encBody c b) := by
  cases b with
  | openResponse x =>
    exact Gram.mk_body_open (tlf_list _ 2 (by simp [u32Max]))
      (enc_sound_unsigned _ 4 0x0101 (by decide) (inUns4_of_lt 0x0101 (by decide)))
      (enc_sound_open _ x h)
  | closeResponse x =>
    exact Gram.mk_body_close (tlf_list _ 2 (by simp [u32Max]))
      (enc_sound_unsigned _ 4 0x0201 (by decide) (inUns4_of_lt 0x0201 (by decide)))
      (enc_sound_close _ x h)
  | getListResponse x =>
    exact Gram.mk_body_getList (tlf_list _ 2 (by simp [u32Max]))
      (enc_sound_unsigned _ 4 0x0701 (by decide) (inUns4_of_lt 0x0701 (by decide)))
      (enc_sound_getList _ x h)

theorem enc_sound_messageHead (c : MessageChoices) (m : Message) (h : WFMessage m) :
    EncMessageHead m (encMessageHead c m) := by
  obtain ⟨h1, h2, h3, h4⟩ := h
  exact Gram.mk_messageHead (tlf_list _ 6 (by simp [u32Max])) (enc_sound_octet _ _ h1)
    (enc_sound_unsigned _ 1 _ (by decide) h2) (enc_sound_unsigned _ 1 _ (by decide) h3)
    (enc_sound_body _ _ h4)

/-- the checksum `swap16 (crc16 head)` is a 16-bit value, whatever the head (the CRC stays opaque) -/
theorem inUns_u16 (x : UInt16) : InUns 2 (x.toNat : Int) := by
  unfold InUns
  have := x.toNat_lt
  simp only [Nat.reduceMul, Nat.reducePow] at this ⊢
  omega

/-- `enc_sound_message`: head, checksum of the head as Unsigned16 (1 or 2 data bytes), end marker -/
theorem enc_sound_message (c : MessageChoices) (m : Message) (h : WFMessage m) :
    EncMessage m (encMessage c m) :=
  Gram.mk_message (enc_sound_messageHead c m h)
    (enc_sound_unsigned c.crc 2 _ (by decide) (inUns_u16 _))

theorem enc_sound_messages : ∀ (ms : List Message) (c : Choices),
    (∀ m ∈ ms, WFMessage m) → EncSeq EncMessage ms (encMessages c ms) := by
  intro ms
  induction ms with
  | nil => intro c _; exact .nil
  | cons m ms ih =>
    intro c h
    exact .cons (enc_sound_message (c 0) m (h m (by simp)))
      (ih _ (fun e he => h e (by simp [he])))

theorem enc_sound_file (c : Choices) (F : File) (h : WFFile F) : EncFile F (encFile c F) :=
  Gram.mk_file (enc_sound_messages F.messages c h)

end Sml.Enc

import Sml.Model.Encode
import Sml.Lemmas.Stuff
/-
  Helper lemmas for property C07 (the two encoders produce the specified frame).

  * `Buf.*`        : `push` / `extend` of the abstract buffer as "append if the total fits".
  * `encodeLoop_eq`: the `for b in iter` loop of the buffer encoder appends `Spec.stuffFrom`.
  * `encodeBuf_eq` : the buffer encoder is "append `Spec.frame p` to an empty buffer".
  * `Enc.*`        : the iterator encoder; `Enc.run_frame` is the complete run.
-/
namespace Sml

open Spec (stuffFrom stuff ctr padLen ESC frame framePrefix)

namespace C07

/-- a total of `n` bytes fits into a buffer of capacity `cap` (`none` = growable `Vec`) -/
def fitsCap (cap : Option Nat) (n : Nat) : Prop :=
  match cap with
  | none => True
  | some c => n ≤ c

instance (cap : Option Nat) (n : Nat) : Decidable (fitsCap cap n) := by
  unfold fitsCap; split <;> infer_instance

@[simp] theorem fitsCap_none (n : Nat) : fitsCap none n ↔ True := Iff.rfl

@[simp] theorem fitsCap_some (c n : Nat) : fitsCap (some c) n ↔ n ≤ c := Iff.rfl

end C07

open C07

/-! ### the abstract buffer -/

namespace Buf

/-- the buffer does not hold more than its capacity -/
def WF (b : Buf) : Prop := fitsCap b.cap b.len

theorem wf_new (cap : Option Nat) : (Buf.new cap).WF := by
  cases cap <;> simp [WF, Buf.new, Buf.len]

theorem fits_iff (b : Buf) (n : Nat) : b.fits n = true ↔ fitsCap b.cap (b.len + n) := by
  unfold fits fitsCap len
  cases b.cap <;> simp

/-- `extend_from_slice` appends the slice if the total fits and fails otherwise -/
theorem extend_eq (b : Buf) (s : List UInt8) :
    b.extend s =
      if fitsCap b.cap (b.len + s.length) then some { b with rdata := s.reverse ++ b.rdata }
      else none := by
  unfold extend
  by_cases h : b.fits s.length = true
  · rw [if_pos h, if_pos ((fits_iff b _).1 h)]
  · rw [if_neg h, if_neg (fun h' => h ((fits_iff b _).2 h'))]

/-- `push` is `extend_from_slice` of a one-element slice -/
theorem push_eq_extend (b : Buf) (x : UInt8) : b.push x = b.extend [x] := by
  rw [extend_eq]
  unfold push isFull fitsCap len
  cases b.cap with
  | none => simp
  | some c =>
    by_cases h : c ≤ b.rdata.length
    · have h' : ¬ (b.rdata.length + 1 ≤ c) := by omega
      simp [h, h']
    · have h' : b.rdata.length + 1 ≤ c := by omega
      simp [h, h']

theorem extend_some {b b' : Buf} {s : List UInt8} (h : b.extend s = some b') :
    b'.cap = b.cap ∧ b'.data = b.data ++ s ∧ b'.len = b.len + s.length ∧ b'.WF := by
  rw [extend_eq] at h
  split at h
  · next hf =>
    cases h
    refine ⟨rfl, ?_, ?_, ?_⟩
    · simp [data]
    · simp [len]; omega
    · have : ({ b with rdata := s.reverse ++ b.rdata } : Buf).len = b.len + s.length := by
        simp [len]; omega
      unfold WF
      rw [this]
      exact hf
  · cases h

theorem extend_nil {b : Buf} (h : b.WF) : b.extend [] = some b := by
  rw [extend_eq]
  have : fitsCap b.cap (b.len + ([] : List UInt8).length) := h
  rw [if_pos this]
  rfl

/-- two successful appends are one append -/
theorem extend_append_of_some {b b' : Buf} {s : List UInt8} (h : b.extend s = some b')
    (t : List UInt8) : b'.extend t = b.extend (s ++ t) := by
  rw [extend_eq] at h
  split at h
  · next hf =>
    cases h
    rw [extend_eq, extend_eq]
    have hl : ({ b with rdata := s.reverse ++ b.rdata } : Buf).len + t.length
        = b.len + (s ++ t).length := by
      simp [len]; omega
    simp only [hl]
    split
    · simp
    · rfl
  · cases h

/-- if a prefix does not fit, the whole does not fit -/
theorem extend_append_of_none {b : Buf} {s : List UInt8} (h : b.extend s = none)
    (t : List UInt8) : b.extend (s ++ t) = none := by
  rw [extend_eq] at h ⊢
  split at h
  · cases h
  · next hf =>
    rw [if_neg]
    intro hf'
    apply hf
    revert hf'
    unfold fitsCap
    cases b.cap with
    | none => simp
    | some c => simp only [List.length_append]; omega

theorem new_extend (cap : Option Nat) (s : List UInt8) :
    (Buf.new cap).extend s =
      if fitsCap cap s.length then some { cap := cap, rdata := s.reverse } else none := by
  rw [extend_eq]
  simp [Buf.new, len]

end Buf

/-! ### the buffer encoder -/

/-- The stuffing loop of the buffer encoder appends `stuffFrom n p` (all or nothing), where the
code's `num_1b` is the specification's run counter. -/
theorem encodeLoop_eq (p : List UInt8) :
    ∀ (buf : Buf) (n : Nat), buf.WF → n < 4 → encodeLoop buf n p = buf.extend (stuffFrom n p) := by
  induction p with
  | nil =>
    intro buf n hwf _
    rw [Spec.stuffFrom_nil, Buf.extend_nil hwf]
    rfl
  | cons b bs ih =>
    intro buf n hwf hn
    unfold encodeLoop
    rw [Buf.push_eq_extend]
    by_cases hb : b = 0x1b
    · subst hb
      by_cases h3 : n = 3
      · subst h3
        rw [Spec.stuffFrom_cons_1b_three]
        cases h1 : buf.extend [0x1b] with
        | none =>
          exact (Buf.extend_append_of_none h1 _).symm
        | some b1 =>
          have e1 := Buf.extend_append_of_some h1
          simp only [if_true]
          cases h2 : b1.extend [0x1b, 0x1b, 0x1b, 0x1b] with
          | none =>
            simp only
            rw [e1] at h2
            exact (Buf.extend_append_of_none h2 (stuffFrom 0 bs)).symm
          | some b2 =>
            simp only
            rw [ih b2 0 (Buf.extend_some h2).2.2.2 (by omega), Buf.extend_append_of_some h2, e1]
            rfl
      · rw [Spec.stuffFrom_cons_1b_of_ne_three h3]
        have h4 : ¬ (n + 1 = 4) := by omega
        cases h1 : buf.extend [0x1b] with
        | none =>
          exact (Buf.extend_append_of_none h1 _).symm
        | some b1 =>
          simp only [if_true, if_neg h4]
          rw [ih b1 (n + 1) (Buf.extend_some h1).2.2.2 (by omega), Buf.extend_append_of_some h1]
          rfl
    · rw [Spec.stuffFrom_cons_of_ne hb]
      cases h1 : buf.extend [b] with
      | none =>
        exact (Buf.extend_append_of_none h1 _).symm
      | some b1 =>
        simp only [if_neg hb]
        rw [if_neg (by omega), ih b1 0 (Buf.extend_some h1).2.2.2 (by omega),
          Buf.extend_append_of_some h1]
        rfl

/-- `Result<B, OutOfMemory>` of an all-or-nothing append -/
def finish (o : Option Buf) : EncRes :=
  match o with
  | none => .oom
  | some b => .ok b.data

/-- the frame as the encoder assembles it -/
theorem frame_eq_parts (p : List UInt8) :
    frame p =
      Spec.START ++ (stuff p ++ (List.replicate (padLen (Spec.START ++ stuff p).length) 0 ++
        ([0x1b, 0x1b, 0x1b, 0x1b, 0x1a, UInt8.ofNat (padLen (Spec.START ++ stuff p).length)] ++
          le16 (crc16 (framePrefix p))))) := by
  simp [frame, framePrefix, ESC]

theorem framePrefix_eq_parts (p : List UInt8) :
    framePrefix p =
      Spec.START ++ stuff p ++ List.replicate (padLen (Spec.START ++ stuff p).length) 0 ++
        [0x1b, 0x1b, 0x1b, 0x1b, 0x1a, UInt8.ofNat (padLen (Spec.START ++ stuff p).length)] := by
  simp [framePrefix, ESC]

/-- start (8) + stuffed payload + padding + end escape, `1a`, pad count (6) + CRC (2) -/
theorem length_frame (p : List UInt8) :
    (frame p).length = (stuff p).length + padLen (Spec.START ++ stuff p).length + 16 := by
  rw [frame_eq_parts]
  simp [Spec.length_START, length_le16]
  omega

/-- every frame is a whole number of 32-bit words -/
theorem length_frame_mod4 (p : List UInt8) : (frame p).length % 4 = 0 := by
  have h := Spec.padLen_spec (Spec.START ++ stuff p).length
  rw [length_frame]
  simp only [List.length_append, Spec.length_START] at h ⊢
  omega

theorem take_zeros {k : Nat} (h : k < 4) :
    ([0, 0, 0] : List UInt8).take k = List.replicate k 0 := by
  have : k = 0 ∨ k = 1 ∨ k = 2 ∨ k = 3 := by omega
  rcases this with rfl | rfl | rfl | rfl <;> rfl

/-- The buffer encoder is one all-or-nothing append of the specified frame to an empty buffer. -/
theorem encodeBuf_eq (cap : Option Nat) (p : List UInt8) :
    encodeBuf cap p = finish ((Buf.new cap).extend (frame p)) := by
  rw [frame_eq_parts]
  unfold encodeBuf
  rw [START_eq_spec]
  cases h1 : (Buf.new cap).extend Spec.START with
  | none => rw [Buf.extend_append_of_none h1]; rfl
  | some b1 =>
    obtain ⟨_, hd1, hl1, hw1⟩ := Buf.extend_some h1
    rw [← Buf.extend_append_of_some h1]
    simp only
    rw [encodeLoop_eq p b1 0 hw1 (by omega)]
    show (match b1.extend (stuff p) with
      | none => EncRes.oom
      | some buf => _) = _
    cases h2 : b1.extend (stuff p) with
    | none => rw [Buf.extend_append_of_none h2]; rfl
    | some b2 =>
      obtain ⟨_, hd2, hl2, hw2⟩ := Buf.extend_some h2
      rw [← Buf.extend_append_of_some h2]
      have hlen : b2.len = (Spec.START ++ stuff p).length := by
        rw [hl2, hl1]; simp [Buf.new, Buf.len]
      have hk : (4 - b2.len % 4) % 4 = padLen (Spec.START ++ stuff p).length := by
        rw [hlen]; rfl
      simp only [hk]
      rw [if_neg (by have := Spec.padLen_lt_4 (Spec.START ++ stuff p).length; omega),
        take_zeros (Spec.padLen_lt_4 _)]
      cases h3 : b2.extend (List.replicate (padLen (Spec.START ++ stuff p).length) 0) with
      | none => rw [Buf.extend_append_of_none h3]; rfl
      | some b3 =>
        obtain ⟨_, hd3, _, _⟩ := Buf.extend_some h3
        rw [← Buf.extend_append_of_some h3]
        simp only
        cases h4 : b3.extend [0x1b, 0x1b, 0x1b, 0x1b, 0x1a,
            UInt8.ofNat (padLen (Spec.START ++ stuff p).length)] with
        | none => rw [Buf.extend_append_of_none h4]; rfl
        | some b4 =>
          obtain ⟨_, hd4, _, _⟩ := Buf.extend_some h4
          rw [← Buf.extend_append_of_some h4]
          have hdata : b4.data = framePrefix p := by
            rw [hd4, hd3, hd2, hd1, framePrefix_eq_parts]
            simp [Buf.new, Buf.data]
          simp only [hdata]
          rfl

theorem finish_new_extend (cap : Option Nat) (s : List UInt8) :
    finish ((Buf.new cap).extend s) = if fitsCap cap s.length then EncRes.ok s else EncRes.oom := by
  rw [Buf.new_extend]
  split
  · simp [finish, Buf.data]
  · rfl

/-! ### the iterator encoder -/

/-- dropping the `Some` wrapper of the iterator outputs -/
theorem filterMap_map_byte (l : List UInt8) (f : EOut → Option UInt8)
    (hf : ∀ b, f (.byte b) = some b) : (l.map EOut.byte).filterMap f = l := by
  induction l with
  | nil => rfl
  | cons x xs ih => simp [hf, ih]


namespace Enc

theorem run_zero (e : Enc) : e.run 0 = (e, []) := rfl

theorem run_succ (e : Enc) (n : Nat) :
    e.run (n + 1) = ((e.next.1.run n).1, e.next.2 :: (e.next.1.run n).2) := rfl

/-- one step followed by `n` steps -/
theorem run_succ_of {e e1 e2 : Enc} {o : EOut} {os : List EOut} {n : Nat}
    (h1 : e.next = (e1, o)) (h2 : e1.run n = (e2, os)) : e.run (n + 1) = (e2, o :: os) := by
  rw [run_succ, h1]
  simp only [h2]

/-- `m` steps followed by `n` steps -/
theorem run_add_of {m : Nat} : ∀ {e e1 e2 : Enc} {o1 o2 : List EOut} {n : Nat},
    e.run m = (e1, o1) → e1.run n = (e2, o2) → e.run (m + n) = (e2, o1 ++ o2) := by
  induction m with
  | zero =>
    intro e e1 e2 o1 o2 n h1 h2
    rw [run_zero] at h1
    cases h1
    simpa using h2
  | succ m ih =>
    intro e e1 e2 o1 o2 n h1 h2
    rw [run_succ] at h1
    cases h1
    have : m + 1 + n = (m + n) + 1 := by omega
    rw [this]
    exact run_succ_of (e1 := e.next.1) (o := e.next.2) rfl (ih rfl h2)

/-- a run only depends on the result of the first step -/
theorem run_succ_congr {e e' : Enc} (h : e.next = e'.next) (n : Nat) :
    e.run (n + 1) = e'.run (n + 1) := by
  rw [run_succ, run_succ, h]

/-- states in which the next call reads the payload with run counter `n`:
`LookingForEscape(n)` with `n < 4`, and `Init(8)` / `HandlingEscape(4)` (which fall through to
`LookingForEscape(0)`) -/
def LookLike (st : EState) (n : Nat) : Prop :=
  (st = .look n ∧ n < 4) ∨ (n = 0 ∧ (st = .init 8 ∨ st = .esc 4))

theorem LookLike.lt {st : EState} {n : Nat} (h : LookLike st n) : n < 4 := by
  rcases h with ⟨_, h⟩ | ⟨h, _⟩ <;> omega

theorem next_of_lookLike {e : Enc} {n : Nat} (h : LookLike e.st n) : e.next = nextLook e n := by
  unfold next
  rcases h with ⟨h, hn⟩ | ⟨rfl, h | h⟩
  · simp [h, hn]
  · simp [h]
  · simp [h]

theorem nextLook_cons {e : Enc} {b : UInt8} {bs : List UInt8} (h : e.rest = b :: bs) (n : Nat) :
    nextLook e n =
      ({ e with rest := bs, padding := e.padding - 1, crc := crcByte e.crc b,
                st := .look ((n + 1) * (if b = 0x1b then 1 else 0)) }, .byte b) := by
  simp [nextLook, h]

/-- `LookingForEscape(4)`: the four escape bytes; the CRC is updated first -/
theorem run_escape {e : Enc} (h : e.st = .look 4) :
    e.run 4 = ({ e with crc := crcUpdate e.crc ESC, st := .esc 4 }, ESC.map .byte) := by
  rcases e with ⟨st, c, pd, r⟩
  simp only at h
  subst h
  simp [run, next, ESC]

theorem sub_one_sub (a x : UInt8) : a - 1 - x = a - (x + 1) := by grind

/-- The payload phase: from a `LookLike` state with run counter `n`, the next
`|stuffFrom n q|` calls yield `stuffFrom n q`; afterwards the source is exhausted, the CRC covers
the emitted bytes (including a pending escape), and `padding` has been bumped `|q|` times. -/
theorem run_payload (q : List UInt8) :
    ∀ (e : Enc) (n : Nat), LookLike e.st n → e.rest = q →
      ∃ e', e.run (stuffFrom n q).length = (e', (stuffFrom n q).map .byte) ∧
        LookLike e'.st (ctr n q) ∧ e'.rest = [] ∧
        e'.crc = crcUpdate e.crc (stuffFrom n q) ∧
        e'.padding = e.padding - UInt8.ofNat q.length := by
  induction q with
  | nil =>
    intro e n hl hr
    exact ⟨e, rfl, hl, hr, rfl, by simp⟩
  | cons b bs ih =>
    intro e n hl hr
    have hn := hl.lt
    have hnext := (next_of_lookLike hl).trans (nextLook_cons hr n)
    have hpad : ∀ a : UInt8, a - 1 - UInt8.ofNat bs.length = a - UInt8.ofNat (bs.length + 1) := by
      intro a; rw [UInt8.ofNat_add, sub_one_sub]; rfl
    by_cases hb : b = 0x1b
    · subst hb
      simp only [if_true, Nat.mul_one] at hnext
      by_cases h3 : n = 3
      · subst h3
        -- the fourth 0x1b: one byte, then the escape, then the rest
        have hesc := run_escape (e := { e with
          rest := bs, padding := e.padding - 1, crc := crcByte e.crc 0x1b, st := .look (3 + 1) }) rfl
        obtain ⟨e', hrun, hl', hr', hc', hp'⟩ :=
          ih { e with
               rest := bs, padding := e.padding - 1
               crc := crcUpdate (crcByte e.crc 0x1b) ESC, st := .esc 4 } 0
            (Or.inr ⟨rfl, Or.inr rfl⟩) rfl
        refine ⟨e', ?_, ?_, hr', ?_, ?_⟩
        · have := run_succ_of hnext (run_add_of hesc hrun)
          rw [Spec.stuffFrom_cons_1b_three]
          simpa [Spec.length_ESC] using this
        · rw [Spec.ctr_cons_1b_three]; exact hl'
        · rw [hc', Spec.stuffFrom_cons_1b_three, crcUpdate_cons, crcUpdate_append]
        · rw [hp']; exact hpad _
      · obtain ⟨e', hrun, hl', hr', hc', hp'⟩ :=
          ih { e with
               rest := bs, padding := e.padding - 1
               crc := crcByte e.crc 0x1b, st := .look (n + 1) } (n + 1)
            (Or.inl ⟨rfl, by omega⟩) rfl
        refine ⟨e', ?_, ?_, hr', ?_, ?_⟩
        · have := run_succ_of hnext hrun
          rw [Spec.stuffFrom_cons_1b_of_ne_three h3]
          simpa using this
        · rw [Spec.ctr_cons_1b_of_ne_three h3]; exact hl'
        · rw [hc', Spec.stuffFrom_cons_1b_of_ne_three h3, crcUpdate_cons]
        · rw [hp']; exact hpad _
    · simp only [if_neg hb, Nat.mul_zero] at hnext
      obtain ⟨e', hrun, hl', hr', hc', hp'⟩ :=
        ih { e with
             rest := bs, padding := e.padding - 1
             crc := crcByte e.crc b, st := .look 0 } 0
          (Or.inl ⟨rfl, by omega⟩) rfl
      refine ⟨e', ?_, ?_, hr', ?_, ?_⟩
      · have := run_succ_of hnext hrun
        rw [Spec.stuffFrom_cons_of_ne hb]
        simpa using this
      · rw [Spec.ctr_cons_of_ne hb]; exact hl'
      · rw [hc', Spec.stuffFrom_cons_of_ne hb, crcUpdate_cons]
      · rw [hp']; exact hpad _

/-! #### the trailer -/

/-- `End(6)`, `End(7)`: the index into `crc_bytes` is in range (the explicit panic site
`encode.rs:121` is not taken) -/
theorem nextFin_crc (e : Enc) {m : Int} (h6 : 6 ≤ m) (h8 : m < 8) :
    nextFin e m = ({ e with st := .fin (m + 1) },
      .byte (if m = 6 then (crcFinal e.crc).toUInt8 else ((crcFinal e.crc) >>> 8).toUInt8)) := by
  have hm : m = 6 ∨ m = 7 := by omega
  rcases hm with rfl | rfl <;> simp [nextFin, le16]

/-- `nextFin` never looks at the stored state (below the unreachable arm) -/
theorem nextFin_with_st (e : Enc) (st' : EState) {m : Int} (hm : m ≤ 8) :
    nextFin { e with st := st' } m = nextFin e m := by
  by_cases h : 6 ≤ m ∧ m < 8
  · rw [nextFin_crc _ h.1 h.2, nextFin_crc _ h.1 h.2]
  · unfold nextFin
    repeat' split
    all_goals first | rfl | omega

theorem next_fin {e : Enc} {m : Int} (h : e.st = .fin m) : e.next = nextFin e m := by
  unfold next; simp [h]

/-- `End(-j)`: `j` zero bytes -/
theorem run_zeros (j : Nat) : ∀ (e : Enc), e.st = .fin (-(j : Int)) →
    e.run j = ({ e with st := .fin 0 }, List.replicate j (.byte 0)) := by
  induction j with
  | zero =>
    intro e h
    rcases e with ⟨st, c, pd, r⟩
    simp only at h
    subst h
    rfl
  | succ j ih =>
    intro e h
    have hneg : (-((j + 1 : Nat) : Int)) < 0 := by omega
    have hstep : e.next = ({ e with st := .fin (-(j : Int)) }, .byte 0) := by
      rw [next_fin h]
      unfold nextFin
      rw [if_pos hneg]
      have : (-((j + 1 : Nat) : Int)) + 1 = -(j : Int) := by omega
      rw [this]
    have := run_succ_of hstep (ih { e with st := .fin (-(j : Int)) } rfl)
    rw [this, List.replicate_succ]

/-- `End(0)` .. `End(7)`: end escape, pad count, CRC -/
theorem run_tail {e : Enc} (h : e.st = .fin 0) :
    e.run 8 = ({ e with st := .fin 8 },
      ([0x1b, 0x1b, 0x1b, 0x1b, 0x1a, e.padGet] ++ le16 (crcFinal e.crc)).map .byte) := by
  rcases e with ⟨st, c, pd, r⟩
  simp only at h
  subst h
  simp [run, next, nextFin, le16, padGet]

/-- `End(8)`: `None` forever -/
theorem run_fused {e : Enc} (h : e.st = .fin 8) (k : Nat) :
    e.run k = (e, List.replicate k .none) := by
  induction k with
  | zero => rfl
  | succ k ih =>
    have hstep : e.next = (e, .none) := by
      rw [next_fin h]
      rcases e with ⟨st, c, pd, r⟩
      simp only at h
      subst h
      simp [nextFin]
    rw [run_succ_of hstep ih, List.replicate_succ]

theorem toNat_and_three_lt (x : UInt8) : (x &&& 3).toNat < 4 := by
  have : (3 : UInt8).toNat = 2 ^ 2 - 1 := rfl
  rw [UInt8.toNat_and, this, Nat.and_two_pow_sub_one_eq_mod]
  omega

/-- `Padding::get` after `m` bumps of the wrapping counter is the specified pad count -/
theorem toNat_neg_and_three (m : Nat) : ((0 - UInt8.ofNat m) &&& 3).toNat = padLen m := by
  have : (3 : UInt8).toNat = 2 ^ 2 - 1 := rfl
  rw [UInt8.toNat_and, this, Nat.and_two_pow_sub_one_eq_mod, UInt8.toNat_sub]
  simp only [UInt8.toNat_ofNat', padLen]
  simp
  omega

/-- The trailer phase: source exhausted in a `LookLike` state. -/
theorem run_trailer {e : Enc} {n : Nat} (hl : LookLike e.st n) (hr : e.rest = []) :
    ∃ e', e.run (e.padGet.toNat + 8) =
        (e', (List.replicate e.padGet.toNat 0 ++
          ([0x1b, 0x1b, 0x1b, 0x1b, 0x1a, e.padGet] ++
            le16 (crcFinal (crcUpdate (crcUpdate e.crc (List.replicate e.padGet.toNat 0))
              [0x1b, 0x1b, 0x1b, 0x1b, 0x1a, e.padGet])))).map .byte) ∧
      e'.st = .fin 8 := by
  -- the encoder as `next_from_state(End(-padding))` sees it
  let e0 : Enc := { e with
    crc := crcUpdate (crcUpdate e.crc (List.replicate e.padGet.toNat 0))
      [0x1b, 0x1b, 0x1b, 0x1b, 0x1a, e.padGet],
    st := .fin (-(e.padGet.toNat : Int)) }
  have hle : (-(e.padGet.toNat : Int)) ≤ 8 := by omega
  have hA : e.next = nextFin { e with
      crc := crcUpdate (crcUpdate e.crc (List.replicate e.padGet.toNat 0))
        [0x1b, 0x1b, 0x1b, 0x1b, 0x1a, e.padGet] } (-(e.padGet.toNat : Int)) := by
    rw [next_of_lookLike hl]
    simp [nextLook, hr]
  have hB : e0.next = nextFin { e with
      crc := crcUpdate (crcUpdate e.crc (List.replicate e.padGet.toNat 0))
        [0x1b, 0x1b, 0x1b, 0x1b, 0x1a, e.padGet] } (-(e.padGet.toNat : Int)) := by
    rw [next_fin (e := e0) rfl]
    exact nextFin_with_st { e with
      crc := crcUpdate (crcUpdate e.crc (List.replicate e.padGet.toNat 0))
        [0x1b, 0x1b, 0x1b, 0x1b, 0x1a, e.padGet] } (.fin (-(e.padGet.toNat : Int))) hle
  have hnext : e.next = e0.next := hA.trans hB.symm
  have h1 := run_zeros e.padGet.toNat e0 rfl
  have h2 := run_tail (e := { e0 with st := .fin 0 }) rfl
  have h := run_add_of h1 h2
  have hrun : e.run (e.padGet.toNat + 8) = e0.run (e.padGet.toNat + 8) :=
    run_succ_congr hnext (e.padGet.toNat + 7)
  refine ⟨{ e0 with st := .fin 8 }, ?_, rfl⟩
  rw [hrun, h]
  simp [e0, padGet]

/-- The complete run of the iterator encoder: the first `|frame p|` calls of `next` yield
exactly the bytes of `frame p`, and leave the encoder in `End(8)`. -/
theorem run_frame (p : List UInt8) :
    ∃ e', (Enc.new p).run (frame p).length = (e', (frame p).map .byte) ∧ e'.st = .fin 8 := by
  have h0 : (Enc.new p).run 8 =
      ({ st := .init 8, crc := startCrc, padding := 0, rest := p }, Spec.START.map .byte) := by
    simp [run, next, Enc.new, Spec.START]
  obtain ⟨e1, h1, hl1, hr1, hc1, hp1⟩ :=
    run_payload p { st := .init 8, crc := startCrc, padding := 0, rest := p } 0
      (Or.inr ⟨rfl, Or.inl rfl⟩) rfl
  have hs : stuffFrom 0 p = stuff p := rfl
  rw [hs] at h1 hc1
  obtain ⟨e2, h2, hst⟩ := run_trailer hl1 hr1
  have hrun := run_add_of h0 (run_add_of h1 h2)
  -- the pad count
  have hpadNat : e1.padGet.toNat = padLen (Spec.START ++ stuff p).length := by
    rw [Spec.padLen_START_stuff, padGet, hp1]
    exact toNat_neg_and_three p.length
  have hpad : e1.padGet = UInt8.ofNat (padLen (Spec.START ++ stuff p).length) := by
    rw [← hpadNat, UInt8.ofNat_toNat]
  -- the CRC
  have hcrc : crcFinal (crcUpdate (crcUpdate e1.crc (List.replicate e1.padGet.toNat 0))
      [0x1b, 0x1b, 0x1b, 0x1b, 0x1a, e1.padGet]) = crc16 (framePrefix p) := by
    have hc1' : e1.crc = crcUpdate startCrc (stuff p) := by simpa only using hc1
    rw [hc1', hpadNat, hpad, framePrefix_eq_parts, crc16, ← crcUpdate_crcInit_START_append,
      ← crcUpdate_append, ← crcUpdate_append, List.append_assoc (Spec.START ++ stuff p)]
  rw [hcrc, hpadNat, hpad] at hrun
  refine ⟨e2, ?_, hst⟩
  rw [frame_eq_parts]
  simp only [← List.map_append] at hrun
  have hlen : ∀ (a b c d : List UInt8), (a ++ (b ++ (c ++ d))).length
      = a.length + (b.length + (c.length + d.length)) := by
    intros; simp
  rw [hlen]
  simpa [Spec.length_START, length_le16] using hrun

end Enc

end Sml

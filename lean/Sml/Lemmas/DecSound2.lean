import Sml.Lemmas.DecSound
import Sml.Lemmas.DecSound1
import Sml.Lemmas.C12
/-
  Lemmas for C02 (soundness of the push decoder).

  `SInv c d` relates the bytes `c` consumed since the last `reset` / `finalize` to the decoder
  state `d`:

    * `look _ init`        : `c` ends with the first `init` bytes of the start sequence,
    * `normal`             : `c = pre ++ START ++ stuff ddS` and the encoder's run counter after the
                             logical payload `ddS` (buffer ++ withheld zeros) is 0,
    * `escChars n`         : `c = pre ++ START ++ stuff ddS ++ 1b^n`,
    * `escPayload step q`  : `c = pre ++ START ++ stuff ddS ++ 1b^4 ++ q[..step]`,
    * `done`               : `c = pre ++ frame buf`.

  In all "inside a frame" states `raw_msg_len` is the number of bytes since `pre`, and the running
  digest covers `START ++ stuff ddS` plus the `0x1b` bytes of a pending escape.
  `sinv_pushByte` is the step lemma.  Then the front-ends: histories (`sound_run`), streams
  (`sound_pushAll`), `decode` (`sound_decodeAll_go`), `DecoderReader` (`Rdr.sound_calls`),
  `DecodeIterator` (`DecIter.sound_take`); and, together with the tiling invariant of
  `DecSound1.lean`, `frame_tile_aux`: a delivered frame starts exactly at the previous boundary.
-/
namespace Sml

open Spec (stuff stuffFrom ctr padLen frame framePrefix)

/-! ### little-endian CRC bytes -/

theorem shl8_toUInt8 : ∀ hi : UInt8, (hi.toUInt16 <<< 8).toUInt8 = 0 :=
  C12.forall_uint8 (by decide +kernel)

theorem shr8_toUInt16 : ∀ lo : UInt8, (lo.toUInt16 >>> 8) = 0 :=
  C12.forall_uint8 (by decide +kernel)

theorem shl8_shr8 : ∀ hi : UInt8, ((hi.toUInt16 <<< 8) >>> 8).toUInt8 = hi :=
  C12.forall_uint8 (by decide +kernel)

/-- `to_le_bytes(from_le_bytes([lo, hi])) = [lo, hi]` -/
theorem le16_ofLe16 (lo hi : UInt8) : le16 (ofLe16 lo hi) = [lo, hi] := by
  unfold le16 ofLe16
  rw [UInt16.toUInt8_or, UInt8.toUInt8_toUInt16, shl8_toUInt8, UInt16.shiftRight_or,
    shr8_toUInt16, UInt16.zero_or, shl8_shr8]
  simp

/-! ### stuffing facts used by the decoder -/

namespace Spec

theorem stuff_snoc_of_ne {x : UInt8} (hx : x ≠ 0x1b) (a : List UInt8) :
    stuff (a ++ [x]) = stuff a ++ [x] ∧ ctr 0 (a ++ [x]) = 0 := by
  constructor
  · rw [stuff_append, stuffFrom_cons_of_ne hx, stuffFrom_nil]
  · rw [ctr_append, ctr_cons_of_ne hx, ctr_nil]

/-- up to three `0x1b` and another byte after a payload whose run counter is 0 -/
theorem stuff_run_ne {x : UInt8} (hx : x ≠ 0x1b) {a : List UInt8} (ha : ctr 0 a = 0) {n : Nat}
    (hn : n ≤ 3) :
    stuff (a ++ List.replicate n 0x1b ++ [x]) = stuff a ++ (List.replicate n 0x1b ++ [x]) ∧
      ctr 0 (a ++ List.replicate n 0x1b ++ [x]) = 0 := by
  constructor
  · rw [List.append_assoc, stuff_append, ha, stuffFrom_append, stuffFrom_replicate_1b (by omega),
      stuffFrom_cons_of_ne hx, stuffFrom_nil]
    have : n + 4 * ((0 + n) / 4) = n := by omega
    rw [this]
  · rw [ctr_append, ctr_cons_of_ne hx, ctr_nil]

/-- a literal escape: four `0x1b` bytes of payload are eight on the wire -/
theorem stuff_four {a : List UInt8} (ha : ctr 0 a = 0) :
    stuff (a ++ List.replicate 4 0x1b) = stuff a ++ List.replicate 8 0x1b ∧
      ctr 0 (a ++ List.replicate 4 0x1b) = 0 := by
  constructor
  · rw [stuff_append, ha, stuffFrom_replicate_1b (by omega)]
  · rw [ctr_append, ha, ctr_replicate_1b (by omega)]

/-- fewer than four `0x1b` bytes after a payload whose run counter is 0 are copied -/
theorem stuff_few {a : List UInt8} (ha : ctr 0 a = 0) {k : Nat} (hk : k ≤ 3) :
    stuff (a ++ List.replicate k 0x1b) = stuff a ++ List.replicate k 0x1b := by
  rw [stuff_append, ha, stuffFrom_replicate_1b (by omega)]
  have : k + 4 * ((0 + k) / 4) = k := by omega
  rw [this]

theorem stuff_zeros (m : List UInt8) (p : Nat) :
    stuff (m ++ List.replicate p 0) = stuff m ++ List.replicate p 0 := by
  rw [stuff_append, stuffFrom_replicate_zero]

/-- the start-sequence matcher: a matching byte extends the matched prefix -/
theorem start_take_succ {x : UInt8} {init : Nat} (h7 : init ≤ 7)
    (h : (x = 0x1b ∧ init < 4) ∨ (x = 0x01 ∧ init ≥ 4)) :
    START.take (init + 1) = START.take init ++ [x] := by
  have : init = 0 ∨ init = 1 ∨ init = 2 ∨ init = 3 ∨ init = 4 ∨ init = 5 ∨ init = 6 ∨ init = 7 := by
    omega
  rcases this with rfl | rfl | rfl | rfl | rfl | rfl | rfl | rfl <;>
    rcases h with ⟨rfl, h⟩ | ⟨rfl, h⟩ <;> first | rfl | omega

end Spec

namespace Dec

/-! ### "inside a frame" -/

/-- `c = pre ++ START ++ stuff ddS ++ tail`, `raw` counts from `pre`, the digest covers
`START ++ stuff ddS ++ ctail` -/
def FR (c ddS : List UInt8) (raw : Nat) (crc : UInt16) (tail ctail : List UInt8) : Prop :=
  ∃ pre, c = pre ++ Spec.START ++ stuff ddS ++ tail ∧
    raw = 8 + (stuff ddS).length + tail.length ∧
    crc = crcUpdate startCrc (stuff ddS ++ ctail)

/-- a byte that is fed to the digest -/
theorem FR.snoc {c ddS : List UInt8} {raw : Nat} {crc : UInt16} {tail ctail : List UInt8}
    (h : FR c ddS raw crc tail ctail) (x : UInt8) :
    FR (c ++ [x]) ddS (raw + 1) (crcByte crc x) (tail ++ [x]) (ctail ++ [x]) := by
  obtain ⟨pre, h1, h2, h3⟩ := h
  refine ⟨pre, ?_, ?_, ?_⟩
  · rw [h1]; simp
  · rw [h2]; simp; omega
  · rw [h3, ← crcUpdate_singleton, ← crcUpdate_append]; simp

/-- a byte that is not fed to the digest (yet) -/
theorem FR.snoc' {c ddS : List UInt8} {raw : Nat} {crc : UInt16} {tail ctail : List UInt8}
    (h : FR c ddS raw crc tail ctail) (x : UInt8) :
    FR (c ++ [x]) ddS (raw + 1) crc (tail ++ [x]) ctail := by
  obtain ⟨pre, h1, h2, h3⟩ := h
  refine ⟨pre, ?_, ?_, h3⟩
  · rw [h1]; simp
  · rw [h2]; simp; omega

/-- bytes fed to the digest later -/
theorem FR.feed {c ddS : List UInt8} {raw : Nat} {crc : UInt16} {tail ctail : List UInt8}
    (h : FR c ddS raw crc tail ctail) (l : List UInt8) :
    FR c ddS raw (crcUpdate crc l) tail (ctail ++ l) := by
  obtain ⟨pre, h1, h2, h3⟩ := h
  refine ⟨pre, h1, h2, ?_⟩
  rw [h3, ← crcUpdate_append]; simp

/-- the first part `t1` of the tail is recognised as payload -/
theorem FR.move {c ddS dd' : List UInt8} {raw : Nat} {crc : UInt16} {t1 t2 c2 : List UInt8}
    (hs : stuff dd' = stuff ddS ++ t1) (h : FR c ddS raw crc (t1 ++ t2) (t1 ++ c2)) :
    FR c dd' raw crc t2 c2 := by
  obtain ⟨pre, h1, h2, h3⟩ := h
  refine ⟨pre, ?_, ?_, ?_⟩
  · rw [h1, hs]; simp
  · rw [h2, hs]; simp; omega
  · rw [h3, hs]; simp

/-! ### the invariant -/

def SI (c : List UInt8) (d : Dec) : DState → Prop
  | .look _ init => init ≤ 7 ∧ d.buf.rdata = [] ∧ d.zc = 0 ∧ ∃ pre, c = pre ++ Spec.START.take init
  | .normal => FR c d.ddS d.raw d.crc [] [] ∧ ctr 0 d.ddS = 0
  | .escChars n =>
    1 ≤ n ∧ n ≤ 3 ∧
      FR c d.ddS d.raw d.crc (List.replicate n 0x1b) (List.replicate n 0x1b) ∧ ctr 0 d.ddS = 0
  | .escPayload step q =>
    step ≤ 3 ∧
      FR c d.ddS d.raw d.crc (List.replicate 4 0x1b ++ q.toList.take step) (List.replicate 4 0x1b) ∧
      (ctr 0 d.ddS = 0 ∨ (q.a = 0x1a ∧ 1 ≤ step))
  | .done => ∃ pre, c = pre ++ frame d.buf.data ∧ d.raw = (frame d.buf.data).length

/-- the soundness invariant: `c` = bytes consumed since the last `reset` / `finalize` -/
def SInv (c : List UInt8) (d : Dec) : Prop := SI c d d.st

/-- what a step has to establish -/
def SPost (c : List UInt8) (p : Dec × Res) : Prop := SInv c p.1

theorem sinv_fresh (cap : Option Nat) : SInv [] (fresh cap) := by
  refine ⟨by omega, rfl, rfl, [], rfl⟩

theorem sinv_reset (c : List UInt8) (d : Dec) : SInv c (d.reset).1 := by
  refine ⟨by omega, rfl, rfl, c, by simp⟩

theorem spost_oom (c : List UInt8) (d : Dec) : SPost c ((d.reset).1, .err .oom) :=
  sinv_reset c d

/-! ### state `LookingForMessageStart` -/

theorem spost_look {c : List UInt8} {d : Dec} {disc init : Nat} (hst : d.st = .look disc init)
    (h : SInv c d) (x : UInt8) : SPost (c ++ [x]) (d.pushByte x) := by
  rw [pushByte_look hst]
  simp only [SInv, hst, SI] at h
  obtain ⟨h7, hb, hz, pre, hc⟩ := h
  unfold pushLook
  dsimp only
  split
  · next hm =>
    have hpre : c ++ [x] = pre ++ Spec.START.take (init + 1) := by
      rw [Spec.start_take_succ h7 hm, hc, List.append_assoc]
    rw [if_neg (by omega)]
    split
    · next h8 =>
      have hdd : Dec.ddS { raw := 8, crc := startCrc, st := .normal, zc := d.zc, buf := d.buf }
          = [] := by
        simp [ddS, Buf.data, hb, hz]
      have hn : SInv (c ++ [x])
          { raw := 8, crc := startCrc, st := .normal, zc := d.zc, buf := d.buf } := by
        refine ⟨⟨pre, ?_, ?_, ?_⟩, ?_⟩
        · rw [hdd, hpre, h8]; simp [Spec.START]
        · rw [hdd]; rfl
        · rw [hdd]; simp
        · rw [hdd]; rfl
      split
      · exact hn
      · exact hn
    · exact ⟨by omega, hb, hz, pre, hpre⟩
  · next hno =>
    by_cases hx : x = 0x1b
    · subst hx
      by_cases h4 : init = 4
      · subst h4
        simp only [if_true]
        rw [if_neg (by omega)]
        refine ⟨by omega, hb, hz, pre ++ [0x1b], ?_⟩
        rw [hc]; simp [Spec.START]
      · simp only [if_true, if_neg h4]
        rw [if_neg (by omega)]
        refine ⟨by omega, hb, hz, c, ?_⟩
        simp [Spec.START]
    · simp only [if_neg hx]
      rw [if_neg (by omega)]
      refine ⟨by omega, hb, hz, c ++ [x], ?_⟩
      simp

/-! ### state `ParsingNormal` -/

theorem spost_normal {c : List UInt8} {d : Dec} (hst : d.st = .normal)
    (h : SInv c d) (x : UInt8) : SPost (c ++ [x]) (d.pushByte x) := by
  rw [pushByte_normal hst]
  simp only [SInv, hst, SI] at h
  obtain ⟨hf, hctr⟩ := h
  dsimp only
  split
  · next hx =>
    subst hx
    exact ⟨by omega, by omega, hf.snoc 0x1b, hctr⟩
  · next hx =>
    apply afterPush_cases (pushData_ok _ x)
    · intro d' hp
      obtain ⟨p1, p2, p3, p4⟩ := hp
      have p4' : d'.ddS = d.ddS ++ [x] := p4
      obtain ⟨s1, s2⟩ := Spec.stuff_snoc_of_ne hx d.ddS
      show SI (c ++ [x]) d' d'.st
      rw [p3]
      show SI (c ++ [x]) d' d.st
      rw [hst]
      show FR (c ++ [x]) d'.ddS d'.raw d'.crc [] [] ∧ ctr 0 d'.ddS = 0
      rw [p1, p2, p4']
      exact ⟨FR.move (t2 := []) (c2 := []) s1 (by simpa using hf.snoc x), s2⟩
    · exact spost_oom _ _

/-! ### state `ParsingEscChars` -/

theorem spost_escChars {c : List UInt8} {d : Dec} {n : Nat} (hst : d.st = .escChars n)
    (h : SInv c d) (x : UInt8) : SPost (c ++ [x]) (d.pushByte x) := by
  rw [pushByte_escChars hst]
  simp only [SInv, hst, SI] at h
  obtain ⟨h1, h3, hf, hctr⟩ := h
  dsimp only
  split
  · next hx =>
    apply afterPush_cases (pushRep_ok _ n _)
    · intro d' hp
      apply afterPush_cases (pushData_ok _ x)
      · intro d'' hp'
        obtain ⟨p1, p2, _, p4⟩ := hp
        obtain ⟨q1, q2, _, q4⟩ := hp'
        have p4' : d'.ddS = d.ddS ++ List.replicate n 0x1b := p4
        obtain ⟨s1, s2⟩ := Spec.stuff_run_ne hx hctr h3
        show FR (c ++ [x]) d''.ddS d''.raw d''.crc [] [] ∧ ctr 0 d''.ddS = 0
        rw [q1, q2, q4, p1, p2, p4']
        exact ⟨FR.move (t2 := []) (c2 := []) s1 (by simpa using hf.snoc x), s2⟩
      · exact spost_oom _ _
    · exact spost_oom _ _
  · next hx =>
    have hx : x = 0x1b := by simpa using hx
    subst hx
    have hs := hf.snoc 0x1b
    rw [← List.replicate_succ'] at hs
    split
    · next h3' =>
      subst h3'
      have hs' : FR (c ++ [0x1b]) d.ddS (d.raw + 1) (crcByte d.crc 0x1b)
          (List.replicate 4 0x1b ++ Quad.zero.toList.take 0) (List.replicate 4 0x1b) := by
        simpa using hs
      exact ⟨by omega, hs', Or.inl hctr⟩
    · rw [if_neg (by omega)]
      exact ⟨by omega, by omega, hs, hctr⟩

/-! ### state `ParsingEscPayload` -/

theorem quad_set_take {step : Nat} (h : step ≤ 3) (q : Quad) (x : UInt8) :
    ∃ q', q.set step x = some q' ∧ q'.toList.take (step + 1) = q.toList.take step ++ [x] ∧
      (1 ≤ step → q'.a = q.a) := by
  have : step = 0 ∨ step = 1 ∨ step = 2 ∨ step = 3 := by omega
  rcases this with rfl | rfl | rfl | rfl <;> exact ⟨_, rfl, rfl, fun h => by first | rfl | omega⟩

theorem ugt3 (p : UInt8) (h : ¬ p > 3) : p.toNat ≤ 3 := by
  have : ¬ (3 : UInt8).toNat < p.toNat := fun h' => h (UInt8.lt_iff_toNat_lt.2 h')
  have e : (3 : UInt8).toNat = 3 := rfl
  omega

/-- the end sequence `1a pad crc crc` -/
theorem spost_pushEnd {c : List UInt8} {d : Dec} {q : Quad}
    (hf : FR c d.ddS d.raw d.crc (List.replicate 4 0x1b ++ q.toList) (List.replicate 4 0x1b))
    (ha : q.a = 0x1a) : SPost c (pushEnd d q) := by
  unfold pushEnd
  dsimp only
  split
  · exact sinv_reset _ _
  · next hc =>
    simp only [Bool.or_eq_true, not_or, decide_eq_true_eq, bne_iff_ne, ne_eq, Decidable.not_not,
      Nat.not_lt] at hc
    obtain ⟨⟨⟨⟨hcrc, hal⟩, hp3⟩, _⟩, hbp⟩ := hc
    have hp3 := ugt3 _ hp3
    rw [if_neg (by omega)]
    split
    · exact spost_oom _ _
    · next d3 hfl =>
      obtain ⟨f1, _, _, _, f5⟩ := flush_some hfl
      have f1 : d3.raw = d.raw := f1
      have f5 : d3.buf.data = d.buf.data ++ List.replicate (d.zc - q.b.toNat) 0 := f5
      obtain ⟨pre, c1, c2, c3⟩ := hf
      -- the payload and the padding
      have hdd : d.ddS = d3.buf.data ++ List.replicate q.b.toNat 0 := by
        rw [f5, List.append_assoc, List.replicate_append_replicate]
        have : d.zc - q.b.toNat + q.b.toNat = d.zc := by omega
        rw [this]; rfl
      have hs : stuff d.ddS = stuff d3.buf.data ++ List.replicate q.b.toNat 0 := by
        rw [hdd, Spec.stuff_zeros]
      have hlen : (stuff d.ddS).length = (stuff d3.buf.data).length + q.b.toNat := by
        rw [hs]; simp
      have hpad : padLen (Spec.START ++ stuff d3.buf.data).length = q.b.toNat := by
        simp only [List.length_append, Spec.length_START, Spec.padLen]
        simp only [List.length_append, List.length_replicate, Quad.toList, List.length_cons,
          List.length_nil] at c2
        omega
      have hq : q.toList = [0x1a, q.b, q.c, q.d] := by simp [Quad.toList, ha]
      -- the checksum
      have hcrc' : le16 (crc16 (framePrefix d3.buf.data)) = [q.c, q.d] := by
        rw [← le16_ofLe16 q.c q.d, hcrc, crc16, framePrefix_eq_parts, hpad, UInt8.ofNat_toNat,
          List.append_assoc, List.append_assoc, crcUpdate_crcInit_START_append, c3,
          ← crcUpdate_append, hs, ha]
        simp
      refine ⟨pre, ?_, ?_⟩
      · show c = pre ++ frame d3.buf.data
        rw [frame_eq_parts, hcrc', hpad, UInt8.ofNat_toNat, c1, hs, hq]
        simp
      · show d3.raw = (frame d3.buf.data).length
        rw [length_frame, hpad, f1, c2, hlen]
        simp [Quad.toList]
        omega

/-- the fourth payload byte of an escape sequence -/
theorem spost_escComplete {c : List UInt8} {d : Dec} {q : Quad}
    (hf : FR c d.ddS d.raw d.crc (List.replicate 4 0x1b ++ q.toList) (List.replicate 4 0x1b))
    (hctr : ctr 0 d.ddS = 0 ∨ q.a = 0x1a) : SPost c (pushEscComplete d q) := by
  unfold pushEscComplete
  dsimp only
  split
  · next hq =>
    -- literal escape
    subst hq
    have hctr : ctr 0 d.ddS = 0 := by
      rcases hctr with h | h
      · exact h
      · exact absurd h (by decide)
    apply afterPush_cases (pushList_ok _ _)
    · intro d' hp
      obtain ⟨p1, p2, _, p4⟩ := hp
      have p4' : d'.ddS = d.ddS ++ List.replicate 4 0x1b := p4
      obtain ⟨s1, s2⟩ := Spec.stuff_four hctr
      show FR c d'.ddS d'.raw d'.crc [] [] ∧ ctr 0 d'.ddS = 0
      rw [p1, p2, p4']
      refine ⟨FR.move (t2 := []) (c2 := []) s1 ?_, s2⟩
      have := hf.feed (List.replicate 4 0x1b)
      simpa [Quad.toList] using this
    · exact spost_oom _ _
  · split
    · next hq1 hq =>
      -- restart
      subst hq
      rw [if_neg (by
        obtain ⟨_, _, c2, _⟩ := hf
        simp at c2; omega)]
      obtain ⟨pre, c1, _, _⟩ := hf
      refine ⟨⟨pre ++ Spec.START ++ stuff d.ddS, ?_, ?_, ?_⟩, rfl⟩
      · rw [c1]; simp [Quad.toList, Spec.START, ddS, Buf.clear, Buf.data]
      · simp [ddS, Buf.clear, Buf.data]
      · simp [ddS, Buf.clear, Buf.data]
    · split
      · next ha => exact spost_pushEnd hf ha
      · next hq1 hq2 ha =>
        have hctr : ctr 0 d.ddS = 0 := by
          rcases hctr with h | h
          · exact h
          · exact absurd h ha
        split
        · next hk =>
          obtain ⟨hk0, hall, hget⟩ := hk
          have hk4 : (4 - d.raw % 4) % 4 < 4 := by omega
          revert hk0 hall hget hk4
          generalize (4 - d.raw % 4) % 4 = k
          intro hk0 hall hget hk4
          apply afterPush_cases (pushRep_ok _ k _)
          · intro d' hp
            obtain ⟨p1, p2, _, p4⟩ := hp
            have p4' : d'.ddS = d.ddS ++ List.replicate k 0x1b := p4
            have s1 := Spec.stuff_few hctr (show k ≤ 3 by omega)
            show 4 - k ≤ 3 ∧
              FR c d'.ddS d'.raw d'.crc
                (List.replicate 4 0x1b ++ (q.shift k).toList.take (4 - k)) (List.replicate 4 0x1b) ∧
              (ctr 0 d'.ddS = 0 ∨ ((q.shift k).a = 0x1a ∧ 1 ≤ 4 - k))
            rw [p1, p2, p4']
            have hf' := hf.feed (q.toList.take k)
            rcases q with ⟨qa, qb, qc, qd⟩
            have hk3 : k = 1 ∨ k = 2 ∨ k = 3 := by omega
            rcases hk3 with rfl | rfl | rfl
            · simp [Quad.toList, Quad.get] at hall hget
              obtain rfl := hall
              obtain rfl := hget
              refine ⟨by omega, FR.move s1 ?_, Or.inr ⟨rfl, by omega⟩⟩
              simpa [Quad.toList, Quad.shift] using hf'
            · simp [Quad.toList, Quad.get] at hall hget
              obtain ⟨rfl, rfl⟩ := hall
              obtain rfl := hget
              refine ⟨by omega, FR.move s1 ?_, Or.inr ⟨rfl, by omega⟩⟩
              simpa [Quad.toList, Quad.shift] using hf'
            · simp [Quad.toList, Quad.get] at hall hget
              obtain ⟨rfl, rfl, rfl⟩ := hall
              obtain rfl := hget
              refine ⟨by omega, FR.move s1 ?_, Or.inr ⟨rfl, by omega⟩⟩
              simpa [Quad.toList, Quad.shift] using hf'
          · exact spost_oom _ _
        · exact sinv_reset _ _

theorem spost_escPayload {c : List UInt8} {d : Dec} {step : Nat} {q : Quad}
    (hst : d.st = .escPayload step q) (h : SInv c d) (x : UInt8) :
    SPost (c ++ [x]) (d.pushByte x) := by
  rw [pushByte_escPayload hst]
  simp only [SInv, hst, SI] at h
  obtain ⟨h3, hf, hctr⟩ := h
  obtain ⟨q', hq', htake, hqa⟩ := quad_set_take h3 q x
  simp only [hq']
  have hs := hf.snoc' x
  rw [List.append_assoc, ← htake] at hs
  split
  · next hlt =>
    refine ⟨by omega, hs, ?_⟩
    rcases hctr with h | ⟨h, h1⟩
    · exact Or.inl h
    · exact Or.inr ⟨(hqa h1).trans h, by omega⟩
  · next hlt =>
    have h3' : step = 3 := by omega
    subst h3'
    have hfull : q'.toList.take (3 + 1) = q'.toList := by simp [Quad.toList]
    rw [hfull] at hs
    apply spost_escComplete hs
    rcases hctr with h | ⟨h, h1⟩
    · exact Or.inl h
    · exact Or.inr ((hqa h1).trans h)

/-- every `push_byte` keeps the invariant -/
theorem sinv_pushByte {c : List UInt8} {d : Dec} (h : SInv c d) (x : UInt8) :
    SInv (c ++ [x]) (d.pushByte x).1 := by
  cases hst : d.st with
  | look disc init => exact spost_look hst h x
  | normal => exact spost_normal hst h x
  | escChars n => exact spost_escChars hst h x
  | escPayload step q => exact spost_escPayload hst h x
  | done =>
    rw [pushByte_done hst]
    exact spost_look (reset_st d) (sinv_reset c d) x

/-! ### the caller's view: `Decoder::push_byte`, histories, streams -/

theorem push_fst (d : Dec) (x : UInt8) : (d.push x).1 = (d.pushByte x).1 := by
  unfold Dec.push
  rcases d.pushByte x with ⟨d', r⟩
  cases r <;> rfl

theorem sinv_push {c : List UInt8} {d : Dec} (h : SInv c d) (x : UInt8) :
    SInv (c ++ [x]) (d.push x).1 := by
  rw [push_fst]; exact sinv_pushByte h x

/-- a payload handed out by `borrow_buf` is the payload of a frame that ends here -/
theorem sinv_borrow {c : List UInt8} {d : Dec} (h : SInv c d) {m : List UInt8}
    (hm : d.borrowBuf = .msg m) : ∃ pre, c = pre ++ frame m ∧ d.raw = (frame m).length := by
  unfold borrowBuf at hm
  split at hm
  · next hd =>
    have hst : d.st = .done := by simpa [isDone] using hd
    cases hm
    simpa [SInv, hst, SI] using h
  · cases hm

/-- a reported payload is the payload of a frame that ends with the byte just pushed -/
theorem push_msg {c : List UInt8} {d : Dec} (h : SInv c d) {x : UInt8} {m : List UInt8}
    (hm : (d.push x).2 = .msg m) : ∃ pre, c ++ [x] = pre ++ frame m := by
  have hs := sinv_pushByte h x
  unfold Dec.push at hm
  revert hm hs
  rcases d.pushByte x with ⟨d', r⟩
  cases r with
  | ready =>
    intro hm hs
    obtain ⟨pre, e, _⟩ := sinv_borrow hs hm
    exact ⟨pre, e⟩
  | more => intro hm _; cases hm
  | err e => intro hm _; cases hm
  | panic s => intro hm _; cases hm

/-- effect of one operation on the bytes consumed since the last `reset` / `finalize` /
replacement of the decoder (`new`, `from_buf`): only `push_byte` extends them, every other
operation starts from nothing.  In particular the stale contents of a buffer handed to
`from_buf` are *not* part of the consumed bytes. -/
def consStep (acc : List UInt8) : Op → List UInt8
  | .push b => acc ++ [b]
  | _ => []

theorem sinv_step {c : List UInt8} {d : Dec} (h : SInv c d) (op : Op) :
    SInv (consStep c op) (d.step op).1 := by
  cases op with
  | push x => exact sinv_push h x
  | fin => exact sinv_reset [] d
  | reset => exact sinv_reset [] d
  | new => exact sinv_fresh d.buf.cap
  | fromBuf stale => exact sinv_fresh d.buf.cap

theorem sound_run (ops : List Op) : ∀ {c : List UInt8} {d : Dec} (i : Nat) {m : List UInt8},
    SInv c d → (d.run ops).2[i]? = some (OpOut.out (Out.msg m)) →
    ∃ pre, (ops.take (i + 1)).foldl consStep c = pre ++ frame m := by
  induction ops with
  | nil => intro c d i m _ h; simp [run] at h
  | cons op ops ih =>
    intro c d i m hs h
    have hrun : (d.run (op :: ops)).2 = (d.step op).2 :: ((d.step op).1.run ops).2 := rfl
    rw [hrun] at h
    cases i with
    | zero =>
      simp only [List.getElem?_cons_zero, Option.some.injEq] at h
      cases op with
      | push x =>
        have hm : (d.push x).2 = .msg m := by
          simpa [step] using h
        simpa [consStep] using push_msg hs hm
      | fin => simp [step] at h
      | reset => simp [step] at h
      | new => simp [step] at h
      | fromBuf stale => simp [step] at h
    | succ i =>
      simp only [List.getElem?_cons_succ] at h
      have := ih i (sinv_step hs op) h
      simpa using this

theorem sound_pushAll (s : List UInt8) : ∀ {c : List UInt8} {d : Dec} (i : Nat) {m : List UInt8},
    SInv c d → (d.pushAll s).2[i]? = some (Out.msg m) →
    ∃ pre, c ++ s.take (i + 1) = pre ++ frame m := by
  induction s with
  | nil => intro c d i m _ h; simp [pushAll] at h
  | cons x xs ih =>
    intro c d i m hs h
    have hrun : (d.pushAll (x :: xs)).2 = (d.push x).2 :: ((d.push x).1.pushAll xs).2 := rfl
    rw [hrun] at h
    cases i with
    | zero =>
      simp only [List.getElem?_cons_zero, Option.some.injEq] at h
      simpa using push_msg hs h
    | succ i =>
      simp only [List.getElem?_cons_succ] at h
      have := ih i (sinv_push hs x) h
      simpa using this

/-- `decode(bytes)` -/
theorem sound_decodeAll_go (s : List UInt8) : ∀ {c : List UInt8} {d : Dec} {m : List UInt8},
    SInv c d → Item.ok m ∈ decodeAll.go d s → ∃ pre post, c ++ s = pre ++ frame m ++ post := by
  induction s with
  | nil =>
    intro c d m _ h
    unfold decodeAll.go at h
    split at h <;> simp at h
  | cons x xs ih =>
    intro c d m hs h
    have hs' := sinv_push hs x
    have hmsg := fun m' => push_msg (m := m') hs (x := x)
    unfold decodeAll.go at h
    revert hs' hmsg h
    rcases d.push x with ⟨d', o⟩
    intro hs' hmsg h
    have tail : Item.ok m ∈ decodeAll.go d' xs → ∃ pre post, c ++ x :: xs = pre ++ frame m ++ post := by
      intro h'
      obtain ⟨pre, post, e⟩ := ih hs' h'
      exact ⟨pre, post, by simpa using e⟩
    cases o with
    | none => exact tail h
    | msg m' =>
      simp only [List.mem_cons, Item.ok.injEq] at h
      rcases h with rfl | h
      · obtain ⟨pre, e⟩ := hmsg m rfl
        refine ⟨pre, xs, ?_⟩
        rw [← e]; simp
      · exact tail h
    | err e =>
      simp only [List.mem_cons, reduceCtorEq, false_or] at h
      exact tail h
    | panic s => simp at h

end Dec

/-! ### `DecoderReader` over a byte source with faults -/

namespace Rdr

open Dec (SInv)

/-- the bytes an event list delivers (everything else is a fault that delivers nothing) -/
def evBytes : List Ev → List UInt8
  | [] => []
  | .byte b :: r => b :: evBytes r
  | .wouldBlock :: r => evBytes r
  | .interrupted :: r => evBytes r
  | .other :: r => evBytes r
  | .eof :: r => evBytes r

/-- outcome of one `read`: `c` = bytes consumed since the last decoder reset, `bs` = bytes still to
come; afterwards the same holds for some later split, and a returned payload is a frame at the end
of the consumed part -/
def ROk (c bs : List UInt8) (p : Rdr × RItem) : Prop :=
  ∃ pre' c', SInv c' p.1.dec ∧ c ++ bs = pre' ++ c' ++ evBytes p.1.evs ∧
    ∀ m, p.2 = .ok m → ∃ q, c' = q ++ frame m

theorem rok_onIoErr (kind : SrcKind) {c : List UInt8} {d : Dec} (h : SInv c d) (evs : List Ev)
    (k : IoKind) : ROk c (evBytes evs) (onIoErr kind d evs k) := by
  cases k with
  | wouldBlock => exact ⟨[], c, h, by simp [onIoErr], by intro m hm; cases hm⟩
  | eof => exact ⟨c, [], Dec.sinv_reset [] d, by simp [onIoErr], by intro m hm; cases hm⟩
  | other => exact ⟨c, [], Dec.sinv_reset [] d, by simp [onIoErr], by intro m hm; cases hm⟩

theorem rok_readLoop (kind : SrcKind) (evs : List Ev) : ∀ {c : List UInt8} {d : Dec},
    SInv c d → ROk c (evBytes evs) (readLoop kind d evs) := by
  induction evs with
  | nil =>
    intro c d h
    unfold readLoop
    cases kind <;> exact rok_onIoErr _ h [] _
  | cons e evs ih =>
    intro c d h
    cases e with
    | byte b =>
      have hs := Dec.sinv_pushByte h b
      unfold readLoop
      revert hs
      rcases d.pushByte b with ⟨d', r⟩
      intro hs
      have hsplit : c ++ evBytes (Ev.byte b :: evs) = (c ++ [b]) ++ evBytes evs := by
        simp [evBytes]
      cases r with
      | more =>
        obtain ⟨pre', c', h1, h2, h3⟩ := ih hs
        exact ⟨pre', c', h1, by rw [hsplit]; exact h2, h3⟩
      | ready =>
        refine ⟨[], c ++ [b], hs, by rw [hsplit]; simp, ?_⟩
        intro m hm
        cases hbb : d'.borrowBuf with
        | msg m' =>
          simp only [hbb, RItem.ok.injEq] at hm
          subst hm
          obtain ⟨q, e, _⟩ := Dec.sinv_borrow hs hbb
          exact ⟨q, e⟩
        | none => simp [hbb] at hm
        | err e => simp [hbb] at hm
        | panic s => simp [hbb] at hm
      | err e => exact ⟨[], c ++ [b], hs, by rw [hsplit]; simp, by intro m hm; cases hm⟩
      | panic s => exact ⟨[], c ++ [b], hs, by rw [hsplit]; simp, by intro m hm; cases hm⟩
    | wouldBlock =>
      unfold readLoop
      exact rok_onIoErr kind h evs _
    | interrupted =>
      unfold readLoop
      cases kind with
      | io => exact ih h
      | mem => exact rok_onIoErr _ h evs _
      | eh => exact rok_onIoErr _ h evs _
    | other =>
      unfold readLoop
      exact rok_onIoErr kind h evs _
    | eof =>
      -- a mid-stream end of input resets the decoder like any other error (`.eh`: kind `Other`)
      cases kind <;> exact rok_onIoErr _ h evs _

/-- `next` / `read_nb` / `next_nb` only re-label errors of `read` -/
theorem call_eq_read (r : Rdr) (cl : Call) :
    (r.call cl).1 = r.read.1 ∧ ∀ m, (r.call cl).2 = .ok m → r.read.2 = .ok m := by
  have hnext : ∀ p : Rdr × RItem,
      (match p with | (r', .ioErr .eof 0) => (r', RItem.none) | x => x).1 = p.1 ∧
      ∀ m, (match p with | (r', .ioErr .eof 0) => (r', RItem.none) | x => x).2 = .ok m →
        p.2 = .ok m := by
    intro p
    split
    · exact ⟨rfl, by intro m hm; cases hm⟩
    · exact ⟨rfl, fun _ hm => hm⟩
  have hnb : ∀ p : Rdr × RItem,
      (match p with | (r', .ioErr .wouldBlock _) => (r', RItem.nbWouldBlock) | x => x).1 = p.1 ∧
      ∀ m, (match p with | (r', .ioErr .wouldBlock _) => (r', RItem.nbWouldBlock) | x => x).2
        = .ok m → p.2 = .ok m := by
    intro p
    split
    · exact ⟨rfl, by intro m hm; cases hm⟩
    · exact ⟨rfl, fun _ hm => hm⟩
  cases cl with
  | read => exact ⟨rfl, fun _ hm => hm⟩
  | next => exact hnext r.read
  | readNb => exact hnb r.read
  | nextNb =>
    obtain ⟨a1, a2⟩ := hnext r.readNb
    obtain ⟨b1, b2⟩ := hnb r.read
    exact ⟨a1.trans b1, fun m hm => b2 m (a2 m hm)⟩

/-- the reader invariant: the bytes of the whole event list split into a part before the last
decoder reset, the bytes consumed since, and the bytes still to come -/
def RInv (total : List UInt8) (r : Rdr) : Prop :=
  ∃ pre c, SInv c r.dec ∧ total = pre ++ c ++ evBytes r.evs

theorem rinv_new (kind : SrcKind) (cap : Option Nat) (evs : List Ev) :
    RInv (evBytes evs) (Rdr.new kind cap evs) :=
  ⟨[], [], Dec.sinv_fresh cap, by simp [Rdr.new]⟩

theorem rinv_call {total : List UInt8} {r : Rdr} (h : RInv total r) (cl : Call) :
    RInv total (r.call cl).1 ∧
      ∀ m, (r.call cl).2 = .ok m → ∃ pre post, total = pre ++ frame m ++ post := by
  obtain ⟨pre, c, hs, ht⟩ := h
  obtain ⟨e1, e2⟩ := call_eq_read r cl
  obtain ⟨pre', c', h1, h2, h3⟩ := rok_readLoop r.kind r.evs hs
  have ht' : total = (pre ++ pre') ++ c' ++ evBytes (r.read).1.evs := by
    rw [ht, List.append_assoc pre, show r.read = readLoop r.kind r.dec r.evs from rfl, h2]
    simp
  constructor
  · rw [e1]
    exact ⟨pre ++ pre', c', h1, ht'⟩
  · intro m hm
    obtain ⟨q, hq⟩ := h3 m (e2 m hm)
    refine ⟨pre ++ pre' ++ q, evBytes (r.read).1.evs, ?_⟩
    rw [ht', hq]
    simp

theorem sound_calls (total : List UInt8) (cs : List Call) : ∀ {r : Rdr} (i : Nat) {m : List UInt8},
    RInv total r → (r.calls cs).2[i]? = some (RItem.ok m) →
    ∃ pre post, total = pre ++ frame m ++ post := by
  induction cs with
  | nil => intro r i m _ h; simp [calls] at h
  | cons cl cs ih =>
    intro r i m hr h
    have hrun : (r.calls (cl :: cs)).2 = (r.call cl).2 :: ((r.call cl).1.calls cs).2 := rfl
    rw [hrun] at h
    obtain ⟨h1, h2⟩ := rinv_call hr cl
    cases i with
    | zero =>
      simp only [List.getElem?_cons_zero, Option.some.injEq] at h
      exact h2 m h
    | succ i =>
      simp only [List.getElem?_cons_succ] at h
      exact ih i h1 h

end Rdr

/-! ### `DecodeIterator` -/

namespace DecIter

open Dec (SInv)

/-- the input splits into a part before, the bytes consumed since the last decoder reset, and the
bytes still to come (nothing is claimed once the iterator is exhausted: it returns `None`) -/
def IInv (s : List UInt8) (it : DecIter) : Prop :=
  ∃ pre c, SInv c it.dec ∧ s = pre ++ c ++ it.bytes

theorem iinv_new (cap : Option Nat) (s : List UInt8) : IInv s (DecIter.new cap s) :=
  ⟨[], [], Dec.sinv_fresh cap, by simp [DecIter.new]⟩

theorem iinv_pull (s : List UInt8) (bs : List UInt8) : ∀ {pre c : List UInt8} {d : Dec},
    SInv c d → s = pre ++ c ++ bs →
    IInv s (pull d bs).1 ∧
      ∀ m, (pull d bs).2 = some (Item.ok m) → ∃ p post, s = p ++ frame m ++ post := by
  induction bs with
  | nil =>
    intro pre c d h hs
    unfold pull
    refine ⟨⟨pre ++ c, [], Dec.sinv_reset [] d, by simpa using hs⟩, ?_⟩
    intro m hm
    simp only [Option.map_eq_some_iff] at hm
    obtain ⟨e, _, he⟩ := hm
    cases he
  | cons b bs ih =>
    intro pre c d h hs
    have hs' : s = pre ++ (c ++ [b]) ++ bs := by rw [hs]; simp
    have hp := Dec.sinv_pushByte h b
    unfold pull
    revert hp
    rcases d.pushByte b with ⟨d', r⟩
    intro hp
    cases r with
    | more => exact ih hp hs'
    | ready =>
      refine ⟨⟨pre, c ++ [b], hp, hs'⟩, ?_⟩
      intro m hm
      cases hbb : d'.borrowBuf with
      | msg m' =>
        simp only [hbb, Option.some.injEq, Item.ok.injEq] at hm
        subst hm
        obtain ⟨q, e, _⟩ := Dec.sinv_borrow hp hbb
        exact ⟨pre ++ q, bs, by rw [hs', e]; simp⟩
      | none => simp [hbb] at hm
      | err e => simp [hbb] at hm
      | panic s => simp [hbb] at hm
    | err e => exact ⟨⟨pre, c ++ [b], hp, hs'⟩, by intro m hm; simp at hm⟩
    | panic s => exact ⟨⟨pre, c ++ [b], hp, hs'⟩, by intro m hm; simp at hm⟩

theorem iinv_next {s : List UInt8} {it : DecIter} (h : IInv s it) :
    IInv s it.next.1 ∧ ∀ m, it.next.2 = some (Item.ok m) → ∃ p post, s = p ++ frame m ++ post := by
  unfold next
  split
  · exact ⟨h, by intro m hm; cases hm⟩
  · obtain ⟨pre, c, h1, h2⟩ := h
    exact iinv_pull s it.bytes h1 h2

theorem sound_take (s : List UInt8) (n : Nat) : ∀ {it : DecIter} (i : Nat) {m : List UInt8},
    IInv s it → (it.take n)[i]? = some (some (Item.ok m)) →
    ∃ p post, s = p ++ frame m ++ post := by
  induction n with
  | zero => intro it i m _ h; simp [take] at h
  | succ n ih =>
    intro it i m hi h
    have hrun : it.take (n + 1) = it.next.2 :: it.next.1.take n := rfl
    rw [hrun] at h
    obtain ⟨h1, h2⟩ := iinv_next hi
    cases i with
    | zero =>
      simp only [List.getElem?_cons_zero, Option.some.injEq] at h
      exact h2 m h
    | succ i =>
      simp only [List.getElem?_cons_succ] at h
      exact ih i h1 h

end DecIter

/-! ### soundness and tiling together: a delivered frame covers exactly its tile -/

namespace Dec

open Spec (tileFrom)

/-- the frame of a delivered payload starts exactly at the previous boundary -/
theorem push_msg_tile {b i : Nat} {c : List UInt8} {d : Dec} (ht : TInv b i d) (hs : SInv c d)
    {x : UInt8} {m : List UInt8} (hm : (d.push x).2 = .msg m) :
    b + (frame m).length = i + 1 := by
  have hp := tpost_pushByte ht x
  have hs' := sinv_pushByte hs x
  unfold Dec.push at hm
  revert hs' hp hm
  rcases d.pushByte x with ⟨d', r⟩
  cases r with
  | ready =>
    intro hm hp hs'
    obtain ⟨_, e⟩ := hp
    obtain ⟨_, _, e2⟩ := sinv_borrow hs' hm
    have e : b + d'.raw = i + 1 := e
    omega
  | more => intro hm _ _; cases hm
  | err e => intro hm _ _; cases hm
  | panic s => intro hm _ _; cases hm

theorem length_pushAll (s : List UInt8) : ∀ (d : Dec), (d.pushAll s).2.length = s.length := by
  induction s with
  | nil => intro d; rfl
  | cons x xs ih =>
    intro d
    have hrun : (d.pushAll (x :: xs)).2 = (d.push x).2 :: ((d.push x).1.pushAll xs).2 := rfl
    rw [hrun, List.length_cons, ih, List.length_cons]

theorem frame_tile_aux (s : List UInt8) : ∀ {b0 i0 : Nat} {c : List UInt8} {d : Dec} (i : Nat)
    {m : List UInt8}, TInv b0 i0 d → SInv c d → (d.pushAll s).2[i]? = some (Out.msg m) →
    ∃ b, tileFrom b0 i0 ((d.pushAll s).2.take i) = some b ∧ b + (frame m).length = i0 + i + 1 := by
  induction s with
  | nil => intro b0 i0 c d i m _ _ h; simp [pushAll] at h
  | cons x xs ih =>
    intro b0 i0 c d i m ht hs h
    have hrun : (d.pushAll (x :: xs)).2 = (d.push x).2 :: ((d.push x).1.pushAll xs).2 := rfl
    rw [hrun] at h ⊢
    cases i with
    | zero =>
      simp only [List.getElem?_cons_zero, Option.some.injEq] at h
      exact ⟨b0, rfl, push_msg_tile ht hs h⟩
    | succ i =>
      simp only [List.getElem?_cons_succ] at h
      obtain ⟨b1, e1, ht1⟩ := tinv_push ht x
      obtain ⟨b, e, hl⟩ := ih i ht1 (sinv_push hs x) h
      refine ⟨b, ?_, by omega⟩
      simp only [List.take_succ_cons, tileFrom, e1, e]

end Dec

end Sml

import Sml.Lemmas.C13
import Sml.Spec.Events
/-
  Lemmas for property C09: the allocating parser and the streaming parser perform the same field
  parser calls in the same order.

  A. `parseMessage` factors through `parseMessageStart` (the streaming message start), then
     `parseEntries numVals`, `parseGlrEnd`, `parseMsgTrailer` on the same remaining input.
  B. the streaming state machine, run from a message start, performs exactly these calls.
  C. both together, by induction on the message loop.
-/
namespace Sml
open SParser Spec

/-! ### A. factoring the allocating parser -/

/-- sequencing of a parser result with a continuation on the remaining input -/
def andThen {α β : Type} (x : PRes α) (k : α → Bytes → PRes β) : PRes β :=
  match x with
  | .error e => .error e
  | .ok (a, r) => k a r

@[simp] theorem andThen_error {α β : Type} (e : PErr) (k : α → Bytes → PRes β) :
    andThen (.error e) k = .error e := rfl
@[simp] theorem andThen_ok {α β : Type} (a : α) (r : Bytes) (k : α → Bytes → PRes β) :
    andThen (.ok (a, r)) k = k a r := rfl

/-- the rest of a list response after its start: values, then signature and gateway time -/
def glrTail (g : GetListResponseStart) (r : Bytes) : PRes GetListResponse :=
  match parseEntries g.numVals r with
  | .error e => .error e
  | .ok (es, r) =>
    match parseGlrEnd r with
    | .error e => .error e
    | .ok (ge, r) => .ok (mkGlr g es ge, r)

theorem parseGetListResponseWith_factor (i : Bytes) (tlf : Tlf) :
    parseGetListResponseWith i tlf =
      andThen (parseGlrStartWith i tlf) glrTail := by
  unfold parseGetListResponseWith parseGlrStartWith
  cases parseOpt parseOctet i with
  | error e => rfl
  | ok v =>
  obtain ⟨a1, i1⟩ := v
  simp only
  cases parseOctet i1 with
  | error e => rfl
  | ok v =>
  obtain ⟨a2, i2⟩ := v
  simp only
  cases parseOpt parseOctet i2 with
  | error e => rfl
  | ok v =>
  obtain ⟨a3, i3⟩ := v
  simp only
  cases parseOpt parseTime i3 with
  | error e => rfl
  | ok v =>
  obtain ⟨a4, i4⟩ := v
  simp only [parseList, parseViaTlf]
  cases parseTlf i4 with
  | error e => rfl
  | ok v =>
  obtain ⟨t, i5⟩ := v
  simp only
  by_cases ht : t.ty = .listOf
  · simp only [ht, decide_true, Bool.not_true, Bool.false_eq_true, if_false, ne_eq,
      not_true_eq_false, andThen_ok, glrTail]
    cases parseEntries t.len i5 with
    | error e => rfl
    | ok v =>
    obtain ⟨es, i6⟩ := v
    simp only [parseGlrEnd]
    cases parseOpt parseOctet i6 with
    | error e => rfl
    | ok v =>
    obtain ⟨a6, i7⟩ := v
    simp only
    cases parseOpt parseTime i7 with
    | error e => rfl
    | ok v =>
    obtain ⟨a7, i8⟩ := v
    rfl
  · simp [ht]

/-- sequencing through `parseViaTlf` -/
theorem parseViaTlf_factor {α β : Type} (check : Tlf → Bool) (w : Bytes → Tlf → PRes β)
    (w' : Bytes → Tlf → PRes α) (k : α → Bytes → PRes β)
    (h : ∀ i tlf, w i tlf = andThen (w' i tlf) k) (i : Bytes) :
    parseViaTlf check w i = andThen (parseViaTlf check w' i) k := by
  unfold parseViaTlf
  cases parseTlf i with
  | error e => rfl
  | ok v =>
    obtain ⟨tlf, rest⟩ := v
    simp only
    split
    · rfl
    · exact h _ _

theorem parseGetListResponse_factor (i : Bytes) :
    parseGetListResponse i = andThen (parseGlrStart i) glrTail :=
  parseViaTlf_factor _ _ _ _ parseGetListResponseWith_factor i

/-- the rest of a message body after the streaming body start -/
def bodyTail : SBody → Bytes → PRes MessageBody
  | .openResponse o, r => .ok (.openResponse o, r)
  | .closeResponse c, r => .ok (.closeResponse c, r)
  | .getListResponse g, r => mapRes .getListResponse (glrTail g r)

theorem parseMessageBodyWith_factor (i : Bytes) (tlf : Tlf) :
    parseMessageBodyWith i tlf = andThen (parseSBodyWith i tlf) bodyTail := by
  unfold parseMessageBodyWith parseSBodyWith
  cases parseInt false 4 i with
  | error e => rfl
  | ok v =>
  obtain ⟨tag, i1⟩ := v
  simp only
  split
  · cases parseOpenResponse i1 with
    | error e => rfl
    | ok v => obtain ⟨a, r⟩ := v; rfl
  split
  · cases parseCloseResponse i1 with
    | error e => rfl
    | ok v => obtain ⟨a, r⟩ := v; rfl
  split
  · rw [parseGetListResponse_factor]
    cases parseGlrStart i1 with
    | error e => rfl
    | ok v => obtain ⟨a, r⟩ := v; rfl
  · rfl

theorem parseMessageBody_factor (i : Bytes) :
    parseMessageBody i = andThen (parseSBody i) bodyTail :=
  parseViaTlf_factor _ _ _ _ parseMessageBodyWith_factor i

/-- the rest of a message after its streaming start: rest of the body, then the trailer -/
def msgTail (orig : Bytes) (ms : MessageStart) (r : Bytes) : PRes Message :=
  match bodyTail ms.messageBody r with
  | .error e => .error e
  | .ok (b, r) =>
    match parseMsgTrailer orig r with
    | .error e => .error e
    | .ok (_, r) => .ok (mkMessage ms b, r)

theorem parseMessage_factor (i : Bytes) :
    parseMessage i = andThen (parseMessageStart i) (msgTail i) := by
  unfold parseMessage parseMessageStart
  simp only
  cases parseMsgHeader i with
  | error e => rfl
  | ok v =>
  obtain ⟨⟨tid, g, a⟩, i1⟩ := v
  simp only
  rw [parseMessageBody_factor]
  cases parseSBody i1 with
  | error e => rfl
  | ok v =>
  obtain ⟨b, i2⟩ := v
  simp only [andThen_ok, msgTail]
  cases bodyTail b i2 with
  | error e => rfl
  | ok v =>
  obtain ⟨mb, i3⟩ := v
  simp only
  cases parseMsgTrailer i i3 with
  | error e => rfl
  | ok v => obtain ⟨u, i4⟩ := v; rfl

/-! ### B. the streaming state machine performs the same calls -/

/-- items of a run after a parser call: the error, or the continuation -/
def runThen {α : Type} (x : PRes α) (k : α → Bytes → List SItem) : List SItem :=
  match x with
  | .error e => [.err e]
  | .ok (a, r) => k a r

@[simp] theorem runThen_error {α : Type} (e : PErr) (k : α → Bytes → List SItem) :
    runThen (.error e) k = [.err e] := rfl
@[simp] theorem runThen_ok {α : Type} (a : α) (r : Bytes) (k : α → Bytes → List SItem) :
    runThen (.ok (a, r)) k = k a r := rfl

theorem run_nil (mi : Bytes) : run ⟨[], mi, 0⟩ = [] := by
  rw [run_unfold]
  simp [next, parseNext, parseNextStart_eq]

theorem run_start (i mi : Bytes) (h : i ≠ []) :
    run ⟨i, mi, 0⟩ = runThen (parseMessageStart i) fun ms r =>
      .ev (.messageStart ms) :: run ⟨r, i, pendingOf ms.messageBody⟩ := by
  rw [run_unfold]
  simp only [next, parseNext, parseNextStart_eq, if_true, h, if_false]
  cases parseMessageStart i with
  | error e => rfl
  | ok v => obtain ⟨ms, r⟩ := v; rfl

theorem run_trailer (r mi : Bytes) :
    run ⟨r, mi, 1⟩ = runThen (parseMsgTrailer mi r) fun _ r' => run ⟨r', mi, 0⟩ := by
  cases h : parseMsgTrailer mi r with
  | error e =>
    rw [run_unfold]
    simp [next, parseNext, h]
  | ok v =>
    obtain ⟨u, r'⟩ := v
    simp only [runThen_ok]
    apply run_congr
    simp [next, parseNext, h]

theorem run_end (r mi : Bytes) :
    run ⟨r, mi, 2⟩ = runThen (parseGlrEnd r) fun ge r' =>
      .ev (.getListResponseEnd ge) :: run ⟨r', mi, 1⟩ := by
  rw [run_unfold]
  simp only [next, parseNext]
  cases parseGlrEnd r with
  | error e => simp
  | ok v => obtain ⟨ge, r'⟩ := v; simp

theorem run_entry (r mi : Bytes) (n : Nat) :
    run ⟨r, mi, n + 3⟩ = runThen (parseListEntry r) fun le r' =>
      .ev (.listEntry le) :: run ⟨r', mi, n + 2⟩ := by
  rw [run_unfold]
  simp only [next, parseNext]
  have h0 : ¬ (n + 3 = 0) := by omega
  have h1 : ¬ (n + 3 = 1) := by omega
  have h2 : ¬ (n + 3 = 2) := by omega
  simp only [h0, h1, h2, if_false]
  cases parseListEntry r with
  | error e => simp
  | ok v => obtain ⟨le, r'⟩ := v; simp

/-- the list loop with its partial result: the entries parsed before the first failure, and the
    error or the remaining input -/
def entriesRun : Nat → Bytes → List ListEntry × Except PErr Bytes
  | 0, i => ([], .ok i)
  | n + 1, i =>
    match parseListEntry i with
    | .error e => ([], .error e)
    | .ok (x, r) => (x :: (entriesRun n r).1, (entriesRun n r).2)

def outRes {α : Type} (a : α) : Except PErr Bytes → PRes α
  | .error e => .error e
  | .ok r => .ok (a, r)

def outRun : Except PErr Bytes → (Bytes → List SItem) → List SItem
  | .error e, _ => [.err e]
  | .ok r, k => k r

@[simp] theorem outRun_error (e : PErr) (k : Bytes → List SItem) :
    outRun (.error e) k = [.err e] := rfl
@[simp] theorem outRun_ok (r : Bytes) (k : Bytes → List SItem) : outRun (.ok r) k = k r := rfl
@[simp] theorem outRes_error {α : Type} (a : α) (e : PErr) :
    outRes a (.error e) = .error e := rfl
@[simp] theorem outRes_ok {α : Type} (a : α) (r : Bytes) : outRes a (.ok r) = .ok (a, r) := rfl

theorem parseEntries_eq_run (n : Nat) : ∀ i,
    parseEntries n i = outRes (entriesRun n i).1 (entriesRun n i).2 := by
  induction n with
  | zero => intro i; rfl
  | succ n ih =>
    intro i
    simp only [parseEntries, entriesRun]
    cases parseListEntry i with
    | error e => rfl
    | ok v =>
      obtain ⟨x, r⟩ := v
      simp only [ih r]
      cases (entriesRun n r).2 <;> rfl

theorem entriesRun_length_le (n : Nat) : ∀ i, (entriesRun n i).1.length ≤ n := by
  induction n with
  | zero => intro i; simp [entriesRun]
  | succ n ih =>
    intro i
    simp only [entriesRun]
    cases parseListEntry i with
    | error e => simp
    | ok v => obtain ⟨x, r⟩ := v; simpa using ih r

theorem entriesRun_length_ok (n : Nat) : ∀ i r, (entriesRun n i).2 = .ok r →
    (entriesRun n i).1.length = n := by
  induction n with
  | zero => intro i r _; simp [entriesRun]
  | succ n ih =>
    intro i r h
    simp only [entriesRun] at h ⊢
    cases hp : parseListEntry i with
    | error e => simp [hp] at h
    | ok v =>
      obtain ⟨x, r'⟩ := v
      simp only [hp] at h ⊢
      simpa using ih r' r h

theorem run_entries (mi : Bytes) (n : Nat) : ∀ i,
    run ⟨i, mi, n + 2⟩ = (entriesRun n i).1.map (fun e => SItem.ev (.listEntry e)) ++
      outRun (entriesRun n i).2 (fun r => run ⟨r, mi, 2⟩) := by
  induction n with
  | zero => intro i; simp [entriesRun, outRun]
  | succ n ih =>
    intro i
    rw [show n + 1 + 2 = n + 3 by omega, run_entry]
    simp only [entriesRun]
    cases parseListEntry i with
    | error e => simp [outRun]
    | ok v =>
      obtain ⟨x, r⟩ := v
      simp [ih r]

def trailerOut (orig r : Bytes) : Except PErr Bytes :=
  match parseMsgTrailer orig r with
  | .error e => .error e
  | .ok (_, r') => .ok r'

/-- the events after a message start, and the outcome (error, or input after the trailer) -/
def tailEvents (orig : Bytes) (b : SBody) (r : Bytes) : List ParseEvent × Except PErr Bytes :=
  match b with
  | .getListResponse g =>
    match (entriesRun g.numVals r).2 with
    | .error e => ((entriesRun g.numVals r).1.map .listEntry, .error e)
    | .ok r1 =>
      match parseGlrEnd r1 with
      | .error e => ((entriesRun g.numVals r).1.map .listEntry, .error e)
      | .ok (ge, r2) =>
        ((entriesRun g.numVals r).1.map .listEntry ++ [.getListResponseEnd ge], trailerOut orig r2)
  | _ => ([], trailerOut orig r)

theorem run_trailerOut (orig r : Bytes) :
    run ⟨r, orig, 1⟩ = outRun (trailerOut orig r) (fun r' => run ⟨r', orig, 0⟩) := by
  rw [run_trailer, trailerOut]
  cases parseMsgTrailer orig r with
  | error e => rfl
  | ok v => obtain ⟨u, r'⟩ := v; rfl

theorem run_tail (orig : Bytes) (b : SBody) (r : Bytes) :
    run ⟨r, orig, pendingOf b⟩ = (tailEvents orig b r).1.map .ev ++
      outRun (tailEvents orig b r).2 (fun r' => run ⟨r', orig, 0⟩) := by
  cases b with
  | openResponse o => simp [pendingOf, tailEvents, run_trailerOut]
  | closeResponse c => simp [pendingOf, tailEvents, run_trailerOut]
  | getListResponse g =>
    simp only [pendingOf, tailEvents]
    rw [run_entries]
    cases h : (entriesRun g.numVals r).2 with
    | error e => simp [List.map_map, Function.comp_def]
    | ok r1 =>
      simp only [outRun_ok]
      rw [run_end]
      cases parseGlrEnd r1 with
      | error e => simp [Function.comp_def]
      | ok v =>
        obtain ⟨ge, r2⟩ := v
        simp [run_trailerOut, Function.comp_def]

/-! ### C. reassembling the events of one message -/

theorem reassemble_entries (c : Bool) (rest : List ParseEvent) (st : MessageStart)
    (g : GetListResponseStart) : ∀ (es : List ListEntry) (missing : Nat) (acc : List ListEntry),
    es.length ≤ missing →
    reassembleFrom c (some ⟨st, g, missing, acc⟩) (es.map .listEntry ++ rest) =
      reassembleFrom c (some ⟨st, g, missing - es.length, es.reverse ++ acc⟩) rest := by
  intro es
  induction es with
  | nil => intro missing acc _; simp
  | cons e es ih =>
    intro missing acc h
    cases missing with
    | zero => simp at h
    | succ k =>
      simp only [List.map_cons, List.cons_append, reassembleFrom]
      rw [ih k (e :: acc) (by simpa using h)]
      simp

theorem trailerOut_ok {orig r r' : Bytes} (h : trailerOut orig r = .ok r') :
    ∃ u, parseMsgTrailer orig r = .ok (u, r') := by
  unfold trailerOut at h
  cases hp : parseMsgTrailer orig r with
  | error e => simp [hp] at h
  | ok v =>
    obtain ⟨u, r2⟩ := v
    simp only [hp, Except.ok.injEq] at h
    exact ⟨u, by rw [h]⟩

theorem trailerOut_error {orig r : Bytes} {e : PErr} (h : trailerOut orig r = .error e) :
    parseMsgTrailer orig r = .error e := by
  unfold trailerOut at h
  cases hp : parseMsgTrailer orig r with
  | error e' => simpa [hp] using h
  | ok v => obtain ⟨u, r2⟩ := v; simp [hp] at h

/-- a message whose events are complete and whose trailer checks: the allocating parser returns
    the message that the events reassemble to, with the same remaining input -/
theorem tail_ok (orig : Bytes) (ms : MessageStart) (r r' : Bytes)
    (h : (tailEvents orig ms.messageBody r).2 = .ok r') :
    ∃ m, msgTail orig ms r = .ok (m, r') ∧ ∀ c rest,
      reassembleFrom c none (.messageStart ms :: ((tailEvents orig ms.messageBody r).1 ++ rest)) =
        (reassembleFrom c none rest).map (m :: ·) := by
  cases hb : ms.messageBody with
  | openResponse o =>
    rw [hb] at h
    simp only [tailEvents] at h
    obtain ⟨u, hu⟩ := trailerOut_ok h
    refine ⟨mkMessage ms (.openResponse o), by simp [msgTail, hb, bodyTail, hu], ?_⟩
    intro c rest
    simp [tailEvents, reassembleFrom, hb]
  | closeResponse o =>
    rw [hb] at h
    simp only [tailEvents] at h
    obtain ⟨u, hu⟩ := trailerOut_ok h
    refine ⟨mkMessage ms (.closeResponse o), by simp [msgTail, hb, bodyTail, hu], ?_⟩
    intro c rest
    simp [tailEvents, reassembleFrom, hb]
  | getListResponse g =>
    rw [hb] at h
    simp only [tailEvents] at h ⊢
    cases he : (entriesRun g.numVals r).2 with
    | error e => simp [he] at h
    | ok r1 =>
      simp only [he] at h ⊢
      cases hg : parseGlrEnd r1 with
      | error e => simp [hg] at h
      | ok v =>
        obtain ⟨ge, r2⟩ := v
        simp only [hg] at h ⊢
        obtain ⟨u, hu⟩ := trailerOut_ok h
        have hlen := entriesRun_length_ok _ _ _ he
        refine ⟨mkMessage ms (.getListResponse (mkGlr g (entriesRun g.numVals r).1 ge)), ?_, ?_⟩
        · simp [msgTail, hb, bodyTail, glrTail, parseEntries_eq_run, he, hg, mapRes, hu]
        · intro c rest
          simp only [reassembleFrom, hb, List.append_assoc]
          rw [reassemble_entries _ _ _ _ _ _ _ (by omega)]
          simp [reassembleFrom, hlen]

/-- a message that fails after its start: the allocating parser fails with the same error; the
    events emitted so far are a well-formed prefix containing at most the one message whose
    trailer failed -/
theorem tail_error (orig : Bytes) (ms : MessageStart) (r : Bytes) (e : PErr)
    (h : (tailEvents orig ms.messageBody r).2 = .error e) :
    msgTail orig ms r = .error e ∧ ∃ extra : List Message, extra.length ≤ 1 ∧
      reassembleFrom false none (.messageStart ms :: (tailEvents orig ms.messageBody r).1) =
        some extra := by
  cases hb : ms.messageBody with
  | openResponse o =>
    rw [hb] at h
    simp only [tailEvents] at h
    have hu := trailerOut_error h
    exact ⟨by simp [msgTail, hb, bodyTail, hu], [mkMessage ms (.openResponse o)], by simp,
      by simp [tailEvents, reassembleFrom, hb]⟩
  | closeResponse o =>
    rw [hb] at h
    simp only [tailEvents] at h
    have hu := trailerOut_error h
    exact ⟨by simp [msgTail, hb, bodyTail, hu], [mkMessage ms (.closeResponse o)], by simp,
      by simp [tailEvents, reassembleFrom, hb]⟩
  | getListResponse g =>
    rw [hb] at h
    simp only [tailEvents] at h ⊢
    have hle := entriesRun_length_le g.numVals r
    cases he : (entriesRun g.numVals r).2 with
    | error e' =>
      simp only [he, Except.error.injEq] at h ⊢
      subst h
      refine ⟨by simp [msgTail, hb, bodyTail, glrTail, parseEntries_eq_run, he, mapRes], [], by simp, ?_⟩
      have := reassemble_entries false [] ms g (entriesRun g.numVals r).1 g.numVals [] hle
      simp only [List.append_nil] at this
      simp only [reassembleFrom, hb, this]
      simp
    | ok r1 =>
      simp only [he] at h ⊢
      have hlen := entriesRun_length_ok _ _ _ he
      cases hg : parseGlrEnd r1 with
      | error e' =>
        simp only [hg, Except.error.injEq] at h ⊢
        subst h
        refine ⟨by simp [msgTail, hb, bodyTail, glrTail, parseEntries_eq_run, he, hg, mapRes],
          [], by simp, ?_⟩
        have := reassemble_entries false [] ms g (entriesRun g.numVals r).1 g.numVals [] hle
        simp only [List.append_nil] at this
        simp only [reassembleFrom, hb, this]
        simp
      | ok v =>
        obtain ⟨ge, r2⟩ := v
        simp only [hg] at h ⊢
        have hu := trailerOut_error h
        refine ⟨by simp [msgTail, hb, bodyTail, glrTail, parseEntries_eq_run, he, hg, mapRes, hu],
          [mkMessage ms (.getListResponse (mkGlr g (entriesRun g.numVals r).1 ge))], by simp, ?_⟩
        simp only [reassembleFrom, hb]
        rw [reassemble_entries _ _ _ _ _ _ _ (by omega)]
        simp [reassembleFrom, hlen]

/-! ### D. the message loop -/

/-- the messages the allocating parser has completed (parsed and checksum-verified) before it
    stops; for a successful parse these are all messages (`completedMessages_ok`) -/
def completedMessages : Nat → Bytes → List Message
  | _, [] => []
  | 0, _ :: _ => []
  | fuel + 1, i =>
    match parseMessage i with
    | .error _ => []
    | .ok (m, rest) => m :: completedMessages fuel rest

theorem completedMessages_ok (fuel : Nat) : ∀ (i : Bytes) (ms : List Message),
    parseMessages fuel i = .ok ms → completedMessages fuel i = ms := by
  induction fuel with
  | zero =>
    intro i ms h
    cases i with
    | nil => simp only [parseMessages, Except.ok.injEq] at h; simp [completedMessages, h]
    | cons b i => simp [parseMessages] at h
  | succ fuel ih =>
    intro i ms h
    cases i with
    | nil => simp only [parseMessages, Except.ok.injEq] at h; simp [completedMessages, h]
    | cons b i =>
      simp only [parseMessages, completedMessages] at h ⊢
      cases hp : parseMessage (b :: i) with
      | error e => simp [hp] at h
      | ok v =>
        obtain ⟨m, rest⟩ := v
        simp only [hp] at h ⊢
        cases hr : parseMessages fuel rest with
        | error e => simp [hr] at h
        | ok ms' =>
          simp only [hr, Except.ok.injEq] at h
          rw [← h, ih rest ms' hr]

def consRes (m : Message) : Except PErr (List Message) → Except PErr (List Message)
  | .error e => .error e
  | .ok ms => .ok (m :: ms)

def loopStep (fuel : Nat) : PRes Message → Except PErr (List Message)
  | .error e => .error e
  | .ok (m, rest) => consRes m (parseMessages fuel rest)

def completedStep (fuel : Nat) : PRes Message → List Message
  | .error _ => []
  | .ok (m, rest) => m :: completedMessages fuel rest

theorem parseMessages_succ (fuel : Nat) (b : UInt8) (i : Bytes) :
    parseMessages (fuel + 1) (b :: i) = loopStep fuel (parseMessage (b :: i)) := by
  simp only [parseMessages]
  cases parseMessage (b :: i) with
  | error e => rfl
  | ok v =>
    obtain ⟨m, rest⟩ := v
    simp only [loopStep]
    cases parseMessages fuel rest <;> rfl

theorem completedMessages_succ (fuel : Nat) (b : UInt8) (i : Bytes) :
    completedMessages (fuel + 1) (b :: i) = completedStep fuel (parseMessage (b :: i)) := by
  simp only [completedMessages]
  cases parseMessage (b :: i) with
  | error e => rfl
  | ok v => obtain ⟨m, rest⟩ := v; rfl

theorem loop_agree (fuel : Nat) : ∀ (i mi : Bytes), i.length ≤ fuel →
    (∀ ms, parseMessages fuel i = .ok ms → ∃ evs, run ⟨i, mi, 0⟩ = evs.map .ev ∧
      ∀ c, reassembleFrom c none evs = some ms) ∧
    (∀ e, parseMessages fuel i = .error e → ∃ evs extra, run ⟨i, mi, 0⟩ = evs.map .ev ++ [.err e] ∧
      extra.length ≤ 1 ∧
      reassembleFrom false none evs = some (completedMessages fuel i ++ extra)) := by
  have hnil : ∀ fuel mi,
      (∀ ms, parseMessages fuel [] = .ok ms → ∃ evs, run ⟨[], mi, 0⟩ = evs.map .ev ∧
        ∀ c, reassembleFrom c none evs = some ms) ∧
      (∀ e, parseMessages fuel [] = .error e → ∃ evs extra,
        run ⟨[], mi, 0⟩ = evs.map .ev ++ [.err e] ∧ extra.length ≤ 1 ∧
        reassembleFrom false none evs = some (completedMessages fuel [] ++ extra)) := by
    intro fuel mi
    have hp : parseMessages fuel [] = .ok [] := by cases fuel <;> rfl
    rw [hp]
    refine ⟨fun ms h => ⟨[], by simp [run_nil], fun c => ?_⟩, fun e h => by cases h⟩
    simp only [Except.ok.injEq] at h
    subst h
    cases c <;> rfl
  induction fuel with
  | zero =>
    intro i mi hi
    cases i with
    | nil => exact hnil 0 mi
    | cons b i => simp at hi
  | succ fuel ih =>
    intro i mi hi
    cases i with
    | nil => exact hnil _ mi
    | cons b i' =>
    generalize hI : b :: i' = I at hi ⊢
    have hne : I ≠ [] := by rw [← hI]; simp
    have hpm : parseMessages (fuel + 1) I = loopStep fuel (parseMessage I) := by
      rw [← hI]; exact parseMessages_succ _ _ _
    have hcm : completedMessages (fuel + 1) I = completedStep fuel (parseMessage I) := by
      rw [← hI]; exact completedMessages_succ _ _ _
    rw [hpm, hcm, run_start I mi hne]
    have hfac := parseMessage_factor I
    cases hs : parseMessageStart I with
    | error e =>
      rw [hs, andThen_error] at hfac
      simp only [hfac, runThen_error, loopStep, completedStep]
      refine ⟨fun ms h => (by cases h), fun e' h => ⟨[], [], ?_, by simp, by simp [reassembleFrom]⟩⟩
      simp only [Except.error.injEq] at h
      subst h
      rfl
    | ok v =>
      obtain ⟨ms, r⟩ := v
      rw [hs, andThen_ok] at hfac
      simp only [runThen_ok]
      rw [run_tail]
      cases hT : (tailEvents I ms.messageBody r).2 with
      | error e =>
        obtain ⟨hm, extra, hx, hre⟩ := tail_error I ms r e hT
        rw [hm] at hfac
        simp only [hfac, outRun_error, loopStep, completedStep]
        refine ⟨fun ms h => (by cases h), fun e' h => ?_⟩
        simp only [Except.error.injEq] at h
        subst h
        exact ⟨.messageStart ms :: (tailEvents I ms.messageBody r).1, extra, by simp, hx,
          by simpa using hre⟩
      | ok r' =>
        obtain ⟨m, hm, hre⟩ := tail_ok I ms r r' hT
        rw [hm] at hfac
        have hlen := (adv_parseMessage.ok hfac).length_le
        obtain ⟨ih1, ih2⟩ := ih r' I (by omega)
        simp only [hfac, outRun_ok, loopStep, completedStep]
        constructor
        · intro msl h
          cases hr : parseMessages fuel r' with
          | error e => simp [hr, consRes] at h
          | ok ms' =>
            simp only [hr, consRes, Except.ok.injEq] at h
            obtain ⟨evs', hrun, hrea⟩ := ih1 ms' hr
            refine ⟨.messageStart ms :: ((tailEvents I ms.messageBody r).1 ++ evs'), ?_, ?_⟩
            · simp [hrun]
            · intro c
              rw [hre c evs', hrea c, ← h]
              rfl
        · intro e h
          cases hr : parseMessages fuel r' with
          | ok ms' => simp [hr, consRes] at h
          | error e' =>
            simp only [hr, consRes, Except.error.injEq] at h
            subst h
            obtain ⟨evs', extra, hrun, hx, hrea⟩ := ih2 e' hr
            refine ⟨.messageStart ms :: ((tailEvents I ms.messageBody r).1 ++ evs'), extra,
              ?_, hx, ?_⟩
            · simp [hrun]
            · rw [hre false evs', hrea]
              rfl

/-! ### E. the grammar -/

/-- whatever reassembles is well formed -/
theorem wf_of_reassemble (c : Bool) : ∀ (evs : List ParseEvent) (s : Option OpenList)
    (ms : List Message), reassembleFrom c s evs = some ms →
    wfFrom c (s.map OpenList.missing) evs = true := by
  intro evs
  induction evs with
  | nil =>
    intro s ms h
    cases s with
    | none => rfl
    | some o =>
      cases c with
      | true => simp [reassembleFrom] at h
      | false => rfl
  | cons ev evs ih =>
    intro s ms h
    cases ev with
    | messageStart m =>
      cases s with
      | some o => simp [reassembleFrom] at h
      | none =>
        simp only [reassembleFrom] at h
        simp only [Option.map_none, wfFrom]
        cases hb : m.messageBody with
        | openResponse o =>
          simp only [hb, Option.map_eq_some_iff] at h ⊢
          obtain ⟨ms', h', _⟩ := h
          exact ih none ms' h'
        | closeResponse o =>
          simp only [hb, Option.map_eq_some_iff] at h ⊢
          obtain ⟨ms', h', _⟩ := h
          exact ih none ms' h'
        | getListResponse g =>
          simp only [hb] at h ⊢
          exact ih _ ms h
    | listEntry e =>
      cases s with
      | none => simp [reassembleFrom] at h
      | some o =>
        obtain ⟨st, g, missing, acc⟩ := o
        cases missing with
        | zero => simp [reassembleFrom] at h
        | succ k =>
          simp only [reassembleFrom] at h
          simp only [Option.map_some, wfFrom]
          exact ih _ ms h
    | getListResponseEnd e =>
      cases s with
      | none => simp [reassembleFrom] at h
      | some o =>
        obtain ⟨st, g, missing, acc⟩ := o
        cases missing with
        | succ k => simp [reassembleFrom] at h
        | zero =>
          simp only [reassembleFrom, if_true, Option.map_eq_some_iff] at h
          obtain ⟨ms', h', _⟩ := h
          simp only [Option.map_some, wfFrom]
          exact ih none ms' h'

theorem wf_entries (c : Bool) (rest : List ParseEvent) : ∀ (es : List ListEntry) (n : Nat),
    wfFrom c (some (es.length + n)) (es.map .listEntry ++ rest) = wfFrom c (some n) rest := by
  intro es
  induction es with
  | nil => intro n; simp
  | cons e es ih =>
    intro n
    rw [show (e :: es).length + n = (es.length + n) + 1 by simp only [List.length_cons]; omega]
    simp only [List.map_cons, List.cons_append, wfFrom]
    exact ih n

theorem wf_some_split : ∀ (n : Nat) (evs : List ParseEvent), wfFrom true (some n) evs = true →
    ∃ (es : List ListEntry) (e : GetListResponseEnd) (rest : List ParseEvent),
      evs = es.map .listEntry ++ .getListResponseEnd e :: rest ∧ es.length = n ∧
      wfFrom true none rest = true := by
  intro n
  induction n with
  | zero =>
    intro evs h
    cases evs with
    | nil => simp [wfFrom] at h
    | cons ev evs =>
      cases ev with
      | messageStart m => simp [wfFrom] at h
      | listEntry e => simp [wfFrom] at h
      | getListResponseEnd e => exact ⟨[], e, evs, rfl, rfl, by simpa [wfFrom] using h⟩
  | succ n ih =>
    intro evs h
    cases evs with
    | nil => simp [wfFrom] at h
    | cons ev evs =>
      cases ev with
      | messageStart m => simp [wfFrom] at h
      | getListResponseEnd e => simp [wfFrom] at h
      | listEntry e =>
        simp only [wfFrom] at h
        obtain ⟨es, ge, rest, h1, h2, h3⟩ := ih evs h
        exact ⟨e :: es, ge, rest, by simp [h1], by simp [h2], h3⟩

theorem grammar_of_wf (k : Nat) : ∀ (evs : List ParseEvent), evs.length ≤ k →
    wfFrom true none evs = true → Grammar evs := by
  induction k with
  | zero =>
    intro evs hl _
    cases evs with
    | nil => exact .nil
    | cons ev evs => simp at hl
  | succ k ih =>
    intro evs hl h
    cases evs with
    | nil => exact .nil
    | cons ev evs =>
      cases ev with
      | listEntry e => simp [wfFrom] at h
      | getListResponseEnd e => simp [wfFrom] at h
      | messageStart m =>
        simp only [wfFrom] at h
        simp only [List.length_cons] at hl
        cases hb : m.messageBody with
        | openResponse o =>
          simp only [hb] at h
          exact .nonlist m evs (by intro g; rw [hb]; simp) (ih evs (by omega) h)
        | closeResponse o =>
          simp only [hb] at h
          exact .nonlist m evs (by intro g; rw [hb]; simp) (ih evs (by omega) h)
        | getListResponse g =>
          simp only [hb] at h
          obtain ⟨es, ge, rest, h1, h2, h3⟩ := wf_some_split _ _ h
          subst h1
          refine .list m g es ge rest hb h2 (ih rest ?_ h3)
          simp only [List.length_append, List.length_map, List.length_cons] at hl
          omega

theorem wf_of_grammar {evs : List ParseEvent} (h : Grammar evs) : wfFrom true none evs = true := by
  induction h with
  | nil => rfl
  | nonlist m rest hm _ ih =>
    simp only [wfFrom]
    cases hb : m.messageBody with
    | openResponse o => simpa using ih
    | closeResponse o => simpa using ih
    | getListResponse g => exact absurd hb (hm g)
  | list m g es e rest hm hn _ ih =>
    simp only [wfFrom, hm]
    have := wf_entries true (.getListResponseEnd e :: rest) es 0
    simp only [Nat.add_zero, hn] at this
    rw [this]
    simpa [wfFrom] using ih

/-! ### F. whole files -/

theorem map_ev_inj : ∀ (a b : List ParseEvent), a.map SItem.ev = b.map SItem.ev → a = b := by
  intro a
  induction a with
  | nil => intro b h; cases b with
    | nil => rfl
    | cons y b => simp at h
  | cons x a ih =>
    intro b h
    cases b with
    | nil => simp at h
    | cons y b =>
      simp only [List.map_cons, List.cons.injEq, SItem.ev.injEq] at h
      rw [h.1, ih b h.2]

theorem map_ev_ne_err (a b : List ParseEvent) (e : PErr) :
    a.map SItem.ev ≠ b.map SItem.ev ++ [.err e] := by
  intro h
  have : SItem.err e ∈ a.map SItem.ev := by rw [h]; simp
  obtain ⟨x, _, hx⟩ := List.mem_map.1 this
  cases hx

theorem map_ev_err_inj (a b : List ParseEvent) (e e' : PErr)
    (h : a.map SItem.ev ++ [.err e] = b.map SItem.ev ++ [.err e']) : a = b ∧ e = e' := by
  obtain ⟨h1, h2⟩ := List.append_inj' h rfl
  simp only [List.cons.injEq, SItem.err.injEq, and_true] at h2
  exact ⟨map_ev_inj a b h1, h2⟩

/-- the two parsers on a whole file: either both succeed and the events reassemble to the file,
    or both fail with the same error and the events before the error are a well-formed prefix
    holding the completed messages (plus possibly the one message whose trailer failed) -/
theorem file_cases (x : Bytes) :
    (∃ F evs, parseFile x = .ok F ∧ run (new x) = evs.map .ev ∧
      ∀ c, reassembleFrom c none evs = some F.messages) ∨
    (∃ e evs extra, parseFile x = .error e ∧ run (new x) = evs.map .ev ++ [.err e] ∧
      extra.length ≤ 1 ∧
      reassembleFrom false none evs = some (completedMessages x.length x ++ extra)) := by
  obtain ⟨h1, h2⟩ := loop_agree x.length x [] (Nat.le_refl _)
  unfold parseFile
  cases hp : parseMessages x.length x with
  | ok ms =>
    obtain ⟨evs, hr, hre⟩ := h1 ms hp
    exact Or.inl ⟨⟨ms⟩, evs, rfl, hr, hre⟩
  | error e =>
    obtain ⟨evs, extra, hr, hx, hre⟩ := h2 e hp
    exact Or.inr ⟨e, evs, extra, rfl, hr, hx, hre⟩

end Sml

import Sml.Lemmas.DecRound
/-
  Helper lemmas for C01, part 2: what the decoder front-ends (`decode`, `DecodeIterator`,
  `DecoderReader`) report for a byte sequence that the push decoder consumes silently up to its last
  byte, which completes a message (`Dec.Delivers`).
-/
namespace Sml
open C07

/-! ### `decode` -/

theorem decodeAll_go_quiet {xs : List UInt8} : ∀ {d d1 : Dec}, d.quiet xs = some d1 →
    ∀ ys, decodeAll.go d (xs ++ ys) = decodeAll.go d1 ys := by
  induction xs with
  | nil => intro d d1 h ys; cases h; rfl
  | cons x xs ih =>
    intro d d1 h ys
    simp only [Dec.quiet] at h
    split at h
    · next d2 heq =>
      simp only [List.cons_append, decodeAll.go, Dec.push, heq]
      exact ih h ys
    · cases h

theorem decodeAll_go_delivers {d d' : Dec} {bytes p : List UInt8} (h : Dec.Delivers d bytes p d') :
    decodeAll.go d bytes = [Item.ok p] := by
  obtain ⟨xs, y, d1, e, hq, hp, hst, hdata⟩ := h
  subst e
  rw [decodeAll_go_quiet hq]
  simp [decodeAll.go, Dec.push_ready hp hst, hdata, Dec.finalize, hst]

/-! ### `DecodeIterator` -/

namespace DecIter

theorem pull_quiet {xs : List UInt8} : ∀ {d d1 : Dec}, d.quiet xs = some d1 →
    ∀ ys, pull d (xs ++ ys) = pull d1 ys := by
  induction xs with
  | nil => intro d d1 h ys; cases h; rfl
  | cons x xs ih =>
    intro d d1 h ys
    simp only [Dec.quiet] at h
    split at h
    · next d2 heq =>
      simp only [List.cons_append, pull, heq]
      exact ih h ys
    · cases h

theorem pull_delivers {d d' : Dec} {bytes p : List UInt8} (h : Dec.Delivers d bytes p d') :
    pull d bytes = ({ dec := d', bytes := [], done := false }, some (Item.ok p)) := by
  obtain ⟨xs, y, d1, e, hq, hp, hst, hdata⟩ := h
  subst e
  rw [pull_quiet hq]
  simp [pull, hp, Dec.borrowBuf, Dec.isDone, hst, hdata]

theorem take_doneR (k : Nat) : ∀ (it : DecIter), it.done = true → it.take k = List.replicate k none := by
  induction k with
  | zero => intro it _; rfl
  | succ k ih =>
    intro it h
    simp only [take, next, h, if_true, List.replicate_succ]
    rw [ih it h]

theorem next_of_not_doneR {it : DecIter} (h : it.done = false) : it.next = pull it.dec it.bytes := by
  simp [next, h]

theorem take_succR (it : DecIter) (n : Nat) : it.take (n + 1) = it.next.2 :: it.next.1.take n := rfl

/-- the message, then `None` forever -/
theorem take_delivers {cap : Option Nat} {d' : Dec} {bytes p : List UInt8}
    (h : Dec.Delivers (Dec.fresh cap) bytes p d') (k : Nat) :
    (DecIter.new cap bytes).take (k + 1) = some (Item.ok p) :: List.replicate k none := by
  obtain ⟨_, _, _, _, _, _, hst, _⟩ := id h
  have h1 : (DecIter.new cap bytes).next =
      ({ dec := d', bytes := [], done := false }, some (Item.ok p)) := by
    rw [next_of_not_doneR rfl]
    exact pull_delivers h
  rw [take_succR, h1]
  congr 1
  cases k with
  | zero => rfl
  | succ k =>
    have h2 : ({ dec := d', bytes := [], done := false } : DecIter).next =
        ({ dec := (d'.reset).1, bytes := [], done := true }, none) := by
      rw [next_of_not_doneR rfl]
      simp [pull, Dec.finalize, hst]
    rw [take_succR, h2, List.replicate_succ]
    simp only
    rw [take_doneR k _ rfl]

end DecIter

/-! ### `DecoderReader` -/

namespace Rdr

theorem readLoop_quiet (kind : SrcKind) {xs : List UInt8} : ∀ {d d1 : Dec}, d.quiet xs = some d1 →
    ∀ evs, readLoop kind d (xs.map Ev.byte ++ evs) = readLoop kind d1 evs := by
  induction xs with
  | nil => intro d d1 h ys; cases h; rfl
  | cons x xs ih =>
    intro d d1 h ys
    simp only [Dec.quiet] at h
    split at h
    · next d2 heq =>
      simp only [List.map_cons, List.cons_append, readLoop, heq]
      exact ih h ys
    · cases h

theorem readLoop_delivers (kind : SrcKind) {d d' : Dec} {bytes p : List UInt8}
    (h : Dec.Delivers d bytes p d') :
    readLoop kind d (bytes.map Ev.byte) = ({ kind := kind, dec := d', evs := [] }, RItem.ok p) := by
  obtain ⟨xs, y, d1, e, hq, hp, hst, hdata⟩ := h
  subst e
  rw [List.map_append, readLoop_quiet kind hq]
  simp [readLoop, hp, Dec.borrowBuf, Dec.isDone, hst, hdata]

/-- decoder states in which `reset` reports zero discarded bytes -/
def Idle (d : Dec) : Prop := d.st = .done ∨ (d.st = .look 0 0 ∧ d.raw = 0)

theorem idle_reset {d : Dec} (h : Idle d) : (d.reset).2 = 0 ∧ Idle (d.reset).1 := by
  refine ⟨?_, Or.inr ⟨rfl, rfl⟩⟩
  rcases h with h | ⟨h, hr⟩
  · simp [Dec.reset, h]
  · simp [Dec.reset, h, hr]

/-- end of input on a memory / `std::io` source with an idle decoder: `Eof(0)`, decoder idle -/
theorem read_idle {r : Rdr} (hk : r.kind ≠ .eh) (he : r.evs = []) (hi : Idle r.dec) :
    r.read.2 = RItem.ioErr .eof 0 ∧ r.read.1.kind = r.kind ∧ r.read.1.evs = [] ∧ Idle r.read.1.dec := by
  obtain ⟨kind, d, evs⟩ := r
  simp only at hk he hi
  subst he
  obtain ⟨h0, hi'⟩ := idle_reset hi
  cases kind with
  | eh => exact absurd rfl hk
  | mem => simp [read, readLoop, onIoErr, h0, hi']
  | io => simp [read, readLoop, onIoErr, h0, hi']

theorem calls_read_idle (k : Nat) : ∀ {r : Rdr}, r.kind ≠ .eh → r.evs = [] → Idle r.dec →
    (r.calls (List.replicate k Call.read)).2 = List.replicate k (RItem.ioErr .eof 0) := by
  induction k with
  | zero => intro r _ _ _; rfl
  | succ k ih =>
    intro r hk he hi
    obtain ⟨h1, h2, h3, h4⟩ := read_idle hk he hi
    simp only [List.replicate_succ, calls, call, h1]
    rw [ih (by rw [h2]; exact hk) h3 h4]

theorem calls_next_idle (k : Nat) : ∀ {r : Rdr}, r.kind ≠ .eh → r.evs = [] → Idle r.dec →
    (r.calls (List.replicate k Call.next)).2 = List.replicate k RItem.none := by
  induction k with
  | zero => intro r _ _ _; rfl
  | succ k ih =>
    intro r hk he hi
    obtain ⟨h1, h2, h3, h4⟩ := read_idle hk he hi
    have hn : r.next = (r.read.1, RItem.none) := by
      unfold next
      have : r.read = (r.read.1, RItem.ioErr .eof 0) := by rw [← h1]
      rw [this]
      rfl
    simp only [List.replicate_succ, calls, call, hn]
    rw [ih (by rw [h2]; exact hk) h3 h4]

theorem calls_read_delivers {cap : Option Nat} {d' : Dec} {bytes p : List UInt8} {kind : SrcKind}
    (hk : kind ≠ .eh) (h : Dec.Delivers (Dec.fresh cap) bytes p d') (k : Nat) :
    ((Rdr.new kind cap (bytes.map Ev.byte)).calls (Call.read :: List.replicate k Call.read)).2 =
      RItem.ok p :: List.replicate k (RItem.ioErr .eof 0) := by
  obtain ⟨_, _, _, _, _, _, hst, _⟩ := id h
  simp only [calls, call, read, Rdr.new, readLoop_delivers kind h]
  rw [calls_read_idle k hk rfl (Or.inl hst)]

theorem calls_next_delivers {cap : Option Nat} {d' : Dec} {bytes p : List UInt8} {kind : SrcKind}
    (hk : kind ≠ .eh) (h : Dec.Delivers (Dec.fresh cap) bytes p d') (k : Nat) :
    ((Rdr.new kind cap (bytes.map Ev.byte)).calls (Call.next :: List.replicate k Call.next)).2 =
      RItem.ok p :: List.replicate k RItem.none := by
  obtain ⟨_, _, _, _, _, _, hst, _⟩ := id h
  simp only [calls, call, next, read, Rdr.new, readLoop_delivers kind h]
  rw [calls_next_idle k hk rfl (Or.inl hst)]

end Rdr

end Sml

namespace Sml

/-- the iterator encoder, polled `k` more times than the frame is long: the frame, then `None`s -/
theorem Enc.run_frame_add (p : List UInt8) (k : Nat) :
    ((Enc.new p).run ((Spec.frame p).length + k)).2 =
      (Spec.frame p).map EOut.byte ++ List.replicate k EOut.none := by
  obtain ⟨e', h, hst⟩ := Enc.run_frame p
  rw [Enc.run_add_of h (Enc.run_fused hst k)]

end Sml

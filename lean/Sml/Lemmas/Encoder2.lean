import Sml.Lemmas.Encoder1
/-
  Encoder soundness, part 2: integers.  `toBe` inverts `beNat`, `toBeSigned` inverts `twos`
  (two's complement), the chosen widths are admissible, hence `enc_sound_unsigned`,
  `enc_sound_signed` and the data part of the width-class-carrying integers of `SML_Value` /
  `SML_Status`.
-/
namespace Sml.Enc
open Sml Sml.Spec

theorem pow256_pos (n : Nat) : 0 < 256 ^ n := Nat.pow_pos (by decide)

theorem length_toBe (n : Nat) : ∀ w, (toBe w n).length = w := by
  intro w
  induction w with
  | zero => rfl
  | succ w ih => simp [toBe, ih]

/-- `toBe` is the inverse of `beNat` on `w`-byte values -/
theorem beNat_toBe (n : Nat) : ∀ w, beNat (toBe w n) = n % 256 ^ w := by
  intro w
  induction w with
  | zero => simp [toBe, beNat, Nat.mod_one]
  | succ w ih =>
    rw [toBe, C12.beNat_cons, ih, length_toBe, Nat.mod_pow_succ]
    simp only [UInt8.toNat_ofNat', Nat.reducePow]
    rw [Nat.mul_comm, Nat.add_comm]

theorem beNat_toBe_of_lt (n w : Nat) (h : n < 256 ^ w) : beNat (toBe w n) = n := by
  rw [beNat_toBe, Nat.mod_eq_of_lt h]

theorem clampWidth_spec (lo hi req : Nat) (h : lo ≤ hi) :
    lo ≤ clampWidth lo hi req ∧ clampWidth lo hi req ≤ hi := by
  simp only [clampWidth]; omega

theorem cases_1_8 (s : Nat) (h : 1 ≤ s ∧ s ≤ 8) :
    s = 1 ∨ s = 2 ∨ s = 3 ∨ s = 4 ∨ s = 5 ∨ s = 6 ∨ s = 7 ∨ s = 8 := by omega

/-- `minWidthU n` bytes hold `n`, and it is the least such number -/
theorem minWidthU_spec (n : Nat) (h : n < 256 ^ 8) :
    1 ≤ minWidthU n ∧ minWidthU n ≤ 8 ∧ n < 256 ^ minWidthU n := by
  unfold minWidthU
  repeat' split
  all_goals simp only [Nat.reducePow] at *
  all_goals omega

theorem minWidthU_le (n s : Nat) (hs : 1 ≤ s ∧ s ≤ 8) (h : n < 256 ^ s) : minWidthU n ≤ s := by
  unfold minWidthU
  rcases cases_1_8 s hs with rfl | rfl | rfl | rfl | rfl | rfl | rfl | rfl
  all_goals simp only [Nat.reducePow] at h ⊢
  all_goals repeat' split
  all_goals omega

/-- the data bytes of an unsigned value in any width that holds it -/
theorem uns_data (v : Int) (w : Nat) (h0 : 0 ≤ v) (h : v.toNat < 256 ^ w) :
    (toBe w v.toNat).length = w ∧ v = (beNat (toBe w v.toNat) : Int) := by
  refine ⟨length_toBe _ _, ?_⟩
  rw [beNat_toBe_of_lt _ _ h, Int.toNat_of_nonneg h0]

theorem inUns_toNat {size : Nat} {v : Int} (h : InUns size v) : v.toNat < 256 ^ size := by
  obtain ⟨h0, h1⟩ := h
  rw [C12.two_pow_8] at h1
  omega

theorem pow256_mono {a b : Nat} (h : a ≤ b) : 256 ^ a ≤ 256 ^ b :=
  Nat.pow_le_pow_right (by decide) h

/-- the width chosen for a fixed-size unsigned field -/
theorem uns_width (c : FieldChoice) (size : Nat) (v : Int) (hs : 1 ≤ size ∧ size ≤ 8)
    (hv : InUns size v) :
    let w := clampWidth (minWidthU v.toNat) size c.width
    1 ≤ w ∧ w ≤ size ∧ v.toNat < 256 ^ w := by
  intro w
  have hn := inUns_toNat hv
  have h8 : v.toNat < 256 ^ 8 := Nat.lt_of_lt_of_le hn (pow256_mono hs.2)
  obtain ⟨m1, m2, m3⟩ := minWidthU_spec _ h8
  have mle := minWidthU_le _ _ hs hn
  obtain ⟨c1, c2⟩ := clampWidth_spec _ _ c.width mle
  exact ⟨by omega, c2, Nat.lt_of_lt_of_le m3 (pow256_mono c1)⟩

theorem tlf_small (extra : Nat) (ty : Ty) (w : Nat) (hb : ty ≠ .boolean) (hw : w ≤ 8) :
    EncTlf ⟨ty, w⟩ (encTlf extra ty w) :=
  enc_sound_tlf extra ty w hb (by simp only [u32Max]; split <;> omega)

/-- `enc_sound_unsigned` -/
theorem enc_sound_unsigned (c : FieldChoice) (size : Nat) (v : Int) (hs : 1 ≤ size ∧ size ≤ 8)
    (hv : InUns size v) : EncUnsigned size v (encUnsigned c size v) := by
  obtain ⟨w1, w2, w3⟩ := uns_width c size v hs hv
  obtain ⟨d1, d2⟩ := uns_data v _ hv.1 w3
  unfold encUnsigned
  simp only
  generalize clampWidth (minWidthU v.toNat) size c.width = w at *
  refine Gram.mk_unsigned size v _ _ ?_ (by omega) (by omega) d2
  rw [d1]
  exact tlf_small _ _ _ (by decide) (by omega)

/-! ### two's complement -/

theorem minWidthS_spec (v : Int) (h : InInt 8 v) :
    1 ≤ minWidthS v ∧ minWidthS v ≤ 8 ∧ InInt (minWidthS v) v := by
  unfold InInt at h ⊢
  unfold minWidthS
  simp only [Nat.reduceMul, Nat.reduceSub, Nat.reducePow, Int.reducePow, Int.reduceNeg] at h ⊢
  repeat' split
  all_goals simp only [Nat.reduceMul, Nat.reduceSub, Nat.reducePow]
  all_goals omega

theorem minWidthS_le (v : Int) (s : Nat) (hs : 1 ≤ s ∧ s ≤ 8) (h : InInt s v) :
    minWidthS v ≤ s := by
  unfold InInt at h
  unfold minWidthS
  rcases cases_1_8 s hs with rfl | rfl | rfl | rfl | rfl | rfl | rfl | rfl
  all_goals simp only [Nat.reduceMul, Nat.reduceSub, Nat.reducePow, Int.reducePow, Int.reduceNeg] at h ⊢
  all_goals repeat' split
  all_goals omega

/-- half range: `2^(8(k+1)-1) = 128 · 256^k` -/
theorem half_pow (k : Nat) : 2 ^ (8 * (k + 1) - 1) = 128 * 256 ^ k := by
  have := C12.two_pow_8_pred (k + 1) (by omega)
  rw [Nat.pow_succ] at this
  omega

theorem inInt_succ (k : Nat) (v : Int) :
    InInt (k + 1) v ↔ -((128 * 256 ^ k : Nat) : Int) ≤ v ∧ v < ((128 * 256 ^ k : Nat) : Int) := by
  unfold InInt
  rw [half_pow]

theorem inInt_mono {a b : Nat} (v : Int) (ha : 1 ≤ a) (h : a ≤ b) (hv : InInt a v) : InInt b v := by
  obtain ⟨a', rfl⟩ : ∃ a', a = a' + 1 := ⟨a - 1, by omega⟩
  obtain ⟨b', rfl⟩ : ∃ b', b = b' + 1 := ⟨b - 1, by omega⟩
  rw [inInt_succ] at hv ⊢
  have : (256 ^ a' : Nat) ≤ 256 ^ b' := pow256_mono (by omega)
  omega

/-- two's complement: the `w`-byte representation of a value of `w` bytes reads back as it -/
theorem twos_toBeSigned (w : Nat) (v : Int) (hw : 1 ≤ w) (h : InInt w v) :
    (toBeSigned w v).length = w ∧ v = twos (toBeSigned w v) := by
  obtain ⟨k, rfl⟩ : ∃ k, w = k + 1 := ⟨w - 1, by omega⟩
  refine ⟨length_toBe _ _, ?_⟩
  rw [inInt_succ] at h
  have hP := pow256_pos k
  unfold toBeSigned
  have hpow : (256 ^ (k + 1) : Nat) = 256 * 256 ^ k := by rw [Nat.pow_succ, Nat.mul_comm]
  rw [hpow]
  generalize hn : (v % ((256 * 256 ^ k : Nat) : Int)).toNat = n
  have hM : (0 : Int) < ((256 * 256 ^ k : Nat) : Int) := by omega
  have hnn : (n : Int) = v % ((256 * 256 ^ k : Nat) : Int) := by
    rw [← hn, Int.toNat_of_nonneg (Int.emod_nonneg _ (by omega))]
  have hlt : n < 256 * 256 ^ k := by
    have := Int.emod_lt_of_pos v hM
    omega
  have hbe : beNat (toBe (k + 1) n) = n := beNat_toBe_of_lt _ _ (by rw [hpow]; exact hlt)
  have hlen : (toBe (k + 1) n).length = k + 1 := length_toBe _ _
  have hb0 : toBe (k + 1) n = UInt8.ofNat (n / 256 ^ k) :: toBe k n := rfl
  have hdiv : n / 256 ^ k < 256 := by
    rw [Nat.div_lt_iff_lt_mul hP]; exact hlt
  have htop : (UInt8.ofNat (n / 256 ^ k)).toNat = n / 256 ^ k := by
    simp only [UInt8.toNat_ofNat', Nat.reducePow]; exact Nat.mod_eq_of_lt hdiv
  have h2 : (2 ^ (8 * (k + 1)) : Nat) = 256 * 256 ^ k := by rw [C12.two_pow_8, hpow]
  unfold twos
  rw [hb0] at hbe hlen ⊢
  simp only
  rw [hlen, hbe, htop, h2]
  by_cases hneg : v < 0
  · -- negative: n = v + 256 P
    have hmod : v % ((256 * 256 ^ k : Nat) : Int) = v + ((256 * 256 ^ k : Nat) : Int) := by
      rw [← Int.add_emod_right, Int.emod_eq_of_lt (by omega) (by omega)]
    have hge : n / 256 ^ k ≥ 128 := by
      rw [ge_iff_le, Nat.le_div_iff_mul_le hP]
      omega
    rw [if_pos hge]
    omega
  · have hmod : v % ((256 * 256 ^ k : Nat) : Int) = v :=
      Int.emod_eq_of_lt (by omega) (by omega)
    have hlt' : ¬ n / 256 ^ k ≥ 128 := by
      rw [ge_iff_le, Nat.le_div_iff_mul_le hP]
      omega
    rw [if_neg hlt']
    omega

/-- the width chosen for a fixed-size signed field -/
theorem sgn_width (c : FieldChoice) (size : Nat) (v : Int) (hs : 1 ≤ size ∧ size ≤ 8)
    (hv : InInt size v) :
    let w := clampWidth (minWidthS v) size c.width
    1 ≤ w ∧ w ≤ size ∧ InInt w v := by
  intro w
  obtain ⟨m1, m2, m3⟩ := minWidthS_spec v (inInt_mono v hs.1 hs.2 hv)
  have mle := minWidthS_le v size hs hv
  obtain ⟨c1, c2⟩ := clampWidth_spec _ _ c.width mle
  exact ⟨by omega, c2, inInt_mono v m1 c1 m3⟩

/-- `enc_sound_signed` -/
theorem enc_sound_signed (c : FieldChoice) (size : Nat) (v : Int) (hs : 1 ≤ size ∧ size ≤ 8)
    (hv : InInt size v) : EncSigned size v (encSigned c size v) := by
  obtain ⟨w1, w2, w3⟩ := sgn_width c size v hs hv
  unfold encSigned
  simp only
  generalize clampWidth (minWidthS v) size c.width = w at *
  obtain ⟨d1, d2⟩ := twos_toBeSigned w v w1 w3
  refine Gram.mk_signed size v _ _ ?_ (by omega) (by omega) d2
  rw [d1]
  exact tlf_small _ _ _ (by decide) (by omega)

/-! ### integers that carry their width class -/

theorem widths_cases {size : Nat} (h : size ∈ widths) : size = 1 ∨ size = 2 ∨ size = 4 ∨ size = 8 := by
  simpa [widths] using h

/-- the width chosen for a class-carrying integer lies in the class -/
theorem classWidth_spec (c : FieldChoice) (size fewest : Nat) (hs : size ∈ widths)
    (h1 : 1 ≤ fewest) (h2 : fewest ≤ size) :
    let w := classWidth c size fewest
    fewest ≤ w ∧ 1 ≤ w ∧ w ≤ 8 ∧ w ≤ size ∧ WidthClass w size := by
  intro w
  have hlo : max fewest (size / 2 + 1) ≤ size := by
    rcases widths_cases hs with rfl | rfl | rfl | rfl <;> omega
  obtain ⟨c1, c2⟩ := clampWidth_spec _ _ c.width hlo
  have hw8 : w ≤ 8 := by
    have : size ≤ 8 := by rcases widths_cases hs with rfl | rfl | rfl | rfl <;> omega
    exact Nat.le_trans c2 this
  refine ⟨by show fewest ≤ clampWidth _ _ _; omega, by show 1 ≤ clampWidth _ _ _; omega, hw8, c2,
    ?_⟩
  rw [Gram.widthClass_iff _ _ hw8]
  show size = C12.narrow (clampWidth _ _ _)
  generalize clampWidth (max fewest (size / 2 + 1)) size c.width = w' at *
  unfold C12.narrow
  rcases widths_cases hs with rfl | rfl | rfl | rfl
  all_goals repeat' split
  all_goals omega

theorem widths_le {size : Nat} (h : size ∈ widths) : 1 ≤ size ∧ size ≤ 8 := by
  rcases widths_cases h with rfl | rfl | rfl | rfl <;> omega

/-- data of a class-carrying unsigned integer (`SML_Value` unsigned, `SML_Status`) -/
theorem class_uns (c : FieldChoice) (size : Nat) (v : Int) (hs : size ∈ widths) (hv : InUns size v) :
    let w := classWidth c size (minWidthU v.toNat)
    let data := toBe w v.toNat
    EncTlf ⟨.unsigned, data.length⟩ (encTlf c.tlfExtra .unsigned w) ∧ 1 ≤ data.length ∧
      data.length ≤ 8 ∧ WidthClass data.length size ∧ v = (beNat data : Int) := by
  intro w data
  have hs' := widths_le hs
  have hn := inUns_toNat hv
  have h8 : v.toNat < 256 ^ 8 := Nat.lt_of_lt_of_le hn (pow256_mono hs'.2)
  obtain ⟨m1, m2, m3⟩ := minWidthU_spec _ h8
  obtain ⟨k1, k2, k3, k4, k5⟩ := classWidth_spec c size _ hs m1 (minWidthU_le _ _ hs' hn)
  obtain ⟨d1, d2⟩ := uns_data v w hv.1 (Nat.lt_of_lt_of_le m3 (pow256_mono k1))
  show EncTlf ⟨.unsigned, (toBe w v.toNat).length⟩ _ ∧ 1 ≤ (toBe w v.toNat).length ∧
    (toBe w v.toNat).length ≤ 8 ∧ WidthClass (toBe w v.toNat).length size ∧ _
  rw [d1]
  exact ⟨tlf_small _ _ _ (by decide) k3, k2, k3, k5, d2⟩

theorem class_int (c : FieldChoice) (size : Nat) (v : Int) (hs : size ∈ widths) (hv : InInt size v) :
    let w := classWidth c size (minWidthS v)
    let data := toBeSigned w v
    EncTlf ⟨.integer, data.length⟩ (encTlf c.tlfExtra .integer w) ∧ 1 ≤ data.length ∧
      data.length ≤ 8 ∧ WidthClass data.length size ∧ v = twos data := by
  intro w data
  have hs' := widths_le hs
  obtain ⟨m1, m2, m3⟩ := minWidthS_spec v (inInt_mono v hs'.1 hs'.2 hv)
  obtain ⟨k1, k2, k3, k4, k5⟩ := classWidth_spec c size _ hs m1 (minWidthS_le v size hs' hv)
  obtain ⟨d1, d2⟩ := twos_toBeSigned w v k2 (inInt_mono v m1 k1 m3)
  show EncTlf ⟨.integer, (toBeSigned w v).length⟩ _ ∧ 1 ≤ (toBeSigned w v).length ∧
    (toBeSigned w v).length ≤ 8 ∧ WidthClass (toBeSigned w v).length size ∧ _
  rw [d1]
  exact ⟨tlf_small _ _ _ (by decide) k3, k2, k3, k5, d2⟩

end Sml.Enc

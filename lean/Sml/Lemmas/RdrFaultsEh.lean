import Sml.Props.C11
import Sml.Lemmas.RdrFaults
/-
  Property C11 for the embedded-hal byte source (`SrcKind.eh`, `EhByteSource` over
  `embedded_hal::serial::Read`).

  Differences to the `io::Read` source treated in Sml/Props/C11.lean (see `Rdr.readLoop`):
    * there is no end of input: when the events are used up, every read attempt answers
      `WouldBlock` (the line is idle) — the reader returns `IoErr(WouldBlock, 0)` forever, never
      `None` and never an `Eof` error, and the decoder keeps its state;
    * there is no retry: an `Interrupted` event is an error like `other` (it resets the decoder and
      is returned as `IoErr(Other, n)`);
    * embedded-hal has no notion of end of input: the event `Ev.eof` (which cannot occur on a real
      serial line) is treated as an error like `other` as well.

  The complete behaviour (§0):
      `opsOfEh evs`   the decoder operations the events cause: `byte b ↦ push_byte b`,
                       `other`, `interrupted`, `eof ↦ reset`, `wouldBlock ↦` nothing;
      `bodyEh d evs`  the results produced while events are left: per byte the non-`None` answer
                       of `push_byte`, per `wouldBlock` one `IoErr(WouldBlock, 0)`, per `other` /
                       `interrupted` / `eof` one `IoErr(Other, reset())`;
      `calls_eq_eh` : any interleaving of `read` / `next` / `read_nb` / `next_nb`: the `i`-th call
      returns `view c` of the `i`-th element of `bodyEh`, resp. of `IoErr(WouldBlock, 0)` afterwards.
  `bodyEh d evs = RF.body d (toIo evs)` where `toIo` replaces `interrupted` and `eof` by `other`
  (`bodyEh_eq`), so the lemmas of Sml/Lemmas/RdrFaults.lean about `RF.body` carry over.

  All theorems hold for all event lists, all decoder states / buffer capacities and all numbers of
  calls.
-/
namespace Sml.C11

open RF (view body opsOf bytesOf outItem)
open Rdr

/-! ### definitions -/

/-- the embedded-hal source does not retry: `Interrupted` is an error like any other -/
def toIo : List Ev → List Ev
  | [] => []
  | .byte b :: evs => .byte b :: toIo evs
  | .wouldBlock :: evs => .wouldBlock :: toIo evs
  | .interrupted :: evs => .other :: toIo evs
  | .other :: evs => .other :: toIo evs
  | .eof :: evs => .other :: toIo evs

/-- the decoder operations an event sequence causes (`SrcKind.eh`) -/
def opsOfEh : List Ev → List Op
  | [] => []
  | .byte b :: evs => .push b :: opsOfEh evs
  | .wouldBlock :: evs => opsOfEh evs
  | .interrupted :: evs => .reset :: opsOfEh evs
  | .other :: evs => .reset :: opsOfEh evs
  | .eof :: evs => .reset :: opsOfEh evs

/-- the results produced while events are left (`SrcKind.eh`) -/
def bodyEh (d : Dec) : List Ev → List RItem
  | [] => []
  | .byte b :: evs => outItem (d.push b).2 ++ bodyEh (d.push b).1 evs
  | .wouldBlock :: evs => .ioErr .wouldBlock 0 :: bodyEh d evs
  | .interrupted :: evs => .ioErr .other d.reset.2 :: bodyEh d.reset.1 evs
  | .other :: evs => .ioErr .other d.reset.2 :: bodyEh d.reset.1 evs
  | .eof :: evs => .ioErr .other d.reset.2 :: bodyEh d.reset.1 evs

/-- remove the `WouldBlock` events (only these: `Interrupted` is an error here) -/
def stripWB : List Ev → List Ev
  | [] => []
  | .byte b :: evs => .byte b :: stripWB evs
  | .wouldBlock :: evs => stripWB evs
  | .interrupted :: evs => .interrupted :: stripWB evs
  | .other :: evs => .other :: stripWB evs
  | .eof :: evs => .eof :: stripWB evs

/-- what `reset` returns in the decoder state reached when `evs` is used up (new reader) -/
def pendingEh (cap : Option Nat) (evs : List Ev) : Nat :=
  ((Dec.run (Dec.fresh cap) (opsOfEh evs)).1.reset).2

/-- the relabelling `read_nb` / `next_nb` apply: `IoErr(WouldBlock, _)` becomes
`nb::Error::WouldBlock` -/
def toNb : RItem → RItem
  | .ioErr .wouldBlock _ => .nbWouldBlock
  | x => x

theorem opsOfEh_eq (evs : List Ev) : opsOfEh evs = opsOf (toIo evs) := by
  induction evs with
  | nil => rfl
  | cons e evs ih => cases e <;> simp [opsOfEh, toIo, opsOf, ih]

theorem bodyEh_eq (evs : List Ev) : ∀ d : Dec, bodyEh d evs = body d (toIo evs) := by
  induction evs with
  | nil => intro d; rfl
  | cons e evs ih => intro d; cases e <;> simp [bodyEh, toIo, body, ih]

theorem bytesOf_toIo (evs : List Ev) : bytesOf (toIo evs) = bytesOf evs := by
  induction evs with
  | nil => rfl
  | cons e evs ih => cases e <;> simp [toIo, bytesOf, ih]

/-- the translated list has no end-of-input event -/
theorem eof_not_mem_toIo (evs : List Ev) : Ev.eof ∉ toIo evs := by
  induction evs with
  | nil => simp [toIo]
  | cons e evs ih => cases e <;> simp [toIo, ih]

theorem toIo_append (e1 e2 : List Ev) : toIo (e1 ++ e2) = toIo e1 ++ toIo e2 := by
  induction e1 with
  | nil => rfl
  | cons e e1 ih => cases e <;> simp [toIo, ih]

theorem count_wb_toIo (evs : List Ev) : (toIo evs).count .wouldBlock = evs.count .wouldBlock := by
  induction evs with
  | nil => rfl
  | cons e evs ih => cases e <;> simp [toIo, ih]

theorem strip_toIo (evs : List Ev) : RF.strip (toIo evs) = toIo (stripWB evs) := by
  induction evs with
  | nil => rfl
  | cons e evs ih => cases e <;> simp [toIo, stripWB, RF.strip, ih]

theorem opsOfEh_append (e1 e2 : List Ev) : opsOfEh (e1 ++ e2) = opsOfEh e1 ++ opsOfEh e2 := by
  rw [opsOfEh_eq, opsOfEh_eq, opsOfEh_eq, toIo_append, RF.opsOf_append]

/-- events in sequence: the second part starts in the decoder state the first part left -/
theorem bodyEh_append (d : Dec) (e1 e2 : List Ev) :
    bodyEh d (e1 ++ e2) = bodyEh d e1 ++ bodyEh (Dec.run d (opsOfEh e1)).1 e2 := by
  rw [bodyEh_eq, bodyEh_eq, bodyEh_eq, toIo_append, RF.body_append, opsOfEh_eq]
  rfl

/-- nothing in `bodyEh` is `None`, a non-blocking would-block or an end-of-input report; every
would-block carries the count 0 -/
theorem bodyEh_mem (d : Dec) (evs : List Ev) (x : RItem) (hx : x ∈ bodyEh d evs) :
    x ≠ .none ∧ x ≠ .nbWouldBlock ∧ (∀ n, x ≠ .ioErr .eof n) ∧
      ∀ n, x = .ioErr .wouldBlock n → n = 0 := by
  rw [bodyEh_eq] at hx
  have := RF.body_mem _ d x hx
  exact ⟨this.1, this.2.1, this.2.2.1 (eof_not_mem_toIo evs), this.2.2.2⟩

theorem bodyEh_length_le (d : Dec) (evs : List Ev) : (bodyEh d evs).length ≤ evs.length := by
  have h : ∀ evs : List Ev, (toIo evs).length = evs.length := by
    intro evs
    induction evs with
    | nil => rfl
    | cons e evs ih => cases e <;> simp [toIo, ih]
  rw [bodyEh_eq, ← h evs]
  exact RF.body_length_le _ d

/-! ### list helpers -/

theorem zipWith_replicate_right' {α β γ : Type} (f : α → β → γ) (b : β) (l : List α) :
    List.zipWith f l (List.replicate l.length b) = l.map (fun a => f a b) := by
  induction l with
  | nil => rfl
  | cons y l ih => simp [List.replicate_succ, ih]

theorem padTo_eq_take_append {α : Type} (x : α) (l : List α) : ∀ k : Nat,
    padTo x l k = l.take k ++ List.replicate (k - l.length) x := by
  induction l with
  | nil => intro k; rw [padTo_nil]; simp
  | cons y l ih =>
    intro k
    cases k with
    | zero => simp [padTo_zero]
    | succ k => rw [padTo_cons, ih]; simp

theorem padTo_take {α : Type} (x : α) (l : List α) (k : Nat) :
    padTo x (l.take k) k = padTo x l k := by
  induction l generalizing k with
  | nil => simp
  | cons y l ih =>
    cases k with
    | zero => simp [padTo_zero]
    | succ k => rw [List.take_succ_cons, padTo_cons, padTo_cons, ih]

theorem dropWB_replicate_wb (n : Nat) :
    dropWB (List.replicate n (RItem.ioErr .wouldBlock 0)) = [] := by
  simp [dropWB]

theorem dropWB_take_dropWB (l : List RItem) (k : Nat) :
    dropWB ((dropWB l).take k) = (dropWB l).take k := by
  unfold dropWB
  rw [List.filter_eq_self]
  intro a ha
  exact (List.mem_filter.1 (List.mem_of_mem_take ha)).2

/-- padding with would-blocks: among `k + W` results (`W` = number of would-blocks in `T`) the
first `k` that are not would-blocks are the first `k` of `T` with the would-blocks erased -/
theorem dropWB_padTo_wb (T : List RItem) (k : Nat) :
    (dropWB (padTo (RItem.ioErr .wouldBlock 0) T (k + T.count (RItem.ioErr .wouldBlock 0)))).take k =
      (dropWB T).take k := by
  generalize hW : T.count (RItem.ioErr .wouldBlock 0) = W
  rw [padTo_eq_take_append]
  have hA : dropWB (T.take (k + W) ++
      List.replicate (k + W - T.length) (RItem.ioErr .wouldBlock 0)) = dropWB (T.take (k + W)) := by
    rw [show ∀ a b : List RItem, dropWB (a ++ b) = dropWB a ++ dropWB b from
      fun a b => List.filter_append ..]
    rw [dropWB_replicate_wb, List.append_nil]
  rw [hA]
  by_cases hL : k + W ≤ T.length
  · have hnp : (T.filter (fun a => !decide (a ≠ RItem.ioErr .wouldBlock 0))).length = W := by
      rw [← hW, List.count_eq_countP, List.countP_eq_length_filter]
      congr 2
      funext a
      by_cases h : a = RItem.ioErr .wouldBlock 0 <;> simp [h]
    exact take_filter_take (fun a => decide (a ≠ RItem.ioErr .wouldBlock 0)) T k W
      (by rw [hnp]; exact Nat.le_refl _) hL
  · rw [List.take_of_length_le (l := T) (i := k + W) (by omega)]

/-! ### 0. the complete behaviour of the reader over an embedded-hal source -/

/-- the idle line: `read` reports a would-block with count 0 and changes nothing (in particular
the decoder is not reset, in contrast to end of input on the other sources) -/
theorem read_idle_eh (d : Dec) :
    read { kind := .eh, dec := d, evs := [] } =
      ({ kind := .eh, dec := d, evs := [] }, .ioErr .wouldBlock 0) := rfl

/-- `Interrupted` is not retried: it is returned as `IoErr(Other, n)` and resets the decoder -/
theorem read_interrupted_eh (d : Dec) (evs : List Ev) :
    read { kind := .eh, dec := d, evs := .interrupted :: evs } =
      ({ kind := .eh, dec := d.reset.1, evs := evs }, .ioErr .other d.reset.2) := rfl

/-- events used up: every entry point gives its would-block answer, forever, and the reader does
not change -/
theorem calls_idle_eh (cs : List Call) (d : Dec) :
    (({ kind := .eh, dec := d, evs := [] } : Rdr).calls cs) =
      ({ kind := .eh, dec := d, evs := [] }, cs.map (fun c => view c (.ioErr .wouldBlock 0))) := by
  induction cs with
  | nil => rfl
  | cons c cs ih =>
    rw [calls_cons, RF.call_eq_read, read_idle_eh]
    simp only
    rw [ih, List.map_cons]

/-- Any sequence of `read` / `next` / `read_nb` / `next_nb` calls on a reader over an embedded-hal
source, any events, any decoder state: the `i`-th call presents (`view`) the `i`-th element of
`bodyEh`, and `IoErr(WouldBlock, 0)` once these are used up. -/
theorem calls_eq_eh_from (evs : List Ev) : ∀ (d : Dec) (cs : List Call),
    (({ kind := .eh, dec := d, evs := evs } : Rdr).calls cs).2 =
      List.zipWith view cs (padTo (.ioErr .wouldBlock 0) (bodyEh d evs) cs.length) := by
  induction evs with
  | nil =>
    intro d cs
    rw [calls_idle_eh]
    simp only [bodyEh, padTo_nil]
    rw [zipWith_replicate_right']
  | cons e evs ih =>
    intro d cs
    cases cs with
    | nil => rfl
    | cons c cs =>
      cases e with
      | byte b =>
        rcases RF.read_byte_cases .eh d b evs with ⟨hn, hr⟩ | ⟨x, hx, hr⟩
        · rw [RF.calls_congr_read hr, ih]
          simp only [bodyEh, hn, outItem, List.nil_append]
        · rw [calls_cons, RF.call_eq_read, hr]
          simp only
          rw [ih]
          simp only [bodyEh, hx, List.cons_append, List.nil_append,
            List.length_cons, padTo_cons, List.zipWith_cons_cons]
      | wouldBlock =>
        rw [calls_cons, RF.call_eq_read, RF.read_wouldBlock]
        simp only
        rw [ih]
        simp only [bodyEh, List.length_cons, padTo_cons, List.zipWith_cons_cons]
      | interrupted =>
        rw [calls_cons, RF.call_eq_read, read_interrupted_eh]
        simp only
        rw [ih]
        simp only [bodyEh, List.length_cons, padTo_cons, List.zipWith_cons_cons]
      | other =>
        rw [calls_cons, RF.call_eq_read, RF.read_other]
        simp only
        rw [ih]
        simp only [bodyEh, List.length_cons, padTo_cons, List.zipWith_cons_cons]
      | eof =>
        rw [calls_cons, RF.call_eq_read, RF.read_eof_eh]
        simp only
        rw [ih]
        simp only [bodyEh, List.length_cons, padTo_cons, List.zipWith_cons_cons]

/-- a new reader -/
theorem calls_eq_eh (cap : Option Nat) (evs : List Ev) (cs : List Call) :
    ((Rdr.new .eh cap evs).calls cs).2 =
      List.zipWith view cs (padTo (RItem.ioErr .wouldBlock 0) (bodyEh (Dec.fresh cap) evs) cs.length) :=
  calls_eq_eh_from evs (Dec.fresh cap) cs

theorem map_view_next_bodyEh (d : Dec) (evs : List Ev) :
    (bodyEh d evs).map (view .next) = bodyEh d evs := by
  rw [bodyEh_eq]; exact RF.map_view_next_body d _ (eof_not_mem_toIo evs)

theorem map_view_nextNb_bodyEh (d : Dec) (evs : List Ev) :
    (bodyEh d evs).map (view .nextNb) = (bodyEh d evs).map toNb := by
  apply List.map_congr_left
  intro x hx
  have h := (bodyEh_mem d evs x hx).2.2.1
  cases x with
  | ioErr k n =>
    cases k with
    | eof => exact absurd rfl (h n)
    | wouldBlock => rfl
    | other => rfl
  | _ => rfl

theorem map_view_readNb (l : List RItem) : l.map (view .readNb) = l.map toNb := by
  apply List.map_congr_left
  intro x _
  cases x with
  | ioErr k n => cases k <;> rfl
  | _ => rfl

/-- `k` successive `next` calls from any reader state, any `k`: `bodyEh`, then
`IoErr(WouldBlock, 0)` forever -/
theorem nexts_eh_from (d : Dec) (evs : List Ev) (k : Nat) :
    nexts { kind := .eh, dec := d, evs := evs } k =
      padTo (RItem.ioErr .wouldBlock 0) (bodyEh d evs) k := by
  unfold nexts
  rw [calls_eq_eh_from, List.length_replicate]
  have hl : (padTo (RItem.ioErr .wouldBlock 0) (bodyEh d evs) k).length = k := padTo_length _ _ _
  have := zipWith_replicate_left' view Call.next (padTo (RItem.ioErr .wouldBlock 0) (bodyEh d evs) k)
  rw [hl] at this
  rw [this, map_padTo, map_view_next_bodyEh]
  rfl

/-- (1) complete behaviour of `next`: for every event list and every number `k` of calls the
results are `bodyEh`, then `IoErr(WouldBlock, 0)` forever. -/
theorem nexts_eq_eh (cap : Option Nat) (evs : List Ev) (k : Nat) :
    nexts (Rdr.new .eh cap evs) k =
      padTo (RItem.ioErr .wouldBlock 0) (bodyEh (Dec.fresh cap) evs) k :=
  nexts_eh_from (Dec.fresh cap) evs k

/-- the same for `read`: over this source `read` and `next` never differ -/
theorem reads_eq_eh (cap : Option Nat) (evs : List Ev) (k : Nat) :
    reads (Rdr.new .eh cap evs) k =
      padTo (RItem.ioErr .wouldBlock 0) (bodyEh (Dec.fresh cap) evs) k := by
  unfold reads
  rw [calls_eq_eh, List.length_replicate]
  have hl : (padTo (RItem.ioErr .wouldBlock 0) (bodyEh (Dec.fresh cap) evs) k).length = k :=
    padTo_length _ _ _
  have := zipWith_replicate_left' view Call.read
    (padTo (RItem.ioErr .wouldBlock 0) (bodyEh (Dec.fresh cap) evs) k)
  rw [hl] at this
  rw [this]
  show List.map id _ = _
  rw [List.map_id]

/-- `next` never returns `None` and no entry point ever reports end of input: there is no end of
input on this source -/
theorem never_none_eh (cap : Option Nat) (evs : List Ev) (k : Nat) :
    ∀ x ∈ nexts (Rdr.new .eh cap evs) k,
      x ≠ RItem.none ∧ (∀ n, x ≠ RItem.ioErr .eof n) ∧ ∀ n, x = RItem.ioErr .wouldBlock n → n = 0 := by
  intro x hx
  rw [nexts_eq_eh] at hx
  unfold padTo at hx
  rcases List.mem_append.1 (List.mem_of_mem_take hx) with h | h
  · have := bodyEh_mem _ _ x h
    exact ⟨this.1, this.2.2.1, this.2.2.2⟩
  · rw [List.eq_of_mem_replicate h]
    refine ⟨by simp, by simp, fun n hn => ?_⟩
    injection hn with _ hn
    exact hn.symm

/-- after the events every call of `next` returns `IoErr(WouldBlock, 0)` -/
theorem idle_forever_eh (cap : Option Nat) (evs : List Ev) (k i : Nat) (hi : i < k)
    (h : (bodyEh (Dec.fresh cap) evs).length ≤ i) :
    (nexts (Rdr.new .eh cap evs) k)[i]? = some (RItem.ioErr .wouldBlock 0) := by
  rw [nexts_eq_eh, getElem?_padTo _ _ _ _ hi, List.getElem?_eq_none h]
  rfl

/-! ### 1. would-block -/

theorem bodyEh_stripWB (d : Dec) (evs : List Ev) :
    bodyEh d (stripWB evs) = dropWB (bodyEh d evs) := by
  rw [bodyEh_eq, bodyEh_eq, ← strip_toIo]
  exact RF.body_strip _ d

theorem count_wb_bodyEh (d : Dec) (evs : List Ev) :
    (bodyEh d evs).count (RItem.ioErr .wouldBlock 0) = evs.count .wouldBlock := by
  rw [bodyEh_eq, RF.count_wb_body, count_wb_toIo]

/-- (2) Erasing the would-block results gives exactly the results of the same stream without
would-block events (same items, same order, same counts); every would-block event surfaces exactly
once; it always carries the count 0.  (From any decoder state.) -/
theorem wouldblock_transparent_eh (d : Dec) (evs : List Ev) :
    dropWB (bodyEh d evs) = bodyEh d (stripWB evs) ∧
    (bodyEh d evs).count (RItem.ioErr .wouldBlock 0) = evs.count .wouldBlock ∧
    ∀ n, RItem.ioErr .wouldBlock n ∈ bodyEh d evs → n = 0 :=
  ⟨(bodyEh_stripWB d evs).symm, count_wb_bodyEh d evs,
    fun n hn => (bodyEh_mem d evs _ hn).2.2.2 n rfl⟩

/-- In terms of calls: with `W` would-block events, the first `k` results other than would-block
among `k + W` calls of `next` are the results other than would-block of `k` calls on the stream
without would-block events — for every `k`.  (Would-blocks have to be erased on the right as
well: when its events are used up the source itself answers would-block.) -/
theorem wouldblock_transparent_calls_eh (cap : Option Nat) (evs : List Ev) (k : Nat) :
    (dropWB (nexts (Rdr.new .eh cap evs) (k + evs.count .wouldBlock))).take k =
      dropWB (nexts (Rdr.new .eh cap (stripWB evs)) k) := by
  rw [nexts_eq_eh, nexts_eq_eh, bodyEh_stripWB, ← count_wb_bodyEh (Dec.fresh cap) evs,
    dropWB_padTo_wb, padTo_eq_take_append]
  rw [show ∀ a b : List RItem, dropWB (a ++ b) = dropWB a ++ dropWB b from
    fun a b => List.filter_append ..]
  rw [dropWB_replicate_wb, List.append_nil, dropWB_take_dropWB]

/-- ... equivalently: `k` calls on the stream without would-block events return the results other
than would-block of `k + W` calls on the stream with them, followed by the would-blocks of the idle
line -/
theorem wouldblock_transparent_calls_pad_eh (cap : Option Nat) (evs : List Ev) (k : Nat) :
    nexts (Rdr.new .eh cap (stripWB evs)) k =
      padTo (RItem.ioErr .wouldBlock 0)
        ((dropWB (nexts (Rdr.new .eh cap evs) (k + evs.count .wouldBlock))).take k) k := by
  rw [nexts_eq_eh, nexts_eq_eh, bodyEh_stripWB, ← count_wb_bodyEh (Dec.fresh cap) evs,
    dropWB_padTo_wb, padTo_take]

/-- from any reader state -/
theorem wouldblock_transparent_from_eh (d : Dec) (evs : List Ev) (k : Nat) :
    (dropWB (nexts { kind := .eh, dec := d, evs := evs } (k + evs.count .wouldBlock))).take k =
      dropWB (nexts { kind := .eh, dec := d, evs := stripWB evs } k) := by
  rw [nexts_eh_from, nexts_eh_from, bodyEh_stripWB, ← count_wb_bodyEh d evs,
    dropWB_padTo_wb, padTo_eq_take_append]
  rw [show ∀ a b : List RItem, dropWB (a ++ b) = dropWB a ++ dropWB b from
    fun a b => List.filter_append ..]
  rw [dropWB_replicate_wb, List.append_nil, dropWB_take_dropWB]

/-- events that produce no result (bytes answered `Ok(None)`) are consumed silently -/
theorem readLoop_quiet_eh (pre : List Ev) : ∀ (d : Dec) (rest : List Ev), bodyEh d pre = [] →
    readLoop .eh d (pre ++ rest) = readLoop .eh (Dec.run d (opsOfEh pre)).1 rest := by
  induction pre with
  | nil => intro d rest _; rfl
  | cons e pre ih =>
    intro d rest hq
    cases e with
    | byte b =>
      simp only [bodyEh, List.append_eq_nil_iff] at hq
      rcases RF.read_byte_cases .eh d b (pre ++ rest) with ⟨_, hr⟩ | ⟨x, hx, _⟩
      · have hr' : readLoop .eh d (.byte b :: (pre ++ rest)) =
            readLoop .eh (d.push b).1 (pre ++ rest) := hr
        rw [List.cons_append, hr', ih _ _ hq.2]
        rfl
      · rw [hq.1] at hx; cases hx
    | wouldBlock => simp [bodyEh] at hq
    | interrupted => simp [bodyEh] at hq
    | other => simp [bodyEh] at hq
    | eof => simp [bodyEh] at hq

/-- One `read` call that runs into a would-block after the events `pre` (bytes answered `Ok(None)`):
the would-block is returned with count 0, the decoder keeps the state reached after the bytes of
`pre`, the source is positioned behind the fault; and the next call continues exactly as the first
would have without the fault. -/
theorem read_wouldBlock_eh (d : Dec) (pre post : List Ev) (hq : bodyEh d pre = []) :
    readLoop .eh d (pre ++ .wouldBlock :: post) =
      ({ kind := .eh, dec := (Dec.run d (opsOfEh pre)).1, evs := post }, RItem.ioErr .wouldBlock 0) ∧
    readLoop .eh (Dec.run d (opsOfEh pre)).1 post = readLoop .eh d (pre ++ post) := by
  rw [readLoop_quiet_eh pre d _ hq, readLoop_quiet_eh pre d _ hq]
  exact ⟨rfl, rfl⟩

/-! ### 2. any other read error (`other` and `interrupted`) -/

/-- (3) Events `pre`, then an error `e` (`other`, `interrupted`, or — generalised with `Ev.eof` —
an end-of-input event, which this source reports as `Other`), then `post`, from any decoder
state: the results of `pre`, then exactly one `IoErr(Other, n)` with `n` = what `reset` returns in
the decoder state reached after `pre`, then the results of `post` from the reset decoder. -/
theorem bodyEh_other (d : Dec) (pre post : List Ev) (e : Ev)
    (he : e = .other ∨ e = .interrupted ∨ e = .eof) :
    bodyEh d (pre ++ e :: post) =
      bodyEh d pre ++ [RItem.ioErr .other ((Dec.run d (opsOfEh pre)).1.reset).2] ++
        bodyEh ((Dec.run d (opsOfEh pre)).1.reset).1 post := by
  rw [bodyEh_append, List.append_assoc]
  rcases he with rfl | rfl | rfl <;> rfl

/-- the decoder the error leaves behind differs from a new decoder in dead fields only (C14) ... -/
theorem other_leaves_fresh_eh (cap : Option Nat) (pre : List Ev) :
    Dec.Equiv ((Dec.run (Dec.fresh cap) (opsOfEh pre)).1.reset).1 (Dec.fresh cap) := by
  rw [opsOfEh_eq]
  exact other_leaves_fresh cap (toIo pre)

/-- ... and such decoders give the same results on every event sequence and every call sequence -/
theorem equiv_same_results_eh {d d' : Dec} (h : Dec.Equiv d d') (evs : List Ev) (cs : List Call) :
    bodyEh d evs = bodyEh d' evs ∧
    (({ kind := .eh, dec := d, evs := evs } : Rdr).calls cs).2 =
      (({ kind := .eh, dec := d', evs := evs } : Rdr).calls cs).2 := by
  have hb : bodyEh d evs = bodyEh d' evs := by
    rw [bodyEh_eq, bodyEh_eq]; exact RF.body_equiv _ h
  exact ⟨hb, by rw [calls_eq_eh_from, calls_eq_eh_from, hb]⟩

/-- New reader; events `pre`, then an error `e` (`other`, `interrupted` or `eof`), then `post`.  With `rs`
= the results `pre` produces and `n = pendingEh cap pre`: the reader returns `rs`, then exactly one
`IoErr(Other, n)`, then exactly what a new reader returns on `post` — for any number of further
calls. -/
theorem other_resets_eh (cap : Option Nat) (pre post : List Ev) (e : Ev)
    (he : e = .other ∨ e = .interrupted ∨ e = .eof) :
    let rs := bodyEh (Dec.fresh cap) pre
    let n := pendingEh cap pre
    (∀ x ∈ rs, x ≠ RItem.none ∧ ∀ m, x ≠ RItem.ioErr .eof m) ∧
    nexts (Rdr.new .eh cap pre) rs.length = rs ∧
    bodyEh (Dec.fresh cap) (pre ++ e :: post) =
      rs ++ [RItem.ioErr .other n] ++ bodyEh (Dec.fresh cap) post ∧
    ∀ k, nexts (Rdr.new .eh cap (pre ++ e :: post)) (rs.length + 1 + k) =
      rs ++ [RItem.ioErr .other n] ++ nexts (Rdr.new .eh cap post) k := by
  intro rs n
  have h3 : bodyEh (Dec.fresh cap) (pre ++ e :: post) =
      rs ++ [RItem.ioErr .other n] ++ bodyEh (Dec.fresh cap) post := by
    rw [bodyEh_other _ pre post e he,
      (equiv_same_results_eh (other_leaves_fresh_eh cap pre) post []).1]
    rfl
  refine ⟨fun x hx => ?_, ?_, h3, fun k => ?_⟩
  · have := bodyEh_mem _ _ x hx
    exact ⟨this.1, this.2.2.1⟩
  · have := padTo_append_left (RItem.ioErr .wouldBlock 0) rs [] 0
    rw [padTo_zero, List.append_nil, Nat.add_zero] at this
    rw [nexts_eq_eh]
    exact this
  · rw [nexts_eq_eh, nexts_eq_eh, h3]
    have := padTo_append_left (RItem.ioErr .wouldBlock 0) (rs ++ [RItem.ioErr .other n])
      (bodyEh (Dec.fresh cap) post) k
    rw [List.length_append, List.length_singleton] at this
    exact this

/-- The count is exact (C17): the operations `pre` causes tile the bytes of `pre` with last
boundary `b`, and the count attached to the error is the number of bytes after `b`. -/
theorem other_count_exact_eh (cap : Option Nat) (pre : List Ev) :
    ∃ b, Spec.tileOps 0 0 (Dec.run (Dec.fresh cap) (opsOfEh pre)).2 =
        some (b, (bytesOf pre).length) ∧
      b + pendingEh cap pre = (bytesOf pre).length := by
  have := other_count_exact cap (toIo pre)
  rw [bytesOf_toIo, ← opsOfEh_eq] at this
  unfold pendingEh
  unfold pending at this
  rw [← opsOfEh_eq] at this
  exact this

/-! ### 3. the non-blocking entry points -/

/-- (4) `read_nb` / `next_nb` are `read` / `next` with `IoErr(WouldBlock, _)` turned into
`nb::Error::WouldBlock`; nothing else changes (this is `nb_variants`, which does not depend on the
source kind) -/
theorem nb_variants_eh (cap : Option Nat) (evs : List Ev) :
    let r := Rdr.new .eh cap evs
    r.readNb = (match r.read with
      | (r', .ioErr .wouldBlock _) => (r', RItem.nbWouldBlock)
      | x => x) ∧
    r.nextNb = (match r.next with
      | (r', .ioErr .wouldBlock _) => (r', RItem.nbWouldBlock)
      | x => x) :=
  nb_variants (Rdr.new .eh cap evs)

/-- `k` successive `next_nb` (or `read_nb`) calls, any `k`: the results of `next` with every
would-block relabelled, then `nb::Error::WouldBlock` forever -/
theorem nextNbs_eq_eh (cap : Option Nat) (evs : List Ev) (k : Nat) :
    ((Rdr.new .eh cap evs).calls (List.replicate k .nextNb)).2 =
      padTo RItem.nbWouldBlock ((bodyEh (Dec.fresh cap) evs).map toNb) k ∧
    ((Rdr.new .eh cap evs).calls (List.replicate k .readNb)).2 =
      padTo RItem.nbWouldBlock ((bodyEh (Dec.fresh cap) evs).map toNb) k ∧
    ((Rdr.new .eh cap evs).calls (List.replicate k .nextNb)).2 =
      (nexts (Rdr.new .eh cap evs) k).map toNb := by
  have hl : (padTo (RItem.ioErr .wouldBlock 0) (bodyEh (Dec.fresh cap) evs) k).length = k :=
    padTo_length _ _ _
  have h1 : ((Rdr.new .eh cap evs).calls (List.replicate k .nextNb)).2 =
      padTo RItem.nbWouldBlock ((bodyEh (Dec.fresh cap) evs).map toNb) k := by
    rw [calls_eq_eh, List.length_replicate]
    have := zipWith_replicate_left' view Call.nextNb
      (padTo (RItem.ioErr .wouldBlock 0) (bodyEh (Dec.fresh cap) evs) k)
    rw [hl] at this
    rw [this, map_padTo, map_view_nextNb_bodyEh]
    rfl
  refine ⟨h1, ?_, ?_⟩
  · rw [calls_eq_eh, List.length_replicate]
    have := zipWith_replicate_left' view Call.readNb
      (padTo (RItem.ioErr .wouldBlock 0) (bodyEh (Dec.fresh cap) evs) k)
    rw [hl] at this
    rw [this, map_padTo, map_view_readNb]
    rfl
  · rw [h1, nexts_eq_eh, map_padTo]
    rfl

/-! ### 4. non-vacuity (kernel evaluation) -/

/-- the frame of `12 34 56 78` split by `WouldBlock`, `WouldBlock WouldBlock` -/
def splitEh : List Ev :=
  (frame.take 5).map .byte ++ [.wouldBlock] ++ ((frame.drop 5).take 7).map .byte ++
    [.wouldBlock, .wouldBlock] ++ (frame.drop 12).map .byte

/-- three would-blocks, the payload, then would-block forever (never `None`) -/
example : nexts (Rdr.new .eh none splitEh) 6 =
    [.ioErr .wouldBlock 0, .ioErr .wouldBlock 0, .ioErr .wouldBlock 0, .ok [0x12, 0x34, 0x56, 0x78],
      .ioErr .wouldBlock 0, .ioErr .wouldBlock 0] := by
  decide +kernel

example : bodyEh (Dec.fresh none) splitEh =
    [.ioErr .wouldBlock 0, .ioErr .wouldBlock 0, .ioErr .wouldBlock 0, .ok [0x12, 0x34, 0x56, 0x78]] := by
  decide +kernel

example : stripWB splitEh = frame.map .byte := by decide +kernel

example : splitEh.count .wouldBlock = 3 := by decide +kernel

example : nexts (Rdr.new .eh none (stripWB splitEh)) 3 =
    [.ok [0x12, 0x34, 0x56, 0x78], .ioErr .wouldBlock 0, .ioErr .wouldBlock 0] := by
  decide +kernel

/-- the non-blocking entry points on the same stream -/
example : ((Rdr.new .eh none splitEh).calls [.nextNb, .readNb, .next, .nextNb, .nextNb, .read]).2 =
    [.nbWouldBlock, .nbWouldBlock, .ioErr .wouldBlock 0, .ok [0x12, 0x34, 0x56, 0x78], .nbWouldBlock,
      .ioErr .wouldBlock 0] := by
  decide +kernel

/-- `Interrupted` 9 bytes into a frame (and a would-block before it), then a complete frame: an
`IoErr(Other, 9)`, the following frame is delivered (over an `io::Read`, which retries, the same
events give no I/O error: there the decoder itself reports the 9 bytes when the next start sequence
completes) -/
def cutEh : List Ev :=
  (frame.take 4).map .byte ++ [.wouldBlock] ++ ((frame.drop 4).take 5).map .byte ++ [.interrupted] ++
    frame.map .byte

example : nexts (Rdr.new .eh none cutEh) 5 =
    [.ioErr .wouldBlock 0, .ioErr .other 9, .ok [0x12, 0x34, 0x56, 0x78], .ioErr .wouldBlock 0,
      .ioErr .wouldBlock 0] := by
  decide +kernel

example : nexts (Rdr.new .io none cutEh) 5 =
    [.ioErr .wouldBlock 0, .decErr (.discarded 9), .ok [0x12, 0x34, 0x56, 0x78], .none, .none] := by
  decide +kernel

example : pendingEh none ((frame.take 4).map .byte ++ [.wouldBlock] ++ ((frame.drop 4).take 5).map .byte)
    = 9 := by
  decide +kernel

/-- an end-of-input event (which a serial line cannot produce) is an error like `other` here:
`IoErr(Other, 9)`, never `None` or `Eof` -/
example : nexts (Rdr.new .eh none ((frame.take 9).map .byte ++ [.eof] ++ frame.map .byte ++ [.eof])) 4 =
    [.ioErr .other 9, .ok [0x12, 0x34, 0x56, 0x78], .ioErr .other 0, .ioErr .wouldBlock 0] := by
  decide +kernel

/-- an `other` error right after a delivered frame discards nothing -/
example : nexts (Rdr.new .eh (some 4) (frame.map .byte ++ [.other] ++ frame.map .byte)) 4 =
    [.ok [0x12, 0x34, 0x56, 0x78], .ioErr .other 0, .ok [0x12, 0x34, 0x56, 0x78],
      .ioErr .wouldBlock 0] := by
  decide +kernel

/-- the idle line in the middle of a frame does not reset the decoder: nine bytes, then nothing -/
example : ((Rdr.new .eh none ((frame.take 9).map .byte)).calls [.next, .next]).1.dec.raw = 9 := by
  decide +kernel

/-- the hypothesis of `read_wouldBlock_eh` is met by the first five bytes of a frame -/
example : bodyEh (Dec.fresh none) ((frame.take 5).map .byte) = [] := by decide +kernel

end Sml.C11

import Sml.Spec.Encoder
import Sml.Lemmas.Grammar5
/-
  Encoder soundness, part 1: type-length fields.  `encTlf extra ty len` is a complete type-length
  field denoting `(ty, len)` (`enc_sound_tlf`), whatever the number of extra continuation bytes.
  The proof goes through `parseTlf` (`Gram.encTlf_iff`: `EncTlf t e ↔ parseTlf e = .ok (t, [])`,
  itself a consequence of `C12.parseTlf_eq_spec`).
-/
namespace Sml.Enc
open Sml Sml.Spec

/-! ### bytes of a type-length field -/

theorem tlfByte_toNat (m : Bool) (t d : Nat) (ht : t < 8) :
    (tlfByte m t d).toNat = (if m then 128 else 0) + t * 16 + d % 16 := by
  have := Nat.mod_lt d (show 0 < 16 by decide)
  simp only [tlfByte, UInt8.toNat_ofNat']
  cases m <;> simp <;> omega

theorem tlfByte_more (m : Bool) (t d : Nat) (ht : t < 8) : tlfMore (tlfByte m t d) = m := by
  rw [C12.more_bridge, more, tlfByte_toNat m t d ht]
  have := Nat.mod_lt d (show 0 < 16 by decide)
  cases m <;> simp <;> omega

theorem tlfByte_nib (m : Bool) (t d : Nat) (ht : t < 8) : tlfNibble (tlfByte m t d) = d % 16 := by
  rw [C12.nib_bridge, nib, tlfByte_toNat m t d ht]
  cases m <;> simp <;> omega

theorem tlfByte_tyBits (m : Bool) (t d : Nat) (ht : t < 8) : tyBits (tlfByte m t d) = t := by
  rw [tyBits, tlfByte_toNat m t d ht]
  have := Nat.mod_lt d (show 0 < 16 by decide)
  cases m <;> simp <;> omega

theorem tlfByte_cont (m : Bool) (d : Nat) : ¬ (tlfTyBits (tlfByte m 0 d) ≠ 0) := by
  rw [C12.tyz_bridge, tlfByte_tyBits m 0 d (by decide)]
  simp

theorem tyCode_lt (ty : Ty) : tyCode ty < 8 := by cases ty <;> decide

theorem tlfByte_ofBits (m : Bool) (ty : Ty) (d : Nat) :
    Ty.ofBits (tlfTyBits (tlfByte m (tyCode ty) d)) = .ok ty := by
  rw [C12.ofBits_bridge, tlfByte_tyBits m _ d (tyCode_lt ty)]
  cases ty <;> rfl

theorem pow16_pos (n : Nat) : 0 < 16 ^ n := Nat.pow_pos (by decide)

/-- the continuation loop on the tail of a field -/
theorem tlfLoop_tail (v : Nat) (rest : Bytes) : ∀ (n acc m : Nat),
    acc * 16 ^ (n + 1) + v % 16 ^ (n + 1) ≤ u32Max →
    tlfLoop acc m (tlfTail v (n + 1) ++ rest) =
      .ok (acc * 16 ^ (n + 1) + v % 16 ^ (n + 1), m + (n + 1), rest) := by
  intro n
  induction n with
  | zero =>
    intro acc m hb
    simp only [Nat.zero_add, Nat.pow_one] at hb ⊢
    simp only [tlfTail, List.cons_append, List.nil_append, tlfLoop]
    rw [if_neg (tlfByte_cont _ _), tlfByte_nib _ _ _ (by decide), tlfByte_more _ _ _ (by decide)]
    have : v % 16 < 16 := Nat.mod_lt _ (by decide)
    simp only [Nat.pow_zero, Nat.div_one]
    rw [if_neg (by omega), if_neg (by omega)]
    simp
  | succ n ih =>
    intro acc m hb
    have hP := pow16_pos (n + 1)
    have hmod : v % 16 ^ (n + 1 + 1) = v % 16 ^ (n + 1) + 16 ^ (n + 1) * (v / 16 ^ (n + 1) % 16) :=
      Nat.mod_pow_succ
    have hpow : 16 ^ (n + 1 + 1) = 16 ^ (n + 1) * 16 := Nat.pow_succ _ _
    rw [hmod, hpow] at hb ⊢
    generalize hPd : 16 ^ (n + 1) = P at *
    have hd : v / P % 16 < 16 := Nat.mod_lt _ (by decide)
    generalize hdd : v / P % 16 = d at *
    have hkey : (acc * 16 + d) * P + v % P = acc * (P * 16) + (v % P + P * d) := by
      rw [Nat.add_mul, Nat.mul_assoc, Nat.mul_comm 16 P, Nat.mul_comm d P, Nat.add_assoc,
        Nat.add_comm (P * d)]
    have hle : acc * 16 + d ≤ (acc * 16 + d) * P := Nat.le_mul_of_pos_right _ hP
    rw [show tlfTail v (n + 1 + 1) = tlfByte (n + 1 ≠ 0) 0 (v / 16 ^ (n + 1)) :: tlfTail v (n + 1)
      from rfl, List.cons_append, tlfLoop]
    rw [if_neg (tlfByte_cont _ _), tlfByte_nib _ _ _ (by decide), tlfByte_more _ _ _ (by decide)]
    rw [hPd, hdd]
    rw [if_neg (by omega)]
    simp only
    rw [if_neg (by omega)]
    simp only [ne_eq, Nat.add_one_ne_zero, not_false_eq_true, decide_true, if_true]
    rw [ih (acc * 16 + d) (m + 1) (by omega), hkey]
    simp only [Except.ok.injEq, Prod.mk.injEq, and_true, true_and]
    omega

/-- what `parseTlf` reads from a generated field -/
theorem parseTlf_field (ty : Ty) (m v : Nat) (rest : Bytes)
    (hb : ty = .boolean → m = 0) (hv : v < 16 ^ (m + 1)) (h32 : v ≤ u32Max)
    (hs : ty ≠ .listOf → m + 1 ≤ v) :
    parseTlf (tlfField ty m v ++ rest) =
      .ok (⟨ty, if ty = .listOf then v else v - (m + 1)⟩, rest) := by
  rw [tlfField, List.cons_append, Gram.parseTlf_cons, tlfByte_ofBits]
  simp only
  rw [tlfByte_more _ _ _ (tyCode_lt ty), tlfByte_nib _ _ _ (tyCode_lt ty)]
  have hdiv : v / 16 ^ m < 16 := by
    rw [Nat.div_lt_iff_lt_mul (pow16_pos m), Nat.mul_comm, ← Nat.pow_succ]
    exact hv
  rw [Nat.mod_eq_of_lt hdiv]
  cases m with
  | zero =>
    simp only [ne_eq, not_true_eq_false, decide_false, Bool.false_eq_true, and_false, if_false,
      Nat.pow_zero, Nat.div_one, Gram.tlfFinish]
    by_cases hl : ty = .listOf
    · simp [hl, tlfTail]
    · have := hs hl
      have hn : ¬ (1 > u32Max ∨ v < 1) := by simp only [u32Max]; omega
      simp only [hl, not_false_eq_true, if_true, hn, if_false, tlfTail, List.nil_append]
  | succ n =>
    have hnb : ty ≠ .boolean := fun h => by have := hb h; omega
    have hval : v / 16 ^ (n + 1) * 16 ^ (n + 1) + v % 16 ^ (n + 1) = v := by
      rw [Nat.mul_comm]; exact Nat.div_add_mod _ _
    simp only [ne_eq, Nat.add_one_ne_zero, not_false_eq_true, decide_true, hnb, false_and,
      if_false, if_true]
    rw [tlfLoop_tail v rest n _ 1 (by rw [hval]; exact h32), hval]
    simp only [Gram.tlfFinish]
    by_cases hl : ty = .listOf
    · simp [hl]
    · have := hs hl
      have hn : ¬ (1 + (n + 1) > u32Max ∨ v < 1 + (n + 1)) := by omega
      simp only [hl, ne_eq, not_false_eq_true, if_true, hn, if_false]
      rw [Nat.add_comm 1]

/-! ### field sizes -/

theorem tlfSizeFrom_spec (self : Bool) (len : Nat) : ∀ (fuel n : Nat),
    len + (if self then n + fuel else 0) < 16 ^ (n + fuel) →
    n ≤ tlfSizeFrom self len fuel n ∧ tlfSizeFrom self len fuel n ≤ n + fuel ∧
      len + (if self then tlfSizeFrom self len fuel n else 0) <
        16 ^ tlfSizeFrom self len fuel n := by
  intro fuel
  induction fuel with
  | zero => intro n h; simpa [tlfSizeFrom] using h
  | succ fuel ih =>
    intro n h
    rw [tlfSizeFrom]
    by_cases hc : len + (if self then n else 0) < 16 ^ n
    · rw [if_pos hc]; exact ⟨Nat.le_refl _, by omega, hc⟩
    · rw [if_neg hc]
      have := ih (n + 1) (by rw [show n + 1 + fuel = n + (fuel + 1) by omega]; exact h)
      omega

theorem tlfSize_self (len : Nat) (h : len + 8 ≤ u32Max) :
    1 ≤ tlfSize true len ∧ tlfSize true len ≤ 8 ∧ len + tlfSize true len < 16 ^ tlfSize true len := by
  have := tlfSizeFrom_spec true len 7 1 (by simp only [u32Max] at h; simp; omega)
  simpa [tlfSize] using this

theorem tlfSize_list (len : Nat) (h : len ≤ u32Max) :
    1 ≤ tlfSize false len ∧ tlfSize false len ≤ 8 ∧ len < 16 ^ tlfSize false len := by
  have := tlfSizeFrom_spec false len 7 1 (by simp only [u32Max] at h; simp; omega)
  simpa [tlfSize] using this

theorem add_lt_pow16 (a n : Nat) (h : a < 16 ^ n) : ∀ k, a + k < 16 ^ (n + k) := by
  intro k
  induction k with
  | zero => exact h
  | succ k ih =>
    rw [← Nat.add_assoc, ← Nat.add_assoc, Nat.pow_succ]
    generalize 16 ^ (n + k) = Q at *
    omega

/-- `enc_sound_tlf`: the generated field is a complete type-length field denoting `(ty, len)` -/
theorem enc_sound_tlf (extra : Nat) (ty : Ty) (len : Nat) (hb : ty ≠ .boolean)
    (h : if ty = .listOf then len ≤ u32Max else len + 8 ≤ u32Max) :
    EncTlf ⟨ty, len⟩ (encTlf extra ty len) := by
  rw [Gram.encTlf_iff]
  unfold encTlf
  by_cases hl : ty = .listOf
  · rw [if_pos hl] at h ⊢
    obtain ⟨h1, _, h3⟩ := tlfSize_list len h
    have := parseTlf_field ty (tlfSize false len - 1 + extra) len [] (fun hh => absurd hh hb)
      (by
        have := add_lt_pow16 len _ h3 extra
        rw [show tlfSize false len - 1 + extra + 1 = tlfSize false len + extra by omega]
        omega) h (fun hh => absurd hl hh)
    simpa [hl] using this
  · rw [if_neg hl] at h ⊢
    obtain ⟨h1, h2, h3⟩ := tlfSize_self len h
    simp only
    generalize tlfSize true len = n at *
    generalize hk : min extra (u32Max - (len + n)) = k
    have hk' : len + n + k ≤ u32Max := by omega
    have := parseTlf_field ty (n - 1 + k) (len + n + k) [] (fun hh => absurd hh hb)
      (by
        have := add_lt_pow16 (len + n) _ h3 k
        rw [show n - 1 + k + 1 = n + k by omega]
        exact this) hk' (fun _ => by omega)
    rw [List.append_nil, if_neg hl] at this
    rw [this, show len + n + k - (n - 1 + k + 1) = len by omega]

/-- the first byte of a generated field is not the "absent" marker `01`, except for the shortest
    field of an empty octet string -/
theorem encTlf_head (extra : Nat) (ty : Ty) (len : Nat) (rest : Bytes)
    (h : ty ≠ .octetString ∨ len ≠ 0 ∨ extra ≠ 0) (hl : ty = .octetString → len + 8 ≤ u32Max) :
    (encTlf extra ty len ++ rest).head? ≠ some 0x01 := by
  have key : ∀ m v, (ty ≠ .octetString ∨ m ≠ 0 ∨ v % 16 ≠ 1) →
      (tlfField ty m v ++ rest).head? ≠ some 0x01 := by
    intro m v hh hc
    simp only [tlfField, List.cons_append, List.head?_cons, Option.some.injEq] at hc
    have h1 := congrArg UInt8.toNat hc
    rw [tlfByte_toNat _ _ _ (tyCode_lt ty)] at h1
    have : (1 : UInt8).toNat = 1 := rfl
    rw [this] at h1
    have hd := Nat.mod_lt (v / 16 ^ m) (show 0 < 16 by decide)
    by_cases hm : m = 0
    · subst hm
      simp only [Nat.pow_zero, Nat.div_one, ne_eq, not_true_eq_false, decide_false,
        Bool.false_eq_true, if_false] at h1
      rcases hh with hh | hh | hh
      · have : tyCode ty ≠ 0 := by cases ty <;> simp_all [tyCode]
        omega
      · exact hh rfl
      · omega
    · simp only [ne_eq, hm, not_false_eq_true, decide_true, if_true] at h1
      omega
  unfold encTlf
  split
  · rename_i hlo
    exact key _ _ (Or.inl (by rw [hlo]; decide))
  · simp only
    by_cases hty : ty = .octetString
    · obtain ⟨h1, h2, h3⟩ := tlfSize_self len (hl hty)
      generalize tlfSize true len = n at *
      apply key
      by_cases hm : n - 1 + min extra (u32Max - (len + n)) = 0
      · right; right
        have hn : n = 1 := by omega
        subst hn
        have he : extra = 0 := by simp only [u32Max] at hm hl ⊢; have := hl hty; omega
        have : len ≠ 0 := by
          rcases h with h | h | h
          · exact absurd hty h
          · exact h
          · exact absurd he h
        simp only [Nat.pow_one] at h3
        omega
      · right; left; exact hm
    · exact key _ _ (Or.inl hty)

end Sml.Enc

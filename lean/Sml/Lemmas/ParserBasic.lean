import Sml.Props.C12
import Sml.Model.Complete
import Sml.Model.Streaming
/-
  Shared lemmas about the SML field parsers (Model/Parser.lean, Complete.lean, Streaming.lean):

  * every parser returns a suffix of its input and consumes at least `k` bytes (`Consumes k`);
  * no parser ever reaches one of the modelled Rust panic sites.

  Uniform formulation: `Adv k p` ("`p` advances by at least `k` bytes and never panics");
  `Good p = Adv 1 p`.  The lemmas are named `adv_<parser>`.
-/
namespace Sml

/-! ### `Consumes k i r`: `r` is the suffix of `i` after at least `k` bytes -/

def Consumes (k : Nat) (i r : Bytes) : Prop := ∃ n, k ≤ n ∧ n ≤ i.length ∧ r = i.drop n

theorem Consumes.refl (i : Bytes) : Consumes 0 i i := ⟨0, Nat.le_refl _, Nat.zero_le _, rfl⟩

theorem Consumes.trans {a b : Nat} {i r r' : Bytes} (h1 : Consumes a i r) (h2 : Consumes b r r') :
    Consumes (a + b) i r' := by
  obtain ⟨n, hn1, hn2, rfl⟩ := h1
  obtain ⟨m, hm1, hm2, rfl⟩ := h2
  refine ⟨n + m, by omega, ?_, by rw [List.drop_drop]⟩
  simp only [List.length_drop] at hm2
  omega

theorem Consumes.mono {a b : Nat} {i r : Bytes} (h : Consumes a i r) (hb : b ≤ a) :
    Consumes b i r := by
  obtain ⟨n, hn1, hn2, rfl⟩ := h
  exact ⟨n, by omega, hn2, rfl⟩

theorem Consumes.length_le {k : Nat} {i r : Bytes} (h : Consumes k i r) :
    r.length + k ≤ i.length := by
  obtain ⟨n, hn1, hn2, rfl⟩ := h
  simp only [List.length_drop]
  omega

theorem Consumes.length_lt {k : Nat} {i r : Bytes} (h : Consumes (k + 1) i r) :
    r.length < i.length := by
  have := h.length_le
  omega

theorem Consumes.suffix {k : Nat} {i r : Bytes} (h : Consumes k i r) : r <:+ i := by
  obtain ⟨n, _, _, rfl⟩ := h
  exact List.drop_suffix _ _

theorem Consumes.cons {k : Nat} {b : UInt8} {i r : Bytes} (h : Consumes k i r) :
    Consumes (k + 1) (b :: i) r := by
  obtain ⟨n, hn1, hn2, rfl⟩ := h
  exact ⟨n + 1, by omega, by simp only [List.length_cons]; omega, by simp⟩

theorem Consumes.drop (i : Bytes) (n : Nat) (h : n ≤ i.length) : Consumes n i (i.drop n) :=
  ⟨n, Nat.le_refl _, h, rfl⟩

/-- the statement (i) of the task: `∃ n, 0 < n ∧ rest = input.drop n ∧ n ≤ input.length` -/
theorem Consumes.exists_pos {i r : Bytes} (h : Consumes 1 i r) :
    ∃ n, 0 < n ∧ r = i.drop n ∧ n ≤ i.length := by
  obtain ⟨n, hn1, hn2, h3⟩ := h
  exact ⟨n, by omega, h3, hn2⟩

/-! ### `Adv k p` -/

/-- `p` returns a suffix after at least `k` bytes, and never panics -/
def Adv {α : Type} (k : Nat) (p : Bytes → PRes α) : Prop :=
  (∀ i v r, p i = .ok (v, r) → Consumes k i r) ∧ (∀ i s, p i ≠ .error (.panic s))

/-- `p` consumes at least one byte, returns a suffix, never panics -/
abbrev Good {α : Type} (p : Bytes → PRes α) : Prop := Adv 1 p

theorem Adv.mono {α : Type} {a b : Nat} {p : Bytes → PRes α} (h : Adv a p) (hb : b ≤ a) :
    Adv b p :=
  ⟨fun i v r hr => (h.1 i v r hr).mono hb, h.2⟩

theorem Adv.ok {α : Type} {k : Nat} {p : Bytes → PRes α} (h : Adv k p) {i : Bytes} {v : α}
    {r : Bytes} (hr : p i = .ok (v, r)) : Consumes k i r := h.1 i v r hr

theorem Adv.no_panic {α : Type} {k : Nat} {p : Bytes → PRes α} (h : Adv k p) (i : Bytes)
    (s : String) : p i ≠ .error (.panic s) := h.2 i s

/-- unfolded form (the formulation asked for in the task statement) -/
theorem Good.iff {α : Type} (p : Bytes → PRes α) :
    Good p ↔ (∀ i v r, p i = .ok (v, r) → ∃ n, 0 < n ∧ n ≤ i.length ∧ r = i.drop n) ∧
      (∀ i s, p i ≠ .error (.panic s)) := by
  constructor
  · rintro ⟨h1, h2⟩
    refine ⟨fun i v r h => ?_, h2⟩
    obtain ⟨n, a, b, c⟩ := h1 i v r h
    exact ⟨n, by omega, b, c⟩
  · rintro ⟨h1, h2⟩
    refine ⟨fun i v r h => ?_, h2⟩
    obtain ⟨n, a, b, c⟩ := h1 i v r h
    exact ⟨n, by omega, b, c⟩

/-! ### step tactics for the record parsers (`match p input with | .error e => .error e | …`)

  Usage, with `h : (match p input with …) = .ok (v, r)` and `hc : Consumes k i input`:
  `adv_ok_step hp` splits the outermost match of `h`, closes the error branch and extends `hc`.
  With `h : (match …) = .error (.panic s)`: `adv_np_step hp` closes the error branch. -/

set_option hygiene false in
macro "adv_ok_step " hp:term : tactic =>
  `(tactic| (split at h
             · cases h
             rename_i heq__
             have hc := Consumes.trans hc (Adv.ok $hp heq__)
             clear heq__))

set_option hygiene false in
macro "adv_np_step " hp:term : tactic =>
  `(tactic| (split at h
             · rename_i heq__
               cases h
               exact Adv.no_panic $hp _ _ heq__
             skip))

/-! ### combinators -/

theorem adv_mapRes {α β : Type} {k : Nat} {p : Bytes → PRes α} (f : α → β) (hp : Adv k p) :
    Adv k (fun i => mapRes f (p i)) := by
  constructor
  · intro i v r h
    cases hpi : p i with
    | error e => simp [hpi, mapRes] at h
    | ok x =>
      obtain ⟨a, r'⟩ := x
      simp only [hpi, mapRes, Except.ok.injEq, Prod.mk.injEq] at h
      obtain ⟨_, rfl⟩ := h
      exact hp.ok hpi
  · intro i s h
    cases hpi : p i with
    | error e =>
      simp only [hpi, mapRes, Except.error.injEq] at h
      subst h
      exact hp.no_panic _ _ hpi
    | ok x => obtain ⟨a, r'⟩ := x; simp [hpi, mapRes] at h

theorem adv_parseTlf : Good parseTlf := by
  constructor
  · intro i v r h
    obtain ⟨n, h1, h2, h3⟩ := C12.tlf_rest i v r h
    exact ⟨n, h2, h1, h3⟩
  · intro i s
    exact C12.tlf_no_panic i s

theorem adv_parseViaTlf {α : Type} {check : Tlf → Bool} {withTlf : Bytes → Tlf → PRes α}
    (hw : ∀ tlf, check tlf = true → Adv 0 (fun i => withTlf i tlf)) :
    Good (parseViaTlf check withTlf) := by
  constructor
  · intro i v r h
    unfold parseViaTlf at h
    have hc := Consumes.refl i
    adv_ok_step adv_parseTlf
    split at h
    · cases h
    · rename_i hck
      simp only [Bool.not_eq_true', Bool.not_eq_false] at hck
      exact (hc.trans ((hw _ hck).ok h)).mono (by omega)
  · intro i s h
    unfold parseViaTlf at h
    adv_np_step adv_parseTlf
    split at h
    · cases h
    · rename_i hck
      simp only [Bool.not_eq_true', Bool.not_eq_false] at hck
      exact (hw _ hck).no_panic _ _ h

theorem adv_parseOpt {α : Type} {p : Bytes → PRes α} (hp : Good p) : Good (parseOpt p) := by
  constructor
  · intro i v r h
    unfold parseOpt at h
    split at h
    · simp only [Except.ok.injEq, Prod.mk.injEq] at h
      obtain ⟨_, rfl⟩ := h
      exact (Consumes.refl _).cons
    · have hc := Consumes.refl i
      adv_ok_step hp
      simp only [Except.ok.injEq, Prod.mk.injEq] at h
      obtain ⟨_, rfl⟩ := h
      exact hc.mono (by omega)
  · intro i s h
    unfold parseOpt at h
    split at h
    · cases h
    · adv_np_step hp
      cases h

/-! ### primitive parsers -/

theorem adv_takeByte : Good takeByte := by
  constructor
  · intro i v r h
    cases i with
    | nil => cases h
    | cons b rest =>
      simp only [takeByte, Except.ok.injEq, Prod.mk.injEq] at h
      obtain ⟨_, rfl⟩ := h
      exact (Consumes.refl _).cons
  · intro i s h
    cases i <;> cases h

theorem adv_takeN (n : Nat) : Adv n (fun i => takeN i n) := by
  constructor
  · intro i v r h
    simp only [takeN] at h
    split at h
    · cases h
    · simp only [Except.ok.injEq, Prod.mk.injEq] at h
      obtain ⟨_, rfl⟩ := h
      exact Consumes.drop _ _ (by omega)
  · intro i s h
    simp only [takeN] at h
    split at h <;> cases h

/-- `numCheck` guards `parseNum`: the two panic sites `num.rs:18` (`bytes[0]` of an empty slice)
    and `num.rs:31` (`SIZE - len`) are unreachable -/
theorem adv_parseNum (signed : Bool) (size : Nat) (tlf : Tlf)
    (h : numCheck signed size tlf = true) : Adv 1 (fun i => parseNum signed size i tlf) := by
  obtain ⟨_, h1, h2⟩ := (C12.numCheck_iff _ _ _).1 h
  have key : ∀ i, (∃ e, e = PErr.unexpectedEOF ∧ parseNum signed size i tlf = .error e) ∨
      (∃ v, tlf.len ≤ i.length ∧ parseNum signed size i tlf = .ok (v, i.drop tlf.len)) := by
    intro i
    by_cases hl : i.length < tlf.len
    · left
      exact ⟨_, rfl, by simp [parseNum, takeN, hl]⟩
    · right
      cases signed with
      | false =>
        refine ⟨(beNat (i.take tlf.len) : Int), by omega, ?_⟩
        rw [C12.parseNum_unsigned size i tlf h, if_neg hl]
      | true =>
        obtain ⟨b0, tl, _, hp⟩ := C12.parseNum_signed size i tlf h hl
        exact ⟨_, by omega, hp⟩
  constructor
  · intro i v r hr
    dsimp only at hr
    rcases key i with ⟨e, _, he⟩ | ⟨v', hl, hv⟩
    · rw [he] at hr; cases hr
    · rw [hv] at hr
      simp only [Except.ok.injEq, Prod.mk.injEq] at hr
      obtain ⟨_, rfl⟩ := hr
      exact (Consumes.drop _ _ hl).mono h1
  · intro i s hr
    dsimp only at hr
    rcases key i with ⟨e, he1, he⟩ | ⟨v', hl, hv⟩
    · rw [he] at hr; subst he1; cases hr
    · rw [hv] at hr; cases hr

theorem adv_parseInt (signed : Bool) (size : Nat) : Good (parseInt signed size) :=
  adv_parseViaTlf fun tlf h => (adv_parseNum signed size tlf h).mono (by omega)

theorem adv_parseBoolWith (tlf : Tlf) : Adv 1 (fun i => parseBoolWith i tlf) := by
  constructor
  · intro i v r h
    simp only [parseBoolWith] at h
    have hc := Consumes.refl i
    adv_ok_step adv_takeByte
    simp only [Except.ok.injEq, Prod.mk.injEq] at h
    obtain ⟨_, rfl⟩ := h
    exact hc.mono (by omega)
  · intro i s h
    simp only [parseBoolWith] at h
    adv_np_step adv_takeByte
    cases h

theorem adv_parseOctetWith (tlf : Tlf) : Adv 0 (fun i => parseOctetWith i tlf) :=
  (adv_takeN tlf.len).mono (Nat.zero_le _)

theorem adv_parseOctet : Good parseOctet :=
  adv_parseViaTlf fun tlf _ => adv_parseOctetWith tlf

/-! ### common.rs -/

theorem adv_parseTimeWith (tlf : Tlf) : Adv 0 (fun i => parseTimeWith i tlf) := by
  constructor
  · intro i v r h
    simp only [parseTimeWith] at h
    have hc := Consumes.refl i
    split at h
    · adv_ok_step (adv_takeN 4)
      simp only [Except.ok.injEq, Prod.mk.injEq] at h
      obtain ⟨_, rfl⟩ := h
      exact hc.mono (by omega)
    · adv_ok_step (adv_parseInt false 1)
      split at h
      · adv_ok_step (adv_parseInt false 4)
        simp only [Except.ok.injEq, Prod.mk.injEq] at h
        obtain ⟨_, rfl⟩ := h
        exact hc.mono (by omega)
      · cases h
  · intro i s h
    simp only [parseTimeWith] at h
    split at h
    · adv_np_step (adv_takeN 4)
      cases h
    · adv_np_step (adv_parseInt false 1)
      split at h
      · adv_np_step (adv_parseInt false 4)
        cases h
      · cases h

theorem adv_parseTime : Good parseTime :=
  adv_parseViaTlf fun tlf _ => adv_parseTimeWith tlf

theorem adv_parseListTypeWith (tlf : Tlf) : Adv 0 (fun i => parseListTypeWith i tlf) := by
  constructor
  · intro i v r h
    simp only [parseListTypeWith] at h
    have hc := Consumes.refl i
    adv_ok_step (adv_parseInt false 1)
    split at h
    · adv_ok_step adv_parseTime
      simp only [Except.ok.injEq, Prod.mk.injEq] at h
      obtain ⟨_, rfl⟩ := h
      exact hc.mono (by omega)
    · cases h
  · intro i s h
    simp only [parseListTypeWith] at h
    adv_np_step (adv_parseInt false 1)
    split at h
    · adv_np_step adv_parseTime
      cases h
    · cases h

theorem adv_parseValueWith (tlf : Tlf) : Adv 0 (fun i => parseValueWith i tlf) := by
  unfold parseValueWith
  split
  · exact adv_mapRes _ ((adv_parseBoolWith tlf).mono (by omega))
  split
  · exact adv_mapRes _ (adv_parseOctetWith tlf)
  iterate 8
    split
    · rename_i hck
      exact adv_mapRes _ ((adv_parseNum _ _ tlf hck).mono (by omega))
  split
  · exact adv_mapRes _ (adv_parseListTypeWith tlf)
  · exact ⟨fun i v r h => (by cases h), fun i s h => (by cases h)⟩

theorem adv_parseValue : Good parseValue :=
  adv_parseViaTlf fun tlf _ => adv_parseValueWith tlf

theorem adv_parseStatusWith (tlf : Tlf) : Adv 0 (fun i => parseStatusWith i tlf) := by
  unfold parseStatusWith
  iterate 4
    split
    · rename_i hck
      exact adv_mapRes _ ((adv_parseNum _ _ tlf hck).mono (by omega))
  exact ⟨fun i v r h => (by cases h), fun i s h => (by cases h)⟩

theorem adv_parseStatus : Good parseStatus :=
  adv_parseViaTlf fun tlf _ => adv_parseStatusWith tlf

theorem adv_parseListEntryWith (tlf : Tlf) : Adv 6 (fun i => parseListEntryWith i tlf) := by
  constructor
  · intro i v r h
    simp only [parseListEntryWith] at h
    have hc := Consumes.refl i
    adv_ok_step adv_parseOctet
    adv_ok_step (adv_parseOpt adv_parseStatus)
    adv_ok_step (adv_parseOpt adv_parseTime)
    adv_ok_step (adv_parseOpt (adv_parseInt false 1))
    adv_ok_step (adv_parseOpt (adv_parseInt true 1))
    adv_ok_step adv_parseValue
    adv_ok_step (adv_parseOpt adv_parseOctet)
    simp only [Except.ok.injEq, Prod.mk.injEq] at h
    obtain ⟨_, rfl⟩ := h
    exact hc.mono (by omega)
  · intro i s h
    simp only [parseListEntryWith] at h
    adv_np_step adv_parseOctet
    adv_np_step (adv_parseOpt adv_parseStatus)
    adv_np_step (adv_parseOpt adv_parseTime)
    adv_np_step (adv_parseOpt (adv_parseInt false 1))
    adv_np_step (adv_parseOpt (adv_parseInt true 1))
    adv_np_step adv_parseValue
    adv_np_step (adv_parseOpt adv_parseOctet)
    cases h

theorem adv_parseListEntry : Good parseListEntry :=
  adv_parseViaTlf fun tlf _ => (adv_parseListEntryWith tlf).mono (by omega)

theorem adv_parseOpenResponseWith (tlf : Tlf) : Adv 6 (fun i => parseOpenResponseWith i tlf) := by
  constructor
  · intro i v r h
    simp only [parseOpenResponseWith] at h
    have hc := Consumes.refl i
    adv_ok_step (adv_parseOpt adv_parseOctet)
    adv_ok_step (adv_parseOpt adv_parseOctet)
    adv_ok_step adv_parseOctet
    adv_ok_step adv_parseOctet
    adv_ok_step (adv_parseOpt adv_parseTime)
    adv_ok_step (adv_parseOpt (adv_parseInt false 1))
    simp only [Except.ok.injEq, Prod.mk.injEq] at h
    obtain ⟨_, rfl⟩ := h
    exact hc.mono (by omega)
  · intro i s h
    simp only [parseOpenResponseWith] at h
    adv_np_step (adv_parseOpt adv_parseOctet)
    adv_np_step (adv_parseOpt adv_parseOctet)
    adv_np_step adv_parseOctet
    adv_np_step adv_parseOctet
    adv_np_step (adv_parseOpt adv_parseTime)
    adv_np_step (adv_parseOpt (adv_parseInt false 1))
    cases h

theorem adv_parseOpenResponse : Good parseOpenResponse :=
  adv_parseViaTlf fun tlf _ => (adv_parseOpenResponseWith tlf).mono (by omega)

theorem adv_parseCloseResponseWith (tlf : Tlf) :
    Adv 1 (fun i => parseCloseResponseWith i tlf) := by
  constructor
  · intro i v r h
    simp only [parseCloseResponseWith] at h
    have hc := Consumes.refl i
    adv_ok_step (adv_parseOpt adv_parseOctet)
    simp only [Except.ok.injEq, Prod.mk.injEq] at h
    obtain ⟨_, rfl⟩ := h
    exact hc.mono (by omega)
  · intro i s h
    simp only [parseCloseResponseWith] at h
    adv_np_step (adv_parseOpt adv_parseOctet)
    cases h

theorem adv_parseCloseResponse : Good parseCloseResponse :=
  adv_parseViaTlf fun tlf _ => (adv_parseCloseResponseWith tlf).mono (by omega)

theorem adv_parseEndOfMsg : Good parseEndOfMsg := by
  constructor
  · intro i v r h
    simp only [parseEndOfMsg] at h
    have hc := Consumes.refl i
    adv_ok_step adv_takeByte
    split at h
    · cases h
    · simp only [Except.ok.injEq, Prod.mk.injEq] at h
      obtain ⟨_, rfl⟩ := h
      exact hc.mono (by omega)
  · intro i s h
    simp only [parseEndOfMsg] at h
    adv_np_step adv_takeByte
    split at h <;> cases h

theorem adv_parseMsgHeader : Adv 4 parseMsgHeader := by
  constructor
  · intro i v r h
    simp only [parseMsgHeader] at h
    have hc := Consumes.refl i
    adv_ok_step adv_parseTlf
    split at h
    · cases h
    · adv_ok_step adv_parseOctet
      adv_ok_step (adv_parseInt false 1)
      adv_ok_step (adv_parseInt false 1)
      simp only [Except.ok.injEq, Prod.mk.injEq] at h
      obtain ⟨_, rfl⟩ := h
      exact hc.mono (by omega)
  · intro i s h
    simp only [parseMsgHeader] at h
    adv_np_step adv_parseTlf
    split at h
    · cases h
    · adv_np_step adv_parseOctet
      adv_np_step (adv_parseInt false 1)
      adv_np_step (adv_parseInt false 1)
      cases h

/-- the trailer consumes at least two bytes (CRC field and end marker) -/
theorem parseMsgTrailer_ok (orig i : Bytes) (v : Unit) (r : Bytes)
    (h : parseMsgTrailer orig i = .ok (v, r)) : Consumes 2 i r := by
  simp only [parseMsgTrailer] at h
  split at h
  · cases h
  · have hc := Consumes.refl i
    adv_ok_step (adv_parseInt false 2)
    adv_ok_step adv_parseEndOfMsg
    split at h
    · cases h
    · simp only [Except.ok.injEq, Prod.mk.injEq] at h
      obtain ⟨_, rfl⟩ := h
      exact hc.mono (by omega)

/-- the subtraction `input_orig.len() - input.len()` (complete.rs:83, streaming.rs:51) cannot
    overflow when the remaining input is not longer than the message start -/
theorem parseMsgTrailer_no_panic (orig i : Bytes) (hle : i.length ≤ orig.length) (s : String) :
    parseMsgTrailer orig i ≠ .error (.panic s) := by
  intro h
  simp only [parseMsgTrailer] at h
  split at h
  · omega
  · adv_np_step (adv_parseInt false 2)
    adv_np_step adv_parseEndOfMsg
    split at h <;> cases h

/-! ### complete.rs -/

theorem adv_parseEntries (n : Nat) : Adv n (parseEntries n) := by
  induction n with
  | zero =>
    constructor
    · intro i v r h
      simp only [parseEntries, Except.ok.injEq, Prod.mk.injEq] at h
      obtain ⟨_, rfl⟩ := h
      exact Consumes.refl _
    · intro i s h
      cases h
  | succ n ih =>
    constructor
    · intro i v r h
      simp only [parseEntries] at h
      have hc := Consumes.refl i
      adv_ok_step adv_parseListEntry
      adv_ok_step ih
      simp only [Except.ok.injEq, Prod.mk.injEq] at h
      obtain ⟨_, rfl⟩ := h
      exact hc.mono (by omega)
    · intro i s h
      simp only [parseEntries] at h
      adv_np_step adv_parseListEntry
      adv_np_step ih
      cases h

theorem parseEntries_length (n : Nat) : ∀ (i : Bytes) (es : List ListEntry) (r : Bytes),
    parseEntries n i = .ok (es, r) → es.length = n := by
  induction n with
  | zero =>
    intro i es r h
    simp only [parseEntries, Except.ok.injEq, Prod.mk.injEq] at h
    rw [← h.1]; rfl
  | succ n ih =>
    intro i es r h
    simp only [parseEntries] at h
    split at h
    · cases h
    · split at h
      · cases h
      · rename_i heq
        simp only [Except.ok.injEq, Prod.mk.injEq] at h
        rw [← h.1, List.length_cons, ih _ _ _ heq]

theorem adv_parseList : Good parseList :=
  adv_parseViaTlf fun tlf _ => (adv_parseEntries tlf.len).mono (Nat.zero_le _)

theorem adv_parseGetListResponseWith (tlf : Tlf) :
    Adv 7 (fun i => parseGetListResponseWith i tlf) := by
  constructor
  · intro i v r h
    simp only [parseGetListResponseWith] at h
    have hc := Consumes.refl i
    adv_ok_step (adv_parseOpt adv_parseOctet)
    adv_ok_step adv_parseOctet
    adv_ok_step (adv_parseOpt adv_parseOctet)
    adv_ok_step (adv_parseOpt adv_parseTime)
    adv_ok_step adv_parseList
    adv_ok_step (adv_parseOpt adv_parseOctet)
    adv_ok_step (adv_parseOpt adv_parseTime)
    simp only [Except.ok.injEq, Prod.mk.injEq] at h
    obtain ⟨_, rfl⟩ := h
    exact hc.mono (by omega)
  · intro i s h
    simp only [parseGetListResponseWith] at h
    adv_np_step (adv_parseOpt adv_parseOctet)
    adv_np_step adv_parseOctet
    adv_np_step (adv_parseOpt adv_parseOctet)
    adv_np_step (adv_parseOpt adv_parseTime)
    adv_np_step adv_parseList
    adv_np_step (adv_parseOpt adv_parseOctet)
    adv_np_step (adv_parseOpt adv_parseTime)
    cases h

theorem adv_parseGetListResponse : Good parseGetListResponse :=
  adv_parseViaTlf fun tlf _ => (adv_parseGetListResponseWith tlf).mono (by omega)

theorem adv_parseMessageBodyWith (tlf : Tlf) : Adv 2 (fun i => parseMessageBodyWith i tlf) := by
  constructor
  · intro i v r h
    simp only [parseMessageBodyWith] at h
    have hc := Consumes.refl i
    adv_ok_step (adv_parseInt false 4)
    split at h
    · exact (hc.trans ((adv_mapRes _ adv_parseOpenResponse).ok h)).mono (by omega)
    split at h
    · exact (hc.trans ((adv_mapRes _ adv_parseCloseResponse).ok h)).mono (by omega)
    split at h
    · exact (hc.trans ((adv_mapRes _ adv_parseGetListResponse).ok h)).mono (by omega)
    · cases h
  · intro i s h
    simp only [parseMessageBodyWith] at h
    adv_np_step (adv_parseInt false 4)
    split at h
    · exact (adv_mapRes _ adv_parseOpenResponse).no_panic _ _ h
    split at h
    · exact (adv_mapRes _ adv_parseCloseResponse).no_panic _ _ h
    split at h
    · exact (adv_mapRes _ adv_parseGetListResponse).no_panic _ _ h
    · cases h

theorem adv_parseMessageBody : Good parseMessageBody :=
  adv_parseViaTlf fun tlf _ => (adv_parseMessageBodyWith tlf).mono (by omega)

/-- `Message::parse` consumes at least 7 bytes and never panics: the remaining input handed to
    the trailer is a suffix of the message start -/
theorem adv_parseMessage : Adv 7 parseMessage := by
  constructor
  · intro i v r h
    simp only [parseMessage] at h
    have hc := Consumes.refl i
    adv_ok_step adv_parseMsgHeader
    adv_ok_step adv_parseMessageBody
    split at h
    · cases h
    · rename_i heq
      have hc := hc.trans (parseMsgTrailer_ok _ _ _ _ heq)
      simp only [Except.ok.injEq, Prod.mk.injEq] at h
      obtain ⟨_, rfl⟩ := h
      exact hc.mono (by omega)
  · intro i s h
    simp only [parseMessage] at h
    split at h
    · rename_i heq
      cases h
      exact adv_parseMsgHeader.no_panic _ _ heq
    · rename_i heq1
      split at h
      · rename_i heq
        cases h
        exact adv_parseMessageBody.no_panic _ _ heq
      · rename_i heq2
        have hc := (adv_parseMsgHeader.ok heq1).trans (adv_parseMessageBody.ok heq2)
        split at h
        · rename_i heq
          cases h
          exact parseMsgTrailer_no_panic _ _ (by have := hc.length_le; omega) _ heq
        · cases h

/-- the fuel of `parseMessages` never runs out when it is at least the input length -/
theorem parseMessages_no_panic (fuel : Nat) : ∀ (i : Bytes), i.length ≤ fuel → ∀ s,
    parseMessages fuel i ≠ .error (.panic s) := by
  induction fuel with
  | zero =>
    intro i hi s h
    cases i with
    | nil => cases h
    | cons b i => simp at hi
  | succ fuel ih =>
    intro i hi s h
    cases i with
    | nil => cases h
    | cons b i =>
      simp only [parseMessages] at h
      split at h
      · rename_i heq
        cases h
        exact adv_parseMessage.no_panic _ _ heq
      · rename_i heq
        have hc := (adv_parseMessage.ok heq).length_le
        split at h
        · rename_i heq2
          cases h
          exact ih _ (by simp only [List.length_cons] at hc hi; omega) _ heq2
        · cases h

theorem parseFile_no_panic (x : Bytes) (s : String) : parseFile x ≠ .error (.panic s) := by
  intro h
  simp only [parseFile] at h
  split at h
  · rename_i heq
    cases h
    exact parseMessages_no_panic _ _ (Nat.le_refl _) _ heq
  · cases h

/-! ### streaming.rs -/

theorem adv_parseGlrStartWith (tlf : Tlf) : Adv 5 (fun i => parseGlrStartWith i tlf) := by
  constructor
  · intro i v r h
    simp only [parseGlrStartWith] at h
    have hc := Consumes.refl i
    adv_ok_step (adv_parseOpt adv_parseOctet)
    adv_ok_step adv_parseOctet
    adv_ok_step (adv_parseOpt adv_parseOctet)
    adv_ok_step (adv_parseOpt adv_parseTime)
    adv_ok_step adv_parseTlf
    split at h
    · cases h
    · simp only [Except.ok.injEq, Prod.mk.injEq] at h
      obtain ⟨_, rfl⟩ := h
      exact hc.mono (by omega)
  · intro i s h
    simp only [parseGlrStartWith] at h
    adv_np_step (adv_parseOpt adv_parseOctet)
    adv_np_step adv_parseOctet
    adv_np_step (adv_parseOpt adv_parseOctet)
    adv_np_step (adv_parseOpt adv_parseTime)
    adv_np_step adv_parseTlf
    split at h <;> cases h

theorem adv_parseGlrStart : Good parseGlrStart :=
  adv_parseViaTlf fun tlf _ => (adv_parseGlrStartWith tlf).mono (by omega)

theorem adv_parseGlrEnd : Adv 2 parseGlrEnd := by
  constructor
  · intro i v r h
    simp only [parseGlrEnd] at h
    have hc := Consumes.refl i
    adv_ok_step (adv_parseOpt adv_parseOctet)
    adv_ok_step (adv_parseOpt adv_parseTime)
    simp only [Except.ok.injEq, Prod.mk.injEq] at h
    obtain ⟨_, rfl⟩ := h
    exact hc.mono (by omega)
  · intro i s h
    simp only [parseGlrEnd] at h
    adv_np_step (adv_parseOpt adv_parseOctet)
    adv_np_step (adv_parseOpt adv_parseTime)
    cases h

theorem adv_parseSBodyWith (tlf : Tlf) : Adv 2 (fun i => parseSBodyWith i tlf) := by
  constructor
  · intro i v r h
    simp only [parseSBodyWith] at h
    have hc := Consumes.refl i
    adv_ok_step (adv_parseInt false 4)
    split at h
    · exact (hc.trans ((adv_mapRes _ adv_parseOpenResponse).ok h)).mono (by omega)
    split at h
    · exact (hc.trans ((adv_mapRes _ adv_parseCloseResponse).ok h)).mono (by omega)
    split at h
    · exact (hc.trans ((adv_mapRes _ adv_parseGlrStart).ok h)).mono (by omega)
    · cases h
  · intro i s h
    simp only [parseSBodyWith] at h
    adv_np_step (adv_parseInt false 4)
    split at h
    · exact (adv_mapRes _ adv_parseOpenResponse).no_panic _ _ h
    split at h
    · exact (adv_mapRes _ adv_parseCloseResponse).no_panic _ _ h
    split at h
    · exact (adv_mapRes _ adv_parseGlrStart).no_panic _ _ h
    · cases h

theorem adv_parseSBody : Good parseSBody :=
  adv_parseViaTlf fun tlf _ => (adv_parseSBodyWith tlf).mono (by omega)

theorem adv_parseMessageStart : Adv 5 parseMessageStart := by
  constructor
  · intro i v r h
    simp only [parseMessageStart] at h
    have hc := Consumes.refl i
    adv_ok_step adv_parseMsgHeader
    adv_ok_step adv_parseSBody
    simp only [Except.ok.injEq, Prod.mk.injEq] at h
    obtain ⟨_, rfl⟩ := h
    exact hc.mono (by omega)
  · intro i s h
    simp only [parseMessageStart] at h
    adv_np_step adv_parseMsgHeader
    adv_np_step adv_parseSBody
    cases h

end Sml

import Sml.Lemmas.C13
import Sml.Model.AllocGhost
/-
  Lemmas for property C06: the allocation ghost is faithful and bounded by the input length.
-/
namespace Sml

/-! ### faithfulness of the instrumented parser -/

theorem parseViaTlfG_fst {α : Type} (check : Tlf → Bool)
    (wG : Bytes → Tlf → PRes α × List Nat) (w : Bytes → Tlf → PRes α)
    (h : ∀ i tlf, (wG i tlf).1 = w i tlf) (i : Bytes) :
    (parseViaTlfG check wG i).1 = parseViaTlf check w i := by
  unfold parseViaTlfG parseViaTlf
  cases parseTlf i with
  | error e => rfl
  | ok v =>
    obtain ⟨tlf, rest⟩ := v
    simp only
    split
    · rfl
    · exact h _ _

theorem parseListG_fst (i : Bytes) : (parseListG i).1 = parseList i :=
  parseViaTlfG_fst _ _ _ (fun _ _ => rfl) i

theorem parseGetListResponseWithG_fst (i : Bytes) (tlf : Tlf) :
    (parseGetListResponseWithG i tlf).1 = parseGetListResponseWith i tlf := by
  unfold parseGetListResponseWithG parseGetListResponseWith
  cases parseOpt parseOctet i with
  | error e => rfl
  | ok v =>
  obtain ⟨a1, i1⟩ := v
  simp only
  cases parseOctet i1 with
  | error e => rfl
  | ok v =>
  obtain ⟨a2, i2⟩ := v
  simp only
  cases parseOpt parseOctet i2 with
  | error e => rfl
  | ok v =>
  obtain ⟨a3, i3⟩ := v
  simp only
  cases parseOpt parseTime i3 with
  | error e => rfl
  | ok v =>
  obtain ⟨a4, i4⟩ := v
  simp only
  rw [← parseListG_fst]
  cases parseListG i4 with
  | mk res caps =>
  cases res with
  | error e => rfl
  | ok v =>
  obtain ⟨a5, i5⟩ := v
  simp only
  cases parseOpt parseOctet i5 with
  | error e => rfl
  | ok v =>
  obtain ⟨a6, i6⟩ := v
  simp only
  cases parseOpt parseTime i6 with
  | error e => rfl
  | ok v =>
  obtain ⟨a7, i7⟩ := v
  rfl

theorem parseGetListResponseG_fst (i : Bytes) :
    (parseGetListResponseG i).1 = parseGetListResponse i :=
  parseViaTlfG_fst _ _ _ parseGetListResponseWithG_fst i

theorem parseMessageBodyWithG_fst (i : Bytes) (tlf : Tlf) :
    (parseMessageBodyWithG i tlf).1 = parseMessageBodyWith i tlf := by
  unfold parseMessageBodyWithG parseMessageBodyWith
  cases parseInt false 4 i with
  | error e => rfl
  | ok v =>
  obtain ⟨tag, i1⟩ := v
  simp only
  split
  · rfl
  split
  · rfl
  split
  · simp only [parseGetListResponseG_fst]
  · rfl

theorem parseMessageBodyG_fst (i : Bytes) : (parseMessageBodyG i).1 = parseMessageBody i :=
  parseViaTlfG_fst _ _ _ parseMessageBodyWithG_fst i

theorem parseMessageG_fst (i : Bytes) : (parseMessageG i).1 = parseMessage i := by
  unfold parseMessageG parseMessage
  simp only
  cases parseMsgHeader i with
  | error e => rfl
  | ok v =>
  obtain ⟨⟨tid, g, a⟩, i1⟩ := v
  simp only
  rw [← parseMessageBodyG_fst]
  cases parseMessageBodyG i1 with
  | mk res caps =>
  cases res with
  | error e => rfl
  | ok v =>
  obtain ⟨body, i2⟩ := v
  simp only
  cases parseMsgTrailer i i2 with
  | error e => rfl
  | ok v =>
  obtain ⟨u, i3⟩ := v
  rfl

theorem parseMessagesG_fst (fuel : Nat) : ∀ (i : Bytes),
    (parseMessagesG fuel i).1 = parseMessages fuel i := by
  induction fuel with
  | zero =>
    intro i
    cases i <;> rfl
  | succ fuel ih =>
    intro i
    cases i with
    | nil => rfl
    | cons b i =>
      simp only [parseMessagesG, parseMessages]
      rw [← parseMessageG_fst]
      cases parseMessageG (b :: i) with
      | mk res caps =>
      cases res with
      | error e => rfl
      | ok v =>
        obtain ⟨m, rest⟩ := v
        simp only [ih]
        cases parseMessages fuel rest <;> rfl

theorem parseFileG_fst (x : Bytes) : (parseFileG x).1 = parseFile x := by
  simp only [parseFileG, parseFile, parseMessagesG_fst]
  cases parseMessages x.length x <;> rfl

/-! ### the bound -/

/-- length of the remaining input of a result (0 for an error) -/
def remaining {α : Type} : PRes α → Nat
  | .ok (_, r) => r.length
  | .error _ => 0

/-- ghost bound: requested capacities plus the remaining input never exceed the input -/
def GB {α : Type} (i : Bytes) (res : PRes α × List Nat) : Prop :=
  res.2.sum + remaining res.1 ≤ i.length

theorem remaining_mapRes {α β : Type} (f : α → β) (x : PRes α) :
    remaining (mapRes f x) = remaining x := by
  cases x with
  | error e => rfl
  | ok v => obtain ⟨a, r⟩ := v; rfl

theorem remaining_le {α : Type} {p : Bytes → PRes α} (hp : Adv 0 p) (i : Bytes) :
    remaining (p i) ≤ i.length := by
  cases h : p i with
  | error e => simp [remaining]
  | ok v =>
    obtain ⟨a, r⟩ := v
    have := (hp.ok h).length_le
    simpa [remaining] using this

theorem parseViaTlfG_GB {α : Type} (check : Tlf → Bool)
    (wG : Bytes → Tlf → PRes α × List Nat) (h : ∀ i tlf, GB i (wG i tlf)) (i : Bytes) :
    GB i (parseViaTlfG check wG i) := by
  unfold parseViaTlfG
  cases ht : parseTlf i with
  | error e => simp [GB, remaining]
  | ok v =>
    obtain ⟨tlf, rest⟩ := v
    simp only
    split
    · simp [GB, remaining]
    · have h1 := h rest tlf
      have h2 := (adv_parseTlf.ok ht).length_le
      simp only [GB] at h1 ⊢
      omega

/-- the request is at most the remaining input; when the loop succeeds it equals the number of
    entries, each of which consumed at least one byte -/
theorem parseListWithG_GB (i : Bytes) (tlf : Tlf) : GB i (parseListWithG i tlf) := by
  simp only [GB, parseListWithG, listCapRequest, List.sum_cons, List.sum_nil, Nat.add_zero]
  cases he : parseEntries tlf.len i with
  | error e => simp only [remaining]; omega
  | ok v =>
    obtain ⟨es, r⟩ := v
    have := ((adv_parseEntries tlf.len).ok he).length_le
    simp only [remaining]
    omega

theorem parseListG_GB (i : Bytes) : GB i (parseListG i) :=
  parseViaTlfG_GB _ _ parseListWithG_GB i

theorem parseGetListResponseWithG_GB (i : Bytes) (tlf : Tlf) :
    GB i (parseGetListResponseWithG i tlf) := by
  unfold parseGetListResponseWithG
  cases h1 : parseOpt parseOctet i with
  | error e => simp [GB, remaining]
  | ok v =>
  obtain ⟨a1, i1⟩ := v
  have l1 := ((adv_parseOpt adv_parseOctet).ok h1).length_le
  simp only
  cases h2 : parseOctet i1 with
  | error e => simp [GB, remaining]
  | ok v =>
  obtain ⟨a2, i2⟩ := v
  have l2 := (adv_parseOctet.ok h2).length_le
  simp only
  cases h3 : parseOpt parseOctet i2 with
  | error e => simp [GB, remaining]
  | ok v =>
  obtain ⟨a3, i3⟩ := v
  have l3 := ((adv_parseOpt adv_parseOctet).ok h3).length_le
  simp only
  cases h4 : parseOpt parseTime i3 with
  | error e => simp [GB, remaining]
  | ok v =>
  obtain ⟨a4, i4⟩ := v
  have l4 := ((adv_parseOpt adv_parseTime).ok h4).length_le
  simp only
  have hL := parseListG_GB i4
  cases h5 : parseListG i4 with
  | mk res caps =>
  rw [h5] at hL
  cases res with
  | error e => simp only [GB, remaining] at hL ⊢; omega
  | ok v =>
  obtain ⟨a5, i5⟩ := v
  simp only [GB, remaining] at hL
  simp only
  cases h6 : parseOpt parseOctet i5 with
  | error e => simp only [GB, remaining]; omega
  | ok v =>
  obtain ⟨a6, i6⟩ := v
  have l6 := ((adv_parseOpt adv_parseOctet).ok h6).length_le
  simp only
  cases h7 : parseOpt parseTime i6 with
  | error e => simp only [GB, remaining]; omega
  | ok v =>
  obtain ⟨a7, i7⟩ := v
  have l7 := ((adv_parseOpt adv_parseTime).ok h7).length_le
  simp only [GB, remaining]
  omega

theorem parseGetListResponseG_GB (i : Bytes) : GB i (parseGetListResponseG i) :=
  parseViaTlfG_GB _ _ parseGetListResponseWithG_GB i

theorem parseMessageBodyWithG_GB (i : Bytes) (tlf : Tlf) :
    GB i (parseMessageBodyWithG i tlf) := by
  unfold parseMessageBodyWithG
  cases h1 : parseInt false 4 i with
  | error e => simp [GB, remaining]
  | ok v =>
  obtain ⟨tag, i1⟩ := v
  have l1 := ((adv_parseInt false 4).ok h1).length_le
  simp only
  split
  · have := remaining_le (adv_parseOpenResponse.mono (Nat.zero_le _)) i1
    simp only [GB, remaining_mapRes, List.sum_nil]
    omega
  split
  · have := remaining_le (adv_parseCloseResponse.mono (Nat.zero_le _)) i1
    simp only [GB, remaining_mapRes, List.sum_nil]
    omega
  split
  · have := parseGetListResponseG_GB i1
    simp only [GB, remaining_mapRes] at this ⊢
    omega
  · simp [GB, remaining]

theorem parseMessageBodyG_GB (i : Bytes) : GB i (parseMessageBodyG i) :=
  parseViaTlfG_GB _ _ parseMessageBodyWithG_GB i

theorem parseMessageG_GB (i : Bytes) : GB i (parseMessageG i) := by
  unfold parseMessageG
  simp only
  cases h1 : parseMsgHeader i with
  | error e => simp [GB, remaining]
  | ok v =>
  obtain ⟨⟨tid, g, a⟩, i1⟩ := v
  have l1 := (adv_parseMsgHeader.ok h1).length_le
  simp only
  have hB := parseMessageBodyG_GB i1
  cases h2 : parseMessageBodyG i1 with
  | mk res caps =>
  rw [h2] at hB
  cases res with
  | error e => simp only [GB, remaining] at hB ⊢; omega
  | ok v =>
  obtain ⟨body, i2⟩ := v
  simp only [GB, remaining] at hB
  simp only
  cases h3 : parseMsgTrailer i i2 with
  | error e => simp only [GB, remaining]; omega
  | ok v =>
  obtain ⟨u, i3⟩ := v
  have l3 := (parseMsgTrailer_ok _ _ _ _ h3).length_le
  simp only [GB, remaining]
  omega

/-- requests are bounded by the input; every pushed message consumed at least 7 bytes -/
theorem parseMessagesG_bound (fuel : Nat) : ∀ (i : Bytes),
    (parseMessagesG fuel i).2.caps.sum ≤ i.length ∧
    7 * (parseMessagesG fuel i).2.pushes ≤ i.length := by
  induction fuel with
  | zero =>
    intro i
    cases i <;> simp [parseMessagesG]
  | succ fuel ih =>
    intro i
    cases i with
    | nil => simp [parseMessagesG]
    | cons b i =>
      simp only [parseMessagesG]
      have hG := parseMessageG_GB (b :: i)
      have hF := parseMessageG_fst (b :: i)
      cases hm : parseMessageG (b :: i) with
      | mk res caps =>
      rw [hm] at hG hF
      cases res with
      | error e =>
        simp only [GB, remaining] at hG
        simp only
        omega
      | ok v =>
        obtain ⟨m, rest⟩ := v
        simp only [GB, remaining] at hG
        simp only at hF
        have l := (adv_parseMessage.ok hF.symm).length_le
        obtain ⟨ih1, ih2⟩ := ih rest
        simp only [List.sum_append]
        omega

theorem mem_le_sum (l : List Nat) : ∀ r ∈ l, r ≤ l.sum := by
  induction l with
  | nil => intro r hr; cases hr
  | cons a l ih =>
    intro r hr
    simp only [List.mem_cons] at hr
    simp only [List.sum_cons]
    rcases hr with rfl | hr
    · omega
    · have := ih r hr; omega

/-! ### counting events of the streaming parser -/

open SParser in
theorem filter_map_some_le (f : Option SItem → Bool)
    (hf : ∀ a, f (some a) = true → SItem.isEv a = true) (l : List SItem) :
    ((l.map some).filter f).length ≤ (l.filter SItem.isEv).length := by
  induction l with
  | nil => simp
  | cons a l ih =>
    simp only [List.map_cons, List.filter_cons]
    by_cases h : f (some a) = true
    · simp only [h, hf a h, if_true, List.length_cons]; omega
    · by_cases h2 : SItem.isEv a = true
      · simp only [h, h2, if_true, Bool.false_eq_true, if_false, List.length_cons]; omega
      · simp only [h, h2, Bool.false_eq_true, if_false]; exact ih

end Sml

import Sml.Lemmas.Grammar2
/-
  Grammar ↔ parser correspondence, part 3: SML_ListEntry, SML_PublicOpen.Res, SML_PublicClose.Res,
  SML_List, SML_GetList.Res, SML_MessageBody.
-/
namespace Sml.Gram
open Sml Sml.Spec

theorem u8 : (1 : Nat) ∈ [1, 2, 4, 8] := by simp
theorem u16 : (2 : Nat) ∈ [1, 2, 4, 8] := by simp
theorem u32 : (4 : Nat) ∈ [1, 2, 4, 8] := by simp

theorem p_optOctet : Parses (parseOpt parseOctet) (EncOpt EncOctet) :=
  parses_opt parses_octet adv_parseOctet
theorem p_optTime : Parses (parseOpt parseTime) (EncOpt EncTime) :=
  parses_opt parses_time adv_parseTime
theorem p_optStatus : Parses (parseOpt parseStatus) (EncOpt EncStatus) :=
  parses_opt parses_status adv_parseStatus
theorem p_optU8 : Parses (parseOpt (parseInt false 1)) (EncOpt (EncUnsigned 1)) :=
  parses_opt (parses_unsigned 1 u8) (adv_parseInt false 1)
theorem p_optI8 : Parses (parseOpt (parseInt true 1)) (EncOpt (EncSigned 1)) :=
  parses_opt (parses_signed 1 u8) (adv_parseInt true 1)

/-- list TLF with a fixed element count, then a body that does not depend on the TLF -/
theorem parses_struct {α : Type} {n : Nat} {withTlf : Bytes → Tlf → PRes α}
    {B E : α → Bytes → Prop}
    (hB : ∀ t, Parses (fun i => withTlf i t) B)
    (hE : ∀ v bs, E v bs ↔ ∃ tl body, bs = tl ++ body ∧ EncTlf ⟨.listOf, n⟩ tl ∧ B v body) :
    Parses (parseViaTlf (listCheck n) withTlf) E := by
  refine parses_viaTlf (B := fun _ => B) (fun t _ => hB t) ?_ ?_
  · intro v bs h
    obtain ⟨tl, body, rfl, ht, hb⟩ := (hE v bs).1 h
    exact ⟨_, tl, body, rfl, ht, by simp [listCheck], hb⟩
  · rintro v ⟨ty, len⟩ tl body ht hc hb
    simp only [listCheck, Bool.and_eq_true, decide_eq_true_eq] at hc
    obtain ⟨rfl, rfl⟩ := hc
    exact (hE v _).2 ⟨tl, body, rfl, ht, hb⟩

/-! ### SML_ListEntry -/

def ListEntryBody (x : ListEntry) (body : Bytes) : Prop :=
  ∃ b1 b2 b3 b4 b5 b6 b7, body = b1 ++ b2 ++ b3 ++ b4 ++ b5 ++ b6 ++ b7 ∧
    EncOctet x.objName b1 ∧
    EncOpt EncStatus x.status b2 ∧
    EncOpt EncTime x.valTime b3 ∧
    EncOpt (EncUnsigned 1) x.unit b4 ∧
    EncOpt (EncSigned 1) x.scaler b5 ∧
    EncValue x.value b6 ∧
    EncOpt EncOctet x.valueSignature b7

theorem parses_listEntryWith (t : Tlf) :
    Parses (fun i => parseListEntryWith i t) ListEntryBody := by
  constructor
  · rintro x e rest ⟨b1, b2, b3, b4, b5, b6, b7, rfl, h1, h2, h3, h4, h5, h6, h7⟩
    have c1 := fun rest => parses_octet.complete _ _ rest h1
    have c2 := fun rest => p_optStatus.complete _ _ rest h2
    have c3 := fun rest => p_optTime.complete _ _ rest h3
    have c4 := fun rest => p_optU8.complete _ _ rest h4
    have c5 := fun rest => p_optI8.complete _ _ rest h5
    have c6 := fun rest => parses_value.complete _ _ rest h6
    have c7 := fun rest => p_optOctet.complete _ _ rest h7
    simp only [parseListEntryWith, List.append_assoc, c1, c2, c3, c4, c5, c6, c7]
  · intro i v r h
    simp only [parseListEntryWith] at h
    snd_step parses_octet with b1 h1
    snd_step p_optStatus with b2 h2
    snd_step p_optTime with b3 h3
    snd_step p_optU8 with b4 h4
    snd_step p_optI8 with b5 h5
    snd_step parses_value with b6 h6
    snd_step p_optOctet with b7 h7
    simp only [Except.ok.injEq, Prod.mk.injEq] at h
    obtain ⟨rfl, rfl⟩ := h
    exact ⟨b1 ++ b2 ++ b3 ++ b4 ++ b5 ++ b6 ++ b7, by simp,
      b1, b2, b3, b4, b5, b6, b7, rfl, h1, h2, h3, h4, h5, h6, h7⟩

theorem parses_listEntry : Parses parseListEntry EncListEntry := by
  unfold parseListEntry
  refine parses_struct parses_listEntryWith fun x bs => ?_
  constructor
  · rintro ⟨tl, b1, b2, b3, b4, b5, b6, b7, rfl, ht, h⟩
    exact ⟨tl, b1 ++ b2 ++ b3 ++ b4 ++ b5 ++ b6 ++ b7, by simp, ht,
      b1, b2, b3, b4, b5, b6, b7, rfl, h⟩
  · rintro ⟨tl, body, rfl, ht, b1, b2, b3, b4, b5, b6, b7, rfl, h⟩
    exact ⟨tl, b1, b2, b3, b4, b5, b6, b7, by simp, ht, h⟩

/-! ### SML_PublicOpen.Res -/

def OpenResponseBody (x : OpenResponse) (body : Bytes) : Prop :=
  ∃ b1 b2 b3 b4 b5 b6, body = b1 ++ b2 ++ b3 ++ b4 ++ b5 ++ b6 ∧
    EncOpt EncOctet x.codepage b1 ∧
    EncOpt EncOctet x.clientId b2 ∧
    EncOctet x.reqFileId b3 ∧
    EncOctet x.serverId b4 ∧
    EncOpt EncTime x.refTime b5 ∧
    EncOpt (EncUnsigned 1) x.smlVersion b6

theorem parses_openResponseWith (t : Tlf) :
    Parses (fun i => parseOpenResponseWith i t) OpenResponseBody := by
  constructor
  · rintro x e rest ⟨b1, b2, b3, b4, b5, b6, rfl, h1, h2, h3, h4, h5, h6⟩
    have c1 := fun rest => p_optOctet.complete _ _ rest h1
    have c2 := fun rest => p_optOctet.complete _ _ rest h2
    have c3 := fun rest => parses_octet.complete _ _ rest h3
    have c4 := fun rest => parses_octet.complete _ _ rest h4
    have c5 := fun rest => p_optTime.complete _ _ rest h5
    have c6 := fun rest => p_optU8.complete _ _ rest h6
    simp only [parseOpenResponseWith, List.append_assoc, c1, c2, c3, c4, c5, c6]
  · intro i v r h
    simp only [parseOpenResponseWith] at h
    snd_step p_optOctet with b1 h1
    snd_step p_optOctet with b2 h2
    snd_step parses_octet with b3 h3
    snd_step parses_octet with b4 h4
    snd_step p_optTime with b5 h5
    snd_step p_optU8 with b6 h6
    simp only [Except.ok.injEq, Prod.mk.injEq] at h
    obtain ⟨rfl, rfl⟩ := h
    exact ⟨b1 ++ b2 ++ b3 ++ b4 ++ b5 ++ b6, by simp,
      b1, b2, b3, b4, b5, b6, rfl, h1, h2, h3, h4, h5, h6⟩

theorem parses_openResponse : Parses parseOpenResponse EncOpenResponse := by
  unfold parseOpenResponse
  refine parses_struct parses_openResponseWith fun x bs => ?_
  constructor
  · rintro ⟨tl, b1, b2, b3, b4, b5, b6, rfl, ht, h⟩
    exact ⟨tl, b1 ++ b2 ++ b3 ++ b4 ++ b5 ++ b6, by simp, ht, b1, b2, b3, b4, b5, b6, rfl, h⟩
  · rintro ⟨tl, body, rfl, ht, b1, b2, b3, b4, b5, b6, rfl, h⟩
    exact ⟨tl, b1, b2, b3, b4, b5, b6, by simp, ht, h⟩

/-! ### SML_PublicClose.Res -/

theorem parses_closeResponseWith (t : Tlf) :
    Parses (fun i => parseCloseResponseWith i t)
      (fun x body => EncOpt EncOctet x.globalSignature body) := by
  constructor
  · intro x e rest h1
    have c1 := fun rest => p_optOctet.complete _ _ rest h1
    simp only [parseCloseResponseWith, c1]
  · intro i v r h
    simp only [parseCloseResponseWith] at h
    snd_step p_optOctet with b1 h1
    simp only [Except.ok.injEq, Prod.mk.injEq] at h
    obtain ⟨rfl, rfl⟩ := h
    exact ⟨b1, rfl, h1⟩

theorem parses_closeResponse : Parses parseCloseResponse EncCloseResponse := by
  unfold parseCloseResponse
  exact parses_struct parses_closeResponseWith fun x bs => Iff.rfl

/-! ### SML_List -/

theorem parses_entries (n : Nat) :
    Parses (parseEntries n) (fun xs body => xs.length = n ∧ EncSeq EncListEntry xs body) := by
  induction n with
  | zero =>
    constructor
    · rintro xs e rest ⟨hl, hs⟩
      cases hs with
      | nil => rfl
      | cons _ _ => simp at hl
    · intro i v r h
      simp only [parseEntries, Except.ok.injEq, Prod.mk.injEq] at h
      obtain ⟨rfl, rfl⟩ := h
      exact ⟨[], rfl, rfl, .nil⟩
  | succ n ih =>
    constructor
    · rintro xs e rest ⟨hl, hs⟩
      cases hs with
      | nil => simp at hl
      | cons hx hxs =>
        rename_i x xs e es
        simp only [List.length_cons, Nat.add_right_cancel_iff] at hl
        have c1 := fun rest => parses_listEntry.complete _ _ rest hx
        have c2 := fun rest => ih.complete _ _ rest ⟨hl, hxs⟩
        simp only [parseEntries, List.append_assoc, c1, c2]
    · intro i v r h
      simp only [parseEntries] at h
      snd_step parses_listEntry with e hx
      snd_step ih with es hxs
      simp only [Except.ok.injEq, Prod.mk.injEq] at h
      obtain ⟨rfl, rfl⟩ := h
      exact ⟨e ++ es, by simp, by simp [hxs.1], .cons hx hxs.2⟩

theorem parses_list : Parses parseList EncValList := by
  unfold parseList
  refine parses_viaTlf (B := fun t xs body => xs.length = t.len ∧ EncSeq EncListEntry xs body)
    (fun t _ => parses_entries t.len) ?_ ?_
  · rintro xs bs ⟨tl, body, rfl, ht, hs⟩
    exact ⟨_, tl, body, rfl, ht, by simp, rfl, hs⟩
  · rintro xs ⟨ty, len⟩ tl body ht hc ⟨hl, hs⟩
    simp only [decide_eq_true_eq] at hc hl
    subst hc hl
    exact ⟨tl, body, rfl, ht, hs⟩

/-! ### SML_GetList.Res -/

def GetListResponseBody (x : GetListResponse) (body : Bytes) : Prop :=
  ∃ b1 b2 b3 b4 b5 b6 b7, body = b1 ++ b2 ++ b3 ++ b4 ++ b5 ++ b6 ++ b7 ∧
    EncOpt EncOctet x.clientId b1 ∧
    EncOctet x.serverId b2 ∧
    EncOpt EncOctet x.listName b3 ∧
    EncOpt EncTime x.actSensorTime b4 ∧
    EncValList x.valList b5 ∧
    EncOpt EncOctet x.listSignature b6 ∧
    EncOpt EncTime x.actGatewayTime b7

theorem parses_getListResponseWith (t : Tlf) :
    Parses (fun i => parseGetListResponseWith i t) GetListResponseBody := by
  constructor
  · rintro x e rest ⟨b1, b2, b3, b4, b5, b6, b7, rfl, h1, h2, h3, h4, h5, h6, h7⟩
    have c1 := fun rest => p_optOctet.complete _ _ rest h1
    have c2 := fun rest => parses_octet.complete _ _ rest h2
    have c3 := fun rest => p_optOctet.complete _ _ rest h3
    have c4 := fun rest => p_optTime.complete _ _ rest h4
    have c5 := fun rest => parses_list.complete _ _ rest h5
    have c6 := fun rest => p_optOctet.complete _ _ rest h6
    have c7 := fun rest => p_optTime.complete _ _ rest h7
    simp only [parseGetListResponseWith, List.append_assoc, c1, c2, c3, c4, c5, c6, c7]
  · intro i v r h
    simp only [parseGetListResponseWith] at h
    snd_step p_optOctet with b1 h1
    snd_step parses_octet with b2 h2
    snd_step p_optOctet with b3 h3
    snd_step p_optTime with b4 h4
    snd_step parses_list with b5 h5
    snd_step p_optOctet with b6 h6
    snd_step p_optTime with b7 h7
    simp only [Except.ok.injEq, Prod.mk.injEq] at h
    obtain ⟨rfl, rfl⟩ := h
    exact ⟨b1 ++ b2 ++ b3 ++ b4 ++ b5 ++ b6 ++ b7, by simp,
      b1, b2, b3, b4, b5, b6, b7, rfl, h1, h2, h3, h4, h5, h6, h7⟩

theorem parses_getListResponse : Parses parseGetListResponse EncGetListResponse := by
  unfold parseGetListResponse
  refine parses_struct parses_getListResponseWith fun x bs => ?_
  constructor
  · rintro ⟨tl, b1, b2, b3, b4, b5, b6, b7, rfl, ht, h⟩
    exact ⟨tl, b1 ++ b2 ++ b3 ++ b4 ++ b5 ++ b6 ++ b7, by simp, ht,
      b1, b2, b3, b4, b5, b6, b7, rfl, h⟩
  · rintro ⟨tl, body, rfl, ht, b1, b2, b3, b4, b5, b6, b7, rfl, h⟩
    exact ⟨tl, b1, b2, b3, b4, b5, b6, b7, by simp, ht, h⟩

/-! ### SML_MessageBody -/

def MessageBodyBody (x : MessageBody) (body : Bytes) : Prop :=
  match x with
  | .openResponse y => ∃ tag b, body = tag ++ b ∧ EncUnsigned 4 0x0101 tag ∧ EncOpenResponse y b
  | .closeResponse y => ∃ tag b, body = tag ++ b ∧ EncUnsigned 4 0x0201 tag ∧ EncCloseResponse y b
  | .getListResponse y =>
    ∃ tag b, body = tag ++ b ∧ EncUnsigned 4 0x0701 tag ∧ EncGetListResponse y b

theorem parses_messageBodyWith (t : Tlf) :
    Parses (fun i => parseMessageBodyWith i t) MessageBodyBody := by
  constructor
  · intro x e rest h
    cases x with
    | openResponse y =>
      obtain ⟨tag, b, rfl, h1, h2⟩ := h
      have c1 := fun rest => (parses_unsigned 4 u32).complete _ _ rest h1
      have c2 := fun rest => parses_openResponse.complete _ _ rest h2
      simp only [parseMessageBodyWith, List.append_assoc, c1, c2, if_true, mapRes]
    | closeResponse y =>
      obtain ⟨tag, b, rfl, h1, h2⟩ := h
      have c1 := fun rest => (parses_unsigned 4 u32).complete _ _ rest h1
      have c2 := fun rest => parses_closeResponse.complete _ _ rest h2
      simp only [parseMessageBodyWith, List.append_assoc, c1, c2, mapRes]
      rfl
    | getListResponse y =>
      obtain ⟨tag, b, rfl, h1, h2⟩ := h
      have c1 := fun rest => (parses_unsigned 4 u32).complete _ _ rest h1
      have c2 := fun rest => parses_getListResponse.complete _ _ rest h2
      simp only [parseMessageBodyWith, List.append_assoc, c1, c2, mapRes]
      rfl
  · intro i v r h
    simp only [parseMessageBodyWith] at h
    snd_step (parses_unsigned 4 u32) with tag h1
    split at h
    · rename_i htag
      subst htag
      obtain ⟨b, rfl, y, rfl, h2⟩ := (parses_mapRes _ parses_openResponse).sound _ _ _ h
      exact ⟨tag ++ b, by simp, tag, b, rfl, h1, h2⟩
    split at h
    · rename_i htag
      subst htag
      obtain ⟨b, rfl, y, rfl, h2⟩ := (parses_mapRes _ parses_closeResponse).sound _ _ _ h
      exact ⟨tag ++ b, by simp, tag, b, rfl, h1, h2⟩
    split at h
    · rename_i htag
      subst htag
      obtain ⟨b, rfl, y, rfl, h2⟩ := (parses_mapRes _ parses_getListResponse).sound _ _ _ h
      exact ⟨tag ++ b, by simp, tag, b, rfl, h1, h2⟩
    · cases h

theorem parses_messageBody : Parses parseMessageBody EncMessageBody := by
  unfold parseMessageBody
  refine parses_struct parses_messageBodyWith fun x bs => ?_
  cases x with
  | openResponse y =>
    constructor
    · rintro ⟨tl, tag, b, rfl, ht, h⟩
      exact ⟨tl, tag ++ b, by simp, ht, tag, b, rfl, h⟩
    · rintro ⟨tl, body, rfl, ht, tag, b, rfl, h⟩
      exact ⟨tl, tag, b, by simp, ht, h⟩
  | closeResponse y =>
    constructor
    · rintro ⟨tl, tag, b, rfl, ht, h⟩
      exact ⟨tl, tag ++ b, by simp, ht, tag, b, rfl, h⟩
    · rintro ⟨tl, body, rfl, ht, tag, b, rfl, h⟩
      exact ⟨tl, tag, b, by simp, ht, h⟩
  | getListResponse y =>
    constructor
    · rintro ⟨tl, tag, b, rfl, ht, h⟩
      exact ⟨tl, tag ++ b, by simp, ht, tag, b, rfl, h⟩
    · rintro ⟨tl, body, rfl, ht, tag, b, rfl, h⟩
      exact ⟨tl, tag, b, by simp, ht, h⟩

end Sml.Gram

import Sml.Lemmas.Grammar1
/-
  Grammar ↔ parser correspondence, part 2: booleans, SML_Time (incl. the vendor workaround),
  SML_ListType, SML_Value, SML_Status.
-/
namespace Sml.Gram
open Sml Sml.Spec

/-! ### step tactics for the record parsers

  `h : (match p input with | .error e => .error e | .ok (a, input) => …) = .ok (v, r)`:
  `snd_step hp with e he` splits the outermost match, closes the error branch, and replaces the
  input of `p` by `e ++ (remaining input)` with `he : E a e`. -/

set_option hygiene false in
macro "snd_step " hp:term " with " e:ident he:ident : tactic =>
  `(tactic| (split at h
             · cases h
             rename_i heq__
             obtain ⟨$e:ident, rfl, $he:ident⟩ := Parses.sound $hp _ _ _ heq__
             clear heq__))

/-! ### width classes -/

theorem widthClass_iff (w size : Nat) (hw : w ≤ 8) :
    WidthClass w size ↔ size = C12.narrow w := by
  unfold WidthClass widths C12.narrow
  simp only [List.mem_cons, List.not_mem_nil, or_false, forall_eq_or_imp, forall_eq]
  constructor
  · rintro ⟨h1, h2, h3, h4, h5, h6⟩
    repeat' split
    all_goals omega
  · intro h
    subst h
    repeat' split
    all_goals omega

/-! ### SML_Time -/

/-- what follows the type-length field `t` of an `SML_Time` -/
def TimeBody (t : Tlf) (v : Time) (body : Bytes) : Prop :=
  if t.ty = .unsigned ∧ t.len = 4 then body.length = 4 ∧ v = .secIndex (beNat body : Int)
  else ∃ tag val x, body = tag ++ val ∧ EncUnsigned 1 1 tag ∧ EncUnsigned 4 x val ∧
    v = .secIndex x

theorem parses_timeWith (t : Tlf) : Parses (fun i => parseTimeWith i t) (TimeBody t) := by
  by_cases hc : t.ty = .unsigned ∧ t.len = 4
  · have hq : ∀ i, parseTimeWith i t = if i.length < 4 then .error .unexpectedEOF
        else .ok (Time.secIndex (beNat (i.take 4) : Int), i.drop 4) := by
      intro i
      by_cases hl : i.length < 4 <;> simp [parseTimeWith, hc, takeN, hl]
    refine (parses_fixed (f := fun b => Time.secIndex (beNat b : Int)) hq).congr ?_
    intro v e
    simp only [TimeBody, if_pos hc]
  · constructor
    · intro v e rest h
      simp only [TimeBody, if_neg hc] at h
      obtain ⟨tag, val, x, rfl, h1, h2, rfl⟩ := h
      have c1 := fun rest => (parses_unsigned 1 (by simp)).complete _ _ rest h1
      have c2 := fun rest => (parses_unsigned 4 (by simp)).complete _ _ rest h2
      simp only [parseTimeWith, if_neg hc, List.append_assoc, c1, c2, if_true]
    · intro i v r h
      simp only [parseTimeWith, if_neg hc] at h
      snd_step (parses_unsigned 1 (by simp)) with tag h1
      split at h
      · rename_i htag
        subst htag
        snd_step (parses_unsigned 4 (by simp)) with val h2
        simp only [Except.ok.injEq, Prod.mk.injEq] at h
        obtain ⟨rfl, rfl⟩ := h
        refine ⟨tag ++ val, by simp, ?_⟩
        simp only [TimeBody, if_neg hc]
        exact ⟨tag, val, _, rfl, h1, h2, rfl⟩
      · cases h

theorem parses_time : Parses parseTime EncTime := by
  unfold parseTime
  refine parses_viaTlf (fun t _ => parses_timeWith t) ?_ ?_
  · rintro ⟨x⟩ bs h
    rcases h with ⟨tl, tag, val, rfl, ht, h1, h2⟩ | ⟨tl, data, rfl, ht, hl, rfl⟩
    · refine ⟨_, tl, tag ++ val, by simp, ht, rfl, ?_⟩
      simp only [TimeBody]
      rw [if_neg (by simp)]
      exact ⟨tag, val, x, rfl, h1, h2, rfl⟩
    · refine ⟨_, tl, data, rfl, ht, rfl, ?_⟩
      simp only [TimeBody, and_self, if_true]
      exact ⟨hl, trivial⟩
  · rintro ⟨x⟩ ⟨ty, len⟩ tl body ht hc hb
    by_cases hu : ty = .unsigned ∧ len = 4
    · obtain ⟨rfl, rfl⟩ := hu
      simp only [TimeBody, and_self, if_true, Time.secIndex.injEq] at hb
      exact Or.inr ⟨tl, body, rfl, ht, hb.1, hb.2⟩
    · simp only [TimeBody, if_neg hu, Time.secIndex.injEq] at hb
      obtain ⟨tag, val, x', rfl, h1, h2, rfl⟩ := hb
      simp only [timeCheck, Bool.or_eq_true, Bool.and_eq_true, decide_eq_true_eq] at hc
      rcases hc with ⟨rfl, rfl⟩ | hc
      · exact Or.inl ⟨tl, tag, val, by simp, ht, h1, h2⟩
      · exact absurd hc hu

/-! ### SML_ListType -/

theorem parses_listTypeWith (t : Tlf) :
    Parses (fun i => parseListTypeWith i t) EncListType := by
  constructor
  · rintro ⟨tm⟩ e rest ⟨tag, body, rfl, h1, h2⟩
    have c1 := fun rest => (parses_unsigned 1 (by simp)).complete _ _ rest h1
    have c2 := fun rest => parses_time.complete _ _ rest h2
    simp only [parseListTypeWith, List.append_assoc, c1, c2, if_true]
  · intro i v r h
    simp only [parseListTypeWith] at h
    snd_step (parses_unsigned 1 (by simp)) with tag h1
    split at h
    · rename_i htag
      subst htag
      snd_step parses_time with body h2
      simp only [Except.ok.injEq, Prod.mk.injEq] at h
      obtain ⟨rfl, rfl⟩ := h
      exact ⟨tag ++ body, by simp, tag, body, rfl, h1, h2⟩
    · cases h

/-! ### SML_Value -/

/-- what follows the type-length field `t` of an `SML_Value` -/
def ValueBody (t : Tlf) (v : Value) (body : Bytes) : Prop :=
  match t.ty with
  | .boolean => t.len = 1 ∧ ∃ x, body = [x] ∧ v = .bool (decide (x ≠ 0))
  | .octetString => body.length = t.len ∧ v = .bytes body
  | .integer => (1 ≤ t.len ∧ t.len ≤ 8) ∧ body.length = t.len ∧
      v = .int (C12.narrow t.len) (Spec.twos body)
  | .unsigned => (1 ≤ t.len ∧ t.len ≤ 8) ∧ body.length = t.len ∧
      v = .uns (C12.narrow t.len) (beNat body : Int)
  | .listOf => t.len = 2 ∧ ∃ l, v = .list l ∧ EncListType l body

theorem parses_fail' {α : Type} {p : Bytes → PRes α} {err : PErr} {E : α → Bytes → Prop}
    (h : ∀ i, p i = .error err) (hE : ∀ v e, ¬ E v e) : Parses p E :=
  (parses_fail h).congr fun v e => ⟨False.elim, hE v e⟩

theorem parses_valueWith (t : Tlf) : Parses (fun i => parseValueWith i t) (ValueBody t) := by
  obtain ⟨ty, len⟩ := t
  cases ty with
  | octetString =>
    have hq : ∀ i, parseValueWith i ⟨.octetString, len⟩ =
        if i.length < len then .error .unexpectedEOF
        else .ok (Value.bytes (i.take len), i.drop len) := by
      intro i
      have : parseValueWith i ⟨.octetString, len⟩ =
          mapRes .bytes (parseOctetWith i ⟨.octetString, len⟩) := by
        simp [parseValueWith, boolCheck, octetCheck]
      rw [this, C12.octet_exact]
      split <;> rfl
    exact (parses_fixed hq).congr fun v e => by simp only [ValueBody]
  | boolean =>
    by_cases hl : len = 1
    · subst hl
      have hq : ∀ i, parseValueWith i ⟨.boolean, 1⟩ =
          match i with
          | [] => .error .unexpectedEOF
          | b :: rest => .ok (Value.bool (decide (b ≠ 0)), rest) := by
        intro i
        have : parseValueWith i ⟨.boolean, 1⟩ = mapRes .bool (parseBoolWith i ⟨.boolean, 1⟩) := rfl
        rw [this, C12.bool_exact]
        cases i <;> rfl
      constructor
      · rintro v e rest ⟨_, x, rfl, rfl⟩
        rw [hq]
        rfl
      · intro i v r h
        rw [hq] at h
        cases i with
        | nil => cases h
        | cons b rest =>
          simp only [Except.ok.injEq, Prod.mk.injEq] at h
          obtain ⟨rfl, rfl⟩ := h
          exact ⟨[b], rfl, rfl, b, rfl, rfl⟩
    · refine parses_fail' (err := .tlfMismatch) ?_ ?_
      · intro i
        simp [parseValueWith, boolCheck, octetCheck, numCheck, listTypeCheck, hl]
      · rintro v e ⟨h, _⟩
        exact hl h
  | integer =>
    by_cases hw : 1 ≤ len ∧ len ≤ 8
    · refine (parses_fixed (f := fun b => Value.int (C12.narrow len) (C12.twos b))
        (fun i => C12.value_int_exact len hw i)).congr fun v e => ?_
      simp only [ValueBody, hw, and_self, true_and, twos_eq]
    · refine parses_fail' (err := .tlfMismatch) ?_ ?_
      · intro i
        exact (C12.value_int_reject len (by omega) i).1
      · rintro v e ⟨h, _⟩
        exact hw h
  | unsigned =>
    by_cases hw : 1 ≤ len ∧ len ≤ 8
    · refine (parses_fixed (f := fun b => Value.uns (C12.narrow len) (C12.plain b))
        (fun i => C12.value_uns_exact len hw i)).congr fun v e => ?_
      simp only [ValueBody, hw, and_self, true_and, C12.plain]
    · refine parses_fail' (err := .tlfMismatch) ?_ ?_
      · intro i
        exact (C12.value_int_reject len (by omega) i).2.1
      · rintro v e ⟨h, _⟩
        exact hw h
  | listOf =>
    by_cases hl : len = 2
    · subst hl
      have : (fun i => parseValueWith i ⟨.listOf, 2⟩) =
          fun i => mapRes .list (parseListTypeWith i ⟨.listOf, 2⟩) := rfl
      rw [this]
      refine (parses_mapRes Value.list (parses_listTypeWith ⟨.listOf, 2⟩)).congr fun v e => ?_
      simp only [ValueBody, true_and]
    · refine parses_fail' (err := .tlfMismatch) ?_ ?_
      · intro i
        simp [parseValueWith, boolCheck, octetCheck, numCheck, listTypeCheck, hl]
      · rintro v e ⟨h, _⟩
        exact hl h

theorem parses_value : Parses parseValue EncValue := by
  unfold parseValue
  refine parses_viaTlf (fun t _ => parses_valueWith t) ?_ ?_
  · intro v bs h
    cases v with
    | bool b =>
      obtain ⟨tl, x, rfl, ht, rfl⟩ := h
      exact ⟨_, tl, [x], rfl, ht, rfl, rfl, x, rfl, rfl⟩
    | bytes v =>
      obtain ⟨tl, rfl, ht⟩ := h
      exact ⟨_, tl, v, rfl, ht, rfl, rfl, rfl⟩
    | int size v =>
      obtain ⟨tl, data, rfl, ht, h1, h2, hw, rfl⟩ := h
      rw [widthClass_iff _ _ h2] at hw
      subst hw
      exact ⟨_, tl, data, rfl, ht, rfl, ⟨h1, h2⟩, rfl, rfl⟩
    | uns size v =>
      obtain ⟨tl, data, rfl, ht, h1, h2, hw, rfl⟩ := h
      rw [widthClass_iff _ _ h2] at hw
      subst hw
      exact ⟨_, tl, data, rfl, ht, rfl, ⟨h1, h2⟩, rfl, rfl⟩
    | list l =>
      obtain ⟨tl, body, rfl, ht, hl⟩ := h
      exact ⟨_, tl, body, rfl, ht, rfl, rfl, l, rfl, hl⟩
  · rintro v ⟨ty, len⟩ tl body ht _ hb
    cases ty with
    | octetString =>
      obtain ⟨hl, rfl⟩ := hb
      simp only at hl
      subst hl
      exact ⟨tl, rfl, ht⟩
    | boolean =>
      obtain ⟨hl, x, rfl, rfl⟩ := hb
      simp only at hl
      subst hl
      exact ⟨tl, x, rfl, ht, rfl⟩
    | integer =>
      obtain ⟨⟨h1, h2⟩, hl, rfl⟩ := hb
      simp only at hl h1 h2
      subst hl
      exact ⟨tl, body, rfl, ht, h1, h2, (widthClass_iff _ _ h2).2 rfl, rfl⟩
    | unsigned =>
      obtain ⟨⟨h1, h2⟩, hl, rfl⟩ := hb
      simp only at hl h1 h2
      subst hl
      exact ⟨tl, body, rfl, ht, h1, h2, (widthClass_iff _ _ h2).2 rfl, rfl⟩
    | listOf =>
      obtain ⟨hl, l, rfl, hb⟩ := hb
      simp only at hl
      subst hl
      exact ⟨tl, body, rfl, ht, hb⟩

/-! ### SML_Status -/

def StatusBody (t : Tlf) (v : Status) (body : Bytes) : Prop :=
  t.ty = .unsigned ∧ (1 ≤ t.len ∧ t.len ≤ 8) ∧ body.length = t.len ∧
    v = .status (C12.narrow t.len) (beNat body : Int)

theorem parses_statusWith (t : Tlf) : Parses (fun i => parseStatusWith i t) (StatusBody t) := by
  obtain ⟨ty, len⟩ := t
  by_cases hty : ty = .unsigned
  · subst hty
    by_cases hw : 1 ≤ len ∧ len ≤ 8
    · refine (parses_fixed (f := fun b => Status.status (C12.narrow len) (C12.plain b))
        (fun i => C12.status_exact len hw i)).congr fun v e => ?_
      simp only [StatusBody, hw, and_self, true_and, C12.plain]
    · refine parses_fail' (err := .tlfMismatch) ?_ ?_
      · intro i
        exact (C12.value_int_reject len (by omega) i).2.2
      · rintro v e ⟨_, h, _⟩
        exact hw h
  · refine parses_fail' (err := .tlfMismatch) ?_ ?_
    · intro i
      simp [parseStatusWith, numCheck, hty]
    · rintro v e ⟨h, _⟩
      exact hty h

theorem parses_status : Parses parseStatus EncStatus := by
  unfold parseStatus
  refine parses_viaTlf (fun t _ => parses_statusWith t) ?_ ?_
  · rintro ⟨size, v⟩ bs ⟨tl, data, rfl, ht, h1, h2, hw, rfl⟩
    rw [widthClass_iff _ _ h2] at hw
    subst hw
    exact ⟨_, tl, data, rfl, ht, rfl, rfl, ⟨h1, h2⟩, rfl, rfl⟩
  · rintro v ⟨ty, len⟩ tl body ht _ ⟨hty, ⟨h1, h2⟩, hl, rfl⟩
    simp only at hty hl h1 h2
    subst hty hl
    exact ⟨tl, body, rfl, ht, h1, h2, (widthClass_iff _ _ h2).2 rfl, rfl⟩

end Sml.Gram

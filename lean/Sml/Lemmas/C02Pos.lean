import Sml.Props.C02
import Sml.Props.C15
/-
  Property C02, positional versions of the front-end corollaries (review item H1).

  `C02.sound_iter`, `C02.sound_reader`, `C02.sound_decodeAll` only say that `frame m` occurs
  SOMEWHERE in the input.  Here the position is pinned down:

  * `sound_iter_pos`    : when the `i`-th call of `DecodeIterator::next` returns `m`, the input splits
                          as `pre ++ frame m ++ (bytes the iterator has not consumed yet)`;
  * `sound_reader_pos`  : when the `i`-th reader call returns `m`, the bytes delivered by the events
                          consumed so far, counted from the last event that made the reader reset
                          the decoder (`sinceReset`), end with `frame m` - so a frame is never glued
                          together across an I/O error and never reported before its last byte was
                          read; all three source kinds;
  * `sound_decodeAll_pos` : the items of `decode` sit at strictly increasing byte positions
                          (`itemPos`), and a payload item at position `k` means
                          `s.take k = pre ++ frame m`.
-/
namespace Sml.C02

open Spec (frame)
open Dec (SInv)

/-! ### 1. `DecodeIterator` -/

/-- the iterator after `k` calls of `next` -/
def iterAfter (it : DecIter) : Nat → DecIter
  | 0 => it
  | k + 1 => iterAfter it.next.1 k

/-- one `pull`: a returned payload is a frame that ends exactly where the unconsumed bytes begin -/
theorem pull_pos (s : List UInt8) (bs : List UInt8) : ∀ {pre c : List UInt8} {d : Dec},
    SInv c d → s = pre ++ c ++ bs →
    DecIter.IInv s (DecIter.pull d bs).1 ∧
      ∀ m, (DecIter.pull d bs).2 = some (Item.ok m) →
        ∃ p, s = p ++ frame m ++ (DecIter.pull d bs).1.bytes := by
  induction bs with
  | nil =>
    intro pre c d h hs
    unfold DecIter.pull
    refine ⟨⟨pre ++ c, [], Dec.sinv_reset [] d, by simpa using hs⟩, ?_⟩
    intro m hm
    simp only [Option.map_eq_some_iff] at hm
    obtain ⟨e, _, he⟩ := hm
    cases he
  | cons b bs ih =>
    intro pre c d h hs
    have hs' : s = pre ++ (c ++ [b]) ++ bs := by rw [hs]; simp
    have hp := Dec.sinv_pushByte h b
    unfold DecIter.pull
    revert hp
    rcases d.pushByte b with ⟨d', r⟩
    intro hp
    cases r with
    | more => exact ih hp hs'
    | ready =>
      refine ⟨⟨pre, c ++ [b], hp, hs'⟩, ?_⟩
      intro m hm
      cases hbb : d'.borrowBuf with
      | msg m' =>
        simp only [hbb, Option.some.injEq, Item.ok.injEq] at hm
        subst hm
        obtain ⟨q, e, _⟩ := Dec.sinv_borrow hp hbb
        exact ⟨pre ++ q, by rw [hs', e]; simp⟩
      | none => simp [hbb] at hm
      | err e => simp [hbb] at hm
      | panic s => simp [hbb] at hm
    | err e => exact ⟨⟨pre, c ++ [b], hp, hs'⟩, by intro m hm; simp at hm⟩
    | panic s => exact ⟨⟨pre, c ++ [b], hp, hs'⟩, by intro m hm; simp at hm⟩

theorem next_pos {s : List UInt8} {it : DecIter} (h : DecIter.IInv s it) :
    DecIter.IInv s it.next.1 ∧
      ∀ m, it.next.2 = some (Item.ok m) → ∃ p, s = p ++ frame m ++ it.next.1.bytes := by
  unfold DecIter.next
  split
  · exact ⟨h, by intro m hm; cases hm⟩
  · obtain ⟨pre, c, h1, h2⟩ := h
    exact pull_pos s it.bytes h1 h2

theorem take_pos (s : List UInt8) (n : Nat) : ∀ {it : DecIter} (i : Nat) {m : List UInt8},
    DecIter.IInv s it → (it.take n)[i]? = some (some (Item.ok m)) →
    ∃ p, s = p ++ frame m ++ (iterAfter it (i + 1)).bytes := by
  induction n with
  | zero => intro it i m _ h; simp [DecIter.take] at h
  | succ n ih =>
    intro it i m hi h
    have hrun : it.take (n + 1) = it.next.2 :: it.next.1.take n := rfl
    rw [hrun] at h
    obtain ⟨h1, h2⟩ := next_pos hi
    cases i with
    | zero =>
      simp only [List.getElem?_cons_zero, Option.some.injEq] at h
      exact h2 m h
    | succ i =>
      simp only [List.getElem?_cons_succ] at h
      exact ih i h1 h

/-- `decode_streaming` / `DecodeIterator`, any buffer: if the `i`-th call of `next` (counting from
0) returns the payload `m`, the input is `pre ++ frame m ++ rem`, where `rem` are exactly the bytes
the iterator has not consumed after that call.  So the bytes consumed up to and including that call
end with `frame m`. -/
theorem sound_iter_pos (cap : Option Nat) (s : List UInt8) (n i : Nat) (m : List UInt8)
    (h : ((DecIter.new cap s).take n)[i]? = some (some (Item.ok m))) :
    ∃ pre, s = pre ++ frame m ++ (iterAfter (DecIter.new cap s) (i + 1)).bytes :=
  take_pos s n i (DecIter.iinv_new cap s) h

/-- the same with the number of consumed bytes `k = |s| - |rem|` written out -/
theorem sound_iter_pos_take (cap : Option Nat) (s : List UInt8) (n i : Nat) (m : List UInt8)
    (h : ((DecIter.new cap s).take n)[i]? = some (some (Item.ok m))) :
    let rem := (iterAfter (DecIter.new cap s) (i + 1)).bytes
    rem.length ≤ s.length ∧ s.drop (s.length - rem.length) = rem ∧
      ∃ pre, s.take (s.length - rem.length) = pre ++ frame m := by
  intro rem
  obtain ⟨pre, hp⟩ := sound_iter_pos cap s n i m h
  have hl : s.length = (pre ++ frame m).length + rem.length := by
    conv => lhs; rw [hp]
    rw [List.length_append]
  have hk : s.length - rem.length = (pre ++ frame m).length := by omega
  refine ⟨by omega, ?_, pre, ?_⟩
  · rw [hk]; conv => lhs; rw [hp]
    exact List.drop_left
  · rw [hk]; conv => lhs; rw [hp]
    exact List.take_left

/-- the unconsumed bytes only shrink: after every call they are a suffix of what they were -/
theorem pull_bytes_suffix (bs : List UInt8) : ∀ d : Dec, (DecIter.pull d bs).1.bytes <:+ bs := by
  induction bs with
  | nil => intro d; exact List.suffix_refl _
  | cons b bs ih =>
    intro d
    unfold DecIter.pull
    rcases d.pushByte b with ⟨d', r⟩
    cases r with
    | more => exact (ih d').trans (List.suffix_cons _ _)
    | ready => exact List.suffix_cons _ _
    | err e => exact List.suffix_cons _ _
    | panic s => exact List.suffix_cons _ _

theorem next_bytes_suffix (it : DecIter) : it.next.1.bytes <:+ it.bytes := by
  unfold DecIter.next
  split
  · exact List.suffix_refl _
  · exact pull_bytes_suffix _ _

theorem iterAfter_bytes_suffix (k : Nat) : ∀ it : DecIter,
    (iterAfter it (k + 1)).bytes <:+ (iterAfter it k).bytes := by
  induction k with
  | zero => intro it; exact next_bytes_suffix it
  | succ k ih => intro it; exact ih it.next.1

/-! ### 2. `DecoderReader` over a byte source with faults -/

/-- the events that make `DecoderReader::read` reset the decoder: every error of the source other
than `WouldBlock`; `Interrupted` is such an error except over `std::io::Read`, where `read_exact`
retries; a mid-stream end of input (`Ev.eof`) is one for every source kind (kind `Eof`, resp.
`Other` over embedded-hal) -/
def resets (kind : SrcKind) : Ev → Bool
  | .other => true
  | .eof => true
  | .interrupted => kind != .io
  | _ => false

def sinceStep (kind : SrcKind) (acc : List Ev) (e : Ev) : List Ev :=
  if resets kind e then [] else acc ++ [e]

/-- the suffix of an event list after its last resetting event (everything if there is none) -/
def sinceReset (kind : SrcKind) (evs : List Ev) : List Ev := evs.foldl (sinceStep kind) []

theorem sinceReset_snoc (kind : SrcKind) (evs : List Ev) (e : Ev) :
    sinceReset kind (evs ++ [e]) = sinceStep kind (sinceReset kind evs) e := by
  simp [sinceReset, List.foldl_append]

theorem since_fold (kind : SrcKind) (evs : List Ev) : ∀ (pre0 acc : List Ev),
    (∀ e ∈ acc, resets kind e = false) →
    (pre0 = [] ∨ ∃ pre' e, pre0 = pre' ++ [e] ∧ resets kind e = true) →
    ∃ pre, pre0 ++ acc ++ evs = pre ++ evs.foldl (sinceStep kind) acc ∧
      (∀ e ∈ evs.foldl (sinceStep kind) acc, resets kind e = false) ∧
      (pre = [] ∨ ∃ pre' e, pre = pre' ++ [e] ∧ resets kind e = true) := by
  induction evs with
  | nil => intro pre0 acc h1 h2; exact ⟨pre0, by simp, h1, h2⟩
  | cons e evs ih =>
    intro pre0 acc h1 h2
    rw [List.foldl_cons]
    by_cases hr : resets kind e = true
    · rw [show sinceStep kind acc e = [] by simp [sinceStep, hr]]
      obtain ⟨pre, g1, g2, g3⟩ := ih (pre0 ++ acc ++ [e]) [] (by simp)
        (Or.inr ⟨pre0 ++ acc, e, rfl, hr⟩)
      exact ⟨pre, by rw [← g1]; simp, g2, g3⟩
    · rw [show sinceStep kind acc e = acc ++ [e] by simp [sinceStep, hr]]
      obtain ⟨pre, g1, g2, g3⟩ := ih pre0 (acc ++ [e]) (by
        intro x hx
        rcases List.mem_append.1 hx with hx | hx
        · exact h1 x hx
        · simp only [List.mem_singleton] at hx
          subst hx
          simpa using hr) h2
      exact ⟨pre, by rw [← g1]; simp, g2, g3⟩

/-- `sinceReset` is what its name says: a suffix without resetting events that is either the whole
list or is preceded by a resetting event -/
theorem sinceReset_spec (kind : SrcKind) (evs : List Ev) :
    ∃ pre, evs = pre ++ sinceReset kind evs ∧ (∀ e ∈ sinceReset kind evs, resets kind e = false) ∧
      (pre = [] ∨ ∃ pre' e, pre = pre' ++ [e] ∧ resets kind e = true) := by
  obtain ⟨pre, g1, g2, g3⟩ := since_fold kind evs [] [] (by simp) (Or.inl rfl)
  exact ⟨pre, by simpa [sinceReset] using g1, g2, g3⟩

theorem evBytes_append (a b : List Ev) : evBytes (a ++ b) = evBytes a ++ evBytes b := by
  simp [evBytes]

/-- the invariant: `done` = events consumed so far; the decoder has seen exactly the bytes of the
events since the last reset -/
def PInv (kind : SrcKind) (done : List Ev) (d : Dec) : Prop :=
  SInv (evBytes (sinceReset kind done)) d

theorem pinv_reset (kind : SrcKind) (done : List Ev) (d : Dec) : PInv kind done (d.reset).1 :=
  Dec.sinv_reset _ d

/-- a non-resetting, non-byte event changes nothing -/
theorem pinv_skip {kind : SrcKind} {done : List Ev} {d : Dec} (h : PInv kind done d) (e : Ev)
    (hr : resets kind e = false) (hb : evBytes [e] = []) : PInv kind (done ++ [e]) d := by
  unfold PInv
  rw [sinceReset_snoc, sinceStep, if_neg (by simp [hr]), evBytes_append, hb, List.append_nil]
  exact h

theorem pinv_onIoErr {kind : SrcKind} {d : Dec}
    (rest : List Ev) (k : IoKind) (done' : List Ev)
    (hwb : k = .wouldBlock → PInv kind done' d) :
    PInv kind done' (Rdr.onIoErr kind d rest k).1.dec ∧
      (Rdr.onIoErr kind d rest k).1.evs = rest ∧
      ∀ m, (Rdr.onIoErr kind d rest k).2 ≠ .ok m := by
  cases k with
  | wouldBlock => exact ⟨hwb rfl, rfl, by intro m hm; cases hm⟩
  | eof => exact ⟨pinv_reset kind done' d, rfl, by intro m hm; cases hm⟩
  | other => exact ⟨pinv_reset kind done' d, rfl, by intro m hm; cases hm⟩

/-- one `read`: it consumes a prefix `used` of the remaining events; the invariant holds for
`done ++ used`; a returned payload is a frame at the end of the bytes since the last reset -/
theorem readLoop_pos (kind : SrcKind) (evs : List Ev) : ∀ (done : List Ev) (d : Dec),
    PInv kind done d →
    ∃ used, evs = used ++ (Rdr.readLoop kind d evs).1.evs ∧
      PInv kind (done ++ used) (Rdr.readLoop kind d evs).1.dec ∧
      ∀ m, (Rdr.readLoop kind d evs).2 = .ok m →
        ∃ pre, evBytes (sinceReset kind (done ++ used)) = pre ++ frame m := by
  induction evs with
  | nil =>
    intro done d h
    refine ⟨[], ?_⟩
    unfold Rdr.readLoop
    rw [List.append_nil]
    cases kind
    · obtain ⟨a, b, c⟩ := pinv_onIoErr [] .eof done (by intro hc; cases hc)
      exact ⟨by rw [b]; rfl, a, fun m hm => absurd hm (c m)⟩
    · obtain ⟨a, b, c⟩ := pinv_onIoErr [] .eof done (by intro hc; cases hc)
      exact ⟨by rw [b]; rfl, a, fun m hm => absurd hm (c m)⟩
    · obtain ⟨a, b, c⟩ := pinv_onIoErr [] .wouldBlock done (fun _ => h)
      exact ⟨by rw [b]; rfl, a, fun m hm => absurd hm (c m)⟩
  | cons e evs ih =>
    intro done d h
    cases e with
    | byte b =>
      have hs : PInv kind (done ++ [Ev.byte b]) (d.pushByte b).1 := by
        unfold PInv
        rw [sinceReset_snoc, sinceStep, if_neg (by simp [resets]), evBytes_append]
        exact Dec.sinv_pushByte h b
      unfold Rdr.readLoop
      revert hs
      rcases d.pushByte b with ⟨d', r⟩
      intro hs
      cases r with
      | more =>
        obtain ⟨used, h1, h2, h3⟩ := ih (done ++ [Ev.byte b]) d' hs
        refine ⟨Ev.byte b :: used, ?_, ?_, ?_⟩
        · simp only [List.cons_append]; rw [← h1]
        · simpa using h2
        · simpa using h3
      | ready =>
        refine ⟨[Ev.byte b], rfl, hs, ?_⟩
        intro m hm
        cases hbb : d'.borrowBuf with
        | msg m' =>
          simp only [hbb, RItem.ok.injEq] at hm
          subst hm
          obtain ⟨q, e, _⟩ := Dec.sinv_borrow hs hbb
          exact ⟨q, e⟩
        | none => simp [hbb] at hm
        | err e => simp [hbb] at hm
        | panic s => simp [hbb] at hm
      | err e => exact ⟨[Ev.byte b], rfl, hs, by intro m hm; cases hm⟩
      | panic s => exact ⟨[Ev.byte b], rfl, hs, by intro m hm; cases hm⟩
    | wouldBlock =>
      unfold Rdr.readLoop
      obtain ⟨a, b, c⟩ := pinv_onIoErr evs .wouldBlock (done ++ [Ev.wouldBlock])
        (fun _ => pinv_skip h _ rfl rfl)
      exact ⟨[Ev.wouldBlock], by rw [b]; rfl, a, fun m hm => absurd hm (c m)⟩
    | interrupted =>
      unfold Rdr.readLoop
      cases kind with
      | io =>
        obtain ⟨used, h1, h2, h3⟩ := ih (done ++ [Ev.interrupted]) d (pinv_skip h _ rfl rfl)
        refine ⟨Ev.interrupted :: used, ?_, ?_, ?_⟩
        · simp only [List.cons_append]; rw [← h1]
        · simpa using h2
        · simpa using h3
      | mem =>
        obtain ⟨a, b, c⟩ := pinv_onIoErr evs .other (done ++ [Ev.interrupted])
          (by intro hc; cases hc)
        exact ⟨[Ev.interrupted], by rw [b]; rfl, a, fun m hm => absurd hm (c m)⟩
      | eh =>
        obtain ⟨a, b, c⟩ := pinv_onIoErr evs .other (done ++ [Ev.interrupted])
          (by intro hc; cases hc)
        exact ⟨[Ev.interrupted], by rw [b]; rfl, a, fun m hm => absurd hm (c m)⟩
    | other =>
      unfold Rdr.readLoop
      obtain ⟨a, b, c⟩ := pinv_onIoErr evs .other (done ++ [Ev.other]) (by intro hc; cases hc)
      exact ⟨[Ev.other], by rw [b]; rfl, a, fun m hm => absurd hm (c m)⟩
    | eof =>
      unfold Rdr.readLoop
      cases kind with
      | io =>
        obtain ⟨a, b, c⟩ := pinv_onIoErr evs .eof (done ++ [Ev.eof]) (by intro hc; cases hc)
        exact ⟨[Ev.eof], by rw [b]; rfl, a, fun m hm => absurd hm (c m)⟩
      | mem =>
        obtain ⟨a, b, c⟩ := pinv_onIoErr evs .eof (done ++ [Ev.eof]) (by intro hc; cases hc)
        exact ⟨[Ev.eof], by rw [b]; rfl, a, fun m hm => absurd hm (c m)⟩
      | eh =>
        obtain ⟨a, b, c⟩ := pinv_onIoErr evs .other (done ++ [Ev.eof]) (by intro hc; cases hc)
        exact ⟨[Ev.eof], by rw [b]; rfl, a, fun m hm => absurd hm (c m)⟩

theorem readLoop_kind (kind : SrcKind) (evs : List Ev) : ∀ d : Dec,
    (Rdr.readLoop kind d evs).1.kind = kind := by
  induction evs with
  | nil => intro d; unfold Rdr.readLoop; cases kind <;> rfl
  | cons e evs ih =>
    intro d
    cases e with
    | byte b =>
      unfold Rdr.readLoop
      rcases d.pushByte b with ⟨d', r⟩
      cases r with
      | more => exact ih d'
      | ready => rfl
      | err e => rfl
      | panic s => rfl
    | wouldBlock => unfold Rdr.readLoop; rfl
    | interrupted =>
      unfold Rdr.readLoop
      cases kind with
      | io => exact ih d
      | mem => cases h : Rdr.onIoErr .mem d evs .other; simp [Rdr.onIoErr] at h; rw [← h.1]
      | eh => cases h : Rdr.onIoErr .eh d evs .other; simp [Rdr.onIoErr] at h; rw [← h.1]
    | other => unfold Rdr.readLoop; rfl
    | eof =>
      unfold Rdr.readLoop
      cases kind with
      | io => cases h : Rdr.onIoErr .io d evs .eof; simp [Rdr.onIoErr] at h; rw [← h.1]
      | mem => cases h : Rdr.onIoErr .mem d evs .eof; simp [Rdr.onIoErr] at h; rw [← h.1]
      | eh => cases h : Rdr.onIoErr .eh d evs .other; simp [Rdr.onIoErr] at h; rw [← h.1]

theorem call_kind (r : Rdr) (cl : Rdr.Call) : (r.call cl).1.kind = r.kind := by
  rw [(Rdr.call_eq_read r cl).1]
  exact readLoop_kind _ _ _

/-- any sequence of calls -/
theorem calls_pos (cs : List Rdr.Call) : ∀ (r : Rdr) (done : List Ev) (i : Nat) (m : List UInt8),
    PInv r.kind done r.dec → (r.calls cs).2[i]? = some (RItem.ok m) →
    ∃ used, r.evs = used ++ (r.calls (cs.take (i + 1))).1.evs ∧
      ∃ pre, evBytes (sinceReset r.kind (done ++ used)) = pre ++ frame m := by
  induction cs with
  | nil => intro r done i m _ h; simp [Rdr.calls] at h
  | cons cl cs ih =>
    intro r done i m hr h
    have hrun : (r.calls (cl :: cs)).2 = (r.call cl).2 :: ((r.call cl).1.calls cs).2 := rfl
    rw [hrun] at h
    obtain ⟨e1, e2⟩ := Rdr.call_eq_read r cl
    obtain ⟨used, h1, h2, h3⟩ := readLoop_pos r.kind r.evs done r.dec hr
    have hread : Rdr.readLoop r.kind r.dec r.evs = r.read := rfl
    rw [hread, ← e1] at h1 h2
    cases i with
    | zero =>
      simp only [List.getElem?_cons_zero, Option.some.injEq] at h
      refine ⟨used, ?_, h3 m (e2 m h)⟩
      simpa [Rdr.calls] using h1
    | succ i =>
      simp only [List.getElem?_cons_succ] at h
      have hk := call_kind r cl
      rw [← hk] at h2
      obtain ⟨used2, g1, pre, g2⟩ := ih (r.call cl).1 (done ++ used) i m h2 h
      refine ⟨used ++ used2, ?_, pre, ?_⟩
      · rw [List.take_succ_cons]
        have : (r.calls (cl :: cs.take (i + 1))).1 = ((r.call cl).1.calls (cs.take (i + 1))).1 := rfl
        rw [this, List.append_assoc, ← g1]
        exact h1
      · rw [← List.append_assoc, ← hk]
        exact g2

/-- `DecoderReader` over any byte source (slice / iterator, `std::io::Read`, embedded-hal) with
arbitrary faults and any sequence of `read` / `next` / `read_nb` / `next_nb` calls.  If call number
`i` returns the payload `m`, let `r` be the reader after that call and `consumed` the events it has
taken from the source so far.  Then the bytes delivered by the events of `consumed` that come after
the last event which made the reader reset the decoder (`sinceReset`: an error other than
`WouldBlock`; `Interrupted` counts unless the source is an `io::Read`; a mid-stream end of input
`Ev.eof` counts for every source) end with exactly `frame m`.
So a frame is never assembled from bytes on both sides of an I/O error or of a mid-stream end of
input, and never reported before its last byte has been read. -/
theorem sound_reader_pos (kind : SrcKind) (cap : Option Nat) (evs : List Ev) (cs : List Rdr.Call)
    (i : Nat) (m : List UInt8)
    (h : ((Rdr.new kind cap evs).calls cs).2[i]? = some (RItem.ok m)) :
    let r := ((Rdr.new kind cap evs).calls (cs.take (i + 1))).1
    let consumed := evs.take (evs.length - r.evs.length)
    evs = consumed ++ r.evs ∧
      ∃ pre, evBytes (sinceReset kind consumed) = pre ++ frame m := by
  intro r consumed
  have h0 : PInv (Rdr.new kind cap evs).kind [] (Rdr.new kind cap evs).dec := Dec.sinv_fresh cap
  obtain ⟨used, h1, pre, h2⟩ := calls_pos cs (Rdr.new kind cap evs) [] i m h0 h
  have h1' : evs = used ++ r.evs := h1
  have hc : consumed = used := by
    show evs.take (evs.length - r.evs.length) = used
    conv => lhs; rw [h1']
    rw [List.length_append, Nat.add_sub_cancel]
    exact List.take_left
  rw [hc]
  have h2' : evBytes (sinceReset kind ([] ++ used)) = pre ++ frame m := h2
  rw [List.nil_append] at h2'
  exact ⟨h1', pre, h2'⟩

/-! ### 3. `decode` -/

/-- the positions (number of bytes consumed, counted from `i`) at which the answers that are not
`Ok(None)` occur -/
def itemPos (i : Nat) : List Out → List Nat
  | [] => []
  | .none :: os => itemPos (i + 1) os
  | _ :: os => (i + 1) :: itemPos (i + 1) os

theorem itemPos_cons_some (i : Nat) (o : Out) (os : List Out) (x : Item) (h : o.toItem? = some x) :
    itemPos i (o :: os) = (i + 1) :: itemPos (i + 1) os := by
  cases o <;> first | rfl | simp [Out.toItem?] at h

theorem itemPos_spec (outs : List Out) : ∀ i : Nat,
    (itemPos i outs).length = (C15.items outs).length ∧
    (∀ k ∈ itemPos i outs, i < k ∧ k ≤ i + outs.length) ∧
    (itemPos i outs).Pairwise (· < ·) ∧
    ∀ j k : Nat, (itemPos i outs)[j]? = some k →
      (C15.items outs)[j]? = (outs[k - 1 - i]?).bind Out.toItem? ∧ (C15.items outs)[j]?.isSome := by
  induction outs with
  | nil => intro i; simp [itemPos, C15.items]
  | cons o os ih =>
    intro i
    obtain ⟨a1, a2, a3, a4⟩ := ih (i + 1)
    cases ho : o.toItem? with
    | none =>
      have hn : o = Out.none := by cases o <;> first | rfl | simp [Out.toItem?] at ho
      subst hn
      have e1 : itemPos i (Out.none :: os) = itemPos (i + 1) os := rfl
      have e2 : C15.items (Out.none :: os) = C15.items os :=
        List.filterMap_cons_none rfl
      rw [e1, e2]
      refine ⟨a1, ?_, a3, ?_⟩
      · intro k hk
        have := a2 k hk
        simp only [List.length_cons]
        omega
      · intro j k hjk
        obtain ⟨b1, b2⟩ := a4 j k hjk
        have hk := a2 k (List.mem_of_getElem? hjk)
        refine ⟨?_, b2⟩
        rw [b1, show k - 1 - i = (k - 1 - (i + 1)) + 1 by omega, List.getElem?_cons_succ]
    | some x =>
      have e1 := itemPos_cons_some i o os x ho
      have e2 : C15.items (o :: os) = x :: C15.items os := by
        simp [C15.items, ho]
      rw [e1, e2]
      refine ⟨by simp [a1], ?_, ?_, ?_⟩
      · intro k hk
        simp only [List.mem_cons] at hk
        simp only [List.length_cons]
        rcases hk with rfl | hk
        · omega
        · have := a2 k hk; omega
      · rw [List.pairwise_cons]
        exact ⟨fun k hk => (a2 k hk).1, a3⟩
      · intro j k hjk
        cases j with
        | zero =>
          simp only [List.getElem?_cons_zero, Option.some.injEq] at hjk
          subst hjk
          simp [ho]
        | succ j =>
          simp only [List.getElem?_cons_succ] at hjk ⊢
          obtain ⟨b1, b2⟩ := a4 j k hjk
          have hk := a2 k (List.mem_of_getElem? hjk)
          refine ⟨?_, b2⟩
          rw [b1, show k - 1 - i = (k - 1 - (i + 1)) + 1 by omega, List.getElem?_cons_succ]

/-- `decode(bytes)`: with `pos = itemPos 0 (answers of push_byte)` - the strictly increasing list
of byte positions at which an item is produced -
  * item number `j` of the result is the answer to byte number `pos[j]` (1-based),
  * at most one more item follows (the `DiscardedBytes` of `finalize`, never a payload),
  * a payload `m` as item `j` means: the first `pos[j]` bytes of the input end with `frame m`.
Hence the frames of successive payload items end at strictly increasing positions, each at or
before the end of the input. -/
theorem sound_decodeAll_pos (s : List UInt8) :
    ∃ pos : List Nat, pos = itemPos 0 (Dec.pushAll (Dec.fresh none) s).2 ∧
      pos.Pairwise (· < ·) ∧ (∀ k ∈ pos, 1 ≤ k ∧ k ≤ s.length) ∧
      pos.length ≤ (decodeAll s).length ∧ (decodeAll s).length ≤ pos.length + 1 ∧
      (∀ j k : Nat, pos[j]? = some k →
        (decodeAll s)[j]? = ((Dec.pushAll (Dec.fresh none) s).2[k - 1]?).bind Out.toItem?) ∧
      ∀ (j : Nat) (m : List UInt8), (decodeAll s)[j]? = some (Item.ok m) →
        ∃ k pre, pos[j]? = some k ∧ s.take k = pre ++ frame m := by
  obtain ⟨a1, a2, a3, a4⟩ := itemPos_spec (Dec.pushAll (Dec.fresh none) s).2 0
  obtain ⟨fin, hdec, hfl, hfin⟩ : ∃ fin : List Item,
      decodeAll s = C15.items (Dec.pushAll (Dec.fresh none) s).2 ++ fin ∧ fin.length ≤ 1 ∧
        ∀ (j : Nat) (m : List UInt8), fin[j]? ≠ some (Item.ok m) := by
    refine ⟨_, C15.decode_eq s, ?_, ?_⟩
    · split <;> simp
    · intro j m
      split
      · cases j <;> simp
      · simp
  refine ⟨_, rfl, a3, ?_, ?_, ?_, ?_, ?_⟩
  · intro k hk
    have := a2 k hk
    rw [Dec.pushAll_length] at this
    omega
  · rw [hdec, List.length_append, a1]; omega
  · rw [hdec, List.length_append, a1]; omega
  · intro j k hjk
    obtain ⟨b1, b2⟩ := a4 j k hjk
    have hlt : j < (C15.items (Dec.pushAll (Dec.fresh none) s).2).length := by
      rcases Nat.lt_or_ge j (C15.items (Dec.pushAll (Dec.fresh none) s).2).length with h | h
      · exact h
      · rw [List.getElem?_eq_none h] at b2; cases b2
    rw [hdec, List.getElem?_append_left hlt, b1]
    simp
  · intro j m hjm
    rw [hdec] at hjm
    rcases Nat.lt_or_ge j (C15.items (Dec.pushAll (Dec.fresh none) s).2).length with hlt | hge
    · rw [List.getElem?_append_left hlt] at hjm
      have hjp : j < (itemPos 0 (Dec.pushAll (Dec.fresh none) s).2).length := by rw [a1]; exact hlt
      have hk? := List.getElem?_eq_getElem hjp
      obtain ⟨b1, _⟩ := a4 j _ hk?
      have hk := a2 _ (List.getElem_mem hjp)
      rw [hjm, Nat.sub_zero] at b1
      cases ho : (Dec.pushAll (Dec.fresh none) s).2[
          (itemPos 0 (Dec.pushAll (Dec.fresh none) s).2)[j] - 1]? with
      | none => rw [ho] at b1; cases b1
      | some o =>
        rw [ho] at b1
        have hom : o = Out.msg m := by
          cases o <;> simp [Out.toItem?] at b1
          rw [b1]
        subst hom
        obtain ⟨pre, hp⟩ := sound_stream none s _ m ho
        refine ⟨_, pre, hk?, ?_⟩
        rw [← hp]
        congr 1
        omega
    · rw [List.getElem?_append_right hge] at hjm
      exact absurd hjm (hfin _ m)

/-! ### 4. non-vacuity (kernel evaluation) -/

/-- the iterator: noise, a frame, two more bytes; the second call returns the payload and has then
consumed everything but the last two bytes -/
example : (DecIter.new none ([0xaa] ++ frame [1, 2] ++ [0xbb, 0xcc])).take 3 =
    [some (Item.err (.discarded 1)), some (Item.ok [1, 2]), some (Item.err (.discarded 2))] := by
  decide +kernel

example : (iterAfter (DecIter.new none ([0xaa] ++ frame [1, 2] ++ [0xbb, 0xcc])) 2).bytes =
    [0xbb, 0xcc] := by decide +kernel

/-- `sinceReset`: over an `io::Read` only `other` and `eof` reset, over the other sources
`interrupted` does, too -/
example : sinceReset .io [.byte 1, .other, .byte 2, .interrupted, .wouldBlock, .byte 3] =
    [.byte 2, .interrupted, .wouldBlock, .byte 3] := by decide
example : sinceReset .mem [.byte 1, .other, .byte 2, .interrupted, .wouldBlock, .byte 3] =
    [.wouldBlock, .byte 3] := by decide

/-- a frame interrupted by a source error is not delivered (the bytes before and after the error
together are `frame [1, 2]`, but they are never glued together) ... -/
example : ((Rdr.new .io none (((frame [1, 2]).take 10).map Ev.byte ++ [Ev.other] ++
      ((frame [1, 2]).drop 10).map Ev.byte)).calls [.read, .read, .read]).2 =
    [.ioErr .other 10, .ioErr .eof 10, .ioErr .eof 0] := by decide +kernel

/-- ... while `Interrupted` (retried by `read_exact`) and `WouldBlock` inside a frame do no harm
over an `io::Read` ... -/
example : ((Rdr.new .io none (((frame [1, 2]).take 10).map Ev.byte ++
      [Ev.interrupted, Ev.wouldBlock] ++ ((frame [1, 2]).drop 10).map Ev.byte)).calls
        [.read, .read, .read]).2 =
    [.ioErr .wouldBlock 0, .ok [1, 2], .ioErr .eof 0] := by decide +kernel

/-- ... but `Interrupted` is an error for the other sources -/
example : ((Rdr.new .mem none (((frame [1, 2]).take 10).map Ev.byte ++ [Ev.interrupted] ++
      ((frame [1, 2]).drop 10).map Ev.byte)).calls [.read, .read, .read]).2 =
    [.ioErr .other 10, .ioErr .eof 10, .ioErr .eof 0] := by decide +kernel

/-- a mid-stream end of input inside a frame: the two halves are not glued together (`read`
reports the 10 pending bytes with the `Eof` error, the second half is noise) -/
example : ((Rdr.new .io none (((frame [1, 2]).take 10).map Ev.byte ++ [Ev.eof] ++
      ((frame [1, 2]).drop 10).map Ev.byte)).calls [.read, .next, .next]).2 =
    [.ioErr .eof 10, .ioErr .eof 10, .none] := by decide +kernel

/-- ... and one between two frames: both are delivered, `sinceReset` of the events consumed up to
the second delivery is exactly the second frame -/
example : ((Rdr.new .io none ((frame [1, 2]).map Ev.byte ++ [Ev.eof] ++
      (frame [3]).map Ev.byte)).calls [.next, .next, .next, .next]).2 =
    [.ok [1, 2], .none, .ok [3], .none] := by decide +kernel

example : sinceReset .io ((frame [1, 2]).map Ev.byte ++ [Ev.eof] ++ (frame [3]).map Ev.byte) =
    (frame [3]).map Ev.byte := by decide +kernel

/-- `decode`: the items and the positions at which they are produced -/
example : decodeAll ([0xaa] ++ frame [1, 2] ++ [0xbb] ++ frame [3]) =
    [.err (.discarded 1), .ok [1, 2], .err (.discarded 1), .ok [3]] := by decide +kernel

example : itemPos 0 (Dec.pushAll (Dec.fresh none) ([0xaa] ++ frame [1, 2] ++ [0xbb] ++ frame [3])).2 =
    [9, 21, 30, 42] := by decide +kernel

end Sml.C02
